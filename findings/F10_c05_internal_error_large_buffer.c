/* C05 finding: opus_encode*() returns OPUS_INTERNAL_ERROR although the output buffer is large.
   A 16 kHz stereo VOIP encoder (defaults: VBR on) that is in its speech mode (a few 20 ms packets at 16 kb/s)
   is then given a 120 ms frame at a high bitrate and max_data_bytes > 2*1276.  The 120 ms packet is coded as
   2 x 60 ms frames; the per-frame budget curr_max (src/opus_encoder.c, multi-frame loop) is not limited to
   1276, the speech layer produces a frame of more than 1275 bytes, opus_repacketizer_cat() refuses it and the
   call fails.  With max_data_bytes <= 2553 the same call succeeds.
   cc -I/repo/include f_internal_error.c libopus.a -lm */
#include <stdio.h>
#include <stdlib.h>
#include <math.h>
#include "opus.h"
static unsigned int lcg = 12345;
static float noise(void) { lcg = lcg * 1664525u + 1013904223u; return (float)((int)(lcg >> 8) % 20001 - 10000) / 10000.0f; }
int main(void)
{
   int err, i, k, ret; static float pcm[2 * 1920]; static unsigned char out[4000];
   OpusEncoder *e = opus_encoder_create(16000, 2, OPUS_APPLICATION_VOIP, &err);
   opus_encoder_ctl(e, OPUS_SET_BITRATE(16000));
   for (k = 0; k < 4; k++) {
      for (i = 0; i < 2 * 320; i++) pcm[i] = 0.5f * noise();
      ret = opus_encode_float(e, pcm, 320, out, 3125);
      printf("20 ms at 16 kb/s: %d\n", ret);
   }
   opus_encoder_ctl(e, OPUS_SET_BITRATE(350000));
   for (i = 0; i < 2 * 1920; i++) pcm[i] = 0.5f * noise();
   ret = opus_encode_float(e, pcm, 1920, out, 3125);
   printf("120 ms at 350 kb/s, max_data_bytes 3125: %d (%s)\n", ret, ret < 0 ? opus_strerror(ret) : "ok");
   for (i = 0; i < 2 * 1920; i++) pcm[i] = 0.5f * noise();
   ret = opus_encode_float(e, pcm, 1920, out, 2553);
   printf("120 ms at 350 kb/s, max_data_bytes 2553: %d (%s)\n", ret, ret < 0 ? opus_strerror(ret) : "ok");
   opus_encoder_destroy(e);
   return ret < 0;
}
