/* F11 (C19): opus_pcm_soft_clip flips the sign of tiny samples.  When a frame clips before its first
   zero crossing, the clipper adds a linear ramp from the first sample to the peak ("offset -= delta" repeated
   peak_pos times, src/opus.c).  The repeated subtraction leaves a rounding residue that can have the opposite
   sign; it is added to the samples just before the peak, so a positive sample smaller than the residue comes
   out negative (the property says the clipper never flips a sample's sign).  Cleared memory, finite input.
   gcc -I/repo/include F11_c19_softclip_signflip.c <build>/libopus.a -lm
   unchanged tree:   x[14]=1e-30 -> y[14]=-6.51926e-09   flips=1 ; long frames: flips>0, max |y| of a flipped sample ~6e-5
   with the proposed fix (F11_c19_softclip_signflip.proposed_fix.diff): flips=0 flips=0 */
#include <stdio.h>
#include <string.h>
#include <math.h>
#include "opus.h"
int main(void)
{
   static const float x0[17] = { 0.704362452f, 1e-30f, 0.780430436f, 0.901427269f, 0.849869967f, 1.13762283f, 0.715072215f, 0.803308189f,
                                 1.19392478f, 1.f, 1e-30f, 1.07879603f, 1.15158617f, 1e-30f, 1e-30f, 1.32563448f, -0.37362206f };
   static float x[5760], y[5760];
   float mem = 0; int i, flips = 0, it; long lflips = 0; double worst = 0; unsigned s = 1;
   memcpy(y, x0, sizeof x0);
   opus_pcm_soft_clip(y, 17, 1, &mem);
   for (i = 0; i < 17; i++) if ((x0[i] > 0 && y[i] < 0) || (x0[i] < 0 && y[i] > 0)) { flips++; printf("x[%d]=%g -> y[%d]=%g   ", i, x0[i], i, y[i]); }
   printf("flips=%d ; ", flips);
   /* long frames: a loud first sample, tiny samples up to a peak late in the frame */
   for (it = 0; it < 2000; it++) {
      int N = 200 + (int)((s = s * 1103515245u + 12345u) >> 8) % 5560, pk = 2 + (int)((s = s * 1103515245u + 12345u) >> 8) % (N - 2);
      for (i = 0; i < N; i++) x[i] = i == 0 ? 1.5f : i < pk ? ((i & 1) ? 1e-7f : 0.f) : i == pk ? 1.9f : -0.3f;
      memcpy(y, x, N * sizeof(float)); mem = 0;
      opus_pcm_soft_clip(y, N, 1, &mem);
      for (i = 0; i < N; i++) if (x[i] > 0 && y[i] < 0) { lflips++; if (-y[i] > worst) worst = -y[i]; }
   }
   printf("long frames: flips=%ld, max |y| of a flipped sample %g\n", lflips, worst);
   return flips != 0 || lflips != 0;
}
