/* F12 (C19): the decoder gain is applied twice to the first 2.5-5 ms after a mode change without redundancy.
   opus_decode_frame() produces the frame it cross-fades from (pcm_transition) by calling itself with data=NULL;
   that inner call already multiplies by the gain, and the outer call multiplies the cross-faded samples again.
   The property says a gain of g multiplies the decoded signal by 10^(g/5120) and nothing else.
   Here: 48 kHz mono, 20 ms packets spliced from a speech-only and a transform-only encoder, twin decoders with
   gain 0 and gain 5120 (+20 dB, factor 10).
   gcc -I/repo/include F12_c19_gain_transition.c <build>/libopus.a -lm
   unchanged tree:   packets after a mode change: per-sample ratio y_g/y_0 ranges over about [-6700, 2200] instead of 10
   with the proposed fix (F12_c19_gain_transition.proposed_fix.diff): every packet min = max = 10 (to float rounding) */
#include <stdio.h>
#include <math.h>
#include "opus.h"
#define OPUS_SET_FORCE_MODE_REQUEST 11002
int main(void)
{
   int err, fs = 48000, N = 960, k, i, bad = 0;
   OpusEncoder *es = opus_encoder_create(fs, 1, OPUS_APPLICATION_VOIP, &err), *ec = opus_encoder_create(fs, 1, OPUS_APPLICATION_RESTRICTED_LOWDELAY, &err);
   OpusDecoder *d0 = opus_decoder_create(fs, 1, &err), *dg = opus_decoder_create(fs, 1, &err);
   static float in[960], y0[960], yg[960]; unsigned char ps[1500], pc[1500];
   opus_encoder_ctl(es, OPUS_SET_BITRATE(24000));
   opus_encoder_ctl(es, OPUS_SET_FORCE_MODE_REQUEST, 1000);      /* speech layer only */
   opus_decoder_ctl(dg, OPUS_SET_GAIN(5120));
   for (k = 0; k < 12; k++) {
      int useC = (k / 3) % 2, ls, lc, n0, ng; double lo = 1e30, hi = -1e30;
      for (i = 0; i < N; i++) in[i] = 0.3f * sinf(6.2831853f * 440.f * (k * N + i) / fs) + 0.1f * sinf(6.2831853f * 1234.f * (k * N + i) / fs);
      ls = opus_encode_float(es, in, N, ps, 1500); lc = opus_encode_float(ec, in, N, pc, 1500);
      n0 = opus_decode_float(d0, useC ? pc : ps, useC ? lc : ls, y0, N, 0);
      ng = opus_decode_float(dg, useC ? pc : ps, useC ? lc : ls, yg, N, 0);
      for (i = 0; i < n0 && i < ng; i++) if (fabsf(y0[i]) > 1e-6f) { double r = (double)yg[i] / y0[i]; if (r < lo) lo = r; if (r > hi) hi = r; }
      printf("packet %2d %s n=%d/%d ratio y_g/y_0: min %.6f max %.6f%s\n", k, useC ? "CELT" : "SILK", n0, ng, lo, hi, (hi - lo > 1e-3) ? "   <-- not one common factor" : "");
      if (hi - lo > 1e-3) bad++;
   }
   opus_encoder_destroy(es); opus_encoder_destroy(ec); opus_decoder_destroy(d0); opus_decoder_destroy(dg);
   return bad != 0;
}
