/* F13 (C10, fixed in /repo e069474b): opus_projection_decoder_create() / opus_projection_decoder_init() with
   channels <= 0 and a demixing matrix size of 2*channels*(streams+coupled) bytes (0, or negative) pass the matrix
   size check and then declare a variable length array of zero or fewer elements,
       ALLOC(buf, nb_input_streams * channels, opus_int16);      src/opus_projection_decoder.c
   before `channels` is validated: undefined behaviour (C99 6.7.5.2p5).  The instrumented build aborts
   ("runtime error: variable length array bound evaluates to non-positive value 0"); the production build went on
   to return OPUS_BAD_ARG from the multistream decoder's own argument check.  After the fix both calls are refused
   with OPUS_BAD_ARG before anything is sized.

   gcc -O1 -g -fsanitize=address,undefined -fno-sanitize-recover=all -I/repo/include \
       F13_c10_projection_decoder_vla.c /verif/.build/lib_hk/libopus.a -lm -o f13 && ./f13 */
#include <stdio.h>
#include "opus_projection.h"
int main(void)
{
   unsigned char m[8] = {0};
   int err = 0;
   OpusProjectionDecoder *d = opus_projection_decoder_create(48000, 0, 1, 1, m, 0, &err);
   printf("channels=0:  ptr=%p err=%d\n", (void *)d, err);
   d = opus_projection_decoder_create(48000, -1, 1, 1, m, -4, &err);
   printf("channels=-1: ptr=%p err=%d\n", (void *)d, err);
   return 0;
}
