/* opus_projection_decode() (16-bit output) wraps instead of saturating.
   src/mapping_matrix.c, mapping_matrix_multiply_channel_out_short():
       output[MATRIX_INDEX(output_rows, row, i)] += (tmp + 16384) >> 15;      (output is opus_int16 *)
   adds each input channel's product into the 16-bit output without saturation, so a demixed sum beyond +-32767 wraps around.
   Part 1 uses only the library's own first-order-ambisonics matrices: a full-scale sine on the W channel is encoded with the
   projection encoder and decoded with opus_projection_decode() and opus_projection_decode_float(); where the float output
   exceeds +-1 the 16-bit output must read +-32767 (saturate) but shows the opposite sign.
   Part 2: a caller-supplied demixing matrix (all coefficients 0.75) on a half-scale signal.
   Build: gcc F14_c13_projection_decode_wraps.c -Iinclude libopus.a -lm && ./a.out     (exit status 1 = wrapped samples found) */
#include <stdio.h>
#include <stdlib.h>
#include <string.h>
#include <math.h>
#include "opus.h"
#include "opus_multistream.h"
#include "opus_projection.h"

static int compare(const opus_int16 *p16, const float *pf, int n, const char *tag)
{
   int i, wraps = 0, first = -1;
   for (i = 0; i < n; i++) {
      double e = pf[i] * 32768.0; e = e > 32767 ? 32767 : e < -32768 ? -32768 : e;
      if (fabs(p16[i] - e) > 16384) { wraps++; if (first < 0) first = i; }
   }
   if (wraps) printf("%s: %d wrapped samples, e.g. sample %d: float %.4f -> expected %d, 16-bit output %d\n", tag, wraps, first,
                     pf[first], pf[first] > 0 ? 32767 : -32768, p16[first]);
   return wraps;
}

int main(void)
{
   int err, streams = 0, coupled = 0, i, c, k, total = 0; opus_int32 msz = 0;
   static opus_int16 x[960 * 4], y16[960 * 4]; static float yf[960 * 4]; unsigned char pkt[4000], matrix[2 * 36];
   OpusProjectionEncoder *pe = opus_projection_ambisonics_encoder_create(48000, 4, 3, &streams, &coupled, OPUS_APPLICATION_AUDIO, &err);
   OpusProjectionDecoder *d16, *df;
   if (!pe) return 2;
   opus_projection_encoder_ctl(pe, OPUS_SET_BITRATE(256000));
   opus_projection_encoder_ctl(pe, OPUS_PROJECTION_GET_DEMIXING_MATRIX_SIZE(&msz));
   opus_projection_encoder_ctl(pe, OPUS_PROJECTION_GET_DEMIXING_MATRIX(matrix, msz));
   d16 = opus_projection_decoder_create(48000, 4, streams, coupled, matrix, msz, &err);
   df = opus_projection_decoder_create(48000, 4, streams, coupled, matrix, msz, &err);
   if (!d16 || !df) return 2;
   for (k = 0; k < 50; k++) {
      int n, r1, r2;
      for (i = 0; i < 960; i++) for (c = 0; c < 4; c++)          /* full-scale 300 Hz sine on the first (W) channel, silence on the others */
         x[i * 4 + c] = c == 0 ? (opus_int16)(32767 * sin(2 * M_PI * 300.0 * (k * 960 + i) / 48000.0)) : 0;
      n = opus_projection_encode(pe, x, 960, pkt, sizeof pkt);
      if (n < 0) return 2;
      r1 = opus_projection_decode(d16, pkt, n, y16, 960, 0);
      r2 = opus_projection_decode_float(df, pkt, n, yf, 960, 0);
      if (r1 != 960 || r2 != 960) return 2;
      total += compare(y16, yf, 960 * 4, "library FOA matrices");
      if (total) break;
   }
   {  /* part 2: caller-supplied matrix, plain multistream packets (two coupled streams) */
      unsigned char map[4] = {0, 1, 2, 3}, hot[2 * 16]; int t2 = 0;
      OpusMSEncoder *me = opus_multistream_encoder_create(48000, 4, 2, 2, map, OPUS_APPLICATION_AUDIO, &err);
      OpusProjectionDecoder *h16, *hf;
      for (i = 0; i < 16; i++) { hot[2 * i] = 0x00; hot[2 * i + 1] = 0x60; }      /* 0x6000 = 24576 = 0.75 */
      h16 = opus_projection_decoder_create(48000, 4, 2, 2, hot, sizeof hot, &err);
      hf = opus_projection_decoder_create(48000, 4, 2, 2, hot, sizeof hot, &err);
      if (!me || !h16 || !hf) return 2;
      opus_multistream_encoder_ctl(me, OPUS_SET_BITRATE(256000));
      for (k = 0; k < 10 && !t2; k++) {
         int n;
         for (i = 0; i < 960; i++) for (c = 0; c < 4; c++) x[i * 4 + c] = (opus_int16)(16000 * sin(2 * M_PI * 440.0 * (k * 960 + i) / 48000.0));
         n = opus_multistream_encode(me, x, 960, pkt, sizeof pkt);
         if (n < 0) return 2;
         if (opus_projection_decode(h16, pkt, n, y16, 960, 0) != 960 || opus_projection_decode_float(hf, pkt, n, yf, 960, 0) != 960) return 2;
         t2 += compare(y16, yf, 960 * 4, "caller matrix of 0.75s, half-scale sine");
      }
      total += t2;
   }
   printf("%s: %s\n", opus_get_version_string(), total ? "16-bit projection output WRAPS" : "no wrapped sample");
   return total ? 1 : 0;
}
