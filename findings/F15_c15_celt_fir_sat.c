/* F15 (C15): celt_fir_sse4_1 does not match the portable celt_fir_c at the negative saturation rail.
   celt_fir_c rounds and saturates with SROUND16 -> [-32767, 32767]; celt_fir_sse4_1 saturates with _mm_packs_epi32 (vector
   part) and SATURATE16 (tail) -> [-32768, 32767].  Fixed-point build, arch levels 3 and 4 (CELT_FIR_IMPL).  The codec reaches
   it in the decoder's packet-loss concealment (celt_decode_lost: LPC analysis filter over the excitation) when the decoded
   signal sits at full scale (hard-clipped input): the concealed PCM at levels 3/4 then differs from levels 0-2.
   Build (fixed-point library built with -DOPUS_FIXED_POINT=ON in $B from source tree $S):
     gcc -O1 -DHAVE_CONFIG_H -DFIXED_POINT -DOPUS_BUILD -DOPUS_HAVE_RTCD -DOPUS_X86_MAY_HAVE_SSE -DOPUS_X86_MAY_HAVE_SSE2 \
         -DOPUS_X86_MAY_HAVE_SSE4_1 -DOPUS_X86_MAY_HAVE_AVX2 -DOPUS_X86_PRESUME_SSE -DOPUS_X86_PRESUME_SSE2 -DVAR_ARRAYS \
         -I$S/include -I$S/celt -I$S -I$B F15_c15_celt_fir_sat.c $B/libopus.a -lm -o f15 && ./f15
   Prints the first differing sample and exits 1 on the pinned tree; exits 0 once both kernels saturate alike. */
#include <stdio.h>
#include <string.h>
#include "arch.h"
#include "celt_lpc.h"
#include "pitch.h"

int main(void)
{
   enum { ORD = 24, N = 64 };
   opus_val16 buf[ORD + N], num[ORD], yc[N], ys[N];
   int i, bad = -1;
   for (i = 0; i < ORD + N; i++) buf[i] = -32767;            /* a signal sitting at the negative rail */
   memset(num, 0, sizeof num);
   num[0] = 2048;                                            /* y = x + 0.5 x[-1]  (Q12): -49150, saturates */
   celt_fir_c(buf + ORD, num, yc, N, ORD, 0);
   celt_fir_sse4_1(buf + ORD, num, ys, N, ORD, 0);
   for (i = 0; i < N; i++) if (yc[i] != ys[i]) { bad = i; break; }
   if (bad >= 0) { printf("celt_fir_c -> %d, celt_fir_sse4_1 -> %d at sample %d\n", yc[bad], ys[bad], bad); return 1; }
   printf("identical (%d)\n", yc[0]);
   return 0;
}
