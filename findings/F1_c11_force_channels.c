/* F1 (C11): an encode call overwrote the user's forced-channels setting.  48 kHz stereo VOIP, 80 ms frames,
   bitrate 40k -> 9k -> 64k: at the stereo->mono transition inside a multi-frame packet
   (src/opus_encoder.c, `if (bak_to_mono) st->force_channels = 1;`, never restored) OPUS_GET_FORCE_CHANNELS
   flipped from OPUS_AUTO to 1 without any ctl and the stream stayed mono at 64 kb/s.  Fixed by 8ebeae3d.
   gcc -I/repo/include F1_c11_force_channels.c <build>/libopus.a -lm
   before the fix: GET_FORCE_CHANNELS=1 from packet 4 on      after: always -1000 */
#include <stdio.h>
#include <math.h>
#include "opus.h"
int main(void){
  int err,i,j; OpusEncoder *e=opus_encoder_create(48000,2,OPUS_APPLICATION_VOIP,&err);
  static opus_int16 pcm[3840*2]; unsigned char out[1500]; opus_int32 fc; double t=0;
  for(i=0;i<12;i++){
    if(i==0) opus_encoder_ctl(e,OPUS_SET_BITRATE(40000));
    if(i==4) opus_encoder_ctl(e,OPUS_SET_BITRATE(9000));
    if(i==8) opus_encoder_ctl(e,OPUS_SET_BITRATE(64000));
    for(j=0;j<3840;j++){ double env=0.5+0.5*sin(6.28*3.7*t); pcm[2*j]=(opus_int16)(9000*env*sin(6.28*180*t)+3000*sin(6.28*1234*t)); pcm[2*j+1]=(opus_int16)(7000*env*sin(6.28*187*t+1)+3000*sin(6.28*2345*t)); t+=1/48000.; }
    int n=opus_encode(e,pcm,3840,out,1276);
    opus_encoder_ctl(e,OPUS_GET_FORCE_CHANNELS(&fc));
    printf("pkt %2d len %4d toc 0x%02x stereo=%d  GET_FORCE_CHANNELS=%d\n",i,n,out[0],(out[0]>>2)&1,fc);
  }
  opus_encoder_destroy(e); return 0; }
