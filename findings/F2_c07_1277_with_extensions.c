/* F2 (C07): "1277 bytes per selected frame always suffice" (include/opus.h:1043-1048) does not hold
   when the cat'ed packet carried an extension in its padding: the repacketizer re-emits it and the
   output needs more.  Known finding (no small safe repair: dropping extensions would remove behaviour).
   gcc -I/repo/include F2_c07_1277_with_extensions.c <build>/libopus.a -lm
   pinned tree and current tree: out(1277)=-2 out(1282)=1282 */
#include <stdio.h>
#include <string.h>
#include "opus.h"
int main(void)
{
   static unsigned char pk[1300], out[4000]; int r1, r2, n;
   OpusRepacketizer *rp = opus_repacketizer_create();
   memset(pk, 7, sizeof pk);
   pk[0] = (16 << 3) | 3; pk[1] = 0x41; pk[2] = 4;           /* code 3, 1 frame, padding flag, 4 padding bytes */
   n = 3 + 1275;                                              /* one 1275-byte frame */
   pk[n] = (40 << 1) | 0; pk[n + 1] = 1; pk[n + 2] = 2; pk[n + 3] = 3;   /* long extension id 40, L=0, 3 payload bytes */
   n += 4;
   printf("cat=%d\n", opus_repacketizer_cat(rp, pk, n));
   r1 = opus_repacketizer_out(rp, out, 1277);
   r2 = opus_repacketizer_out(rp, out, 1282);
   printf("out(1277)=%d out(1282)=%d\n", r1, r2);
   opus_repacketizer_destroy(rp);
   return !(r1 > 0);       /* exit 0 iff the documented bound held */
}
