/* F2b (C07): a packet that is valid RFC 6716 framing but whose non-zero padding is not a well-formed
   extension list was accepted by opus_repacketizer_cat, after which out/out_range and
   opus_packet_pad failed with OPUS_INTERNAL_ERROR whatever maxlen/new_len was.  Fixed by 595c56d2
   (such padding carries no extensions).
   gcc -I/repo/include F2b_c07_malformed_padding.c <build>/libopus.a -lm
   before the fix: cat=0 out(5000)=-3 pad(8->20)=-3 unpad=3      after: cat=0 out(5000)=3 pad(8->20)=0 unpad=3 */
#include <stdio.h>
#include <string.h>
#include "opus.h"
int main(void)
{
   /* code 3, 1 frame of 2 bytes, 3 padding bytes: long extension id 40 with L=1 and a laced length of 200 > what is left */
   unsigned char pk[8] = { (16 << 3) | 3, 0x41, 3, 9, 9, (40 << 1) | 1, 200, 1 }, out[5000], b[100]; int c, o, p, u;
   OpusRepacketizer *rp = opus_repacketizer_create();
   c = opus_repacketizer_cat(rp, pk, 8);
   o = opus_repacketizer_out(rp, out, 5000);
   memcpy(b, pk, 8); p = opus_packet_pad(b, 8, 20);
   memcpy(b, pk, 8); u = opus_packet_unpad(b, 8);
   printf("cat=%d out(5000)=%d pad(8->20)=%d unpad=%d\n", c, o, p, u);
   opus_repacketizer_destroy(rp);
   return !(c == 0 && o == 3 && p == 0 && u == 3);
}
