/* F2c (C07): opus_repacketizer_out_range on a valid range that contains the first frame of a two-frame
   packet but not its second frame, when that second frame carries an extension, returned OPUS_BAD_ARG
   whatever maxlen was; the range holding only the second frame silently lost the extension.  Fixed by
   f29f4e96 (a cutting range carries exactly the extensions of the selected frames).
   gcc -I/repo/include F2c_c07_range_cuts_packet.c <build>/libopus.a -lm
   before the fix: out(0,2)=10 out(0,1)=-1 out(1,2)=3 [80 08 08]
   after:          out(0,2)=10 out(0,1)=3  out(1,2)=7 [83 41 02 08 08 0b 77] */
#include <stdio.h>
#include "opus.h"
int main(void)
{
   /* code 3 CBR, 2 frames of 2 bytes, padding: separator (0x02), short extension id 5 L=1 payload 0x77 -> frame 1 */
   unsigned char a[10] = { (16 << 3) | 3, 0x42, 3, 9, 9, 8, 8, 0x02, (5 << 1) | 1, 0x77 }, out[5000]; int c, r02, r01, r12, i;
   OpusRepacketizer *rp = opus_repacketizer_create();
   c = opus_repacketizer_cat(rp, a, 10);
   printf("cat=%d nb=%d\n", c, opus_repacketizer_get_nb_frames(rp));
   r02 = opus_repacketizer_out_range(rp, 0, 2, out, 5000);
   r01 = opus_repacketizer_out_range(rp, 0, 1, out, 5000);
   r12 = opus_repacketizer_out_range(rp, 1, 2, out, 5000);
   printf("out(0,2)=%d out(0,1)=%d out(1,2)=%d [", r02, r01, r12);
   for (i = 0; i < r12; i++) printf("%s%02x", i ? " " : "", out[i]);
   printf("]\n");
   opus_repacketizer_destroy(rp);
   return !(r02 == 10 && r01 == 3 && r12 == 7 && out[5] == 0x0b && out[6] == 0x77);
}
