/* F3 (C12): after OPUS_RESET_STATE an encoder with in-band FEC enabled does not behave like a newly created encoder carrying
   the same settings.  silk_mode.LBRR_coded (the hysteresis input of decide_fec(), src/opus_encoder.c) is signal state that lives
   in front of OPUS_ENCODER_RESET_START and is therefore not cleared by the reset.
   16 kHz mono VOIP, FEC on, expected loss 10 %: 15 frames at 40 kb/s, OPUS_RESET_STATE, 20 kb/s: the first packet differs from
   the one a fresh encoder with identical settings produces from the same input.
   Build: gcc F3_c12_reset_with_fec.c -Iinclude libopus.a -lm && ./a.out      (exit status 1 = packets differ) */
#include <stdio.h>
#include <stdlib.h>
#include <string.h>
#include <math.h>
#include "opus.h"

static void gen(short *x, int n, int k, int fs)
{
   int i, h;
   for (i = 0; i < n; i++) {
      double t = (double)(k * n + i) / fs, f0 = 150 + 60 * sin(2 * M_PI * 1.3 * t), s = 0;
      for (h = 1; h <= 10; h++) if (h * f0 < 0.45 * fs) s += sin(2 * M_PI * h * f0 * t + 0.3 * h) / h;
      x[i] = (short)floor(0.3 * (0.55 + 0.35 * sin(2 * M_PI * 3.7 * t)) * s * 32767 + 0.5);
   }
}
int main(void)
{
   int fs = 16000, n = 320, err, k, r1, r2, differ = 0; short x[320]; unsigned char p1[1500], p2[1500];
   OpusEncoder *a = opus_encoder_create(fs, 1, OPUS_APPLICATION_VOIP, &err), *b = opus_encoder_create(fs, 1, OPUS_APPLICATION_VOIP, &err);
   opus_encoder_ctl(a, OPUS_SET_INBAND_FEC(1)); opus_encoder_ctl(a, OPUS_SET_PACKET_LOSS_PERC(10)); opus_encoder_ctl(a, OPUS_SET_BITRATE(40000));
   opus_encoder_ctl(b, OPUS_SET_INBAND_FEC(1)); opus_encoder_ctl(b, OPUS_SET_PACKET_LOSS_PERC(10)); opus_encoder_ctl(b, OPUS_SET_BITRATE(20000));
   for (k = 0; k < 15; k++) { gen(x, n, k, fs); r1 = opus_encode(a, x, n, p1, 1500); if (r1 < 0) return 2; }
   opus_encoder_ctl(a, OPUS_RESET_STATE);
   opus_encoder_ctl(a, OPUS_SET_BITRATE(20000));          /* now a and b carry the same settings */
   for (k = 0; k < 5; k++) {
      gen(x, n, k, fs);
      r1 = opus_encode(a, x, n, p1, 1500); r2 = opus_encode(b, x, n, p2, 1500);
      printf("frame %d: reset encoder %d bytes, fresh encoder %d bytes: %s\n", k, r1, r2, (r1 == r2 && !memcmp(p1, p2, r1)) ? "same" : "DIFFER");
      if (r1 != r2 || memcmp(p1, p2, r1)) differ = 1;
   }
   return differ;
}
