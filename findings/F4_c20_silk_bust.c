/* Finding F4 (property C20): with DTX disabled, a 2-byte packet is emitted in the middle of loud audio
   although bitrate (256 kb/s) and buffer (120 bytes for 60 ms) allow far more than three bytes per frame.
   8 kHz stereo VOIP, complexity 5, 60 ms frames, in-band FEC on, 10 % expected loss.
   Build:  gcc F4_c20_silk_bust.c -I/repo/include <build>/libopus.a -lm -o f4 && ./f4
   Prints the packet sizes; on the pinned tree one of the first 16 packets has size 2 (TOC + 0x00). */
#include <stdio.h>
#include <math.h>
#include <stdint.h>
#include "opus.h"
static uint64_t s;
static double unit(void) { uint64_t z = (s += 0x9E3779B97F4A7C15ULL); z = (z ^ (z >> 30)) * 0xBF58476D1CE4E5B9ULL;
   z = (z ^ (z >> 27)) * 0x94D049BB133111EBULL; z ^= z >> 31; return (double)(z >> 11) / 9007199254740992.0; }
int main(void) {
   int fs = 8000, ch = 2, frame = 480, i, k, h, err, tiny = 0; double ph = 0; static float x[480 * 2]; unsigned char pkt[120];
   OpusEncoder *e = opus_encoder_create(fs, ch, OPUS_APPLICATION_VOIP, &err);
   opus_encoder_ctl(e, OPUS_SET_COMPLEXITY(5)); opus_encoder_ctl(e, OPUS_SET_BITRATE(256000));
   opus_encoder_ctl(e, OPUS_SET_DTX(0)); opus_encoder_ctl(e, OPUS_SET_INBAND_FEC(1)); opus_encoder_ctl(e, OPUS_SET_PACKET_LOSS_PERC(10));
   s = 960305695ULL * 2654435761UL + 17;
   for (k = 0; k < 16; k++) {
      for (i = 0; i < frame; i++) {
         double t = (double)(k * frame + i) / fs, f0 = 150.0 + 60.0 * sin(2 * M_PI * 1.3 * t) + 25.0 * sin(2 * M_PI * 0.37 * t);
         double env = 0.55 + 0.35 * sin(2 * M_PI * 3.7 * t) * sin(2 * M_PI * 0.9 * t + 0.4), v = 0, nb;
         ph += 2 * M_PI * f0 / fs; if (ph > 2 * M_PI * 64) ph -= 2 * M_PI * 64;
         for (h = 1; h <= 12; h++) if (h * f0 < 0.45 * fs) v += sin(h * ph + 0.3 * h) / h;
         nb = (fmod(t, 0.31) < 0.06) ? 0.25 : 0.04;
         v = 0.28 * env * v + nb * env * (unit() * 2 - 1);
         x[2 * i] = (float)v; x[2 * i + 1] = (float)(0.8 * v);
      }
      { int n = opus_encode_float(e, x, frame, pkt, sizeof pkt); printf("%d%s ", n, n == 2 ? "(!)" : ""); if (n > 0 && n <= 2) tiny++; }
   }
   printf("\n%s\n", tiny ? "DEVIATION: packet of <= 2 bytes with DTX disabled" : "no tiny packet");
   opus_encoder_destroy(e); return tiny ? 1 : 0;
}
