#include <stdio.h>
#include "entenc.h"
#include "entdec.h"
int main(void){
  unsigned char buf[16]; ec_enc enc; ec_dec dec; unsigned fs; int b;
  ec_enc_init(&enc, buf, 16);
  ec_encode_bin(&enc, 255, 256, 8);     /* 8 placeholder bits, all ones, probability 2^-8 */
  ec_enc_bit_logp(&enc, 1, 3);
  ec_enc_patch_initial_bits(&enc, 2, 2); /* overwrite the first two bits with "10" */
  printf("after patch: error=%d rem=%d ext=%u offs=%u\n", enc.error, enc.rem, enc.ext, enc.offs);
  ec_enc_done(&enc);
  printf("enc.error=%d bytes=%02x %02x %02x\n", enc.error, buf[0], buf[1], buf[2]);
  ec_dec_init(&dec, buf, 16);
  fs = ec_decode_bin(&dec, 8); ec_dec_update(&dec, fs, fs+1, 256);
  b = ec_dec_bit_logp(&dec, 3);
  printf("decoded first symbol %u (documented: 0xBF=191), bit %d (encoded 1)\n", fs, b);
  return 0;
}
