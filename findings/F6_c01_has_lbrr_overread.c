/* opus_packet_has_lbrr() reads one byte past the end of a valid packet whose first frame is empty
   (e.g. the 1-byte packet {0x08}: SILK NB 20 ms, code 0, zero-length frame = DTX), and reads
   packet[0] when len == 0. */
#include <stdio.h>
#include <stdlib.h>
#include "opus.h"
int main(int argc, char **argv)
{
   unsigned char *p = (unsigned char *)malloc(1);
   int r;
   p[0] = 0x08;
   if (argc > 1) { r = opus_packet_has_lbrr(p + 1, 0); printf("len=0: %d\n", r); }
   r = opus_packet_has_lbrr(p, 1);
   printf("len=1 TOC-only SILK packet: %d\n", r);
   free(p);
   return 0;
}
