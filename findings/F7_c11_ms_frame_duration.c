/* F7 (C11): opus_multistream_encoder_ctl(OPUS_SET_EXPERT_FRAME_DURATION(x)) stored any x without the
   range check of opus_encoder_ctl and the getter read it back ("rejects an illegal value ... with the
   documented error" broken).  Fixed by 46b1a288.
   gcc -I/repo/include F7_c11_ms_frame_duration.c <build>/libopus.a -lm
   before the fix: ret=0 get=12345      after: ret=-1 get=5000 */
#include <stdio.h>
#include "opus.h"
#include "opus_multistream.h"
int main(void)
{
   int err, r; unsigned char map[3] = {0, 1, 2}; opus_int32 d = 0;
   OpusMSEncoder *e = opus_multistream_encoder_create(48000, 3, 2, 1, map, OPUS_APPLICATION_AUDIO, &err);
   r = opus_multistream_encoder_ctl(e, OPUS_SET_EXPERT_FRAME_DURATION(12345));
   opus_multistream_encoder_ctl(e, OPUS_GET_EXPERT_FRAME_DURATION(&d));
   printf("SET_EXPERT_FRAME_DURATION(12345): ret=%d get=%d\n", r, (int)d);
   opus_multistream_encoder_destroy(e);
   return !(r == OPUS_BAD_ARG && d == OPUS_FRAMESIZE_ARG);
}
