/* F8 (C11): opus_multistream_encoder_ctl(OPUS_SET_FORCE_CHANNELS(2)) on a layout with a mono stream
   (3 channels, 2 streams, 1 coupled) returned OPUS_BAD_ARG after the coupled stream had already been
   forced to 2: the fan-out loop stopped at the first refusing stream ("rejects ... and leaves all
   settings unchanged" broken).  Fixed by a0d8c0eb.
   gcc -I/repo/include F8_c11_ms_force_channels.c <build>/libopus.a -lm
   before the fix: ret=-1 stream0.fc=2 stream1.fc=-1000      after: ret=-1 stream0.fc=-1000 stream1.fc=-1000 */
#include <stdio.h>
#include "opus.h"
#include "opus_multistream.h"
int main(void)
{
   int err, r; unsigned char map[3] = {0, 1, 2}; opus_int32 a = 0, b = 0;
   OpusEncoder *s0, *s1;
   OpusMSEncoder *e = opus_multistream_encoder_create(48000, 3, 2, 1, map, OPUS_APPLICATION_AUDIO, &err);
   opus_multistream_encoder_ctl(e, OPUS_MULTISTREAM_GET_ENCODER_STATE(0, &s0));
   opus_multistream_encoder_ctl(e, OPUS_MULTISTREAM_GET_ENCODER_STATE(1, &s1));
   r = opus_multistream_encoder_ctl(e, OPUS_SET_FORCE_CHANNELS(2));
   opus_encoder_ctl(s0, OPUS_GET_FORCE_CHANNELS(&a));
   opus_encoder_ctl(s1, OPUS_GET_FORCE_CHANNELS(&b));
   printf("SET_FORCE_CHANNELS(2): ret=%d stream0.fc=%d stream1.fc=%d\n", r, (int)a, (int)b);
   opus_multistream_encoder_destroy(e);
   return !(r == OPUS_BAD_ARG && a == OPUS_AUTO && b == OPUS_AUTO);
}
