/* Reproducer: splitting a multi-frame packet that carries extensions with the repacketizer.
   (1) a range that starts inside the packet silently drops the extensions of the kept frames;
   (2) a range that starts at the packet's first frame but ends before its last one fails with
       OPUS_BAD_ARG although the range is valid. */
#include <stdio.h>
#include <string.h>
#include "opus.h"
#include "opus_private.h"
int main(void)
{
   /* 3-frame CELT packet (code 3, CBR, 2 bytes per frame), one short extension per frame */
   static const opus_extension_data ext[] = { {5, 0, (const unsigned char *)"a", 1}, {5, 1, (const unsigned char *)"b", 1}, {5, 2, (const unsigned char *)"c", 1} };
   unsigned char ebuf[64], pk[64], out[256]; int el, pos = 0, i, r, b, e;
   el = opus_packet_extensions_generate(ebuf, sizeof ebuf, ext, 3, 3, 0);
   pk[pos++] = (16 << 3) | 3; pk[pos++] = 0x40 | 3; pk[pos++] = (unsigned char)el;
   for (i = 0; i < 6; i++) pk[pos++] = (unsigned char)(0x10 + i);
   memcpy(pk + pos, ebuf, el); pos += el;
   for (b = 0; b < 3; b++) for (e = b + 1; e <= 3; e++) {
      OpusRepacketizer *rp = opus_repacketizer_create();
      r = opus_repacketizer_cat(rp, pk, pos);
      r = opus_repacketizer_out_range(rp, b, e, out, sizeof out);
      printf("range [%d,%d): ret=%d", b, e, r);
      if (r > 0) {
         const unsigned char *pad = NULL; opus_int32 padlen = 0; opus_int16 sz[48]; unsigned char toc; int po, c, k;
         opus_extension_data x[8]; opus_int32 nx = 8;
         c = opus_packet_parse_impl(out, r, 0, &toc, NULL, sz, &po, NULL, &pad, &padlen);
         opus_packet_extensions_parse(pad, padlen, x, &nx, c);
         printf(" frames=%d extensions=%d:", c, (int)nx);
         for (k = 0; k < nx; k++) printf(" (id %d frame %d '%c')", x[k].id, x[k].frame, x[k].len ? x[k].data[0] : '-');
         printf("   expected %d extension(s)", e - b);
      } else printf("   expected a packet with %d extension(s)", e - b);
      printf("\n");
      opus_repacketizer_destroy(rp);
   }
   return 0;
}
