/* Fixed-point build, complexity 10 (the setting at which the fixed-point encoder runs its signal analysis), 48 kHz, full-scale
   wide-band input: signed 64-bit overflow (undefined behaviour) in src/analysis.c, silk_resampler_down2_hp():
       hp_ener += out32_hp*(opus_val64)out32_hp;         (up to 480 terms per call)
   out32_hp is the high-pass branch of the 2:1 down-sampler in the Q12 signal domain (full scale = 2^27); for full-scale noise
   it reaches about 2^28..2^29, each square is up to 2^58 and a few hundred of them pass 2^63 before the final shift.
   Build libopus with -DOPUS_FIXED_POINT=ON and CFLAGS -fsanitize=undefined, then
       gcc Fobj1_fixedpoint_analysis_overflow.c -Iinclude libopus.a -lm -fsanitize=undefined && ./a.out
   UBSan: src/analysis.c:152:17: runtime error: signed integer overflow: ... cannot be represented in type 'long int' */
#include <stdio.h>
#include <stdlib.h>
#include "opus.h"
int main(void)
{
   int err, i, k, r = 0; static opus_int16 x[960]; unsigned char p[1500]; unsigned s = 12345;
   OpusEncoder *e = opus_encoder_create(48000, 1, OPUS_APPLICATION_AUDIO, &err);
   if (!e) return 2;
   opus_encoder_ctl(e, OPUS_SET_COMPLEXITY(10));
   for (k = 0; k < 5; k++) {
      for (i = 0; i < 960; i++) { s = s * 1664525u + 1013904223u; x[i] = (s >> 16) & 1 ? 32767 : -32768; }   /* full-scale noise */
      r = opus_encode(e, x, 960, p, 1500);
   }
   printf("%s: last packet %d bytes (no UBSan report: not reproduced)\n", opus_get_version_string(), r);
   opus_encoder_destroy(e);
   return 0;
}
