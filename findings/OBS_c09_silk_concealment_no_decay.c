/* Stand-alone reproducer: SILK-mode concealment under sustained loss does not decay when the stream
   uses 40 ms or 60 ms packets, while the same signal with 20 ms packets decays by tens of dB.
   cc plc_nodecay.c -I/repo/include /path/to/libopus.a -lm */
#include <stdio.h>
#include <math.h>
#include <stdlib.h>
#include "opus.h"
#define MODE_SILK_ONLY 1000
#define OPUS_SET_FORCE_MODE_REQUEST 11002
static double rms_db(const float *x, int n) { double e = 0; int i; for (i = 0; i < n; i++) e += (double)x[i] * x[i]; return 10 * log10(e / n + 1e-20); }
int main(void)
{
   int durs[3] = {20, 40, 60}, d;
   for (d = 0; d < 3; d++) {
      int fs = 16000, frame = fs / 1000 * durs[d], err, i, k; double ph = 0, level = -200;
      OpusEncoder *e = opus_encoder_create(fs, 1, OPUS_APPLICATION_VOIP, &err);
      OpusDecoder *dec = opus_decoder_create(fs, 1, &err);
      float *in = malloc(sizeof(float) * frame), *out = malloc(sizeof(float) * frame);
      unsigned char pkt[1500];
      opus_encoder_ctl(e, OPUS_SET_BITRATE(24000));
      opus_encoder_ctl(e, OPUS_SET_FORCE_MODE_REQUEST, MODE_SILK_ONLY);
      srand(1);
      for (k = 0; k < 2000 / durs[d]; k++) {           /* two seconds of a harmonic tone complex + noise, about -19 dBFS */
         int n;
         for (i = 0; i < frame; i++) { ph += 2 * M_PI * 220.0 / fs; in[i] = (float)(0.1 * sin(ph) + 0.05 * sin(2.5 * ph) + 0.05 * sin(3 * ph + 1) + 0.02 * (rand() / (double)RAND_MAX - 0.5)); }
         n = opus_encode_float(e, in, frame, pkt, sizeof pkt);
         opus_decode_float(dec, pkt, n, out, frame, 0);
         if (k > 5) { double l = rms_db(out, frame); if (l > level) level = l; }
      }
      printf("%2d ms packets: pre-loss level %.1f dBFS; concealed level after", durs[d], level);
      for (k = 0; k < 10000 / durs[d]; k++) {          /* ten seconds of loss */
         int n = opus_decode_float(dec, NULL, 0, out, frame, 0);
         int t = (k + 1) * durs[d];
         if (n != frame) { printf(" ret=%d", n); break; }
         if (t == 480 || t == 1020 || t == 1980 || t == 4980 || t == 9960 || t == 9980 || t == 10000) printf("  %d ms: %.1f", t, rms_db(out, frame));
      }
      printf("\n");
   }
   return 0;
}
