/* OBSERVATION made by growth module G01 (EncMode) - outside the listed properties, nothing is asserted on it.

   TLC refutes the lock-step theorem "encoder and decoder agree on which layer coded the previous frame" on the
   EncMode model as soon as a redundant frame may be dropped for lack of room (spec/cfg/EncMode_mc_w_lockstep.cfg):
   on the delayed SILK -> CELT switch the encoder sets prev_mode = CELT on the last SILK frame (to_celt,
   src/opus_encoder.c:2405) whether or not the 5 ms redundant CELT frame was really sent (compute_redundancy_bytes()
   returned 0, line 1847).  On the next, CELT-only, frame mode == prev_mode, so the encoder neither resets nor
   prefills its MDCT state (line 2337); the decoder, which saw no redundancy, resets its own (src/opus_decoder.c:578).
   If CELT had been used earlier in the stream the encoder's state is stale and the two sides predict the band
   energies from different memories: the packets still decode in lock-step as far as C02 goes (equal final range,
   equal durations), but the first CELT frames come out at the wrong level.

   This program: 48 kHz mono, 12 kb/s, 20 ms, forced CELT (loud) -> SILK -> CELT (quieter), max_data_bytes 30 so that no
   redundant frame fits.  Case B shows a dip of about 5 dB over the first four CELT frames after the switch; the
   controls (A: room for redundancy, C: MDCT state still fresh) do not.

   build:  gcc -O1 -I/repo/include OBS_g01_stale_mdct_state_after_unbridged_switch.c <build>/libopus.a -lm */
#include <stdio.h>
#include <stdlib.h>
#include <math.h>
#include "opus.h"
#define OPUS_SET_FORCE_MODE_REQUEST 11002
#define N 960
static double ph[6];
static void sig(float *x, int n, double amp) {
   static const double f[6] = {220, 277.18, 329.63, 440, 659.25, 1318.5}; int i, k;
   for (i = 0; i < n; i++) { double v = 0; for (k = 0; k < 6; k++) { ph[k] += 2 * M_PI * f[k] / 48000; v += sin(ph[k]); } x[i] = (float)(amp * v / 6); }
}
static double rmsdb(const float *x, int n) { double e = 0; int i; for (i = 0; i < n; i++) e += x[i] * x[i]; return 10 * log10(e / n + 1e-12); }
static void run(int mx, const char *label, double amp1, double amp2, int first) {
   int err, i, r; OpusEncoder *e = opus_encoder_create(48000, 1, OPUS_APPLICATION_AUDIO, &err);
   OpusDecoder *d = opus_decoder_create(48000, 1, &err); float in[N], out[N]; unsigned char pkt[1500];
   opus_encoder_ctl(e, OPUS_SET_BITRATE(12000));
   printf("%s (max_data_bytes %d)\n", label, mx);
   for (i = 0; i < 120; i++) {
      int fm = i < 40 ? first : i < 80 ? 1000 : 1002;
      double amp = i < 40 ? amp1 : amp2;          /* loud while CELT is first used, quieter later */
      opus_encoder_ctl(e, OPUS_SET_FORCE_MODE_REQUEST, fm);
      sig(in, N, amp);
      r = opus_encode_float(e, in, N, pkt, mx);
      if (opus_decode_float(d, pkt, r, out, N, 0) != N) printf("decode?\n");
      if (i >= 78 && i < 90) printf("  frame %3d toc %02x len %3d  in %6.1f dB  out %6.1f dB\n", i, pkt[0], r, rmsdb(in, N), rmsdb(out, N));
   }
   opus_encoder_destroy(e); opus_decoder_destroy(d);
}
int main(void) {
   run(1500, "A: CELT loud, SILK, CELT; room for redundancy", 0.9, 0.25, 1002);
   run(30, "B: CELT loud, SILK, CELT; no room", 0.9, 0.25, 1002);
   run(30, "C: control, SILK from the start (MDCT state fresh), no room", 0.9, 0.25, 1000);
   run(30, "D: CELT very quiet, SILK, CELT louder; no room", 0.003, 0.5, 1002);
   run(30, "E: control for D, SILK from the start", 0.003, 0.5, 1000);
   return 0; }
