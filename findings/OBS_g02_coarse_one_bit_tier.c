/* Stand-alone illustration (observation made with spec/FrameHdr.tla, witness cfg FrameHdr_mc_quirk.cfg; not a clause
   of a listed property): when the first coarse-energy symbol of an MDCT-layer frame finds exactly one bit left
   (budget - tell == 1: a hybrid frame whose speech layer used all but one bit), quant_coarse_energy_impl codes it in
   the one-bit tier.  That tier clamps only from above (qi = IMIN(0, qi)); the lower clamp qi = IMAX(-1, qi) sits in a
   block that is skipped for the first band (i != start).  An encoder that wants qi <= -2 sends the bit 1 and continues
   with its own qi (oldEBands, error), while the decoder reconstructs qi = -1: the energy state of that band differs
   between encoder and decoder.  The range coder stays in lock-step (same symbols), so final ranges agree.
   Build: cc -DHAVE_CONFIG_H -I<build> -I/repo/include -I/repo/celt -I/repo OBS_g02_coarse_one_bit_tier.c <build>/libopus.a -lm
   (compile with the library's own -D flags; it uses internal headers) */
#ifdef HAVE_CONFIG_H
#include "config.h"
#endif
#include <stdio.h>
#include <string.h>
#include "opus_custom.h"
#include "celt.h"
#include "modes.h"
#include "entenc.h"
#include "entdec.h"
#include "quant_bands.h"
int main(void)
{
   const CELTMode *m = opus_custom_mode_create(48000, 960, NULL);
   unsigned char buf[3]; ec_enc enc; ec_dec dec; int i;
   celt_glog bandLogE[42], oldE_enc[42], oldE_dec[42], error[42]; opus_val32 delayedIntra = 0;
   memset(buf, 0, sizeof buf); memset(error, 0, sizeof error);
   for (i = 0; i < 42; i++) { bandLogE[i] = -GCONST(9.f); oldE_enc[i] = oldE_dec[i] = GCONST(4.f); }   /* band energy drops by 13 (in units of 6 dB) */
   ec_enc_init(&enc, buf, 3);
   for (i = 0; i < 22; i++) ec_enc_bit_logp(&enc, 0, 1);            /* 22 bits of "speech layer": tell = 23 of 24 */
   printf("encoder: tell=%d budget=24\n", ec_tell(&enc));
   quant_coarse_energy(m, 17, 19, 19, bandLogE, oldE_enc, 24, error, &enc, 1, 0, 1, 0, &delayedIntra, 0, 0, 0);
   ec_enc_done(&enc);
   ec_dec_init(&dec, buf, 3);
   for (i = 0; i < 22; i++) (void)ec_dec_bit_logp(&dec, 1);
   unquant_coarse_energy(m, 17, 19, oldE_dec, 0, &dec, 1, 0);
   printf("band 17: encoder continues with %.3f, decoder reconstructs %.3f   (enc rng %08x, dec rng %08x)\n",
          (double)oldE_enc[17], (double)oldE_dec[17], (unsigned)enc.rng, (unsigned)dec.rng);
   printf("band 18: encoder %.3f, decoder %.3f\n", (double)oldE_enc[18], (double)oldE_dec[18]);
   return oldE_enc[17] != oldE_dec[17];
}
