/* Observation made by growth module G03 (Surround): opus_multistream_encode_native() picks the bandwidth it
   forces on every stream of a surround (mapping family 1, > 2 channels) encoder from
      equiv_rate = st->bitrate_bps;
   i.e. from the bitrate SETTING as stored.  With the default OPUS_AUTO (-1000) or with OPUS_BITRATE_MAX (-1)
   the sentinel itself is compared with 5000*channels, so every stream is forced to NARROWBAND while
   rate_allocation() resolves the same sentinels to ~300 kb/s (5.1, AUTO) or 1.5 Mb/s (MAX): a surround encoder
   that is never given an explicit bitrate codes 4 kHz of audio bandwidth at several hundred kb/s.
   spec/Surround.tla transcribes this (ForcedBandwidth, theorem SentinelsForceNarrowband); the real encoders
   agree on every recorded execution.  Not a clause of a listed property (C11 bounds the bandwidth from above only).
   cc OBS_g03_surround_auto_bitrate_narrowband.c -I/repo/include /path/to/libopus.a -lm */
#include <stdio.h>
#include <stdlib.h>
#include <math.h>
#include "opus.h"
#include "opus_multistream.h"
int main(void)
{
   opus_int32 settings[3] = {OPUS_AUTO, OPUS_BITRATE_MAX, 256000}; int k, rc = 0;
   for (k = 0; k < 3; k++) {
      int ch = 6, err, i, n = 0, S, C, j; unsigned char map[255]; opus_int32 total = 0;
      OpusMSEncoder *e; static float pcm[960 * 6]; static unsigned char out[8000];
      e = opus_multistream_surround_encoder_create(48000, ch, 1, &S, &C, map, OPUS_APPLICATION_AUDIO, &err);
      opus_multistream_encoder_ctl(e, OPUS_SET_BITRATE(settings[k]));
      for (j = 0; j < 10; j++) {
         for (i = 0; i < 960 * ch; i++) pcm[i] = 0.3f * sinf(0.05f * (i / ch + 960 * j) * (1 + i % ch));
         n = opus_multistream_encode_float(e, pcm, 960, out, sizeof out);
      }
      opus_multistream_encoder_ctl(e, OPUS_GET_BITRATE(&total));
      /* the first sub-packet starts at out[0]; its TOC tells the bandwidth */
      printf("5.1 surround, bitrate setting %6d: %4d-byte packets (streams run at %d b/s in total), bandwidth of stream 0 = %s\n",
             settings[k], n, total, opus_packet_get_bandwidth(out) == OPUS_BANDWIDTH_NARROWBAND ? "NARROWBAND" :
             opus_packet_get_bandwidth(out) == OPUS_BANDWIDTH_FULLBAND ? "fullband" : "other");
      if (settings[k] < 0 && opus_packet_get_bandwidth(out) == OPUS_BANDWIDTH_NARROWBAND) rc = 1;
      opus_multistream_encoder_destroy(e);
   }
   return rc;
}
