/* Observation made by growth module G03 (Surround): surround_rate_allocation() computes
      rate[i] = 2*channel_offset + IMAX(0, stream_offset+(channel_rate*coupled_ratio>>8));
   with channel_rate an opus_int32 and coupled_ratio = 512 as plain int products (only the division before it
   is done in 64 bits).  OPUS_SET_BITRATE on a multistream encoder admits up to 300000 b/s per INPUT channel,
   so a plain multistream encoder whose one coupled stream is fed by 29 or more input channels (duplicates or
   channels mapped to 255 count as well) reaches channel_rate > 2^31/512: signed overflow (undefined behaviour;
   UBSan: "4338000 * 512 cannot be represented in type 'int'"), and with the usual wrap-around the stream that
   was asked to run at 600 kb/s is set to 4000 b/s.  TLC refutes the theorem SafeTheorems of spec/Surround_mc.tla
   on exactly these objects (cfg/Surround_mc_witness_overflow.cfg) and proves it for every object the surround /
   ambisonics / projection create calls can make and for plain layouts up to 28 inputs per coupled stream.
   Outside the listed properties (C05 quantifies over bitrates up to 512000).
   cc OBS_g03_surround_rate_int_overflow.c -I/repo/include /path/to/libopus.a -lm */
#include <stdio.h>
#include <stdlib.h>
#include "opus.h"
#include "opus_multistream.h"
int main(int argc, char **argv)
{
   int chs[3] = {28, 29, 255}, k, rc = 0;
   (void)argc; (void)argv;
   for (k = 0; k < 3; k++) {
      int ch = chs[k], err, i, n; unsigned char map[255]; opus_int32 sb = 0;
      OpusMSEncoder *e; OpusEncoder *s0; static short pcm[960 * 255]; unsigned char out[4000];
      for (i = 0; i < ch; i++) map[i] = i % 2;
      e = opus_multistream_encoder_create(48000, ch, 1, 1, map, OPUS_APPLICATION_AUDIO, &err);
      if (!e) { printf("create failed %d\n", err); return 2; }
      err = opus_multistream_encoder_ctl(e, OPUS_SET_BITRATE(300000 * ch));
      n = opus_multistream_encode(e, pcm, 960, out, sizeof out);
      opus_multistream_encoder_ctl(e, OPUS_MULTISTREAM_GET_ENCODER_STATE(0, &s0));
      opus_encoder_ctl(s0, OPUS_GET_BITRATE(&sb));
      printf("%3d input channels on one coupled stream, OPUS_SET_BITRATE(%d) -> %d, encode -> %d, stream bitrate %d%s\n",
             ch, 300000 * ch, err, n, sb, sb < 600000 ? "   <-- wrapped" : "");
      if (sb < 600000) rc = 1;
      opus_multistream_encoder_destroy(e);
   }
   return rc;
}
