/* Observation made by growth module G08 (SilkSide2): the 8 ms predictor interpolation of silk_stereo_MS_to_LR()
   (and, with the same arithmetic, of the encoder's silk_stereo_LR_to_MS()) computes its per-sample increment as
      delta0_Q13 = silk_RSHIFT_ROUND( silk_SMULBB( pred_Q13[ 0 ] - state->pred_prev_Q13[ 0 ], denom_Q16 ), 16 );
   silk_SMULBB casts the difference to opus_int16.  pred_Q13[0] is the DIFFERENCE of two dequantised levels
   (stereo_decode_pred.c: pred[0] -= pred[1]) and ranges over -26726..26726, so the jump between two frames can reach
   +-53452 and does not fit 16 bits: for |jump| > 32767 the cast wraps, the increment gets the wrong sign and for 8 ms the
   predictor runs AWAY from its target (and past +-32767, where the (opus_int16) cast inside silk_SMLAWB wraps it again)
   before it is set to the target exactly.  TLC refutes the theorems WitnessNoWrapAnywhere / WitnessRampTowardsAlways of
   spec/SilkSide2_mc.tla (cfg/SilkSide2_mc_I_witness*.cfg) and proves that component 1 (a single level, jump <= 26726)
   never wraps.  Encoder and decoder share the arithmetic, so they stay in step; the bitstream is legal (two index sets of
   the 25x3x5x3x5 domain), so any decoder fed such a stream produces the odd 8 ms.  No listed property is broken.
   cc OBS_g08_stereo_interp_int16_wrap.c -I/repo/include -I/repo/silk -I/repo/celt -I/repo <builddir>/libopus.a -lm
   (needs the internal headers; config.h from the build directory: add -I<builddir> -DHAVE_CONFIG_H) */
#include <stdio.h>
#include <string.h>
#include "main.h"
#include "entenc.h"
#include "entdec.h"

static void decode_ix(const opus_int8 ix[2][3], opus_int32 *pred)
{
   unsigned char buf[32]; ec_enc enc; ec_dec dec; opus_int8 c[2][3];
   memcpy(c, ix, sizeof c); memset(buf, 0, sizeof buf);
   ec_enc_init(&enc, buf, sizeof buf); silk_stereo_encode_pred(&enc, c); ec_enc_done(&enc);
   ec_dec_init(&dec, buf, sizeof buf); silk_stereo_decode_pred(&dec, pred);
}

int main(void)
{
   /* frame A: pred[0] = highest level - lowest level, frame B: lowest - highest */
   static const opus_int8 ixA[2][3] = {{2, 4, 4}, {0, 0, 0}}, ixB[2][3] = {{0, 0, 0}, {2, 4, 4}};
   opus_int32 pA[2], pB[2]; stereo_dec_state st; static opus_int16 mid[162], side[162]; int n, away = 0;
   decode_ix(ixA, pA); decode_ix(ixB, pB);
   printf("frame A predictors %d %d, frame B predictors %d %d, jump of pred[0] = %d\n", (int)pA[0], (int)pA[1], (int)pB[0], (int)pB[1], (int)(pB[0] - pA[0]));
   memset(&st, 0, sizeof st);
   /* constant mid signal, no side signal: side output = (pred0 + pred1) * mid / 8192 (+1631 in the steady state of frame A, -1631 in that of frame B), so the predictor can be read off */
   for (n = 0; n < 162; n++) { mid[n] = 1000; side[n] = 0; }
   st.sMid[0] = st.sMid[1] = 1000;
   silk_stereo_MS_to_LR(&st, mid, side, pA, 8, 160);             /* frame A: state now holds A's predictors */
   for (n = 0; n < 162; n++) { mid[n] = 1000; side[n] = 0; }
   silk_stereo_MS_to_LR(&st, mid, side, pB, 8, 160);             /* frame B */
   /* left - right = 2 * side: print the reconstructed side signal over the interpolation interval and after it */
   for (n = 1; n <= 72; n += (n < 8 ? 1 : 8)) printf("sample %3d  side = %6d\n", n, (mid[n] - side[n]) / 2);
   for (n = 2; n <= 64; n++) {
      int s0 = (mid[n - 1] - side[n - 1]) / 2, s1 = (mid[n] - side[n]) / 2, target = (mid[100] - side[100]) / 2;
      if ((s1 > s0) != (target > s0) && s1 != s0) away++;
   }
   printf("steps moving away from the value reached after 8 ms: %d of 63\n", away);
   return away >= 16 ? 1 : 0;       /* 1 = the phenomenon is present */
}
