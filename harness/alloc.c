/* hx_alloc: records what the CELT bit allocation of the built library does (growth module G04, spec/Alloc.tla).
   The harness never judges: it executes calls on the real code and writes NDJSON; spec/AllocTrace.tla decides.

   Two builds of this file:
     hx_alloc     links clt_compute_allocation / init_caps / the range coder / the whole codec from libopus.a, with
                  -Wl,--wrap= on clt_compute_allocation, ec_enc_bit_logp, ec_dec_bit_logp, ec_enc_uint, ec_dec_uint:
                  every call of the allocation (ours and the codec's own) goes through __wrap_clt_compute_allocation,
                  which logs inputs, outputs and the symbols the function coded / read while it ran.
     hx_alloctu   (-DALLOC_TU) *includes* celt/rate.c and celt/bands.c of the tree under test, the only way to read
                  the file-static LOG2_FRAC_TABLE and to call the static compute_qn.
   Commands
     tables                      [ALLOC_TU] one NDJSON line with every static table the allocation reads
     qn                          [ALLOC_TU] compute_qn over (band, LM, stereo, halvings) x a grid of b; bitexact_cos /
                                 bitexact_log2tan over every itheta
     b2p                         bits2pulses / pulses2bits / get_pulses over every (LM+1, band) x every bits value
     cases                       stdin: one case per line
         P C LM st en trim tot ii di prev sbw | off[nb]        real encoder role, then real decoder role on its bytes
         D C LM st en trim tot seed ift isym dsym | sk... | off[nb]
                                                               decoder role on crafted symbols (skip bits, then
                                                               uint isym of ft if ift>0, then bit dsym if >=0, then
                                                               random bits from seed)
     situ                        stdin: one execution per line:  X seed Fs ch app npackets   |   M seed Fs app npackets
                                 real encoder + real decoder (M: 5.1 surround encoder + multistream decoder) on synthetic
                                 audio; every allocation call of both logged
*/
#ifdef HAVE_CONFIG_H
#include "config.h"
#endif
#ifdef ALLOC_TU
#include "rate.c"
#include "bands.c"
#endif
#include "hx_common.h"
#include <math.h>
#include "opus.h"
#include "opus_multistream.h"
#include "opus_private.h"
#include "celt.h"
#include "modes.h"
#include "rate.h"
#include "entenc.h"
#include "entdec.h"
#include "bands.h"

#define NBMAX 21
#define SENT (-777)

static const CELTMode *the_mode(void)
{
   int err = 0;
   const CELTMode *m = opus_custom_mode_create(48000, 960, &err);
   if (!m) { fprintf(stderr, "no static mode (%d)\n", err); exit(3); }
   if (m->nbEBands != NBMAX) { fprintf(stderr, "unexpected nbEBands %d\n", m->nbEBands); exit(3); }
   return m;
}

#ifdef ALLOC_TU
/* ------------------------------------------------------------------------------------------------ tables */
static void cmd_tables(void)
{
   const CELTMode *m = the_mode(); int i; static int a[8192];
   int nb = m->nbEBands, nidx = nb * (m->maxLM + 2), ncap = nb * (m->maxLM + 1) * 2;
   js_open("tab"); js_int("nb", nb); js_int("nav", m->nbAllocVectors); js_int("maxlm", m->maxLM);
   js_int("csize", m->cache.size); js_int("bitres", BITRES); js_int("steps", ALLOC_STEPS);
   js_int("maxfine", MAX_FINE_BITS); js_int("fineoff", FINE_OFFSET); js_int("maxpseudo", MAX_PSEUDO);
   js_int("logmaxpseudo", LOG_MAX_PSEUDO); js_int("qoff", QTHETA_OFFSET); js_int("qoff2", QTHETA_OFFSET_TWOPHASE);
   for (i = 0; i <= nb; i++) a[i] = m->eBands[i];
   js_arr_i("eb", a, nb + 1);
   for (i = 0; i < nb; i++) a[i] = m->logN[i];
   js_arr_i("logn", a, nb);
   js_arr_b("av", m->allocVectors, nb * m->nbAllocVectors);
   for (i = 0; i < nidx; i++) a[i] = m->cache.index[i];
   js_arr_i("cidx", a, nidx);
   js_arr_b("cbits", m->cache.bits, m->cache.size);
   js_arr_b("caps", m->cache.caps, ncap);
   js_arr_b("l2f", LOG2_FRAC_TABLE, (int)sizeof LOG2_FRAC_TABLE);
   js_close();
}

/* compute_qn as the band splitter calls it: N is a band width << LM, halved by every time split;
   pulse_cap = logN[band] + LM*8 (the LM after the halvings, may be -1); offset as compute_theta derives it */
static void cmd_qn(void)
{
   const CELTMode *m = the_mode(); int band, lm, stereo, h, b, i;
   static int out[4096], bs[4096];
   for (band = 0; band < m->nbEBands; band++) for (lm = 0; lm <= m->maxLM; lm++) for (stereo = 0; stereo < 2; stereo++)
      for (h = 0; h <= (stereo ? 0 : lm + 1); h++) {
         int N0 = (m->eBands[band + 1] - m->eBands[band]) << lm, N = N0 >> h, LMh = lm - h;
         int pulse_cap, offset, n = 0;
         if (N < 2 || (N0 >> h) << h != N0) continue;
         pulse_cap = m->logN[band] + LMh * (1 << BITRES);
         offset = (pulse_cap >> 1) - (stereo && N == 2 ? QTHETA_OFFSET_TWOPHASE : QTHETA_OFFSET);
         for (b = 0; b <= 12000; b += (b < 600 ? 1 : b < 3000 ? 7 : 97)) { bs[n] = b; out[n] = compute_qn(N, b, offset, pulse_cap, stereo); n++; }
         js_open("qn"); js_int("band", band); js_int("lm", LMh); js_int("N", N); js_int("st", stereo);
         js_int("pc", pulse_cap); js_int("of", offset); js_arr_i("b", bs, n); js_arr_i("q", out, n); js_close();
      }
   /* the bit-exact trigonometry the split budget is computed from, at every angle the splitter can pass:
      itheta = k*16384/qn for an even qn in 2..256 and 0 < k < qn */
   for (i = 2; i <= 256; i += 2) {
      int n = 0, k;
      static int th[260], cs[260], sn[260], lt[260];
      for (k = 1; k < i; k++) {
         int itheta = (int)celt_udiv((opus_int32)k * (opus_int32)16384, i);
         int imid = bitexact_cos((opus_int16)itheta), iside = bitexact_cos((opus_int16)(16384 - itheta));
         th[n] = itheta; cs[n] = imid; sn[n] = iside;
         lt[n] = bitexact_log2tan(iside, imid);
         n++;
      }
      js_open("trig"); js_int("qn", i); js_arr_i("th", th, n); js_arr_i("c", cs, n); js_arr_i("s", sn, n); js_arr_i("lt", lt, n); js_close();
   }
}

int main(int argc, char **argv)
{
   if (argc >= 2 && !strcmp(argv[1], "tables")) cmd_tables();
   else if (argc >= 2 && !strcmp(argv[1], "qn")) cmd_qn();
   else { fprintf(stderr, "hx_alloctu: tables | qn\n"); return 2; }
   return 0;
}

#else /* !ALLOC_TU */

/* ------------------------------------------------------------------------------------------------ wrappers */
typedef struct {
   int role;                    /* 1 = encoder, 0 = decoder */
   int C, LM, st, en, trim, tot, ii, di, prev, sbw;
   int off[NBMAX], cap[NBMAX];
   int nsk, sk[64];             /* logp-bits coded before the uint (or all of them when there is none) */
   int nu, isym, ift;           /* uints coded (0/1), value, ft */
   int nd, dsym;                /* logp-bits coded after the uint */
   int lpbad;                   /* bits coded with logp != 1 */
   int cb, io, d_o, bal;
   int p[NBMAX], e[NBMAX], f[NBMAX];
   int tf0, tf1;                /* ec_tell_frac before / after */
   int err;                     /* coder error flag afterwards */
   int inpkt;                   /* decoder role: the coder reads from the packet handed to opus_decode (not from the
                                   decoder's own built-in silence frame) */
} call_t;

#define MAXC 40
static call_t g_calls[2][MAXC];
static int g_n[2];
static call_t *g_cur;
static const unsigned char *g_pkt; static int g_pktlen;   /* the packet being decoded (in situ) */

int __real_clt_compute_allocation(const CELTMode *m, int start, int end, const int *offsets, const int *cap, int alloc_trim,
      int *intensity, int *dual_stereo, opus_int32 total, opus_int32 *balance, int *pulses, int *ebits, int *fine_priority,
      int C, int LM, ec_ctx *ec, int encode, int prev, int signalBandwidth);
void __real_ec_enc_bit_logp(ec_enc *e, int val, unsigned logp);
int __real_ec_dec_bit_logp(ec_dec *d, unsigned logp);
void __real_ec_enc_uint(ec_enc *e, opus_uint32 fl, opus_uint32 ft);
opus_uint32 __real_ec_dec_uint(ec_dec *d, opus_uint32 ft);

static void note_bit(int val, unsigned logp)
{
   call_t *c = g_cur;
   if (logp != 1) c->lpbad++;
   if (c->nu == 0) { if (c->nsk < 64) c->sk[c->nsk] = val; c->nsk++; }
   else { c->dsym = val; c->nd++; }
}
static void note_uint(long val, long ft)
{
   call_t *c = g_cur;
   if (c->nu == 0) { c->isym = (int)val; c->ift = (int)ft; }
   c->nu++;
}
void __wrap_ec_enc_bit_logp(ec_enc *e, int val, unsigned logp) { if (g_cur) note_bit(val, logp); __real_ec_enc_bit_logp(e, val, logp); }
int __wrap_ec_dec_bit_logp(ec_dec *d, unsigned logp) { int v = __real_ec_dec_bit_logp(d, logp); if (g_cur) note_bit(v, logp); return v; }
void __wrap_ec_enc_uint(ec_enc *e, opus_uint32 fl, opus_uint32 ft) { if (g_cur) note_uint((long)fl, (long)ft); __real_ec_enc_uint(e, fl, ft); }
opus_uint32 __wrap_ec_dec_uint(ec_dec *d, opus_uint32 ft) { opus_uint32 v = __real_ec_dec_uint(d, ft); if (g_cur) note_uint((long)v, (long)ft); return v; }

int __wrap_clt_compute_allocation(const CELTMode *m, int start, int end, const int *offsets, const int *cap, int alloc_trim,
      int *intensity, int *dual_stereo, opus_int32 total, opus_int32 *balance, int *pulses, int *ebits, int *fine_priority,
      int C, int LM, ec_ctx *ec, int encode, int prev, int signalBandwidth)
{
   call_t *c; int j, r, role = encode ? 1 : 0;
   if (g_n[role] >= MAXC || m->nbEBands != NBMAX) { fprintf(stderr, "hx_alloc: call table full / unexpected mode\n"); exit(3); }
   c = &g_calls[role][g_n[role]++];
   memset(c, 0, sizeof *c);
   c->role = role; c->C = C; c->LM = LM; c->st = start; c->en = end; c->trim = alloc_trim; c->tot = (int)total;
   c->ii = *intensity; c->di = *dual_stereo; c->prev = prev; c->sbw = signalBandwidth;
   c->isym = -1; c->dsym = -1;
   c->inpkt = (g_pkt == NULL) || (ec->buf >= g_pkt && ec->buf < g_pkt + g_pktlen);
   for (j = 0; j < NBMAX; j++) {
      c->off[j] = (j >= start && j < end) ? offsets[j] : 0;
      c->cap[j] = cap[j];
      pulses[j] = SENT; ebits[j] = SENT; fine_priority[j] = SENT;
   }
   *balance = SENT;
   c->tf0 = (int)ec_tell_frac(ec);
   g_cur = c;
   r = __real_clt_compute_allocation(m, start, end, offsets, cap, alloc_trim, intensity, dual_stereo, total, balance, pulses,
                                     ebits, fine_priority, C, LM, ec, encode, prev, signalBandwidth);
   g_cur = NULL;
   c->tf1 = (int)ec_tell_frac(ec);
   c->err = ec->error;
   c->cb = r; c->io = *intensity; c->d_o = *dual_stereo; c->bal = (int)*balance;
   for (j = 0; j < NBMAX; j++) { c->p[j] = pulses[j]; c->e[j] = ebits[j]; c->f[j] = fine_priority[j]; }
   return r;
}

static void put_call(const call_t *c)
{
   printf("{\"r\":%d,\"C\":%d,\"LM\":%d,\"st\":%d,\"en\":%d,\"trim\":%d,\"tot\":%d,\"ii\":%d,\"di\":%d,\"prev\":%d,\"sbw\":%d",
          c->role, c->C, c->LM, c->st, c->en, c->trim, c->tot, c->ii, c->di, c->prev, c->sbw);
   js_arr_i("off", c->off, NBMAX); js_arr_i("cap", c->cap, NBMAX);
   js_int("nsk", c->nsk); js_arr_i("sk", c->sk, c->nsk < 64 ? c->nsk : 64);
   js_int("nu", c->nu); js_int("isym", c->isym); js_int("ift", c->ift); js_int("nd", c->nd); js_int("dsym", c->dsym);
   js_int("lpbad", c->lpbad);
   js_int("cb", c->cb); js_int("io", c->io); js_int("do", c->d_o); js_int("bal", c->bal);
   js_arr_i("p", c->p, NBMAX); js_arr_i("e", c->e, NBMAX); js_arr_i("f", c->f, NBMAX);
   js_int("tf", c->tf1 - c->tf0); js_int("err", c->err); js_int("inpkt", c->inpkt);
   printf("}");
}

static void put_packet(const char *mode, const char *cmd, int idx)
{
   int i;
   printf("{\"k\":\"pkt\",\"m\":\"%s\",\"cmd\":\"%s\",\"ix\":%d,\"enc\":[", mode, cmd, idx);
   for (i = 0; i < g_n[1]; i++) { if (i) printf(","); put_call(&g_calls[1][i]); }
   printf("],\"dec\":[");
   for (i = 0; i < g_n[0]; i++) { if (i) printf(","); put_call(&g_calls[0][i]); }
   printf("]}\n");
}

/* ------------------------------------------------------------------------------------------------ stand-alone cases */
static int parse_ints(const char *s, int *a, int max)
{
   int n = 0; char *e;
   while (*s && n < max) {
      long v;
      while (*s == ' ' || *s == '\t') s++;
      if (!*s || *s == '|' || *s == '\n' || *s == '\r') break;
      v = strtol(s, &e, 10);
      if (e == s) break;
      a[n++] = (int)v; s = e;
   }
   return n;
}

static void chomp(char *s) { size_t n = strlen(s); while (n && (s[n - 1] == '\n' || s[n - 1] == '\r' || s[n - 1] == ' ')) s[--n] = 0; }

static void run_case(char *ln)
{
   const CELTMode *m = the_mode();
   int h[16], off[NBMAX + 4], sk[80], nh, no, ns = 0, j;
   int cap[NBMAX], pulses[NBMAX], ebits[NBMAX], fp[NBMAX];
   opus_int32 balance;
   unsigned char buf[64];
   char *bar1, *bar2 = NULL;
   char kind = ln[0];
   chomp(ln);
   bar1 = strchr(ln, '|');
   if (!bar1 || (kind != 'P' && kind != 'D')) { fprintf(stderr, "bad case line: %s\n", ln); exit(3); }
   nh = parse_ints(ln + 1, h, 16);
   if (kind == 'D') {
      bar2 = strchr(bar1 + 1, '|');
      if (!bar2) { fprintf(stderr, "bad D line: %s\n", ln); exit(3); }
      ns = parse_ints(bar1 + 1, sk, 80);
      no = parse_ints(bar2 + 1, off, NBMAX + 1);
   } else
      no = parse_ints(bar1 + 1, off, NBMAX + 1);
   if (nh != 10 || no != NBMAX) { fprintf(stderr, "bad case line (%d,%d): %s\n", nh, no, ln); exit(3); }
   {
      int C = h[0], LM = h[1], st = h[2], en = h[3], trim = h[4], tot = h[5];
      if (C < 1 || C > 2 || LM < 0 || LM > m->maxLM || st < 0 || st >= en || en > NBMAX) { fprintf(stderr, "case out of domain: %s\n", ln); exit(3); }
      init_caps(m, cap, LM, C);
      g_n[0] = g_n[1] = 0;
      memset(buf, 0, sizeof buf);
      if (kind == 'P') {
         ec_enc enc; ec_dec dec;
         int intensity = h[6], dual = h[7], prev = h[8], sbw = h[9];
         ec_enc_init(&enc, buf, sizeof buf);
         clt_compute_allocation(m, st, en, off, cap, trim, &intensity, &dual, tot, &balance, pulses, ebits, fp, C, LM, &enc, 1, prev, sbw);
         ec_enc_done(&enc);
         ec_dec_init(&dec, buf, sizeof buf);
         intensity = 0; dual = 0;
         clt_compute_allocation(m, st, en, off, cap, trim, &intensity, &dual, tot, &balance, pulses, ebits, fp, C, LM, &dec, 0, 0, 0);
         put_packet("pair", ln, 0);
      } else {
         ec_enc enc; ec_dec dec; hx_rng r;
         int intensity = 0, dual = 0, seed = h[6], ift = h[7], isym = h[8], dsym = h[9];
         r.s = (uint64_t)seed * 0x9E3779B97F4A7C15ULL + 12345;
         ec_enc_init(&enc, buf, sizeof buf);
         for (j = 0; j < ns; j++) ec_enc_bit_logp(&enc, sk[j] ? 1 : 0, 1);
         if (ift > 1) ec_enc_uint(&enc, (opus_uint32)isym, (opus_uint32)ift);
         if (dsym >= 0) ec_enc_bit_logp(&enc, dsym ? 1 : 0, 1);
         for (j = 0; j < 40; j++) ec_enc_bit_logp(&enc, (int)hx_u(&r, 2), 1);
         ec_enc_done(&enc);
         ec_dec_init(&dec, buf, sizeof buf);
         clt_compute_allocation(m, st, en, off, cap, trim, &intensity, &dual, tot, &balance, pulses, ebits, fp, C, LM, &dec, 0, 0, 0);
         put_packet("craft", ln, 0);
      }
   }
}

static void cmd_cases(void)
{
   static char ln[4096];
   while (fgets(ln, sizeof ln, stdin)) {
      if (ln[0] == 'P' || ln[0] == 'D') run_case(ln);
   }
}

/* ------------------------------------------------------------------------------------------------ bits2pulses */
static void cmd_b2p(void)
{
   const CELTMode *m = the_mode(); int lm, band, b, i;
   static int out[4200], p2b[64], gp[64];
   for (i = 0; i <= MAX_PSEUDO; i++) gp[i] = get_pulses(i);
   js_open("gp"); js_arr_i("g", gp, MAX_PSEUDO + 1); js_close();
   for (lm = -1; lm <= m->maxLM; lm++) for (band = 0; band < m->nbEBands; band++) {
      int N = (lm < 0) ? (m->eBands[band + 1] - m->eBands[band]) >> 1 : (m->eBands[band + 1] - m->eBands[band]) << lm;
      const unsigned char *cache;
      int np;
      if (m->cache.index[(lm + 1) * m->nbEBands + band] < 0) continue;
      cache = m->cache.bits + m->cache.index[(lm + 1) * m->nbEBands + band];
      np = cache[0];
      for (b = 0; b < 4096; b++) out[b] = bits2pulses(m, band, lm, b);
      for (i = 0; i <= np; i++) p2b[i] = pulses2bits(m, band, lm, i);
      js_open("b2p"); js_int("lm", lm); js_int("band", band); js_int("N", N); js_int("np", np);
      js_arr_i("q", out, 4096); js_arr_i("pb", p2b, np + 1); js_close();
   }
}

/* ------------------------------------------------------------------------------------------------ in situ */
#define MAXFRAME 5760
static float g_pcm[MAXFRAME * 2];
static float g_out[MAXFRAME * 2];

typedef struct { int kind; double f1, f2, amp, ph1, ph2; int left; } hsig_t;

static void sig_next(hx_rng *r, hsig_t *s, int Fs)
{
   s->kind = (int)hx_u(r, 8);
   s->f1 = 50.0 + hx_unit(r) * hx_unit(r) * (Fs / 2 - 100);
   s->f2 = 50.0 + hx_unit(r) * (Fs / 2 - 100);
   s->amp = pow(10.0, -(hx_unit(r) * 50.0) / 20.0);
   s->left = Fs / 50 * (1 + (int)hx_u(r, 30));
}

static void sig_fill(hx_rng *r, hsig_t *s, int Fs, int ch, int n, float *pcm)
{
   int i, c;
   for (i = 0; i < n; i++) {
      double v[2] = {0, 0};
      if (s->left-- <= 0) sig_next(r, s, Fs);
      s->ph1 += 2 * M_PI * s->f1 / Fs; s->ph2 += 2 * M_PI * s->f2 / Fs;
      if (s->ph1 > 2 * M_PI) s->ph1 -= 2 * M_PI;
      if (s->ph2 > 2 * M_PI) s->ph2 -= 2 * M_PI;
      switch (s->kind) {
      case 0: break;                                                                       /* digital silence */
      case 1: v[0] = v[1] = s->amp * sin(s->ph1); break;                                   /* tone, both channels */
      case 2: v[0] = s->amp * sin(s->ph1); v[1] = s->amp * sin(s->ph2); break;             /* different tones */
      case 3: v[0] = s->amp * (2 * hx_unit(r) - 1); v[1] = s->amp * (2 * hx_unit(r) - 1); break;   /* independent noise */
      case 4: { double x = s->amp * (2 * hx_unit(r) - 1); v[0] = x; v[1] = -x; } break;  /* anti-phase noise */
      case 5: v[0] = v[1] = (hx_u(r, 400) == 0) ? s->amp : 0.0; break;                    /* clicks */
      case 6: { double x = s->amp * (0.5 * sin(s->ph1) + 0.3 * sin(3 * s->ph1) + 0.1 * (2 * hx_unit(r) - 1)); v[0] = x; v[1] = 0.7 * x; } break;
      default: { double x = s->amp * sin(s->ph1) * ((s->left / (Fs / 100)) & 1); v[0] = x; v[1] = s->amp * 0.2 * (2 * hx_unit(r) - 1); } break;  /* gated tone */
      }
      for (c = 0; c < ch; c++) pcm[i * ch + c] = (float)v[c];
   }
}

static void run_situ(char *ln)
{
   int h[8], nh, err = 0, k;
   hx_rng r; hsig_t s;
   OpusEncoder *enc; OpusDecoder *dec;
   int Fs, ch, app, npk, seed, dFs, dch;
   static const int rates[5] = {8000, 12000, 16000, 24000, 48000};
   static const int durs[9] = {1, 2, 4, 8, 16, 24, 32, 40, 48};     /* units of 2.5 ms */
   static const int bws[4] = {OPUS_BANDWIDTH_NARROWBAND, OPUS_BANDWIDTH_WIDEBAND, OPUS_BANDWIDTH_SUPERWIDEBAND, OPUS_BANDWIDTH_FULLBAND};
   unsigned char pkt[1600];
   int dur = 8;
   chomp(ln);
   nh = parse_ints(ln + 1, h, 8);
   if (nh != 5) { fprintf(stderr, "bad X line: %s\n", ln); exit(3); }
   seed = h[0]; Fs = h[1]; ch = h[2]; app = h[3]; npk = h[4];
   r.s = (uint64_t)seed * 0x2545F4914F6CDD1DULL + 99;
   enc = opus_encoder_create(Fs, ch, app, &err);
   if (!enc) { fprintf(stderr, "encoder create failed %d: %s\n", err, ln); exit(3); }
   dFs = rates[hx_u(&r, 5)]; dch = 1 + (int)hx_u(&r, 2);
   if (hx_u(&r, 2)) { dFs = Fs; dch = ch; }
   dec = opus_decoder_create(dFs, dch, &err);
   if (!dec) { fprintf(stderr, "decoder create failed %d\n", err); exit(3); }
   memset(&s, 0, sizeof s); sig_next(&r, &s, Fs);
   for (k = 0; k < npk; k++) {
      int n, ret, maxb, dn;
      if (k == 0 || hx_u(&r, 6) == 0) {
         /* a settings change */
         int what = (int)hx_u(&r, 12);
         switch (k == 0 ? 100 : what) {
         case 100: {
            double u = hx_unit(&r);
            int br = (int)(6000.0 * pow(85.0, u));
            opus_encoder_ctl(enc, OPUS_SET_BITRATE(hx_u(&r, 12) == 0 ? OPUS_BITRATE_MAX : br));
            opus_encoder_ctl(enc, OPUS_SET_FORCE_MODE(hx_u(&r, 4) == 0 ? MODE_HYBRID : hx_u(&r, 3) ? MODE_CELT_ONLY : OPUS_AUTO));
            opus_encoder_ctl(enc, OPUS_SET_COMPLEXITY((int)hx_u(&r, 11)));
            opus_encoder_ctl(enc, OPUS_SET_VBR((int)hx_u(&r, 3) != 0));
            opus_encoder_ctl(enc, OPUS_SET_VBR_CONSTRAINT((int)hx_u(&r, 2)));
            if (hx_u(&r, 2)) opus_encoder_ctl(enc, OPUS_SET_MAX_BANDWIDTH(bws[hx_u(&r, 4)]));
            dur = durs[hx_u(&r, 9)];
         } break;
         case 0: case 1: case 2: { double u = hx_unit(&r); opus_encoder_ctl(enc, OPUS_SET_BITRATE((int)(6000.0 * pow(85.0, u)))); } break;
         case 3: dur = durs[hx_u(&r, 9)]; break;
         case 4: opus_encoder_ctl(enc, OPUS_SET_MAX_BANDWIDTH(bws[hx_u(&r, 4)])); break;
         case 5: opus_encoder_ctl(enc, OPUS_SET_BANDWIDTH(hx_u(&r, 2) ? OPUS_AUTO : bws[hx_u(&r, 4)])); break;
         case 6: opus_encoder_ctl(enc, OPUS_SET_FORCE_MODE(hx_u(&r, 3) == 0 ? MODE_HYBRID : hx_u(&r, 4) ? MODE_CELT_ONLY : OPUS_AUTO)); break;
         case 7: opus_encoder_ctl(enc, OPUS_SET_FORCE_CHANNELS(hx_u(&r, 2) ? OPUS_AUTO : 1 + (int)hx_u(&r, ch))); break;
         case 8: opus_encoder_ctl(enc, OPUS_SET_COMPLEXITY((int)hx_u(&r, 11))); break;
         case 9: opus_encoder_ctl(enc, OPUS_SET_VBR((int)hx_u(&r, 2))); opus_encoder_ctl(enc, OPUS_SET_VBR_CONSTRAINT((int)hx_u(&r, 2))); break;
         case 10: opus_encoder_ctl(enc, OPUS_SET_PHASE_INVERSION_DISABLED((int)hx_u(&r, 2))); opus_encoder_ctl(enc, OPUS_SET_PREDICTION_DISABLED((int)hx_u(&r, 2))); break;
         default: opus_encoder_ctl(enc, OPUS_SET_PACKET_LOSS_PERC((int)hx_u(&r, 30))); opus_encoder_ctl(enc, OPUS_SET_INBAND_FEC((int)hx_u(&r, 3))); break;
         }
      }
      n = Fs / 400 * dur;
      sig_fill(&r, &s, Fs, ch, n, g_pcm);
      switch (hx_u(&r, 10)) {
      case 0: maxb = 8 + (int)hx_u(&r, 60); break;
      case 1: maxb = 40 + (int)hx_u(&r, 400); break;
      case 2: maxb = 1275; break;
      default: maxb = 1500; break;
      }
      g_n[0] = g_n[1] = 0;
      ret = opus_encode_float(enc, g_pcm, n, pkt, maxb);
      dn = -1;
      if (ret > 0) {
         unsigned char *pk = hx_exact(pkt, (size_t)ret);
         g_pkt = pk; g_pktlen = ret;
         dn = opus_decode_float(dec, pk, ret, g_out, MAXFRAME, 0);
         g_pkt = NULL;
         free(pk);
      }
      if (g_n[0] + g_n[1] > 0) {
         char cmd[160];
         snprintf(cmd, sizeof cmd, "%s", ln);
         put_packet("situ", cmd, k);
      }
      (void)dn;
   }
   opus_encoder_destroy(enc); opus_decoder_destroy(dec);
   printf("{\"k\":\"x\",\"cmd\":\"%s\"}\n", ln);
}

/* M seed Fs app npackets : a 5.1 surround encoder (mapping family 1: two coupled streams, a mono stream and the LFE stream,
   whose allocation runs with signalBandwidth = 1) and a multistream decoder */
static void run_situ_ms(char *ln)
{
   int h[8], nh, err = 0, k, streams = 0, coupled = 0;
   unsigned char mapping[8];
   hx_rng r; hsig_t s;
   OpusMSEncoder *enc; OpusMSDecoder *dec;
   int Fs, app, npk, seed, dur = 8;
   static const int durs[7] = {1, 2, 4, 8, 16, 24, 8};
   static float pcm6[2880 * 6], out6[2880 * 6], two[2880 * 2];
   static unsigned char pkt[6000];
   chomp(ln);
   nh = parse_ints(ln + 1, h, 8);
   if (nh != 4) { fprintf(stderr, "bad M line: %s\n", ln); exit(3); }
   seed = h[0]; Fs = h[1]; app = h[2]; npk = h[3];
   r.s = (uint64_t)seed * 0x2545F4914F6CDD1DULL + 7;
   enc = opus_multistream_surround_encoder_create(Fs, 6, 1, &streams, &coupled, mapping, app, &err);
   if (!enc) { fprintf(stderr, "surround encoder create failed %d\n", err); exit(3); }
   dec = opus_multistream_decoder_create(Fs, 6, streams, coupled, mapping, &err);
   if (!dec) { fprintf(stderr, "multistream decoder create failed %d\n", err); exit(3); }
   memset(&s, 0, sizeof s); sig_next(&r, &s, Fs);
   for (k = 0; k < npk; k++) {
      int n, ret, i, c;
      if (k == 0 || hx_u(&r, 5) == 0) {
         double u = hx_unit(&r);
         opus_multistream_encoder_ctl(enc, OPUS_SET_BITRATE((int)(40000.0 * pow(15.0, u))));
         if (hx_u(&r, 3) == 0) dur = durs[hx_u(&r, 7)];
         if (hx_u(&r, 3) == 0) opus_multistream_encoder_ctl(enc, OPUS_SET_COMPLEXITY((int)hx_u(&r, 11)));
         if (hx_u(&r, 3) == 0) opus_multistream_encoder_ctl(enc, OPUS_SET_VBR((int)hx_u(&r, 2)));
      }
      n = Fs / 400 * dur;
      for (c = 0; c < 3; c++) {
         sig_fill(&r, &s, Fs, 2, n, two);
         for (i = 0; i < n; i++) { pcm6[i * 6 + 2 * c] = two[2 * i]; pcm6[i * 6 + 2 * c + 1] = two[2 * i + 1]; }
      }
      g_n[0] = g_n[1] = 0;
      ret = opus_multistream_encode_float(enc, pcm6, n, pkt, (opus_int32)sizeof pkt);
      if (ret > 0) {
         unsigned char *pk = hx_exact(pkt, (size_t)ret);
         g_pkt = pk; g_pktlen = ret;
         (void)opus_multistream_decode_float(dec, pk, ret, out6, 2880, 0);
         g_pkt = NULL;
         free(pk);
      }
      if (g_n[0] + g_n[1] > 0) put_packet("situ", ln, k);
   }
   opus_multistream_encoder_destroy(enc); opus_multistream_decoder_destroy(dec);
   printf("{\"k\":\"x\",\"cmd\":\"%s\"}\n", ln);
}

static void cmd_situ(void)
{
   static char ln[512];
   while (fgets(ln, sizeof ln, stdin)) {
      if (ln[0] == 'X') { printf("{\"k\":\"b\"}\n"); fflush(stdout); run_situ(ln); fflush(stdout); }
      else if (ln[0] == 'M') { printf("{\"k\":\"b\"}\n"); fflush(stdout); run_situ_ms(ln); fflush(stdout); }
   }
}

int main(int argc, char **argv)
{
   if (argc >= 2 && !strcmp(argv[1], "cases")) cmd_cases();
   else if (argc >= 2 && !strcmp(argv[1], "b2p")) cmd_b2p();
   else if (argc >= 2 && !strcmp(argv[1], "situ")) cmd_situ();
   else { fprintf(stderr, "hx_alloc: cases | b2p | situ\n"); return 2; }
   return 0;
}
#endif
