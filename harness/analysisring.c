/* hx_analysisring: executes call sequences on the tonality-analysis ring (src/analysis.c) and records the
   index machine after every call (modules AnalysisRing / AnalysisRingTrace, growth module G11).
   Two ways of driving it, one execution per input line (stdin):
     D fs ch seed | op op ...              direct: a stand-alone TonalityAnalysisState (heap block of exactly
                                           sizeof, so that ASan sees an index leaving it), run_analysis(),
                                           tonality_get_info(), tonality_analysis_reset/init called directly
        ops:  r<afs>,<fs>,<kind>   run_analysis(analysis_frame_size=afs, frame_size=fs) on input of <kind>
              g<len>               bare tonality_get_info(len)
              R                    tonality_analysis_reset      I   tonality_analysis_init
     E fs ch app cx seed | op op ...       in situ: a real OpusEncoder, the state read through a start-up-checked
                                           mirror (the TonalityAnalysisState inside the private OpusEncoder struct is
                                           located by its unique [arch, application, Fs] header + all-zero body)
        ops:  e<afs>,<fs>,<kind>   opus_encode_float(pcm, afs) with OPUS_SET_EXPERT_FRAME_DURATION = fs (ARG if afs==fs)
              R                    OPUS_RESET_STATE          c<n>  OPUS_SET_COMPLEXITY(n)
   kind: 0 digital silence, 1 noise (+-0.3), 2 huge noise (+-1e6 of full scale; direct only).
   Output: NDJSON; st = [write_pos, read_pos, read_subframe, count, mem_fill, analysis_offset, initialized, E_count],
   vb = the 100 info[].valid flags packed 25 per word, w = [valid, h1, h2] of the slot before the first slot written by
   the call and of every slot written (h = digest of the AnalysisInfo bytes), nzb = non-zero bytes in the reset region.
   The harness does not judge anything. */
#include "hx_common.h"
#include "opus.h"
#include "opus_private.h"
#include "analysis.h"
#include "modes.h"

extern int opus_verif_encoder_peek(const OpusEncoder *st, int field);

#define MAXOPS 4096
static float *g_pcm;
static int g_pcm_cap;
static hx_rng g_rng;

static void fill(int n, int ch, int kind)
{
   int i;
   if (n * ch > g_pcm_cap) { g_pcm_cap = n * ch + 1024; g_pcm = (float *)realloc(g_pcm, sizeof(float) * g_pcm_cap); }
   for (i = 0; i < n * ch; i++) {
      double u = hx_unit(&g_rng) * 2 - 1;
      if (u > -0.01 && u < 0.01) u = 0.01;
      g_pcm[i] = kind == 0 ? 0.f : kind == 1 ? (float)(0.3 * u) : (float)(1e6 * u);
   }
}

static int reset_region_nonzero(const TonalityAnalysisState *t)
{
   const unsigned char *b = (const unsigned char *)&t->TONALITY_ANALYSIS_RESET_START;
   size_t n = sizeof(TonalityAnalysisState) - (size_t)(b - (const unsigned char *)t), i; int c = 0;
   for (i = 0; i < n; i++) if (b[i]) c++;
   return c;
}

static void log_state(const TonalityAnalysisState *t)
{
   int st[8], vb[4] = {0, 0, 0, 0}, i;
   st[0] = t->write_pos; st[1] = t->read_pos; st[2] = t->read_subframe; st[3] = t->count; st[4] = t->mem_fill;
   st[5] = t->analysis_offset; st[6] = t->initialized; st[7] = t->E_count;
   js_arr_i("st", st, 8);
   for (i = 0; i < DETECT_SIZE; i++) if (t->info[i].valid) vb[i / 25] |= 1 << (i % 25);
   js_arr_i("vb", vb, 4);
}

static void log_written(const TonalityAnalysisState *t, int wp_pre)
{
   /* the slot before the first one written and every slot written, taken from the positions of the writer
      before and after the call (at most DETECT_SIZE entries) */
   int n, i, first = 1;
   if (wp_pre < 0 || wp_pre >= DETECT_SIZE || t->write_pos < 0 || t->write_pos >= DETECT_SIZE) { printf(",\"w\":[]"); return; }
   n = t->write_pos - wp_pre; if (n < 0) n += DETECT_SIZE;
   printf(",\"w\":[");
   for (i = -1; i < n; i++) {
      int s = (wp_pre + i + DETECT_SIZE) % DETECT_SIZE;
      uint64_t h = hx_fnv(&t->info[s], sizeof(AnalysisInfo));
      printf("%s[%d,%ld,%ld]", first ? "" : ",", t->info[s].valid != 0, (long)(h & 0x3fffffff), (long)((h >> 32) & 0x3fffffff));
      first = 0;
   }
   printf("]");
}

static void log_bw(const TonalityAnalysisState *t)
{
   int bw[DETECT_SIZE], i;
   for (i = 0; i < DETECT_SIZE; i++) bw[i] = t->info[i].bandwidth;
   js_arr_i("bw", bw, DETECT_SIZE);
}

/* ---------------------------------------------------------------- direct */
static int run_direct(char *line, int exno)
{
   int fs, ch; unsigned long seed; char *bar = strchr(line, '|'), *tok;
   TonalityAnalysisState *t; const CELTMode *mode; AnalysisInfo info; int nop = 0;
   if (!bar || sscanf(line + 1, "%d %d %lu", &fs, &ch, &seed) != 3) return 1;
   g_rng.s = seed * 2654435761u + 12345;
   mode = opus_custom_mode_create(48000, 960, NULL);
   if (!mode) { fprintf(stderr, "no mode\n"); return 2; }
   t = (TonalityAnalysisState *)malloc(sizeof(TonalityAnalysisState));
   memset(t, 0xA5, sizeof(*t));                       /* init must not depend on what the block held */
   tonality_analysis_init(t, fs);
   js_open("new"); js_int("x", exno); js_int("mode", 0); js_int("fs", fs); js_int("ch", ch); js_int("cx", 10); js_int("app", 0);
   log_state(t); js_int("nzb", reset_region_nonzero(t)); js_close();
   for (tok = strtok(bar + 1, " \t\r\n"); tok && nop < MAXOPS; tok = strtok(NULL, " \t\r\n"), nop++) {
      if (tok[0] == 'r') {
         int afs, fr, kind, wp_pre = t->write_pos, i, n;
         if (sscanf(tok + 1, "%d,%d,%d", &afs, &fr, &kind) != 3) return 1;
         fill(afs, ch, kind);
         memset(&info, 0x5A, sizeof(info));
         hx_arm(20);
         run_analysis(t, mode, g_pcm, afs, fr, 0, -2, ch, fs, 24, downmix_float, &info);
         hx_disarm();
         js_open("run"); js_int("afs", afs); js_int("fs", fr); js_int("kind", kind); js_int("r", 1);
         log_state(t); log_written(t, wp_pre); js_int("ret", info.valid != 0); js_int("rbw", info.valid ? info.bandwidth : 0);
         log_bw(t); js_close();
         /* plant distinguishable bandwidth values in the slots just written (signal-dependent content is an oracle;
            the scans of tonality_get_info are then visible in the maximum it returns) */
         n = t->write_pos - wp_pre; if (n < 0) n += DETECT_SIZE;
         if (wp_pre >= 0 && wp_pre < DETECT_SIZE && n < DETECT_SIZE)
            for (i = 0; i < n; i++) { int s = (wp_pre + i) % DETECT_SIZE; if (t->info[s].valid) t->info[s].bandwidth = 1 + (int)hx_u(&g_rng, 20); }
      } else if (tok[0] == 'g') {
         int len = atoi(tok + 1);
         memset(&info, 0x5A, sizeof(info));
         hx_arm(20);
         tonality_get_info(t, &info, len);
         hx_disarm();
         js_open("get"); js_int("len", len); log_state(t); js_int("ret", info.valid != 0); js_int("rbw", info.valid ? info.bandwidth : 0);
         log_bw(t); js_close();
      } else if (tok[0] == 'R' || tok[0] == 'I') {
         if (tok[0] == 'R') tonality_analysis_reset(t); else tonality_analysis_init(t, fs);
         js_open("rst"); log_state(t); js_int("nzb", reset_region_nonzero(t)); js_int("fsf", t->Fs); js_close();
      } else return 1;
   }
   js_open("end"); js_close();
   free(t);
   return 0;
}

/* --------------------------------------------------------------- in situ */
static const TonalityAnalysisState *locate(const OpusEncoder *enc, int fs, int ch, int app)
{
   /* the private struct is not visible here: find the unique place whose first three ints are
      [arch, application, Fs] as tonality_analysis_init + opus_encoder_init leave them and whose body is all zero */
   int size = opus_encoder_get_size(ch), arch = opus_verif_encoder_peek(enc, 18), o, found = -1, nfound = 0;
   for (o = 0; o + (int)sizeof(TonalityAnalysisState) <= size; o += 4) {
      const TonalityAnalysisState *t = (const TonalityAnalysisState *)((const char *)enc + o);
      if (t->arch == arch && t->application == app && t->Fs == fs && reset_region_nonzero(t) == 0) { found = o; nfound++; }
   }
   if (nfound != 1) { fprintf(stderr, "hx_analysisring: cannot locate the analysis state inside the encoder (%d candidates)\n", nfound); return NULL; }
   return (const TonalityAnalysisState *)((const char *)enc + found);
}

static int dur_code(int fs, int fr)
{
   int q = fr * 400 / fs;  /* 2.5 ms units */
   switch (q) { case 1: return OPUS_FRAMESIZE_2_5_MS; case 2: return OPUS_FRAMESIZE_5_MS; case 4: return OPUS_FRAMESIZE_10_MS;
      case 8: return OPUS_FRAMESIZE_20_MS; case 16: return OPUS_FRAMESIZE_40_MS; case 24: return OPUS_FRAMESIZE_60_MS;
      case 32: return OPUS_FRAMESIZE_80_MS; case 40: return OPUS_FRAMESIZE_100_MS; case 48: return OPUS_FRAMESIZE_120_MS; }
   return OPUS_FRAMESIZE_ARG;
}

static int run_insitu(char *line, int exno)
{
   int fs, ch, app, cx, err, nop = 0; unsigned long seed; char *bar = strchr(line, '|'), *tok;
   OpusEncoder *enc; const TonalityAnalysisState *t; static unsigned char pkt[4000];
   if (!bar || sscanf(line + 1, "%d %d %d %d %lu", &fs, &ch, &app, &cx, &seed) != 5) return 1;
   g_rng.s = seed * 2654435761u + 777;
   enc = opus_encoder_create(fs, ch, app, &err);
   if (!enc) { fprintf(stderr, "create failed %d\n", err); return 2; }
   t = locate(enc, fs, ch, app);
   if (!t) return 3;
   opus_encoder_ctl(enc, OPUS_SET_COMPLEXITY(cx));
   js_open("new"); js_int("x", exno); js_int("mode", 1); js_int("fs", fs); js_int("ch", ch); js_int("cx", cx); js_int("app", app);
   log_state(t); js_int("nzb", reset_region_nonzero(t)); js_close();
   for (tok = strtok(bar + 1, " \t\r\n"); tok && nop < MAXOPS; tok = strtok(NULL, " \t\r\n"), nop++) {
      if (tok[0] == 'e') {
         int afs, fr, kind, wp_pre = t->write_pos, r;
         if (sscanf(tok + 1, "%d,%d,%d", &afs, &fr, &kind) != 3) return 1;
         fill(afs, ch, kind);
         opus_encoder_ctl(enc, OPUS_SET_EXPERT_FRAME_DURATION(afs == fr ? OPUS_FRAMESIZE_ARG : dur_code(fs, fr)));
         hx_arm(30);
         r = opus_encode_float(enc, g_pcm, afs, pkt, sizeof(pkt));
         hx_disarm();
         js_open("enc"); js_int("afs", afs); js_int("fs", fr); js_int("kind", kind); js_int("r", r); js_int("cx", cx);
         log_state(t); log_written(t, wp_pre); js_int("dbw", opus_verif_encoder_peek(enc, 17));
         js_int("nzb", reset_region_nonzero(t)); js_int("dur", r > 0 ? opus_packet_get_nb_samples(pkt, r, fs) : 0); js_close();
      } else if (tok[0] == 'R') {
         opus_encoder_ctl(enc, OPUS_RESET_STATE);
         js_open("rst"); log_state(t); js_int("nzb", reset_region_nonzero(t)); js_int("fsf", t->Fs); js_close();
      } else if (tok[0] == 'c') {
         cx = atoi(tok + 1);
         opus_encoder_ctl(enc, OPUS_SET_COMPLEXITY(cx));
      } else return 1;
   }
   js_open("end"); js_close();
   opus_encoder_destroy(enc);
   return 0;
}

int main(void)
{
   static char line[1 << 20]; int exno = 0, rc;
   hx_watchdog_init();
   while (fgets(line, sizeof(line), stdin)) {
      if (line[0] == 'D') rc = run_direct(line, ++exno);
      else if (line[0] == 'E') rc = run_insitu(line, ++exno);
      else continue;
      if (rc) { fprintf(stderr, "hx_analysisring: bad line or set-up failure (%d): %.60s\n", rc, line); return 3; }
   }
   free(g_pcm);
   return 0;
}
