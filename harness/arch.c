/* hx_arch: binding of modules ArchTwins / ArchTrace (property C15) to the real library.
   The harness only executes and records; every comparison of a property clause is made by TLC (ArchTrace).

   Commands
     hx_arch tables                      print the run-time dispatch tables of this build, one "tab" event per table:
                                         which implementation each arch level 0..4 selects (pointer -> symbol name)
     hx_arch kern <seed> <n> <kout>      synthetic argument shapes for every kernel that can be called directly
                                         (lengths incl. 0..3 tails, odd alignments, exact-size heap buffers, extremes
                                         inside the value range in which the portable C code is free of overflow)
     hx_arch twins <kout> < histories    replay TLC-generated histories with one encoder and two decoders per arch
                                         level (hook H1: OPUS_VERIF_ARCH_CAP is set before each object is created);
                                         stdout: "tab", "new", "enc", "dec", "end", "reach" events;
                                         <kout>: "kc" (kernel case) and "is" (in-situ summary) events
   Every SIMD kernel of the library is reached through a linker wrapper (-Wl,--wrap=<symbol>): the wrapper counts
   the call for the arch level in force, runs the SIMD kernel on the caller's real arguments and the portable C
   kernel on copies, and records both results ("in situ": exactly the argument shapes the codec passes).

   History line:  H id app fs ch cx br br2 fec durq vbr run sigseed | tok tok ...
     tok: o = run of frames decoded normally, l = run lost (concealment), f = run lost and recovered from the
          next packet's in-band FEC where there is one, s = the encoder switches to bitrate br2, then like o.
   Kernel classes and tolerances live in spec/ArchTwins.tla; nothing is judged here. */
#include "hx_common.h"
#include <math.h>
#include <float.h>
#include "opus.h"
#include "arch.h"
#include "cpu_support.h"
#include "pitch.h"
#include "celt_lpc.h"
#include "vq.h"
#include "celt.h"
#include "main.h"
#ifdef FIXED_POINT
#include "main_FIX.h"
#define FX 1
#else
#include "SigProc_FLP.h"
#define FX 0
#endif

#ifdef OPUS_VERIF
extern int opus_verif_encoder_peek(const OpusEncoder *st, int field);
extern int opus_verif_decoder_peek(const OpusDecoder *st, int field);
#endif

typedef void (*fp_t)(void);
#define NSHAPE 192
typedef struct {
   const char *impl, *kern;
   long calls[5];          /* calls made by the codec while objects of arch level i were running */
   long cmp, neq;          /* in-situ comparisons made / with differing result (integer kernels) */
   long rworst, nworst;    /* float kernels: the worst case seen (r, n) by r/(2n+4) */
   long nfcount, nfcount2; /* float kernels: calls whose data were not finite (nothing asserted); PVQ: degenerate inputs logged */
   int nshape, nlog;
   uint64_t shapes[NSHAPE];
} kinfo;

static FILE *kout;
static int g_level;        /* arch level of the objects currently running (twins) */
static int g_insitu;       /* compare inside the wrappers */
static int g_inref;        /* > 0 while a reference kernel runs: nested wrappers only forward */
static int g_logall;       /* log every comparison (synthetic mode) */
static int g_nest;         /* > 0 while a SIMD kernel that itself dispatches to other kernels runs */
static const char *g_mode = "situ";

static int new_shape(kinfo *k, const int *shape, int ns)
{
   uint64_t h = hx_fnv(shape, sizeof(int) * (size_t)ns) | 1; int i;
   for (i = 0; i < k->nshape; i++) if (k->shapes[i] == h) return 0;
   if (k->nshape >= NSHAPE) return 0;
   k->shapes[k->nshape++] = h;
   return 1;
}
static void kc_head(kinfo *k, const int *shape, int ns)
{
   int i;
   fprintf(kout, "{\"k\":\"kc\",\"kern\":\"%s\",\"impl\":\"%s\",\"fx\":%d,\"mode\":\"%s\",\"shape\":[", k->kern, k->impl, FX, g_mode);
   for (i = 0; i < ns; i++) fprintf(kout, i ? ",%d" : "%d", shape[i]);
   fprintf(kout, "]");
}
/* integer kernel: digests of everything the two implementations produced */
static long g_nd, g_nsat;      /* celt_fir: samples that differ / that differ as "-32767 (portable) against -32768 (SIMD)" */
static void rec_int(kinfo *k, const int *shape, int ns, uint64_t ref, uint64_t got)
{
   int differ = ref != got, fresh;
   k->cmp++; if (differ) k->neq++;
   fresh = new_shape(k, shape, ns);
   if ((g_logall && !g_nest) || fresh || (differ && k->nlog < 24)) {
      if (differ) k->nlog++;
      kc_head(k, shape, ns);
      fprintf(kout, ",\"cls\":\"int\",\"ref\":\"%016llx\",\"got\":\"%016llx\",\"nd\":%ld,\"nsat\":%ld}\n", (unsigned long long)ref, (unsigned long long)got, g_nd, g_nsat);
   }
   g_nd = g_nsat = 0;
}
/* float kernel: r = |got-ref| in units of 2^-24 * (sum of the magnitudes of the terms), n = number of terms */
/* g_nf: the terms of the last measured case are not finite (NaN / Inf data) or so large that single precision overflows:
   "within reassociation error" says nothing there; the case is recorded with nf = 1 and no r */
static int g_nf;
static long r_units(double diff, double S, int n)
{
   double u = ldexp(1.0, -24), den = u * (S + (double)(n + 1) * FLT_MIN), r;
   if (!(S == S) || S > 1e30) { g_nf = 1; return 0; }
   if (!(diff == diff)) return 1000000000L;
   if (diff < 0) diff = -diff;
   if (diff == 0) return 0;
   r = ceil(diff / den);
   if (!(r < 1e9)) return 1000000000L;
   return (long)r;
}
static void rec_flt(kinfo *k, const int *shape, int ns, long r, int n)
{
   int fresh, worse, nf = g_nf;
   g_nf = 0;
   k->cmp++;
   if (nf) {
      k->nfcount++;
      if (g_logall || k->nfcount <= 8) { kc_head(k, shape, ns); fprintf(kout, ",\"cls\":\"flt\",\"nf\":1,\"r\":0,\"n\":%d}\n", n); }
      return;
   }
   worse = (double)r * (2.0 * k->nworst + 4) > (double)k->rworst * (2.0 * n + 4);
   if (worse) { k->rworst = r; k->nworst = n; }
   fresh = new_shape(k, shape, ns);
   if ((g_logall && !g_nest) || fresh || (worse && k->nlog < 400)) {
      if (worse) k->nlog++;
      kc_head(k, shape, ns);
      fprintf(kout, ",\"cls\":\"flt\",\"nf\":0,\"r\":%ld,\"n\":%d}\n", r, n);
   }
}
static int al8(const void *p) { return (int)((size_t)p & 31); }
#define ENTER(k) do { (k).calls[g_level]++; } while (0)
#define PLAIN() (g_inref || !g_insitu)

/* ------------------------------------------------------------------------------------------------
   wrappers.  HAVE_<symbol> is passed by the check for every kernel symbol defined in libopus.a. */

#if FX
#ifdef HAVE_celt_inner_prod_sse2
static kinfo K_cip_sse2 = { "celt_inner_prod_sse2", "celt_inner_prod" };
opus_val32 __real_celt_inner_prod_sse2(const opus_val16 *x, const opus_val16 *y, int N);
opus_val32 __wrap_celt_inner_prod_sse2(const opus_val16 *x, const opus_val16 *y, int N)
{
   opus_val32 got, ref; int sh[3];
   ENTER(K_cip_sse2);
   got = __real_celt_inner_prod_sse2(x, y, N);
   if (PLAIN()) return got;
   g_inref++; ref = celt_inner_prod_c(x, y, N); g_inref--;
   sh[0] = N; sh[1] = al8(x) & 15; sh[2] = al8(y) & 15;
   rec_int(&K_cip_sse2, sh, 3, hx_fnv(&ref, sizeof ref), hx_fnv(&got, sizeof got));
   return got;
}
#endif
#ifdef HAVE_celt_inner_prod_sse4_1
static kinfo K_cip_sse41 = { "celt_inner_prod_sse4_1", "celt_inner_prod" };
opus_val32 __real_celt_inner_prod_sse4_1(const opus_val16 *x, const opus_val16 *y, int N);
opus_val32 __wrap_celt_inner_prod_sse4_1(const opus_val16 *x, const opus_val16 *y, int N)
{
   opus_val32 got, ref; int sh[3];
   ENTER(K_cip_sse41);
   got = __real_celt_inner_prod_sse4_1(x, y, N);
   if (PLAIN()) return got;
   g_inref++; ref = celt_inner_prod_c(x, y, N); g_inref--;
   sh[0] = N; sh[1] = al8(x) & 15; sh[2] = al8(y) & 15;
   rec_int(&K_cip_sse41, sh, 3, hx_fnv(&ref, sizeof ref), hx_fnv(&got, sizeof got));
   return got;
}
#endif
#ifdef HAVE_xcorr_kernel_sse4_1
static kinfo K_xk_sse41 = { "xcorr_kernel_sse4_1", "xcorr_kernel" };
void __real_xcorr_kernel_sse4_1(const opus_val16 *x, const opus_val16 *y, opus_val32 sum[4], int len);
void __wrap_xcorr_kernel_sse4_1(const opus_val16 *x, const opus_val16 *y, opus_val32 sum[4], int len)
{
   opus_val32 s2[4]; int sh[3];
   ENTER(K_xk_sse41);
   if (PLAIN()) { __real_xcorr_kernel_sse4_1(x, y, sum, len); return; }
   memcpy(s2, sum, sizeof s2);
   __real_xcorr_kernel_sse4_1(x, y, sum, len);
   g_inref++; xcorr_kernel_c(x, y, s2, len); g_inref--;
   sh[0] = len; sh[1] = al8(x) & 15; sh[2] = al8(y) & 15;
   rec_int(&K_xk_sse41, sh, 3, hx_fnv(s2, sizeof s2), hx_fnv(sum, sizeof s2));
}
#endif
#ifdef HAVE_celt_fir_sse4_1
static kinfo K_fir_sse41 = { "celt_fir_sse4_1", "celt_fir" };
void __real_celt_fir_sse4_1(const opus_val16 *x, const opus_val16 *num, opus_val16 *y, int N, int ord, int arch);
void __wrap_celt_fir_sse4_1(const opus_val16 *x, const opus_val16 *num, opus_val16 *y, int N, int ord, int arch)
{
   opus_val16 *y2; int sh[3];
   ENTER(K_fir_sse41);
   if (PLAIN()) { __real_celt_fir_sse4_1(x, num, y, N, ord, arch); return; }
   g_nest++; __real_celt_fir_sse4_1(x, num, y, N, ord, arch); g_nest--;
   y2 = (opus_val16 *)malloc(sizeof(opus_val16) * (size_t)(N > 0 ? N : 1));
   g_inref++; celt_fir_c(x, num, y2, N, ord, 0); g_inref--;
   { int k; g_nd = g_nsat = 0; for (k = 0; k < N; k++) if (y[k] != y2[k]) { g_nd++; if (y2[k] == -32767 && y[k] == -32768) g_nsat++; } }
   sh[0] = N; sh[1] = ord; sh[2] = al8(x) & 15;
   rec_int(&K_fir_sse41, sh, 3, hx_fnv(y2, sizeof(opus_val16) * (size_t)N), hx_fnv(y, sizeof(opus_val16) * (size_t)N));
   free(y2);
}
#endif
#ifdef HAVE_silk_inner_prod16_sse4_1
static kinfo K_sip16 = { "silk_inner_prod16_sse4_1", "silk_inner_prod16" };
opus_int64 __real_silk_inner_prod16_sse4_1(const opus_int16 *a, const opus_int16 *b, const opus_int len);
opus_int64 __wrap_silk_inner_prod16_sse4_1(const opus_int16 *a, const opus_int16 *b, const opus_int len)
{
   opus_int64 got, ref; int sh[3];
   ENTER(K_sip16);
   got = __real_silk_inner_prod16_sse4_1(a, b, len);
   if (PLAIN()) return got;
   g_inref++; ref = silk_inner_prod16_c(a, b, len); g_inref--;
   sh[0] = len; sh[1] = al8(a) & 15; sh[2] = al8(b) & 15;
   rec_int(&K_sip16, sh, 3, hx_fnv(&ref, sizeof ref), hx_fnv(&got, sizeof got));
   return got;
}
#endif
#ifdef HAVE_silk_burg_modified_sse4_1
static kinfo K_burg = { "silk_burg_modified_sse4_1", "silk_burg_modified" };
void __real_silk_burg_modified_sse4_1(opus_int32 *res_nrg, opus_int *res_nrg_Q, opus_int32 A_Q16[], const opus_int16 x[],
      const opus_int32 minInvGain_Q30, const opus_int subfr_length, const opus_int nb_subfr, const opus_int D, int arch);
void __wrap_silk_burg_modified_sse4_1(opus_int32 *res_nrg, opus_int *res_nrg_Q, opus_int32 A_Q16[], const opus_int16 x[],
      const opus_int32 minInvGain_Q30, const opus_int subfr_length, const opus_int nb_subfr, const opus_int D, int arch)
{
   opus_int32 rn2, A2[64]; opus_int rq2; int sh[3]; uint64_t a, b;
   ENTER(K_burg);
   if (PLAIN() || D > 64) { __real_silk_burg_modified_sse4_1(res_nrg, res_nrg_Q, A_Q16, x, minInvGain_Q30, subfr_length, nb_subfr, D, arch); return; }
   rn2 = *res_nrg; rq2 = *res_nrg_Q; memcpy(A2, A_Q16, sizeof(opus_int32) * (size_t)D);
   g_nest++; __real_silk_burg_modified_sse4_1(res_nrg, res_nrg_Q, A_Q16, x, minInvGain_Q30, subfr_length, nb_subfr, D, arch); g_nest--;
   g_inref++; silk_burg_modified_c(&rn2, &rq2, A2, x, minInvGain_Q30, subfr_length, nb_subfr, D, 0); g_inref--;
   a = hx_fnv(A2, sizeof(opus_int32) * (size_t)D) ^ (uint64_t)(uint32_t)rn2 * 31 ^ (uint64_t)(uint32_t)rq2 * 1000003;
   b = hx_fnv(A_Q16, sizeof(opus_int32) * (size_t)D) ^ (uint64_t)(uint32_t)*res_nrg * 31 ^ (uint64_t)(uint32_t)*res_nrg_Q * 1000003;
   sh[0] = subfr_length; sh[1] = nb_subfr; sh[2] = D;
   rec_int(&K_burg, sh, 3, a, b);
}
#endif
#endif /* FX */

/* ---- SILK integer kernels (both builds) */
#define NSQ_PARAMS const silk_encoder_state *psEncC, silk_nsq_state *NSQ, SideInfoIndices *psIndices, const opus_int16 x16[], \
   opus_int8 pulses[], const opus_int16 *PredCoef_Q12, const opus_int16 LTPCoef_Q14[LTP_ORDER * MAX_NB_SUBFR], \
   const opus_int16 AR_Q13[MAX_NB_SUBFR * MAX_SHAPE_LPC_ORDER], const opus_int HarmShapeGain_Q14[MAX_NB_SUBFR], \
   const opus_int Tilt_Q14[MAX_NB_SUBFR], const opus_int32 LF_shp_Q14[MAX_NB_SUBFR], const opus_int32 Gains_Q16[MAX_NB_SUBFR], \
   const opus_int pitchL[MAX_NB_SUBFR], const opus_int Lambda_Q10, const opus_int LTP_scale_Q14
#define NSQ_ARGS(n, i, p) psEncC, n, i, x16, p, PredCoef_Q12, LTPCoef_Q14, AR_Q13, HarmShapeGain_Q14, Tilt_Q14, LF_shp_Q14, Gains_Q16, pitchL, Lambda_Q10, LTP_scale_Q14

typedef void (*nsq_fn)(NSQ_PARAMS);
static void nsq_check(kinfo *k, nsq_fn real, nsq_fn ref, NSQ_PARAMS)
{
   silk_nsq_state *n2; SideInfoIndices i2; opus_int8 p2[MAX_FRAME_LENGTH]; int fl = psEncC->nb_subfr * psEncC->subfr_length;
   int sh[8]; uint64_t a, b;
   if (PLAIN() || fl > MAX_FRAME_LENGTH || fl < 0) { real(NSQ_ARGS(NSQ, psIndices, pulses)); return; }
   n2 = (silk_nsq_state *)malloc(sizeof *n2);
   memcpy(n2, NSQ, sizeof *n2); memcpy(&i2, psIndices, sizeof i2); memcpy(p2, pulses, (size_t)fl);
   real(NSQ_ARGS(NSQ, psIndices, pulses));
   g_inref++; ref(NSQ_ARGS(n2, &i2, p2)); g_inref--;
   a = hx_fnv(n2, sizeof *n2) ^ hx_fnv(&i2, sizeof i2) * 3 ^ hx_fnv(p2, (size_t)fl) * 7;
   b = hx_fnv(NSQ, sizeof *n2) ^ hx_fnv(psIndices, sizeof i2) * 3 ^ hx_fnv(pulses, (size_t)fl) * 7;
   sh[0] = psEncC->fs_kHz; sh[1] = psEncC->nb_subfr; sh[2] = psEncC->nStatesDelayedDecision; sh[3] = psIndices->signalType;
   sh[4] = psEncC->shapingLPCOrder; sh[5] = psEncC->predictLPCOrder; sh[6] = psIndices->NLSFInterpCoef_Q2 == 4; sh[7] = psEncC->warping_Q16 != 0;
   rec_int(k, sh, 8, a, b);
   free(n2);
}
#ifdef HAVE_silk_NSQ_sse4_1
static kinfo K_nsq = { "silk_NSQ_sse4_1", "silk_NSQ" };
void __real_silk_NSQ_sse4_1(NSQ_PARAMS);
void __wrap_silk_NSQ_sse4_1(NSQ_PARAMS) { ENTER(K_nsq); nsq_check(&K_nsq, __real_silk_NSQ_sse4_1, silk_NSQ_c, NSQ_ARGS(NSQ, psIndices, pulses)); }
#endif
#ifdef HAVE_silk_NSQ_del_dec_sse4_1
static kinfo K_dd41 = { "silk_NSQ_del_dec_sse4_1", "silk_NSQ_del_dec" };
void __real_silk_NSQ_del_dec_sse4_1(NSQ_PARAMS);
void __wrap_silk_NSQ_del_dec_sse4_1(NSQ_PARAMS) { ENTER(K_dd41); nsq_check(&K_dd41, __real_silk_NSQ_del_dec_sse4_1, silk_NSQ_del_dec_c, NSQ_ARGS(NSQ, psIndices, pulses)); }
#endif
#ifdef HAVE_silk_NSQ_del_dec_avx2
static kinfo K_ddavx = { "silk_NSQ_del_dec_avx2", "silk_NSQ_del_dec" };
void __real_silk_NSQ_del_dec_avx2(NSQ_PARAMS);
void __wrap_silk_NSQ_del_dec_avx2(NSQ_PARAMS) { ENTER(K_ddavx); nsq_check(&K_ddavx, __real_silk_NSQ_del_dec_avx2, silk_NSQ_del_dec_c, NSQ_ARGS(NSQ, psIndices, pulses)); }
#endif
#ifdef HAVE_silk_VAD_GetSA_Q8_sse4_1
static kinfo K_vad = { "silk_VAD_GetSA_Q8_sse4_1", "silk_VAD_GetSA_Q8" };
opus_int __real_silk_VAD_GetSA_Q8_sse4_1(silk_encoder_state *psEncC, const opus_int16 pIn[]);
opus_int __wrap_silk_VAD_GetSA_Q8_sse4_1(silk_encoder_state *psEncC, const opus_int16 pIn[])
{
   silk_encoder_state *c2; opus_int got, ref; int sh[2]; uint64_t a, b;
   ENTER(K_vad);
   if (PLAIN()) return __real_silk_VAD_GetSA_Q8_sse4_1(psEncC, pIn);
   c2 = (silk_encoder_state *)malloc(sizeof *c2);
   memcpy(c2, psEncC, sizeof *c2);
   got = __real_silk_VAD_GetSA_Q8_sse4_1(psEncC, pIn);
   g_inref++; ref = silk_VAD_GetSA_Q8_c(c2, pIn); g_inref--;
   a = hx_fnv(c2, sizeof *c2) ^ (uint64_t)(uint32_t)ref * 131;
   b = hx_fnv(psEncC, sizeof *c2) ^ (uint64_t)(uint32_t)got * 131;
   sh[0] = psEncC->fs_kHz; sh[1] = psEncC->frame_length;
   rec_int(&K_vad, sh, 2, a, b);
   free(c2);
   return got;
}
#endif
#ifdef HAVE_silk_VQ_WMat_EC_sse4_1
static kinfo K_vq = { "silk_VQ_WMat_EC_sse4_1", "silk_VQ_WMat_EC" };
void __real_silk_VQ_WMat_EC_sse4_1(opus_int8 *ind, opus_int32 *res_nrg_Q15, opus_int32 *rate_dist_Q8, opus_int *gain_Q7,
      const opus_int32 *XX_Q17, const opus_int32 *xX_Q17, const opus_int8 *cb_Q7, const opus_uint8 *cb_gain_Q7,
      const opus_uint8 *cl_Q5, const opus_int subfr_len, const opus_int32 max_gain_Q7, const opus_int L);
void __wrap_silk_VQ_WMat_EC_sse4_1(opus_int8 *ind, opus_int32 *res_nrg_Q15, opus_int32 *rate_dist_Q8, opus_int *gain_Q7,
      const opus_int32 *XX_Q17, const opus_int32 *xX_Q17, const opus_int8 *cb_Q7, const opus_uint8 *cb_gain_Q7,
      const opus_uint8 *cl_Q5, const opus_int subfr_len, const opus_int32 max_gain_Q7, const opus_int L)
{
   opus_int8 i2; opus_int32 rn2, rd2; opus_int g2; int sh[2]; opus_int32 o1[4], o2[4];
   ENTER(K_vq);
   if (PLAIN()) { __real_silk_VQ_WMat_EC_sse4_1(ind, res_nrg_Q15, rate_dist_Q8, gain_Q7, XX_Q17, xX_Q17, cb_Q7, cb_gain_Q7, cl_Q5, subfr_len, max_gain_Q7, L); return; }
   i2 = *ind; rn2 = *res_nrg_Q15; rd2 = *rate_dist_Q8; g2 = *gain_Q7;
   __real_silk_VQ_WMat_EC_sse4_1(ind, res_nrg_Q15, rate_dist_Q8, gain_Q7, XX_Q17, xX_Q17, cb_Q7, cb_gain_Q7, cl_Q5, subfr_len, max_gain_Q7, L);
   g_inref++; silk_VQ_WMat_EC_c(&i2, &rn2, &rd2, &g2, XX_Q17, xX_Q17, cb_Q7, cb_gain_Q7, cl_Q5, subfr_len, max_gain_Q7, L); g_inref--;
   o1[0] = i2; o1[1] = rn2; o1[2] = rd2; o1[3] = g2;
   o2[0] = *ind; o2[1] = *res_nrg_Q15; o2[2] = *rate_dist_Q8; o2[3] = *gain_Q7;
   sh[0] = subfr_len; sh[1] = L;
   rec_int(&K_vq, sh, 2, hx_fnv(o1, sizeof o1), hx_fnv(o2, sizeof o2));
}
#endif

#if !FX
/* ---- float kernels */
static double absd(double v) { return v < 0 ? -v : v; }
#ifdef HAVE_xcorr_kernel_sse
static kinfo K_xk_sse = { "xcorr_kernel_sse", "xcorr_kernel" };
void __real_xcorr_kernel_sse(const opus_val16 *x, const opus_val16 *y, opus_val32 sum[4], int len);
void __wrap_xcorr_kernel_sse(const opus_val16 *x, const opus_val16 *y, opus_val32 sum[4], int len)
{
   opus_val32 s0[4], s2[4]; int sh[3], k, j; long r = 0;
   ENTER(K_xk_sse);
   if (PLAIN() || len < 3) { __real_xcorr_kernel_sse(x, y, sum, len); return; }
   memcpy(s0, sum, sizeof s0); memcpy(s2, sum, sizeof s2);
   __real_xcorr_kernel_sse(x, y, sum, len);
   g_inref++; xcorr_kernel_c(x, y, s2, len); g_inref--;
   for (k = 0; k < 4; k++) {
      double S = absd(s0[k]); long rk;
      for (j = 0; j < len; j++) S += absd((double)x[j] * y[j + k]);
      rk = r_units((double)sum[k] - (double)s2[k], S, len + 1);
      if (rk > r) r = rk;
   }
   sh[0] = len; sh[1] = al8(x) & 15; sh[2] = al8(y) & 15;
   rec_flt(&K_xk_sse, sh, 3, r, len + 1);
}
#endif
#ifdef HAVE_celt_inner_prod_sse
static kinfo K_cip_sse = { "celt_inner_prod_sse", "celt_inner_prod" };
opus_val32 __real_celt_inner_prod_sse(const opus_val16 *x, const opus_val16 *y, int N);
opus_val32 __wrap_celt_inner_prod_sse(const opus_val16 *x, const opus_val16 *y, int N)
{
   opus_val32 got, ref; int sh[3], j; double S = 0;
   ENTER(K_cip_sse);
   got = __real_celt_inner_prod_sse(x, y, N);
   if (PLAIN()) return got;
   g_inref++; ref = celt_inner_prod_c(x, y, N); g_inref--;
   for (j = 0; j < N; j++) S += absd((double)x[j] * y[j]);
   sh[0] = N; sh[1] = al8(x) & 15; sh[2] = al8(y) & 15;
   rec_flt(&K_cip_sse, sh, 3, r_units((double)got - (double)ref, S, N), N);
   return got;
}
#endif
#ifdef HAVE_dual_inner_prod_sse
static kinfo K_dip_sse = { "dual_inner_prod_sse", "dual_inner_prod" };
void __real_dual_inner_prod_sse(const opus_val16 *x, const opus_val16 *y01, const opus_val16 *y02, int N, opus_val32 *xy1, opus_val32 *xy2);
void __wrap_dual_inner_prod_sse(const opus_val16 *x, const opus_val16 *y01, const opus_val16 *y02, int N, opus_val32 *xy1, opus_val32 *xy2)
{
   opus_val32 a1 = 0, a2 = 0; int sh[3], j; double S1 = 0, S2 = 0; long r1, r2;
   ENTER(K_dip_sse);
   __real_dual_inner_prod_sse(x, y01, y02, N, xy1, xy2);
   if (PLAIN()) return;
   g_inref++; dual_inner_prod_c(x, y01, y02, N, &a1, &a2); g_inref--;
   for (j = 0; j < N; j++) { S1 += absd((double)x[j] * y01[j]); S2 += absd((double)x[j] * y02[j]); }
   r1 = r_units((double)*xy1 - (double)a1, S1, N); r2 = r_units((double)*xy2 - (double)a2, S2, N);
   sh[0] = N; sh[1] = al8(x) & 15; sh[2] = al8(y01) & 15;
   rec_flt(&K_dip_sse, sh, 3, r1 > r2 ? r1 : r2, N);
}
#endif
#ifdef HAVE_comb_filter_const_sse
/* the portable kernel is a file-static function of celt/celt.c in builds that presume SSE: the check compiles that file of
   the tree under test a second time with NON_STATIC_COMB_FILTER_CONST_C and prefixes its global symbols with hxref_ */
void hxref_comb_filter_const_c(opus_val32 *y, opus_val32 *x, int T, int N, opus_val16 g10, opus_val16 g11, opus_val16 g12);
static kinfo K_comb = { "comb_filter_const_sse", "comb_filter_const" };
static kinfo K_comb_ip = { "comb_filter_const_sse", "comb_filter_const_inplace" };
void __real_comb_filter_const_sse(opus_val32 *y, opus_val32 *x, int T, int N, opus_val16 g10, opus_val16 g11, opus_val16 g12);
void __wrap_comb_filter_const_sse(opus_val32 *y, opus_val32 *x, int T, int N, opus_val16 g10, opus_val16 g11, opus_val16 g12)
{
   opus_val32 *xb, *yb, *xc; int sh[3], i, inplace = (y == x), nterms = 8; long r = 0;
   ENTER(K_comb);
   if (PLAIN() || N <= 0 || T < 2 || (!inplace && y < x + N && x - T - 2 < y + N)) { __real_comb_filter_const_sse(y, x, T, N, g10, g11, g12); return; }
   xb = (opus_val32 *)malloc(sizeof(opus_val32) * (size_t)(N + T + 2));
   memcpy(xb, x - T - 2, sizeof(opus_val32) * (size_t)(N + T + 2));
   xc = xb + T + 2;
   yb = inplace ? xc : (opus_val32 *)malloc(sizeof(opus_val32) * (size_t)N);
   __real_comb_filter_const_sse(y, x, T, N, g10, g11, g12);
   {
      /* magnitudes of the terms, from the values the reference run reads */
      opus_val32 *orig = NULL;
      if (inplace) { orig = (opus_val32 *)malloc(sizeof(opus_val32) * (size_t)N); memcpy(orig, xc, sizeof(opus_val32) * (size_t)N); }
      g_inref++; hxref_comb_filter_const_c(yb, xc, T, N, g10, g11, g12); g_inref--;
      {
         /* out of place: each sample against the magnitudes of its own terms.  In place the filter is recursive (y[i-T..] are
            outputs): an error made in one period is carried into the later ones - not amplified, the tap gains sum to less than
            one - so the difference is measured against the largest term magnitude of the call and n counts the operations of
            all N/T+1 periods a sample can depend on */
         double Smax = 0; int L = inplace ? N / T + 1 : 1;
         for (i = 0; i < N; i++) {
            double S = absd(inplace ? orig[i] : xc[i]) + absd((double)g10 * xc[i - T]) + absd((double)g11) * (absd(xc[i - T + 1]) + absd(xc[i - T - 1]))
                       + absd((double)g12) * (absd(xc[i - T + 2]) + absd(xc[i - T - 2]));
            if (!(S <= Smax)) Smax = S;
            if (!inplace) { long ri = r_units((double)y[i] - (double)yb[i], S, 8); if (ri > r) r = ri; }
         }
         if (inplace) for (i = 0; i < N; i++) { long ri = r_units((double)y[i] - (double)yb[i], Smax, 8); if (ri > r) r = ri; }
         nterms = 8 * L;
      }
      if (orig) free(orig);
   }
   sh[0] = N; sh[1] = T < 64 ? T : 64 + (T & 3); sh[2] = inplace;
   rec_flt(inplace ? &K_comb_ip : &K_comb, sh, 3, r, nterms);
   if (!inplace) free(yb);
   free(xb);
}
#endif
#ifdef HAVE_celt_pitch_xcorr_avx2
static kinfo K_pxc = { "celt_pitch_xcorr_avx2", "celt_pitch_xcorr" };
void __real_celt_pitch_xcorr_avx2(const float *_x, const float *_y, float *xcorr, int len, int max_pitch, int arch);
void __wrap_celt_pitch_xcorr_avx2(const float *_x, const float *_y, float *xcorr, int len, int max_pitch, int arch)
{
   float *x2; int sh[3], i, j; long r = 0;
   ENTER(K_pxc);
   g_nest++; __real_celt_pitch_xcorr_avx2(_x, _y, xcorr, len, max_pitch, arch); g_nest--;
   if (PLAIN() || max_pitch <= 0 || len < 3 || ((size_t)_x & 3)) return;
   x2 = (float *)malloc(sizeof(float) * (size_t)max_pitch);
   g_inref++; celt_pitch_xcorr_c(_x, _y, x2, len, max_pitch, 0); g_inref--;
   for (i = 0; i < max_pitch; i++) {
      double S = 0; long ri;
      for (j = 0; j < len; j++) S += absd((double)_x[j] * _y[i + j]);
      ri = r_units((double)xcorr[i] - (double)x2[i], S, len);
      if (ri > r) r = ri;
   }
   sh[0] = len; sh[1] = max_pitch; sh[2] = al8(_y) & 15;
   rec_flt(&K_pxc, sh, 3, r, len);
   free(x2);
}
#endif
#ifdef HAVE_silk_inner_product_FLP_avx2
static kinfo K_flp = { "silk_inner_product_FLP_avx2", "silk_inner_product_FLP" };
double __real_silk_inner_product_FLP_avx2(const silk_float *a, const silk_float *b, opus_int n);
double __wrap_silk_inner_product_FLP_avx2(const silk_float *a, const silk_float *b, opus_int n)
{
   double got, ref, S = 0; int sh[3], j;
   ENTER(K_flp);
   got = __real_silk_inner_product_FLP_avx2(a, b, n);
   if (PLAIN()) return got;
   g_inref++; ref = silk_inner_product_FLP_c(a, b, n); g_inref--;
   for (j = 0; j < n; j++) S += absd((double)a[j] * b[j]);
   sh[0] = n; sh[1] = al8(a) & 15; sh[2] = al8(b) & 15;
   rec_flt(&K_flp, sh, 3, r_units(got - ref, S, n), n);
   return got;
}
#endif
#ifdef HAVE_op_pvq_search_sse2
/* the vector search uses reciprocal-square-root estimates: its pulse vector may differ from the portable one; recorded are
   the pulse counts, the returned energies and how well each vector matches the input (cosine, in millionths) */
static kinfo K_pvq = { "op_pvq_search_sse2", "op_pvq_search" };
opus_val16 __real_op_pvq_search_sse2(celt_norm *_X, int *iy, int K, int N, int arch);
opus_val16 __wrap_op_pvq_search_sse2(celt_norm *_X, int *iy, int K, int N, int arch)
{
   celt_norm *Xc; int *iy2; opus_val16 got, ref; int j, sh[2], fresh, worse = 0; long sums = 0, sumc = 0, sss = 0, ssc = 0, same = 1;
   double xx = 0, xs = 0, xc = 0, qs, qc, sa = 0; int finite_all = 1;
   ENTER(K_pvq);
   if (PLAIN() || N <= 0 || K <= 0) return __real_op_pvq_search_sse2(_X, iy, K, N, arch);
   Xc = (celt_norm *)malloc(sizeof(celt_norm) * (size_t)N);
   iy2 = (int *)malloc(sizeof(int) * (size_t)(N + 3));
   memcpy(Xc, _X, sizeof(celt_norm) * (size_t)N);
   for (j = 0; j < N; j++) { double a = _X[j]; xx += a * a; sa += a < 0 ? -a : a; if (!(a == a) || a > 3e38 || a < -3e38) finite_all = 0; }
   if (!finite_all) xx = 0;
   got = __real_op_pvq_search_sse2(_X, iy, K, N, arch);
   g_inref++; ref = op_pvq_search_c(Xc, iy2, K, N, 0); g_inref--;
   memcpy(Xc, _X, sizeof(celt_norm) * (size_t)N);      /* (the portable kernel leaves |X| behind) */
   for (j = 0; j < N; j++) {
      /* (a kernel that loses control returns arbitrary 32-bit words: the sums are clamped so that they stay representable) */
      long a = labs((long)iy[j]), b = labs((long)iy2[j]);
      if (a > 1000) a = 1000;
      if (b > 1000) b = 1000;
      sums += a; sumc += b; sss += a * a; ssc += b * b;
      if (finite_all) { xs += (double)_X[j] * iy[j]; xc += (double)_X[j] * iy2[j]; }
      if (iy[j] != iy2[j]) same = 0;
   }
   qs = (xx > 0 && sss > 0) ? xs / sqrt(xx * (double)sss) : 0; qc = (xx > 0 && ssc > 0) ? xc / sqrt(xx * (double)ssc) : 0;
   K_pvq.cmp++; if (!same) K_pvq.neq++;
   sh[0] = N; sh[1] = K;
   fresh = new_shape(&K_pvq, sh, 2);
   {
      /* class of the input: 0 = ordinary (all finite, sum|X| well inside the kernels' (1e-15, 64) window), 1 = degenerate (a NaN or
         Inf element, sum|X| >= 128 or <= 1e-20: both kernels must take their "too small / too large: one pulse train at 0" exit
         when they project, i.e. when K > N/2), 2 = near a border of the window (nothing but the pulse count is recorded for) */
      int cls = (finite_all && sa > 1e-10 && sa < 32) ? 0 : (!finite_all || sa >= 128 || sa <= 1e-20) ? 1 : 2;
      long loss = (long)floor(qc * 1e6 + 0.5) - (long)floor(qs * 1e6 + 0.5);
      /* every new worst case of (portable match - SIMD match) is logged, so that the recorded maximum is the true one */
      worse = cls == 0 && loss > K_pvq.rworst;
      if (worse) { K_pvq.rworst = loss; K_pvq.nworst = N; }
      if (cls != 0) { qs = qc = 0; }
      if (g_logall || fresh || worse || ((!same || sums != K || sumc != K) && K_pvq.nlog < 100) || (cls == 1 && (K > (N >> 1) ? K_pvq.nfcount2++ : K_pvq.nfcount++) < 200)) {
         if (!same || sums != K || sumc != K) K_pvq.nlog++;
         kc_head(&K_pvq, sh, 2);
         fprintf(kout, ",\"cls\":\"pvq\",\"K\":%d,\"sums\":%ld,\"sumc\":%ld,\"sss\":%ld,\"ssc\":%ld,\"yys\":%ld,\"yyc\":%ld,\"qs\":%ld,\"qc\":%ld,\"same\":%ld,\"deg\":%d,\"proj\":%d}\n",
                 K, sums, sumc, sss, ssc, cls == 0 ? (long)floor((double)got + 0.5) : 0, cls == 0 ? (long)floor((double)ref + 0.5) : 0,
                 (long)floor(qs * 1e6 + 0.5), (long)floor(qc * 1e6 + 0.5), same, cls, K > (N >> 1));
      }
   }
   free(Xc); free(iy2);
   return got;
}
#endif
#endif /* !FX */

/* ------------------------------------------------------------------------------------------------ */
static kinfo *const KI[] = {
#if FX
#ifdef HAVE_celt_inner_prod_sse2
   &K_cip_sse2,
#endif
#ifdef HAVE_celt_inner_prod_sse4_1
   &K_cip_sse41,
#endif
#ifdef HAVE_xcorr_kernel_sse4_1
   &K_xk_sse41,
#endif
#ifdef HAVE_celt_fir_sse4_1
   &K_fir_sse41,
#endif
#ifdef HAVE_silk_inner_prod16_sse4_1
   &K_sip16,
#endif
#ifdef HAVE_silk_burg_modified_sse4_1
   &K_burg,
#endif
#else
#ifdef HAVE_xcorr_kernel_sse
   &K_xk_sse,
#endif
#ifdef HAVE_celt_inner_prod_sse
   &K_cip_sse,
#endif
#ifdef HAVE_dual_inner_prod_sse
   &K_dip_sse,
#endif
#ifdef HAVE_comb_filter_const_sse
   &K_comb, &K_comb_ip,
#endif
#ifdef HAVE_celt_pitch_xcorr_avx2
   &K_pxc,
#endif
#ifdef HAVE_silk_inner_product_FLP_avx2
   &K_flp,
#endif
#ifdef HAVE_op_pvq_search_sse2
   &K_pvq,
#endif
#endif
#ifdef HAVE_silk_NSQ_sse4_1
   &K_nsq,
#endif
#ifdef HAVE_silk_NSQ_del_dec_sse4_1
   &K_dd41,
#endif
#ifdef HAVE_silk_NSQ_del_dec_avx2
   &K_ddavx,
#endif
#ifdef HAVE_silk_VAD_GetSA_Q8_sse4_1
   &K_vad,
#endif
#ifdef HAVE_silk_VQ_WMat_EC_sse4_1
   &K_vq,
#endif
   NULL
};

/* ---- dispatch tables: pointer -> name ------------------------------------------------------------ */
typedef struct { const char *name; fp_t fn; } named_fn;
#define NF(s) { #s, (fp_t)s }
static const named_fn NAMES[] = {
   NF(silk_NSQ_c), NF(silk_NSQ_del_dec_c), NF(silk_VAD_GetSA_Q8_c), NF(silk_VQ_WMat_EC_c),
#ifdef HAVE_silk_NSQ_sse4_1
   NF(silk_NSQ_sse4_1),
#endif
#ifdef HAVE_silk_NSQ_del_dec_sse4_1
   NF(silk_NSQ_del_dec_sse4_1),
#endif
#ifdef HAVE_silk_NSQ_del_dec_avx2
   NF(silk_NSQ_del_dec_avx2),
#endif
#ifdef HAVE_silk_VAD_GetSA_Q8_sse4_1
   NF(silk_VAD_GetSA_Q8_sse4_1),
#endif
#ifdef HAVE_silk_VQ_WMat_EC_sse4_1
   NF(silk_VQ_WMat_EC_sse4_1),
#endif
#if FX
   NF(celt_fir_c), NF(silk_inner_prod16_c), NF(silk_burg_modified_c),
#ifdef HAVE_celt_fir_sse4_1
   NF(celt_fir_sse4_1),
#endif
#ifdef HAVE_xcorr_kernel_sse4_1
   NF(xcorr_kernel_sse4_1),
#endif
#ifdef HAVE_celt_inner_prod_sse2
   NF(celt_inner_prod_sse2),
#endif
#ifdef HAVE_celt_inner_prod_sse4_1
   NF(celt_inner_prod_sse4_1),
#endif
#ifdef HAVE_silk_inner_prod16_sse4_1
   NF(silk_inner_prod16_sse4_1),
#endif
#ifdef HAVE_silk_burg_modified_sse4_1
   NF(silk_burg_modified_sse4_1),
#endif
#else
   NF(celt_pitch_xcorr_c), NF(silk_inner_product_FLP_c), NF(op_pvq_search_c),
#ifdef HAVE_celt_pitch_xcorr_avx2
   NF(celt_pitch_xcorr_avx2),
#endif
#ifdef HAVE_silk_inner_product_FLP_avx2
   NF(silk_inner_product_FLP_avx2),
#endif
#ifdef HAVE_xcorr_kernel_sse
   NF(xcorr_kernel_sse),
#endif
#ifdef HAVE_celt_inner_prod_sse
   NF(celt_inner_prod_sse),
#endif
#ifdef HAVE_dual_inner_prod_sse
   NF(dual_inner_prod_sse),
#endif
#ifdef HAVE_comb_filter_const_sse
   NF(comb_filter_const_sse),
#endif
#ifdef HAVE_op_pvq_search_sse2
   NF(op_pvq_search_sse2),
#endif
#endif
   { NULL, NULL }
};
/* the portable kernels that are static inline functions of celt/pitch.h have no address in the library: a table entry that
   is none of the named functions is reported as "<kern>_c?" when it equals entry 0 of a table whose level-0 entry is by
   construction the portable one, else as "?" */
static const char *name_of(fp_t f)
{
   int i;
   for (i = 0; NAMES[i].name; i++) if (NAMES[i].fn == f) return NAMES[i].name;
   return NULL;
}
static void dump_table(FILE *o, const char *tab, const char *kern, fp_t *t)
{
   int i;
   fprintf(o, "{\"k\":\"tab\",\"tab\":\"%s\",\"kern\":\"%s\",\"fx\":%d,\"impl\":[", tab, kern, FX);
   for (i = 0; i <= 4; i++) {
      const char *n = name_of(t[i]);
      if (n) fprintf(o, "%s\"%s\"", i ? "," : "", n);
      else if (t[i] == t[0]) fprintf(o, "%s\"%s_c\"", i ? "," : "", kern);      /* level 0 is the portable kernel by construction of the tables */
      else fprintf(o, "%s\"?\"", i ? "," : "");
   }
   fprintf(o, "]}\n");
}
static void dump_tables(FILE *o)
{
#ifdef HAVE_TAB_CELT_FIR_IMPL
   dump_table(o, "CELT_FIR_IMPL", "celt_fir", (fp_t *)(void *)CELT_FIR_IMPL);
#endif
#ifdef HAVE_TAB_XCORR_KERNEL_IMPL
   dump_table(o, "XCORR_KERNEL_IMPL", "xcorr_kernel", (fp_t *)(void *)XCORR_KERNEL_IMPL);
#endif
#ifdef HAVE_TAB_CELT_INNER_PROD_IMPL
   dump_table(o, "CELT_INNER_PROD_IMPL", "celt_inner_prod", (fp_t *)(void *)CELT_INNER_PROD_IMPL);
#endif
#ifdef HAVE_TAB_DUAL_INNER_PROD_IMPL
   dump_table(o, "DUAL_INNER_PROD_IMPL", "dual_inner_prod", (fp_t *)(void *)DUAL_INNER_PROD_IMPL);
#endif
#ifdef HAVE_TAB_COMB_FILTER_CONST_IMPL
   dump_table(o, "COMB_FILTER_CONST_IMPL", "comb_filter_const", (fp_t *)(void *)COMB_FILTER_CONST_IMPL);
#endif
#ifdef HAVE_TAB_PITCH_XCORR_IMPL
   dump_table(o, "PITCH_XCORR_IMPL", "celt_pitch_xcorr", (fp_t *)(void *)PITCH_XCORR_IMPL);
#endif
#ifdef HAVE_TAB_OP_PVQ_SEARCH_IMPL
   dump_table(o, "OP_PVQ_SEARCH_IMPL", "op_pvq_search", (fp_t *)(void *)OP_PVQ_SEARCH_IMPL);
#endif
#ifdef HAVE_TAB_SILK_INNER_PROD16_IMPL
   dump_table(o, "SILK_INNER_PROD16_IMPL", "silk_inner_prod16", (fp_t *)(void *)SILK_INNER_PROD16_IMPL);
#endif
#ifdef HAVE_TAB_SILK_VAD_GETSA_Q8_IMPL
   dump_table(o, "SILK_VAD_GETSA_Q8_IMPL", "silk_VAD_GetSA_Q8", (fp_t *)(void *)SILK_VAD_GETSA_Q8_IMPL);
#endif
#ifdef HAVE_TAB_SILK_NSQ_IMPL
   dump_table(o, "SILK_NSQ_IMPL", "silk_NSQ", (fp_t *)(void *)SILK_NSQ_IMPL);
#endif
#ifdef HAVE_TAB_SILK_VQ_WMAT_EC_IMPL
   dump_table(o, "SILK_VQ_WMAT_EC_IMPL", "silk_VQ_WMat_EC", (fp_t *)(void *)SILK_VQ_WMAT_EC_IMPL);
#endif
#ifdef HAVE_TAB_SILK_NSQ_DEL_DEC_IMPL
   dump_table(o, "SILK_NSQ_DEL_DEC_IMPL", "silk_NSQ_del_dec", (fp_t *)(void *)SILK_NSQ_DEL_DEC_IMPL);
#endif
#ifdef HAVE_TAB_SILK_BURG_MODIFIED_IMPL
   dump_table(o, "SILK_BURG_MODIFIED_IMPL", "silk_burg_modified", (fp_t *)(void *)SILK_BURG_MODIFIED_IMPL);
#endif
#ifdef HAVE_TAB_SILK_INNER_PRODUCT_FLP_IMPL
   dump_table(o, "SILK_INNER_PRODUCT_FLP_IMPL", "silk_inner_product_FLP", (fp_t *)(void *)SILK_INNER_PRODUCT_FLP_IMPL);
#endif
   /* kernels that this build calls directly (the feature level is presumed at compile time): same code at every arch level */
#if !FX
#if defined(OPUS_X86_PRESUME_SSE) && defined(HAVE_xcorr_kernel_sse)
   fprintf(o, "{\"k\":\"tab\",\"tab\":\"presumed:xcorr_kernel\",\"kern\":\"xcorr_kernel\",\"fx\":0,\"impl\":[\"xcorr_kernel_sse\",\"xcorr_kernel_sse\",\"xcorr_kernel_sse\",\"xcorr_kernel_sse\",\"xcorr_kernel_sse\"]}\n");
   fprintf(o, "{\"k\":\"tab\",\"tab\":\"presumed:celt_inner_prod\",\"kern\":\"celt_inner_prod\",\"fx\":0,\"impl\":[\"celt_inner_prod_sse\",\"celt_inner_prod_sse\",\"celt_inner_prod_sse\",\"celt_inner_prod_sse\",\"celt_inner_prod_sse\"]}\n");
   fprintf(o, "{\"k\":\"tab\",\"tab\":\"presumed:dual_inner_prod\",\"kern\":\"dual_inner_prod\",\"fx\":0,\"impl\":[\"dual_inner_prod_sse\",\"dual_inner_prod_sse\",\"dual_inner_prod_sse\",\"dual_inner_prod_sse\",\"dual_inner_prod_sse\"]}\n");
   fprintf(o, "{\"k\":\"tab\",\"tab\":\"presumed:comb_filter_const\",\"kern\":\"comb_filter_const\",\"fx\":0,\"impl\":[\"comb_filter_const_sse\",\"comb_filter_const_sse\",\"comb_filter_const_sse\",\"comb_filter_const_sse\",\"comb_filter_const_sse\"]}\n");
#endif
#if defined(OPUS_X86_PRESUME_SSE2) && defined(HAVE_op_pvq_search_sse2)
   fprintf(o, "{\"k\":\"tab\",\"tab\":\"presumed:op_pvq_search\",\"kern\":\"op_pvq_search\",\"fx\":0,\"impl\":[\"op_pvq_search_sse2\",\"op_pvq_search_sse2\",\"op_pvq_search_sse2\",\"op_pvq_search_sse2\",\"op_pvq_search_sse2\"]}\n");
#endif
#endif
}

static void dump_stats(FILE *o, int with_reach)
{
   int i, l;
   for (i = 0; KI[i]; i++) {
      kinfo *k = KI[i];
      fprintf(kout, "{\"k\":\"is\",\"kern\":\"%s\",\"impl\":\"%s\",\"fx\":%d,\"mode\":\"%s\",\"cmp\":%ld,\"neq\":%ld,\"r\":%ld,\"n\":%ld,\"shapes\":%d}\n",
              k->kern, k->impl, FX, g_mode, k->cmp, k->neq, k->rworst, k->nworst, k->nshape);
      if (with_reach && strcmp(k->kern, "comb_filter_const_inplace")) {
         fprintf(o, "{\"k\":\"reach\",\"impl\":\"%s\",\"fx\":%d,\"calls\":[", k->impl, FX);
         for (l = 0; l <= 4; l++) fprintf(o, l ? ",%ld" : "%ld", k->calls[l]);
         fprintf(o, "]}\n");
      }
   }
}

/* ------------------------------------------------------------------------------------------------
   synthetic shapes.  Buffers are exact-size heap blocks (any access outside what the contract of the kernel allows is an
   ASan report in the sanitizer builds); values stay inside the range in which the portable C code has no signed overflow. */
static hx_rng R;
static int opus_select_arch_uncapped_level(void);
#if FX
static opus_int16 rnd16(int amp, int style)
{
   int v;
   switch (style) {
   case 0: v = hx_range(&R, -amp, amp); break;
   case 1: v = hx_u(&R, 2) ? amp : -amp; break;              /* extremes */
   case 2: v = (int)(amp * sin(0.37 * (double)hx_u(&R, 1000))); break;
   default: v = hx_u(&R, 8) ? 0 : hx_range(&R, -amp, amp); break;   /* sparse */
   }
   return (opus_int16)v;
}
static opus_int16 *vec16(int n, int off, int amp, int style, opus_int16 **base)
{
   opus_int16 *b = (opus_int16 *)malloc(sizeof(opus_int16) * (size_t)(n + off) + 1), *p = b + off; int i;
   for (i = 0; i < n; i++) p[i] = rnd16(amp, style);
   *base = b; return p;
}
static int amp_for(int n) { int a = (int)floor(sqrt(1073741824.0 / (n > 0 ? n : 1))); return a > 32767 ? 32767 : a; }
#else
static float rndf(double amp, int style)
{
   switch (style) {
   case 0: return (float)(amp * (hx_unit(&R) * 2 - 1));
   case 1: return (float)(hx_u(&R, 2) ? amp : -amp);
   case 2: return (float)(amp * sin(0.37 * (double)hx_u(&R, 1000)));
   case 3: return (float)(hx_u(&R, 8) ? 0 : amp * (hx_unit(&R) * 2 - 1));
   default: return (float)(amp * (hx_unit(&R) * 2 - 1) * ldexp(1.0, -(int)hx_u(&R, 40)));   /* wide dynamic range */
   }
}
static float *vecf(int n, int off, double amp, int style, float **base)
{
   float *b = (float *)malloc(sizeof(float) * (size_t)(n + off) + 1), *p = b + off; int i;
   for (i = 0; i < n; i++) p[i] = rndf(amp, style);
   *base = b; return p;
}
#endif

static const int LENS[] = { 0, 1, 2, 3, 4, 5, 6, 7, 8, 9, 10, 11, 12, 13, 15, 16, 17, 18, 19, 20, 23, 24, 25, 31, 32, 33, 39, 40, 47, 48, 63, 64, 65, 80, 96, 120,
                            127, 128, 160, 240, 241, 242, 243, 320, 480, 512, 640, 960, 1024 };
#define NLENS ((int)(sizeof LENS / sizeof LENS[0]))

static void synth(long n)
{
   long it;
   for (it = 0; it < n; it++) {
      int len = LENS[it % NLENS], style = (int)((it / NLENS) % 4), ox = (int)hx_u(&R, 8), oy = (int)hx_u(&R, 8);
      if (hx_u(&R, 4) == 0) len = hx_range(&R, 0, 300);
#if FX
      {
         int amp = amp_for(len + 4); opus_int16 *bx, *by, *x, *y;
         if (hx_u(&R, 3) == 0) amp = amp > 4096 ? 4096 : amp;
         x = vec16(len, ox, amp, style, &bx); y = vec16(len + 3, oy, amp, style, &by);
#ifdef HAVE_celt_inner_prod_sse2
         (void)celt_inner_prod_sse2(x, y, len);
#endif
#ifdef HAVE_celt_inner_prod_sse4_1
         (void)celt_inner_prod_sse4_1(x, y, len);
#endif
#ifdef HAVE_silk_inner_prod16_sse4_1
         (void)silk_inner_prod16_sse4_1(x, y, len);
#endif
#ifdef HAVE_xcorr_kernel_sse4_1
         if (len >= 4) { opus_val32 s[4]; int k; for (k = 0; k < 4; k++) s[k] = hx_range(&R, -1000000, 1000000); xcorr_kernel_sse4_1(x, y, s, len); }
#endif
         free(bx); free(by);
      }
#ifdef HAVE_celt_fir_sse4_1
      {
         /* x has ord samples of history in front; ord as used by the codec (LPC order 24) and a few other multiples of 4 */
         static const int ORDS[] = { 24, 24, 16, 8, 12, 4, 32 };
         int ord = ORDS[it % 7], N = len, k; opus_int16 *bx, *bn, *x, *num, *y;
         x = vec16(N + ord, ox, (it % 9 == 8) ? 32767 : 2000, style, &bx) + ord; num = vec16(ord, oy, 2500, style, &bn);      /* (every ninth case reaches the 16-bit rails) */
         y = (opus_int16 *)malloc(sizeof(opus_int16) * (size_t)(N ? N : 1));
         for (k = 0; k < N; k++) y[k] = 0x5a5a;
         celt_fir_sse4_1(x, num, y, N, ord, hx_u(&R, 2) ? opus_select_arch_uncapped_level() : 0);
         free(bx); free(bn); free(y);
      }
#endif
#ifdef HAVE_silk_inner_prod16_sse4_1
      {
         /* the 64-bit accumulating product has no overflow for any 16-bit data */
         opus_int16 *bx, *by, *x, *y;
         x = vec16(len, ox, 32767, style, &bx); y = vec16(len, oy, 32767, style, &by);
         if (len > 0 && style == 1) { x[0] = -32768; y[0] = -32768; }
         (void)silk_inner_prod16_sse4_1(x, y, len);
         free(bx); free(by);
      }
#endif
#else
      {
         double amp = style == 1 ? 1.0 : (hx_u(&R, 2) ? 1.0 : 32768.0); int st = (int)((it / NLENS) % 5);
         float *bx, *by, *bz, *x, *y, *z;
         x = vecf(len, ox, amp, st, &bx); y = vecf(len + 3, oy, amp, st, &by); z = vecf(len, (ox + 3) & 7, amp, st, &bz);
#ifdef HAVE_celt_inner_prod_sse
         (void)celt_inner_prod_sse(x, y, len);
#endif
#ifdef HAVE_dual_inner_prod_sse
         { opus_val32 a, b; dual_inner_prod_sse(x, y, z, len, &a, &b); }
#endif
#ifdef HAVE_xcorr_kernel_sse
         if (len >= 3) { opus_val32 s[4]; int k; for (k = 0; k < 4; k++) s[k] = rndf(amp, 0); xcorr_kernel_sse(x, y, s, len); }
#endif
#ifdef HAVE_silk_inner_product_FLP_avx2
         (void)silk_inner_product_FLP_avx2(x, y, len);
#endif
         free(bx); free(by); free(bz);
      }
#ifdef HAVE_celt_pitch_xcorr_avx2
      if (len >= 4) {
         /* _x 4-byte aligned (always true for float), _y has len + max_pitch - 1 (+3 for the 4-wide kernel) samples */
         int mp = 1 + (int)hx_u(&R, 40), st = (int)((it / NLENS) % 5); float *bx, *by, *x, *y, *xc;
         if (hx_u(&R, 6) == 0) mp = 1 + (int)hx_u(&R, 700);
         x = vecf(len, ox, 1.0, st, &bx); y = vecf(len + mp - 1, oy, 1.0, st, &by);
         xc = (float *)malloc(sizeof(float) * (size_t)mp);
         celt_pitch_xcorr_avx2(x, y, xc, len, mp, 0);
         free(bx); free(by); free(xc);
      }
#endif
#ifdef HAVE_comb_filter_const_sse
      {
         /* N a multiple of 4 (static modes), T in [15, 1024], gains as the post-filter uses them (tap sets x gain <= 0.75); out of place and in place */
         int N = 4 * (int)hx_u(&R, 241), T = hx_u(&R, 3) ? hx_range(&R, 15, 1024) : hx_range(&R, 15, 22), ip = (int)hx_u(&R, 2);
         double g = 0.75 * hx_unit(&R); float *bx, *x, *y; static const float tp[3][3] = { { 0.3066406250f, 0.2170410156f, 0.1296386719f }, { 0.4638671875f, 0.2680664062f, 0.f }, { 0.7998046875f, 0.1000976562f, 0.f } };
         int ts = (int)hx_u(&R, 3);
         x = vecf(N + T + 2, ox, 32768.0, (int)((it / NLENS) % 5), &bx) + T + 2;
         y = ip ? x : (float *)malloc(sizeof(float) * (size_t)(N ? N : 1));
         comb_filter_const_sse(y, x, T, N, (float)(g * tp[ts][0]), (float)(g * tp[ts][1]), (float)(g * tp[ts][2]));
         if (!ip) free(y);
         free(bx);
      }
#endif
#ifdef HAVE_op_pvq_search_sse2
      {
         /* N, K as the band splitting produces them: N in 2..176 (mostly small; alg_quant() needs at least two dimensions), K in 1..128; iy has N+3 entries */
         int N = hx_u(&R, 3) ? 2 + (int)hx_u(&R, 24) : 2 + (int)hx_u(&R, 175), K = hx_u(&R, 2) ? 1 + (int)hx_u(&R, 12) : 1 + (int)hx_u(&R, 128), j;
         float *bx, *X; int *iy; double e = 0; int st = (int)((it / NLENS) % 4);
         X = vecf(N, ox, 1.0, st == 1 ? 0 : st, &bx);
         for (j = 0; j < N; j++) e += (double)X[j] * X[j];
         if (e > 0) for (j = 0; j < N; j++) X[j] = (float)(X[j] / sqrt(e)); else X[0] = 1;      /* celt_norm vectors have unit energy */
         if (it % 5 == 4) {
            /* arbitrary data including extremes: NaN, +-Inf, huge, denormal, all-zero vectors (what a NaN / Inf / silent input
               frame turns a band into), alone or inside an otherwise ordinary vector */
            static const float BAD[8] = { NAN, INFINITY, -INFINITY, 1e30f, -3e38f, 1e-40f, 0.f, -NAN };
            int kind = (int)hx_u(&R, 8), cnt = hx_u(&R, 3) ? 1 : N;
            if (hx_u(&R, 2)) K = (N >> 1) + 1 + (int)hx_u(&R, 8);      /* the projection branch (K > N/2) and the plain one */
            if (cnt == N) for (j = 0; j < N; j++) X[j] = (kind >= 5 || hx_u(&R, 2)) ? BAD[kind] : X[j];
            else X[hx_u(&R, (uint32_t)N)] = BAD[kind];
         }
         iy = (int *)malloc(sizeof(int) * (size_t)(N + 3));
         (void)op_pvq_search_sse2(X, iy, K, N, 0);
         free(bx); free(iy);
      }
#endif
#endif
   }
}

/* ---- the voice-activity detector on synthetic signals, state carried from frame to frame --------------------------------
   (the wrapper compares every call with the portable kernel run on a copy of the state as it was before the call) */
#ifdef HAVE_silk_VAD_GetSA_Q8_sse4_1
static opus_int16 vad_sample(int sig, long n, double p, int amp, hx_rng *r)
{
   double v;
   switch (sig) {
   case 0: v = (hx_unit(r) * 2 - 1) * amp; break;                                   /* noise */
   case 1: v = amp * sin(2 * M_PI * n / p); break;                                  /* sine */
   case 2: v = (fmod((double)n, p) < p / 2) ? amp : -amp; break;                    /* square wave */
   case 3: v = amp; break;                                                          /* DC */
   case 4: v = (n & 1) ? 32767 : -32768; break;                                     /* alternating extremes (Nyquist) */
   case 5: v = ((n / 400) & 1) ? ((n & 1) ? amp : -amp) : (hx_unit(r) * 200 - 100); break;   /* full-scale bursts */
   case 6: v = (hx_unit(r) * 2 - 1) * 8.0 * amp; break;                             /* hard-clipped noise */
   case 7: v = ((n >> 1) & 1) ? amp : -amp; break;                                  /* + + - -  (Nyquist/2) */
   default: v = ((n >> 2) & 1) ? amp : -amp; break;                                 /* + + + + - - - -  (Nyquist/4) */
   }
   if (v > 32767) v = 32767;
   if (v < -32768) v = -32768;
   return (opus_int16)floor(v + .5);
}
static void synth_vad(long cases)
{
   static const int FSK[3] = { 8, 12, 16 }, AMPS[8] = { 30, 1000, 8000, 20000, 28000, 30000, 32000, 32767 };
   static const double PER[15] = { 2, 2.2, 2.5, 2.67, 3, 3.5, 4, 5, 6.3, 8, 11, 16, 27, 40, 100 };
   silk_encoder_state *st = (silk_encoder_state *)malloc(sizeof *st); opus_int16 *pcm; long c; int fr, i;
   for (c = 0; c < cases; c++) {
      int fs = FSK[c % 3], ms = (c / 3) % 2 ? 20 : 10, sig = (int)((c / 6) % 9), amp = AMPS[hx_u(&R, 8)], nfr = 26 + (int)hx_u(&R, 8);
      double p = PER[hx_u(&R, 15)]; long n = 0; hx_rng nr; nr.s = R.s ^ 0x1234;
      if (hx_u(&R, 2)) amp = AMPS[4 + hx_u(&R, 4)];                              /* mostly near full scale */
      memset(st, 0, sizeof *st);
      st->fs_kHz = fs; st->frame_length = ms * fs; st->arch = opus_select_arch_uncapped_level();
      silk_VAD_Init(&st->sVAD);
      pcm = (opus_int16 *)malloc(sizeof(opus_int16) * (size_t)st->frame_length);       /* exact size */
      for (fr = 0; fr < nfr; fr++) {
         for (i = 0; i < st->frame_length; i++) pcm[i] = vad_sample(sig, n++, p, amp, &nr);
         (void)silk_VAD_GetSA_Q8_sse4_1(st, pcm);
      }
      free(pcm);
   }
   free(st);
}
#endif

/* ------------------------------------------------------------------------------------------------ twins */
static double g_phase, g_t;
static hx_rng g_sig;
static void gen_signal(opus_int16 *x, long n, int ch, int fs)
{
   /* speech-like: voiced stretches (wandering pitch, 14 harmonics) with syllabic envelope, unvoiced noise bursts, short
      pauses, an occasional click; the second channel is a delayed, scaled copy plus its own noise */
   long i; int h;
   for (i = 0; i < n; i++) {
      double t = g_t + (double)i / fs;
      double f0 = 140.0 + 70.0 * sin(2 * M_PI * 0.9 * t) + 30.0 * sin(2 * M_PI * 0.23 * t);
      double syl = fmod(t, 0.42), env, s = 0, nz = hx_unit(&g_sig) * 2 - 1, v;
      g_phase += 2 * M_PI * f0 / fs;
      if (g_phase > 2 * M_PI * 64) g_phase -= 2 * M_PI * 64;
      if (syl < 0.27) {           /* voiced */
         env = 0.25 + 0.75 * sin(M_PI * syl / 0.27);
         for (h = 1; h <= 14; h++) if (h * f0 < 0.45 * fs) s += sin(h * g_phase + 0.3 * h) / (h < 4 ? 1.0 : 0.35 * h);
         v = 0.22 * env * s + 0.01 * nz;
      } else if (syl < 0.34) {    /* unvoiced burst */
         v = 0.18 * nz;
      } else if (syl < 0.37) v = 0.0005 * nz;   /* pause */
      else v = 0.05 * nz * (syl - 0.37) / 0.05;
      if (fmod(t, 1.7) < 1.0 / fs * 3) v += 0.6;                 /* click */
      if (v > 0.98) v = 0.98;
      if (v < -0.98) v = -0.98;
      x[i * ch] = (opus_int16)floor(v * 32767.0 + 0.5);
      if (ch == 2) {
         double w = 0.7 * v + 0.02 * (hx_unit(&g_sig) * 2 - 1);
         x[i * ch + 1] = (opus_int16)floor(w * 32767.0 + 0.5);
      }
   }
   g_t += (double)n / fs;
}

static int opus_select_arch_uncapped_level(void)
{
#ifdef OPUS_HAVE_RTCD
   const char *c = getenv("OPUS_VERIF_ARCH_CAP"); char save[16]; int had = 0, a;
   if (c) { had = 1; strncpy(save, c, 15); save[15] = 0; }
   unsetenv("OPUS_VERIF_ARCH_CAP");
   a = opus_select_arch();
   if (had) setenv("OPUS_VERIF_ARCH_CAP", save, 1);
   return a < 0 ? 0 : a > 4 ? 4 : a;
#else
   return 0;
#endif
}
/* extreme signal families (int16): 1 = full-scale square waves in the upper half of the speech band, 2 = hard-clipped noise,
   3 = alternating +-32767 at Nyquist/2 and Nyquist/4 (changing every 10 frames' worth); sustained for the whole history */
static void gen_extreme(opus_int16 *x, long n, int ch, int fs, int kind, hx_rng *r)
{
   long i; int c; double per = fs / 16000.0 * (2.2 + 2.0 * hx_unit(r));      /* 3.6 .. 7.3 kHz */
   for (i = 0; i < n; i++) {
      double v;
      if (kind == 1) v = fmod((double)i, per) < per / 2 ? 32767 : -32767;
      else if (kind == 2) v = (hx_unit(r) * 2 - 1) * 8 * 32767.0;
      else { long blk = i / (fs / 5); v = (blk & 1) ? (((i >> 2) & 1) ? 32767 : -32767) : (((i >> 1) & 1) ? 32767 : -32767); }
      if (v > 32767) v = 32767;
      if (v < -32767) v = -32767;
      for (c = 0; c < ch; c++) x[i * ch + c] = (opus_int16)((c & 1) && kind == 3 ? -v : v);
   }
}

static void set_cap(int lv) { char b[8]; snprintf(b, sizeof b, "%d", lv); setenv("OPUS_VERIF_ARCH_CAP", b, 1); }

#define MAXTOK 16
#define MAXLV 5
static int run_history(char *line)
{
   long id, sigseed; int app, fs, ch, cx, br, br2, fec, durq, vbr, run, sigkind = 0; char toks[MAXTOK]; int ntok = 0;
   float *fin = NULL;
   char *bar = strchr(line, '|'), *tk; int top = opus_select_arch_uncapped_level(), lv, t, f;
   int frame, nfr; opus_int16 *in; unsigned char *pk[MAXLV]; int *plen[MAXLV]; opus_uint32 *prng[MAXLV];
   int srcs[2], nsrc, si;
   static char lines[MAXLV][MAXTOK][320];
   if (!bar) return -1;
   *bar = 0;
   if (sscanf(line, "H %ld %d %d %d %d %d %d %d %d %d %d %ld %d", &id, &app, &fs, &ch, &cx, &br, &br2, &fec, &durq, &vbr, &run, &sigseed, &sigkind) < 12) return -1;
   if (sigkind < 0 || sigkind > 4) sigkind = 0;
#if FX
   if (sigkind == 4) sigkind = 0;       /* NaN / Inf input exists for the float API of the float build only */
#endif
   for (tk = strtok(bar + 1, " \t\r\n"); tk && ntok < MAXTOK; tk = strtok(NULL, " \t\r\n")) toks[ntok++] = tk[0];
   if (ntok == 0 || run < 1) return -1;
   frame = (int)((long)fs * durq / 2000);
   nfr = ntok * run;
   in = (opus_int16 *)malloc(sizeof(opus_int16) * (size_t)nfr * frame * ch);
   g_phase = 0; g_t = 0; g_sig.s = (uint64_t)sigseed * 2654435761UL + 99;
   if (sigkind >= 1 && sigkind <= 3) gen_extreme(in, (long)nfr * frame, ch, fs, sigkind, &g_sig);
   else gen_signal(in, (long)nfr * frame, ch, fs);
   if (sigkind == 4) {
      /* float input with NaN / +-Inf / huge samples: single ones, short bursts and whole frames */
      long tot = (long)nfr * frame * ch, i; hx_rng q; q.s = (uint64_t)sigseed * 77 + 3;
      static const float BADS[6] = { NAN, INFINITY, -INFINITY, 3e38f, -1e30f, 1e-42f };
      fin = (float *)malloc(sizeof(float) * (size_t)tot);
      for (i = 0; i < tot; i++) fin[i] = in[i] / 32768.f;
      for (i = 0; i < nfr; i++) {
         uint32_t what = hx_u(&q, 6); long base = i * (long)frame * ch, k;
         if (what == 0) fin[base + hx_u(&q, (uint32_t)(frame * ch))] = BADS[hx_u(&q, 6)];
         else if (what == 1) { long st = hx_u(&q, (uint32_t)(frame * ch)), len = 1 + hx_u(&q, 40); float b = BADS[hx_u(&q, 6)]; for (k = st; k < st + len && k < (long)frame * ch; k++) fin[base + k] = b; }
         else if (what == 2 && hx_u(&q, 3) == 0) { float b = BADS[hx_u(&q, 6)]; for (k = 0; k < (long)frame * ch; k++) fin[base + k] = b; }
      }
   }
   printf("{\"k\":\"new\",\"id\":%ld,\"fx\":%d,\"top\":%d,\"app\":%d,\"fs\":%d,\"ch\":%d,\"cx\":%d,\"br\":%d,\"br2\":%d,\"fec\":%d,\"dq\":%d,\"vbr\":%d,\"run\":%d,\"ntok\":%d,\"sig\":%d}\n",
          id, FX, top, app, fs, ch, cx, br, br2, fec, durq, vbr, run, ntok, sigkind);
   /* encoders, one per level */
   for (lv = 0; lv <= top; lv++) {
      OpusEncoder *enc; int err, arch = -1;
      set_cap(lv); g_level = lv;
      enc = opus_encoder_create(fs, ch, app, &err);
      if (!enc) { printf("{\"k\":\"err\",\"what\":\"encoder_create\",\"r\":%d}\n", err); return -2; }
      opus_encoder_ctl(enc, OPUS_SET_COMPLEXITY(cx));
      opus_encoder_ctl(enc, OPUS_SET_BITRATE(br));
      opus_encoder_ctl(enc, OPUS_SET_VBR(vbr ? 1 : 0));
      opus_encoder_ctl(enc, OPUS_SET_VBR_CONSTRAINT(vbr == 2 ? 1 : 0));
      opus_encoder_ctl(enc, OPUS_SET_INBAND_FEC(fec));
      if (fec) opus_encoder_ctl(enc, OPUS_SET_PACKET_LOSS_PERC(15));
#ifdef OPUS_VERIF
      arch = opus_verif_encoder_peek(enc, 18);
#endif
      pk[lv] = (unsigned char *)malloc((size_t)nfr * 1500); plen[lv] = (int *)malloc(sizeof(int) * (size_t)nfr); prng[lv] = (opus_uint32 *)malloc(sizeof(opus_uint32) * (size_t)nfr);
      for (t = 0; t < ntok; t++) {
         uint64_t dg = 1469598103934665603ULL; long bytes = 0; int bad = 0;
         if (toks[t] == 's') opus_encoder_ctl(enc, OPUS_SET_BITRATE(br2));
         for (f = 0; f < run; f++) {
            int i = t * run + f, r; opus_uint32 rng = 0;
            hx_arm(120);
#if !FX
            if (fin) r = opus_encode_float(enc, fin + (size_t)i * frame * ch, frame, pk[lv] + (size_t)i * 1500, 1500);
            else
#endif
            r = opus_encode(enc, in + (size_t)i * frame * ch, frame, pk[lv] + (size_t)i * 1500, 1500);
            hx_disarm();
            opus_encoder_ctl(enc, OPUS_GET_FINAL_RANGE(&rng));
            plen[lv][i] = r; prng[lv][i] = rng;
            if (r < 0) { bad++; r = 0; }
            dg ^= hx_fnv(pk[lv] + (size_t)i * 1500, (size_t)r); dg *= 1099511628211ULL;
            dg ^= rng; dg *= 1099511628211ULL; dg ^= (uint64_t)(uint32_t)plen[lv][i]; dg *= 1099511628211ULL;
            bytes += r;
         }
         snprintf(lines[lv][t], sizeof lines[lv][t], "{\"k\":\"enc\",\"t\":%d,\"lv\":%d,\"arch\":%d,\"tok\":\"%c\",\"n\":%d,\"bad\":%d,\"bytes\":%ld,\"pd\":\"%016llx\"}\n",
                t + 1, lv, arch, toks[t], run, bad, bytes, (unsigned long long)dg);
      }
      opus_encoder_destroy(enc);
   }
   for (t = 0; t < ntok; t++) for (lv = 0; lv <= top; lv++) fputs(lines[lv][t], stdout);
   /* decoders: every level decodes the packets of the level-0 encoder and of the top-level encoder */
   srcs[0] = 0; nsrc = 1; if (top > 0) { srcs[1] = top; nsrc = 2; }
   for (si = 0; si < nsrc; si++) {
      int src = srcs[si]; size_t per = (size_t)frame * ch;
#if FX
      opus_int16 *ref0 = (opus_int16 *)malloc(sizeof(opus_int16) * per * (size_t)nfr * 2), *out = (opus_int16 *)malloc(sizeof(opus_int16) * per);
#else
      float *ref0 = (float *)malloc(sizeof(float) * per * (size_t)nfr * 2), *out = (float *)malloc(sizeof(float) * per);
#endif
      for (lv = 0; lv <= top; lv++) {
         OpusDecoder *dec; int err, arch = -1, clean = 1; long call = 0;
         set_cap(lv); g_level = lv;
         dec = opus_decoder_create(fs, ch, &err);
         if (!dec) { printf("{\"k\":\"err\",\"what\":\"decoder_create\",\"r\":%d}\n", err); return -2; }
#ifdef OPUS_VERIF
         arch = opus_verif_decoder_peek(dec, 7);
#endif
         for (t = 0; t < ntok; t++) {
            uint64_t rd = 1469598103934665603ULL, pd = 1469598103934665603ULL; double mx = 0; int nonfinite = 0; long mxi;
            if (toks[t] == 'l' || toks[t] == 'f') clean = 0;
            for (f = 0; f < run; f++) {
               int i = t * run + f, r, k; opus_uint32 rng = 0;
               const unsigned char *p = pk[src] + (size_t)i * 1500; int n = plen[src][i]; int fecflag = 0;
               if (n < 0) n = 0;
               if (toks[t] == 'l') { p = NULL; n = 0; }
               else if (toks[t] == 'f') {
                  if (i + 1 < nfr && plen[src][i + 1] > 0) { p = pk[src] + (size_t)(i + 1) * 1500; n = plen[src][i + 1]; fecflag = 1; }
                  else { p = NULL; n = 0; }
               }
               hx_arm(120);
#if FX
               r = opus_decode(dec, p, n, out, frame, fecflag);
#else
               r = opus_decode_float(dec, p, n, out, frame, fecflag);
#endif
               hx_disarm();
               opus_decoder_ctl(dec, OPUS_GET_FINAL_RANGE(&rng));
               rd ^= (uint64_t)(uint32_t)r; rd *= 1099511628211ULL; rd ^= rng; rd *= 1099511628211ULL;
               if (r > 0) {
                  pd ^= hx_fnv(out, sizeof out[0] * (size_t)r * ch); pd *= 1099511628211ULL;
                  if (lv == 0) memcpy(ref0 + (size_t)call * per, out, sizeof out[0] * (size_t)r * ch);
                  else for (k = 0; k < r * ch; k++) {
                     double d = (double)out[k] - (double)ref0[(size_t)call * per + k];
                     if (!(d == d) || d > 1e30 || d < -1e30) nonfinite = 1;
                     if (d < 0) d = -d;
                     if (d > mx) mx = d;
                  }
               }
               call++;
            }
#if FX
            mxi = nonfinite ? 1000000000L : (long)mx;
#else
            mxi = nonfinite ? 1000000000L : (mx * 32768.0 > 9e8 ? 900000000L : (long)ceil(mx * 32768.0));     /* in 16-bit units */
#endif
            snprintf(lines[lv][t], sizeof lines[lv][t], "{\"k\":\"dec\",\"t\":%d,\"lv\":%d,\"arch\":%d,\"src\":%d,\"tok\":\"%c\",\"n\":%d,\"clean\":%d,\"rd\":\"%016llx\",\"pd\":\"%016llx\",\"mx\":%ld}\n",
                   t + 1, lv, arch, src, toks[t], run, clean, (unsigned long long)rd, (unsigned long long)pd, mxi);
         }
         opus_decoder_destroy(dec);
      }
      for (t = 0; t < ntok; t++) for (lv = 0; lv <= top; lv++) fputs(lines[lv][t], stdout);
      free(ref0); free(out);
   }
   for (lv = 0; lv <= top; lv++) { free(pk[lv]); free(plen[lv]); free(prng[lv]); }
   free(in); free(fin);
   printf("{\"k\":\"end\",\"id\":%ld}\n", id);
   return 0;
}

int main(int argc, char **argv)
{
   hx_watchdog_init();
   kout = stdout;
   if (argc >= 2 && !strcmp(argv[1], "tables")) { dump_tables(stdout); return 0; }
   if (argc >= 5 && !strcmp(argv[1], "kern")) {
      R.s = (uint64_t)strtoull(argv[2], NULL, 10) * 0x9E3779B97F4A7C15ULL + 5;
      kout = fopen(argv[4], "w"); if (!kout) return 3;
      unsetenv("OPUS_VERIF_ARCH_CAP");
      g_insitu = 1; g_logall = 1; g_mode = "syn"; g_level = 0;
      synth(atol(argv[3]));
#ifdef HAVE_silk_VAD_GetSA_Q8_sse4_1
      synth_vad(atol(argv[3]) / 4 + 54);
#endif
      dump_stats(stdout, 0);
      fclose(kout);
      return 0;
   }
   if (argc >= 3 && !strcmp(argv[1], "twins")) {
      static char line[4096]; int rc = 0;
      kout = fopen(argv[2], "w"); if (!kout) return 3;
      g_insitu = 1; g_mode = "situ";
      dump_tables(stdout);
      while (fgets(line, sizeof line, stdin)) {
         if (line[0] != 'H') continue;
         if (run_history(line) < 0) { rc = 4; break; }
      }
      dump_stats(stdout, 1);
      printf("{\"k\":\"cov\",\"fx\":%d,\"top\":%d}\n", FX, opus_select_arch_uncapped_level());
      fclose(kout);
      return rc;
   }
   fprintf(stderr, "usage: hx_arch tables | kern <seed> <n> <kout> | twins <kout> < histories\n");
   return 2;
}
