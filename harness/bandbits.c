/* hx_bandbits: records the bit ledger of CELT band quantisation (growth module G07, spec/BandBits.tla).
   The harness never judges: it executes the real code and writes NDJSON; spec/BandBitsTrace.tla decides.

   quant_band / quant_band_stereo / quant_partition / compute_theta are static, so this file *includes* celt/bands.c
   of the tree under test (compiled with the library's own -D flags) and everything else comes from libopus.a: the
   whole codec (celt_encoder.c, celt_decoder.c, vq.c, cwrs.c, the range coder ...) is the library's, and its calls of
   quant_all_bands land in the copy compiled here because this object defines every external symbol of bands.o.
   Inside the included file the calls the ledger is made of are redirected through logging wrappers by macros
   (call sites are told apart with __func__):
      ec_tell_frac                              band top (quant_all_bands) / before and after the theta symbol (compute_theta)
      stereo_itheta                             encoder: start of a compute_theta (gives its stereo flag and N)
      ec_encode, ec_dec_update, ec_enc_uint,    the theta symbol / the inversion flag
      ec_dec_uint, ec_enc_bit_logp, ec_dec_bit_logp
      ec_enc_bits, ec_dec_bits                  sign bits (quant_band_n1, the N=2 stereo case)
      bits2pulses, alg_quant, alg_unquant       a leaf: (LM, b) -> q, then (N, K, B) -> collapse mask, with the real cost
      celt_inner_prod (in quant_all_bands)      encoder: end of a theta-RDO trial
   quant_all_bands itself is renamed and wrapped: inputs, outputs (collapse masks, coder error flag, final tell).
   Events are grouped per band and per RDO trial (grouping by call site only); a 30-bit signature of the coder state at
   every band top / trial end lets the trace spec see which trial the encoder kept.

   Commands
     situ     stdin: X seed Fs ch app npackets   real encoder + real decoder on synthetic audio, every packet decoded
     cases    stdin: Q C LM st en cb inten dual short spread len rsv pre bal cx dinv seed | tf[nb] | pulses[nb]
              quant_all_bands called directly: encoder role on random normalised spectra, decoder role on its bytes
*/
#ifdef HAVE_CONFIG_H
#include "config.h"
#endif
#include <math.h>
#include "bands.h"
#include "modes.h"
#include "vq.h"
#include "cwrs.h"
#include "stack_alloc.h"
#include "os_support.h"
#include "mathops.h"
#include "rate.h"
#include "quant_bands.h"
#include "pitch.h"
#include "entenc.h"
#include "entdec.h"
#include "hx_common.h"
#include "opus.h"
#include "opus_multistream.h"
#include "opus_private.h"
#include "celt.h"

#define NBMAX 21
#define MAXEV 20000
#define MAXBANDS 24
#define MAXCALLS 24

typedef struct { int v[10]; } ev_t;            /* v[0] = kind: 1 split, 6 sign bit, 7 leaf, 9 trial end */
typedef struct { int i, tell, sig, sig2, ev0, ev1; } band_t;
typedef struct {
   int role, C, LM, st, en, cb, inten, dual, shortb, spread, bal, total, cx, dinv, stor, inpkt, err, err0, tellEnd, sigEnd, sigEnd2;
   int tf[NBMAX], p[NBMAX];
   int masks[2 * NBMAX];
   int nb; band_t b[MAXBANDS];
   int broken;                                  /* event grouping met something it does not know */
} qcall_t;

static ev_t g_ev[MAXEV]; static int g_nev;
static qcall_t g_calls[2][MAXCALLS]; static int g_n[2];
static qcall_t *g_cur;
static const unsigned char *g_pkt; static int g_pktlen;
/* an open compute_theta record / an open leaf */
static int g_theta = -1, g_leaf = -1, g_pend_st = -1, g_pend_N = -1;
static ec_ctx *g_ec;

static int g_sig2;
static int ec_sig(const ec_ctx *e)
{
   uint64_t h = 1469598103934665603ULL;
#define MIX(x) do { h ^= (uint64_t)(x); h *= 1099511628211ULL; } while (0)
   MIX(e->rng); MIX(e->val); MIX(e->offs); MIX(e->end_offs); MIX(e->nbits_total); MIX(e->nend_bits); MIX(e->end_window);
   MIX(e->rem + 7); MIX(e->ext); MIX(e->error);
#undef MIX
   g_sig2 = (int)((h >> 33) & 0x3FFFFFFF);
   return (int)(h & 0x3FFFFFFF);
}

static ev_t *ev_new(int kind)
{
   ev_t *e;
   if (g_nev >= MAXEV) { fprintf(stderr, "hx_bandbits: event table full\n"); exit(3); }
   e = &g_ev[g_nev++];
   memset(e, 0, sizeof *e);
   e->v[0] = kind;
   return e;
}

static opus_uint32 hx_tell(ec_ctx *ec, const char *fn)
{
   opus_uint32 t = ec_tell_frac(ec);
   if (!g_cur) return t;
   if ((strstr(fn, "quant_all_bands") != NULL)) {
      band_t *b;
      g_ec = ec;
      if (g_cur->nb >= MAXBANDS) { g_cur->broken |= 1; return t; }
      if (g_cur->nb > 0) g_cur->b[g_cur->nb - 1].ev1 = g_nev;
      b = &g_cur->b[g_cur->nb++];
      b->i = -1; b->tell = (int)t; b->sig = ec_sig(ec); b->sig2 = g_sig2; b->ev0 = g_nev; b->ev1 = g_nev;
      g_theta = g_leaf = -1;
   } else if (!strcmp(fn, "compute_theta")) {
      if (g_theta < 0) {
         ev_t *e = ev_new(1);
         g_theta = g_nev - 1; g_leaf = -1;
         e->v[1] = (int)t; e->v[2] = -1; e->v[3] = 0; e->v[7] = g_pend_st; e->v[8] = g_pend_N;
         g_pend_st = g_pend_N = -1;
      } else {
         g_ev[g_theta].v[2] = (int)t;
         g_theta = -1;
      }
   } else
      g_cur->broken |= 2;
   return t;
}

static int hx_stereo_itheta(const celt_norm *X, const celt_norm *Y, int stereo, int N, int arch, const char *fn)
{
   if (g_cur) { if (strcmp(fn, "compute_theta")) g_cur->broken |= 4; g_pend_st = stereo; g_pend_N = N; }
   return stereo_itheta(X, Y, stereo, N, arch);
}

static void note_sym(int kind, long a, long b, long c, const char *fn)
{
   if (!g_cur) return;
   if (g_theta < 0 || g_ev[g_theta].v[3] != 0 || strcmp(fn, "compute_theta")) { g_cur->broken |= 8; return; }
   g_ev[g_theta].v[3] = kind; g_ev[g_theta].v[4] = (int)a; g_ev[g_theta].v[5] = (int)b; g_ev[g_theta].v[6] = (int)c;
}
static void hx_encode(ec_enc *e, unsigned fl, unsigned fh, unsigned ft, const char *fn) { note_sym(3, fl, fh, ft, fn); ec_encode(e, fl, fh, ft); }
static void hx_dec_update(ec_dec *d, unsigned fl, unsigned fh, unsigned ft, const char *fn) { note_sym(3, fl, fh, ft, fn); ec_dec_update(d, fl, fh, ft); }
static void hx_enc_uint(ec_enc *e, opus_uint32 fl, opus_uint32 ft, const char *fn) { note_sym(4, (long)fl, (long)ft, 0, fn); ec_enc_uint(e, fl, ft); }
static opus_uint32 hx_dec_uint(ec_dec *d, opus_uint32 ft, const char *fn) { opus_uint32 v = ec_dec_uint(d, ft); note_sym(4, (long)v, (long)ft, 0, fn); return v; }
static void hx_enc_bit_logp(ec_enc *e, int val, unsigned logp, const char *fn) { note_sym(5, val, logp, 0, fn); ec_enc_bit_logp(e, val, logp); }
static int hx_dec_bit_logp(ec_dec *d, unsigned logp, const char *fn) { int v = ec_dec_bit_logp(d, logp); note_sym(5, v, logp, 0, fn); return v; }

static void note_bits(long val, unsigned n, const char *fn)
{
   ev_t *e;
   if (!g_cur) return;
   e = ev_new(6); g_leaf = -1;
   e->v[1] = (int)val; e->v[2] = (int)n;
   e->v[3] = !strcmp(fn, "quant_band_n1") ? 1 : !strcmp(fn, "quant_band_stereo") ? 2 : 0;
   if (g_theta >= 0) g_cur->broken |= 16;
}
static void hx_enc_bits(ec_enc *e, opus_uint32 fl, unsigned n, const char *fn) { note_bits((long)fl, n, fn); ec_enc_bits(e, fl, n); }
static opus_uint32 hx_dec_bits(ec_dec *d, unsigned n, const char *fn) { opus_uint32 v = ec_dec_bits(d, n); note_bits((long)v, n, fn); return v; }

static int hx_b2p(const CELTMode *m, int band, int LM, int bits, const char *fn)
{
   int q = bits2pulses(m, band, LM, bits);
   if (g_cur) {
      ev_t *e = ev_new(7);
      g_leaf = g_nev - 1;
      e->v[1] = LM; e->v[2] = bits; e->v[3] = q; e->v[4] = band; e->v[5] = 0; e->v[6] = 0; e->v[7] = 0; e->v[8] = 0;
      if (g_theta >= 0 || strcmp(fn, "quant_partition")) g_cur->broken |= 32;
   }
   return q;
}
static void note_pvq(int N, int K, int B, unsigned cm, int cost, ec_ctx *ec)
{
   if (!g_cur) return;
   if (g_leaf < 0 || g_leaf != g_nev - 1) { g_cur->broken |= 64; return; }
   g_ev[g_leaf].v[5] = N; g_ev[g_leaf].v[6] = K; g_ev[g_leaf].v[7] = B; g_ev[g_leaf].v[8] = (int)cm; g_ev[g_leaf].v[9] = cost;
   g_leaf = -1;
   (void)ec;
}
static unsigned hx_alg_quant(celt_norm *X, int N, int K, int spread, int B, ec_enc *enc, opus_val32 gain, int resynth, int arch)
{
   int t0 = (int)ec_tell_frac(enc);
   unsigned cm = alg_quant(X, N, K, spread, B, enc, gain, resynth, arch);
   note_pvq(N, K, B, cm, (int)ec_tell_frac(enc) - t0, enc);
   return cm;
}
static unsigned hx_alg_unquant(celt_norm *X, int N, int K, int spread, int B, ec_dec *dec, opus_val32 gain)
{
   int t0 = (int)ec_tell_frac(dec);
   unsigned cm = alg_unquant(X, N, K, spread, B, dec, gain);
   note_pvq(N, K, B, cm, (int)ec_tell_frac(dec) - t0, dec);
   return cm;
}
static opus_val32 hx_inner_prod(const opus_val16 *x, const opus_val16 *y, int N, int arch, const char *fn, ec_ctx *ec_or_null)
{
   (void)arch; (void)ec_or_null;
   if (g_cur && (strstr(fn, "quant_all_bands") != NULL)) { ev_t *e = ev_new(9); e->v[1] = g_ec ? ec_sig(g_ec) : -1; e->v[2] = g_sig2; g_leaf = -1; }
   return celt_inner_prod(x, y, N, arch);
}

/* ---- the tree's bands.c, with the ledger's calls redirected ---- */
#define HXF __func__
#undef celt_inner_prod
#define celt_inner_prod(x, y, N, arch) hx_inner_prod(x, y, N, arch, HXF, NULL)
#define ec_tell_frac(ec) hx_tell(ec, HXF)
#define stereo_itheta(X, Y, s, N, a) hx_stereo_itheta(X, Y, s, N, a, HXF)
#define ec_encode(e, fl, fh, ft) hx_encode(e, fl, fh, ft, HXF)
#define ec_dec_update(e, fl, fh, ft) hx_dec_update(e, fl, fh, ft, HXF)
#define ec_enc_uint(e, fl, ft) hx_enc_uint(e, fl, ft, HXF)
#define ec_dec_uint(e, ft) hx_dec_uint(e, ft, HXF)
#define ec_enc_bit_logp(e, v, l) hx_enc_bit_logp(e, v, l, HXF)
#define ec_dec_bit_logp(e, l) hx_dec_bit_logp(e, l, HXF)
#define ec_enc_bits(e, v, n) hx_enc_bits(e, v, n, HXF)
#define ec_dec_bits(e, n) hx_dec_bits(e, n, HXF)
#define bits2pulses(m, i, LM, b) hx_b2p(m, i, LM, b, HXF)
#define alg_quant hx_alg_quant
#define alg_unquant hx_alg_unquant
#define quant_all_bands hxreal_quant_all_bands
#include "bands.c"
#undef quant_all_bands
#undef alg_unquant
#undef alg_quant
#undef bits2pulses
#undef ec_dec_bits
#undef ec_enc_bits
#undef ec_dec_bit_logp
#undef ec_enc_bit_logp
#undef ec_dec_uint
#undef ec_enc_uint
#undef ec_dec_update
#undef ec_encode
#undef stereo_itheta
#undef ec_tell_frac
#undef celt_inner_prod
#define celt_inner_prod(x, y, N, arch) ((void)(arch), celt_inner_prod_c(x, y, N))

void quant_all_bands(int encode, const CELTMode *m, int start, int end, celt_norm *X_, celt_norm *Y_, unsigned char *collapse_masks,
      const celt_ener *bandE, int *pulses, int shortBlocks, int spread, int dual_stereo, int intensity, int *tf_res,
      opus_int32 total_bits, opus_int32 balance, ec_ctx *ec, int LM, int codedBands, opus_uint32 *seed, int complexity,
      int arch, int disable_inv)
{
   qcall_t *c; int j, role = encode ? 1 : 0, C = Y_ != NULL ? 2 : 1;
   if (g_n[role] >= MAXCALLS || m->nbEBands != NBMAX) { fprintf(stderr, "hx_bandbits: call table full / unexpected mode\n"); exit(3); }
   c = &g_calls[role][g_n[role]++];
   memset(c, 0, sizeof *c);
   c->role = role; c->C = C; c->LM = LM; c->st = start; c->en = end; c->cb = codedBands; c->inten = intensity; c->dual = dual_stereo;
   c->shortb = shortBlocks; c->spread = spread; c->bal = (int)balance; c->total = (int)total_bits; c->cx = complexity; c->dinv = disable_inv;
   c->stor = (int)ec->storage; c->err0 = ec->error;
   c->inpkt = (g_pkt == NULL) || (ec->buf >= g_pkt && ec->buf < g_pkt + g_pktlen);
   for (j = 0; j < NBMAX; j++) {
      c->tf[j] = (j >= start && j < end) ? tf_res[j] : 0;
      c->p[j] = (j >= start && j < end) ? pulses[j] : 0;
   }
   for (j = 0; j < C * NBMAX; j++) collapse_masks[j] = 0xEE;          /* a sentinel: shows which entries the call wrote */
   g_cur = c; g_theta = g_leaf = -1; g_pend_st = g_pend_N = -1; g_ec = ec;
   hxreal_quant_all_bands(encode, m, start, end, X_, Y_, collapse_masks, bandE, pulses, shortBlocks, spread, dual_stereo, intensity,
                          tf_res, total_bits, balance, ec, LM, codedBands, seed, complexity, arch, disable_inv);
   g_cur = NULL;
   if (c->nb > 0) c->b[c->nb - 1].ev1 = g_nev;
   if (g_theta >= 0) c->broken |= 128;
   c->tellEnd = (int)ec_tell_frac(ec); c->sigEnd = ec_sig(ec); c->sigEnd2 = g_sig2; c->err = ec->error;
   for (j = 0; j < 2 * NBMAX; j++) c->masks[j] = j < C * NBMAX ? collapse_masks[j] : 0;
}

/* ------------------------------------------------------------------------------------------------ output */
static void put_events(int a, int b)
{
   int k, j;
   printf("[");
   for (k = a; k < b; k++) {
      const ev_t *e = &g_ev[k];
      int n = e->v[0] == 1 ? 9 : e->v[0] == 6 ? 4 : e->v[0] == 7 ? 10 : 1;
      printf(k > a ? ",[" : "[");
      for (j = 0; j < n; j++) printf(j ? ",%d" : "%d", e->v[j]);
      printf("]");
   }
   printf("]");
}

static void put_call(const qcall_t *c)
{
   int k;
   printf("{\"r\":%d,\"C\":%d,\"LM\":%d,\"st\":%d,\"en\":%d,\"cb\":%d,\"inten\":%d,\"dual\":%d,\"short\":%d,\"spread\":%d,\"bal\":%d,"
          "\"total\":%d,\"cx\":%d,\"dinv\":%d,\"stor\":%d,\"inpkt\":%d,\"err\":%d,\"err0\":%d,\"tellEnd\":%d,\"sigEnd\":[%d,%d],\"broken\":%d",
          c->role, c->C, c->LM, c->st, c->en, c->cb, c->inten, c->dual, c->shortb, c->spread, c->bal, c->total, c->cx, c->dinv, c->stor,
          c->inpkt, c->err, c->err0, c->tellEnd, c->sigEnd, c->sigEnd2, c->broken);
   js_arr_i("tf", c->tf, NBMAX); js_arr_i("p", c->p, NBMAX); js_arr_i("masks", c->masks, 2 * NBMAX);
   printf(",\"bands\":[");
   for (k = 0; k < c->nb; k++) {
      const band_t *b = &c->b[k];
      int j, cuts[8], nc = 0;
      /* trial ends: the celt_inner_prod calls come in pairs (dist over X, dist over Y) */
      for (j = b->ev0; j < b->ev1 && nc < 8; j++) if (g_ev[j].v[0] == 9) cuts[nc++] = j;
      printf("%s{\"tell\":%d,\"sig\":[%d,%d],\"tr\":[", k ? "," : "", b->tell, b->sig, b->sig2);
      if (nc == 0) put_events(b->ev0, b->ev1);
      else if (nc == 4 && cuts[1] == cuts[0] + 1 && cuts[3] == cuts[2] + 1 && cuts[3] == b->ev1 - 1) {
         put_events(b->ev0, cuts[0]); printf(","); put_events(cuts[1] + 1, cuts[2]);
      } else printf("[[0]]");                 /* unknown shape: the trace spec rejects it */
      if (nc == 4) printf("],\"sg\":[[%d,%d],[%d,%d]],\"nd\":%d}", g_ev[cuts[0]].v[1], g_ev[cuts[0]].v[2], g_ev[cuts[2]].v[1], g_ev[cuts[2]].v[2], nc);
      else printf("],\"sg\":[],\"nd\":%d}", nc);
   }
   printf("]}");
}

static void put_packet(const char *mode, const char *cmd, int idx)
{
   int i;
   printf("{\"k\":\"pkt\",\"m\":\"%s\",\"cmd\":\"%s\",\"ix\":%d,\"enc\":[", mode, cmd, idx);
   for (i = 0; i < g_n[1]; i++) { if (i) printf(","); put_call(&g_calls[1][i]); }
   printf("],\"dec\":[");
   for (i = 0; i < g_n[0]; i++) { if (i) printf(","); put_call(&g_calls[0][i]); }
   printf("]}\n");
}

static void reset_log(void) { g_n[0] = g_n[1] = 0; g_nev = 0; }


static int parse_ints(const char *s, int *a, int max)
{
   int n = 0; char *e;
   while (*s && n < max) {
      long v;
      while (*s == ' ' || *s == '\t') s++;
      if (!*s || *s == '|' || *s == '\n' || *s == '\r') break;
      v = strtol(s, &e, 10);
      if (e == s) break;
      a[n++] = (int)v; s = e;
   }
   return n;
}
static void chomp(char *s) { size_t n = strlen(s); while (n && (s[n - 1] == '\n' || s[n - 1] == '\r' || s[n - 1] == ' ')) s[--n] = 0; }

static const CELTMode *the_mode(void)
{
   int err = 0;
   const CELTMode *m = opus_custom_mode_create(48000, 960, &err);
   if (!m || m->nbEBands != NBMAX) { fprintf(stderr, "no static mode (%d)\n", err); exit(3); }
   return m;
}

/* ------------------------------------------------------------------------------------------------ direct cases */
static void fill_band(hx_rng *r, celt_norm *x, int n, int shape)
{
   int j; double e = 0;
   static double t[2048];
   for (j = 0; j < n; j++) {
      double w = 1.0;
      switch (shape) {
      case 0: w = 1.0; break;
      case 1: w = j < n / 2 ? 1.0 : 0.02; break;          /* energy in the first half */
      case 2: w = j < n / 2 ? 0.02 : 1.0; break;          /* ... in the second half */
      case 3: w = (j % 4 == 0) ? 1.0 : 0.0; break;        /* sparse */
      case 4: w = j == (n > 1 ? 1 : 0) ? 1.0 : 0.0; break;/* one coefficient */
      case 5: w = j < n / 2 ? 1.0 : 0.0; break;           /* second half exactly empty */
      default: w = j < n / 2 ? 0.0 : 1.0; break;          /* first half exactly empty */
      }
      t[j] = w * (2 * hx_unit(r) - 1);
      e += t[j] * t[j];
   }
   if (e < 1e-20) { t[0] = 1; e = 1; }
   e = 1.0 / sqrt(e);
   for (j = 0; j < n; j++) {
#ifdef FIXED_POINT
      x[j] = (celt_norm)floor(.5 + t[j] * e * NORM_SCALING);
#else
      x[j] = (celt_norm)(t[j] * e);
#endif
   }
}

static void run_case(char *ln)
{
   const CELTMode *m = the_mode();
   int h[20], tf[NBMAX + 2], pu[NBMAX + 2], nh, nt, np, j, c;
   char *bar1, *bar2;
   static celt_norm X[2 * 960], Xd[2 * 960];
   static celt_ener bandE[2 * NBMAX];
   static unsigned char buf[1300], masks[2 * NBMAX];
   chomp(ln);
   bar1 = strchr(ln, '|'); bar2 = bar1 ? strchr(bar1 + 1, '|') : NULL;
   if (!bar2) { fprintf(stderr, "bad Q line: %s\n", ln); exit(3); }
   nh = parse_ints(ln + 1, h, 20); nt = parse_ints(bar1 + 1, tf, NBMAX + 1); np = parse_ints(bar2 + 1, pu, NBMAX + 1);
   if (nh != 17 || nt != NBMAX || np != NBMAX) { fprintf(stderr, "bad Q line (%d,%d,%d): %s\n", nh, nt, np, ln); exit(3); }
   {
      int C = h[0], LM = h[1], st = h[2], en = h[3], cb = h[4], inten = h[5], dual = h[6], shortb = h[7], spread = h[8];
      int len = h[9], rsv = h[10], pre = h[11], bal = h[12], cx = h[13], dinv = h[14], seed = h[15], shape = h[16];
      int M = 1 << LM, N = M * m->shortMdctSize, total = len * 64 - rsv;
      hx_rng r; ec_enc enc; ec_dec dec; opus_uint32 rng_e, rng_d;
      int tfe[NBMAX], tfd[NBMAX], pe[NBMAX], pd[NBMAX];
      if (C < 1 || C > 2 || LM < 0 || LM > 3 || st < 0 || st >= en || en > NBMAX || len < 1 || len > 1275 || cb < st || cb > en) {
         fprintf(stderr, "case out of domain: %s\n", ln); exit(3);
      }
      r.s = (uint64_t)seed * 0x9E3779B97F4A7C15ULL + 4242;
      for (c = 0; c < C; c++) for (j = 0; j < NBMAX; j++) {
         int n = M * (m->eBands[j + 1] - m->eBands[j]);
         fill_band(&r, X + c * N + M * m->eBands[j], n, shape == 9 ? (int)hx_u(&r, 7) : shape);
#ifdef FIXED_POINT
         bandE[c * NBMAX + j] = (celt_ener)(1 + hx_u(&r, 1 << 20));
#else
         bandE[c * NBMAX + j] = (celt_ener)(1e-3 + hx_unit(&r) * (hx_u(&r, 4) ? 1.0 : 100.0));
#endif
      }
      for (j = 0; j < NBMAX; j++) { tfe[j] = tfd[j] = tf[j]; pe[j] = pd[j] = pu[j]; }
      memset(buf, 0, sizeof buf);
      reset_log();
      ec_enc_init(&enc, buf, (opus_uint32)len);
      /* what the frame coded before the bands: `pre` eighth-bits, as raw bits plus a few range-coded symbols */
      for (j = 0; j + 8 <= pre - 16; j += 8) ec_enc_bits(&enc, hx_u(&r, 2), 1);
      for (j = 0; j < (pre & 7) + 1 && pre > 0; j++) ec_enc_bit_logp(&enc, 0, 3);
      rng_e = (opus_uint32)seed;
      quant_all_bands(1, m, st, en, X, C == 2 ? X + N : NULL, masks, bandE, pe, shortb, spread, dual, inten, tfe, total, bal, &enc, LM, cb,
                      &rng_e, cx, 0, dinv);
      ec_enc_done(&enc);
      ec_dec_init(&dec, buf, (opus_uint32)len);
      for (j = 0; j + 8 <= pre - 16; j += 8) (void)ec_dec_bits(&dec, 1);
      for (j = 0; j < (pre & 7) + 1 && pre > 0; j++) (void)ec_dec_bit_logp(&dec, 3);
      rng_d = (opus_uint32)seed;
      memset(Xd, 0, sizeof Xd);
      quant_all_bands(0, m, st, en, Xd, C == 2 ? Xd + N : NULL, masks, NULL, pd, shortb, spread, dual, inten, tfd, total, bal, &dec, LM, cb,
                      &rng_d, 0, 0, dinv);
      put_packet("pair", ln, 0);
   }
}

static void cmd_cases(void)
{
   static char ln[4096];
   while (fgets(ln, sizeof ln, stdin)) if (ln[0] == 'Q') { run_case(ln); fflush(stdout); }
}

/* ------------------------------------------------------------------------------------------------ in situ */
#define MAXFRAME 5760
static float g_pcm[MAXFRAME * 2];
static float g_out[MAXFRAME * 2];
typedef struct { int kind; double f1, f2, amp, ph1, ph2; int left; } hsig_t;

static void sig_next(hx_rng *r, hsig_t *s, int Fs)
{
   s->kind = (int)hx_u(r, 8);
   s->f1 = 50.0 + hx_unit(r) * hx_unit(r) * (Fs / 2 - 100);
   s->f2 = 50.0 + hx_unit(r) * (Fs / 2 - 100);
   s->amp = pow(10.0, -(hx_unit(r) * 50.0) / 20.0);
   s->left = Fs / 50 * (1 + (int)hx_u(r, 30));
}

static void sig_fill(hx_rng *r, hsig_t *s, int Fs, int ch, int n, float *pcm)
{
   int i, c;
   for (i = 0; i < n; i++) {
      double v[2] = {0, 0};
      if (s->left-- <= 0) sig_next(r, s, Fs);
      s->ph1 += 2 * M_PI * s->f1 / Fs; s->ph2 += 2 * M_PI * s->f2 / Fs;
      if (s->ph1 > 2 * M_PI) s->ph1 -= 2 * M_PI;
      if (s->ph2 > 2 * M_PI) s->ph2 -= 2 * M_PI;
      switch (s->kind) {
      case 0: break;
      case 1: v[0] = v[1] = s->amp * sin(s->ph1); break;
      case 2: v[0] = s->amp * sin(s->ph1); v[1] = s->amp * sin(s->ph2); break;
      case 3: v[0] = s->amp * (2 * hx_unit(r) - 1); v[1] = s->amp * (2 * hx_unit(r) - 1); break;
      case 4: { double x = s->amp * (2 * hx_unit(r) - 1); v[0] = x; v[1] = -x; } break;
      case 5: v[0] = v[1] = (hx_u(r, 400) == 0) ? s->amp : 0.0; break;
      case 6: { double x = s->amp * (0.5 * sin(s->ph1) + 0.3 * sin(3 * s->ph1) + 0.1 * (2 * hx_unit(r) - 1)); v[0] = x; v[1] = 0.7 * x; } break;
      default: { double x = s->amp * sin(s->ph1) * ((s->left / (Fs / 100)) & 1); v[0] = x; v[1] = s->amp * 0.2 * (2 * hx_unit(r) - 1); } break;
      }
      for (c = 0; c < ch; c++) pcm[i * ch + c] = (float)v[c];
   }
}

static void run_situ(char *ln)
{
   int h[8], nh, err = 0, k;
   hx_rng r; hsig_t s;
   OpusEncoder *enc; OpusDecoder *dec;
   int Fs, ch, app, npk, seed, dFs, dch;
   static const int rates[5] = {8000, 12000, 16000, 24000, 48000};
   static const int durs[9] = {1, 2, 4, 8, 16, 24, 32, 40, 48};
   static const int bws[4] = {OPUS_BANDWIDTH_NARROWBAND, OPUS_BANDWIDTH_WIDEBAND, OPUS_BANDWIDTH_SUPERWIDEBAND, OPUS_BANDWIDTH_FULLBAND};
   unsigned char pkt[1600];
   int dur = 8;
   chomp(ln);
   nh = parse_ints(ln + 1, h, 8);
   if (nh != 5) { fprintf(stderr, "bad X line: %s\n", ln); exit(3); }
   seed = h[0]; Fs = h[1]; ch = h[2]; app = h[3]; npk = h[4];
   r.s = (uint64_t)seed * 0x2545F4914F6CDD1DULL + 99;
   enc = opus_encoder_create(Fs, ch, app, &err);
   if (!enc) { fprintf(stderr, "encoder create failed %d: %s\n", err, ln); exit(3); }
   dFs = rates[hx_u(&r, 5)]; dch = 1 + (int)hx_u(&r, 2);
   if (hx_u(&r, 2)) { dFs = Fs; dch = ch; }
   dec = opus_decoder_create(dFs, dch, &err);
   if (!dec) { fprintf(stderr, "decoder create failed %d\n", err); exit(3); }
   memset(&s, 0, sizeof s); sig_next(&r, &s, Fs);
   for (k = 0; k < npk; k++) {
      int n, ret, maxb;
      if (k == 0 || hx_u(&r, 6) == 0) {
         int what = (int)hx_u(&r, 12);
         switch (k == 0 ? 100 : what) {
         case 100: {
            double u = hx_unit(&r);
            int br = (int)(6000.0 * pow(85.0, u));
            opus_encoder_ctl(enc, OPUS_SET_BITRATE(hx_u(&r, 12) == 0 ? OPUS_BITRATE_MAX : br));
            opus_encoder_ctl(enc, OPUS_SET_FORCE_MODE(hx_u(&r, 5) == 0 ? MODE_HYBRID : hx_u(&r, 4) ? MODE_CELT_ONLY : OPUS_AUTO));
            opus_encoder_ctl(enc, OPUS_SET_COMPLEXITY((int)hx_u(&r, 11)));
            opus_encoder_ctl(enc, OPUS_SET_VBR((int)hx_u(&r, 3) != 0));
            opus_encoder_ctl(enc, OPUS_SET_VBR_CONSTRAINT((int)hx_u(&r, 2)));
            if (hx_u(&r, 2)) opus_encoder_ctl(enc, OPUS_SET_MAX_BANDWIDTH(bws[hx_u(&r, 4)]));
            dur = durs[hx_u(&r, 9)];
         } break;
         case 0: case 1: case 2: { double u = hx_unit(&r); opus_encoder_ctl(enc, OPUS_SET_BITRATE((int)(6000.0 * pow(85.0, u)))); } break;
         case 3: dur = durs[hx_u(&r, 9)]; break;
         case 4: opus_encoder_ctl(enc, OPUS_SET_MAX_BANDWIDTH(bws[hx_u(&r, 4)])); break;
         case 5: opus_encoder_ctl(enc, OPUS_SET_BANDWIDTH(hx_u(&r, 2) ? OPUS_AUTO : bws[hx_u(&r, 4)])); break;
         case 6: opus_encoder_ctl(enc, OPUS_SET_FORCE_MODE(hx_u(&r, 3) == 0 ? MODE_HYBRID : hx_u(&r, 4) ? MODE_CELT_ONLY : OPUS_AUTO)); break;
         case 7: opus_encoder_ctl(enc, OPUS_SET_FORCE_CHANNELS(hx_u(&r, 2) ? OPUS_AUTO : 1 + (int)hx_u(&r, ch))); break;
         case 8: opus_encoder_ctl(enc, OPUS_SET_COMPLEXITY((int)hx_u(&r, 11))); break;
         case 9: opus_encoder_ctl(enc, OPUS_SET_VBR((int)hx_u(&r, 2))); opus_encoder_ctl(enc, OPUS_SET_VBR_CONSTRAINT((int)hx_u(&r, 2))); break;
         case 10: opus_encoder_ctl(enc, OPUS_SET_PHASE_INVERSION_DISABLED((int)hx_u(&r, 2))); opus_encoder_ctl(enc, OPUS_SET_PREDICTION_DISABLED((int)hx_u(&r, 2))); break;
         default: opus_encoder_ctl(enc, OPUS_SET_PACKET_LOSS_PERC((int)hx_u(&r, 30))); opus_encoder_ctl(enc, OPUS_SET_INBAND_FEC((int)hx_u(&r, 3))); break;
         }
      }
      n = Fs / 400 * dur;
      sig_fill(&r, &s, Fs, ch, n, g_pcm);
      switch (hx_u(&r, 10)) {
      case 0: maxb = 8 + (int)hx_u(&r, 60); break;
      case 1: maxb = 40 + (int)hx_u(&r, 400); break;
      case 2: maxb = 1275; break;
      default: maxb = 1500; break;
      }
      reset_log();
      ret = opus_encode_float(enc, g_pcm, n, pkt, maxb);
      if (ret > 0) {
         unsigned char *pk = hx_exact(pkt, (size_t)ret);
         g_pkt = pk; g_pktlen = ret;
         (void)opus_decode_float(dec, pk, ret, g_out, MAXFRAME, 0);
         g_pkt = NULL;
         free(pk);
      }
      if (g_n[0] + g_n[1] > 0) put_packet("situ", ln, k);
   }
   opus_encoder_destroy(enc); opus_decoder_destroy(dec);
   printf("{\"k\":\"x\",\"cmd\":\"%s\"}\n", ln);
}

static void cmd_situ(void)
{
   static char ln[512];
   while (fgets(ln, sizeof ln, stdin))
      if (ln[0] == 'X') { printf("{\"k\":\"b\"}\n"); fflush(stdout); run_situ(ln); fflush(stdout); }
}

int main(int argc, char **argv)
{
   if (argc >= 2 && !strcmp(argv[1], "cases")) cmd_cases();
   else if (argc >= 2 && !strcmp(argv[1], "situ")) cmd_situ();
   else { fprintf(stderr, "hx_bandbits: cases | situ\n"); return 2; }
   return 0;
}
