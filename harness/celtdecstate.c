/* hx_celtdecstate - growth module G12 (CeltDecState): in-situ traces of the CELT decoder's and the CELT encoder's frame-to-frame
   CONTROL state inside an OpusDecoder / OpusEncoder.  The harness executes and records; every judgement is TLC's
   (spec/CeltDecStateTrace.tla).

   stdin: one execution per line
     X <id> <fsd> <chd> <fse> <che> <mode 0 CELT-only | 1 hybrid> <seed> | tok tok ...
   tokens
     dN  frame duration in 2.5 ms units (1 2 4 8 16 24)         bN  bitrate             vN  0 CBR 1 VBR 2 constrained VBR
     xN  complexity      sN  signal family (0 silence 1 harmonic 2 noise 3 clicks 4 sweep 5 loud/quiet harmonic 6 bright pulse train)
     pN  expected loss percentage (encoder)                       wN  bandwidth 1101..1105
     eN  N frames encoded and decoded                             lN  N frames encoded, each one lost: opus_decode(NULL, its duration)
     LN  one concealment call of N units (2.5 ms) with no frame consumed (odd sizes)
     fN  one frame encoded, the decoder is asked for FEC with frame_size = packet duration + N units
     r   OPUS_RESET_STATE on the decoder (a fresh twin decoder then shadows every later call)
     R   OPUS_RESET_STATE on the encoder (a fresh twin encoder then shadows every later encode)     B  both
   events (NDJSON): new, enc, dec, rst, end - see CeltDecStateTrace.tla.

   The private structs OpusCustomDecoder / OpusCustomEncoder are read through mirrors declared here; the layout is checked at
   start-up and after every call against the sizes the library reports and against the OPUS_VERIF peek hooks (rc 3 on mismatch). */
#include <stdio.h>
#include <stdlib.h>
#include <string.h>
#include <math.h>
#include <stddef.h>
#include "opus.h"
#include "opus_private.h"
#include "arch.h"
#include "celt.h"
#include "modes.h"
#include "entdec.h"
#include "hx_common.h"

extern int opus_verif_encoder_peek(const OpusEncoder *st, int field);
extern int opus_verif_decoder_peek(const OpusDecoder *st, int field);
extern opus_int32 opus_verif_celt_encoder_peek(const CELTEncoder *st, int field);
extern int opus_verif_celt_decoder_peek(const CELTDecoder *st, int field);

/* ---- mirrors (celt/celt_decoder.c:80-123, celt/celt_encoder.c:63-130; float build, no DEEP_PLC, no RESYNTH) ---- */
typedef struct {
   const OpusCustomMode *mode; int overlap; int channels; int stream_channels;
   int downsample; int start, end; int signalling; int disable_inv; int complexity; int arch;
   opus_uint32 rng; int error; int last_pitch_index; int loss_duration; int skip_plc;
   int postfilter_period; int postfilter_period_old; opus_val16 postfilter_gain; opus_val16 postfilter_gain_old;
   int postfilter_tapset; int postfilter_tapset_old; int prefilter_and_fold;
   celt_sig preemph_memD[2];
   celt_sig _decode_mem[1];
} dmir;

typedef struct {
   const OpusCustomMode *mode; int channels; int stream_channels;
   int force_intra; int clip; int disable_pf; int complexity; int upsample; int start, end;
   opus_int32 bitrate; int vbr; int signalling; int constrained_vbr; int loss_rate; int lsb_depth; int lfe; int disable_inv; int arch;
   opus_uint32 rng; int spread_decision; opus_val32 delayedIntra; int tonal_average; int lastCodedBands; int hf_average; int tapset_decision;
   int prefilter_period; opus_val16 prefilter_gain; int prefilter_tapset;
   int consec_transient; AnalysisInfo analysis; SILKInfo silk_info;
   opus_val32 preemph_memE[2]; opus_val32 preemph_memD[2];
   opus_int32 vbr_reservoir; opus_int32 vbr_drift; opus_int32 vbr_offset; opus_int32 vbr_count;
   opus_val32 overlap_max; opus_val16 stereo_saving; int intensity; celt_glog *energy_mask; celt_glog spec_avg;
   celt_sig in_mem[1];
} emir;

#define DBUF 2048
#define NBE 21
#define LPCO 24

static const dmir *dm_of(const OpusDecoder *d, int ch)
{ return (const dmir *)((const char *)d + opus_decoder_get_size(ch) - celt_decoder_get_size(ch)); }
static const emir *em_of(const OpusEncoder *e) { return (const emir *)((const char *)e + ((const int *)e)[0]); }

static void die(const char *why) { fprintf(stderr, "hx_celtdecstate: mirror check failed: %s\n", why); exit(3); }

static void check_dec_layout(const OpusDecoder *d, int ch, int fs)
{
   const dmir *m = dm_of(d, ch);
   size_t want = sizeof(dmir) + (size_t)(ch * (DBUF + 120) - 1) * sizeof(celt_sig) + (size_t)ch * LPCO * sizeof(opus_val16)
               + (size_t)4 * 2 * NBE * sizeof(celt_glog);
   if ((size_t)celt_decoder_get_size(ch) != want) die("decoder size");
   if (m->overlap != 120 || m->channels != ch || m->stream_channels != ch || m->downsample != 48000 / fs || m->start != 0 || m->end != 21
       || m->signalling != 0 || m->skip_plc != 1 || m->loss_duration != 0 || m->rng != 0 || m->prefilter_and_fold != 0
       || m->arch != opus_verif_celt_decoder_peek((const CELTDecoder *)m, 3)) die("fresh decoder contents");
}
static void check_dec_hooks(const dmir *m)
{
   const CELTDecoder *c = (const CELTDecoder *)m;
   if (m->loss_duration != opus_verif_celt_decoder_peek(c, 0) || m->skip_plc != opus_verif_celt_decoder_peek(c, 1)
       || m->postfilter_period != opus_verif_celt_decoder_peek(c, 2) || m->arch != opus_verif_celt_decoder_peek(c, 3)) die("decoder hooks");
}
static void check_enc_layout(const OpusEncoder *e, int ch)
{
   const emir *m = em_of(e);
   size_t want = sizeof(emir) + (size_t)(ch * 120 - 1) * sizeof(celt_sig) + (size_t)ch * COMBFILTER_MAXPERIOD * sizeof(celt_sig)
               + (size_t)4 * ch * NBE * sizeof(celt_glog);
   if ((size_t)celt_encoder_get_size(ch) != want) die("encoder size");
   if (m->channels != ch || m->start != 0 || m->end != 21 || m->tonal_average != 256 || m->spread_decision != 2 || m->delayedIntra != 1
       || m->vbr_count != 0 || m->prefilter_period != 0 || m->lsb_depth < 8 || m->lsb_depth > 24) die("fresh encoder contents");
}
static void check_enc_hooks(const emir *m)
{
   const CELTEncoder *c = (const CELTEncoder *)m;
   if (m->vbr_reservoir != opus_verif_celt_encoder_peek(c, 0) || m->vbr_drift != opus_verif_celt_encoder_peek(c, 1)
       || m->vbr_offset != opus_verif_celt_encoder_peek(c, 2) || m->vbr_count != opus_verif_celt_encoder_peek(c, 3)
       || m->lastCodedBands != opus_verif_celt_encoder_peek(c, 4) || m->prefilter_period != opus_verif_celt_encoder_peek(c, 5)
       || m->arch != opus_verif_celt_encoder_peek(c, 6)) die("encoder hooks");
}

static void js_halves(const char *kh, const char *kl, opus_uint32 v) { js_int(kh, (long)(v >> 16)); js_int(kl, (long)(v & 0xFFFF)); }
static int q15(float g) { return (int)lrintf(g * 32768.f); }

static void js_dstate(const dmir *m)
{
   js_halves("rh", "rl", m->rng); js_int("err", m->error); js_int("lpi", m->last_pitch_index); js_int("ld", m->loss_duration);
   js_int("skip", m->skip_plc); js_int("pp", m->postfilter_period); js_int("ppo", m->postfilter_period_old);
   js_int("pg", q15(m->postfilter_gain)); js_int("pgo", q15(m->postfilter_gain_old)); js_int("pt", m->postfilter_tapset);
   js_int("pto", m->postfilter_tapset_old); js_int("fold", m->prefilter_and_fold); js_int("start", m->start); js_int("end", m->end);
   js_int("sc", m->stream_channels); js_int("ds", m->downsample); js_int("ch", m->channels);
}
static void js_estate(const emir *m)
{
   js_halves("erh", "erl", m->rng); js_int("epp", m->prefilter_period); js_int("epg", q15(m->prefilter_gain)); js_int("ept", m->prefilter_tapset);
   js_int("ct", m->consec_transient); js_int("lcb", m->lastCodedBands); js_int("vr", m->vbr_reservoir); js_int("vd", m->vbr_drift);
   js_int("vo", m->vbr_offset); js_int("vc", m->vbr_count); js_int("sd", m->spread_decision); js_int("td", m->tapset_decision);
   js_int("ta", m->tonal_average); js_int("hf", m->hf_average); js_int("ity", m->intensity); js_int("di", m->delayedIntra == 1);
   js_int("vbr", m->vbr); js_int("cv", m->constrained_vbr); js_int("bmax", m->bitrate == OPUS_BITRATE_MAX);
   js_int("br", m->bitrate == OPUS_BITRATE_MAX ? 0 : m->bitrate); js_int("lr", m->loss_rate); js_int("lfe", m->lfe); js_int("dinv", m->disable_inv);
   js_int("cx", m->complexity); js_int("es", m->start); js_int("ee", m->end); js_int("esc", m->stream_channels); js_int("ech", m->channels);
}

/* the coded header fields that drive the control state, read with the library's own range decoder (celt_decoder.c:1112-1152) */
static void parse_hdr(const unsigned char *f, int len, int LM, int *o /* sil pf period qg tapset transient */)
{
   static const unsigned char tap_icdf[3] = {2, 1, 0};
   ec_dec d; int tell, total = len * 8;
   o[0] = o[1] = o[2] = o[3] = o[4] = o[5] = 0;
   ec_dec_init(&d, (unsigned char *)f, len);
   tell = ec_tell(&d);
   if (tell >= total) o[0] = 1; else if (tell == 1) o[0] = ec_dec_bit_logp(&d, 15);
   if (o[0]) { tell = total; d.nbits_total += tell - ec_tell(&d); }
   if (tell + 16 <= total) {
      if (ec_dec_bit_logp(&d, 1)) {
         int oct = ec_dec_uint(&d, 6);
         o[1] = 1; o[2] = (16 << oct) + ec_dec_bits(&d, 4 + oct) - 1; o[3] = ec_dec_bits(&d, 3);
         if (ec_tell(&d) + 2 <= total) o[4] = ec_dec_icdf(&d, tap_icdf, 2);
      }
      tell = ec_tell(&d);
   }
   if (LM > 0 && tell + 3 <= total) o[5] = ec_dec_bit_logp(&d, 3);
}

/* ---- signal ---- */
static hx_rng g_sig; static double g_ph, g_f0, g_t; static long g_n;
static void gen(float *pcm, int n, int ch, int fs, int fam)
{
   int i, c;
   for (i = 0; i < n; i++, g_n++) {
      double v = 0, t = (double)g_n / fs;
      switch (fam) {
      case 0: v = 0; break;
      case 1: case 5: { int h; g_ph += 2 * M_PI * g_f0 / fs; for (h = 1; h <= 6; h++) if (h * g_f0 < fs * 0.45) v += sin(h * g_ph) / h;
                v *= 0.25; if (fam == 5 && ((long)(t * 4) & 1)) v *= 0.02; } break;
      case 2: v = 0.3 * (hx_unit(&g_sig) * 2 - 1); break;
      case 3: v = 0.003 * (hx_unit(&g_sig) * 2 - 1); if (g_n % (fs / 25) < 24) v += 0.7 * (hx_unit(&g_sig) * 2 - 1); break;
      case 6: { int h; g_ph += 2 * M_PI * g_f0 / fs; for (h = 1; h <= 80; h++) if (h * g_f0 < fs * 0.45) v += sin(h * g_ph); v *= 0.02; } break;   /* bright pulse train: high-frequency energy moves the tapset decision */
      case 4: g_ph += 2 * M_PI * (200 + 1800 * fabs(sin(t * 1.7))) / fs; v = 0.3 * sin(g_ph) + 0.15 * sin(2 * g_ph); break;
      default: v = 0;
      }
      for (c = 0; c < ch; c++) pcm[i * ch + c] = (float)(c ? v * 0.8 : v);
   }
   (void)g_t;
}

/* mean square of a block in 1/100 dB (relative to full scale, floor -140 dB) - an integer measurement for TLC */
static long level_cb(const float *p, int n)
{
   double s = 0; int i; if (n <= 0) return -14000;
   for (i = 0; i < n; i++) s += (double)p[i] * p[i];
   s = s / n + 1e-14;
   return (long)floor(1000.0 * log10(s));
}

typedef struct {
   int x, fsd, chd, fse, che, mode; OpusEncoder *e; OpusDecoder *d; OpusDecoder *dt; OpusEncoder *et;
   int q, fam, ubw; unsigned char pkt[4000]; int plen; float *in, *out, *out2; int pre_cb;
} ex_t;

static void enc_frame(ex_t *E)
{
   int n = E->fse / 400 * E->q, r, rt = 0, same = -1; opus_uint32 rng = 0; const emir *m = em_of(E->e);
   unsigned char toc = 0; const unsigned char *frames[48]; opus_int16 sizes[48]; int cnt, i, lm = -1, spf;
   unsigned char p2[4000];
   gen(E->in, n, E->che, E->fse, E->fam);
   hx_arm(20);
   r = opus_encode_float(E->e, E->in, n, E->pkt, 1500);
   hx_disarm();
   if (E->et) { rt = opus_encode_float(E->et, E->in, n, p2, 1500); same = (rt == r && r > 0 && !memcmp(p2, E->pkt, (size_t)r)); }
   E->plen = r;
   opus_encoder_ctl(E->e, OPUS_GET_FINAL_RANGE(&rng));
   check_enc_hooks(m);
   js_open("enc"); js_int("x", E->x); js_int("r", r); js_int("q", E->q); js_int("fam", E->fam);
   js_int("md", opus_verif_encoder_peek(E->e, 0)); js_halves("frh", "frl", rng); js_int("tw", E->et != NULL); js_int("same", same);
   if (r > 0) {
      cnt = opus_packet_parse(E->pkt, r, &toc, frames, sizes, NULL);
      spf = opus_packet_get_samples_per_frame(E->pkt, 48000);
      lm = spf == 120 ? 0 : spf == 240 ? 1 : spf == 480 ? 2 : spf == 960 ? 3 : -1;
      js_int("cnt", cnt); js_int("lm", lm); js_int("hy", (toc & 0x80) ? 0 : ((toc & 0x60) == 0x60 ? 1 : 2));
      printf(",\"fr\":[");
      for (i = 0; i < cnt && i < 48; i++) {
         int o[6] = {0, 0, 0, 0, 0, 0};
         if ((toc & 0x80) && sizes[i] > 1 && lm >= 0) parse_hdr(frames[i], sizes[i], lm, o);
         printf("%s[%d,%d,%d,%d,%d,%d,%d]", i ? "," : "", (int)sizes[i], o[0], o[1], o[2], o[3], o[4], o[5]);
      }
      printf("]");
   } else { js_int("cnt", 0); js_int("lm", -1); js_int("hy", 0); printf(",\"fr\":[]"); }
   js_estate(m);
   js_close();
}

/* kind 0 decode the packet, 1 conceal n units, 2 FEC request of n units with the packet */
static void dec_call(ex_t *E, int kind, int units)
{
   const dmir *m = dm_of(E->d, E->chd); int fs = units * (E->fsd / 400), r, rt = 0, i; opus_uint32 rng = 0;
   int pm = opus_verif_decoder_peek(E->d, 1), pr = opus_verif_decoder_peek(E->d, 2), fz = opus_verif_decoder_peek(E->d, 3);
   unsigned char toc = 0; const unsigned char *frames[48]; opus_int16 sizes[48]; int cnt = 0, lm = -1, spf;
   size_t nout = (size_t)5760 * 2;
   for (i = 0; i < (int)nout; i++) E->out[i] = 0;
   hx_arm(20);
   if (kind == 0) r = opus_decode_float(E->d, E->pkt, E->plen, E->out, 5760, 0);
   else if (kind == 1) r = opus_decode_float(E->d, NULL, 0, E->out, fs, 0);
   else r = opus_decode_float(E->d, E->pkt, E->plen, E->out, fs, 1);
   hx_disarm();
   if (E->dt) {
      if (kind == 0) rt = opus_decode_float(E->dt, E->pkt, E->plen, E->out2, 5760, 0);
      else if (kind == 1) rt = opus_decode_float(E->dt, NULL, 0, E->out2, fs, 0);
      else rt = opus_decode_float(E->dt, E->pkt, E->plen, E->out2, fs, 1);
   }
   opus_decoder_ctl(E->d, OPUS_GET_FINAL_RANGE(&rng));
   check_dec_hooks(m);
   js_open("dec"); js_int("x", E->x); js_int("kind", kind); js_int("n", units); js_int("r", r); js_int("u", E->fsd / 400);
   js_int("pm", pm == MODE_CELT_ONLY ? 0 : pm == MODE_HYBRID ? 1 : pm == MODE_SILK_ONLY ? 2 : 3); js_int("pr", pr); js_int("fz", fz / (E->fsd / 400));
   js_halves("frh", "frl", rng);
   if (kind != 1 && E->plen > 0) {
      cnt = opus_packet_parse(E->pkt, E->plen, &toc, frames, sizes, NULL);
      spf = opus_packet_get_samples_per_frame(E->pkt, 48000);
      lm = spf == 120 ? 0 : spf == 240 ? 1 : spf == 480 ? 2 : spf == 960 ? 3 : -1;
   }
   js_int("cnt", cnt); js_int("lm", lm); js_int("hy", cnt > 0 ? ((toc & 0x80) ? 0 : ((toc & 0x60) == 0x60 ? 1 : 2)) : 0);
   js_int("bw", cnt > 0 ? opus_packet_get_bandwidth(E->pkt) - OPUS_BANDWIDTH_NARROWBAND : 0); js_int("st", cnt > 0 ? opus_packet_get_nb_channels(E->pkt) : 0);
   printf(",\"fr\":[");
   for (i = 0; i < cnt && i < 48; i++) {
      int o[6] = {0, 0, 0, 0, 0, 0};
      if ((toc & 0x80) && sizes[i] > 1 && lm >= 0) parse_hdr(frames[i], sizes[i], lm, o);
      printf("%s[%d,%d,%d,%d,%d,%d,%d]", i ? "," : "", (int)sizes[i], o[0], o[1], o[2], o[3], o[4], o[5]);
   }
   printf("]");
   { long cb = r > 0 ? level_cb(E->out, r * E->chd) : -14000; int fin = 1;
     for (i = 0; r > 0 && i < r * E->chd; i++) if (!isfinite(E->out[i])) fin = 0;
     js_int("cb", cb); js_int("pre", E->pre_cb); js_int("fin", fin);
     if (kind == 0 && r > 0) E->pre_cb = (int)cb; }
   js_int("tw", E->dt != NULL);
   if (E->dt) {
      opus_uint32 rng2 = 0; opus_decoder_ctl(E->dt, OPUS_GET_FINAL_RANGE(&rng2));
      js_int("tws", rt == r && rng2 == rng && (r <= 0 || !memcmp(E->out, E->out2, sizeof(float) * (size_t)r * E->chd)));
   } else js_int("tws", -1);
   js_dstate(m);
   js_close();
}

static void do_reset(ex_t *E, int who)
{
   int err = 0, eqd = -1, eqe = -1;
   if (who == 0 || who == 2) {
      const dmir *m, *f; size_t off = offsetof(dmir, rng), tot = (size_t)celt_decoder_get_size(E->chd);
      opus_decoder_ctl(E->d, OPUS_RESET_STATE);
      if (E->dt) opus_decoder_destroy(E->dt);
      E->dt = opus_decoder_create(E->fsd, E->chd, &err);
      if (!E->dt) die("twin decoder");
      m = dm_of(E->d, E->chd); f = dm_of(E->dt, E->chd);
      eqd = !memcmp((const char *)m + off, (const char *)f + off, tot - off);
      E->pre_cb = -14000;
   }
   if (who == 1 || who == 2) {
      const emir *m, *f; size_t off = offsetof(emir, rng), tot = (size_t)celt_encoder_get_size(E->che); int v;
      opus_encoder_ctl(E->e, OPUS_RESET_STATE);
      if (E->et) opus_encoder_destroy(E->et);
      E->et = opus_encoder_create(E->fse, E->che, OPUS_APPLICATION_AUDIO, &err);
      if (!E->et) die("twin encoder");
      /* "carrying the same settings": copy every public setting this harness changes */
      opus_encoder_ctl(E->e, OPUS_GET_BITRATE(&v)); opus_encoder_ctl(E->et, OPUS_SET_BITRATE(v));
      opus_encoder_ctl(E->e, OPUS_GET_VBR(&v)); opus_encoder_ctl(E->et, OPUS_SET_VBR(v));
      opus_encoder_ctl(E->e, OPUS_GET_VBR_CONSTRAINT(&v)); opus_encoder_ctl(E->et, OPUS_SET_VBR_CONSTRAINT(v));
      opus_encoder_ctl(E->e, OPUS_GET_COMPLEXITY(&v)); opus_encoder_ctl(E->et, OPUS_SET_COMPLEXITY(v));
      opus_encoder_ctl(E->e, OPUS_GET_PACKET_LOSS_PERC(&v)); opus_encoder_ctl(E->et, OPUS_SET_PACKET_LOSS_PERC(v));
      if (E->ubw) opus_encoder_ctl(E->et, OPUS_SET_BANDWIDTH(E->ubw));
      opus_encoder_ctl(E->et, OPUS_SET_FORCE_MODE(E->mode ? MODE_HYBRID : MODE_CELT_ONLY));
      m = em_of(E->e); f = em_of(E->et);
      /* the encoder's cleared region holds the analysis / SILK info that the Opus layer writes before every frame: compare the head
         of the region (rng .. consec_transient) and the rate-control block */
      eqe = !memcmp((const char *)m + off, (const char *)f + off, offsetof(emir, analysis) - off)
            && m->vbr_reservoir == f->vbr_reservoir && m->vbr_drift == f->vbr_drift && m->vbr_offset == f->vbr_offset && m->vbr_count == f->vbr_count
            && m->intensity == f->intensity && m->stereo_saving == f->stereo_saving;
   }
   js_open("rst"); js_int("x", E->x); js_int("who", who); js_int("eqd", eqd); js_int("eqe", eqe);
   js_dstate(dm_of(E->d, E->chd)); js_estate(em_of(E->e));
   js_close();
}

static int run_line(char *line)
{
   ex_t E; char *bar = strchr(line, '|'), *tok; unsigned long seed; int err = 0, i;
   if (!bar) return -1;
   *bar = 0; memset(&E, 0, sizeof E);
   if (sscanf(line, "X %d %d %d %d %d %d %lu", &E.x, &E.fsd, &E.chd, &E.fse, &E.che, &E.mode, &seed) != 7) return -1;
   E.e = opus_encoder_create(E.fse, E.che, OPUS_APPLICATION_AUDIO, &err); if (!E.e) return -2;
   E.d = opus_decoder_create(E.fsd, E.chd, &err); if (!E.d) return -2;
   check_enc_layout(E.e, E.che); check_dec_layout(E.d, E.chd, E.fsd);
   opus_encoder_ctl(E.e, OPUS_SET_FORCE_MODE(E.mode ? MODE_HYBRID : MODE_CELT_ONLY));
   E.in = (float *)malloc(sizeof(float) * 5760 * 2); E.out = (float *)malloc(sizeof(float) * 5760 * 2); E.out2 = (float *)malloc(sizeof(float) * 5760 * 2);
   E.q = 8; E.fam = 1; E.pre_cb = -14000;
   if (E.mode) { E.ubw = OPUS_BANDWIDTH_FULLBAND; opus_encoder_ctl(E.e, OPUS_SET_BANDWIDTH(E.ubw)); }
   g_sig.s = seed * 2654435761UL + 12345; g_ph = 0; g_n = 0; g_f0 = 90 + (double)(seed % 23) * 17.3;
   js_open("new"); js_int("x", E.x); js_int("fs", E.fsd); js_int("ch", E.chd); js_int("efs", E.fse); js_int("ech", E.che); js_int("mode", E.mode);
   js_dstate(dm_of(E.d, E.chd)); js_estate(em_of(E.e)); js_close();
   fflush(stdout);
   for (tok = strtok(bar + 1, " \t\r\n"); tok; tok = strtok(NULL, " \t\r\n")) {
      int v = atoi(tok + 1);
      switch (tok[0]) {
      case 'd': if (v == 1 || v == 2 || v == 4 || v == 8 || v == 16 || v == 24) E.q = v; break;
      case 'b': opus_encoder_ctl(E.e, OPUS_SET_BITRATE(v)); if (E.et) opus_encoder_ctl(E.et, OPUS_SET_BITRATE(v)); break;
      case 'v': opus_encoder_ctl(E.e, OPUS_SET_VBR(v > 0)); opus_encoder_ctl(E.e, OPUS_SET_VBR_CONSTRAINT(v == 2));
                if (E.et) { opus_encoder_ctl(E.et, OPUS_SET_VBR(v > 0)); opus_encoder_ctl(E.et, OPUS_SET_VBR_CONSTRAINT(v == 2)); } break;
      case 'x': opus_encoder_ctl(E.e, OPUS_SET_COMPLEXITY(v)); if (E.et) opus_encoder_ctl(E.et, OPUS_SET_COMPLEXITY(v)); break;
      case 'p': opus_encoder_ctl(E.e, OPUS_SET_PACKET_LOSS_PERC(v)); if (E.et) opus_encoder_ctl(E.et, OPUS_SET_PACKET_LOSS_PERC(v)); break;
      case 'w': E.ubw = v; opus_encoder_ctl(E.e, OPUS_SET_BANDWIDTH(v)); if (E.et) opus_encoder_ctl(E.et, OPUS_SET_BANDWIDTH(v)); break;
      case 's': E.fam = v; break;
      case 'e': for (i = 0; i < v; i++) { enc_frame(&E); if (E.plen > 0) dec_call(&E, 0, E.q); } break;
      case 'l': for (i = 0; i < v; i++) { enc_frame(&E); dec_call(&E, 1, E.q); } break;
      case 'L': dec_call(&E, 1, v); break;
      case 'f': enc_frame(&E); if (E.plen > 0) dec_call(&E, 2, E.q + v); break;
      case 'r': do_reset(&E, 0); break;
      case 'R': do_reset(&E, 1); break;
      case 'B': do_reset(&E, 2); break;
      default: break;
      }
   }
   js_open("end"); js_int("x", E.x); js_close();
   free(E.in); free(E.out); free(E.out2);
   opus_encoder_destroy(E.e); opus_decoder_destroy(E.d); if (E.dt) opus_decoder_destroy(E.dt); if (E.et) opus_encoder_destroy(E.et);
   return 0;
}

int main(int argc, char **argv)
{
   static char line[1 << 16];
   (void)argc; (void)argv;
   hx_watchdog_init();
   while (fgets(line, sizeof line, stdin)) {
      if (line[0] != 'X') continue;
      if (run_line(line) < 0) { js_open("bad"); js_close(); return 2; }
   }
   return 0;
}
