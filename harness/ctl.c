/* hx_ctl: control-request / encode histories on encoder, decoder, multistream and projection
   objects (module EncCtl, property C11).

   The harness only executes and records.  After EVERY call it reads ALL getters of the object
   (and of every stream of a multistream object, through the per-stream state getter) and logs
   the return code and the complete record as one NDJSON event; spec/EncCtlTrace.tla judges.

     hx_ctl replay                    < script   > trace.ndjson
     hx_ctl gen-random seed nexec steps           > script      seeded random histories
     hx_ctl gen-create                            > script      creation / init / allocation-failure grid
     hx_ctl gen-durgrid seed                      > script      frame-duration grid x entry points x buffer lengths
     hx_ctl gen-reset seed [stride]               > script      settings in force before the first frame, across resets

   Script (one operation per line; an execution starts with N and ends at the next N / EOF):
     N enc <via 0=create 1=init> <Fs> <ch> <app> <failk>
     N dec <via> <Fs> <ch> <failk>
     N mse <Fs> <nch> <streams> <coupled> <app> <fam> <failk>   fam -1: explicit layout, else surround create
     N msd <Fs> <nch> <streams> <coupled> <failk>
     N pje <Fs> <nch> <fam> <app> <failk>
     N pjd <Fs> <nch> <streams> <coupled> <failk>
     S <req> <v>        setter          Q <req>   getter with a null pointer     U <req>  unknown request
     R                  reset           G <id> <null>   per-stream state getter (multistream)
     E <frame_size> <max_bytes> <sig> [<ep>]   encode frame_size samples per channel (the caller's buffer length; sig 0 silence,
                        1 loud non-stationary voice-like, 2 faint noise, 3 loud wide stereo music-like) through entry point
                        ep: 0 opus_encode (16 bit, default), 1 opus_encode24, 2 opus_encode_float (and the multistream /
                        projection counterparts)
     D <mode>           decode (0 a valid packet, 1 concealment, 2 random bytes)
   failk > 0: the failk-th malloc during the creating call returns NULL (linked with -Wl,--wrap=malloc). */
#include "hx_common.h"
#include <math.h>
#include "opus.h"
#include "opus_multistream.h"
#include "opus_projection.h"
#include "opus_private.h"

extern int opus_verif_encoder_peek(const OpusEncoder *st, int field);

/* ---- malloc fault injection ---- */
static long g_calls, g_fail_at, g_failed;
void *__real_malloc(size_t n);
void *__wrap_malloc(size_t n)
{
   if (g_fail_at > 0) {
      g_calls++;
      if (g_calls == g_fail_at) { g_failed++; return NULL; }
   }
   return __real_malloc(n);
}
static void fault_arm(long k) { g_calls = 0; g_failed = 0; g_fail_at = k; }
static long fault_disarm(void) { long f = g_failed; g_fail_at = 0; return f; }

/* ---- getter records ---- */
static void log_enc_obj(OpusEncoder *e)
{
   opus_int32 v; opus_uint32 fr = 0; int nok = 0;
   printf("{");
#define GI(name, REQ) do { v = -77777; if (opus_encoder_ctl(e, REQ(&v)) != OPUS_OK) nok++; printf("\"" name "\":%d,", (int)v); } while (0)
   GI("app", OPUS_GET_APPLICATION); GI("sr", OPUS_GET_SAMPLE_RATE); GI("br", OPUS_GET_BITRATE);
   GI("vbr", OPUS_GET_VBR); GI("cvbr", OPUS_GET_VBR_CONSTRAINT); GI("cx", OPUS_GET_COMPLEXITY);
   GI("fc", OPUS_GET_FORCE_CHANNELS); GI("maxbw", OPUS_GET_MAX_BANDWIDTH); GI("bw", OPUS_GET_BANDWIDTH);
   GI("sig", OPUS_GET_SIGNAL); GI("fec", OPUS_GET_INBAND_FEC); GI("loss", OPUS_GET_PACKET_LOSS_PERC);
   GI("dtx", OPUS_GET_DTX); GI("lsb", OPUS_GET_LSB_DEPTH); GI("dur", OPUS_GET_EXPERT_FRAME_DURATION);
   GI("pred", OPUS_GET_PREDICTION_DISABLED); GI("pinv", OPUS_GET_PHASE_INVERSION_DISABLED);
   GI("vr", OPUS_GET_VOICE_RATIO); GI("la", OPUS_GET_LOOKAHEAD); GI("indtx", OPUS_GET_IN_DTX);
#undef GI
   if (opus_encoder_ctl(e, OPUS_GET_FINAL_RANGE(&fr)) != OPUS_OK) nok++;
   printf("\"frh\":%u,\"frl\":%u,", (unsigned)(fr >> 16), (unsigned)(fr & 0xFFFF));
   printf("\"first\":%d,\"pfs\":%d,\"fm\":%d,\"nok\":%d}", opus_verif_encoder_peek(e, 5), opus_verif_encoder_peek(e, 10),
          opus_verif_encoder_peek(e, 21), nok);
}

static void log_dec_obj(OpusDecoder *d)
{
   opus_int32 v; opus_uint32 fr = 0; int nok = 0, rc;
   printf("{");
#define GI(name, REQ) do { v = -77777; if (opus_decoder_ctl(d, REQ(&v)) != OPUS_OK) nok++; printf("\"" name "\":%d,", (int)v); } while (0)
   GI("sr", OPUS_GET_SAMPLE_RATE); GI("gain", OPUS_GET_GAIN); GI("pinv", OPUS_GET_PHASE_INVERSION_DISABLED);
   GI("bw", OPUS_GET_BANDWIDTH); GI("lpd", OPUS_GET_LAST_PACKET_DURATION); GI("pitch", OPUS_GET_PITCH);
#undef GI
   v = -77777; rc = opus_decoder_ctl(d, OPUS_GET_COMPLEXITY(&v)); if (rc != OPUS_OK) nok++;
   printf("\"cx\":%d,\"cxrc\":%d,", (int)v, rc);
   if (opus_decoder_ctl(d, OPUS_GET_FINAL_RANGE(&fr)) != OPUS_OK) nok++;
   printf("\"frh\":%u,\"frl\":%u,\"nok\":%d}", (unsigned)(fr >> 16), (unsigned)(fr & 0xFFFF), nok);
}

/* ---- the object under test ---- */
enum { K_NONE, K_ENC, K_DEC, K_MSE, K_MSD, K_PJE, K_PJD };
static struct {
   int kind, Fs, ch, nch, streams, coupled, fam;
   OpusEncoder *enc; int enc_is_init;
   OpusDecoder *dec; int dec_is_init;
   OpusMSEncoder *mse; OpusMSDecoder *msd;
   OpusProjectionEncoder *pje; OpusProjectionDecoder *pjd;
   /* signal generator */
   hx_rng sr; double ph[8], f0, t; long nframes;
   /* helper encoder for valid packets (decoder objects) */
   OpusEncoder *helper;
} o;
static int g_x = -1;     /* execution index */
static long g_ln = 0;    /* script line */

static void destroy_all(void)
{
   if (o.enc) { if (o.enc_is_init) free(o.enc); else opus_encoder_destroy(o.enc); }
   if (o.dec) { if (o.dec_is_init) free(o.dec); else opus_decoder_destroy(o.dec); }
   if (o.mse) opus_multistream_encoder_destroy(o.mse);
   if (o.msd) opus_multistream_decoder_destroy(o.msd);
   if (o.pje) opus_projection_encoder_destroy(o.pje);
   if (o.pjd) opus_projection_decoder_destroy(o.pjd);
   if (o.helper) opus_encoder_destroy(o.helper);
   memset(&o, 0, sizeof o);
}

static int ms_enc_ctl_i(int req, opus_int32 v)
{
   return o.kind == K_MSE ? opus_multistream_encoder_ctl(o.mse, req, v) : opus_projection_encoder_ctl(o.pje, req, v);
}
static int ms_enc_ctl_p(int req, void *p)
{
   return o.kind == K_MSE ? opus_multistream_encoder_ctl(o.mse, req, p) : opus_projection_encoder_ctl(o.pje, req, p);
}
static int ms_dec_ctl_i(int req, opus_int32 v)
{
   return o.kind == K_MSD ? opus_multistream_decoder_ctl(o.msd, req, v) : opus_projection_decoder_ctl(o.pjd, req, v);
}
static int ms_dec_ctl_p(int req, void *p)
{
   return o.kind == K_MSD ? opus_multistream_decoder_ctl(o.msd, req, p) : opus_projection_decoder_ctl(o.pjd, req, p);
}
static int ms_enc_state(int id, OpusEncoder **e)
{
   return o.kind == K_MSE ? opus_multistream_encoder_ctl(o.mse, OPUS_MULTISTREAM_GET_ENCODER_STATE_REQUEST, id, e)
                          : opus_projection_encoder_ctl(o.pje, OPUS_MULTISTREAM_GET_ENCODER_STATE_REQUEST, id, e);
}
static int ms_dec_state(int id, OpusDecoder **d)
{
   return o.kind == K_MSD ? opus_multistream_decoder_ctl(o.msd, OPUS_MULTISTREAM_GET_DECODER_STATE_REQUEST, id, d)
                          : opus_projection_decoder_ctl(o.pjd, OPUS_MULTISTREAM_GET_DECODER_STATE_REQUEST, id, d);
}

/* the object's own getters: [value, return code] each */
static void log_ms_enc_m(void)
{
   static const struct { const char *n; int req; } t[] = {
      {"app", OPUS_GET_APPLICATION_REQUEST}, {"sr", OPUS_GET_SAMPLE_RATE_REQUEST}, {"br", OPUS_GET_BITRATE_REQUEST},
      {"vbr", OPUS_GET_VBR_REQUEST}, {"cvbr", OPUS_GET_VBR_CONSTRAINT_REQUEST}, {"cx", OPUS_GET_COMPLEXITY_REQUEST},
      {"fc", OPUS_GET_FORCE_CHANNELS_REQUEST}, {"maxbw", OPUS_GET_MAX_BANDWIDTH_REQUEST}, {"sig", OPUS_GET_SIGNAL_REQUEST},
      {"fec", OPUS_GET_INBAND_FEC_REQUEST}, {"loss", OPUS_GET_PACKET_LOSS_PERC_REQUEST}, {"dtx", OPUS_GET_DTX_REQUEST},
      {"lsb", OPUS_GET_LSB_DEPTH_REQUEST}, {"dur", OPUS_GET_EXPERT_FRAME_DURATION_REQUEST},
      {"pred", OPUS_GET_PREDICTION_DISABLED_REQUEST}, {"pinv", OPUS_GET_PHASE_INVERSION_DISABLED_REQUEST} };
   unsigned i;
   printf(",\"m\":{");
   for (i = 0; i < sizeof t / sizeof t[0]; i++) {
      opus_int32 v = -77777; int rc = ms_enc_ctl_p(t[i].req, &v);
      printf("%s\"%s\":[%d,%d]", i ? "," : "", t[i].n, (int)v, rc);
   }
   printf("}");
}
static void log_ms_enc_ss(void)
{
   int s;
   printf(",\"ss\":[");
   for (s = 0; s < o.streams; s++) {
      OpusEncoder *e = NULL;
      if (ms_enc_state(s, &e) != OPUS_OK || !e) break;
      if (s) printf(",");
      log_enc_obj(e);
   }
   printf("]");
}
static void log_ms_dec_m(void)
{
   static const struct { const char *n; int req; } t[] = {
      {"sr", OPUS_GET_SAMPLE_RATE_REQUEST}, {"gain", OPUS_GET_GAIN_REQUEST}, {"pinv", OPUS_GET_PHASE_INVERSION_DISABLED_REQUEST},
      {"bw", OPUS_GET_BANDWIDTH_REQUEST}, {"lpd", OPUS_GET_LAST_PACKET_DURATION_REQUEST} };
   unsigned i;
   printf(",\"m\":{");
   for (i = 0; i < sizeof t / sizeof t[0]; i++) {
      opus_int32 v = -77777; int rc = ms_dec_ctl_p(t[i].req, &v);
      printf("%s\"%s\":[%d,%d]", i ? "," : "", t[i].n, (int)v, rc);
   }
   printf("}");
}
static void log_ms_dec_ss(void)
{
   int s;
   printf(",\"ss\":[");
   for (s = 0; s < o.streams; s++) {
      OpusDecoder *d = NULL;
      if (ms_dec_state(s, &d) != OPUS_OK || !d) break;
      if (s) printf(",");
      log_dec_obj(d);
   }
   printf("]");
}

static void log_state(void)
{
   switch (o.kind) {
   case K_ENC: printf(",\"g\":"); log_enc_obj(o.enc); break;
   case K_DEC: printf(",\"g\":"); log_dec_obj(o.dec); break;
   case K_MSE: case K_PJE: log_ms_enc_m(); log_ms_enc_ss(); break;
   case K_MSD: case K_PJD: log_ms_dec_m(); log_ms_dec_ss(); break;
   default: break;
   }
}
static void ev_open(const char *k) { js_open(k); js_int("x", g_x); js_int("ln", g_ln); }
static void ev_close(void) { log_state(); js_close(); }

/* ---- signals: continuous over the calls of one execution ---- */
static void sig_reset(uint64_t seed)
{
   int i; o.sr.s = seed * 0x9E3779B97F4A7C15ULL + 12345; o.f0 = 140; o.t = 0; o.nframes = 0;
   for (i = 0; i < 8; i++) o.ph[i] = hx_unit(&o.sr) * 6.2831853;
}
static void sig_fill(opus_int16 *pcm, int n, int ch, int Fs, int sig)
{
   int i, c, h;
   if (Fs <= 0) Fs = 48000;
   for (i = 0; i < n; i++) {
      double l = 0, r = 0;
      if (sig == 1) {
         /* voice-like: wandering pitch, syllabic amplitude modulation with gaps, noise bursts */
         double env = 0.5 + 0.5 * sin(6.2831853 * 3.7 * o.t); double burst = (fmod(o.t, 0.41) < 0.05) ? 0.5 : 0.0;
         env = env * env; if (fmod(o.t, 1.3) > 1.05) env *= 0.05;
         o.f0 += (hx_unit(&o.sr) - 0.5) * 0.4; if (o.f0 < 90) o.f0 = 90; if (o.f0 > 320) o.f0 = 320;
         o.ph[0] += 6.2831853 * o.f0 / Fs;
         for (h = 1; h <= 8; h++) { double a = 0.25 / h; l += a * sin(h * o.ph[0]); r += a * sin(h * o.ph[0] + 0.3 * h); }
         l = env * l + burst * (hx_unit(&o.sr) - 0.5); r = 0.8 * env * r + burst * (hx_unit(&o.sr) - 0.5);
         l *= 0.7; r *= 0.7;
      } else if (sig == 2) {
         l = (hx_unit(&o.sr) - 0.5) * 0.002; r = (hx_unit(&o.sr) - 0.5) * 0.002;
      } else if (sig == 3) {
         /* music-like: inharmonic partials up to 0.45 Fs, different in the two channels, beating, plus noise */
         static const double fr[6] = {0.011, 0.047, 0.113, 0.207, 0.331, 0.449};
         double env = 0.6 + 0.4 * sin(6.2831853 * 1.9 * o.t);
         for (h = 0; h < 6; h++) {
            o.ph[h] += 6.2831853 * fr[h] * (1.0 + 0.002 * sin(0.7 * o.t + h));
            l += 0.12 * sin(o.ph[h]); r += 0.12 * sin(1.07 * o.ph[h] + h);
         }
         l = env * l + 0.05 * (hx_unit(&o.sr) - 0.5); r = env * r + 0.05 * (hx_unit(&o.sr) - 0.5);
      }
      o.t += 1.0 / Fs;
      for (c = 0; c < ch; c++) {
         double v = (c & 1) ? r : l; long q;
         if (c >= 2) v *= 0.5 + 0.1 * c;
         q = lrint(v * 32767.0); if (q > 32767) q = 32767; if (q < -32768) q = -32768;
         pcm[i * ch + c] = (opus_int16)q;
      }
   }
}

/* ---- operations ---- */
static void op_new(char *args)
{
   char kind[8] = ""; int a[8] = {0}, n, rc = 0, err = -9999, isnull = 1; long failed;
   destroy_all();
   g_x++;
   n = sscanf(args, "%7s %d %d %d %d %d %d %d", kind, &a[0], &a[1], &a[2], &a[3], &a[4], &a[5], &a[6]);
   (void)n;
   sig_reset((uint64_t)g_x * 7919u + (uint64_t)a[1] * 31u + (uint64_t)a[0]);
   ev_open("create"); js_str("o", kind);
   if (!strcmp(kind, "enc")) {
      int via = a[0], Fs = a[1], ch = a[2], app = a[3], failk = a[4];
      js_int("via", via); js_int("Fs", Fs); js_int("ch", ch); js_int("app", app); js_int("failk", failk);
      if (via == 0) {
         fault_arm(failk); o.enc = opus_encoder_create(Fs, ch, app, &err); failed = fault_disarm();
         rc = err; isnull = o.enc == NULL;
      } else {
         int sz = opus_encoder_get_size(ch == 1 || ch == 2 ? ch : 2);
         OpusEncoder *e = (OpusEncoder *)malloc(sz);
         memset(e, 0x5C, sz);
         fault_arm(failk); rc = opus_encoder_init(e, Fs, ch, app); failed = fault_disarm();
         if (rc == OPUS_OK) { o.enc = e; o.enc_is_init = 1; isnull = 0; } else { free(e); isnull = 1; }
      }
      if (!isnull) { o.kind = K_ENC; o.Fs = Fs; o.ch = ch; }
   } else if (!strcmp(kind, "dec")) {
      int via = a[0], Fs = a[1], ch = a[2], failk = a[3];
      js_int("via", via); js_int("Fs", Fs); js_int("ch", ch); js_int("failk", failk);
      if (via == 0) {
         fault_arm(failk); o.dec = opus_decoder_create(Fs, ch, &err); failed = fault_disarm();
         rc = err; isnull = o.dec == NULL;
      } else {
         int sz = opus_decoder_get_size(ch == 1 || ch == 2 ? ch : 2);
         OpusDecoder *d = (OpusDecoder *)malloc(sz);
         memset(d, 0x5C, sz);
         fault_arm(failk); rc = opus_decoder_init(d, Fs, ch); failed = fault_disarm();
         if (rc == OPUS_OK) { o.dec = d; o.dec_is_init = 1; isnull = 0; } else { free(d); isnull = 1; }
      }
      if (!isnull) {
         o.kind = K_DEC; o.Fs = Fs; o.ch = ch;
         o.helper = opus_encoder_create(Fs, ch, OPUS_APPLICATION_AUDIO, &err);
      }
   } else if (!strcmp(kind, "mse")) {
      int Fs = a[0], nch = a[1], streams = a[2], coupled = a[3], app = a[4], fam = a[5], failk = a[6], i;
      unsigned char map[256];
      js_int("Fs", Fs); js_int("nch", nch); js_int("app", app); js_int("fam", fam); js_int("failk", failk);
      if (fam < 0) {
         for (i = 0; i < 256; i++) map[i] = (unsigned char)(i < streams + coupled ? i : 255);
         fault_arm(failk); o.mse = opus_multistream_encoder_create(Fs, nch, streams, coupled, map, app, &err); failed = fault_disarm();
      } else {
         streams = coupled = -1;
         fault_arm(failk); o.mse = opus_multistream_surround_encoder_create(Fs, nch, fam, &streams, &coupled, map, app, &err); failed = fault_disarm();
      }
      rc = err; isnull = o.mse == NULL;
      js_int("streams", streams); js_int("coupled", coupled);
      if (!isnull) { o.kind = K_MSE; o.Fs = Fs; o.nch = nch; o.streams = streams; o.coupled = coupled; o.fam = fam; }
   } else if (!strcmp(kind, "msd")) {
      int Fs = a[0], nch = a[1], streams = a[2], coupled = a[3], failk = a[4], i;
      unsigned char map[256];
      js_int("Fs", Fs); js_int("nch", nch); js_int("streams", streams); js_int("coupled", coupled); js_int("fam", -1); js_int("failk", failk);
      for (i = 0; i < 256; i++) map[i] = (unsigned char)(streams + coupled > 0 ? i % (streams + coupled) : 0);
      fault_arm(failk); o.msd = opus_multistream_decoder_create(Fs, nch, streams, coupled, map, &err); failed = fault_disarm();
      rc = err; isnull = o.msd == NULL;
      if (!isnull) { o.kind = K_MSD; o.Fs = Fs; o.nch = nch; o.streams = streams; o.coupled = coupled; o.fam = -1; }
   } else if (!strcmp(kind, "pje")) {
      int Fs = a[0], nch = a[1], fam = a[2], app = a[3], failk = a[4], streams = -1, coupled = -1;
      js_int("Fs", Fs); js_int("nch", nch); js_int("app", app); js_int("fam", fam); js_int("failk", failk);
      fault_arm(failk); o.pje = opus_projection_ambisonics_encoder_create(Fs, nch, fam, &streams, &coupled, app, &err); failed = fault_disarm();
      rc = err; isnull = o.pje == NULL;
      js_int("streams", streams); js_int("coupled", coupled);
      if (!isnull) { o.kind = K_PJE; o.Fs = Fs; o.nch = nch; o.streams = streams; o.coupled = coupled; o.fam = fam; }
   } else if (!strcmp(kind, "pjd")) {
      int Fs = a[0], nch = a[1], streams = a[2], coupled = a[3], failk = a[4];
      /* the matrix size always matches the layout, also for impossible layouts (no channel, no or a
         negative number of input streams): those must be refused like any other bad argument */
      long msz = (long)nch * (streams + coupled) * 2; unsigned char *dm;
      js_int("Fs", Fs); js_int("nch", nch); js_int("streams", streams); js_int("coupled", coupled); js_int("fam", 3); js_int("failk", failk);
      js_int("dmOK", 1);
      dm = (unsigned char *)calloc(msz > 0 ? msz : 1, 1);
      fault_arm(failk); o.pjd = opus_projection_decoder_create(Fs, nch, streams, coupled, dm, (opus_int32)msz, &err); failed = fault_disarm();
      free(dm);
      rc = err; isnull = o.pjd == NULL;
      if (!isnull) { o.kind = K_PJD; o.Fs = Fs; o.nch = nch; o.streams = streams; o.coupled = coupled; o.fam = 3; }
   } else {
      failed = 0; rc = -9999;
   }
   js_int("failed", failed); js_int("r", rc); js_int("null", isnull);
   ev_close();
}

/* setter / unknown request with an int argument; getter with a null pointer */
static int ctl_i(int req, opus_int32 v)
{
   switch (o.kind) {
   case K_ENC: return opus_encoder_ctl(o.enc, req, v);
   case K_DEC: return opus_decoder_ctl(o.dec, req, v);
   case K_MSE: case K_PJE: return ms_enc_ctl_i(req, v);
   case K_MSD: case K_PJD: return ms_dec_ctl_i(req, v);
   }
   return -9999;
}
static int ctl_p(int req, void *p)
{
   switch (o.kind) {
   case K_ENC: return opus_encoder_ctl(o.enc, req, p);
   case K_DEC: return opus_decoder_ctl(o.dec, req, p);
   case K_MSE: case K_PJE: return ms_enc_ctl_p(req, p);
   case K_MSD: case K_PJD: return ms_dec_ctl_p(req, p);
   }
   return -9999;
}

/* ep: the PCM entry point - 0 opus_*_encode (16 bit), 1 opus_*_encode24, 2 opus_*_encode_float.  fs is the number of
   samples per channel the caller hands in (the buffer length); the requested duration (rd) is read from the object
   before the call and the duration of the packet (ns, opus_packet_get_nb_samples) after it. */
static void op_encode(int fs, int mb, int sig, int ep)
{
   int ch = (o.kind == K_ENC) ? o.ch : o.nch, ret, keep, cok, ns = 0, i;
   int nsmp = fs > 0 && fs <= 48000 ? fs : 1;
   opus_int16 *pcm = (opus_int16 *)malloc(sizeof(opus_int16) * nsmp * ch);
   opus_int32 *pcm24 = NULL; float *pcmf = NULL; opus_int32 rd = -77777;
   hx_buf out = hx_buf_new(mb > 0 ? mb : 1, 0xEE);
   sig_fill(pcm, nsmp, ch, o.Fs, sig);
   if (ep == 1) {
      pcm24 = (opus_int32 *)malloc(sizeof(opus_int32) * nsmp * ch);
      for (i = 0; i < nsmp * ch; i++) pcm24[i] = (opus_int32)pcm[i] * 256;
   } else if (ep == 2) {
      pcmf = (float *)malloc(sizeof(float) * nsmp * ch);
      for (i = 0; i < nsmp * ch; i++) pcmf[i] = (float)pcm[i] * (1.0f / 32768.0f);
   }
   if (o.kind == K_ENC) opus_encoder_ctl(o.enc, OPUS_GET_EXPERT_FRAME_DURATION(&rd));
   else ms_enc_ctl_p(OPUS_GET_EXPERT_FRAME_DURATION_REQUEST, &rd);
   hx_arm(60);
   if (o.kind == K_ENC)
      ret = ep == 1 ? opus_encode24(o.enc, pcm24, fs, out.p, mb) : ep == 2 ? opus_encode_float(o.enc, pcmf, fs, out.p, mb)
                    : opus_encode(o.enc, pcm, fs, out.p, mb);
   else if (o.kind == K_MSE)
      ret = ep == 1 ? opus_multistream_encode24(o.mse, pcm24, fs, out.p, mb) : ep == 2 ? opus_multistream_encode_float(o.mse, pcmf, fs, out.p, mb)
                    : opus_multistream_encode(o.mse, pcm, fs, out.p, mb);
   else
      ret = ep == 1 ? opus_projection_encode24(o.pje, pcm24, fs, out.p, mb) : ep == 2 ? opus_projection_encode_float(o.pje, pcmf, fs, out.p, mb)
                    : opus_projection_encode(o.pje, pcm, fs, out.p, mb);
   hx_disarm();
   cok = hx_buf_ok(&out);
   if (ret > 0) ns = opus_packet_get_nb_samples(out.p, ret, o.Fs);    /* (of the first stream's packet for a multistream object) */
   ev_open("enc"); js_int("fs", fs); js_int("mb", mb); js_int("sig", sig); js_int("r", ret); js_int("cok", cok);
   keep = ret > 0 ? (ret < 40 ? ret : 40) : 0;
   js_arr_b("h", out.p, keep);
   js_int("ep", ep); js_int("rd", rd); js_int("ns", ns);
   ev_close();
   hx_buf_free(&out); free(pcm); free(pcm24); free(pcmf);
   if (!cok) { fflush(stdout); fprintf(stderr, "canary damaged by encode\n"); _exit(96); }
}

static void op_decode(int mode)
{
   int fsz = o.Fs / 50, ret, ch = (o.kind == K_DEC) ? o.ch : o.nch, len = 0;
   unsigned char pkt[1500];
   opus_int16 *pcm = (opus_int16 *)malloc(sizeof(opus_int16) * (5760 + 8) * (ch > 0 ? ch : 1));
   if (mode == 0 && o.kind == K_DEC && o.helper) {
      opus_int16 *in = (opus_int16 *)malloc(sizeof(opus_int16) * fsz * o.ch);
      sig_fill(in, fsz, o.ch, o.Fs, 1);
      len = opus_encode(o.helper, in, fsz, pkt, sizeof pkt);
      free(in);
      if (len < 0) len = 0;
   } else if (mode == 2) {
      int i; len = hx_range(&o.sr, 1, 60);
      for (i = 0; i < len; i++) pkt[i] = (unsigned char)hx_u(&o.sr, 256);
   }
   {
      unsigned char *d = len > 0 ? hx_exact(pkt, len) : NULL;
      hx_arm(60);
      if (o.kind == K_DEC) ret = opus_decode(o.dec, d, len, pcm, len > 0 ? 5760 : fsz, 0);
      else if (o.kind == K_MSD) ret = opus_multistream_decode(o.msd, d, len, pcm, len > 0 ? 5760 : fsz, 0);
      else ret = opus_projection_decode(o.pjd, d, len, pcm, len > 0 ? 5760 : fsz, 0);
      hx_disarm();
      free(d);
   }
   ev_open("dec"); js_int("mode", mode); js_int("n", len); js_int("r", ret);
   ev_close();
   free(pcm);
}

static void replay(FILE *f)
{
   char line[512];
   while (fgets(line, sizeof line, f)) {
      char op = line[0]; int a = 0, b = 0, c = 0, d = 0;
      g_ln++;
      if (op == '#' || op == '\n' || op == 0) continue;
      if (op == 'N') { op_new(line + 1); fflush(stdout); continue; }
      if (o.kind == K_NONE) continue;      /* nothing to drive: creation failed */
      sscanf(line + 1, "%d %d %d %d", &a, &b, &c, &d);
      switch (op) {
      case 'S': { int r = ctl_i(a, b); ev_open("set"); js_int("req", a); js_int("v", b); js_int("r", r); ev_close(); } break;
      case 'Q': { int r = ctl_p(a, NULL); ev_open("getnull"); js_int("req", a); js_int("r", r); ev_close(); } break;
      case 'U': { int r = ctl_p(a, NULL); ev_open("unk"); js_int("req", a); js_int("r", r); ev_close(); } break;
      case 'R': { int r;
                  switch (o.kind) {
                  case K_ENC: r = opus_encoder_ctl(o.enc, OPUS_RESET_STATE); break;
                  case K_DEC: r = opus_decoder_ctl(o.dec, OPUS_RESET_STATE); break;
                  case K_MSE: r = opus_multistream_encoder_ctl(o.mse, OPUS_RESET_STATE); break;
                  case K_PJE: r = opus_projection_encoder_ctl(o.pje, OPUS_RESET_STATE); break;
                  case K_MSD: r = opus_multistream_decoder_ctl(o.msd, OPUS_RESET_STATE); break;
                  default: r = opus_projection_decoder_ctl(o.pjd, OPUS_RESET_STATE); break;
                  }
                  ev_open("reset"); js_int("r", r); ev_close(); } break;
      case 'G': { int r = -9999; void *p = NULL;
                  if (o.kind == K_MSE || o.kind == K_PJE) r = b ? ms_enc_state(a, NULL) : ms_enc_state(a, (OpusEncoder **)&p);
                  else if (o.kind == K_MSD || o.kind == K_PJD) r = b ? ms_dec_state(a, NULL) : ms_dec_state(a, (OpusDecoder **)&p);
                  else break;
                  ev_open("sget"); js_int("id", a); js_int("null", b); js_int("r", r); ev_close(); } break;
      case 'E': if (o.kind == K_ENC || o.kind == K_MSE || o.kind == K_PJE) op_encode(a, b, c, d >= 0 && d <= 2 ? d : 0); break;
      case 'D': if (o.kind == K_DEC || o.kind == K_MSD || o.kind == K_PJD) op_decode(a); break;
      default: break;
      }
   }
   destroy_all();
}

/* ================= script generators ================= */
static const int FS[5] = {8000, 12000, 16000, 24000, 48000};
static const int APPS[3] = {2048, 2049, 2051};

typedef struct { int req, lo, hi; } setreq;
static const setreq ENCSET[] = {
   {4000, 2048, 2051}, {4002, 500, 0 /* 300000*ch */}, {4004, 1101, 1105}, {4006, 0, 1}, {4008, 1101, 1105}, {4010, 0, 10},
   {4012, 0, 2}, {4014, 0, 100}, {4016, 0, 1}, {4020, 0, 1}, {4022, 1, 0 /* ch */}, {4024, 3001, 3002}, {4036, 8, 24},
   {4040, 5000, 5009}, {4042, 0, 1}, {4046, 0, 1}, {11002, 1000, 1002}, {11018, -1, 100} };
#define NENCSET ((int)(sizeof ENCSET / sizeof ENCSET[0]))
static const int ENCGET[] = {4001, 4003, 4005, 4007, 4009, 4011, 4013, 4015, 4017, 4021, 4023, 4025, 4027, 4029, 4031, 4037, 4041, 4043, 4047, 4049, 11019};
static const int ENCUNK[] = {-1, 0, 1, 3999, 4018, 4019, 4026, 4030, 4032, 4033, 4034, 4035, 4038, 4039, 4044, 4045, 4048, 4053, 4999, 5120, 5122, 6001, 12345, 2147483647};
static const int DECSET[][3] = {{4034, -32768, 32767}, {4010, 0, 10}, {4046, 0, 1}};
static const int DECGET[] = {4045, 4011, 4047, 4009, 4029, 4031, 4033, 4039};
static const int DECUNK[] = {-1, 0, 1, 3999, 4000, 4001, 4002, 4003, 4006, 4008, 4022, 4027, 4035, 4036, 4049, 4053, 4999, 5120, 5122, 12345, 2147483647};

static int grid_value(hx_rng *r, int lo, int hi)
{
   switch (hx_u(r, 16)) {
   case 0: return lo - 1; case 1: return lo; case 2: return lo + 1; case 3: return (lo + hi) / 2;
   case 4: return hi - 1; case 5: return hi; case 6: return hi + 1; case 7: return -1000; case 8: return -1;
   case 9: return 0; case 10: return 2147483647; case 11: return -2147483647;
   default: return hx_range(r, lo, hi);       /* mostly legal */
   }
}
static void gen_set(hx_rng *r, int ch)
{
   const setreq *s = &ENCSET[hx_u(r, NENCSET)];
   int lo = s->lo, hi = s->hi;
   if (s->req == 4002) hi = 300000 * ch;
   if (s->req == 4022) hi = ch;
   printf("S %d %d\n", s->req, grid_value(r, lo, hi));
}
static int pick_bitrate(hx_rng *r)
{
   static const int br[] = {6000, 8000, 9000, 12000, 16000, 20000, 24000, 32000, 40000, 48000, 64000, 96000, 128000, 256000, -1000, -1, 510000, 2400, 700};
   return br[hx_u(r, sizeof br / sizeof br[0])];
}
static int pick_frame(hx_rng *r, int Fs, int longish)
{
   static const int num[9] = {1, 2, 4, 8, 16, 24, 32, 40, 48};   /* x 2.5 ms */
   int k = longish ? hx_range(r, 3, 8) : hx_u(r, 9);
   return Fs / 400 * num[k];
}
static void gen_encode(hx_rng *r, int Fs, int longish, int sig)
{
   int mb;
   switch (hx_u(r, 12)) { case 0: mb = 1; break; case 1: mb = 2; break; case 2: mb = 3; break; case 3: mb = hx_range(r, 4, 40); break;
                          case 4: mb = hx_range(r, 41, 300); break; default: mb = hx_u(r, 3) ? 1276 : 4000; }
   if (sig < 0) { sig = hx_u(r, 10); sig = sig < 5 ? 1 : sig < 8 ? 3 : sig < 9 ? 0 : 2; }
   printf("E %d %d %d %d\n", pick_frame(r, Fs, longish), mb, sig, (int)hx_u(r, 3));
}


/* settings put in force before the first frame (forced channels, forced / maximum bandwidth, frame duration, rate, hints),
   then packets through all three entry points with OPUS_RESET_STATE in between: the settings survive the reset and bind the
   very first packet after it like the first packet of a fresh encoder */
static void gen_honoured_body(hx_rng *r, int Fs, int ch, int app, int steps)
{
   int i, sig = hx_u(r, 3) ? 1 : 3, since = 0;
   int fsz = Fs / 400 * (int[]){4, 8, 8, 8, 16, 24, 2}[hx_u(r, 7)];
   (void)app;
   printf("S 4002 %d\n", (int[]){8000, 12000, 16000, 24000, 32000, 48000, 64000, 96000}[hx_u(r, 8)]);
   if (hx_u(r, 4)) printf("S 4022 %d\n", (int)hx_range(r, 1, ch));
   if (hx_u(r, 3) == 0) printf("S 4008 %d\n", (int)hx_range(r, 1101, 1105));
   if (hx_u(r, 3) == 0) printf("S 4004 %d\n", (int)hx_range(r, 1101, 1105));
   if (hx_u(r, 2)) printf("S 4024 %d\n", (int[]){3001, 3001, 3002}[hx_u(r, 3)]);
   if (hx_u(r, 3) == 0) printf("S 4040 %d\n", (int)hx_range(r, 5001, 5007));
   if (hx_u(r, 2)) printf("S 4010 %d\n", (int)hx_range(r, 0, 6));
   for (i = 0; i < steps; i++) {
      if (since >= 2 && hx_u(r, 3) == 0) { printf("R\n"); since = 0; }
      printf("E %d 1276 %d %d\n", fsz + (hx_u(r, 4) ? 0 : Fs / 400 * (int)hx_u(r, 5)), sig, (int)hx_u(r, 3));
      since++;
   }
}

/* gen-reset: the grid (Fs, application, forced channel count, frame size, bitrate, signal hint) on stereo encoders, the forced
   channel count (and sometimes a bandwidth limit) in force before the first frame; three packets, a reset, three packets, a
   reset, two packets; then a second execution at the same grid point that changes the forced channel count mid-stream */
static void gen_reset(uint64_t seed, int stride)
{
   static const int ms4[4] = {4, 8, 16, 24};
   static const int br[3] = {12000, 24000, 48000};
   hx_rng r; int f, a, fc, k, b, h, i; long pt = 0;
   r.s = seed * 2654435761u + 99;
   if (stride < 1) stride = 1;
   for (f = 0; f < 5; f++) for (a = 0; a < 3; a++) for (fc = 1; fc <= 2; fc++) for (k = 0; k < 4; k++) for (b = 0; b < 3; b++) for (h = 0; h < 2; h++) {
      int Fs = FS[f], fsz = Fs / 400 * ms4[k], sig = hx_u(&r, 4) ? 1 : 3, ep = hx_u(&r, 3);
      if ((pt++ + (long)seed) % stride) continue;        /* a slice of the grid (quick tier) */
      printf("N enc %d %d 2 %d 0\n", (int)hx_u(&r, 4) == 0, Fs, APPS[a]);
      printf("S 4002 %d\nS 4022 %d\n", br[b] + (int)hx_u(&r, 4000), fc);
      if (h) printf("S 4024 3001\n");
      if (hx_u(&r, 4) == 0) printf("S 4004 %d\n", (int)hx_range(&r, 1101, 1105));
      if (hx_u(&r, 6) == 0) printf("S 4008 %d\n", (int)hx_range(&r, 1101, 1105));
      printf("S 4010 %d\n", (int)hx_range(&r, 0, 5));
      for (i = 0; i < 8; i++) {
         if (i == 3 || i == 6) printf("R\n");
         printf("E %d 1276 %d %d\n", fsz, sig, hx_u(&r, 4) ? ep : (int)hx_u(&r, 3));
      }
      /* the same grid point with the forced channel count changed MID-stream (none / 2 -> 1 -> 2 -> 1), on packets of
         20 ... 120 ms (several frames per packet in the LP and hybrid layers): in effect by the third packet */
      {
         static const int ms6[6] = {8, 16, 24, 32, 48, 24};
         int fszm = Fs / 400 * ms6[(k + 2 * b) % 6];
         printf("N enc 0 %d 2 %d 0\n", Fs, APPS[a]);
         printf("S 4002 %d\n", br[b] + (int)hx_u(&r, 4000));
         if (fc == 2) printf("S 4022 2\n");
         if (h) printf("S 4024 3001\n");
         printf("S 4010 %d\n", (int)hx_range(&r, 0, 5));
         for (i = 0; i < 14; i++) {
            if (i == 3 || i == 11) printf("S 4022 1\n");
            if (i == 7) printf("S 4022 2\n");
            printf("E %d 1276 %d %d\n", fszm, sig, ep);
         }
      }
   }
}

/* gen-durgrid: OPUS_SET_EXPERT_FRAME_DURATION(x) before the first frame for every x (ARG, 2.5 ... 120 ms) at every
   (Fs, channels, application) through every entry point; the caller's buffer is exactly x, longer (the next legal sizes, a
   length that is no legal size, the 120 ms maximum and beyond it), and shorter (refused).  A reset in the middle. */
static int dur_samples(int dur, int Fs) { return dur <= 5005 ? (Fs / 400) << (dur - 5001) : (dur - 5003) * Fs / 50; }
static void gen_durgrid(uint64_t seed)
{
   static const int num[9] = {1, 2, 4, 8, 16, 24, 32, 40, 48};
   hx_rng r; int f, c, a, d, ep, i;
   r.s = seed * 0x9E3779B1u + 7;
   for (f = 0; f < 5; f++) for (c = 1; c <= 2; c++) for (a = 0; a < 3; a++) for (d = 5000; d <= 5009; d++) for (ep = 0; ep < 3; ep++) {
      int Fs = FS[f], q = Fs / 400, sig = hx_u(&r, 2) ? 1 : 3;
      printf("N enc %d %d %d %d 0\n", (int)hx_u(&r, 4) == 0, Fs, c, APPS[a]);
      printf("S 4010 %d\n", (int)hx_range(&r, 0, 5));
      if (hx_u(&r, 2)) printf("S 4002 %d\n", (int[]){12000, 24000, 48000, 96000}[hx_u(&r, 4)]);
      if (hx_u(&r, 4) == 0) printf("S 4006 0\n");
      printf("S 4040 %d\n", d);
      if (d == 5000) {
         /* the buffer length is the frame size: every legal size once in a random order slice, and lengths that are none */
         int start = hx_u(&r, 9);
         for (i = 0; i < 4; i++) printf("E %d 1276 %d %d\n", q * num[(start + 2 * i) % 9], sig, ep);
         printf("E %d 1276 %d %d\n", q * num[hx_u(&r, 9)] + 1, sig, ep);
         printf("E %d 1276 %d %d\n", q * 3 * (1 + (int)hx_u(&r, 2)), sig, ep);
         printf("R\n");
         printf("E %d 1276 %d %d\n", q * num[hx_u(&r, 9)], sig, ep);
         printf("E %d 1276 %d %d\n", q * 48 + q, sig, ep);
         printf("E %d 1276 %d %d\n", q - 1, sig, ep);
      } else {
         int D = dur_samples(d, Fs), j = d - 5001;
         printf("E %d 1276 %d %d\n", D, sig, ep);                                   /* exactly x */
         printf("E %d 1276 %d %d\n", j < 8 ? q * num[j + 1] : D + q, sig, ep);      /* the next legal size / 2.5 ms more */
         printf("E %d 1276 %d %d\n", D + 1 + (int)hx_u(&r, q), sig, ep);            /* longer, not a legal size */
         printf("E %d 1276 %d %d\n", D - 1, sig, ep);                               /* shorter: refused */
         printf("E %d 1276 %d %d\n", q * 48, sig, ep);                              /* the 120 ms maximum */
         printf("R\n");
         printf("E %d 1276 %d %d\n", j < 7 ? q * num[hx_range(&r, j + 1, 8)] : q * 48 + 7, sig, ep);
         printf("E %d 1276 %d %d\n", D / 2, sig, ep);                               /* shorter: refused */
         printf("E %d 1276 %d %d\n", q * 48 + 7, sig, (ep + 1 + (int)hx_u(&r, 2)) % 3);   /* beyond the maximum, another entry point */
         printf("E %d 1276 %d %d\n", D, sig, ep);
      }
   }
   /* multistream / surround / projection objects keep the frame duration at their own level: the same buffers */
   for (f = 0; f < 5; f++) for (ep = 0; ep < 3; ep++) for (i = 0; i < 3; i++) {
      int Fs = FS[f], q = Fs / 400, D;
      d = (int[]){5002, 5003, 5004, 5006, 5001, 5005}[(f + ep + i + (int)hx_u(&r, 2) * 3) % 6]; D = dur_samples(d, Fs);
      if (i == 0) printf("N mse %d 3 2 1 %d -1 0\n", Fs, APPS[(f + ep) % 3]);
      else if (i == 1) printf("N mse %d %d 0 0 %d 1 0\n", Fs, (int)hx_range(&r, 1, 4), APPS[(f + ep + 1) % 3]);
      else printf("N pje %d 4 3 %d 0\n", Fs, APPS[(f + ep + 2) % 3]);
      printf("S 4010 %d\nS 4040 %d\n", (int)hx_range(&r, 0, 3), d);
      printf("E %d 4000 3 %d\n", D, ep);
      printf("E %d 4000 3 %d\n", 2 * D, ep);
      printf("E %d 4000 3 %d\n", D + 1 + (int)hx_u(&r, q), ep);
      printf("E %d 4000 3 %d\n", D - 1, ep);
      printf("R\n");
      printf("E %d 4000 3 %d\n", q * 48, (ep + 1) % 3);
   }
}

static void gen_enc_exec(hx_rng *r, int Fs, int ch, int app, int steps)
{
   int scen = hx_u(r, 7), i, sig = -1, longish = 0;
   printf("N enc %d %d %d %d 0\n", (int)hx_u(r, 4) == 0, Fs, ch, app);
   if (scen == 1) {
      /* rate walk on long frames: stereo <-> mono decisions inside multi-frame packets */
      int fsz = Fs / 400 * (hx_u(r, 2) ? 32 : (hx_u(r, 2) ? 48 : 16)), ep = hx_u(r, 3);
      if (hx_u(r, 2)) printf("S 4010 %d\n", (int)hx_range(r, 0, 10));
      if (hx_u(r, 3) == 0) printf("S 4024 %d\n", 3001);
      sig = hx_u(r, 2) ? 1 : 3;
      for (i = 0; i < steps; i++) {
         if (i % 3 == 0) printf("S 4002 %d\n", (i / 3) % 2 == 0 ? hx_range(r, 32000, 64000) : hx_range(r, 6000, 12000));
         printf("E %d %d %d %d\n", fsz, 1276, sig, ep);
      }
      return;
   }
   if (scen == 2) {
      /* forced channel count changed mid-stream, then at least three packets */
      for (i = 0; i < steps; i++) {
         if (i % 5 == 0) { static const int fc[3] = {-1000, 1, 2}; printf("S 4022 %d\n", fc[hx_u(r, 3)]); }
         if (i % 7 == 3) printf("S 4002 %d\n", pick_bitrate(r));
         printf("E %d %d %d %d\n", Fs / 400 * (int[]){4, 8, 8, 16, 24}[hx_u(r, 5)], 1276, hx_u(r, 2) ? 1 : 3, (int)hx_u(r, 3));
      }
      return;
   }
   if (scen == 3) {
      /* bandwidth limits set before the first frame, then many packets under changing rate / hints */
      if (hx_u(r, 2)) printf("S 4004 %d\n", (int)hx_range(r, 1101, 1105));
      if (hx_u(r, 2)) printf("S 4008 %d\n", (int)hx_range(r, 1101, 1105));
      if (hx_u(r, 3) == 0) printf("S 4022 %d\n", (int)hx_range(r, 1, ch));
      if (hx_u(r, 3) == 0) printf("S 4040 %d\n", (int)hx_range(r, 5000, 5009));
      for (i = 0; i < steps; i++) {
         switch (hx_u(r, 8)) {
         case 0: printf("S 4002 %d\n", pick_bitrate(r)); break;
         case 1: printf("S 4024 %d\n", (int[]){-1000, 3001, 3002}[hx_u(r, 3)]); break;
         case 2: printf("S 4006 %d\n", (int)hx_u(r, 2)); break;
         case 3: printf("S 11002 %d\n", (int[]){-1000, 1000, 1001, 1002}[hx_u(r, 4)]); break;
         case 4: printf("S 4012 %d\nS 4014 %d\n", (int)hx_u(r, 3), (int)hx_range(r, 0, 30)); break;
         default: break;
         }
         gen_encode(r, Fs, hx_u(r, 4) == 0, -1);
      }
      return;
   }
   if (scen == 4) { longish = 1; }
   if (scen == 6) { gen_honoured_body(r, Fs, ch, app, steps); return; }
   /* generic: anything in any order */
   for (i = 0; i < steps; i++) {
      unsigned d = hx_u(r, 100);
      if (d < 45) gen_encode(r, Fs, longish, sig);
      else if (d < 83) gen_set(r, ch);
      else if (d < 88) printf("Q %d\n", ENCGET[hx_u(r, sizeof ENCGET / sizeof ENCGET[0])]);
      else if (d < 92) printf("U %d\n", ENCUNK[hx_u(r, sizeof ENCUNK / sizeof ENCUNK[0])]);
      else if (d < 96) printf("R\n");
      else printf("E %d %d %d %d\n", (int[]){0, -1, Fs / 400 - 1, Fs / 50 + 1, Fs / 25 * 3 + 7, Fs}[hx_u(r, 6)], (int[]){1276, 0, -1}[hx_u(r, 3)], 1, (int)hx_u(r, 3));
   }
}

static void gen_dec_exec(hx_rng *r, int Fs, int ch, int steps)
{
   int i;
   printf("N dec %d %d %d 0\n", (int)hx_u(r, 4) == 0, Fs, ch);
   for (i = 0; i < steps; i++) {
      unsigned d = hx_u(r, 100);
      if (d < 35) printf("D %d\n", (int)hx_u(r, 3));
      else if (d < 75) { const int *s = DECSET[hx_u(r, 3)]; printf("S %d %d\n", s[0], grid_value(r, s[1], s[2])); }
      else if (d < 85) printf("Q %d\n", DECGET[hx_u(r, sizeof DECGET / sizeof DECGET[0])]);
      else if (d < 93) printf("U %d\n", DECUNK[hx_u(r, sizeof DECUNK / sizeof DECUNK[0])]);
      else printf("R\n");
   }
}

static void gen_ms_steps(hx_rng *r, int Fs, int steps, int streams, int enc)
{
   int i;
   for (i = 0; i < steps; i++) {
      unsigned d = hx_u(r, 100);
      if (enc) {
         if (d < 25) printf("E %d %d %d %d\n", Fs / 400 * (int[]){4, 8, 8, 16, 24}[hx_u(r, 5)] + (hx_u(r, 4) ? 0 : Fs / 400 * (int)hx_u(r, 9) + (int)hx_u(r, 2)),
                            (int)(hx_u(r, 4) ? 4000 : hx_range(r, 10, 300)), (int)(hx_u(r, 4) ? 3 : 0), (int)hx_u(r, 3));
         else if (d < 75) gen_set(r, 2);
         else if (d < 82) printf("Q %d\n", ENCGET[hx_u(r, sizeof ENCGET / sizeof ENCGET[0])]);
         else if (d < 88) printf("U %d\n", (int[]){-1, 0, 3999, 4033, 4034, 4045, 4039, 4999, 12345, 2147483647, 5122}[hx_u(r, 11)]);
         else if (d < 94) printf("G %d %d\n", (int)hx_range(r, -1, streams), (int)(hx_u(r, 4) == 0));
         else printf("R\n");
      } else {
         if (d < 20) printf("D %d\n", 1);
         else if (d < 65) { const int *s = DECSET[hx_u(r, 3)]; printf("S %d %d\n", s[0], grid_value(r, s[1], s[2])); }
         else if (d < 75) printf("Q %d\n", (int[]){4009, 4029, 4045, 4039, 4047, 4031}[hx_u(r, 6)]);
         else if (d < 85) printf("U %d\n", (int[]){-1, 0, 3999, 4002, 4003, 4999, 12345, 2147483647, 5120}[hx_u(r, 9)]);
         else if (d < 94) printf("G %d %d\n", (int)hx_range(r, -1, streams), (int)(hx_u(r, 4) == 0));
         else printf("R\n");
      }
   }
}

static void gen_random(uint64_t seed, int nexec, int steps)
{
   hx_rng r; int x;
   r.s = seed;
   for (x = 0; x < nexec; x++) {
      int Fs = FS[x % 5], ch = 1 + (x / 5) % 2, app = APPS[(x / 10) % 3];     /* every (Fs, ch, app) in turn */
      unsigned k = hx_u(&r, 100);
      if (k < 72) gen_enc_exec(&r, Fs, ch, app, steps);
      else if (k < 82) gen_dec_exec(&r, Fs, ch, steps);
      else if (k < 90) {
         if (hx_u(&r, 2)) {
            int streams = hx_range(&r, 1, 3), coupled = hx_range(&r, 0, streams), nch = streams + coupled + hx_u(&r, 2);
            printf("N mse %d %d %d %d %d -1 0\n", Fs, nch, streams, coupled, app);
            gen_ms_steps(&r, Fs, steps / 2, streams, 1);
         } else {
            int fam = (int[]){0, 1, 1, 255, 2}[hx_u(&r, 5)], nch = fam == 0 ? hx_range(&r, 1, 2) : fam == 1 ? hx_range(&r, 1, 8) : fam == 255 ? hx_range(&r, 1, 4) : (int[]){1, 3, 4, 6}[hx_u(&r, 4)];
            printf("N mse %d %d 0 0 %d %d 0\n", Fs, nch, app, fam);
            gen_ms_steps(&r, Fs, steps / 2, 4, 1);
         }
      } else if (k < 94) {
         int streams = hx_range(&r, 1, 3), coupled = hx_range(&r, 0, streams), nch = hx_range(&r, 1, 6);
         printf("N msd %d %d %d %d 0\n", Fs, nch, streams, coupled);
         gen_ms_steps(&r, Fs, steps / 2, streams, 0);
      } else if (k < 98) {
         printf("N pje %d %d 3 %d 0\n", Fs, (int[]){4, 6, 9}[hx_u(&r, 3)], app);
         gen_ms_steps(&r, Fs, steps / 3, 5, 1);
      } else {
         int nch = (int[]){4, 6}[hx_u(&r, 2)];
         printf("N pjd %d %d %d %d 0\n", Fs, nch, (nch + 1) / 2, nch / 2);
         gen_ms_steps(&r, Fs, steps / 2, (nch + 1) / 2, 0);
      }
   }
}

static void gen_create(void)
{
   static const int fs[] = {8000, 12000, 16000, 24000, 48000, 0, 44100, 96000, -1, 48001, 11025};
   static const int apps[] = {2048, 2049, 2051, 0, 2050, 2052, 2047, -1000};
   int i, c, a, via, k;
   for (i = 0; i < 11; i++) for (c = 0; c <= 3; c++) for (via = 0; via < 2; via++) {
      for (a = 0; a < 8; a++) for (k = 0; k <= 2; k++) {
         if (via == 1 && k == 2) continue;
         printf("N enc %d %d %d %d %d\nS 4010 5\n", via, fs[i], c, apps[a], k);
      }
      for (k = 0; k <= 2; k++) { if (via == 1 && k == 2) continue; printf("N dec %d %d %d %d\nS 4034 100\n", via, fs[i], c, k); }
   }
   /* multistream: explicit layouts */
   { static const int lay[][3] = {{1, 1, 0}, {2, 1, 1}, {3, 2, 1}, {2, 2, 0}, {4, 2, 2}, {6, 4, 2}, {1, 1, 1}, {2, 0, 0}, {2, 1, 2}, {3, 2, 2},
                                  {0, 1, 0}, {256, 1, 0}, {2, 1, -1}, {255, 255, 0}, {255, 128, 127}, {255, 200, 100}, {4, 3, 2}};
     for (i = 0; i < 17; i++) for (c = 0; c < 4; c++) for (k = 0; k <= 2; k++) {
        int Fs = (int[]){48000, 16000, 44100, 0}[c];
        if (lay[i][0] > 8 && (k || c > 1)) continue;
        printf("N mse %d %d %d %d %d -1 %d\nS 4010 5\n", Fs, lay[i][0], lay[i][1], lay[i][2], c == 1 ? 2050 : 2049, k);
        printf("N msd %d %d %d %d %d\nS 4034 100\n", Fs, lay[i][0], lay[i][1], lay[i][2], k);
     } }
   /* surround / ambisonics create */
   { static const int fam[] = {0, 1, 255, 2, 3, 4, -2};
     for (i = 0; i < 7; i++) for (c = 0; c <= 12; c++) for (k = 0; k <= 1; k++)
        printf("N mse %d %d 0 0 %d %d %d\nS 4010 5\n", c == 7 ? 44100 : 48000, c, c == 5 ? 0 : 2049, fam[i], k);
   }
   /* projection */
   for (c = 0; c <= 12; c++) for (a = 2; a <= 4; a++) for (k = 0; k <= 2; k++)
      printf("N pje %d %d %d %d %d\nS 4010 5\n", c == 9 ? 44100 : 48000, c, a, c == 6 ? 2050 : 2049, k);
   { static const int lay[][3] = {{4, 2, 2}, {6, 3, 3}, {9, 5, 4}, {4, 2, 3}, {0, 1, 0}, {4, 0, 0}, {4, 2, -1},
                                  {0, 0, 0}, {-1, 1, 0}, {-4, 2, 2}, {0, 2, 2}, {4, 1, -1}, {4, -1, 1}, {-2, -1, -1}, {256, 1, 0}, {4, 200, 100}};
     for (i = 0; i < 16; i++) for (c = 0; c < 3; c++) for (k = 0; k <= 2; k++)
        printf("N pjd %d %d %d %d %d\nS 4034 100\n", (int[]){48000, 8000, 44100}[c], lay[i][0], lay[i][1], lay[i][2], k);
   }
}

int main(int argc, char **argv)
{
   hx_watchdog_init();
   if (argc >= 2 && !strcmp(argv[1], "replay")) { replay(stdin); return 0; }
   if (argc >= 5 && !strcmp(argv[1], "gen-random")) { gen_random(strtoull(argv[2], 0, 10), atoi(argv[3]), atoi(argv[4])); return 0; }
   if (argc >= 2 && !strcmp(argv[1], "gen-create")) { gen_create(); return 0; }
   if (argc >= 3 && !strcmp(argv[1], "gen-durgrid")) { gen_durgrid(strtoull(argv[2], 0, 10)); return 0; }
   if (argc >= 3 && !strcmp(argv[1], "gen-reset")) { gen_reset(strtoull(argv[2], 0, 10), argc >= 4 ? atoi(argv[3]) : 1); return 0; }
   fprintf(stderr, "usage: hx_ctl replay|gen-random seed nexec steps|gen-create|gen-durgrid seed|gen-reset seed [stride]\n");
   return 2;
}
