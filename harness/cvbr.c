/* hx_cvbr: drives a real encoder (single-stream or multistream) through a history of rate-control
   settings and encode calls and records what came out (modules Cvbr / CvbrTrace, property C05).
   The harness executes and measures; every judgement is made by TLC on the recorded events.

   Input (stdin), one execution per line:
     X kind fs ch app seed exact | op op op ...
       kind   S            one OpusEncoder (ch = 1 or 2)
              F<family>    opus_multistream_surround_encoder_create(fs, ch, family)   (family 0, 1, 2, 255)
              L<S>:<C>     opus_multistream_encoder_create with S streams, C coupled, identity mapping (ch = S + C)
       exact  1: the output buffer is an exact-size heap block of max_data_bytes bytes (sanitizer build: any
                 write past data[max_data_bytes-1] aborts); 0: the block is followed by 64 canary bytes that
                 are compared after the call
     ops (applied left to right):
       b<n>  OPUS_SET_BITRATE (-1000 auto, -1 max)      v<0|1> OPUS_SET_VBR        c<0|1> OPUS_SET_VBR_CONSTRAINT
       x<n>  OPUS_SET_COMPLEXITY   t<0|1> OPUS_SET_DTX   f<n> OPUS_SET_INBAND_FEC   p<n> OPUS_SET_PACKET_LOSS_PERC
       w<n>  OPUS_SET_BANDWIDTH (0 = auto)   o<n> OPUS_SET_FORCE_MODE (0 = auto; single stream only)
       h<n>  OPUS_SET_FORCE_CHANNELS (0 = auto)   g<n> OPUS_SET_SIGNAL (0 = auto)
       r     OPUS_RESET_STATE
       m<n>  max_data_bytes of the following calls       d<q> packet duration in 2.5 ms units (1 2 4 8 16 24 32 40 48)
       s<k>  input class of the following packets: 0 digital silence, 1 speech-like, 2 white noise -20 dBFS,
             3 full-scale white noise, 4 beyond full scale (square wave +-1.5), 5 faint noise, 6 clicks and bursts,
             7 tones, 8 full-scale sweep, 9 train of noise bursts (one per 50 ms), 10 dense harmonic tone
       e<n>  n encode calls
   Output: NDJSON.  "new" per execution, "set" per control call (request, value, return code), "enc" per
   encode call (multistream: with "sbr", each stream's OPUS_GET_BITRATE after the call), "end". */
#include "hx_common.h"
#include "opus.h"
#include "opus_multistream.h"
#include "opus_private.h"
#include "celt.h"
#include <math.h>

extern int opus_verif_encoder_peek(const OpusEncoder *st, int field);
extern opus_int32 opus_verif_celt_encoder_peek(const CELTEncoder *st, int field);

#define MAXCH 8
#define HDRN 48

static hx_rng g_sig;
static double g_t, g_phase, g_ph2;
static long g_n;

static double nz(void) { return hx_unit(&g_sig) * 2 - 1; }

/* n samples per channel, interleaved, class k */
static void gen(float *x, int n, int ch, int fs, int k)
{
   int i, c, h;
   for (i = 0; i < n; i++, g_n++) {
      double t = g_t + (double)i / fs, s = 0, s2 = 0;
      switch (k) {
      case 0: s = s2 = 0; break;
      case 1: {
         double f0 = 150.0 + 60.0 * sin(2 * M_PI * 1.3 * t) + 25.0 * sin(2 * M_PI * 0.37 * t);
         double env = 0.55 + 0.35 * sin(2 * M_PI * 3.7 * t) * sin(2 * M_PI * 0.9 * t + 0.4), nb;
         g_phase += 2 * M_PI * f0 / fs; if (g_phase > 2 * M_PI * 64) g_phase -= 2 * M_PI * 64;
         for (h = 1; h <= 7; h++) if (h * f0 < 0.45 * fs) s += sin(h * g_phase + 0.3 * h) / h;
         nb = (fmod(t, 0.31) < 0.06) ? 0.25 : 0.04;
         s = 0.28 * env * s + nb * env * nz(); s2 = 0.8 * s + 0.01 * nz();
         break; }
      case 2: s = 0.1 * nz(); s2 = 0.1 * nz(); break;
      case 3: s = nz(); s2 = nz(); break;
      case 4: s = (fmod(t * 440.0, 1.0) < 0.5 ? 1.5 : -1.5) + 0.2 * nz(); s2 = (fmod(t * 523.0, 1.0) < 0.5 ? -1.5 : 1.5); break;
      case 5: s = 1e-4 * nz(); s2 = 1e-4 * nz(); break;
      case 6: {
         double u = fmod(t, 0.137), b = fmod(t, 0.5);
         s = (u < 0.0005 ? 0.95 : 0.0) + (b < 0.03 ? 0.7 * exp(-b * 90.0) * nz() : 0.0) + 0.001 * nz();
         s2 = (fmod(t + 0.05, 0.137) < 0.0005 ? -0.95 : 0.0) + 0.001 * nz();
         break; }
      case 7: {
         static const double F[6] = {220.0, 277.18, 329.63, 440.0, 1760.0, 3520.0};
         for (h = 0; h < 6; h++) if (F[h] < 0.45 * fs) {
            double a = 0.12 * (1.0 + 0.8 * sin(2 * M_PI * (0.21 + 0.13 * h) * t));
            s += a * sin(2 * M_PI * F[h] * t + h); s2 += a * sin(2 * M_PI * F[h] * 1.003 * t + 2.0 * h);
         }
         break; }
      case 9: {   /* train of decaying noise bursts, one every 50 ms */
         double u = fmod(t, 0.05);
         s = 0.46 * exp(-u * 800.0) * nz(); s2 = 0.8 * s;
         break; }
      case 10: {  /* dense harmonic tone: 20 harmonics of 220.5 Hz */
         for (h = 1; h <= 20; h++) if (h * 220.5 < 0.45 * fs) s += 0.037 * sin(2 * M_PI * h * 220.5 * t + h);
         s2 = 0.8 * s;
         break; }
      default: {
         double f = 50.0 + (0.45 * fs - 50.0) * fmod(t, 1.7) / 1.7;
         g_ph2 += 2 * M_PI * f / fs; if (g_ph2 > 2 * M_PI * 64) g_ph2 -= 2 * M_PI * 64;
         s = 0.999 * sin(g_ph2); s2 = 0.999 * cos(g_ph2);
         break; }
      }
      for (c = 0; c < ch; c++) {
         double v = (c & 1) ? s2 : s;
         if (c >= 2 && k != 0) v = 0.6 * v + ((k == 3 || k == 4) ? 0.4 * nz() : 0.02 * (k == 5 ? 1e-3 : 1.0) * nz());
         x[i * ch + c] = (float)v;
      }
   }
   g_t += (double)n / fs;
}

typedef struct {
   int ms; OpusEncoder *e; OpusMSEncoder *m; int fs, ch, S, C, exact;
} enc_t;

static int do_ctl(enc_t *E, int rq, int v)
{
   int ret;
   if (rq == OPUS_RESET_STATE) ret = E->ms ? opus_multistream_encoder_ctl(E->m, OPUS_RESET_STATE) : opus_encoder_ctl(E->e, OPUS_RESET_STATE);
   else ret = E->ms ? opus_multistream_encoder_ctl(E->m, rq, v) : opus_encoder_ctl(E->e, rq, v);
   js_open("set"); js_int("rq", rq); js_int("v", v); js_int("ret", ret); js_close();
   return ret;
}

static CELTEncoder *celt_of(OpusEncoder *e) { return (CELTEncoder *)((char *)e + ((const int *)e)[0]); }

static void do_enc(enc_t *E, int q, int maxb, int sig, float *pcm)
{
   int frame = E->fs / 400 * q, ret, g = 1, i, n;
   unsigned char *data; hx_buf hb; float *in;
   int gv = -1, gc = -1;
   hb.base = hb.p = NULL; hb.n = 0;
   gen(pcm, frame, E->ch, E->fs, sig);
   in = (float *)malloc(sizeof(float) * (size_t)frame * E->ch);
   memcpy(in, pcm, sizeof(float) * (size_t)frame * E->ch);
   if (E->exact) { data = (unsigned char *)malloc(maxb > 0 ? maxb : 1); memset(data, 0xC3, maxb > 0 ? maxb : 1); }
   else { hb = hx_buf_new(maxb > 0 ? maxb : 1, 0xC3); data = hb.p; }
   hx_arm(20);
   if (E->ms) ret = opus_multistream_encode_float(E->m, in, frame, data, maxb);
   else ret = opus_encode_float(E->e, in, frame, data, maxb);
   hx_disarm();
   if (!E->exact) g = hx_buf_ok(&hb);
   if (E->ms) { opus_multistream_encoder_ctl(E->m, OPUS_GET_VBR(&gv)); opus_multistream_encoder_ctl(E->m, OPUS_GET_VBR_CONSTRAINT(&gc)); }
   else { opus_encoder_ctl(E->e, OPUS_GET_VBR(&gv)); opus_encoder_ctl(E->e, OPUS_GET_VBR_CONSTRAINT(&gc)); }
   js_open("enc"); js_int("r", ret); js_int("mb", maxb); js_int("q", q); js_int("g", g); js_int("sg", sig);
   js_int("gv", gv); js_int("gc", gc);
   if (!E->ms) {
      n = ret > 0 ? (ret < HDRN ? ret : HDRN) : 0;
      js_arr_b("h", data, n);
      js_int("res", opus_verif_celt_encoder_peek(celt_of(E->e), 0));
      js_int("md", opus_verif_encoder_peek(E->e, 0));
      js_int("ibr", opus_verif_encoder_peek(E->e, 9));
   } else {
      /* sub-packet boundaries as the library's own parser sees them: a hint that TLC re-derives with Framing!Parse */
      int off[MAXCH + 1], no = 0, pos = 0, sbr[MAXCH + 1], ns = 0;
      /* the bitrate each stream encoder was given for this call (public API: OPUS_MULTISTREAM_GET_ENCODER_STATE +
         OPUS_GET_BITRATE); their sum against the request is judged by CvbrTrace */
      for (i = 0; i < E->S && i < MAXCH; i++) {
         OpusEncoder *se = NULL; opus_int32 v = 0;
         if (opus_multistream_encoder_ctl(E->m, OPUS_MULTISTREAM_GET_ENCODER_STATE(i, &se)) != OPUS_OK || !se) break;
         if (opus_encoder_ctl(se, OPUS_GET_BITRATE(&v)) != OPUS_OK) break;
         sbr[ns++] = (int)v;
      }
      js_arr_i("sbr", sbr, ns);
      if (ret > 0) {
         off[no++] = 0;
         for (i = 0; i < E->S - 1; i++) {
            unsigned char toc; opus_int16 sz[48]; opus_int32 po = 0; int r;
            if (pos >= ret) break;
            r = opus_packet_parse_impl(data + pos, ret - pos, 1, &toc, NULL, sz, NULL, &po, NULL, NULL);
            if (r < 0 || po <= 0) break;
            pos += po; off[no++] = pos;
         }
      }
      js_arr_i("off", off, no);
      printf(",\"hs\":[");
      for (i = 0; i < no; i++) {
         int j, len = ret - off[i]; n = len < HDRN ? len : HDRN; if (n < 0) n = 0;
         printf(i ? ",[" : "[");
         for (j = 0; j < n; j++) printf(j ? ",%d" : "%d", data[off[i] + j]);
         printf("]");
      }
      printf("]");
   }
   js_close();
   if (E->exact) free(data); else hx_buf_free(&hb);
   free(in);
}

static int run_line(char *line, int exno)
{
   char kind[32]; int fs, ch, app, exact, err = 0, i; unsigned long seed;
   char *bar = strchr(line, '|'), *tok;
   enc_t E; float *pcm; int q = 8, maxb = 1500, sig = 1, fam = -1, npk = 0;
   unsigned char map[MAXCH];
   if (!bar) return -1;
   *bar = 0;
   if (sscanf(line, "X %31s %d %d %d %lu %d", kind, &fs, &ch, &app, &seed, &exact) != 6) return -1;
   if (ch < 1 || ch > MAXCH) return -1;
   memset(&E, 0, sizeof E); E.fs = fs; E.ch = ch; E.exact = exact;
   if (kind[0] == 'S') { E.ms = 0; E.S = 1; E.C = ch == 2; E.e = opus_encoder_create(fs, ch, app, &err); if (!E.e) return -2; }
   else if (kind[0] == 'F') {
      fam = atoi(kind + 1); E.ms = 1;
      E.m = opus_multistream_surround_encoder_create(fs, ch, fam, &E.S, &E.C, map, app, &err); if (!E.m) return -2;
   } else if (kind[0] == 'L') {
      if (sscanf(kind + 1, "%d:%d", &E.S, &E.C) != 2 || E.S + E.C != ch) return -1;
      for (i = 0; i < ch; i++) map[i] = (unsigned char)i;
      E.ms = 1; E.m = opus_multistream_encoder_create(fs, ch, E.S, E.C, map, app, &err); if (!E.m) return -2;
   } else return -1;
   g_sig.s = seed * 2654435761UL + 17; g_t = 0; g_phase = 0; g_ph2 = 0; g_n = 0;
   pcm = (float *)malloc(sizeof(float) * (size_t)(fs / 400 * 48) * ch);
   js_open("new"); js_int("x", exno); js_int("ms", E.ms); js_int("fs", fs); js_int("ch", ch); js_int("app", app);
   js_int("S", E.S); js_int("C", E.C); js_int("fam", fam); js_int("exact", exact); js_close();
   fflush(stdout);   /* if a later call aborts, the trace still names the execution it happened in */
   for (tok = strtok(bar + 1, " \t\r\n"); tok; tok = strtok(NULL, " \t\r\n")) {
      int v = atoi(tok + 1);
      switch (tok[0]) {
      case 'b': do_ctl(&E, OPUS_SET_BITRATE_REQUEST, v); break;
      case 'v': do_ctl(&E, OPUS_SET_VBR_REQUEST, v); break;
      case 'c': do_ctl(&E, OPUS_SET_VBR_CONSTRAINT_REQUEST, v); break;
      case 'x': do_ctl(&E, OPUS_SET_COMPLEXITY_REQUEST, v); break;
      case 't': do_ctl(&E, OPUS_SET_DTX_REQUEST, v); break;
      case 'f': do_ctl(&E, OPUS_SET_INBAND_FEC_REQUEST, v); break;
      case 'p': do_ctl(&E, OPUS_SET_PACKET_LOSS_PERC_REQUEST, v); break;
      case 'w': do_ctl(&E, OPUS_SET_BANDWIDTH_REQUEST, v ? v : OPUS_AUTO); break;
      case 'o': if (!E.ms) do_ctl(&E, OPUS_SET_FORCE_MODE_REQUEST, v ? v : OPUS_AUTO); break;
      case 'h': do_ctl(&E, OPUS_SET_FORCE_CHANNELS_REQUEST, v ? v : OPUS_AUTO); break;
      case 'g': do_ctl(&E, OPUS_SET_SIGNAL_REQUEST, v ? v : OPUS_AUTO); break;
      case 'r': do_ctl(&E, OPUS_RESET_STATE, 0); break;
      case 'm': maxb = v; break;
      case 'd': if (v == 1 || v == 2 || v == 4 || v == 8 || v == 16 || v == 24 || v == 32 || v == 40 || v == 48) q = v; break;
      case 's': sig = v; break;
      case 'e': for (i = 0; i < v; i++, npk++) do_enc(&E, q, maxb, sig, pcm); break;
      default: break;
      }
   }
   js_open("end"); js_int("x", exno); js_int("n", npk); js_close();
   free(pcm);
   if (E.ms) opus_multistream_encoder_destroy(E.m); else opus_encoder_destroy(E.e);
   return 0;
}

int main(int argc, char **argv)
{
   static char line[1 << 16]; int exno = 0;
   (void)argc; (void)argv;
   hx_watchdog_init();
   while (fgets(line, sizeof line, stdin)) {
      if (line[0] != 'X') continue;
      exno++;
      if (run_line(line, exno) < 0) { js_open("bad"); js_int("x", exno); js_close(); }
   }
   return 0;
}
