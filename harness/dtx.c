/* hx_dtx: drives a real encoder (and two decoders) through activity/inactivity schedules and
   records, per packet, what came out (modules Dtx / DtxTrace, property C20).
   Input (stdin), one execution per line:
     X fs ch app cx bitrate vbr dtx durQ1 maxb fec forcech sigseed | seg seg ...   (forcech: 0 = auto, 1, 2;
       the older form without forcech is accepted too; segment lengths may be fractional milliseconds)
   seg = a<ms> (loud, non-stationary "speech-like"), s<ms> (digital silence), n<ms> (faint noise, -80 dBFS).
   durQ1 is the packet duration in half-milliseconds (5 = 2.5 ms ... 240 = 120 ms).
   Output: NDJSON, a "new" event per execution, then one "enc" event per packet.
   The harness does not judge anything. */
#include "hx_common.h"
#include "opus.h"
#include <math.h>

extern int opus_verif_encoder_peek(const OpusEncoder *st, int field);

#define MAXSEG 16
typedef struct { int kind; double ms; int val; int done; } seg_t;   /* kind 0 silence, 1 active, 2 faint noise, 3 = OPUS_SET_DTX(val) at this point (no audio) */

static double g_phase, g_t;
static hx_rng g_sig;

static void gen_active(float *x, int n, int ch, int fs)
{
   /* harmonic "speech-like" signal: wandering pitch, 12 harmonics, syllabic amplitude modulation that
      never goes below ~0.2 of the peak, plus noise bursts; identical on both channels up to a gain */
   int i, h, c;
   for (i = 0; i < n; i++) {
      double t = g_t + (double)i / fs;
      double f0 = 150.0 + 60.0 * sin(2 * M_PI * 1.3 * t) + 25.0 * sin(2 * M_PI * 0.37 * t);
      double env = 0.55 + 0.35 * sin(2 * M_PI * 3.7 * t) * sin(2 * M_PI * 0.9 * t + 0.4);
      double s = 0, nb;
      g_phase += 2 * M_PI * f0 / fs;
      if (g_phase > 2 * M_PI * 64) g_phase -= 2 * M_PI * 64;
      for (h = 1; h <= 12; h++) if (h * f0 < 0.45 * fs) s += sin(h * g_phase + 0.3 * h) / h;
      nb = (fmod(t, 0.31) < 0.06) ? 0.25 : 0.04;
      s = 0.28 * env * s + nb * env * (hx_unit(&g_sig) * 2 - 1);
      for (c = 0; c < ch; c++) x[i * ch + c] = (float)(s * (c ? 0.8 : 1.0));
   }
}

static int cdb(const float *x, int n)
{
   /* RMS level in centi-dB relative to full scale; -20000 for exact zero; 30000 if not finite */
   double e = 0; int i;
   if (n <= 0) return -20000;
   for (i = 0; i < n; i++) { if (!(x[i] == x[i]) || x[i] > 1e30f || x[i] < -1e30f) return 30000; e += (double)x[i] * x[i]; }
   e /= n;
   if (e <= 0) return -20000;
   e = 1000.0 * log10(e);
   if (e < -20000) e = -20000;
   return (int)floor(e + 0.5);
}

static int run_line(char *line, int exno)
{
   int fs, ch, app, cx, br, vbr, dtx, durq, maxb, fec, fch = 0; unsigned long sseed;
   seg_t segs[MAXSEG]; int nseg = 0;
   char *bar = strchr(line, '|'), *tok;
   OpusEncoder *enc; OpusDecoder *d1, *d2; int err;
   int frame, total_frames = 0, si, k, pk = 0;
   float *in, *out; unsigned char *pkt;
   if (!bar) return -1;
   *bar = 0;
   if (sscanf(line, "X %d %d %d %d %d %d %d %d %d %d %d %lu", &fs, &ch, &app, &cx, &br, &vbr, &dtx, &durq, &maxb, &fec, &fch, &sseed) != 12) {
      fch = 0;
      if (sscanf(line, "X %d %d %d %d %d %d %d %d %d %d %lu", &fs, &ch, &app, &cx, &br, &vbr, &dtx, &durq, &maxb, &fec, &sseed) != 11) return -1;
   }
   for (tok = strtok(bar + 1, " \t\r\n"); tok && nseg < MAXSEG; tok = strtok(NULL, " \t\r\n")) {
      segs[nseg].kind = tok[0] == 'a' ? 1 : tok[0] == 'n' ? 2 : tok[0] == 'D' ? 3 : 0;
      segs[nseg].val = 0; segs[nseg].done = 0;
      if (segs[nseg].kind == 3) { segs[nseg].ms = 0; segs[nseg].val = atoi(tok + 1) ? 1 : 0; }
      else segs[nseg].ms = atof(tok + 1);
      nseg++;
   }
   frame = (int)((long)fs * durq / 2000);
   enc = opus_encoder_create(fs, ch, app, &err);
   if (!enc) return -2;
   d1 = opus_decoder_create(fs, ch, &err); d2 = opus_decoder_create(fs, ch, &err);
   opus_encoder_ctl(enc, OPUS_SET_COMPLEXITY(cx));
   opus_encoder_ctl(enc, OPUS_SET_BITRATE(br));
   opus_encoder_ctl(enc, OPUS_SET_VBR(vbr ? 1 : 0));
   opus_encoder_ctl(enc, OPUS_SET_VBR_CONSTRAINT(vbr == 2 ? 1 : 0));
   opus_encoder_ctl(enc, OPUS_SET_DTX(dtx));
   opus_encoder_ctl(enc, OPUS_SET_INBAND_FEC(fec));
   if (fec) opus_encoder_ctl(enc, OPUS_SET_PACKET_LOSS_PERC(10));
   if (fch) opus_encoder_ctl(enc, OPUS_SET_FORCE_CHANNELS(fch));
   g_phase = 0; g_t = 0; g_sig.s = sseed * 2654435761UL + 17;
   {
      int gdtx = -1, gbr = -1, gcx = -1;
      opus_encoder_ctl(enc, OPUS_GET_DTX(&gdtx)); opus_encoder_ctl(enc, OPUS_GET_BITRATE(&gbr)); opus_encoder_ctl(enc, OPUS_GET_COMPLEXITY(&gcx));
      js_open("new"); js_int("x", exno); js_int("fs", fs); js_int("ch", ch); js_int("app", app); js_int("cx", gcx);
      js_int("br", br); js_int("vbr", vbr); js_int("dtx", gdtx); js_int("dq", durq); js_int("maxb", maxb); js_int("fec", fec); js_int("fch", fch);
      js_close();
   }
   for (si = 0; si < nseg; si++) total_frames += (int)(segs[si].ms * fs / 1000 + 0.5);
   in = (float *)malloc(sizeof(float) * (size_t)(total_frames + frame) * ch);
   {
      long pos = 0; hx_rng nr; nr.s = sseed ^ 0x5bd1e995;
      for (si = 0; si < nseg; si++) {
         int n = (int)(segs[si].ms * fs / 1000 + 0.5);
         if (segs[si].kind == 3) continue;
         if (segs[si].kind == 1) { gen_active(in + pos * ch, n, ch, fs); }
         else if (segs[si].kind == 2) { for (k = 0; k < n * ch; k++) in[pos * ch + k] = (float)(1e-4 * (hx_unit(&nr) * 2 - 1)); }
         else memset(in + pos * ch, 0, sizeof(float) * (size_t)n * ch);
         g_t += (double)n / fs; pos += n;
      }
      memset(in + pos * ch, 0, sizeof(float) * (size_t)frame * ch);
   }
   out = (float *)malloc(sizeof(float) * (size_t)frame * ch);
   pkt = (unsigned char *)malloc(maxb > 0 ? maxb : 1);
   {
      long pos; long segend[MAXSEG]; long acc = 0;
      for (si = 0; si < nseg; si++) { acc += (long)(segs[si].ms * fs / 1000 + 0.5); segend[si] = acc; }
      for (pos = 0; pos + frame <= total_frames; pos += frame, pk++) {
         int ret, indtx = -1, sil = 1, loud = 1, noise = 0, cls, r1, r2, l1, l2; long loudn = 0;
         /* classify this packet's input: sil = every sample exactly zero; loud = lies wholly inside active segments */
         for (k = 0; k < frame * ch; k++) if (in[pos * ch + k] != 0) { sil = 0; break; }
         { long a = pos, b = pos + frame; long s0 = 0;
           for (si = 0; si < nseg; si++) { long e0 = segend[si]; if (segs[si].kind == 3) continue; if (b > s0 && a < e0 && segs[si].kind != 1) loud = 0; if (b > s0 && a < e0 && segs[si].kind == 2) noise = 1;
              if (segs[si].kind == 1) { long lo = a > s0 ? a : s0, hi = b < e0 ? b : e0; if (hi > lo) loudn += hi - lo; }
              s0 = e0; } }
         cls = sil ? 0 : loud ? 1 : noise ? 3 : 2;
         /* control changes scheduled at or before the start of this packet (the segment boundary they sit on) */
         for (si = 0; si < nseg; si++) if (segs[si].kind == 3 && !segs[si].done && segend[si] <= pos) {
            int gd = -1;
            segs[si].done = 1;
            opus_encoder_ctl(enc, OPUS_SET_DTX(segs[si].val)); opus_encoder_ctl(enc, OPUS_GET_DTX(&gd));
            js_open("dtx"); js_int("v", gd); js_int("i", pk); js_close();
         }
         hx_arm(10);
         ret = opus_encode_float(enc, in + pos * ch, frame, pkt, maxb);
         hx_disarm();
         opus_encoder_ctl(enc, OPUS_GET_IN_DTX(&indtx));
         js_open("enc"); js_int("i", pk); js_int("cls", cls); js_int("lf", (long)(100 * loudn / frame)); js_int("r", ret);
         js_int("toc", ret > 0 ? pkt[0] : -1); js_int("b1", ret > 1 ? pkt[1] : -1);
         js_int("nf", ret > 0 ? opus_packet_get_nb_frames(pkt, ret) : 0);
         js_int("ns", ret > 0 ? opus_packet_get_nb_samples(pkt, ret, fs) : 0);
         js_int("fr", frame);
         js_int("indtx", indtx);
         js_int("c", opus_verif_encoder_peek(enc, 6)); js_int("sc", opus_verif_encoder_peek(enc, 12));
         js_int("md", opus_verif_encoder_peek(enc, 0));
         /* decoder 1: packets as given; decoder 2: DTX packets (<= 2 bytes) treated as losses */
         if (ret > 0) {
            r1 = opus_decode_float(d1, pkt, ret, out, frame, 0); l1 = r1 > 0 ? cdb(out, r1 * ch) : -20000;
            if (ret <= 2) r2 = opus_decode_float(d2, NULL, 0, out, frame, 0);
            else r2 = opus_decode_float(d2, pkt, ret, out, frame, 0);
            l2 = r2 > 0 ? cdb(out, r2 * ch) : -20000;
         } else { r1 = r2 = 0; l1 = l2 = -20000; }
         js_int("d1", r1); js_int("l1", l1); js_int("d2", r2); js_int("l2", l2);
         js_close();
      }
   }
   js_open("end"); js_int("x", exno); js_int("n", pk); js_close();
   free(in); free(out); free(pkt);
   opus_encoder_destroy(enc); opus_decoder_destroy(d1); opus_decoder_destroy(d2);
   return 0;
}

int main(int argc, char **argv)
{
   static char line[4096]; int exno = 0;
   (void)argc; (void)argv;
   hx_watchdog_init();
   while (fgets(line, sizeof line, stdin)) {
      if (line[0] != 'X') continue;
      exno++;
      if (run_line(line, exno) < 0) { js_open("bad"); js_int("x", exno); js_close(); }
   }
   return 0;
}
