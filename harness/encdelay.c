/* G16 (EncDelay): the encoder's input path observed in situ.  silk_Encode and celt_encode_with_ec are interposed
   (-Wl,--wrap): every buffer a layer is handed is recorded with its pointer (relative to st->delay_buffer, found
   through a start-up-checked mirror of struct OpusEncoder, or relative to the first stack buffer of the call), its
   length, the prefill flag / role, and - the index-level measurement - WHERE in the filtered input stream its
   contents lie: the harness keeps the filtered stream H (what SILK's main call, or CELT's main call in CELT-only
   frames, was handed) and searches every recorded buffer in it bit-exactly ("lag" = elements from the start of the
   matching window to the end of H after the call).  After every call st->delay_buffer is compared with the tail of H.
   The harness only executes and records; spec/EncDelayTrace.tla judges.

   stdin, one execution per line:   X <Fs> <ch> <app> <seed> <api> | op op ...
   ops: fm= fc= bw= mb= br= vb= cx= sg= (ctl)   q=<2.5 ms units>  mx=<max_data_bytes>  rs   e<k><n> (n calls on signal k: v m) */
#include "hx_common.h"
#include <math.h>
#include "opus.h"
#include "opus_private.h"
#include "celt.h"
#include "API.h"
#include "analysis.h"
#include "entenc.h"

extern int opus_verif_encoder_peek(const OpusEncoder *st, int field);

/* ---- mirror of struct OpusEncoder (src/opus_encoder.c:74-150; float build, no DRED), checked at start-up and after every call ---- */
typedef struct { opus_val32 XX, XY, YY; opus_val16 smoothed_width; opus_val16 max_follower; } MirrorWidth;
typedef struct {
   int celt_enc_offset, silk_enc_offset;
   silk_EncControlStruct silk_mode;
   int application, channels, delay_compensation, force_channels, signal_type, user_bandwidth, max_bandwidth,
       user_forced_mode, voice_ratio;
   opus_int32 Fs;
   int use_vbr, vbr_constraint, variable_duration;
   opus_int32 bitrate_bps, user_bitrate_bps;
   int lsb_depth, encoder_buffer, lfe, arch, use_dtx, fec_config;
   TonalityAnalysisState analysis;
   int stream_channels;
   opus_int16 hybrid_stereo_width_Q14;
   opus_int32 variable_HP_smth2_Q15;
   opus_val16 prev_HB_gain;
   opus_val32 hp_mem[4];
   int mode, prev_mode, prev_channels, prev_framesize, bandwidth, auto_bandwidth, silk_bw_switch, first;
   celt_glog *energy_masking;
   MirrorWidth width_mem;
   opus_res delay_buffer[480 * 2];
   int detected_bandwidth, nb_no_activity_ms_Q1;
   opus_val32 peak_signal_energy;
} Mirror;

static OpusEncoder *enc;
static const Mirror *M;
static int Fs, CH, APP, API;
static int q_units = 8, mx = 1500;

static int mirror_ok(void)
{
   opus_int32 v = -1;
   if (M->Fs != Fs || M->channels != CH || M->application != APP) return 0;
   if (M->mode != opus_verif_encoder_peek(enc, 0) || M->prev_mode != opus_verif_encoder_peek(enc, 1)) return 0;
   if (M->stream_channels != opus_verif_encoder_peek(enc, 2) || M->prev_channels != opus_verif_encoder_peek(enc, 3)) return 0;
   if (M->bandwidth != opus_verif_encoder_peek(enc, 4) || M->first != opus_verif_encoder_peek(enc, 5)) return 0;
   if (M->bitrate_bps != opus_verif_encoder_peek(enc, 9) || M->prev_framesize != opus_verif_encoder_peek(enc, 10)) return 0;
   if (M->force_channels != opus_verif_encoder_peek(enc, 11) || M->user_forced_mode != opus_verif_encoder_peek(enc, 21)) return 0;
   if (M->lfe != opus_verif_encoder_peek(enc, 22) || M->arch != opus_verif_encoder_peek(enc, 18)) return 0;
   if (M->silk_bw_switch != opus_verif_encoder_peek(enc, 15) || M->auto_bandwidth != opus_verif_encoder_peek(enc, 16)) return 0;
   /* two fields that lie AFTER delay_buffer: they pin its size */
   if (M->detected_bandwidth != opus_verif_encoder_peek(enc, 17) || M->nb_no_activity_ms_Q1 != opus_verif_encoder_peek(enc, 6)) return 0;
   if (M->silk_mode.toMono != opus_verif_encoder_peek(enc, 7) || M->silk_mode.opusCanSwitch != opus_verif_encoder_peek(enc, 19)) return 0;
   opus_encoder_ctl(enc, OPUS_GET_LSB_DEPTH(&v)); if (v != M->lsb_depth) return 0;
   opus_encoder_ctl(enc, OPUS_GET_COMPLEXITY(&v)); if (v != M->silk_mode.complexity) return 0;
   return 1;
}
static void mirror_check(const char *where)
{
   if (!mirror_ok()) { js_open("mirror_bad"); js_str("at", where); js_close(); fflush(stdout); exit(3); }
}

/* ---- filtered-stream history H (interleaved elements) ---- */
#define HCAP (1 << 16)
#define HKEEP (1 << 15)
static float Hb[HCAP]; static long Hn;         /* Hn elements valid, the stream's most recent ones */
static void H_append(const float *x, long n)
{
   if (Hn + n > HCAP) { long drop = Hn + n - HKEEP; if (drop > Hn) drop = Hn; memmove(Hb, Hb + drop, (size_t)(Hn - drop) * sizeof(float)); Hn -= drop; }
   memcpy(Hb + Hn, x, (size_t)n * sizeof(float)); Hn += n;
}
static void H_reset(int eb_elems) { Hn = 0; { static float z[960]; H_append(z, eb_elems); } }

/* ---- recorded layer calls ---- */
#define MAXCALLS 96
typedef struct { int kind, role, pf, n; const float *p; float *copy; long nel; long hn_at; long appended; } call_t;
static call_t calls[MAXCALLS]; static int ncalls, rec_on, overflow;
static long Hdrop_base;       /* appended elements since the call began (to translate hn_at into the final H) */

static call_t *rec(int kind, int role, int pf, const float *p, int n)
{
   call_t *c;
   if (ncalls >= MAXCALLS) { overflow = 1; return NULL; }
   c = &calls[ncalls++];
   c->kind = kind; c->role = role; c->pf = pf; c->n = n; c->p = p; c->nel = (long)n * CH;
   c->copy = (float *)malloc((size_t)c->nel * sizeof(float));
   memcpy(c->copy, p, (size_t)c->nel * sizeof(float));
   c->appended = Hdrop_base;
   return c;
}

opus_int __real_silk_Encode(void *, silk_EncControlStruct *, const opus_res *, opus_int, ec_enc *, opus_int32 *, const opus_int, int);
opus_int __wrap_silk_Encode(void *encState, silk_EncControlStruct *encControl, const opus_res *samplesIn, opus_int nSamplesIn,
                            ec_enc *psRangeEnc, opus_int32 *nBytesOut, const opus_int prefillFlag, int activity)
{
   if (rec_on) {
      rec(0, prefillFlag ? 1 : 0, prefillFlag, samplesIn, nSamplesIn);
      if (!prefillFlag) { H_append(samplesIn, (long)nSamplesIn * CH); Hdrop_base += (long)nSamplesIn * CH; }
   }
   return __real_silk_Encode(encState, encControl, samplesIn, nSamplesIn, psRangeEnc, nBytesOut, prefillFlag, activity);
}
int __real_celt_encode_with_ec(OpusCustomEncoder *, const opus_res *, int, unsigned char *, int, ec_enc *);
int __wrap_celt_encode_with_ec(OpusCustomEncoder *st, const opus_res *pcm, int frame_size, unsigned char *compressed, int nb, ec_enc *e)
{
   if (rec_on) {
      int role = e ? 0 : (nb == 2 ? 1 : 2);       /* 0 main (range coder shared), 1 prefill (dummy[2]), 2 redundant frame */
      rec(1, role, 0, pcm, frame_size);
      if (role == 0 && M->mode == MODE_CELT_ONLY) {
         /* no SILK call in a CELT-only frame: the filtered frame is pcm_buf[total_buffer ..] (validated afterwards by the
            delay-buffer comparison and by the next call's window search) */
         int tb = (M->application == OPUS_APPLICATION_RESTRICTED_LOWDELAY) ? 0 : M->delay_compensation;
         H_append(pcm + (long)tb * CH, (long)frame_size * CH); Hdrop_base += (long)frame_size * CH;
      }
   }
   return __real_celt_encode_with_ec(st, pcm, frame_size, compressed, nb, e);
}

/* ---- signal ---- */
typedef struct { hx_rng r; double phase, t, ph2[8]; } sgen_t;
static sgen_t G;
static void sig_init(unsigned long seed) { memset(&G, 0, sizeof G); G.r.s = seed * 2654435761UL + 17; }
static void gen_sig(int kind, float *x, int n, int ch, int fs)
{
   static const double CHD[8] = {220.0, 277.18, 329.63, 440.0, 659.25, 1318.5, 3520.0, 7040.0};
   int i, c, k;
   for (i = 0; i < n; i++) {
      double v = 0, w = 0, t = G.t;
      if (kind == 'v') {
         double f0 = 150.0 + 60.0 * sin(2 * M_PI * 1.3 * t) + 25.0 * sin(2 * M_PI * 0.37 * t);
         double env = 0.55 + 0.35 * sin(2 * M_PI * 3.7 * t) * sin(2 * M_PI * 0.9 * t + 0.4); int h;
         G.phase += 2 * M_PI * f0 / fs; if (G.phase > 2 * M_PI * 64) G.phase -= 2 * M_PI * 64;
         for (h = 1; h <= 12; h++) if (h * f0 < 0.45 * fs) v += sin(h * G.phase + 0.3 * h) / h;
         v = 0.28 * env * v; w = 0.8 * v;
      } else {
         for (k = 0; k < 8; k++) {
            G.ph2[k] += 2 * M_PI * CHD[k] / fs; if (G.ph2[k] > 2 * M_PI * 16) G.ph2[k] -= 2 * M_PI * 16;
            if (CHD[k] < 0.45 * fs) { v += (k & 1 ? 0.03 : 0.08) * sin(G.ph2[k]); w += (k & 1 ? 0.08 : 0.03) * sin(G.ph2[k] + 0.7 * k); }
         }
      }
      /* dither: every sample distinct and non-zero, so a window of the filtered stream occurs only once */
      v += 0.02 * (hx_unit(&G.r) * 2 - 1) + 1e-3; w += 0.02 * (hx_unit(&G.r) * 2 - 1) - 1e-3;
      for (c = 0; c < ch; c++) x[(size_t)i * ch + c] = (float)((c & 1) ? w : v);
      G.t += 1.0 / fs;
   }
}

static int lookahead(void) { opus_int32 v = -77777; opus_encoder_ctl(enc, OPUS_GET_LOOKAHEAD(&v)); return (int)v; }
static int db_allzero(void) { int i; for (i = 0; i < 960; i++) if (M->delay_buffer[i] != 0) return 0; return 1; }

static void do_ctl(const char *name, int v)
{
   int r = -9999;
   if (!strcmp(name, "fm")) r = opus_encoder_ctl(enc, OPUS_SET_FORCE_MODE(v));
   else if (!strcmp(name, "fc")) r = opus_encoder_ctl(enc, OPUS_SET_FORCE_CHANNELS(v));
   else if (!strcmp(name, "bw")) r = opus_encoder_ctl(enc, OPUS_SET_BANDWIDTH(v));
   else if (!strcmp(name, "mb")) r = opus_encoder_ctl(enc, OPUS_SET_MAX_BANDWIDTH(v));
   else if (!strcmp(name, "sg")) r = opus_encoder_ctl(enc, OPUS_SET_SIGNAL(v));
   else if (!strcmp(name, "br")) r = opus_encoder_ctl(enc, OPUS_SET_BITRATE(v));
   else if (!strcmp(name, "vb")) r = opus_encoder_ctl(enc, OPUS_SET_VBR(v));
   else if (!strcmp(name, "cx")) r = opus_encoder_ctl(enc, OPUS_SET_COMPLEXITY(v));
   else if (!strcmp(name, "rs")) { r = opus_encoder_ctl(enc, OPUS_RESET_STATE); H_reset(M->encoder_buffer * CH); }
   mirror_check("ctl");
   js_open("ctl"); js_str("rq", name); js_int("v", v); js_int("r", r); js_int("la", lookahead());
   js_int("dz", db_allzero()); js_arr_i("st", (int[]){M->mode, M->prev_mode, M->first}, 3); js_close();
}

static int all_zero(const float *x, long n) { long i; for (i = 0; i < n; i++) if (x[i] != 0) return 0; return 1; }

static void do_encode(int kind)
{
   int fs = q_units * (Fs / 400), r, i, pre[3], post[3], eb = M->encoder_buffer, can;
   float *pcm = (float *)malloc((size_t)fs * CH * sizeof(float));          /* exactly frame_size*channels: ASan red zones */
   opus_int16 *pcm16 = (opus_int16 *)malloc((size_t)fs * CH * sizeof(opus_int16));
   hx_buf pkt = hx_buf_new((size_t)(mx > 0 ? mx : 1), 0xEE);
   long dbm = 0, anchor_set = 0; const float *anchor = NULL;
   int fade[5];
   gen_sig(kind, pcm, fs, CH, Fs);
   pre[0] = M->mode; pre[1] = M->prev_mode; pre[2] = M->first;
   fade[0] = (M->prev_HB_gain == 1.0f); fade[1] = M->hybrid_stereo_width_Q14;
   ncalls = 0; overflow = 0; Hdrop_base = 0; rec_on = 1;
   hx_arm(60);
   if (API == 1) {
      for (i = 0; i < fs * CH; i++) { double v = pcm[i] * 32768.0; pcm16[i] = (opus_int16)(v > 32767 ? 32767 : v < -32768 ? -32768 : lrint(v)); }
      r = opus_encode(enc, pcm16, fs, pkt.p, mx);
   } else r = opus_encode_float(enc, pcm, fs, pkt.p, mx);
   hx_disarm();
   rec_on = 0;
   can = hx_buf_ok(&pkt);
   mirror_check("enc");
   post[0] = M->mode; post[1] = M->prev_mode; post[2] = M->first;
   fade[2] = (M->prev_HB_gain == 1.0f); fade[3] = M->hybrid_stereo_width_Q14; fade[4] = M->silk_mode.stereoWidth_Q14;
   /* delay buffer vs the last encoder_buffer samples of the filtered stream */
   if (Hn >= (long)eb * CH) { for (i = 0; i < eb * CH; i++) if (M->delay_buffer[i] != Hb[Hn - (long)eb * CH + i]) dbm++; } else dbm = -1;
   js_open("enc"); js_int("q", q_units); js_int("fs", fs); js_int("mx", mx); js_int("r", r); js_int("can", can);
   js_arr_i("pre", pre, 3); js_arr_i("post", post, 3); js_int("la", lookahead()); js_int("dbm", dbm); js_arr_i("fade", fade, 5);
   js_int("ovf", overflow);
   printf(",\"calls\":[");
   for (i = 0; i < ncalls; i++) {
      call_t *c = &calls[i];
      long reg, off, lag = -1, zl = 0, tm = 0, amb, k, j, sc = 0;
      const float *db = M->delay_buffer;
      if (c->p >= db && c->p < db + 960) { reg = 0; off = (long)(c->p - db); }
      else { reg = 1; if (!anchor_set) { anchor = c->p; anchor_set = 1; } off = (long)(c->p - anchor); }
      amb = all_zero(c->copy, c->nel);
      /* where in H does this buffer lie?  (smallest lag; step of one ELEMENT so that a channel misalignment shows) */
      for (k = c->nel; k <= Hn && k <= c->nel + 40000; k++) {
         const float *h = Hb + Hn - k;
         if (h[0] != c->copy[0]) continue;
         if (!memcmp(h, c->copy, (size_t)c->nel * sizeof(float))) { lag = k; break; }
      }
      /* the same up to one constant gain <= 1 over the second half of the buffer (gain_fade, g2 < 1 in hybrid frames:
         the ramp covers at most the first Fs/400 samples) - mono only, stereo_fade mixes the channels */
      if (lag < 0 && !amb && CH == 1 && c->kind == 1 && c->nel >= 2 * (Fs / 400)) {
         long h0 = c->nel / 2;
         for (k = c->nel; k <= Hn && k <= c->nel + 40000 && sc == 0; k++) {
            const float *h = Hb + Hn - k; double g; long jj;
            if (h[h0] == 0) continue;
            g = (double)c->copy[h0] / (double)h[h0];
            if (!(g > 0.05 && g <= 1.0)) continue;
            for (jj = h0; jj < c->nel; jj++) { double d = (double)c->copy[jj] - g * (double)h[jj]; if (fabs(d) > 2e-6 * fabs((double)h[jj]) + 1e-9) break; }
            if (jj == c->nel) { lag = k; sc = 1; }
         }
      }
      /* SILK prefill buffer: leading zeros and the tail that still equals the stream as it stood when the call was made */
      {
         long hend = Hn - (Hdrop_base - c->appended);         /* H's end at the time of this call */
         for (zl = 0; zl < c->nel && c->copy[zl] == 0; zl++) ;
         for (j = 0; j < c->nel && j < hend; j++) { if (c->copy[c->nel - 1 - j] != Hb[hend - 1 - j]) break; }
         tm = j;
      }
      printf("%s[%d,%d,%ld,%ld,%d,%d,%ld,%ld,%ld,%ld,%ld]", i ? "," : "", c->kind, c->role, reg, off, c->n, c->pf, lag, amb, zl, tm, sc);
      free(c->copy);
   }
   printf("]");
   js_close();
   hx_buf_free(&pkt); free(pcm); free(pcm16);
}

static void run_line(char *line, int lineno)
{
   char *bar = strchr(line, '|'), *tok; unsigned long seed = 1; int err = 0;
   if (!bar) return;
   *bar = 0;
   if (sscanf(line, "X %d %d %d %lu %d", &Fs, &CH, &APP, &seed, &API) != 5) return;
   enc = opus_encoder_create(Fs, CH, APP, &err);
   if (!enc) { js_open("skip"); js_int("x", lineno); js_int("err", err); js_close(); return; }
   M = (const Mirror *)enc;
   q_units = 8; mx = 1500;
   sig_init(seed);
   mirror_check("new");
   H_reset(M->encoder_buffer * CH);
   js_open("new"); js_int("x", lineno); js_int("Fs", Fs); js_int("ch", CH); js_int("app", APP); js_int("api", API);
   js_int("eb", M->encoder_buffer); js_int("dc", M->delay_compensation); js_int("la", lookahead()); js_int("dz", db_allzero());
   js_arr_i("st", (int[]){M->mode, M->prev_mode, M->first}, 3); js_close();
   for (tok = strtok(bar + 1, " \t\r\n"); tok; tok = strtok(NULL, " \t\r\n")) {
      char *eq = strchr(tok, '=');
      if (eq) {
         int v = atoi(eq + 1); *eq = 0;
         if (!strcmp(tok, "q")) { if (v == 1 || v == 2 || v == 4 || v == 8 || v == 16 || v == 24 || v == 32 || v == 40 || v == 48) q_units = v; }
         else if (!strcmp(tok, "mx")) { if (v >= 1 && v <= 4000) mx = v; }
         else do_ctl(tok, v);
      } else if (!strcmp(tok, "rs")) do_ctl("rs", 0);
      else if (tok[0] == 'e' && tok[1]) {
         int n = atoi(tok + 2), i;
         if (n < 1) n = 1;
         if (n > 500) n = 500;
         for (i = 0; i < n; i++) do_encode(tok[1]);
      }
   }
   js_open("end"); js_int("x", lineno); js_close();
   fflush(stdout);
   opus_encoder_destroy(enc); enc = NULL;
}

int main(void)
{
   static char line[1 << 16]; int lineno = 0;
   hx_watchdog_init();
   while (fgets(line, sizeof line, stdin)) { lineno++; if (line[0] == 'X') run_line(line, lineno); }
   return 0;
}
