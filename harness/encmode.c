/* G01 (EncMode): replay of settings-change + signal-class schedules on a real encoder, logging after every
   encode call the complete peek vector (before and after), the packet's TOC / framing, and what two real
   decoders made of the packet: dec1 takes the packet whole, dec2 (another rate / channel count) takes it frame
   by frame so that the redundancy / transition decision of EVERY frame is observed through
   opus_verif_decoder_peek(dec, 11..14).  The harness only executes and records; spec/EncModeTrace.tla judges.

   stdin, one execution per line:
       X <Fs> <ch> <app> <seed> <api> | op op op ...
   ops:  fm= fc= bw= mb= sg= br= vb= cv= cx= dx= fe= lo= lf=   (ctl with the value after '=')
         q=<units of 2.5 ms>   mx=<max_data_bytes>   rs (OPUS_RESET_STATE)
         e<k><n>   n encode calls on signal class k: v voice-like, m music-like, s digital silence, n faint noise,
                   w wide uncorrelated stereo, t narrow-band tones
   api: 0 float, 1 int16 */
#include "hx_common.h"
#include <math.h>
#include "opus.h"
#include "opus_private.h"
#include "celt.h"

extern int opus_verif_decoder_peek(const OpusDecoder *st, int field);
extern int opus_verif_encoder_peek(const OpusEncoder *st, int field);

#define NPEEK 23
#define MAXPKT 4000
#define MAXSAMP 5760

typedef struct { hx_rng r; double phase, t, ph2[8]; long n; } sgen_t;
static sgen_t G;
static void sig_init(unsigned long seed) { memset(&G, 0, sizeof G); G.r.s = seed * 2654435761UL + 17; }

static double speechy(int fs)
{
   double t = G.t, f0, env, v = 0, nb; int h;
   f0 = 150.0 + 60.0 * sin(2 * M_PI * 1.3 * t) + 25.0 * sin(2 * M_PI * 0.37 * t);
   env = 0.55 + 0.35 * sin(2 * M_PI * 3.7 * t) * sin(2 * M_PI * 0.9 * t + 0.4);
   G.phase += 2 * M_PI * f0 / fs;
   if (G.phase > 2 * M_PI * 64) G.phase -= 2 * M_PI * 64;
   for (h = 1; h <= 12; h++) if (h * f0 < 0.45 * fs) v += sin(h * G.phase + 0.3 * h) / h;
   nb = (fmod(t, 0.31) < 0.06) ? 0.25 : 0.04;
   return 0.28 * env * v + nb * env * (hx_unit(&G.r) * 2 - 1);
}

static void gen_sig(int kind, float *x, int n, int ch, int fs)
{
   static const double CH[8] = {220.0, 277.18, 329.63, 440.0, 659.25, 1318.5, 3520.0, 7040.0};
   static const double NBT[4] = {310.0, 740.0, 1290.0, 2450.0};
   int i, c, k;
   for (i = 0; i < n; i++) {
      double v = 0, w = 0;
      switch (kind) {
      case 's': break;
      case 'v': v = speechy(fs); w = 0.8 * v; break;
      case 'n': v = 4e-4 * (hx_unit(&G.r) * 2 - 1); w = 4e-4 * (hx_unit(&G.r) * 2 - 1); break;
      case 'w': v = 0.25 * (hx_unit(&G.r) * 2 - 1); w = 0.25 * (hx_unit(&G.r) * 2 - 1); break;
      case 'm':
         for (k = 0; k < 8; k++) {
            G.ph2[k] += 2 * M_PI * CH[k] * (1.0 + 0.002 * sin(2 * M_PI * 0.5 * G.t + k)) / fs;
            if (G.ph2[k] > 2 * M_PI * 16) G.ph2[k] -= 2 * M_PI * 16;
            if (CH[k] < 0.45 * fs) { v += (k & 1 ? 0.03 : 0.08) * sin(G.ph2[k]); w += (k & 1 ? 0.08 : 0.03) * sin(G.ph2[k] + 0.7 * k); }
         }
         v += 0.02 * (hx_unit(&G.r) * 2 - 1); w += 0.02 * (hx_unit(&G.r) * 2 - 1);
         break;
      case 't':
         for (k = 0; k < 4; k++) {
            G.ph2[k] += 2 * M_PI * NBT[k] / fs;
            if (G.ph2[k] > 2 * M_PI * 16) G.ph2[k] -= 2 * M_PI * 16;
            v += 0.1 * sin(G.ph2[k]);
         }
         w = v;
         break;
      default: break;
      }
      for (c = 0; c < ch; c++) x[(size_t)i * ch + c] = (float)((c & 1) ? w : v);
      G.t += 1.0 / fs; G.n++;
   }
}

static void js_rng(const char *key, opus_uint32 v) { printf(",\"%s\":\"%08x\"", key, (unsigned)v); }

static OpusEncoder *enc;
static OpusDecoder *dec1, *dec2;
static int Fs, CH, APP, API, Fs2, CH2;
static int q_units = 8, mx = 1500;
/* settings without a getter, tracked from successful ctl calls */
static int s_ubw = OPUS_AUTO, s_sig = OPUS_AUTO, s_ubr = OPUS_AUTO;

static void peek_all(int *p) { int i; for (i = 0; i < NPEEK; i++) p[i] = opus_verif_encoder_peek(enc, i); }

static void do_ctl(const char *name, int v)
{
   int r = -9999, st[NPEEK];
   if (!strcmp(name, "fm")) r = opus_encoder_ctl(enc, OPUS_SET_FORCE_MODE(v));
   else if (!strcmp(name, "fc")) r = opus_encoder_ctl(enc, OPUS_SET_FORCE_CHANNELS(v));
   else if (!strcmp(name, "bw")) { r = opus_encoder_ctl(enc, OPUS_SET_BANDWIDTH(v)); if (r == OPUS_OK) s_ubw = v; }
   else if (!strcmp(name, "mb")) r = opus_encoder_ctl(enc, OPUS_SET_MAX_BANDWIDTH(v));
   else if (!strcmp(name, "sg")) { r = opus_encoder_ctl(enc, OPUS_SET_SIGNAL(v)); if (r == OPUS_OK) s_sig = v; }
   else if (!strcmp(name, "br")) { r = opus_encoder_ctl(enc, OPUS_SET_BITRATE(v)); if (r == OPUS_OK) s_ubr = v; }
   else if (!strcmp(name, "vb")) r = opus_encoder_ctl(enc, OPUS_SET_VBR(v));
   else if (!strcmp(name, "cv")) r = opus_encoder_ctl(enc, OPUS_SET_VBR_CONSTRAINT(v));
   else if (!strcmp(name, "cx")) r = opus_encoder_ctl(enc, OPUS_SET_COMPLEXITY(v));
   else if (!strcmp(name, "dx")) r = opus_encoder_ctl(enc, OPUS_SET_DTX(v));
   else if (!strcmp(name, "fe")) r = opus_encoder_ctl(enc, OPUS_SET_INBAND_FEC(v));
   else if (!strcmp(name, "lo")) r = opus_encoder_ctl(enc, OPUS_SET_PACKET_LOSS_PERC(v));
   else if (!strcmp(name, "lf")) r = opus_encoder_ctl(enc, OPUS_SET_LFE(v));
   else if (!strcmp(name, "rs")) r = opus_encoder_ctl(enc, OPUS_RESET_STATE);
   peek_all(st);
   js_open("ctl"); js_str("rq", name); js_int("v", v); js_int("r", r); js_arr_i("st", st, NPEEK); js_close();
}

static int getter(int req) { opus_int32 v = -77777; opus_encoder_ctl(enc, req, &v); return (int)v; }

static void do_encode(int kind)
{
   static float pcm[MAXSAMP * 2], out1[MAXSAMP * 2], out2[MAXSAMP * 2];
   static opus_int16 pcm16[MAXSAMP * 2];
   unsigned char *pkt;
   int fs = q_units * (Fs / 400), pre[NPEEK], post[NPEEK], r, i;
   opus_uint32 rngE = 0, rng1 = 0, rng2 = 0;
   gen_sig(kind, pcm, fs, CH, Fs);
   pkt = (unsigned char *)malloc(mx > 0 ? mx : 1);
   peek_all(pre);
   if (API == 1) {
      for (i = 0; i < fs * CH; i++) { double v = pcm[i] * 32768.0; pcm16[i] = (opus_int16)(v > 32767 ? 32767 : v < -32768 ? -32768 : lrint(v)); }
      r = opus_encode(enc, pcm16, fs, pkt, mx);
   } else r = opus_encode_float(enc, pcm, fs, pkt, mx);
   peek_all(post);
   opus_encoder_ctl(enc, OPUS_GET_FINAL_RANGE(&rngE));
   js_open("enc"); js_int("q", q_units); js_int("mx", mx); printf(",\"sk\":\"%c\"", kind);
   js_int("fm", post[21]); js_int("fc", post[11]); js_int("ubw", s_ubw); js_int("ubr", s_ubr); js_int("mxb", getter(OPUS_GET_MAX_BANDWIDTH_REQUEST));
   js_int("vbr", getter(OPUS_GET_VBR_REQUEST)); js_int("cx", getter(OPUS_GET_COMPLEXITY_REQUEST));
   js_int("dtx", getter(OPUS_GET_DTX_REQUEST)); js_int("fec", getter(OPUS_GET_INBAND_FEC_REQUEST));
   js_int("loss", getter(OPUS_GET_PACKET_LOSS_PERC_REQUEST)); js_int("lfe", post[22]); js_int("sig", s_sig);
   js_arr_i("pre", pre, NPEEK); js_arr_i("post", post, NPEEK); js_int("r", r);
   if (r > 0) {
      unsigned char toc = 0; const unsigned char *frames[48]; opus_int16 size[48]; int off = 0, nf, sz[48], spf;
      int d1p[7], n1, n2 = 0, d2[48 * 6];
      unsigned char one[1600];
      nf = opus_packet_parse(pkt, r, &toc, frames, size, &off);
      js_int("toc", toc); js_int("code", pkt[0] & 3); js_int("nf", nf); js_int("b1", r > 1 ? pkt[1] : -1);
      spf = opus_packet_get_samples_per_frame(pkt, Fs);
      js_int("spf", spf);
      js_rng("rngE", rngE);
      for (i = 0; i < nf && i < 48; i++) sz[i] = size[i];
      js_arr_i("sz", sz, nf > 0 ? nf : 0);
      /* decoder 1: the packet as a whole */
         n1 = opus_decode_float(dec1, pkt, r, out1, MAXSAMP, 0);
         opus_decoder_ctl(dec1, OPUS_GET_FINAL_RANGE(&rng1));
      for (i = 0; i < 4; i++) d1p[i] = opus_verif_decoder_peek(dec1, 11 + i);
      for (i = 0; i < 3; i++) d1p[4 + i] = opus_verif_decoder_peek(dec1, i);
      js_int("d1n", n1); js_rng("d1r", rng1); js_arr_i("d1p", d1p, 7);
      /* decoder 2: frame by frame (each frame re-packed as a code-0 packet with the same configuration) */
      if (nf > 0) {
         int spf2 = opus_packet_get_samples_per_frame(pkt, Fs2), bad = 0;
         for (i = 0; i < nf && i < 48; i++) {
            int n, j;
            one[0] = (unsigned char)(toc & 0xFC);
            if (size[i] > 0) memcpy(one + 1, frames[i], (size_t)size[i]);
                     n = opus_decode_float(dec2, one, 1 + size[i], out2, spf2, 0);
                     if (n < 0) bad = n; else n2 += n;
            for (j = 0; j < 4; j++) d2[6 * i + j] = opus_verif_decoder_peek(dec2, 11 + j);
            d2[6 * i + 4] = opus_verif_decoder_peek(dec2, 1);
            d2[6 * i + 5] = opus_verif_decoder_peek(dec2, 2);
         }
         opus_decoder_ctl(dec2, OPUS_GET_FINAL_RANGE(&rng2));
         printf(",\"d2\":[");
         for (i = 0; i < nf && i < 48; i++) printf("%s[%d,%d,%d,%d,%d,%d]", i ? "," : "", d2[6 * i], d2[6 * i + 1], d2[6 * i + 2], d2[6 * i + 3], d2[6 * i + 4], d2[6 * i + 5]);
         printf("]");
         js_int("d2n", bad ? bad : n2); js_int("spf2", spf2); js_rng("d2r", rng2);
      }
   }
   js_close();
   free(pkt);
}

static void run_line(char *line, int lineno)
{
   char *bar = strchr(line, '|'), *tok; unsigned long seed = 1; int st[NPEEK], err = 0;
   if (!bar) return;
   *bar = 0;
   if (sscanf(line, "X %d %d %d %lu %d", &Fs, &CH, &APP, &seed, &API) != 5) return;
   enc = opus_encoder_create(Fs, CH, APP, &err);
   if (!enc) { js_open("skip"); js_int("x", lineno); js_int("err", err); js_close(); return; }
   Fs2 = (Fs == 48000) ? 16000 : 48000; CH2 = 3 - CH;
   dec1 = opus_decoder_create(Fs, CH, &err);
   dec2 = opus_decoder_create(Fs2, CH2, &err);
   q_units = 8; mx = 1500; s_ubw = OPUS_AUTO; s_sig = OPUS_AUTO; s_ubr = OPUS_AUTO;
   sig_init(seed);
   peek_all(st);
   js_open("new"); js_int("x", lineno); js_int("Fs", Fs); js_int("ch", CH); js_int("app", APP); js_int("api", API);
   js_arr_i("st", st, NPEEK); js_close();
   fflush(stdout);
   for (tok = strtok(bar + 1, " \t\r\n"); tok; tok = strtok(NULL, " \t\r\n")) {
      char *eq = strchr(tok, '=');
      if (eq) {
         int v = atoi(eq + 1); *eq = 0;
         if (!strcmp(tok, "q")) { if (v == 1 || v == 2 || v == 4 || v == 8 || v == 16 || v == 24 || v == 32 || v == 40 || v == 48) q_units = v; }
         else if (!strcmp(tok, "mx")) { if (v >= 1 && v <= MAXPKT) mx = v; }
         else do_ctl(tok, v);
      } else if (!strcmp(tok, "rs")) do_ctl("rs", 0);
      else if (tok[0] == 'e' && tok[1]) {
         int n = atoi(tok + 2), i;
         if (n < 1) n = 1;
         if (n > 2000) n = 2000;
         for (i = 0; i < n; i++) do_encode(tok[1]);
      }
   }
   js_open("end"); js_int("x", lineno); js_close();
   fflush(stdout);
   opus_encoder_destroy(enc); opus_decoder_destroy(dec1); opus_decoder_destroy(dec2);
   enc = NULL; dec1 = dec2 = NULL;
}

int main(void)
{
   static char line[1 << 16]; int lineno = 0;
   while (fgets(line, sizeof line, stdin)) { lineno++; if (line[0] == 'X') run_line(line, lineno); }
   return 0;
}
