/* hx_energy: records CELT band-energy quantisation and the energy state carried from frame to frame
   (growth module G09, spec/Energy.tla).  The harness never judges: it executes the real code and writes NDJSON;
   spec/EnergyTrace.tla decides.

   This file *includes* celt/quant_bands.c of the tree under test (compiled with the library's own -D flags): the
   static tables and quant_coarse_energy_impl become visible, and every external symbol of quant_bands.o is defined
   here, so the whole codec linked from libopus.a (celt_encoder.c, celt_decoder.c ...) calls the copy compiled here.
   Inside the included file the range-coder calls are redirected through logging wrappers by macros:
      ec_tell                                  one "slot" per band and channel of a coarse pass (its budget tier)
      ec_laplace_encode / ec_laplace_decode, ec_enc_icdf / ec_dec_icdf, ec_enc_bit_logp / ec_dec_bit_logp
                                               the coarse symbol of the slot (value before and after the tier's clamp)
      ec_enc_bits / ec_dec_bits                fine and final bits
   The six public functions are renamed and wrapped: inputs and outputs (oldEBands, error) of every call.
   The energy state of the real CELT decoder / encoder is read after every packet through the pointer the codec itself
   passes as oldEBands (celt_decoder.c: oldLogE = oldEBands + 2*nbEBands, oldLogE2, backgroundLogE follow;
   celt_encoder.c: oldLogE = oldBandE + CC*nbEBands, oldLogE2, energyError follow); a wrong layout would show as a
   state-update disagreement on every packet (EnergyTrace checks all four arrays after every packet).

   Commands
     tables   the static tables of quant_bands.c
     cases    stdin: Q C LM start end force twopass len pre nbAvail lfe lossrate dI seed | fq[21] | prio[21] | eb[42] | old[42]
              the real encoder-side functions with the real range encoder, then the real decoder-side functions on the bytes
     situ     stdin: X seed C CC LM start cx vbr npk | per packet: len pre sig lossB
              real CELT encoder, decoder A gets every packet, decoder B loses / gets damaged packets
*/
#ifdef HAVE_CONFIG_H
#include "config.h"
#endif
#include <math.h>
#include "quant_bands.h"
#include "laplace.h"
#include "os_support.h"
#include "arch.h"
#include "mathops.h"
#include "stack_alloc.h"
#include "rate.h"
#include "modes.h"
#include "entenc.h"
#include "entdec.h"
#include "celt.h"
#include "opus_custom.h"
#include "hx_common.h"

#ifndef FIXED_POINT
#error "hx_energy records the fixed-point build (celt_glog is an integer in Q24)"
#endif

extern int opus_verif_celt_decoder_peek(const CELTDecoder *st, int field);

#define NBE 21
#define MAXSLOT 200
#define MAXBITS 200
typedef struct { int tell, kind, v, pre; } slot_t;
typedef struct {
   int n, multi;
   int C, LM, start, end, effEnd, budget, tell0, nbAvail, force, twopass, lossrate, lfe, intra, left, dI0, dI1, err;
   int eb[2 * NBE], in[2 * NBE], ei[2 * NBE], out[2 * NBE], eo[2 * NBE], fq[NBE], pr[NBE];
   int nslot; slot_t slot[MAXSLOT];
   int nflag, flag[4];
   int nbit, bit[MAXBITS][2];
   int over;
} call_t;
static call_t g_call[6];            /* 0 quant_coarse 1 quant_fine 2 quant_finalise 3 unquant_coarse 4 unquant_fine 5 unquant_finalise */
static call_t *g_cur;
static celt_glog *g_encbase, *g_decbase;

static int hx_tell(ec_ctx *e, const char *fn)
{
   int t = ec_tell(e);
   if (g_cur) {
      if (!strcmp(fn, "hxr_quant_coarse_energy")) g_cur->tell0 = t;
      else if (g_cur->nslot < MAXSLOT) { slot_t *s = &g_cur->slot[g_cur->nslot++]; s->tell = t; s->kind = 0; s->v = -1; s->pre = -1; }
      else g_cur->over = 1;
   }
   return t;
}
static slot_t *cur_slot(void) { static slot_t dummy; if (!g_cur || g_cur->nslot == 0) return &dummy; return &g_cur->slot[g_cur->nslot - 1]; }
static void hx_laplace_encode(ec_enc *enc, int *value, unsigned fs, int decay)
{
   slot_t *s = cur_slot(); s->kind = 15; s->pre = *value;
   ec_laplace_encode(enc, value, fs, decay);
   s->v = *value;
}
static int hx_laplace_decode(ec_dec *dec, unsigned fs, int decay)
{
   slot_t *s = cur_slot(); int v = ec_laplace_decode(dec, fs, decay);
   s->kind = 15; s->v = s->pre = v; return v;
}
static void hx_enc_icdf(ec_enc *enc, int sym, const unsigned char *icdf, unsigned ftb)
{
   slot_t *s = cur_slot(); s->kind = 2; s->pre = sym; s->v = (sym >> 1) ^ -(sym & 1);
   ec_enc_icdf(enc, sym, icdf, ftb);
}
static int hx_dec_icdf(ec_dec *dec, const unsigned char *icdf, unsigned ftb)
{
   slot_t *s = cur_slot(); int sym = ec_dec_icdf(dec, icdf, ftb);
   s->kind = 2; s->pre = sym; s->v = (sym >> 1) ^ -(sym & 1); return sym;
}
static void hx_enc_bit_logp(ec_enc *enc, int val, unsigned logp)
{
   if (g_cur && logp == 3) { if (g_cur->nflag < 4) g_cur->flag[g_cur->nflag++] = val; else g_cur->over = 1; }
   else { slot_t *s = cur_slot(); s->kind = 1; s->pre = -val; s->v = val ? -1 : 0; }      /* pre: the qi the encoder goes on with */
   ec_enc_bit_logp(enc, val, logp);
}
static int hx_dec_bit_logp(ec_dec *dec, unsigned logp)
{
   slot_t *s = cur_slot(); int b = ec_dec_bit_logp(dec, logp);
   s->kind = 1; s->v = s->pre = -b; return b;
}
static void hx_enc_bits(ec_enc *enc, opus_uint32 v, unsigned n)
{
   if (g_cur) { if (g_cur->nbit < MAXBITS) { g_cur->bit[g_cur->nbit][0] = (int)v; g_cur->bit[g_cur->nbit++][1] = (int)n; } else g_cur->over = 1; }
   ec_enc_bits(enc, v, n);
}
static opus_uint32 hx_dec_bits(ec_dec *dec, unsigned n)
{
   opus_uint32 v = ec_dec_bits(dec, n);
   if (g_cur) { if (g_cur->nbit < MAXBITS) { g_cur->bit[g_cur->nbit][0] = (int)v; g_cur->bit[g_cur->nbit++][1] = (int)n; } else g_cur->over = 1; }
   return v;
}

#define ec_tell(e) hx_tell(e, __func__)
#define ec_laplace_encode hx_laplace_encode
#define ec_laplace_decode hx_laplace_decode
#define ec_enc_icdf hx_enc_icdf
#define ec_dec_icdf hx_dec_icdf
#define ec_enc_bit_logp hx_enc_bit_logp
#define ec_dec_bit_logp hx_dec_bit_logp
#define ec_enc_bits hx_enc_bits
#define ec_dec_bits hx_dec_bits
#define quant_coarse_energy hxr_quant_coarse_energy
#define quant_fine_energy hxr_quant_fine_energy
#define quant_energy_finalise hxr_quant_energy_finalise
#define unquant_coarse_energy hxr_unquant_coarse_energy
#define unquant_fine_energy hxr_unquant_fine_energy
#define unquant_energy_finalise hxr_unquant_energy_finalise
#include "quant_bands.c"
#undef quant_coarse_energy
#undef quant_fine_energy
#undef quant_energy_finalise
#undef unquant_coarse_energy
#undef unquant_fine_energy
#undef unquant_energy_finalise
#undef ec_tell
#undef ec_laplace_encode
#undef ec_laplace_decode
#undef ec_enc_icdf
#undef ec_dec_icdf
#undef ec_enc_bit_logp
#undef ec_dec_bit_logp
#undef ec_enc_bits
#undef ec_dec_bits

static call_t *call_begin(int k, const CELTMode *m, int start, int end, int C)
{
   call_t *c = &g_call[k];
   int n = c->n;
   if (m->nbEBands != NBE) { fprintf(stderr, "hx_energy: nbEBands %d\n", m->nbEBands); exit(3); }
   if (n) { c->multi = 1; c->n++; g_cur = NULL; return NULL; }
   memset(c, 0, sizeof *c);
   c->n = 1; c->start = start; c->end = end; c->C = C; c->tell0 = -1;
   g_cur = c;
   return c;
}
/* fine_quant / fine_priority are only defined for the coded bands: the rest of the caller's array is never read (and not initialised) */
static void cpq(int *dst, const int *src, int start, int end) { int i; for (i = 0; i < NBE; i++) dst[i] = (i >= start && i < end) ? src[i] : 0; }
/* error[] is only written / read for the coded bands of the coded channels */
static void cpe(int *dst, const celt_glog *src, int C, int start, int end) { int i; for (i = 0; i < 2 * NBE; i++) dst[i] = (i / NBE < C && i % NBE >= start && i % NBE < end) ? (int)src[i] : 0; }
static void cp(int *dst, const celt_glog *src, int n) { int i; for (i = 0; i < 2 * NBE; i++) dst[i] = i < n ? (int)src[i] : 0; }

void quant_coarse_energy(const CELTMode *m, int start, int end, int effEnd, const celt_glog *eBands, celt_glog *oldEBands, opus_uint32 budget,
      celt_glog *error, ec_enc *enc, int C, int LM, int nbAvailableBytes, int force_intra, opus_val32 *delayedIntra, int two_pass, int loss_rate, int lfe)
{
   call_t *c = call_begin(0, m, start, end, C);
   g_encbase = oldEBands;
   if (c) {
      c->LM = LM; c->effEnd = effEnd; c->budget = (int)budget; c->nbAvail = nbAvailableBytes; c->force = force_intra; c->twopass = two_pass;
      c->lossrate = loss_rate; c->lfe = lfe; c->dI0 = (int)*delayedIntra;
      cp(c->eb, eBands, C * NBE); cp(c->in, oldEBands, C * NBE); cpe(c->ei, error, C, start, end);
   }
   hxr_quant_coarse_energy(m, start, end, effEnd, eBands, oldEBands, budget, error, enc, C, LM, nbAvailableBytes, force_intra, delayedIntra, two_pass, loss_rate, lfe);
   if (c) { cp(c->out, oldEBands, C * NBE); cpe(c->eo, error, C, start, end); c->dI1 = (int)*delayedIntra; c->err = ec_get_error(enc); }
   g_cur = NULL;
}
void quant_fine_energy(const CELTMode *m, int start, int end, celt_glog *oldEBands, celt_glog *error, int *fine_quant, ec_enc *enc, int C)
{
   call_t *c = call_begin(1, m, start, end, C);
   if (c) { cp(c->in, oldEBands, C * NBE); cpe(c->ei, error, C, start, end); cpq(c->fq, fine_quant, start, end); c->tell0 = ec_tell(enc); }
   hxr_quant_fine_energy(m, start, end, oldEBands, error, fine_quant, enc, C);
   if (c) { cp(c->out, oldEBands, C * NBE); cpe(c->eo, error, C, start, end); c->err = ec_get_error(enc); }
   g_cur = NULL;
}
void quant_energy_finalise(const CELTMode *m, int start, int end, celt_glog *oldEBands, celt_glog *error, int *fine_quant, int *fine_priority, int bits_left, ec_enc *enc, int C)
{
   call_t *c = call_begin(2, m, start, end, C);
   if (c) { cp(c->in, oldEBands, C * NBE); cpe(c->ei, error, C, start, end); cpq(c->fq, fine_quant, start, end); cpq(c->pr, fine_priority, start, end);
            c->left = bits_left; c->tell0 = ec_tell(enc); c->budget = (int)enc->storage * 8; }
   hxr_quant_energy_finalise(m, start, end, oldEBands, error, fine_quant, fine_priority, bits_left, enc, C);
   if (c) { cp(c->out, oldEBands, C * NBE); cpe(c->eo, error, C, start, end); c->err = ec_get_error(enc); }
   g_cur = NULL;
}
void unquant_coarse_energy(const CELTMode *m, int start, int end, celt_glog *oldEBands, int intra, ec_dec *dec, int C, int LM)
{
   call_t *c = call_begin(3, m, start, end, C);
   g_decbase = oldEBands;
   if (c) { c->LM = LM; c->intra = intra; c->budget = (int)dec->storage * 8; c->tell0 = ec_tell(dec); cp(c->in, oldEBands, 2 * NBE); }
   hxr_unquant_coarse_energy(m, start, end, oldEBands, intra, dec, C, LM);
   if (c) { cp(c->out, oldEBands, 2 * NBE); c->err = ec_get_error(dec); }
   g_cur = NULL;
}
void unquant_fine_energy(const CELTMode *m, int start, int end, celt_glog *oldEBands, int *fine_quant, ec_dec *dec, int C)
{
   call_t *c = call_begin(4, m, start, end, C);
   if (c) { cp(c->in, oldEBands, 2 * NBE); cpq(c->fq, fine_quant, start, end); c->tell0 = ec_tell(dec); }
   hxr_unquant_fine_energy(m, start, end, oldEBands, fine_quant, dec, C);
   if (c) { cp(c->out, oldEBands, 2 * NBE); c->err = ec_get_error(dec); }
   g_cur = NULL;
}
void unquant_energy_finalise(const CELTMode *m, int start, int end, celt_glog *oldEBands, int *fine_quant, int *fine_priority, int bits_left, ec_dec *dec, int C)
{
   call_t *c = call_begin(5, m, start, end, C);
   if (c) { cp(c->in, oldEBands, 2 * NBE); cpq(c->fq, fine_quant, start, end); cpq(c->pr, fine_priority, start, end); c->left = bits_left;
            c->tell0 = ec_tell(dec); c->budget = (int)dec->storage * 8; }
   hxr_unquant_energy_finalise(m, start, end, oldEBands, fine_quant, fine_priority, bits_left, dec, C);
   if (c) { cp(c->out, oldEBands, 2 * NBE); c->err = ec_get_error(dec); }
   g_cur = NULL;
}

/* ------------------------------------------------------------------------------------------------ output */
static void calls_reset(int from, int to) { int k; for (k = from; k <= to; k++) g_call[k].n = 0; }
static void put_call(const char *key, const call_t *c, int kind)
{
   int i;
   printf(",\"%s\":{\"n\":%d", key, c->n + (c->over ? 100 : 0));
   if (c->n != 1 || c->over) { printf("}"); return; }
   js_int("C", c->C); js_int("LM", c->LM); js_int("start", c->start); js_int("end", c->end); js_int("budget", c->budget); js_int("tell0", c->tell0);
   js_int("err", c->err);
   js_arr_i("in", c->in, 2 * NBE); js_arr_i("out", c->out, 2 * NBE);
   if (kind == 0) {
      js_int("effEnd", c->effEnd); js_int("nbAvail", c->nbAvail); js_int("force", c->force); js_int("twopass", c->twopass); js_int("lossrate", c->lossrate);
      js_int("lfe", c->lfe); js_int("dI", c->dI0); js_int("dI1", c->dI1);
      js_arr_i("eb", c->eb, 2 * NBE); js_arr_i("fl", c->flag, c->nflag);
   }
   if (kind == 3) js_int("intra", c->intra);
   if (kind <= 2) { js_arr_i("ei", c->ei, 2 * NBE); js_arr_i("eo", c->eo, 2 * NBE); }
   if (kind == 0 || kind == 3) {
      printf(",\"sl\":[");
      for (i = 0; i < c->nslot; i++) printf("%s[%d,%d,%d,%d]", i ? "," : "", c->slot[i].tell, c->slot[i].kind, c->slot[i].v, c->slot[i].pre);
      printf("]");
   } else {
      js_arr_i("fq", c->fq, NBE);
      if (kind == 2 || kind == 5) { js_arr_i("pr", c->pr, NBE); js_int("left", c->left); }
      printf(",\"bits\":[");
      for (i = 0; i < c->nbit; i++) printf("%s[%d,%d]", i ? "," : "", c->bit[i][0], c->bit[i][1]);
      printf("]");
   }
   printf("}");
}
static void js_halves(const char *kh, const char *kl, opus_uint32 v) { js_int(kh, (long)(v >> 16)); js_int(kl, (long)(v & 0xFFFF)); }

static const CELTMode *g_mode;
#define TORES(a) ((opus_res)(sizeof(opus_res) == 2 ? lrint(32767.0 * (a)) : lrint(32767.0 * 256.0 * (a))))

/* ------------------------------------------------------------------------------------------------ tables */
static void cmd_tables(void)
{
   int i, a, b; int t[42];
   js_open("tab"); js_int("db_shift", DB_SHIFT); js_int("maxfine", MAX_FINE_BITS); js_int("nb", g_mode->nbEBands);
   for (i = 0; i < 25; i++) t[i] = eMeans[i];
   js_arr_i("emeans", t, 25);
   for (i = 0; i < 4; i++) t[i] = pred_coef[i];
   js_arr_i("pred", t, 4);
   for (i = 0; i < 4; i++) t[i] = beta_coef[i];
   js_arr_i("beta", t, 4); js_int("beta_intra", beta_intra);
   for (i = 0; i < 3; i++) t[i] = small_energy_icdf[i];
   js_arr_i("small", t, 3);
   printf(",\"eprob\":[");
   for (a = 0; a < 4; a++) { printf("%s[", a ? "," : ""); for (b = 0; b < 2; b++) { printf("%s[", b ? "," : ""); for (i = 0; i < 42; i++) printf(i ? ",%d" : "%d", e_prob_model[a][b][i]); printf("]"); } printf("]"); }
   printf("]");
   js_int("g28", (long)GCONST(28.f)); js_int("g9", (long)GCONST(9.f)); js_int("g20", (long)GCONST(20.f)); js_int("milli", (long)GCONST(0.001f));
   js_int("half", (long)GCONST(.5f)); js_int("g1_5", (long)GCONST(1.5f)); js_int("g16", (long)GCONST(16.f)); js_int("g3", (long)GCONST(3.f)); js_int("g2", (long)GCONST(2.f));
   js_close();
}

/* ------------------------------------------------------------------------------------------------ cases */
static int read_ints(char *s, int *a, int max)
{
   int n = 0; char *e;
   while (n < max) { long v = strtol(s, &e, 10); if (e == s) break; a[n++] = (int)v; s = e; }
   return n;
}
static char *next_section(char *s) { char *p = strchr(s, '|'); if (!p) return NULL; *p = 0; return p + 1; }

static void case_exec(char *line, long ix)
{
   static unsigned char buf[1300];
   char cmd[4000]; int h[16], fq[NBE], pr[NBE], ebi[2 * NBE], oldi[2 * NBE], nh, i, c;
   celt_glog eb[2 * NBE], oldE[2 * NBE], oldD[2 * NBE], error[2 * NBE]; opus_val32 dI;
   char *s1, *s2, *s3, *s4; ec_enc enc; ec_dec dec; unsigned char *d; int C, LM, start, end, len, pre, intra, left, tot, room;
   strncpy(cmd, line, sizeof cmd - 1); cmd[sizeof cmd - 1] = 0; { char *nl = strchr(cmd, '\n'); if (nl) *nl = 0; }
   s1 = next_section(line); s2 = s1 ? next_section(s1) : NULL; s3 = s2 ? next_section(s2) : NULL; s4 = s3 ? next_section(s3) : NULL;
   nh = read_ints(line + 1, h, 16);
   if (nh < 13 || !s4 || read_ints(s1, fq, NBE) != NBE || read_ints(s2, pr, NBE) != NBE || read_ints(s3, ebi, 2 * NBE) != 2 * NBE || read_ints(s4, oldi, 2 * NBE) != 2 * NBE)
      { js_open("bad"); js_str("why", "parse"); js_close(); return; }
   C = h[0]; LM = h[1]; start = h[2]; end = h[3]; len = h[6]; pre = h[7];
   if (C < 1 || C > 2 || LM < 0 || LM > 3 || start < 0 || end > NBE || start >= end || len < 1 || len > 1275 || pre < 0 || pre > 8 * len)
      { js_open("bad"); js_str("why", "args"); js_close(); return; }
   for (i = 0; i < 2 * NBE; i++) { eb[i] = ebi[i]; oldE[i] = oldD[i] = oldi[i]; error[i] = 0; }
   for (i = 0; i < NBE; i++) { if (fq[i] < 0) fq[i] = 0; if (fq[i] > MAX_FINE_BITS) fq[i] = MAX_FINE_BITS; pr[i] = pr[i] ? 1 : 0; }
   dI = h[11];
   memset(buf, 0, sizeof buf);
   calls_reset(0, 5);
   ec_enc_init(&enc, buf, len);
   for (i = 0; i < pre; i++) ec_enc_bit_logp(&enc, 0, 1);
   quant_coarse_energy(g_mode, start, end, end, eb, oldE, (opus_uint32)len * 8, error, &enc, C, LM, h[8], h[4], &dI, h[5], h[10], h[9]);
   /* the fine bits an allocation could have granted: what is left after the coarse energy (input crafting, logged as used) */
   room = len * 8 - ec_tell(&enc) - 1; tot = 0;
   for (i = start; i < end; i++) { if (tot + C * fq[i] > room) fq[i] = 0; tot += C * fq[i]; }
   for (i = 0; i < start; i++) fq[i] = 0;
   for (i = end; i < NBE; i++) fq[i] = 0;
   quant_fine_energy(g_mode, start, end, oldE, error, fq, &enc, C);
   left = len * 8 - ec_tell(&enc);
   quant_energy_finalise(g_mode, start, end, oldE, error, fq, pr, left, &enc, C);
   ec_enc_done(&enc);
   d = hx_exact(buf, len);
   ec_dec_init(&dec, d, len);
   for (i = 0; i < pre; i++) (void)ec_dec_bit_logp(&dec, 1);
   intra = ec_tell(&dec) + 3 <= len * 8 ? ec_dec_bit_logp(&dec, 3) : 0;
   unquant_coarse_energy(g_mode, start, end, oldD, intra, &dec, C, LM);
   unquant_fine_energy(g_mode, start, end, oldD, fq, &dec, C);
   unquant_energy_finalise(g_mode, start, end, oldD, fq, pr, len * 8 - ec_tell(&dec), &dec, C);
   js_open("pkt"); js_str("m", "pair"); js_str("cmd", cmd); js_int("ix", ix); js_int("C", C); js_int("CC", C); js_int("LM", LM); js_int("start", start); js_int("end", end);
   js_int("len", len); js_int("pre", pre); js_int("hasS", 0); js_int("er", 0); js_int("dr", 0);
   js_halves("eh", "el", enc.rng); js_halves("dh", "dl", dec.rng); js_int("eerr", ec_get_error(&enc)); js_int("derr", ec_get_error(&dec));
   js_int("etell", ec_tell(&enc)); js_int("dtell", ec_tell(&dec));
   put_call("qc", &g_call[0], 0); put_call("qf", &g_call[1], 1); put_call("qz", &g_call[2], 2);
   put_call("uc", &g_call[3], 3); put_call("uf", &g_call[4], 4); put_call("uz", &g_call[5], 5);
   js_close();
   free(d);
   (void)c;
}

/* ------------------------------------------------------------------------------------------------ situ */
static void put_state(const char *key, const celt_glog *base, int n)
{
   int i; printf(",\"%s\":[", key);
   if (base) for (i = 0; i < n; i++) printf(i ? ",%d" : "%d", (int)base[i]);
   printf("]");
}
static void snap(int *dst, const celt_glog *base, int n) { int i; for (i = 0; i < n; i++) dst[i] = base ? (int)base[i] : 0; }
static void put_snap(const char *key, const int *a, int n, int have) { if (have) js_arr_i(key, a, n); else printf(",\"%s\":[]", key); }

static void situ_exec(char *line, long *ix)
{
   static unsigned char buf[1300], bufb[1300];
   static opus_res in[2 * 960], out[2 * 960];
   char cmd[400]; int h[12], nh, fr[4 * 80], n, k, i, C, CC, LM, start, cx, vbr, N, end;
   char *s1; hx_rng r; CELTEncoder *ce; CELTDecoder *da, *db; double ph = 0, amp = 0.3;
   celt_glog *ebase = NULL, *abase = NULL, *bbase = NULL;
   static int eS0[8 * NBE], aS0[8 * NBE], bS0[8 * NBE];
   strncpy(cmd, line, sizeof cmd - 1); cmd[sizeof cmd - 1] = 0; { char *nl = strchr(cmd, '\n'); if (nl) *nl = 0; }
   s1 = next_section(line);
   nh = read_ints(line + 1, h, 12); n = s1 ? read_ints(s1, fr, 4 * 80) / 4 : 0;
   if (nh < 7 || n < 1) { js_open("bad"); js_str("why", "parse"); js_close(); return; }
   r.s = (uint64_t)h[0]; C = h[1]; CC = h[2]; LM = h[3]; start = h[4]; cx = h[5]; vbr = h[6]; end = nh > 7 ? h[7] : 21;
   if (C < 1 || C > 2 || CC < C || CC > 2 || LM < 0 || LM > 3 || (start != 0 && start != 17) || end <= start || end > 21 || cx < 0 || cx > 10)
      { js_open("bad"); js_str("why", "args"); js_close(); return; }
   N = 120 << LM;
   ce = (CELTEncoder *)malloc(celt_encoder_get_size(CC)); da = (CELTDecoder *)malloc(celt_decoder_get_size(2)); db = (CELTDecoder *)malloc(celt_decoder_get_size(2));
   if (!ce || !da || !db || celt_encoder_init(ce, 48000, CC, opus_select_arch()) != OPUS_OK || celt_decoder_init(da, 48000, 2) != OPUS_OK || celt_decoder_init(db, 48000, 2) != OPUS_OK)
      { js_open("bad"); js_str("why", "create"); js_close(); free(ce); free(da); free(db); return; }
   opus_custom_encoder_ctl(ce, CELT_SET_SIGNALLING(0)); opus_custom_encoder_ctl(ce, CELT_SET_CHANNELS(C));
   opus_custom_encoder_ctl(ce, CELT_SET_START_BAND(start)); opus_custom_encoder_ctl(ce, CELT_SET_END_BAND(end));
   opus_custom_encoder_ctl(ce, OPUS_SET_COMPLEXITY(cx)); opus_custom_encoder_ctl(ce, OPUS_SET_VBR(vbr ? 1 : 0));
   if (vbr) opus_custom_encoder_ctl(ce, OPUS_SET_BITRATE(vbr * 1000)); else opus_custom_encoder_ctl(ce, OPUS_SET_BITRATE(OPUS_BITRATE_MAX));
   if (nh > 8 && h[8]) opus_custom_encoder_ctl(ce, OPUS_SET_PACKET_LOSS_PERC(h[8]));
   opus_custom_decoder_ctl(da, CELT_SET_CHANNELS(C)); opus_custom_decoder_ctl(da, CELT_SET_START_BAND(start)); opus_custom_decoder_ctl(da, CELT_SET_END_BAND(end));
   opus_custom_decoder_ctl(db, CELT_SET_CHANNELS(C)); opus_custom_decoder_ctl(db, CELT_SET_START_BAND(start)); opus_custom_decoder_ctl(db, CELT_SET_END_BAND(end));
   for (k = 0; k < n; k++) {
      int len = fr[4 * k], pre = fr[4 * k + 1], sig = fr[4 * k + 2], lossB = fr[4 * k + 3], er, dra, drb = 0, lenb, aL0, aL1, bL0, bL1, bK0, haveE, haveA, haveB;
      opus_uint32 erng = 0, arng = 0; ec_enc enc; ec_dec dec; unsigned char *d;
      if (len < 2) len = 2;
      if (len > 1275) len = 1275;
      if (pre < 0 || start == 0) pre = 0;
      if (pre > 8 * len - 1) pre = 8 * len - 1;
      if (sig == 5) amp *= 0.5; else if (sig == 6) amp = amp * 1.6 > 0.9 ? 0.9 : amp * 1.6;
      for (i = 0; i < N; i++) {
         double a = 0, b = 0;
         ph += 2 * 3.14159265358979 * 330.0 / 48000;
         if (sig == 1) { a = amp * 2 * (hx_unit(&r) - 0.5); b = amp * 2 * (hx_unit(&r) - 0.5); }
         else if (sig == 2 || sig == 5 || sig == 6) { a = amp * (sin(ph) + 0.5 * sin(2.3 * ph) + 0.3 * sin(7.1 * ph + 1)) / 1.8 + 0.002 * (hx_unit(&r) - 0.5); b = 0.7 * a + 0.1 * amp * sin(11 * ph); }
         else if (sig == 3) { a = (i == N / 2 || i == N / 2 + 1) ? 0.9 : 0.001 * (hx_unit(&r) - 0.5); b = -a; }
         else if (sig == 4) { a = 0.0004 * (hx_unit(&r) - 0.5); b = 0.0004 * (hx_unit(&r) - 0.5); }
         else if (sig == 7) { a = 0.95 * ((i / 7) & 1 ? 1 : -1); b = a; }
         if (CC == 2) { in[2 * i] = TORES(a); in[2 * i + 1] = TORES(b); } else in[i] = TORES(a);
      }
      haveE = ebase != NULL; haveA = abase != NULL; haveB = bbase != NULL;
      snap(eS0, ebase, 4 * CC * NBE); snap(aS0, abase, 8 * NBE); snap(bS0, bbase, 8 * NBE);
      aL0 = opus_verif_celt_decoder_peek(da, 0); bL0 = opus_verif_celt_decoder_peek(db, 0); bK0 = opus_verif_celt_decoder_peek(db, 1);
      memset(buf, 0, sizeof buf);
      calls_reset(0, 5);
      hx_arm(30);
      if (pre > 0) {
         ec_enc_init(&enc, buf, len);
         for (i = 0; i < pre; i++) ec_enc_bit_logp(&enc, 0, 1);
         er = celt_encode_with_ec(ce, in, N, NULL, len, &enc);
      } else
         er = celt_encode_with_ec(ce, in, N, buf, len, NULL);
      hx_disarm();
      if (g_call[0].n) ebase = g_encbase;
      opus_custom_encoder_ctl(ce, OPUS_GET_FINAL_RANGE(&erng));
      if (er > 0 && pre == 0) len = er;
      /* decoder A: every packet */
      d = hx_exact(buf, len);
      hx_arm(30);
      if (pre > 0) {
         ec_dec_init(&dec, d, len);
         for (i = 0; i < pre; i++) (void)ec_dec_bit_logp(&dec, 1);
         dra = celt_decode_with_ec(da, d, len, out, N, &dec, 0);
      } else
         dra = celt_decode_with_ec(da, d, len, out, N, NULL, 0);
      hx_disarm();
      free(d);
      if (g_call[3].n) abase = g_decbase;
      opus_custom_decoder_ctl(da, OPUS_GET_FINAL_RANGE(&arng));
      aL1 = opus_verif_celt_decoder_peek(da, 0);
      js_open("pkt"); js_str("m", "situ"); js_str("cmd", cmd); js_int("ix", (*ix)++); js_int("f", k); js_int("C", C); js_int("CC", CC); js_int("LM", LM); js_int("start", start); js_int("end", end);
      js_int("len", len); js_int("pre", pre); js_int("sig", sig); js_int("er", er); js_int("dr", dra);
      js_halves("eh", "el", erng); js_halves("dh", "dl", arng); js_int("eerr", 0); js_int("derr", 0);
      js_int("hasS", (haveE && haveA) ? 1 : 0);
      put_snap("eS0", eS0, 4 * CC * NBE, haveE && haveA); put_state("eS1", (haveE && haveA) ? ebase : NULL, 4 * CC * NBE);
      put_snap("dS0", aS0, 8 * NBE, haveE && haveA); put_state("dS1", (haveE && haveA) ? abase : NULL, 8 * NBE);
      js_int("L0", aL0); js_int("L1", aL1); js_int("K0", opus_verif_celt_decoder_peek(da, 1));
      put_call("qc", &g_call[0], 0); put_call("qf", &g_call[1], 1); put_call("qz", &g_call[2], 2);
      put_call("uc", &g_call[3], 3); put_call("uf", &g_call[4], 4); put_call("uz", &g_call[5], 5);
      js_close();
      /* decoder B: lossB 0 gets the packet, 1 loses it, 2 gets it with damaged bytes, 3 gets random bytes of another length */
      calls_reset(3, 5);
      lenb = len;
      memcpy(bufb, buf, sizeof bufb);
      if (lossB == 2) { int nf = 1 + (int)hx_u(&r, 4); for (i = 0; i < nf; i++) bufb[hx_u(&r, (uint32_t)len)] ^= (unsigned char)(1u << hx_u(&r, 8)); }
      if (lossB == 3) { lenb = 2 + (int)hx_u(&r, 60); for (i = 0; i < lenb; i++) bufb[i] = (unsigned char)hx_u(&r, 256); }
      hx_arm(30);
      if (lossB == 1) drb = celt_decode_with_ec(db, NULL, 0, out, N, NULL, 0);
      else {
         d = hx_exact(bufb, lenb);
         if (pre > 0 && lossB != 3) {
            ec_dec_init(&dec, d, lenb);
            for (i = 0; i < pre; i++) (void)ec_dec_bit_logp(&dec, 1);
            drb = celt_decode_with_ec(db, d, lenb, out, N, &dec, 0);
         } else
            drb = celt_decode_with_ec(db, d, lenb, out, N, NULL, 0);
         free(d);
      }
      hx_disarm();
      if (g_call[3].n) bbase = g_decbase;
      bL1 = opus_verif_celt_decoder_peek(db, 0);
      js_open("decB"); js_str("cmd", cmd); js_int("ix", (*ix)++); js_int("f", k); js_int("C", C); js_int("LM", LM); js_int("start", start); js_int("end", end);
      js_int("len", lenb); js_int("how", lossB); js_int("DC", 2); js_int("dr", drb); js_int("N", N);
      js_int("hasS", haveB ? 1 : 0);
      put_snap("dS0", bS0, 8 * NBE, haveB); put_state("dS1", haveB ? bbase : NULL, 8 * NBE);
      js_int("L0", bL0); js_int("L1", bL1); js_int("K0", bK0);
      put_call("uc", &g_call[3], 3); put_call("uf", &g_call[4], 4); put_call("uz", &g_call[5], 5);
      js_close();
   }
   free(ce); free(da); free(db);
}

int main(int argc, char **argv)
{
   static char line[20000]; int err = 0; long ix = 0;
   hx_watchdog_init();
   g_mode = opus_custom_mode_create(48000, 960, &err);
   if (!g_mode) { fprintf(stderr, "hx_energy: no mode\n"); return 2; }
   if (argc < 2) { fprintf(stderr, "usage: hx_energy tables|cases|situ\n"); return 2; }
   if (!strcmp(argv[1], "tables")) { cmd_tables(); return 0; }
   while (fgets(line, sizeof line, stdin)) {
      if (line[0] == 'Q' && !strcmp(argv[1], "cases")) case_exec(line, ix++);
      else if (line[0] == 'X' && !strcmp(argv[1], "situ")) situ_exec(line, &ix);
      fflush(stdout);
   }
   return 0;
}
