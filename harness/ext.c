/* hx_ext: drives the packet-extension API (opus_packet_extensions_parse/_parse_ext/_count/
   _count_ext/_generate and the OpusExtensionIterator calls) and records the raw bytes and
   everything the library returned (modules Ext/ExtIter, property C16).  The harness judges
   nothing; TLC does (spec/ExtTrace.tla).

   Events (NDJSON, one per line):
   parse  d n | cnt r c ex sr | cx nfe px pc pe psr | ir ir2 ie
   iter   d n ops=[[op,arg,ret,id,frame,at,len]..]     op 0 next 1 reset 2 set_frame_max 3 find 4 next(NULL)
   gen    n pad list=[[id,frame,[payload]]..] S cap r rd out | rx ox | rl cl rdl capm padm rm cm
   rt     like gen, with d: the list is what opus_packet_extensions_parse reported for (d, n)
   rp     x (generator state, for replay) in=[{cat,m,pad}..] b e r m pad: see emit_rp
   Offsets ("at") are relative to the start of the data buffer. */
#include "hx_common.h"
#include "opus.h"
#include "opus_private.h"

/* exact-size heap copy; for n == 0 a pointer one past a 1-byte block (any read is an ASan report) */
typedef struct { unsigned char *base, *p; } xin;
static xin xin_new(const unsigned char *src, int n)
{
   xin x; x.base = (unsigned char *)malloc(n > 0 ? (size_t)n : 1);
   if (n > 0) { memcpy(x.base, src, (size_t)n); x.p = x.base; } else x.p = x.base + 1;
   return x;
}
static void xin_free(xin *x) { free(x->base); x->base = x->p = NULL; }

static void js_quads(const char *key, const opus_extension_data *e, int n, const unsigned char *d)
{
   int i; printf(",\"%s\":[", key);
   for (i = 0; i < n; i++)
      printf("%s[%d,%d,%ld,%d]", i ? "," : "", e[i].id, e[i].frame, e[i].data ? (long)(e[i].data - d) : -1L, (int)e[i].len);
   printf("]");
}
static void js_arr32(const char *key, const opus_int32 *a, int n)
{
   int i; printf(",\"%s\":[", key);
   for (i = 0; i < n; i++) printf(i ? ",%d" : "%d", (int)a[i]);
   printf("]");
}
static opus_extension_data *ext_arr(int n)
{
   opus_extension_data *e = (opus_extension_data *)malloc((size_t)(n > 0 ? n : 0) * sizeof *e + (n > 0 ? 0 : 0));
   int i;
   for (i = 0; i < n; i++) { e[i].id = -9; e[i].frame = -9; e[i].data = NULL; e[i].len = -9; }
   return e;
}

/* ------------------------------------------------------------------ parse side */
static void emit_parse(const unsigned char *d0, int len, int n)
{
   xin in = xin_new(d0, len);
   const unsigned char *d = in.p;
   opus_int32 cnt, nb, r, sr = 0, cx, px, pc, psr = 0;
   opus_extension_data *ex, *pe;
   opus_int32 *nfe;
   js_open("parse"); js_arr_b("d", d, len); js_int("n", n);
   cnt = opus_packet_extensions_count(d, len, n);
   js_int("cnt", cnt);
   ex = ext_arr(cnt); nb = cnt;
   r = opus_packet_extensions_parse(d, len, ex, &nb, n);
   js_int("r", r); js_int("c", nb); js_quads("ex", ex, nb < cnt ? nb : cnt, d);
   free(ex);
   if (cnt > 0) {    /* an output array one entry too short */
      ex = ext_arr(cnt - 1); nb = cnt - 1;
      sr = opus_packet_extensions_parse(d, len, ex, &nb, n);
      free(ex);
   }
   js_int("sr", sr);
   nfe = (opus_int32 *)malloc((size_t)(n > 0 ? n : 0) * sizeof *nfe);
   cx = opus_packet_extensions_count_ext(d, len, nfe, n);
   js_int("cx", cx); js_arr32("nfe", nfe, n);
   pe = ext_arr(cx); pc = cx;
   px = opus_packet_extensions_parse_ext(d, len, pe, &pc, nfe, n);
   js_int("px", px); js_int("pc", pc); js_quads("pe", pe, cx, d);
   free(pe);
   if (cx > 0) {
      pe = ext_arr(cx - 1); pc = cx - 1;
      psr = opus_packet_extensions_parse_ext(d, len, pe, &pc, nfe, n);
      free(pe);
   }
   js_int("psr", psr);
   free(nfe);
   {  /* a full run of the iterator */
      OpusExtensionIterator it; opus_extension_data e; int ret, k = 0, capn = cnt + 4;
      opus_extension_data *ie = ext_arr(capn);
      opus_extension_iterator_init(&it, d, len, n);
      while ((ret = opus_extension_iterator_next(&it, &e)) > 0 && k < capn) ie[k++] = e;
      js_int("ir", ret); js_int("ir2", opus_extension_iterator_next(&it, &e)); js_quads("ie", ie, k, d);
      free(ie);
   }
   js_close();
   xin_free(&in);
}

/* ------------------------------------------------------------------ iterator call sequences */
#define MAXOPS 96
static void emit_iter(const unsigned char *d0, int len, int n, const int (*ops)[2], int nops)
{
   xin in = xin_new(d0, len);
   const unsigned char *d = in.p;
   OpusExtensionIterator it; int i;
   js_open("iter"); js_arr_b("d", d, len); js_int("n", n);
   opus_extension_iterator_init(&it, d, len, n);
   printf(",\"ops\":[");
   for (i = 0; i < nops; i++) {
      opus_extension_data e; int ret = 0, op = ops[i][0], arg = ops[i][1];
      e.id = -1; e.frame = -1; e.data = NULL; e.len = -1;
      if (op == 0) ret = opus_extension_iterator_next(&it, &e);
      else if (op == 1) opus_extension_iterator_reset(&it);
      else if (op == 2) opus_extension_iterator_set_frame_max(&it, arg);
      else if (op == 3) ret = opus_extension_iterator_find(&it, &e, arg);
      else ret = opus_extension_iterator_next(&it, NULL);
      if (ret == 1 && op != 4) printf("%s[%d,%d,%d,%d,%d,%ld,%d]", i ? "," : "", op, arg, ret, e.id, e.frame, (long)(e.data - d), (int)e.len);
      else printf("%s[%d,%d,%d,-1,-1,-1,-1]", i ? "," : "", op, arg, ret);
   }
   printf("]");
   js_close();
   xin_free(&in);
}

static void rand_iter(hx_rng *r, const unsigned char *d, int len, int n)
{
   int ops[MAXOPS][2]; int nops = hx_range(r, 3, 10) + (hx_u(r, 3) ? 0 : hx_range(r, 0, 40)), i;
   if (nops > MAXOPS) nops = MAXOPS;
   for (i = 0; i < nops; i++) {
      int p = hx_u(r, 100);
      ops[i][1] = 0;
      if (p < 58) ops[i][0] = 0;
      else if (p < 64) ops[i][0] = 4;
      else if (p < 74) ops[i][0] = 1;
      else if (p < 88) { ops[i][0] = 2; ops[i][1] = hx_u(r, 8) ? hx_range(r, 0, n + 1) : hx_range(r, -1, 50); }
      else { ops[i][0] = 3; ops[i][1] = (len > 0 && hx_u(r, 4)) ? d[hx_u(r, len)] >> 1 : hx_range(r, 0, 127); }
   }
   emit_iter(d, len, n, ops, nops);
}

/* ------------------------------------------------------------------ generate side */
#define BIGCAP (1 << 30)
static void js_list(const opus_extension_data *l, int nb)
{
   int i, j; printf(",\"list\":[");
   for (i = 0; i < nb; i++) {
      printf("%s[%d,%d,[", i ? "," : "", l[i].id, l[i].frame);
      for (j = 0; j < l[i].len; j++) printf(j ? ",%d" : "%d", l[i].data[j]);
      printf("]]");
   }
   printf("]");
}

/* capm < 0: choose the smaller capacity (and its pad flag) at random; otherwise use capm/padm (replay) */
static int g_capm = -1, g_padm = 0;
static void gen_calls(const opus_extension_data *list, int nb, int n, int extra, int pad, hx_rng *r)
{
   opus_int32 S, cap, ret, rd;
   js_int("n", n); js_int("pad", pad); js_list(list, nb);
   S = opus_packet_extensions_generate(NULL, BIGCAP, list, nb, n, 0);
   js_int("S", S);
   if (S < 0) {      /* refused: the same call with a real buffer */
      hx_buf b = hx_buf_new(256, 0xEE);
      ret = opus_packet_extensions_generate(b.p, 256, list, nb, n, pad);
      js_int("cap", 256); js_int("r", ret); js_int("rd", S); js_int("cl", hx_buf_ok(&b));
      printf(",\"out\":[]");
      hx_buf_free(&b);
      return;
   }
   cap = S + extra;
   {
      xin b;
      b.base = (unsigned char *)malloc(cap > 0 ? (size_t)cap : 1);
      b.p = cap > 0 ? b.base : b.base + 1;
      if (cap > 0) memset(b.base, 0xEE, (size_t)cap);
      ret = opus_packet_extensions_generate(b.p, cap, list, nb, n, pad);
      rd = opus_packet_extensions_generate(NULL, cap, list, nb, n, pad);
      js_int("cap", cap); js_int("r", ret); js_int("rd", rd);
      js_arr_b("out", b.p, ret > 0 ? (ret <= cap ? ret : cap) : 0);
      xin_free(&b);
   }
   if (cap != S) {   /* exact-size buffer, no padding */
      xin b; opus_int32 rx;
      b.base = (unsigned char *)malloc(S > 0 ? (size_t)S : 1);
      b.p = S > 0 ? b.base : b.base + 1;
      if (S > 0) memset(b.base, 0xEE, (size_t)S);
      rx = opus_packet_extensions_generate(b.p, S, list, nb, n, 0);
      js_int("rx", rx); js_arr_b("ox", b.p, rx > 0 ? (rx <= S ? rx : S) : 0);
      xin_free(&b);
   }
   if (S > 0) {      /* one byte less, and some smaller capacity: must be refused, canaries intact */
      hx_buf g = hx_buf_new((size_t)(S - 1), 0xEE);
      opus_int32 capm = (g_capm >= 0 && g_capm < S) ? g_capm : (opus_int32)hx_u(r, (uint32_t)S);
      int padm = g_capm >= 0 ? g_padm : (int)hx_u(r, 2);
      hx_buf h = hx_buf_new((size_t)capm, 0xEE);
      js_int("rl", opus_packet_extensions_generate(g.p, S - 1, list, nb, n, pad)); js_int("cl", hx_buf_ok(&g));
      js_int("rdl", opus_packet_extensions_generate(NULL, S - 1, list, nb, n, pad));
      js_int("capm", capm); js_int("padm", padm);
      js_int("rm", opus_packet_extensions_generate(h.p, capm, list, nb, n, padm)); js_int("cm", hx_buf_ok(&h));
      hx_buf_free(&g); hx_buf_free(&h);
   }
}

static void emit_gen(const opus_extension_data *list, int nb, int n, int extra, int pad, hx_rng *r)
{
   js_open("gen");
   gen_calls(list, nb, n, extra, pad, r);
   js_close();
}

/* parse d, feed what was parsed to the generator (the extension payloads still point into d) */
static void emit_rt(const unsigned char *d0, int len, int n, int extra, int pad, hx_rng *r)
{
   xin in = xin_new(d0, len);
   opus_int32 cnt = opus_packet_extensions_count(in.p, len, n), nb = cnt;
   opus_extension_data *ex = ext_arr(cnt);
   if (opus_packet_extensions_parse(in.p, len, ex, &nb, n) == 0) {
      js_open("rt"); js_arr_b("d", in.p, len);
      gen_calls(ex, nb, n, extra, pad, r);
      js_close();
   }
   free(ex);
   xin_free(&in);
}

/* list construction */
#define MAXLIST 9216
static opus_extension_data g_list[MAXLIST];
static unsigned char *g_pay[MAXLIST];
static int g_nb;
static void list_clear(void) { int i; for (i = 0; i < g_nb; i++) { free(g_pay[i]); g_pay[i] = NULL; } g_nb = 0; }
static void list_add(hx_rng *r, int id, int frame, int len)
{
   int j; unsigned char *p;
   if (g_nb >= MAXLIST) return;
   p = (unsigned char *)malloc(len > 0 ? (size_t)len : 1);
   for (j = 0; j < len; j++) p[j] = (unsigned char)hx_u(r, 256);
   g_pay[g_nb] = p;
   g_list[g_nb].id = id; g_list[g_nb].frame = frame; g_list[g_nb].len = len;
   /* an empty payload: a pointer with no readable byte behind it; NULL only for short ids (the repo's own
      tests do that), because for a long id the library hands it to memcpy (length 0) */
   g_list[g_nb].data = len > 0 ? p : ((id >= 32 || hx_u(r, 2)) ? p + 1 : NULL);
   g_nb++;
}
static void list_shuffle(hx_rng *r)
{
   int i;
   for (i = g_nb - 1; i > 0; i--) {
      int j = (int)hx_u(r, (uint32_t)i + 1); opus_extension_data t = g_list[i]; unsigned char *q = g_pay[i];
      g_list[i] = g_list[j]; g_pay[i] = g_pay[j]; g_list[j] = t; g_pay[j] = q;
   }
}
static const int SHORT_IDS[] = {3, 4, 5, 30, 31};
static const int LONG_IDS[] = {32, 33, 64, 126, 127};
static const int LACE_LENS[] = {0, 1, 2, 254, 255, 256, 509, 510, 511, 764, 765, 766};
static int pick_id(hx_rng *r, int lng)
{
   if (hx_u(r, 5) == 0) return lng ? hx_range(r, 32, 127) : hx_range(r, 3, 31);
   return lng ? hx_pick(r, LONG_IDS, 5) : hx_pick(r, SHORT_IDS, 5);
}
static int pick_len(hx_rng *r, int id, int huge)
{
   unsigned p;
   if (id < 32) return (int)hx_u(r, 2);
   p = hx_u(r, 100);
   if (huge && p < 6) return hx_range(r, 60000, 70000);
   if (huge && p < 12) return hx_range(r, 1000, 6000);
   if (p < 22) return hx_pick(r, LACE_LENS, 12);
   if (p < 24) return 255 * hx_range(r, 1, 5) + hx_range(r, -1, 1);
   return hx_range(r, 0, 12);
}
static int pick_n(hx_rng *r)
{
   unsigned p = hx_u(r, 100);
   if (p < 20) return 1; if (p < 45) return 2; if (p < 65) return 3; if (p < 75) return 4;
   if (p < 80) return 48; if (p < 83) return 47;
   return hx_range(r, 1, 48);
}

/* mode 0 free lists; 1 repeat-eligible patterns; 2 big; 3 illegal arguments */
static int make_list(hx_rng *r, int mode, int huge)
{
   int n = pick_n(r), i, f;
   list_clear();
   if (mode == 0) {
      int nb = hx_u(r, 4) ? hx_range(r, 0, 8) : hx_range(r, 0, 40);
      for (i = 0; i < nb; i++) { int id = pick_id(r, hx_u(r, 2)); list_add(r, id, hx_u(r, n), pick_len(r, id, huge)); }
      if (hx_u(r, 2)) {      /* frame order */
         int a, b; for (a = 0; a < g_nb; a++) for (b = a + 1; b < g_nb; b++) if (g_list[b].frame < g_list[a].frame) {
            opus_extension_data t = g_list[a]; unsigned char *q = g_pay[a]; g_list[a] = g_list[b]; g_pay[a] = g_pay[b]; g_list[b] = t; g_pay[b] = q; }
      }
   } else if (mode == 1) {
      int k = hx_range(r, 1, 4), tid[6], tl[6], f0, layout = hx_u(r, 4), groups = hx_range(r, 1, 2), gi;
      if (n < 2 && hx_u(r, 8)) n = hx_range(r, 2, 5);
      f0 = hx_u(r, 3) ? 0 : (int)hx_u(r, n);
      for (gi = 0; gi < groups; gi++) {
         for (i = 0; i < k; i++) { tid[i] = pick_id(r, hx_u(r, 5) < 2); tl[i] = hx_u(r, 2); }
         for (f = f0; f < n; f++) {
            if (hx_u(r, 12) == 0) list_add(r, pick_id(r, hx_u(r, 2)), f, hx_u(r, 2) ? 0 : 1);           /* something before */
            for (i = 0; i < k; i++) {
               int id = tid[i], l = id < 32 ? tl[i] : pick_len(r, id, huge);
               if (hx_u(r, 25) == 0) { if (hx_u(r, 2)) continue; if (id < 32) l = !l; else id = pick_id(r, 1); }   /* break the pattern */
               list_add(r, id, f, l);
            }
            if (hx_u(r, 10) == 0) { int id = pick_id(r, hx_u(r, 2)); list_add(r, id, f, pick_len(r, id, 0)); }  /* something after */
         }
      }
      if (layout == 1) list_shuffle(r);
      else if (layout == 2) {       /* interleave: stable by position within frame (round robin over frames) */
         int a, b, cntf[48], key[MAXLIST];
         memset(cntf, 0, sizeof cntf);
         for (a = 0; a < g_nb; a++) key[a] = cntf[g_list[a].frame]++ * 64 + g_list[a].frame;
         for (a = 0; a < g_nb; a++) for (b = a + 1; b < g_nb; b++) if (key[b] < key[a]) {
            opus_extension_data t = g_list[a]; unsigned char *q = g_pay[a]; int kk = key[a];
            g_list[a] = g_list[b]; g_pay[a] = g_pay[b]; key[a] = key[b]; g_list[b] = t; g_pay[b] = q; key[b] = kk; }
      } else if (layout == 3 && g_nb > 1) {   /* a few transpositions */
         int t; for (t = 0; t < 2; t++) { int a = hx_u(r, g_nb), b = hx_u(r, g_nb); opus_extension_data e = g_list[a]; unsigned char *q = g_pay[a];
            g_list[a] = g_list[b]; g_pay[a] = g_pay[b]; g_list[b] = e; g_pay[b] = q; }
      }
   } else if (mode == 2) {
      int nb = hx_u(r, 2) ? hx_range(r, 1000, 9000) : hx_range(r, 100, 1000), same = hx_u(r, 2), id0 = pick_id(r, 0);
      for (i = 0; i < nb; i++) {
         int id = same ? id0 : pick_id(r, hx_u(r, 4) == 0);
         list_add(r, id, (int)((long)i * n / nb), id < 32 ? (same ? 0 : (int)hx_u(r, 2)) : hx_range(r, 0, 3));
      }
      if (hx_u(r, 3) == 0) list_shuffle(r);
   } else {
      int nb = hx_range(r, 1, 5), w = hx_u(r, 6), k;
      for (i = 0; i < nb; i++) { int id = pick_id(r, hx_u(r, 2)); list_add(r, id, hx_u(r, n), pick_len(r, id, 0)); }
      k = hx_u(r, g_nb);
      if (w == 0) g_list[k].id = hx_range(r, 0, 2);
      else if (w == 1) g_list[k].id = hx_u(r, 2) ? 128 : hx_range(r, 128, 300);
      else if (w == 2) g_list[k].frame = n + (hx_u(r, 2) ? 0 : hx_range(r, 0, 3));
      else if (w == 3) g_list[k].frame = -1;
      else if (w == 4) { free(g_pay[k]); g_pay[k] = (unsigned char *)malloc(3); g_pay[k][0] = 1; g_pay[k][1] = 2; g_pay[k][2] = 3;
                         g_list[k].id = pick_id(r, 0); g_list[k].data = g_pay[k]; g_list[k].len = hx_range(r, 2, 3); }
      else n = hx_range(r, 49, 60);
   }
   return n;
}

static int pick_extra(hx_rng *r)
{
   unsigned p = hx_u(r, 10);
   if (p < 4) return 0; if (p < 6) return 1; if (p < 8) return hx_range(r, 2, 10);
   return hx_range(r, 11, 600);
}

static void gen_lists(hx_rng *r, int count, int huge)
{
   int it;
   for (it = 0; it < count; it++) {
      unsigned p = hx_u(r, 100); int mode = p < 35 ? 0 : p < 92 ? 1 : 3, n;
      if (huge && hx_u(r, 100) == 0) mode = 2;
      n = make_list(r, mode, huge);
      emit_gen(g_list, g_nb, n, mode == 2 ? (int)hx_u(r, 3) : pick_extra(r), hx_u(r, 3) == 0, r);
   }
   list_clear();
}

/* long lists (up to ~9000 entries) and lists with payloads of 60000..70000 bytes */
static void gen_big(hx_rng *r, int count)
{
   int it;
   for (it = 0; it < count; it++) {
      int n;
      if (it % 2 == 0) n = make_list(r, 2, 1);
      else {
         n = make_list(r, hx_u(r, 2), 1);
         list_add(r, pick_id(r, 1), (int)hx_u(r, (uint32_t)n), hx_range(r, 60000, 70000));
         if (hx_u(r, 2)) list_shuffle(r);
      }
      emit_gen(g_list, g_nb, n, (int)hx_u(r, 3), hx_u(r, 3) == 0, r);
   }
   list_clear();
}

/* ------------------------------------------------------------------ byte-string sources */
static unsigned char g_d[80000];

/* (a) every string over the reduced alphabet of Ext_mc up to length K, ids lifted */
static const unsigned char SIGMA[] = {0, 1, 2, 3, 4, 5, 6, 7, 64, 65, 255};
#define NSIGMA 11
static void lift(hx_rng *r, unsigned char *d, int len)
{
   int ids = hx_range(r, 3, 31), idl = hx_range(r, 32, 127), i;
   for (i = 0; i < len; i++) {
      if (d[i] == 6) d[i] = (unsigned char)(2 * ids); else if (d[i] == 7) d[i] = (unsigned char)(2 * ids + 1);
      else if (d[i] == 64) d[i] = (unsigned char)(2 * idl); else if (d[i] == 65) d[i] = (unsigned char)(2 * idl + 1);
   }
}
static void sigma_all(hx_rng *r, int K, int with_rt, int shard, int nshards)
{
   int len, n, i; long total, x;
   for (len = 0; len <= K; len++) {
      total = 1; for (i = 0; i < len; i++) total *= NSIGMA;
      for (x = 0; x < total; x++) {
         long y = x;
         if (x % nshards != shard) continue;
         for (i = 0; i < len; i++) { g_d[i] = SIGMA[y % NSIGMA]; y /= NSIGMA; }
         if (hx_u(r, 2)) lift(r, g_d, len);
         for (n = 1; n <= 3; n++) {
            emit_parse(g_d, len, n);
            if (with_rt && hx_u(r, 4) == 0) emit_rt(g_d, len, n, pick_extra(r), hx_u(r, 3) == 0, r);
         }
      }
   }
}
static void sigma_sample(hx_rng *r, int Kmin, int Kmax, int count, int what)
{
   int it, i;
   for (it = 0; it < count; it++) {
      int len = hx_range(r, Kmin, Kmax), n = hx_u(r, 10) ? hx_range(r, 1, 3) : hx_range(r, 0, 6);
      for (i = 0; i < len; i++) g_d[i] = SIGMA[hx_u(r, NSIGMA)];
      if (hx_u(r, 2)) lift(r, g_d, len);
      if (what == 0) { emit_parse(g_d, len, n); if (hx_u(r, 3) == 0) emit_rt(g_d, len, n, pick_extra(r), hx_u(r, 3) == 0, r); }
      else rand_iter(r, g_d, len, n);
   }
}

/* (c) fuzzed byte strings, biased towards bytes that have structure */
static int fuzz_fill(hx_rng *r, int *pn)
{
   int len, i, mode = hx_u(r, 4), n = hx_u(r, 12) ? pick_n(r) : 0;
   unsigned q = hx_u(r, 100);
   len = q < 70 ? hx_range(r, 0, 24) : q < 95 ? hx_range(r, 0, 300) : hx_range(r, 0, 3000);
   for (i = 0; i < len; i++) {
      unsigned v = hx_u(r, 256);
      if (mode >= 1 && hx_u(r, 2)) { static const int hv[] = {0, 1, 2, 3, 4, 5, 6, 7, 8, 9, 62, 63, 64, 65, 66, 67, 254, 255, 255, 1, 2, 3, 4, 5}; v = hx_pick(r, hv, 24); }
      if (mode == 2 && hx_u(r, 3) == 0) v = hx_u(r, 48);
      if (mode == 3 && hx_u(r, 2)) v = hx_u(r, 8);
      g_d[i] = (unsigned char)v;
   }
   *pn = n;
   return len;
}
static void fuzz(hx_rng *r, int count, int what)
{
   int it;
   for (it = 0; it < count; it++) {
      int n, len = fuzz_fill(r, &n);
      if (what == 0) { emit_parse(g_d, len, n); if (hx_u(r, 3) == 0) emit_rt(g_d, len, n, pick_extra(r), hx_u(r, 3) == 0, r); }
      else rand_iter(r, g_d, len, n);
   }
}

/* (b') mutate the generator's own output (the hand-modified packets of the repo test, at random):
   insert padding / zero-increment separators / repeat indicators, flip L bits, truncate */
static void genmut(hx_rng *r, int count, int what)
{
   int it;
   for (it = 0; it < count; it++) {
      int n = make_list(r, hx_u(r, 4) ? 1 : 0, 0), len, k, nm = hx_range(r, 0, 3);
      len = opus_packet_extensions_generate(g_d, 4000, g_list, g_nb, n, 0);
      if (len < 0) continue;
      if (hx_u(r, 6) == 0) { int padn = hx_range(r, 1, 40); if (len + padn > 4000) padn = 4000 - len; memmove(g_d + padn, g_d, (size_t)len); memset(g_d, 1, (size_t)padn); len += padn; }
      for (k = 0; k < nm && len < 4000; k++) {
         int pos = (int)hx_u(r, (uint32_t)len + 1), w = hx_u(r, 9);
         if (w == 0) { memmove(g_d + pos + 1, g_d + pos, (size_t)(len - pos)); g_d[pos] = 1; len++; }
         else if (w == 1) { memmove(g_d + pos + 2, g_d + pos, (size_t)(len - pos)); g_d[pos] = 3; g_d[pos + 1] = 0; len += 2; }
         else if (w == 2) { memmove(g_d + pos + 1, g_d + pos, (size_t)(len - pos)); g_d[pos] = (unsigned char)(4 + hx_u(r, 2)); len++; }
         else if (w == 3 && len > 0) { g_d[pos < len ? pos : len - 1] ^= 1; }
         else if (w == 4 && len > 0) { len = pos; }
         else if (w == 5) { g_d[len++] = (unsigned char)(4 + hx_u(r, 2)); if (hx_u(r, 2)) g_d[len++] = (unsigned char)hx_u(r, 256); }
         else if (w == 6) { memmove(g_d + pos + 1, g_d + pos, (size_t)(len - pos)); g_d[pos] = 2; len++; }
         else if (w == 7 && len > 0) { int i; for (i = 0; i < len; i++) if (g_d[i] == 5 && hx_u(r, 2)) g_d[i] = 4; }
         else if (len > 0) { g_d[pos < len ? pos : len - 1] = (unsigned char)hx_u(r, 256); }
      }
      if (hx_u(r, 8) == 0) n = hx_range(r, 1, n < 48 ? n + 1 : 48);
      if (what == 0) { emit_parse(g_d, len, n); if (hx_u(r, 3) == 0) emit_rt(g_d, len, n, pick_extra(r), hx_u(r, 3) == 0, r); }
      else rand_iter(r, g_d, len, n);
   }
   list_clear();
}

/* ------------------------------------------------------------------ repacketizer carriage
   Builds nin code-3 CBR/VBR packets (same TOC), each with its own frames and an extension list in
   its padding, cats them, emits range [b, e) and records: for every input packet its frame count
   and its extension list as parsed; the output packet's framing (frame count, padding offset and
   length as opus_packet_parse_impl reports them) and the output padding bytes.  TLC (ExtTrace)
   parses the output padding with Ext!ParseAll and compares with the renumbered input lists. */
static void emit_rp(hx_rng *r)
{
   static unsigned char pk[8][6000], outb[40000];
   int plen[8], pfr[8], nin, i, j, tot = 0, b, e, ret;
   unsigned char toc;
   OpusRepacketizer *rp;
   char xs[32];
   /* the generator state at entry is logged (as a string: 64 bits) so that the case can be re-executed */
   snprintf(xs, sizeof xs, "%llu", (unsigned long long)r->s);
   nin = hx_range(r, 1, 5);
   toc = (unsigned char)((hx_pick(r, (const int[]){16, 17, 18, 24, 25, 26, 0, 8}, 8)) << 3 | 3);
   rp = opus_repacketizer_create();
   js_open("rp"); js_str("x", xs);
   printf(",\"in\":[");
   for (i = 0; i < nin; i++) {
      int M = hx_range(r, 1, 3), fs = hx_range(r, 1, 6), n, pos = 0, el, k;
      unsigned char ebuf[3000];
      if (tot + M > 12) M = 12 - tot;        /* at most 12 frames (120 ms at 10 ms per frame) */
      if (M < 1) break;
      n = make_list(r, hx_u(r, 2), 0);
      /* restrict frames to < M and payloads to small sizes */
      for (k = 0; k < g_nb; k++) { g_list[k].frame %= M; if (g_list[k].len > 300) g_list[k].len = 300; }
      (void)n;
      el = opus_packet_extensions_generate(ebuf, sizeof ebuf, g_list, g_nb > 10 ? 10 : g_nb, M, 0);
      if (el < 0) el = 0;
      pk[i][pos++] = toc;
      pk[i][pos++] = (unsigned char)(M | (el > 0 ? 0x40 : 0));
      if (el > 0) { int pl = el; while (pl > 254) { pk[i][pos++] = 255; pl -= 254; } pk[i][pos++] = (unsigned char)pl; }
      for (j = 0; j < M * fs; j++) pk[i][pos++] = (unsigned char)hx_u(r, 256);
      if (el > 0) { memcpy(pk[i] + pos, ebuf, (size_t)el); pos += el; }
      plen[i] = pos; pfr[i] = M;
      ret = opus_repacketizer_cat(rp, pk[i], pos);
      if (ret == 0) tot += M;               /* a refused packet adds no frames (recorded with its cat value) */
      {  /* what the parser says this input carries */
         const unsigned char *pad = NULL; opus_int32 padlen = 0; opus_int16 sz[48]; unsigned char t; int po;
         int c = opus_packet_parse_impl(pk[i], pos, 0, &t, NULL, sz, &po, NULL, &pad, &padlen);
         printf("%s{\"cat\":%d,\"m\":%d,\"pad\":", i ? "," : "", ret, c);
         printf("["); for (j = 0; j < padlen; j++) printf(j ? ",%d" : "%d", pad[j]); printf("]}");
      }
      list_clear();
   }
   printf("]");
   b = (int)hx_u(r, (uint32_t)tot); e = hx_range(r, b + 1, tot);
   ret = opus_repacketizer_out_range(rp, b, e, outb, sizeof outb);
   js_int("b", b); js_int("e", e); js_int("r", ret);
   if (ret > 0) {
      const unsigned char *pad = NULL; opus_int32 padlen = 0; opus_int16 sz[48]; unsigned char t; int po;
      int c = opus_packet_parse_impl(outb, ret, 0, &t, NULL, sz, &po, NULL, &pad, &padlen);
      js_int("m", c); js_arr_b("pad", pad, padlen > 0 ? padlen : 0);
   }
   js_close();
   (void)plen; (void)pfr;
   opus_repacketizer_destroy(rp);
}

/* ------------------------------------------------------------------ replay (events on stdin) */
typedef struct jnode { int isarr; long v; int n; struct jnode **k; } jnode;
static jnode *j_parse(const char **pp)
{
   const char *p = *pp; jnode *x = (jnode *)calloc(1, sizeof *x);
   while (*p == ' ') p++;
   if (*p == '[') {
      int cap = 0; x->isarr = 1; p++;
      while (*p == ' ') p++;
      while (*p && *p != ']') {
         jnode *c = j_parse(&p);
         if (x->n == cap) { cap = cap ? 2 * cap : 8; x->k = (jnode **)realloc(x->k, (size_t)cap * sizeof *x->k); }
         x->k[x->n++] = c;
         while (*p == ' ' || *p == ',') p++;
      }
      if (*p == ']') p++;
   } else { char *q; x->v = strtol(p, &q, 10); p = q; }
   *pp = p; return x;
}
static void j_free(jnode *x) { int i; if (!x) return; for (i = 0; i < x->n; i++) j_free(x->k[i]); free(x->k); free(x); }
static jnode *j_key(const char *line, const char *key)
{
   char pat[32]; const char *p; snprintf(pat, sizeof pat, ",\"%s\":", key);
   p = strstr(line, pat); if (!p) return NULL; p += strlen(pat); return j_parse(&p);
}
static long j_int(const char *line, const char *key, long dflt)
{
   jnode *x = j_key(line, key); long v = dflt; if (x && !x->isarr) v = x->v; j_free(x); return v;
}
static void replay(void)
{
   char *line = NULL; size_t cap = 0; hx_rng r; r.s = 1;
   while (getline(&line, &cap, stdin) > 0) {
      int n = (int)j_int(line, "n", 1), i, j;
      if (strstr(line, "\"k\":\"parse\"") || strstr(line, "\"k\":\"iter\"") || strstr(line, "\"k\":\"rt\"")) {
         jnode *d = j_key(line, "d"); int len = d ? d->n : 0;
         unsigned char *buf = (unsigned char *)malloc((size_t)len + 1);
         for (i = 0; i < len; i++) buf[i] = (unsigned char)d->k[i]->v;
         if (strstr(line, "\"k\":\"parse\"")) emit_parse(buf, len, n);
         else if (strstr(line, "\"k\":\"rt\"")) {
            long S = j_int(line, "S", 0), c = j_int(line, "cap", 0);
            g_capm = (int)j_int(line, "capm", -1); g_padm = (int)j_int(line, "padm", 0);
            emit_rt(buf, len, n, (int)(c > S ? c - S : 0), (int)j_int(line, "pad", 0), &r);
            g_capm = -1;
         } else {
            jnode *o = j_key(line, "ops"); int ops[MAXOPS][2], nops = o ? o->n : 0;
            if (nops > MAXOPS) nops = MAXOPS;
            for (i = 0; i < nops; i++) { ops[i][0] = (int)o->k[i]->k[0]->v; ops[i][1] = (int)o->k[i]->k[1]->v; }
            emit_iter(buf, len, n, ops, nops);
            j_free(o);
         }
         free(buf); j_free(d);
      } else if (strstr(line, "\"k\":\"rp\"")) {
         const char *x = strstr(line, ",\"x\":\"");
         if (x) { hx_rng q; q.s = strtoull(x + 6, NULL, 10); emit_rp(&q); }
      } else if (strstr(line, "\"k\":\"gen\"")) {
         jnode *l = j_key(line, "list"); long S = j_int(line, "S", 0), c = j_int(line, "cap", 0);
         list_clear();
         for (i = 0; l && i < l->n && i < MAXLIST; i++) {
            jnode *e = l->k[i]; int pl = e->k[2]->n;
            list_add(&r, (int)e->k[0]->v, (int)e->k[1]->v, pl);
            for (j = 0; j < pl; j++) g_pay[g_nb - 1][j] = (unsigned char)e->k[2]->k[j]->v;
         }
         g_capm = (int)j_int(line, "capm", -1); g_padm = (int)j_int(line, "padm", 0);
         emit_gen(g_list, g_nb, n, (int)(S >= 0 && c > S ? c - S : 0), (int)j_int(line, "pad", 0), &r);
         g_capm = -1;
         list_clear(); j_free(l);
      }
   }
   free(line);
}

int main(int argc, char **argv)
{
   hx_rng r; const char *cmd = argc > 1 ? argv[1] : "";
   int a = argc > 3 ? atoi(argv[3]) : 1000, b = argc > 4 ? atoi(argv[4]) : 0, i;
   int shard = argc > 5 ? atoi(argv[5]) : 0, nshards = argc > 6 ? atoi(argv[6]) : 1;
   r.s = argc > 2 ? strtoull(argv[2], NULL, 10) : 1;
   hx_watchdog_init(); hx_arm(3000);
   if (!strcmp(cmd, "sigma")) sigma_all(&r, a, b, shard, nshards > 0 ? nshards : 1);   /* a = K, b = with round trips */
   else if (!strcmp(cmd, "sigmas")) sigma_sample(&r, 5, 9, a, 0);
   else if (!strcmp(cmd, "sigmai")) sigma_sample(&r, 0, 9, a, 1);
   else if (!strcmp(cmd, "fuzz")) fuzz(&r, a, 0);
   else if (!strcmp(cmd, "fuzzi")) fuzz(&r, a, 1);
   else if (!strcmp(cmd, "genmut")) genmut(&r, a, 0);
   else if (!strcmp(cmd, "genmuti")) genmut(&r, a, 1);
   else if (!strcmp(cmd, "lists")) gen_lists(&r, a, b);                  /* b = allow huge payloads / long lists */
   else if (!strcmp(cmd, "big")) gen_big(&r, a);
   else if (!strcmp(cmd, "rp")) for (i = 0; i < a; i++) emit_rp(&r);
   else if (!strcmp(cmd, "replay")) replay();
   else { fprintf(stderr, "usage: hx_ext sigma|sigmas|sigmai|fuzz|fuzzi|genmut|genmuti|lists|big|rp|replay seed a [b [shard nshards]]\n"); return 2; }
   hx_disarm();
   return 0;
}
