/* hx_framehdr: conformance driver for module FrameHdr (growth module G02).
   The ORDER of the symbols is never decided here: every packet is written op by op from a plan that TLC
   computed from the model (spec/FrameHdr.tla), with the library's own range encoder; it is then decoded by
   the real decoders and everything observable is recorded.  TLC (spec/FrameHdrTrace.tla) judges.

   stdin:
     T tid n e1 .. en                                   inverse-CDF table tid, as the MODEL states it
     C id len LM C start end pre seed | hdr | ops | vals   one MDCT-layer frame (celt_decode_with_ec)
     N fsdec chdec                                      new speech-layer execution: fresh OpusDecoder
     S id fs ms nch seed | ops | vals                   one speech-layer packet (opus_decode: normal, FEC twin, PLC twin)
     A start end C LM total                             clt_compute_allocation reservations (encode side, probes)
     E id LM C start end complexity seed lfe | len pre sig ...   a run of frames through the real MDCT-layer ENCODER (celt_encode_with_ec,
                                                        pre one-bit symbols in front, exactly len bytes) and the real decoder
     O id fs ch app bitrate fec loss dur2 mode seed n   a run of n packets through the real Opus encoder in the speech or hybrid mode
                                                        (dur2 = packet duration in half ms, mode 1000/1001) and the real decoder
   ops are groups of four integers <<kind, p, q, v>>, see FrameHdr.tla.  */
#ifdef HAVE_CONFIG_H
#include "config.h"
#endif
#include "hx_common.h"
#include "opus.h"
#include "opus_private.h"
#include "opus_custom.h"
#include "celt.h"
#include "modes.h"
#include "entenc.h"
#include "entdec.h"
#include "laplace.h"
#include "rate.h"
#include "bands.h"
#include "quant_bands.h"
#include "main.h"
#include "tables.h"
#include "cpu_support.h"

extern int opus_verif_celt_decoder_peek(const CELTDecoder *st, int field);
extern opus_int32 opus_verif_celt_encoder_peek(const CELTEncoder *st, int field);

#define MAXOPS 4000
#define MAXT 16
static unsigned char g_tbl[MAXT][64]; static int g_tbln[MAXT];
static int g_ops[MAXOPS * 4], g_nops, g_vals[MAXOPS], g_nvals, g_hdr[400], g_nhdr, g_head[16], g_nhead;

static int read_ints(char *s, int *out, int max)
{
   int n = 0; char *q = s;
   while (*q && n < max) {
      while (*q == ' ' || *q == '\t' || *q == '\n' || *q == '\r') q++;
      if (!*q || *q == '|') break;
      out[n++] = (int)strtol(q, &q, 10);
   }
   return n;
}
static char *next_section(char *s) { char *b = strchr(s, '|'); return b ? b + 1 : s + strlen(s); }

static void js_halves(const char *kh, const char *kl, opus_uint32 v) { js_int(kh, (long)(v >> 16)); js_int(kl, (long)(v & 0xFFFF)); }

/* ---- op validation: the harness refuses what the library primitives do not define ---- */
static int op_ok(const int *op)
{
   switch (op[0]) {
   case 1: return op[1] >= 1 && op[1] <= 15 && (op[3] == 0 || op[3] == 1);
   case 2: return op[2] >= 1 && op[2] < MAXT && g_tbln[op[2]] > 0 && op[3] >= 0 && op[3] < g_tbln[op[2]] && op[1] >= 1 && op[1] <= 8;
   case 3: return op[1] >= 2 && op[1] <= 256 && op[3] >= 0 && op[3] < op[1];
   case 4: return op[1] >= 1 && op[1] <= 16 && op[3] >= 0 && op[3] < (1 << op[1]);
   case 5: return op[1] >= 1 && op[1] <= 32736 && op[2] >= 0 && op[2] <= 16383 && op[3] >= -200 && op[3] <= 200;
   case 6: return op[1] >= 0 && op[1] <= 121 && op[2] >= 0 && op[2] <= 21 && op[3] >= 0;
   case 7: return op[1] >= 1 && op[1] <= 12000 && op[3] == 0;
   default: return 0;
   }
}

/* ---- speech frame bodies: indices and excitation of one frame, a function of the seed ---- */
static silk_encoder_state g_senc[2];
static opus_int8 g_pulses[MAX_FRAME_LENGTH + 32];

static void senc_setup(silk_encoder_state *s, int fs_kHz, int nb_subfr)
{
   memset(s, 0, sizeof *s);
   s->fs_kHz = fs_kHz; s->nb_subfr = nb_subfr;
   s->subfr_length = 5 * fs_kHz; s->frame_length = nb_subfr * s->subfr_length;
   s->predictLPCOrder = fs_kHz == 16 ? 16 : 10;
   s->psNLSF_CB = fs_kHz == 16 ? &silk_NLSF_CB_WB : &silk_NLSF_CB_NB_MB;
   s->pitch_lag_low_bits_iCDF = fs_kHz == 16 ? silk_uniform8_iCDF : fs_kHz == 12 ? silk_uniform6_iCDF : silk_uniform4_iCDF;
   if (fs_kHz == 8) s->pitch_contour_iCDF = nb_subfr == 4 ? silk_pitch_contour_NB_iCDF : silk_pitch_contour_10_ms_NB_iCDF;
   else s->pitch_contour_iCDF = nb_subfr == 4 ? silk_pitch_contour_iCDF : silk_pitch_contour_10_ms_iCDF;
}

static void body_encode(ec_enc *enc, const int *op, opus_uint32 pseed)
{
   int ch = op[1] / 100, fr = (op[1] / 10) % 10, lbrr = op[1] % 10, cond = op[2] / 10, cls = op[2] % 10, i;
   silk_encoder_state *s = &g_senc[ch > 0];
   SideInfoIndices *ix = lbrr ? &s->indices_LBRR[fr] : &s->indices;
   hx_rng r; int ncont, quiet;
   r.s = ((uint64_t)pseed << 20) ^ (uint64_t)op[3] * 2654435761u ^ (uint64_t)(op[1] * 131 + op[2]);
   memset(ix, 0, sizeof *ix);
   ix->signalType = cls ? 1 + (int)hx_u(&r, 2) : 0;
   ix->quantOffsetType = (opus_int8)hx_u(&r, 2);
   ix->GainsIndices[0] = (opus_int8)(cond == CODE_CONDITIONALLY ? hx_u(&r, 41) : hx_u(&r, 64));
   for (i = 1; i < s->nb_subfr; i++) ix->GainsIndices[i] = (opus_int8)hx_u(&r, 41);
   ix->NLSFIndices[0] = (opus_int8)hx_u(&r, s->psNLSF_CB->nVectors);
   for (i = 0; i < s->predictLPCOrder; i++) ix->NLSFIndices[i + 1] = (opus_int8)(hx_u(&r, 8) ? hx_range(&r, -3, 3) : hx_range(&r, -10, 10));
   ix->NLSFInterpCoef_Q2 = (opus_int8)hx_u(&r, 5);
   if (ix->signalType == TYPE_VOICED) {
      ix->lagIndex = (opus_int16)hx_u(&r, 16 * s->fs_kHz);
      ncont = s->fs_kHz == 8 ? (s->nb_subfr == 4 ? 11 : 3) : (s->nb_subfr == 4 ? 34 : 12);
      ix->contourIndex = (opus_int8)hx_u(&r, ncont);
      ix->PERIndex = (opus_int8)hx_u(&r, 3);
      for (i = 0; i < s->nb_subfr; i++) ix->LTPIndex[i] = (opus_int8)hx_u(&r, 8 << ix->PERIndex);
      ix->LTP_scaleIndex = (opus_int8)(cond == CODE_INDEPENDENTLY ? hx_u(&r, 3) : 0);
   }
   ix->Seed = (opus_int8)hx_u(&r, 4);
   memset(g_pulses, 0, sizeof g_pulses);
   quiet = hx_u(&r, 4) == 0;
   for (i = 0; i < s->frame_length; i++)
      if (!quiet && hx_u(&r, 6) == 0) g_pulses[i] = (opus_int8)hx_range(&r, -3, 3);
   if (!quiet) g_pulses[hx_u(&r, s->frame_length)] = 2;          /* never an all-zero excitation unless quiet */
   silk_encode_indices(s, enc, fr, lbrr, cond);
   silk_encode_pulses(enc, ix->signalType, ix->quantOffsetType, g_pulses, s->frame_length);
}

static void enc_op(ec_enc *enc, const int *op, opus_uint32 pseed)
{
   switch (op[0]) {
   case 1: ec_enc_bit_logp(enc, op[3], op[1]); break;
   case 2: ec_enc_icdf(enc, op[3], g_tbl[op[2]], op[1]); break;
   case 3: ec_enc_uint(enc, op[3], op[1]); break;
   case 4: ec_enc_bits(enc, op[3], op[1]); break;
   case 5: { int v = op[3]; ec_laplace_encode(enc, &v, op[1], op[2]); } break;
   case 6: body_encode(enc, op, pseed); break;
   case 7: { int i; for (i = 0; i < op[1]; i++) ec_enc_bit_logp(enc, 0, 1); } break;
   }
}
static int dec_op(ec_dec *dec, const int *op)
{
   switch (op[0]) {
   case 1: return ec_dec_bit_logp(dec, op[1]);
   case 2: return ec_dec_icdf(dec, g_tbl[op[2]], op[1]);
   case 3: return (int)ec_dec_uint(dec, op[1]);
   case 4: return (int)ec_dec_bits(dec, op[1]);
   case 5: return ec_laplace_decode(dec, op[1], op[2]);
   case 7: { int i, v = 0; for (i = 0; i < op[1]; i++) v += ec_dec_bit_logp(dec, 1); return v; }
   }
   return -999;
}

/* ---- (a) MDCT layer ---- */
static const CELTMode *g_mode;
static CELTDecoder *g_cdec;

static void celt_case(char *line)
{
   /* head: id len LM C start end pre seed */
   char *s1 = next_section(line), *s2 = next_section(s1), *s3 = next_section(s2);
   int id, len, LM, C, start, end, pre, i, nb, ret, ok = 1, err = 0;
   static unsigned char buf[1300]; static opus_res pcm[2 * 960];
   static int sv[MAXOPS], stl[MAXOPS], sfr[MAXOPS], shi[MAXOPS], slo[MAXOPS];
   ec_enc enc; ec_dec dec, sdec; opus_uint32 enc_rng, real_rng = 0, shadow_rng; int enc_tell, enc_err, real_tell;
   hx_rng r; double mx = 0;
   g_nhead = read_ints(line + 1, g_head, 16);
   g_nhdr = read_ints(s1, g_hdr, 400); g_nops = read_ints(s2, g_ops, MAXOPS * 4) / 4; g_nvals = read_ints(s3, g_vals, MAXOPS);
   if (g_nhead < 8) { js_open("bad"); js_str("why", "head"); js_close(); return; }
   id = g_head[0]; len = g_head[1]; LM = g_head[2]; C = g_head[3]; start = g_head[4]; end = g_head[5]; pre = g_head[6]; r.s = (uint64_t)g_head[7];
   nb = end - start;
   if (len < 2 || len > 1275 || LM < 0 || LM > 3 || C < 1 || C > 2 || (start != 0 && start != 17) || end > 21 || nb < 1 || pre < 0 || pre > 8 * len + 64) ok = 0;
   /* hdr: silence pf period qg tapset transient intra tfsel spread trim bits acr skip irsv drsv nb tfres[nb] offsets[nb] coarse[nb*C] */
   if (ok && (g_nhdr != 16 + 2 * nb + nb * C || g_hdr[15] != nb)) ok = 0;
   /* the symbols in front of the frame are the first op, <<7, pre, 0, 0>> */
   if (ok && pre > 0 && (g_nops < 1 || g_ops[0] != 7 || g_ops[1] != pre)) ok = 0;
   for (i = pre > 0; ok && i < g_nops; i++) if (g_ops[4 * i] == 7) ok = 0;
   for (i = 0; ok && i < g_nops; i++) if (!op_ok(g_ops + 4 * i) || g_ops[4 * i] == 6) ok = 0;
   if (ok) { if (g_hdr[8] < 0 || g_hdr[8] > 3 || g_hdr[9] < 0 || g_hdr[9] > 10 || g_hdr[11] < 0 || g_hdr[11] > 8) ok = 0;
             for (i = 0; i < nb; i++) if (g_hdr[16 + i] < -3 || g_hdr[16 + i] > 3 || g_hdr[16 + nb + i] < 0 || g_hdr[16 + nb + i] > 100000) ok = 0; }
   if (!ok) { js_open("bad"); js_int("id", id); js_str("why", "args"); js_close(); return; }

   /* write: pre one-bit symbols, then the ops of the plan */
   memset(buf, 0, sizeof buf);
   ec_enc_init(&enc, buf, len);
   for (i = 0; i < g_nops; i++) enc_op(&enc, g_ops + 4 * i, 0);       /* op <<7, pre, 0, 0>> is the one-bit symbols in front of the frame */
   enc_rng = enc.rng; enc_tell = ec_tell(&enc);
   ec_enc_done(&enc);
   enc_err = ec_get_error(&enc);
   { int lo = (int)ec_range_bytes(&enc), hi = len - (int)enc.end_offs - 1;     /* free area: arbitrary bytes */
     for (i = lo; i < hi; i++) buf[i] = (unsigned char)hx_u(&r, 256); }

   /* shadow decode: the same ops read back with the library's range decoder, then the rest of the frame
      exactly as celt_decode_with_ec continues, with the header values of the MODEL */
   {
      unsigned char *d = hx_exact(buf, len);
      int cap[21], offsets[21], pulses[21], fine_quant[21], fine_priority[21], tf_res[21];
      static celt_norm X[2 * 960]; static unsigned char collapse_masks[2 * 21]; static celt_glog oldBandE[2 * 21];
      int intensity = 0, dual_stereo = 0, codedBands, total = len * 8, silence = g_hdr[0], acr = g_hdr[11], M = 1 << LM;
      opus_int32 balance = 0, bits = g_hdr[10]; opus_uint32 seed = 0;
      ec_dec_init(&sdec, d, len);
      for (i = 0; i < g_nops; i++) {
         sv[i] = dec_op(&sdec, g_ops + 4 * i);
         stl[i] = ec_tell(&sdec); sfr[i] = (int)ec_tell_frac(&sdec); shi[i] = (int)(sdec.rng >> 16); slo[i] = (int)(sdec.rng & 0xFFFF);
      }
      if (silence) sdec.nbits_total += total - ec_tell(&sdec);       /* "pretend we've read all the remaining bits" */
      memset(offsets, 0, sizeof offsets); memset(tf_res, 0, sizeof tf_res); memset(X, 0, sizeof X);
      memset(collapse_masks, 0, sizeof collapse_masks); memset(oldBandE, 0, sizeof oldBandE);
      memset(pulses, 0, sizeof pulses); memset(fine_quant, 0, sizeof fine_quant); memset(fine_priority, 0, sizeof fine_priority);
      for (i = 0; i < nb; i++) { tf_res[start + i] = g_hdr[16 + i]; offsets[start + i] = g_hdr[16 + nb + i]; }
      init_caps(g_mode, cap, LM, C);
      codedBands = clt_compute_allocation(g_mode, start, end, offsets, cap, g_hdr[9], &intensity, &dual_stereo, bits, &balance,
                                          pulses, fine_quant, fine_priority, C, LM, &sdec, 0, 0, 0);
      unquant_fine_energy(g_mode, start, end, oldBandE, fine_quant, &sdec, C);
      quant_all_bands(0, g_mode, start, end, X, C == 2 ? X + (120 << LM) : NULL, collapse_masks, NULL, pulses, g_hdr[5] ? M : 0, g_hdr[8],
                      dual_stereo, intensity, tf_res, len * (8 << BITRES) - acr, balance, &sdec, LM, codedBands, &seed, 0, 0, 0);
      if (acr > 0) (void)ec_dec_bits(&sdec, 1);
      unquant_energy_finalise(g_mode, start, end, oldBandE, fine_quant, fine_priority, len * 8 - ec_tell(&sdec), &sdec, C);
      shadow_rng = sdec.rng;
      free(d);
   }

   /* the real decoder */
   {
      unsigned char *d = hx_exact(buf, len); opus_uint32 rr = 0;
      opus_custom_decoder_ctl(g_cdec, OPUS_RESET_STATE);
      opus_custom_decoder_ctl(g_cdec, CELT_SET_CHANNELS(C));
      opus_custom_decoder_ctl(g_cdec, CELT_SET_START_BAND(start));
      opus_custom_decoder_ctl(g_cdec, CELT_SET_END_BAND(end));
      ec_dec_init(&dec, d, len);
      for (i = 0; i < pre; i++) (void)ec_dec_bit_logp(&dec, 1);
      hx_arm(20);
      ret = celt_decode_with_ec(g_cdec, d, len, pcm, 120 << LM, &dec, 0);
      hx_disarm();
      opus_custom_decoder_ctl(g_cdec, OPUS_GET_FINAL_RANGE(&rr)); real_rng = rr;
      real_tell = ec_tell(&dec);
      opus_custom_decoder_ctl(g_cdec, CELT_GET_AND_CLEAR_ERROR(&err));
      for (i = 0; ret > 0 && i < ret * 2; i++) { double a = pcm[i] < 0 ? -(double)pcm[i] : (double)pcm[i]; if (!(a <= mx)) mx = a; }
      free(d);
   }
   js_open("celt"); js_int("id", id); js_int("len", len); js_int("LM", LM); js_int("C", C); js_int("s", start); js_int("e", end); js_int("pre", pre);
   js_arr_i("vals", g_vals, g_nvals); js_arr_i("ops", g_ops, 4 * g_nops); js_arr_i("hd", g_hdr, g_nhdr);
   js_arr_i("sv", sv, g_nops); js_arr_i("st", stl, g_nops); js_arr_i("sf", sfr, g_nops); js_arr_i("sh", shi, g_nops); js_arr_i("sl", slo, g_nops);
   js_int("et", enc_tell); js_halves("eh", "el", enc_rng); js_int("ee", enc_err);
   js_int("ret", ret); js_halves("rh", "rl", real_rng); js_halves("qh", "ql", shadow_rng); js_int("rt", real_tell);
   js_int("pp", opus_verif_celt_decoder_peek(g_cdec, 2));
   /* output level in units of 2^-30 of full scale, saturated (a measurement; 0 = digital silence up to the 1e-30 anti-denormal offset) */
   { double u = mx * 1073741824.0; js_int("mx", u > 2000000000.0 ? 2000000000L : (long)u); }
   js_int("err", err);
   js_close();
}

/* ---- (b) speech layer ---- */
static OpusDecoder *g_dA, *g_dB, *g_dC; static int g_dsize, g_fsdec = 16000, g_chdec = 2;

static void silk_new(char *line)
{
   int a[2]; int n = read_ints(line + 1, a, 2), err;
   if (n == 2 && (a[0] == 8000 || a[0] == 12000 || a[0] == 16000 || a[0] == 24000 || a[0] == 48000) && (a[1] == 1 || a[1] == 2)) { g_fsdec = a[0]; g_chdec = a[1]; }
   free(g_dA); free(g_dB); free(g_dC);
   g_dsize = opus_decoder_get_size(g_chdec);
   g_dA = (OpusDecoder *)malloc(g_dsize); g_dB = (OpusDecoder *)malloc(g_dsize); g_dC = (OpusDecoder *)malloc(g_dsize);
   err = opus_decoder_init(g_dA, g_fsdec, g_chdec);
   js_open("snew"); js_int("fs", g_fsdec); js_int("ch", g_chdec); js_int("r", err); js_close();
}

static void silk_case(char *line)
{
   /* head: id fs ms nch seed */
   char *s1 = next_section(line), *s2 = next_section(s1);
   static unsigned char buf[1400], pkt[1400]; static opus_int16 pa[5760 * 2], pb[5760 * 2], pc[5760 * 2];
   static int rh[MAXOPS], rl[MAXOPS];
   int id, fs, ms, nch, i, ok = 1, nb_subfr, plen, nbytes, nsamp, nr, fr, pr, lb, feq, enc_err, peq, fz = 1;
   ec_enc enc; opus_uint32 seed, rngN = 0, rngF = 0;
   g_nhead = read_ints(line + 1, g_head, 16);
   g_nops = read_ints(s1, g_ops, MAXOPS * 4) / 4; g_nvals = read_ints(s2, g_vals, MAXOPS);
   if (g_nhead < 5 || !g_dA) { js_open("bad"); js_str("why", "head"); js_close(); return; }
   id = g_head[0]; fs = g_head[1]; ms = g_head[2]; nch = g_head[3]; seed = (opus_uint32)g_head[4];
   if (!(fs == 8 || fs == 12 || fs == 16) || !(ms == 10 || ms == 20 || ms == 40 || ms == 60) || nch < 1 || nch > 2) ok = 0;
   for (i = 0; ok && i < g_nops; i++) {
      const int *op = g_ops + 4 * i;
      if (!op_ok(op) || op[0] == 5 || op[0] == 7) ok = 0;
      else if (op[0] == 6 && (op[1] / 100 >= nch || (op[1] / 10) % 10 >= (ms <= 20 ? 1 : ms / 20) || op[1] % 10 > 1 || op[2] / 10 > 2 || op[2] % 10 > 1 ||
                              (op[1] % 10 == 1 && op[2] % 10 != 1))) ok = 0;
   }
   if (!ok) { js_open("bad"); js_int("id", id); js_str("why", "args"); js_close(); return; }
   nb_subfr = ms == 10 ? 2 : 4;
   senc_setup(&g_senc[0], fs, nb_subfr); senc_setup(&g_senc[1], fs, nb_subfr);
   memset(buf, 0, sizeof buf);
   ec_enc_init(&enc, buf, 1275);
   for (i = 0; i < g_nops; i++) { enc_op(&enc, g_ops + 4 * i, seed); rh[i] = (int)(enc.rng >> 16); rl[i] = (int)(enc.rng & 0xFFFF); }
   nbytes = (ec_tell(&enc) + 7) >> 3;
   ec_enc_done(&enc);
   enc_err = ec_get_error(&enc);
   if (nbytes > 1275 || enc_err) { js_open("sbig"); js_int("id", id); js_int("n", nbytes); js_int("ee", enc_err); js_close(); return; }
   pkt[0] = (unsigned char)((((fs == 8 ? 0 : fs == 12 ? 4 : 8) + (ms == 10 ? 0 : ms == 20 ? 1 : ms == 40 ? 2 : 3)) << 3) | ((nch - 1) << 2));
   memcpy(pkt + 1, buf, nbytes); plen = nbytes + 1;
   nsamp = g_fsdec / 1000 * ms;
   {
      unsigned char *d = hx_exact(pkt, plen);
      lb = opus_packet_has_lbrr(d, plen);
      /* twins: the same decoder state asked for the FEC data of this packet (B) and for concealment (C) */
      memcpy(g_dB, g_dA, g_dsize); memcpy(g_dC, g_dA, g_dsize);
      memset(pb, 0, sizeof pb); memset(pc, 0, sizeof pc);
      hx_arm(20);
      fr = opus_decode(g_dB, d, plen, pb, nsamp, 1);
      opus_decoder_ctl(g_dB, OPUS_GET_FINAL_RANGE(&rngF));
      pr = opus_decode(g_dC, NULL, 0, pc, nsamp, 0);
      nr = opus_decode(g_dA, d, plen, pa, 5760, 0);
      hx_disarm();
      opus_decoder_ctl(g_dA, OPUS_GET_FINAL_RANGE(&rngN));
      feq = fr == pr && fr > 0 && memcmp(pb, pc, sizeof(opus_int16) * fr * g_chdec) == 0;
      peq = nr == fr && nr > 0 && memcmp(pa, pb, sizeof(opus_int16) * nr * g_chdec) == 0;
      /* fz: the FEC output is degenerate - every sample is zero or on a rail (the synthetic frames often saturate) */
      for (i = 0; fr > 0 && i < fr * g_chdec; i++) if (pb[i] != 0 && pb[i] != 32767 && pb[i] != -32768) fz = 0;
      free(d);
   }
   js_open("silk"); js_int("id", id); js_int("fs", fs); js_int("ms", ms); js_int("nch", nch); js_int("dfs", g_fsdec); js_int("dch", g_chdec);
   js_arr_i("vals", g_vals, g_nvals); js_arr_i("ops", g_ops, 4 * g_nops); js_arr_i("rh", rh, g_nops); js_arr_i("rl", rl, g_nops);
   js_int("n", plen); js_int("toc", pkt[0]); js_int("b0", pkt[1]); js_int("lb", lb);
   js_int("nr", nr); js_halves("nh", "nl", rngN);
   js_int("fr", fr); js_halves("fh", "fl", rngF); js_int("pr", pr); js_int("feq", feq); js_int("fz", fz); js_int("peq", peq);
   js_close();
}

/* ---- the reservations at the head of clt_compute_allocation, observed from the encoder side:
        intensity stays 0 iff nothing was reserved for it, dual_stereo stays 0 iff its bit was not reserved ---- */
static void alloc_case(char *line)
{
   int a[5], n = read_ints(line + 1, a, 5), i, start, end, C, LM, total, codedBands;
   int cap[21], offsets[21], pulses[21], fine_quant[21], fine_priority[21], intensity, dual_stereo; opus_int32 balance = 0;
   static unsigned char buf[1275]; ec_enc enc; int tf0, tf1;
   if (n < 5) { js_open("bad"); js_str("why", "alloc"); js_close(); return; }
   start = a[0]; end = a[1]; C = a[2]; LM = a[3]; total = a[4];
   if (start < 0 || end > 21 || end <= start || C < 1 || C > 2 || LM < 0 || LM > 3 || total < -64 || total > 1275 * 64) { js_open("bad"); js_str("why", "alloc"); js_close(); return; }
   memset(offsets, 0, sizeof offsets); memset(pulses, 0, sizeof pulses); memset(fine_quant, 0, sizeof fine_quant); memset(fine_priority, 0, sizeof fine_priority);
   init_caps(g_mode, cap, LM, C);
   memset(buf, 0, sizeof buf); ec_enc_init(&enc, buf, 1275);
   intensity = end; dual_stereo = 1;
   tf0 = (int)ec_tell_frac(&enc);
   codedBands = clt_compute_allocation(g_mode, start, end, offsets, cap, 5, &intensity, &dual_stereo, total, &balance,
                                       pulses, fine_quant, fine_priority, C, LM, &enc, 1, end, end);
   tf1 = (int)ec_tell_frac(&enc);
   js_open("alloc"); js_int("s", start); js_int("e", end); js_int("C", C); js_int("LM", LM); js_int("total", total);
   js_int("cb", codedBands); js_int("int", intensity); js_int("ds", dual_stereo); js_int("used", tf1 - tf0);
   { int sum = 0; for (i = start; i < end; i++) sum += pulses[i] + C * (fine_quant[i] << BITRES); js_int("sum", sum); js_int("bal", balance); }
   js_close();
}

/* ---- the real MDCT-layer encoder against the real decoder over starved budgets (encoder-side binding) ---- */
#include <math.h>
static void cenc_exec(char *line)
{
   char *s1 = next_section(line);
   static int fr[3 * 64]; static unsigned char buf[1300]; static opus_res in[2 * 960], out[2 * 960];
   int n, id, LM, C, start, end, cx, k, i, N, lfe; hx_rng r; CELTEncoder *ce; double ph = 0;
   g_nhead = read_ints(line + 1, g_head, 16); n = read_ints(s1, fr, 3 * 64) / 3;
   if (g_nhead < 7) { js_open("bad"); js_str("why", "head"); js_close(); return; }
   id = g_head[0]; LM = g_head[1]; C = g_head[2]; start = g_head[3]; end = g_head[4]; cx = g_head[5]; r.s = (uint64_t)g_head[6]; lfe = g_nhead > 7 ? g_head[7] : 0;
   if (LM < 0 || LM > 3 || C < 1 || C > 2 || (start != 0 && start != 17) || end > 21 || end <= start || cx < 0 || cx > 10 || lfe < 0 || lfe > 1 || (lfe && (C != 1 || start != 0))) { js_open("bad"); js_int("id", id); js_str("why", "args"); js_close(); return; }
   for (k = 0; k < n; k++) if (fr[3 * k] < 2 || fr[3 * k] > 1275 || fr[3 * k + 1] < 0 || fr[3 * k + 1] > 8 * fr[3 * k] - 1 || (start == 0 && fr[3 * k + 1] != 0) || fr[3 * k + 2] < 0 || fr[3 * k + 2] > 4)
      { js_open("bad"); js_int("id", id); js_str("why", "frames"); js_close(); return; }
   N = 120 << LM;
   ce = (CELTEncoder *)malloc(celt_encoder_get_size(2));
   if (!ce || celt_encoder_init(ce, 48000, 2, opus_select_arch()) != OPUS_OK) { js_open("bad"); js_str("why", "encoder"); js_close(); free(ce); return; }
   opus_custom_encoder_ctl(ce, CELT_SET_SIGNALLING(0));
   opus_custom_encoder_ctl(ce, CELT_SET_CHANNELS(C)); opus_custom_encoder_ctl(ce, CELT_SET_START_BAND(start)); opus_custom_encoder_ctl(ce, CELT_SET_END_BAND(end));
   opus_custom_encoder_ctl(ce, OPUS_SET_LFE(lfe));
   opus_custom_encoder_ctl(ce, OPUS_SET_COMPLEXITY(cx)); opus_custom_encoder_ctl(ce, OPUS_SET_VBR(0)); opus_custom_encoder_ctl(ce, OPUS_SET_BITRATE(OPUS_BITRATE_MAX));
   opus_custom_decoder_ctl(g_cdec, OPUS_RESET_STATE);
   opus_custom_decoder_ctl(g_cdec, CELT_SET_CHANNELS(C)); opus_custom_decoder_ctl(g_cdec, CELT_SET_START_BAND(start)); opus_custom_decoder_ctl(g_cdec, CELT_SET_END_BAND(end));
   for (k = 0; k < n; k++) {
      int len = fr[3 * k], pre = fr[3 * k + 1], sig = fr[3 * k + 2], er, dr, ee; opus_uint32 erng = 0, drng = 0; ec_enc enc; ec_dec dec; unsigned char *d;
      for (i = 0; i < N; i++) {
         double a = 0, b = 0;
         if (sig == 1) { a = hx_unit(&r) - 0.5; b = hx_unit(&r) - 0.5; }
         else if (sig == 2) { ph += 2 * 3.14159265358979 * 220.0 / 48000; a = 0.3 * sin(ph) + 0.15 * sin(2 * ph) + 0.1 * sin(3 * ph + 1) + 0.002 * (hx_unit(&r) - 0.5); b = 0.9 * a; }
         else if (sig == 3) { a = (i == N / 2 || i == N / 2 + 1) ? 0.9 : 0.001 * (hx_unit(&r) - 0.5); b = -a; }
         else if (sig == 4) { a = 0.0005 * (hx_unit(&r) - 0.5); b = 0.0005 * (hx_unit(&r) - 0.5); }
         in[2 * i] = (opus_res)a; in[2 * i + 1] = (opus_res)b;
      }
      memset(buf, 0, sizeof buf);
      ec_enc_init(&enc, buf, len);
      for (i = 0; i < pre; i++) ec_enc_bit_logp(&enc, 0, 1);
      hx_arm(20);
      er = celt_encode_with_ec(ce, in, N, NULL, len, &enc);
      hx_disarm();
      ee = ec_get_error(&enc);
      opus_custom_encoder_ctl(ce, OPUS_GET_FINAL_RANGE(&erng));
      d = hx_exact(buf, len);
      ec_dec_init(&dec, d, len);
      for (i = 0; i < pre; i++) (void)ec_dec_bit_logp(&dec, 1);
      hx_arm(20);
      dr = celt_decode_with_ec(g_cdec, d, len, out, N, &dec, 0);
      hx_disarm();
      opus_custom_decoder_ctl(g_cdec, OPUS_GET_FINAL_RANGE(&drng));
      free(d);
      js_open("cenc"); js_int("id", id); js_int("f", k); js_int("len", len); js_int("LM", LM); js_int("C", C); js_int("s", start); js_int("e", end);
      js_int("pre", pre); js_int("sig", sig); js_int("cx", cx); js_int("lfe", lfe); js_int("er", er); js_int("ee", ee); js_halves("eh", "el", erng);
      js_int("dr", dr); js_halves("rh", "rl", drng); js_int("pe", opus_verif_celt_encoder_peek(ce, 5)); js_int("pp", opus_verif_celt_decoder_peek(g_cdec, 2));
      js_int("b0", buf[0]); js_int("b1", buf[1]);
      js_close();
   }
   free(ce);
}

/* ---- the real Opus encoder in the speech / hybrid mode (with in-band FEC) against the real decoder ---- */
static void opus_exec(char *line)
{
   int a[11], n = read_ints(line + 1, a, 11), id, fs, ch, app, br, fec, loss, dur2, mode, np, k, i, err = 0, frame;
   static float in[2 * 2880]; static opus_int16 out[2 * 5760]; static unsigned char pkt[1500];
   OpusEncoder *oe; OpusDecoder *od; hx_rng r; double ph = 0, env = 0;
   if (n < 11) { js_open("bad"); js_str("why", "head"); js_close(); return; }
   id = a[0]; fs = a[1]; ch = a[2]; app = a[3]; br = a[4]; fec = a[5]; loss = a[6]; dur2 = a[7]; mode = a[8]; r.s = (uint64_t)a[9]; np = a[10];
   if (!(fs == 8000 || fs == 12000 || fs == 16000 || fs == 24000 || fs == 48000) || ch < 1 || ch > 2 || (app != 2048 && app != 2049) || br < 6000 || br > 200000 ||
       fec < 0 || fec > 1 || loss < 0 || loss > 100 || !(dur2 == 20 || dur2 == 40 || dur2 == 80 || dur2 == 120) || (mode != MODE_SILK_ONLY && mode != MODE_HYBRID) ||
       (mode == MODE_HYBRID && (fs < 24000 || dur2 > 40)) || np < 1 || np > 200) { js_open("bad"); js_int("id", id); js_str("why", "args"); js_close(); return; }
   frame = fs / 2000 * dur2;
   oe = opus_encoder_create(fs, ch, app, &err); od = opus_decoder_create(fs, ch, &err);
   if (!oe || !od) { js_open("bad"); js_str("why", "create"); js_close(); return; }
   opus_encoder_ctl(oe, OPUS_SET_BITRATE(br)); opus_encoder_ctl(oe, OPUS_SET_INBAND_FEC(fec)); opus_encoder_ctl(oe, OPUS_SET_PACKET_LOSS_PERC(loss));
   opus_encoder_ctl(oe, OPUS_SET_FORCE_MODE(mode));
   if (mode == MODE_SILK_ONLY) opus_encoder_ctl(oe, OPUS_SET_MAX_BANDWIDTH(OPUS_BANDWIDTH_WIDEBAND));
   else opus_encoder_ctl(oe, OPUS_SET_BANDWIDTH(hx_u(&r, 2) ? OPUS_BANDWIDTH_FULLBAND : OPUS_BANDWIDTH_SUPERWIDEBAND));
   for (k = 0; k < np; k++) {
      int len, dr, lb; opus_uint32 erng = 0, drng = 0; unsigned char *d;
      int active = (k % 7) != 5, sidey = (k % 5) != 3;            /* pauses (no voice activity) and stretches without side signal */
      for (i = 0; i < frame; i++) {
         double v, w;
         env = 0.999 * env + 0.001 * (active ? 0.5 + 0.4 * sin(k * 1.3) : 0.0);
         ph += 2 * 3.14159265358979 * (140.0 + 20 * sin(k * 0.37)) / fs;
         v = env * (0.5 * sin(ph) + 0.25 * sin(2 * ph + 0.5) + 0.15 * sin(3 * ph + 1) + 0.1 * sin(5 * ph)) + 0.003 * (hx_unit(&r) - 0.5);
         w = sidey ? env * 0.3 * sin(1.7 * ph + 0.3) + 0.003 * (hx_unit(&r) - 0.5) : 0.0;
         if (ch == 2) { in[2 * i] = (float)(v + w); in[2 * i + 1] = (float)(v - w); } else in[i] = (float)v;
      }
      hx_arm(30);
      len = opus_encode_float(oe, in, frame, pkt, 1275);
      opus_encoder_ctl(oe, OPUS_GET_FINAL_RANGE(&erng));
      hx_disarm();
      if (len <= 0) { js_open("openc"); js_int("id", id); js_int("f", k); js_int("er", len); js_int("dr", 0); js_int("n", 0); js_close(); continue; }
      d = hx_exact(pkt, len);
      lb = opus_packet_has_lbrr(d, len);
      hx_arm(30);
      dr = opus_decode(od, d, len, out, 5760, 0);
      opus_decoder_ctl(od, OPUS_GET_FINAL_RANGE(&drng));
      hx_disarm();
      js_open("openc"); js_int("id", id); js_int("f", k); js_int("fs", fs); js_int("ch", ch); js_int("dur2", dur2); js_int("mode", mode); js_int("fec", fec);
      js_int("er", len); js_int("n", len); js_int("toc", d[0]); js_int("b0", len > 1 ? d[1] : 0); js_int("lb", lb);
      js_halves("eh", "el", erng); js_int("dr", dr); js_halves("rh", "rl", drng); js_int("frame", frame);
      js_close();
      free(d);
   }
   opus_encoder_destroy(oe); opus_decoder_destroy(od);
}

int main(int argc, char **argv)
{
   static char line[1 << 18];
   int err = 0;
   (void)argc; (void)argv;
   hx_watchdog_init();
   g_mode = opus_custom_mode_create(48000, 960, &err);
   g_cdec = (CELTDecoder *)malloc(celt_decoder_get_size(2));
   if (!g_mode || !g_cdec || celt_decoder_init(g_cdec, 48000, 2) != OPUS_OK) { fprintf(stderr, "hx_framehdr: cannot set up the MDCT decoder\n"); return 2; }
   while (fgets(line, sizeof line, stdin)) {
      if (line[0] == 'T') {
         int t[80], n = read_ints(line + 1, t, 80), i;
         if (n >= 3 && t[0] >= 1 && t[0] < MAXT && t[1] == n - 2 && t[1] <= 64) { g_tbln[t[0]] = t[1]; for (i = 0; i < t[1]; i++) g_tbl[t[0]][i] = (unsigned char)t[2 + i]; }
         else { js_open("bad"); js_str("why", "table"); js_close(); }
      }
      else if (line[0] == 'C') celt_case(line);
      else if (line[0] == 'N') silk_new(line);
      else if (line[0] == 'S') silk_case(line);
      else if (line[0] == 'A') alloc_case(line);
      else if (line[0] == 'E') cenc_exec(line);
      else if (line[0] == 'O') opus_exec(line);
      fflush(stdout);
   }
   return 0;
}
