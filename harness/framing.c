/* hx_framing: drives opus_packet_parse_impl and the header helpers over a header grid and over
   fuzzed byte strings, and records everything they return (module Framing, property C06). */
#include "hx_common.h"
#include "opus.h"
#include "opus_private.h"

static int hdr_keep(int len) { int k = 112 + len / 254; return len < k ? len : k; }

static void emit_case(const unsigned char *data, int len, int sd)
{
   unsigned char *d = hx_exact(data, len);
   const unsigned char *frames[48]; opus_int16 size[48];
   unsigned char toc = 0; int po = -1; opus_int32 ko = -1; const unsigned char *pad = NULL; opus_int32 padlen = -1;
   int sz[48], fo[48], i, ret;
   for (i = 0; i < 48; i++) size[i] = -7;
   ret = opus_packet_parse_impl(d, len, sd, &toc, frames, size, &po, &ko, &pad, &padlen);
   { int kk = hdr_keep(len); while (kk > 0 && d[kk-1] == 0) kk--; js_open("parse"); js_arr_b("h", d, kk); } js_int("n", len); js_int("sd", sd); js_int("r", ret);
   if (ret > 0) {
      for (i = 0; i < ret && i < 48; i++) { sz[i] = size[i]; fo[i] = (int)(frames[i] - d); }
      js_int("toc", toc); js_arr_i("sz", sz, ret); js_arr_i("fo", fo, ret);
      js_int("po", po); js_int("ko", ko); js_int("pa", (long)(pad - d)); js_int("pl", padlen);
   }
   if (!sd) {
      /* the public entry point must agree with the internal one */
      const unsigned char *f2[48]; opus_int16 s2[48]; unsigned char t2 = 0; int po2 = -1, same = 1;
      int r2 = opus_packet_parse(d, len, &t2, f2, s2, &po2);
      if (r2 != ret) same = 0;
      if (ret > 0 && r2 == ret) {
         if (t2 != toc || po2 != po) same = 0;
         for (i = 0; i < ret; i++) if (s2[i] != size[i] || f2[i] != frames[i]) same = 0;
      }
      js_int("pub", same);
      js_int("lb", opus_packet_has_lbrr(d, len));
   }
   js_close();
   free(d);
}

static void emit_helpers(const unsigned char *data, int len)
{
   static const int fs[5] = {8000, 12000, 16000, 24000, 48000};
   unsigned char *d = hx_exact(data, len);
   int spf[5], ns[5], i;
   js_open("help"); js_arr_b("h", d, len < 2 ? len : 2); js_int("n", len);
   js_int("nf", opus_packet_get_nb_frames(d, len));
   for (i = 0; i < 5; i++) { spf[i] = len > 0 ? opus_packet_get_samples_per_frame(d, fs[i]) : 0; ns[i] = opus_packet_get_nb_samples(d, len, fs[i]); }
   js_arr_i("spf", spf, 5); js_arr_i("ns", ns, 5);
   js_int("bw", len > 0 ? opus_packet_get_bandwidth(d) : 0);
   js_int("ch", len > 0 ? opus_packet_get_nb_channels(d) : 0);
   js_close();
   free(d);
}

/* ---- grid ---- */
static unsigned char g_buf[200000];

static int collect_lens(const unsigned char *h, int hn, int *out)
{
   /* lengths at which this header can become valid, computed with the library-independent
      arithmetic of the frame length coding; duplicates are harmless */
   int n = 0, i, k;
   for (i = 0; i <= 8; i++) out[n++] = i;
   (void)h; (void)hn;
   /* generic boundary neighbourhoods */
   { static const int c[] = {250, 251, 252, 253, 254, 255, 256, 257, 258, 259, 260, 505, 506, 507, 508, 509, 510, 511, 512, 513, 514, 515,
        762, 763, 764, 765, 766, 767, 1020, 1021, 1022, 1023, 1024, 1274, 1275, 1276, 1277, 1278, 1279, 1280, 1281, 1282, 1283, 1284, 1285,
        1530, 1531, 1532, 1533, 1534, 1535, 1536, 1537, 2549, 2550, 2551, 2552, 2553, 2554, 2555, 2556, 2557, 2558, 2559, 2560, 3825, 3826, 3827, 3828, 3829, 3830, 3831};
     for (k = 0; k < (int)(sizeof c / sizeof c[0]); k++) out[n++] = c[k]; }
   return n;
}

static void grid(int keep1in, hx_rng *r)
{
   static const int tocs[] = {128,129,130,131,136,137,138,139,0,1,2,3,8,9,10,11,16,17,18,19,24,25,26,27,15,
                              252,253,254,255,100,101,102,103};
   static const int bytes_q[] = {0, 1, 2, 251, 252, 253, 254, 255};
   int nt = sizeof tocs / sizeof tocs[0], nb = 8, ti, b2, e1, e2, e3, li, sd;
   int lens[256];
   for (ti = 0; ti < nt; ti++)
      for (b2 = 0; b2 < 256; b2++) {
         for (e1 = 0; e1 < nb; e1++) for (e2 = 0; e2 < nb; e2++) for (e3 = 0; e3 < nb; e3++) {
            unsigned char h[6]; int nl;
            h[0] = tocs[ti]; h[1] = b2; h[2] = bytes_q[e1]; h[3] = bytes_q[e2]; h[4] = bytes_q[e3]; h[5] = 0;
            nl = collect_lens(h, 5, lens);
            for (li = 0; li < nl; li++) {
               int len = lens[li];
               if (hx_u(r, keep1in)) continue;
               memset(g_buf, 0, len + 8);
               memcpy(g_buf, h, 5);
               for (sd = 0; sd < 2; sd++) emit_case(g_buf, len, sd);
            }
         }
      }
}

/* structured cases: a syntactically plausible header built from random choices, with total
   length placed at/around the exact fit */
static void structured(hx_rng *r, int n)
{
   int it;
   for (it = 0; it < n; it++) {
      int code = hx_u(r, 4), cfg = hx_u(r, 32), st = hx_u(r, 2), pos = 0, i, M = 1, vbr = 0, pad = 0, sd = hx_u(r, 2);
      int sizes[64], tot = 0, K, len, delta;
      static const int szs[] = {0, 1, 2, 3, 10, 100, 250, 251, 252, 253, 254, 255, 256, 300, 507, 508, 509, 1000, 1274, 1275};
      memset(g_buf, 0, 4096);
      g_buf[pos++] = (unsigned char)(cfg << 3 | st << 2 | code);
      if (code == 0) M = 1; else if (code == 1) M = 2; else if (code == 2) { M = 2; vbr = 1; }
      else {
         int hp = hx_u(r, 2);
         M = hx_u(r, 8) ? hx_range(r, 1, 48) : hx_range(r, 0, 63);
         vbr = hx_u(r, 2);
         g_buf[pos++] = (unsigned char)(M | hp << 6 | vbr << 7);
         if (hp) {
            int chain = hx_u(r, 4) ? 0 : hx_range(r, 1, 3);
            for (i = 0; i < chain; i++) { g_buf[pos++] = 255; pad += 254; }
            { int last = hx_pick(r, szs, 12); if (last > 254) last = 254; g_buf[pos++] = (unsigned char)last; pad += last; }
         }
      }
      for (i = 0; i < M; i++) sizes[i] = vbr ? (hx_u(r, 3) ? hx_range(r, 0, 40) : hx_pick(r, szs, 20)) : 0;
      if (!vbr) { int s = hx_u(r, 3) ? hx_range(r, 0, 60) : hx_pick(r, szs, 20); for (i = 0; i < M; i++) sizes[i] = s; }
      K = (vbr ? M - 1 : 0);
      for (i = 0; i < K; i++) pos += encode_size(sizes[i], g_buf + pos);
      if (sd) pos += encode_size(sizes[M > 0 ? M - 1 : 0], g_buf + pos);
      for (i = 0; i < M; i++) tot += sizes[i];
      len = pos + tot + pad;
      delta = hx_u(r, 3) ? 0 : hx_range(r, -3, 3);
      if (hx_u(r, 40) == 0) delta = hx_pick(r, szs, 20);
      len += delta; if (len < 0) len = 0;
      /* payload bytes: arbitrary (the parser must not look at them) */
      for (i = pos; i < len && i < (int)sizeof g_buf; i++) g_buf[i] = (unsigned char)hx_u(r, 256);
      emit_case(g_buf, len, sd);
      if (!hx_u(r, 4)) emit_case(g_buf, len, !sd);
   }
}


/* implicit frame sizes far beyond 1275: the parser stores sizes in 16 bits, so sizes that wrap to a
   small or negative opus_int16 (32768.., 65536+k, 2*65536+k, ...) must still be rejected. One case
   per (code, M, padding, explicit sizes, S); payload is zeros (the parser never looks at it). */
static void huge(hx_rng *r)
{
   static const int S[] = {1276, 1277, 2550, 32767, 32768, 32769, 32778, 34043, 65535, 65536, 65537, 65546, 66000, 66811, 66812,
                           131072, 131082, 132347, 132348, 196608, 196618, 262154, 1048576, 1048586, 1049851};
   static const int Ms[] = {1, 2, 3, 5, 48};
   size_t cap = 9u << 20; unsigned char *buf = (unsigned char *)calloc(cap, 1);
   int si, code, mi, vbr, hp, cfgs;
   if (!buf) return;
   for (si = 0; si < (int)(sizeof S / sizeof S[0]); si++) for (code = 0; code < 4; code++)
   for (mi = 0; mi < (code == 3 ? 5 : 1); mi++) for (vbr = 0; vbr < (code == 3 ? 2 : 1); vbr++) for (hp = 0; hp < (code == 3 ? 2 : 1); hp++)
   for (cfgs = 0; cfgs < 2; cfgs++) {
      int M = code == 0 ? 1 : code < 3 ? 2 : Ms[mi], isvbr = code == 2 || (code == 3 && vbr), pos = 0, i, pad = 0, K, sd;
      long len, d;
      static const int deltas[] = {0, 1, -1};
      int di;
      memset(buf, 0, 256);
      buf[pos++] = (unsigned char)((cfgs ? 0x0c : 0xf8) | (hx_u(r, 2) << 2) | code);
      if (code == 3) {
         buf[pos++] = (unsigned char)(M | hp << 6 | vbr << 7);
         if (hp) { int last = hx_u(r, 2) ? 0 : hx_range(r, 1, 254); buf[pos++] = (unsigned char)last; pad = last; }
      }
      K = isvbr ? M - 1 : 0;
      { int tot = 0; for (i = 0; i < K; i++) { int s = hx_u(r, 2) ? hx_range(r, 0, 20) : 0; pos += encode_size(s, buf + pos); tot += s; }
        /* implicit part: one frame of size S (VBR last frame) or M frames of size S (CBR) */
        len = (long)pos + tot + pad + (long)S[si] * (isvbr ? 1 : M); }
      for (di = 0; di < 3; di++) {
         d = len + deltas[di];
         if (d < 0 || (size_t)d > cap) continue;
         for (sd = 0; sd < 2; sd++) emit_case(buf, (int)d, sd);
      }
   }
   free(buf);
}

static void fuzz(hx_rng *r, int n)
{
   int it, i;
   for (it = 0; it < n; it++) {
      int len = hx_u(r, 4) == 0 ? hx_range(r, 0, 1600) : hx_range(r, 0, 24);
      int mode = hx_u(r, 3);
      for (i = 0; i < len; i++) {
         unsigned v = hx_u(r, 256);
         if (mode == 1 && i < 12 && hx_u(r, 2)) { static const int hv[] = {0, 1, 2, 3, 251, 252, 253, 254, 255, 64, 65, 128, 129, 193}; v = hx_pick(r, hv, 14); }
         if (mode == 2 && i >= 1 && hx_u(r, 3) == 0) v = 255;
         g_buf[i] = (unsigned char)v;
      }
      emit_case(g_buf, len, hx_u(r, 2));
   }
}

static void helpers(void)
{
   int toc, b2, len;
   for (toc = 0; toc < 256; toc++) for (b2 = 0; b2 < 256; b2 += (b2 < 70 || b2 > 250) ? 1 : 5) for (len = 0; len <= 3; len++) {
      unsigned char h[3]; h[0] = toc; h[1] = b2; h[2] = 7;
      if (len < 2 && b2 != 0) continue;
      emit_helpers(h, len);
   }
}

/* re-execute recorded cases: reads lines {"k":"parse","h":[..],"n":N,"sd":S,...} from stdin */
static void replay(void)
{
   static char line[1 << 20];
   while (fgets(line, sizeof line, stdin)) {
      char *h = strstr(line, "\"h\":["), *n = strstr(line, "\"n\":"), *sd = strstr(line, "\"sd\":");
      int len, k = 0; char *q;
      if (!h || !n) continue;
      len = atoi(n + 4);
      {
      unsigned char *b = g_buf; size_t cap = sizeof g_buf;
      if (len > 0 && (size_t)len + 8 > cap) { cap = (size_t)len + 8; b = (unsigned char *)malloc(cap); if (!b) continue; }
      memset(b, 0, cap);
      q = h + 5;
      while (*q && *q != ']' && (size_t)k < cap) { b[k++] = (unsigned char)strtol(q, &q, 10); if (*q == ',') q++; }
      if (strstr(line, "\"k\":\"help\"")) emit_helpers(b, len);
      else emit_case(b, len, sd ? atoi(sd + 5) : 0);
      if (b != g_buf) free(b);
      }
   }
}

int main(int argc, char **argv)
{
   hx_rng r; const char *cmd = argc > 1 ? argv[1] : "";
   r.s = argc > 2 ? strtoull(argv[2], NULL, 10) : 1;
   int n = argc > 3 ? atoi(argv[3]) : 1000;
   if (!strcmp(cmd, "grid")) grid(n > 0 ? n : 1, &r);
   else if (!strcmp(cmd, "replay")) replay();
   else if (!strcmp(cmd, "structured")) structured(&r, n);
   else if (!strcmp(cmd, "fuzz")) fuzz(&r, n);
   else if (!strcmp(cmd, "helpers")) helpers();
   else if (!strcmp(cmd, "huge")) huge(&r);
   else { fprintf(stderr, "usage: hx_framing grid|structured|fuzz|helpers seed n\n"); return 2; }
   return 0;
}
