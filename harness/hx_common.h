/* Common services of the conformance harness: PRNG, NDJSON output, guarded buffers.
   The harness never judges a property clause: it executes calls on the real library and
   records what happened; the TLA+ trace specs decide. */
#ifndef HX_COMMON_H
#define HX_COMMON_H
#include <stdio.h>
#include <stdlib.h>
#include <string.h>
#include <stdint.h>
#include <signal.h>
#include <unistd.h>

typedef struct { uint64_t s; } hx_rng;
static inline uint64_t hx_next(hx_rng *r) {
   uint64_t z = (r->s += 0x9E3779B97F4A7C15ULL);
   z = (z ^ (z >> 30)) * 0xBF58476D1CE4E5B9ULL;
   z = (z ^ (z >> 27)) * 0x94D049BB133111EBULL;
   return z ^ (z >> 31);
}
static inline uint32_t hx_u(hx_rng *r, uint32_t n) { return n ? (uint32_t)(hx_next(r) % n) : 0; }
static inline int hx_range(hx_rng *r, int lo, int hi) { return lo + (int)hx_u(r, (uint32_t)(hi - lo + 1)); }
static inline double hx_unit(hx_rng *r) { return (double)(hx_next(r) >> 11) / 9007199254740992.0; }
static inline int hx_pick(hx_rng *r, const int *a, int n) { return a[hx_u(r, n)]; }

/* --- NDJSON helpers (stdout) --- */
static inline void js_open(const char *kind) { printf("{\"k\":\"%s\"", kind); }
static inline void js_int(const char *key, long v) { printf(",\"%s\":%ld", key, v); }
static inline void js_str(const char *key, const char *v) { printf(",\"%s\":\"%s\"", key, v); }
static inline void js_arr_i(const char *key, const int *a, int n) {
   int i; printf(",\"%s\":[", key);
   for (i = 0; i < n; i++) printf(i ? ",%d" : "%d", a[i]);
   printf("]");
}
static inline void js_arr_b(const char *key, const unsigned char *a, int n) {
   int i; printf(",\"%s\":[", key);
   for (i = 0; i < n; i++) printf(i ? ",%d" : "%d", a[i]);
   printf("]");
}
static inline void js_close(void) { printf("}\n"); }
static inline void js_hex(const char *key, const unsigned char *a, int n) {
   int i; printf(",\"%s\":\"", key);
   for (i = 0; i < n; i++) printf("%02x", a[i]);
   printf("\"");
}

/* --- guarded buffers: exact-size heap block (ASan sees any overrun) plus canaries for
       writes that stay inside the allocation --- */
#define HX_CANARY 64
typedef struct { unsigned char *base; unsigned char *p; size_t n; } hx_buf;
static inline hx_buf hx_buf_new(size_t n, unsigned char fill) {
   hx_buf b; size_t i;
   b.base = (unsigned char *)malloc(n + 2 * HX_CANARY);
   b.p = b.base + HX_CANARY; b.n = n;
   for (i = 0; i < HX_CANARY; i++) { b.base[i] = (unsigned char)(0xA5 ^ i); b.p[n + i] = (unsigned char)(0x5A ^ i); }
   memset(b.p, fill, n);
   return b;
}
static inline int hx_buf_ok(const hx_buf *b) {
   size_t i;
   for (i = 0; i < HX_CANARY; i++)
      if (b->base[i] != (unsigned char)(0xA5 ^ i) || b->p[b->n + i] != (unsigned char)(0x5A ^ i)) return 0;
   return 1;
}
static inline void hx_buf_free(hx_buf *b) { free(b->base); b->base = b->p = NULL; }

/* exact-size copy of an input so that any read past the end is an ASan report */
static inline unsigned char *hx_exact(const unsigned char *src, size_t n) {
   unsigned char *p = (unsigned char *)malloc(n ? n : 1);
   if (n) memcpy(p, src, n);
   return p;
}

/* FNV-1a 64-bit digest, printed as hex string */
static inline uint64_t hx_fnv(const void *data, size_t n) {
   const unsigned char *p = (const unsigned char *)data; uint64_t h = 1469598103934665603ULL; size_t i;
   for (i = 0; i < n; i++) { h ^= p[i]; h *= 1099511628211ULL; }
   return h;
}
static inline void js_dig(const char *key, const void *data, size_t n) {
   printf(",\"%s\":\"%016llx\"", key, (unsigned long long)hx_fnv(data, n));
}

/* per-call watchdog: a call that does not return within the limit is logged as a Hang event */
static volatile sig_atomic_t hx_alarm_armed;
static void hx_on_alarm(int sig) {
   (void)sig;
   if (hx_alarm_armed) { static const char m[] = "\n{\"k\":\"Hang\"}\n"; (void)!write(1, m, sizeof m - 1); _exit(97); }
}
static inline void hx_watchdog_init(void) { signal(SIGALRM, hx_on_alarm); }
static inline void hx_arm(int seconds) { hx_alarm_armed = 1; alarm(seconds); }
static inline void hx_disarm(void) { alarm(0); hx_alarm_armed = 0; }

#endif
