/* hx_link: encoder -> (lossy) channel -> decoder executions on the real library
   (modules Link / LinkTrace, properties C02 and C09).

   The harness executes and records.  It never judges a property clause: return values, header
   bytes, final ranges (hex strings), has-LBRR helper results, peeked decoder control state and
   integer level / error measurements go into NDJSON events; spec/LinkTrace.tla decides.

   ------------------------------------------------------------------ hx_link c02 < script
     N enc  <Fs> <ch> <app> <seed> | fo co api  fo co api ...      one encoder, the listed decoders
     N surr <Fs> <ch> <fam> <app> <seed> | fo api  fo api ...      surround (multistream) encoder + ms decoders
     N mse  <Fs> <ch> <streams> <coupled> <app> <seed> | fo api ...   plain multistream encoder, identity mapping
     N penc <Fs> <ch> <fam> <app> <seed> | fo api ...              projection encoder + projection decoders
     S <req> <v>                                                   control request on the encoder
     R                                                             OPUS_RESET_STATE on the encoder
     E <frame_size> <max_bytes> <sig> <api>                        one encode call (api 0 int16, 1 int24, 2 float)
   sig: 0 digital silence, 1 loud speech-like, 2 faint noise, 3 full-scale square + noise, 4 white noise,
        5 speech-like with NaN / Inf / huge samples sprinkled in (float entry point; the integer entry
        points get saturated full-scale values instead), 6 wide stereo music-like, 7 every sample huge (1e10)
        or NaN, 8 pure tone, 9 impulses, 11 clean talk spurts separated by digital silence (no noise), 12 clean talker
        without pauses, 13 tones + noise ramping within 120 ms, 15 / 16 quiet start (300 ms of faint noise, -66 dBFS) then a stationary loud harmonic complex / loud noise, 14 unvoiced (fricative-like noise) talk spurts separated by digital silence (c09 also: 10 = signal 1 with pauses of 0.7 s).
   Each produced packet is decoded, in order, by every decoder of the execution.

   ------------------------------------------------------------------ hx_link c09 < script
     L <Fs> <ch> <app> <br> <vbr> <cx> <fec> <loss%> <dtx> <U> <fmode> <bw> <sig> <seed> <fo> <co> <npk>
           one encoded stream of npk packets of U x 2.5 ms, decoded once by a loss-free twin decoder (fo, co)
     W <start> | tok tok ... | tok tok ...
           one receiver run over that stream, starting at packet <start> from a copy of the twin's state
           there.  First token list: the receiver under test.  Second list (may be empty): a reference
           receiver that conceals every lost packet (used to measure how much better FEC did).
           D<i>      decode packet i
           X<i>      decode packet i, but conceal instead if it has at most two bytes (DTX as loss)
           P<u>      conceal u x 2.5 ms (null packet)
           F<i>:<u>  decode_fec=1 on packet i asking for u x 2.5 ms
           T<n>      decode the next n packets; one aggregated record (returns, digests of ranges, error vs twin)
     Z     end of the stream (prints the stream's end event) */
#include "hx_common.h"
#include "opus.h"
#include "opus_multistream.h"
#include "opus_projection.h"
#include "opus_private.h"
#include <math.h>

extern int opus_verif_decoder_peek(const OpusDecoder *st, int field);
extern int opus_verif_encoder_peek(const OpusEncoder *st, int field);

#define HDR_KEEP 32
#define MAXDEC 16
#define MAXPKT 4000
#define MS_KEEP 6200

/* ------------------------------------------------------------------ signal families */
typedef struct { hx_rng r; double phase, t, ph2[6]; long n; } sgen_t;

static void sig_init(sgen_t *s, unsigned long seed) { memset(s, 0, sizeof *s); s->r.s = seed * 2654435761UL + 17; }

static double speechy(sgen_t *s, int fs)
{
   double t = s->t, f0, env, v = 0, nb; int h;
   f0 = 150.0 + 60.0 * sin(2 * M_PI * 1.3 * t) + 25.0 * sin(2 * M_PI * 0.37 * t);
   env = 0.55 + 0.35 * sin(2 * M_PI * 3.7 * t) * sin(2 * M_PI * 0.9 * t + 0.4);
   s->phase += 2 * M_PI * f0 / fs;
   if (s->phase > 2 * M_PI * 64) s->phase -= 2 * M_PI * 64;
   for (h = 1; h <= 12; h++) if (h * f0 < 0.45 * fs) v += sin(h * s->phase + 0.3 * h) / h;
   nb = (fmod(t, 0.31) < 0.06) ? 0.25 : 0.04;
   return 0.28 * env * v + nb * env * (hx_unit(&s->r) * 2 - 1);
}

/* "clean" families: harmonic, pitch- and amplitude-modulated, NO additive noise.
   bursts = 1: talk spurts of 250..600 ms separated by exact digital silence of 80..200 ms (schedule derived from the
   time alone, so that it is the same whatever the packet duration); bursts = 0: one talker without pauses. */
static double cleanspeech(sgen_t *s, int fs, int bursts)
{
   double t = s->t, f0, env, v = 0; int h, noisy = 0;
   if (bursts) {
      /* cycle k lasts on(k) + off(k) ms with on in 250..600, off in 80..200 (fixed pseudo-random table) */
      static const int ON[8] = {420, 250, 600, 330, 510, 280, 450, 370}, OFF[8] = {120, 200, 80, 160, 100, 180, 140, 90};
      double ms = fmod(t * 1000.0, 3210.0 + 1070.0); int k = 0; double a = 0;
      while (k < 8 && ms >= a + ON[k] + OFF[k]) { a += ON[k] + OFF[k]; k++; }
      if (k == 8 || ms >= a + ON[k]) { s->phase += 2 * M_PI * 150.0 / fs; if (s->phase > 2 * M_PI * 64) s->phase -= 2 * M_PI * 64; return 0.0; }
      /* 10 ms raised-cosine edges */
      { double x = ms - a, e = 1.0; if (x < 10) e = 0.5 - 0.5 * cos(M_PI * x / 10); else if (x > ON[k] - 10) e = 0.5 - 0.5 * cos(M_PI * (ON[k] - x) / 10);
        env = e * (0.6 + 0.3 * sin(2 * M_PI * 2.1 * t));
        /* bursts = 2 ("unvoiced talk spurts"): odd spurts are fricative-like noise throughout, even ones turn from voiced
           to noise after 40 % of their length; amplitude-modulated, still exact digital silence in between */
        if (bursts == 2 && ((k & 1) || x > 0.4 * ON[k])) noisy = 1; }
   } else env = 0.55 + 0.35 * sin(2 * M_PI * 3.7 * t) * sin(2 * M_PI * 0.9 * t + 0.4);
   f0 = 140.0 + 50.0 * sin(2 * M_PI * 1.1 * t) + 20.0 * sin(2 * M_PI * 0.31 * t);
   if (noisy) {
      /* first-difference (high-pass tilted) noise, about -17 dBFS at full envelope */
      double u = hx_unit(&s->r) * 2 - 1, y = 0.75 * u - 0.45 * s->ph2[0]; s->ph2[0] = u;
      s->phase += 2 * M_PI * f0 / fs; if (s->phase > 2 * M_PI * 64) s->phase -= 2 * M_PI * 64;
      return 1.0 * env * (0.75 + 0.25 * sin(2 * M_PI * 6.3 * t)) * y;
   }
   s->phase += 2 * M_PI * f0 / fs;
   if (s->phase > 2 * M_PI * 64) s->phase -= 2 * M_PI * 64;
   for (h = 1; h <= 14; h++) if (h * f0 < 0.45 * fs) v += sin(h * s->phase + 0.3 * h) / h;
   return 0.3 * env * v;
}

static void gen_sig(sgen_t *s, int kind, float *x, int n, int ch, int fs)
{
   static const double CH[6] = {220.0, 277.18, 329.63, 440.0, 659.25, 1318.5};
   int i, c, k;
   for (i = 0; i < n; i++) {
      double v = 0, w = 0;
      switch (kind) {
      case 0: break;
      case 1: case 5: v = speechy(s, fs); w = 0.8 * v; break;
      case 2: v = 1e-4 * (hx_unit(&s->r) * 2 - 1); w = 1e-4 * (hx_unit(&s->r) * 2 - 1); break;
      case 3: v = (((s->n / 37) & 1) ? 1.0 : -1.0) * (0.9 + 0.1 * hx_unit(&s->r)); w = -v; break;
      case 4: v = 0.3 * (hx_unit(&s->r) * 2 - 1); w = 0.3 * (hx_unit(&s->r) * 2 - 1); break;
      case 6:
         for (k = 0; k < 6; k++) {
            s->ph2[k] += 2 * M_PI * CH[k] * (1.0 + 0.002 * sin(2 * M_PI * 0.5 * s->t + k)) / fs;
            if (s->ph2[k] > 2 * M_PI * 16) s->ph2[k] -= 2 * M_PI * 16;
            if (CH[k] < 0.45 * fs) { v += (k & 1 ? 0.02 : 0.09) * sin(s->ph2[k]); w += (k & 1 ? 0.09 : 0.02) * sin(s->ph2[k] + 0.7 * k); }
         }
         v += 0.02 * (hx_unit(&s->r) * 2 - 1); w += 0.02 * (hx_unit(&s->r) * 2 - 1);
         break;
      case 7: v = (s->n % 3 == 0) ? 1e10 : (s->n % 3 == 1) ? -1e10 : 3e9; w = v; break;
      case 8: s->phase += 2 * M_PI * 1000.0 / fs; if (s->phase > 2 * M_PI) s->phase -= 2 * M_PI; v = 0.5 * sin(s->phase); w = v; break;
      case 9: v = (s->n % (fs / 100) == 3) ? 0.9 : 0.0; w = (s->n % (fs / 80) == 5) ? -0.9 : 0.0; break;
      case 11: case 12: v = cleanspeech(s, fs, kind == 11); w = 0.8 * v; break;
      case 14: v = cleanspeech(s, fs, 2); w = 0.8 * v; break;
      case 15: case 16: {   /* quiet start: 300 ms of faint noise (about -66 dBFS), then a STATIONARY loud signal for good -
                               15: a steady harmonic complex (220 Hz, 3rd and 7th partial) over the same faint noise, about -13 dBFS;
                               16: steady broadband noise, about -13 dBFS.  The MDCT layer's background-noise estimate is learnt
                               in the quiet start, so the depth of its concealment floor below the loud level is observable. */
         double nz = 8.5e-4 * (hx_unit(&s->r) * 2 - 1), nz2 = 8.5e-4 * (hx_unit(&s->r) * 2 - 1);
         if (s->t < 0.3) { v = nz; w = nz2; }
         else if (kind == 15) {
            s->phase += 2 * M_PI * 220.0 / fs; if (s->phase > 2 * M_PI * 64) s->phase -= 2 * M_PI * 64;
            v = 0.27 * sin(s->phase) + 0.12 * sin(3 * s->phase + 0.5) + 0.06 * sin(7 * s->phase) + nz;
            w = 0.22 * sin(s->phase + 0.4) + 0.10 * sin(3 * s->phase) + 0.05 * sin(7 * s->phase + 1.1) + nz2;
         } else { v = 459.0 * nz; w = 459.0 * nz2; }
         break; }
      case 13: {   /* non-stationary within a packet: steady tones plus noise whose level ramps 1 -> 0.15 -> 1 over 120 ms,
                      so that the 20 ms frames of one long packet get different variable-rate sizes */
         double ph = fmod(s->t, 0.12) / 0.06, ramp = 0.15 + 0.85 * (ph < 1 ? 1.0 - ph : ph - 1.0);
         s->phase += 2 * M_PI * 220.0 / fs; if (s->phase > 2 * M_PI * 64) s->phase -= 2 * M_PI * 64;
         v = 0.18 * sin(s->phase) + 0.09 * sin(7.77 * s->phase) + 0.27 * ramp * (hx_unit(&s->r) * 2 - 1);
         w = 0.18 * sin(2 * s->phase) + 0.09 * sin(8.21 * s->phase) + 0.27 * ramp * (hx_unit(&s->r) * 2 - 1);
         break; }
      default: break;
      }
      for (c = 0; c < ch; c++) x[(size_t)i * ch + c] = (float)((c & 1) ? w : v);
      s->t += 1.0 / fs; s->n++;
   }
   if (kind == 5) {
      /* non-finite and huge samples sprinkled in */
      int m = 1 + (int)hx_u(&s->r, 6);
      for (k = 0; k < m; k++) {
         size_t p = hx_u(&s->r, (uint32_t)(n * ch)); int w = (int)hx_u(&s->r, 5);
         x[p] = w == 0 ? NAN : w == 1 ? INFINITY : w == 2 ? -INFINITY : w == 3 ? 1e30f : -3e38f;
      }
   } else if (kind == 7 && (s->n / n) % 2 == 1) {
      for (i = 0; i < n * ch; i++) x[i] = NAN;
   }
}

static void to_int(const float *x, opus_int16 *a, opus_int32 *b, int n)
{
   int i;
   for (i = 0; i < n; i++) {
      double v = x[i];
      if (!(v == v)) v = 0;
      if (v > 1.0) v = 1.0;
      if (v < -1.0) v = -1.0;
      { long q = lrint(v * 32768.0); a[i] = (opus_int16)(q > 32767 ? 32767 : q < -32768 ? -32768 : q); }
      { long q = lrint(v * 8388608.0); b[i] = (opus_int32)(q > 8388607 ? 8388607 : q < -8388608 ? -8388608 : q); }
   }
}

/* mean square -> centi-dB re full scale; -20000 for exact zero; 30000 if a sample is not finite */
static int cdb_ms(double e, int bad)
{
   if (bad) return 30000;
   if (e <= 0) return -20000;
   e = 1000.0 * log10(e);
   if (e < -20000) e = -20000;
   if (e > 29000) e = 29000;
   return (int)floor(e + 0.5);
}
static double ms_of(const float *x, size_t n, int *bad)
{
   double e = 0; size_t i;
   for (i = 0; i < n; i++) { if (!(x[i] == x[i]) || x[i] > 1e30f || x[i] < -1e30f) { *bad = 1; return 0; } e += (double)x[i] * x[i]; }
   return n ? e / (double)n : 0;
}
static double ms_diff(const float *x, const float *y, size_t n, int *bad)
{
   double e = 0; size_t i;
   for (i = 0; i < n; i++) { double d = (double)x[i] - y[i]; if (!(d == d) || d > 1e30 || d < -1e30) { *bad = 1; return 0; } e += d * d; }
   return n ? e / (double)n : 0;
}
/* mean square in units of 1e-5 of full scale squared, capped at 400000 (keeps TLC sums below 2^31) */
static long lin5(double e, int bad) { double v; if (bad) return 400000; v = floor(e * 1e5 + 0.5); return v > 400000 ? 400000 : (long)v; }

static void js_rng(const char *key, opus_uint32 v) { printf(",\"%s\":\"%08x\"", key, (unsigned)v); }

/* ================================================================== C02 */
/* the 'fuzzing' build variant takes its random decisions from rand(): seeded per execution, before the object is created */
#ifdef FUZZING
#define FUZZ_SEED(s) srand((unsigned)(s))
#else
#define FUZZ_SEED(s) ((void)(s))
#endif
typedef struct { int fo, co, api; OpusDecoder *d; OpusMSDecoder *md; OpusProjectionDecoder *pd; } dec_t;
static struct {
   int kind;           /* 0 none, 1 enc, 2 surr, 3 penc */
   int Fs, ch, app, fam, S, C;
   OpusEncoder *e; OpusMSEncoder *me; OpusProjectionEncoder *pe;
   dec_t dec[MAXDEC]; int nd;
   sgen_t sig; int x, i;
} o;

static void c02_close(void)
{
   int k;
   if (o.kind) { js_open("end"); js_int("x", o.x); js_int("n", o.i); js_close(); }
   if (o.e) opus_encoder_destroy(o.e);
   if (o.me) opus_multistream_encoder_destroy(o.me);
   if (o.pe) opus_projection_encoder_destroy(o.pe);
   for (k = 0; k < o.nd; k++) {
      if (o.dec[k].d) opus_decoder_destroy(o.dec[k].d);
      if (o.dec[k].md) opus_multistream_decoder_destroy(o.dec[k].md);
      if (o.dec[k].pd) opus_projection_decoder_destroy(o.dec[k].pd);
   }
   { int x = o.x; memset(&o, 0, sizeof o); o.x = x; }
}

static int enc_ctl_i(int req, opus_int32 v)
{
   if (o.kind == 1) return opus_encoder_ctl(o.e, req, v);
   if (o.kind == 2) return opus_multistream_encoder_ctl(o.me, req, v);
   return opus_projection_encoder_ctl(o.pe, req, v);
}
static int enc_ctl_p(int req, void *p)
{
   if (o.kind == 1) return opus_encoder_ctl(o.e, req, p);
   if (o.kind == 2) return opus_multistream_encoder_ctl(o.me, req, p);
   return opus_projection_encoder_ctl(o.pe, req, p);
}

static int c02_new(char *line)
{
   char kind[16]; char *bar = strchr(line, '|'); int err = 0, n = 0; unsigned long seed; char *q;
   unsigned char map[256];
   c02_close();
   if (!bar) return -1;
   *bar = 0;
   if (sscanf(line, "N %15s", kind) != 1) return -1;
   o.x++;
   if (!strcmp(kind, "enc")) {
      if (sscanf(line, "N enc %d %d %d %lu", &o.Fs, &o.ch, &o.app, &seed) != 4) return -1;
      FUZZ_SEED(seed);
      o.e = opus_encoder_create(o.Fs, o.ch, o.app, &err); o.kind = 1; o.S = 1; o.C = o.ch == 2;
   } else if (!strcmp(kind, "surr")) {
      if (sscanf(line, "N surr %d %d %d %d %lu", &o.Fs, &o.ch, &o.fam, &o.app, &seed) != 5) return -1;
      FUZZ_SEED(seed);
      o.me = opus_multistream_surround_encoder_create(o.Fs, o.ch, o.fam, &o.S, &o.C, map, o.app, &err); o.kind = 2;
   } else if (!strcmp(kind, "mse")) {
      /* plain multistream encoder: <streams> streams of which the first <coupled> are stereo, identity mapping (fam = coupled) */
      int k2;
      if (sscanf(line, "N mse %d %d %d %d %d %lu", &o.Fs, &o.ch, &o.S, &o.C, &o.app, &seed) != 6) return -1;
      if (o.ch < 1 || o.ch > 255) return -1;
      FUZZ_SEED(seed);
      for (k2 = 0; k2 < o.ch; k2++) map[k2] = (unsigned char)k2;
      o.me = opus_multistream_encoder_create(o.Fs, o.ch, o.S, o.C, map, o.app, &err); o.kind = 2; o.fam = -1;
   } else if (!strcmp(kind, "penc")) {
      if (sscanf(line, "N penc %d %d %d %d %lu", &o.Fs, &o.ch, &o.fam, &o.app, &seed) != 5) return -1;
      FUZZ_SEED(seed);
      o.pe = opus_projection_ambisonics_encoder_create(o.Fs, o.ch, o.fam, &o.S, &o.C, o.app, &err); o.kind = 3;
   } else return -1;
   sig_init(&o.sig, seed);
   if (!o.e && !o.me && !o.pe) { js_open("new"); js_int("x", o.x); js_str("t", kind); js_int("ok", 0); js_int("err", err); js_close(); o.kind = 0; return 0; }
   q = bar + 1;
   while (n < MAXDEC) {
      long a, b, c = 0; char *e2;
      a = strtol(q, &e2, 10); if (e2 == q) break; q = e2;
      b = strtol(q, &e2, 10); if (e2 == q) break; q = e2;
      if (o.kind == 1) { c = strtol(q, &e2, 10); if (e2 == q) break; q = e2; }
      if (o.kind == 1) {
         o.dec[n].fo = (int)a; o.dec[n].co = (int)b; o.dec[n].api = (int)c;
         o.dec[n].d = opus_decoder_create((int)a, (int)b, &err);
         if (!o.dec[n].d) return -2;
      } else if (o.kind == 2) {
         o.dec[n].fo = (int)a; o.dec[n].co = o.ch; o.dec[n].api = (int)b;
         o.dec[n].md = opus_multistream_decoder_create((int)a, o.ch, o.S, o.C, map, &err);
         if (!o.dec[n].md) return -2;
      } else {
         opus_int32 sz = 0; unsigned char *mx;
         o.dec[n].fo = (int)a; o.dec[n].co = o.ch; o.dec[n].api = (int)b;
         opus_projection_encoder_ctl(o.pe, OPUS_PROJECTION_GET_DEMIXING_MATRIX_SIZE(&sz));
         mx = (unsigned char *)malloc(sz > 0 ? sz : 1);
         opus_projection_encoder_ctl(o.pe, OPUS_PROJECTION_GET_DEMIXING_MATRIX(mx, sz));
         o.dec[n].pd = opus_projection_decoder_create((int)a, o.ch, o.S, o.C, mx, sz, &err);
         free(mx);
         if (!o.dec[n].pd) return -2;
      }
      n++;
   }
   o.nd = n;
   js_open("new"); js_int("x", o.x); js_str("t", kind); js_int("ok", 1); js_int("Fs", o.Fs); js_int("ch", o.ch); js_int("app", o.app);
   js_int("S", o.S); js_int("C", o.C); js_int("nd", o.nd); js_close();
   return 0;
}

static void c02_encode(int frame, int mb, int sigk, int api)
{
   float *in; opus_int16 *a16; opus_int32 *a24; hx_buf out; int ret, k, nin, hk, havehs = 0, pk0[7], pk1[7], hs[4];
   opus_int32 dur = -1, vbr = -1, br = -1, dtx = -1, fec = -1; opus_uint32 er = 0;
   int alloc_frame = frame > 0 && frame <= 3 * o.Fs ? frame : 1;
   nin = alloc_frame * o.ch;
   in = (float *)malloc(sizeof(float) * (size_t)nin); a16 = (opus_int16 *)malloc(sizeof(opus_int16) * (size_t)nin);
   a24 = (opus_int32 *)malloc(sizeof(opus_int32) * (size_t)nin);
   gen_sig(&o.sig, sigk, in, alloc_frame, o.ch, o.Fs);
   to_int(in, a16, a24, nin);
   out = hx_buf_new(mb > 0 ? (size_t)mb : 1, 0xC3);
   enc_ctl_p(OPUS_GET_EXPERT_FRAME_DURATION_REQUEST, &dur);
   enc_ctl_p(OPUS_GET_VBR_REQUEST, &vbr); enc_ctl_p(OPUS_GET_BITRATE_REQUEST, &br);
   enc_ctl_p(OPUS_GET_DTX_REQUEST, &dtx); enc_ctl_p(OPUS_GET_INBAND_FEC_REQUEST, &fec);
   hx_arm(120);
   if (o.kind == 1) ret = api == 0 ? opus_encode(o.e, a16, frame, out.p, mb) : api == 1 ? opus_encode24(o.e, a24, frame, out.p, mb) : opus_encode_float(o.e, in, frame, out.p, mb);
   else if (o.kind == 2) ret = api == 0 ? opus_multistream_encode(o.me, a16, frame, out.p, mb) : api == 1 ? opus_multistream_encode24(o.me, a24, frame, out.p, mb) : opus_multistream_encode_float(o.me, in, frame, out.p, mb);
   else ret = api == 0 ? opus_projection_encode(o.pe, a16, frame, out.p, mb) : api == 1 ? opus_projection_encode24(o.pe, a24, frame, out.p, mb) : opus_projection_encode_float(o.pe, in, frame, out.p, mb);
   hx_disarm();
   if (!hx_buf_ok(&out)) { js_open("Canary"); js_int("x", o.x); js_int("i", o.i); js_close(); fflush(stdout); _exit(96); }
   enc_ctl_p(OPUS_GET_FINAL_RANGE_REQUEST, &er);
   js_open("enc"); js_int("x", o.x); js_int("i", o.i); js_int("fs", frame); js_int("mb", mb); js_int("sig", sigk); js_int("api", api);
   js_int("dur", dur); js_int("vbr", vbr); js_int("br", br); js_int("dtx", dtx); js_int("fec", fec);
   js_int("r", ret);
   if (ret > 0) js_arr_b("h", out.p, o.kind == 1 ? (ret < HDR_KEEP ? ret : HDR_KEEP) : (ret < MS_KEEP ? ret : MS_KEEP));
   else printf(",\"h\":[]");
   js_rng("er", er);
   if (o.kind == 1) { js_int("md", opus_verif_encoder_peek(o.e, 0)); js_int("lb", ret > 0 ? opus_packet_has_lbrr(out.p, ret) : 0); }
   printf(",\"dec\":[");
   if (ret > 0) {
      unsigned char *pk = hx_exact(out.p, (size_t)ret);
      for (k = 0; k < o.nd; k++) {
         dec_t *d = &o.dec[k]; int cap = d->fo / 25 * 3, r; opus_uint32 dr = 0;
         size_t ssz = d->api == 0 ? 2 : 4;
         hx_buf po = hx_buf_new((size_t)cap * d->co * ssz, 0x3A);
         if (k == 0 && d->d) { for (hk = 0; hk < 7; hk++) pk0[hk] = opus_verif_decoder_peek(d->d, hk); }
         hx_arm(60);
         if (d->d) r = d->api == 0 ? opus_decode(d->d, pk, ret, (opus_int16 *)po.p, cap, 0) : d->api == 1 ? opus_decode24(d->d, pk, ret, (opus_int32 *)po.p, cap, 0)
                                                                                             : opus_decode_float(d->d, pk, ret, (float *)po.p, cap, 0);
         else if (d->md) r = d->api == 0 ? opus_multistream_decode(d->md, pk, ret, (opus_int16 *)po.p, cap, 0) : d->api == 1 ? opus_multistream_decode24(d->md, pk, ret, (opus_int32 *)po.p, cap, 0)
                                                                                                                : opus_multistream_decode_float(d->md, pk, ret, (float *)po.p, cap, 0);
         else r = d->api == 0 ? opus_projection_decode(d->pd, pk, ret, (opus_int16 *)po.p, cap, 0) : d->api == 1 ? opus_projection_decode24(d->pd, pk, ret, (opus_int32 *)po.p, cap, 0)
                                                                                                  : opus_projection_decode_float(d->pd, pk, ret, (float *)po.p, cap, 0);
         hx_disarm();
         if (!hx_buf_ok(&po)) { printf("]}\n"); js_open("Canary"); js_int("x", o.x); js_int("i", o.i); js_close(); fflush(stdout); _exit(96); }
         if (d->d) opus_decoder_ctl(d->d, OPUS_GET_FINAL_RANGE(&dr));
         else if (d->md) opus_multistream_decoder_ctl(d->md, OPUS_GET_FINAL_RANGE(&dr));
         else opus_projection_decoder_ctl(d->pd, OPUS_GET_FINAL_RANGE(&dr));
         printf("%s{\"fo\":%d,\"co\":%d,\"a\":%d,\"r\":%d,\"dr\":\"%08x\"}", k ? "," : "", d->fo, d->co, d->api, r, (unsigned)dr);
         if (k == 0 && d->d) { for (hk = 0; hk < 7; hk++) pk1[hk] = opus_verif_decoder_peek(d->d, hk); for (hk = 0; hk < 4; hk++) hs[hk] = opus_verif_decoder_peek(d->d, 11 + hk); havehs = 1; }
         hx_buf_free(&po);
      }
      free(pk);
   }
   printf("]");
   /* decoder 0: control state before / after the call and the handshake its last frame decided (hook fields 11..14) */
   if (havehs) { js_arr_i("pk0", pk0, 7); js_arr_i("pk1", pk1, 7); js_arr_i("hs", hs, 4); }
   js_close();
   o.i++;
   hx_buf_free(&out); free(in); free(a16); free(a24);
}

static int main_c02(void)
{
   static char line[8192]; int bad = 0;
   while (fgets(line, sizeof line, stdin)) {
      if (line[0] == 'N') { int r = c02_new(line); if (r < 0) { js_open("bad"); js_int("x", o.x); js_int("why", r); js_close(); o.kind = 0; bad++; } }
      else if (!o.kind) continue;
      else if (line[0] == 'S') {
         int req, r; long v;
         if (sscanf(line, "S %d %ld", &req, &v) != 2) continue;
         r = enc_ctl_i(req, (opus_int32)v);
         js_open("set"); js_int("x", o.x); js_int("req", req); js_int("v", v); js_int("r", r); js_close();
      } else if (line[0] == 'R') {
         int r = o.kind == 1 ? opus_encoder_ctl(o.e, OPUS_RESET_STATE) : o.kind == 2 ? opus_multistream_encoder_ctl(o.me, OPUS_RESET_STATE) : opus_projection_encoder_ctl(o.pe, OPUS_RESET_STATE);
         js_open("rst"); js_int("x", o.x); js_int("r", r); js_close();
      } else if (line[0] == 'E') {
         int frame, mb, sg, api;
         if (sscanf(line, "E %d %d %d %d", &frame, &mb, &sg, &api) != 4) continue;
         if (mb > 200000) mb = 200000;
         c02_encode(frame, mb, sg, api);
      }
   }
   c02_close();
   return bad ? 3 : 0;
}

/* ================================================================== C09 */
static struct {
   int on, x, Fs, ch, fo, co, U, npk, fec, dtx, w;
   int frame, oframe;           /* samples per packet at Fs / at fo */
   unsigned char *pkt[MAXPKT]; int len[MAXPKT]; opus_uint32 er[MAXPKT]; int lb[MAXPKT];
   unsigned char *snap;         /* twin decoder state before each packet */
   int dsize;
   float *twin;                 /* twin output, npk * oframe * co */
   float *ref;                  /* reference receiver output for the current window */
   long refpos0;
} s9;

static void c09_close(void)
{
   int i;
   if (!s9.on) return;
   js_open("endL"); js_int("x", s9.x); js_int("w", s9.w); js_close();
   for (i = 0; i < s9.npk; i++) free(s9.pkt[i]);
   free(s9.snap); free(s9.twin); free(s9.ref);
   { int x = s9.x; memset(&s9, 0, sizeof s9); s9.x = x; }
}

static void log_peek(OpusDecoder *d)
{
   int i, v[7];
   for (i = 0; i < 7; i++) v[i] = opus_verif_decoder_peek(d, i);
   js_arr_i("pk", v, 7);
}

static int c09_stream(char *line)
{
   int app, br, vbr, cx, loss, fmode, bw, sigk, err, i; unsigned long seed;
   OpusEncoder *e; OpusDecoder *tw; sgen_t sg; float *in; unsigned char buf[1500];
   c09_close();
   if (sscanf(line, "L %d %d %d %d %d %d %d %d %d %d %d %d %d %lu %d %d %d", &s9.Fs, &s9.ch, &app, &br, &vbr, &cx, &s9.fec, &loss, &s9.dtx,
              &s9.U, &fmode, &bw, &sigk, &seed, &s9.fo, &s9.co, &s9.npk) != 17) return -1;
   if (s9.npk < 1 || s9.npk > MAXPKT || s9.U < 1 || s9.U > 48) return -1;
   s9.x++;
   e = opus_encoder_create(s9.Fs, s9.ch, app, &err);
   tw = opus_decoder_create(s9.fo, s9.co, &err);
   if (!e || !tw) return -2;
   opus_encoder_ctl(e, OPUS_SET_BITRATE(br)); opus_encoder_ctl(e, OPUS_SET_VBR(vbr ? 1 : 0)); opus_encoder_ctl(e, OPUS_SET_VBR_CONSTRAINT(vbr == 2));
   opus_encoder_ctl(e, OPUS_SET_COMPLEXITY(cx)); opus_encoder_ctl(e, OPUS_SET_INBAND_FEC(s9.fec)); opus_encoder_ctl(e, OPUS_SET_PACKET_LOSS_PERC(loss));
   opus_encoder_ctl(e, OPUS_SET_DTX(s9.dtx));
   if (fmode) opus_encoder_ctl(e, OPUS_SET_FORCE_MODE(fmode));
   if (bw) opus_encoder_ctl(e, OPUS_SET_BANDWIDTH(bw));
   s9.frame = s9.Fs / 400 * s9.U; s9.oframe = s9.fo / 400 * s9.U;
   s9.dsize = opus_decoder_get_size(s9.co);
   s9.snap = (unsigned char *)malloc((size_t)s9.dsize * (size_t)(s9.npk + 1));
   s9.twin = (float *)malloc(sizeof(float) * (size_t)s9.npk * s9.oframe * s9.co);
   s9.ref = (float *)malloc(sizeof(float) * (size_t)s9.npk * s9.oframe * s9.co);
   in = (float *)malloc(sizeof(float) * (size_t)s9.frame * s9.ch);
   sig_init(&sg, seed);
   s9.on = 1; s9.w = 0;
   js_open("L"); js_int("x", s9.x); js_int("Fs", s9.Fs); js_int("ch", s9.ch); js_int("app", app); js_int("br", br); js_int("vbr", vbr); js_int("cx", cx);
   js_int("fec", s9.fec); js_int("loss", loss); js_int("dtx", s9.dtx); js_int("U", s9.U); js_int("fm", fmode); js_int("bw", bw); js_int("sig", sigk);
   js_int("fo", s9.fo); js_int("co", s9.co); js_int("npk", s9.npk); js_close();
   for (i = 0; i < s9.npk; i++) {
      int r, dr, bad = 0; opus_uint32 trng = 0; double ms;
      /* signal 10: speech-like with pauses (0.9 s on, 0.7 s digital silence) */
      int k = sigk == 10 ? ((long)i * s9.U % 640 < 360 ? 1 : 0) : sigk;
      if (sigk == 10 && k == 0) { sg.t += (double)s9.frame / s9.Fs; sg.n += s9.frame; memset(in, 0, sizeof(float) * (size_t)s9.frame * s9.ch); }
      else gen_sig(&sg, k, in, s9.frame, s9.ch, s9.Fs);
      hx_arm(60);
      r = opus_encode_float(e, in, s9.frame, buf, sizeof buf);
      hx_disarm();
      if (r <= 0) { js_open("bad"); js_int("x", s9.x); js_int("i", i); js_int("r", r); js_close(); s9.npk = i; break; }
      s9.pkt[i] = hx_exact(buf, (size_t)r); s9.len[i] = r;
      opus_encoder_ctl(e, OPUS_GET_FINAL_RANGE(&s9.er[i]));
      s9.lb[i] = opus_packet_has_lbrr(buf, r);
      memcpy(s9.snap + (size_t)s9.dsize * i, tw, (size_t)s9.dsize);
      dr = opus_decode_float(tw, s9.pkt[i], r, s9.twin + (size_t)i * s9.oframe * s9.co, s9.oframe, 0);
      opus_decoder_ctl(tw, OPUS_GET_FINAL_RANGE(&trng));
      ms = ms_of(s9.twin + (size_t)i * s9.oframe * s9.co, (size_t)s9.oframe * s9.co, &bad);
      /* one line per packet: what the encoder made and what the loss-free twin decoder returned */
      js_open("pk"); js_int("i", i); js_int("r", r); js_arr_b("h", buf, r < HDR_KEEP ? r : HDR_KEEP); js_int("lb", s9.lb[i]);
      js_rng("er", s9.er[i]); js_int("tr", dr); js_rng("tg", trng); js_int("tl", cdb_ms(ms, bad)); js_int("want", s9.oframe); js_close();
   }
   memcpy(s9.snap + (size_t)s9.dsize * s9.npk, tw, (size_t)s9.dsize);
   free(in);
   opus_encoder_destroy(e); opus_decoder_destroy(tw);
   return 0;
}

/* every sample the call says it produced must have been written: the buffer is poisoned with NaN before each call */
static void poison(float *x, size_t n) { size_t i; for (i = 0; i < n; i++) x[i] = NAN; }

/* run one token list; which = 0: receiver under test (events are printed), 1: reference receiver (output kept only) */
static void c09_run(int start, char *toks, int which)
{
   OpusDecoder *d = (OpusDecoder *)malloc((size_t)s9.dsize);
   long pos = (long)start * s9.oframe;       /* position on the stream's time line, samples at fo */
   long end = (long)s9.npk * s9.oframe;
   int next = start;                         /* next packet index for T tokens */
   int cap = s9.fo / 25 * 3, q = s9.fo / 400;
   size_t outn = (size_t)(cap > 48 * q ? cap : 48 * q) * 2 * s9.co;
   float *out = (float *)malloc(sizeof(float) * outn);
   char *tok;
   memcpy(d, s9.snap + (size_t)s9.dsize * start, (size_t)s9.dsize);
   if (which == 0) { js_open("W"); js_int("x", s9.x); js_int("w", s9.w); js_int("start", start); log_peek(d); js_close(); }
   for (tok = strtok(toks, " \t\r\n"); tok; tok = strtok(NULL, " \t\r\n")) {
      char t = tok[0]; int i = -1, u = 0, r = 0, nul = 0, fs = 0; opus_uint32 dr = 0;
      if (t == 'D' || t == 'X') { i = atoi(tok + 1); if (i < 0 || i >= s9.npk) break; }
      else if (t == 'P') u = atoi(tok + 1);
      else if (t == 'F') { char *c = strchr(tok, ':'); if (!c) break; i = atoi(tok + 1); u = atoi(c + 1); if (i < 0 || i >= s9.npk) break; }
      else if (t == 'T') {
         int n = atoi(tok + 1), m = 0, bad = 0, bad2 = 0, first = next; int rets[256], es[256], ts[256]; opus_uint32 ea[256], da[256]; long p0 = pos;
         double acc_e = 0, acc_s = 0; long acc_n = 0;
         if (n > 256) n = 256;
         next = (int)(pos / s9.oframe); first = next;      /* the packets that follow what has been played so far */
         while (m < n && next < s9.npk) {
            poison(out, outn);
            r = opus_decode_float(d, s9.pkt[next], s9.len[next], out, cap, 0);
            opus_decoder_ctl(d, OPUS_GET_FINAL_RANGE(&dr));
            rets[m] = r; ea[m] = s9.er[next]; da[m] = dr; es[m] = ts[m] = -20000; m++; next++;
            if (r > 0 && pos + r <= end) {
               if (which == 1) memcpy(s9.ref + (size_t)pos * s9.co, out, sizeof(float) * (size_t)r * s9.co);
               else {
                  int b1 = 0, b2 = 0;
                  double e1 = ms_diff(out, s9.twin + (size_t)pos * s9.co, (size_t)r * s9.co, &b1);
                  double e2 = ms_of(s9.twin + (size_t)pos * s9.co, (size_t)r * s9.co, &b2);
                  es[m - 1] = cdb_ms(e1, b1); ts[m - 1] = cdb_ms(e2, b2);       /* per packet: error vs twin, twin level */
                  bad |= b1; bad2 |= b2;
                  acc_e += e1 * r; acc_s += e2 * r; acc_n += r;
               }
               pos += r;
            }
         }
         if (which == 0) {
            js_open("rx"); js_str("t", "T"); js_int("p", p0 / q); js_int("i", first); js_int("n", m); js_int("u", (pos - p0) / q); js_int("want", s9.oframe);
            js_arr_i("rets", rets, m); js_arr_i("es", es, m); js_arr_i("ts", ts, m); js_dig("ed", ea, sizeof(opus_uint32) * (size_t)m); js_dig("dd", da, sizeof(opus_uint32) * (size_t)m);
            js_int("e", cdb_ms(acc_n ? acc_e / acc_n : 0, bad)); js_int("tl", cdb_ms(acc_n ? acc_s / acc_n : 0, bad2)); log_peek(d); js_close();
         }
         continue;
      } else break;
      /* single calls */
      poison(out, outn);
      if (t == 'D' || (t == 'X' && s9.len[i] > 2)) {
         fs = cap; r = opus_decode_float(d, s9.pkt[i], s9.len[i], out, cap, 0); next = i + 1;
      } else if (t == 'X') {
         nul = 1; u = s9.U; fs = u * q; r = opus_decode_float(d, NULL, 0, out, fs, 0); next = i + 1;
      } else if (t == 'P') {
         nul = 1; fs = u * q; r = opus_decode_float(d, NULL, 0, out, fs, 0);
      } else {
         fs = u * q; r = opus_decode_float(d, s9.pkt[i], s9.len[i], out, fs, 1);
      }
      opus_decoder_ctl(d, OPUS_GET_FINAL_RANGE(&dr));
      if (r > 0 && pos + r <= end) {
         if (which == 1) memcpy(s9.ref + (size_t)pos * s9.co, out, sizeof(float) * (size_t)r * s9.co);
         else {
            int bad = 0, bad2 = 0, bad3 = 0; double lv, tl, e;
            lv = ms_of(out, (size_t)r * s9.co, &bad);
            tl = ms_of(s9.twin + (size_t)pos * s9.co, (size_t)r * s9.co, &bad2);
            e = ms_diff(out, s9.twin + (size_t)pos * s9.co, (size_t)r * s9.co, &bad3);
            js_open("rx"); printf(",\"t\":\"%c\"", t); js_int("p", pos / q); js_int("i", i); js_int("u", u); js_int("fs", fs); js_int("r", r); js_int("nul", nul);
            if (i >= 0) { js_int("len", s9.len[i]); js_arr_b("h", s9.pkt[i], s9.len[i] < HDR_KEEP ? s9.len[i] : HDR_KEEP); js_int("lb", s9.lb[i]); js_rng("er", s9.er[i]); }
            js_rng("dr", dr); js_int("want", s9.oframe);
            js_int("lv", cdb_ms(lv, bad)); js_int("tl", cdb_ms(tl, bad2)); js_int("e", cdb_ms(e, bad || bad3));
            if (t == 'F') {
               /* the span the in-band FEC data is for: the last frame (of the packet used) of the request */
               int pf = opus_packet_get_samples_per_frame(s9.pkt[i], s9.fo); int sp = pf < r ? pf : r; long b = pos + r - sp; int b1 = 0, b2 = 0;
               double fe = ms_diff(out + (size_t)(r - sp) * s9.co, s9.twin + (size_t)b * s9.co, (size_t)sp * s9.co, &b1);
               double pe = ms_diff(s9.ref + (size_t)b * s9.co, s9.twin + (size_t)b * s9.co, (size_t)sp * s9.co, &b2);
               double sl = ms_of(s9.twin + (size_t)b * s9.co, (size_t)sp * s9.co, &b2);
               js_int("fe", lin5(fe, b1)); js_int("pe", lin5(pe, b2)); js_int("sl", lin5(sl, b2)); js_int("sp", sp / q);
            }
            log_peek(d); js_close();
         }
         pos += r;
      } else if (which == 0) {
         js_open("rx"); printf(",\"t\":\"%c\"", t); js_int("p", pos / q); js_int("i", i); js_int("u", u); js_int("fs", fs); js_int("r", r); js_int("nul", nul);
         if (i >= 0) { js_int("len", s9.len[i]); js_arr_b("h", s9.pkt[i], s9.len[i] < HDR_KEEP ? s9.len[i] : HDR_KEEP); js_int("lb", s9.lb[i]); js_rng("er", s9.er[i]); }
         js_rng("dr", dr); js_int("want", s9.oframe); js_int("lv", -20000); js_int("tl", -20000); js_int("e", -20000);
         if (t == 'F') { js_int("fe", 0); js_int("pe", 0); js_int("sl", 0); js_int("sp", 0); }
         log_peek(d); js_close();
         if (r > 0) pos += r;
      }
   }
   if (which == 0) { js_open("endW"); js_int("w", s9.w); js_int("pos", pos / q); js_close(); }
   free(out); free(d);
}

static int main_c09(void)
{
   static char line[1 << 16]; int bad = 0;
   while (fgets(line, sizeof line, stdin)) {
      if (line[0] == 'L') { int r = c09_stream(line); if (r < 0) { js_open("bad"); js_int("x", s9.x); js_int("why", r); js_close(); bad++; } }
      else if (line[0] == 'Z') c09_close();
      else if (line[0] == 'W' && s9.on) {
         int start; char *b1 = strchr(line, '|'), *b2;
         if (!b1) continue;
         b2 = strchr(b1 + 1, '|');
         if (b2) *b2 = 0;
         if (sscanf(line, "W %d", &start) != 1 || start < 0 || start >= s9.npk) continue;
         s9.w++;
         /* reference receiver first (its output over the window is needed while the receiver under test runs) */
         memcpy(s9.ref, s9.twin, sizeof(float) * (size_t)s9.npk * s9.oframe * s9.co);
         if (b2) c09_run(start, b2 + 1, 1);
         c09_run(start, b1 + 1, 0);
      }
   }
   c09_close();
   return bad ? 3 : 0;
}

int main(int argc, char **argv)
{
   hx_watchdog_init();
   if (argc >= 2 && !strcmp(argv[1], "c02")) return main_c02();
   if (argc >= 2 && !strcmp(argv[1], "c09")) return main_c09();
   fprintf(stderr, "usage: hx_link c02|c09 < script\n");
   return 2;
}
