/* hx_ms: drives the multistream / surround / projection API of the real library and records what
   happened (modules MS / MSTrace, property C10).  The harness executes and measures; every
   judgement is made by TLC on the recorded events.

   Commands, one per line on stdin:
     C dec  ch S C m1 .. m_ch          opus_multistream_decoder_create with that layout
     C enc  ch S C m1 .. m_ch          opus_multistream_encoder_create
     C surr f ch                       opus_multistream_surround_encoder_create
     C penc f ch                       opus_projection_ambisonics_encoder_create
     C pdec ch S C msz                 opus_projection_decoder_create with a matrix of msz bytes
     M                                 export the built-in matrices and what the projection ctls hand out
     D S fs cap b1 b2 ..               bytes to a multistream decoder of S mono streams
     X kind fs app br vbr frq maxb nfr loss fmt cx seed | layout
          kind enc: layout = ch S C m1..   kind surr / penc: layout = f ch
          frq = packet duration in 2.5 ms units; loss = bit mask of packets dropped on the way
          (bit i%30); fmt = sample format given to the encoder (0 int16, 1 int24, 2 float; +10: loud signal;
          +20: tone plus broadband noise, so that a VBR encoder uses all the bytes it is offered)
     H fs frq S C nfr variant seed | ch m1 .. m_ch
          packets put together from S independently coded streams (variant 1: one stream of a
          different duration, 2: every stream padded / split in two frames)
   Output: NDJSON events (see spec/MSTrace.tla). */
#include "hx_common.h"
#include "opus.h"
#include "opus_multistream.h"
#include "opus_projection.h"
#include "opus_private.h"
#include "mapping_matrix.h"
#include <math.h>

extern int opus_verif_encoder_peek(const OpusEncoder *st, int field);

#define MAXCH 256
#define NTONE 13
static double g_amp_last = 0.25;
static const double TONE_HZ[NTONE] = {300, 500, 700, 900, 1100, 1300, 1500, 1700, 1900, 2100, 2300, 2500, 100};

/* ---------------------------------------------------------------- small helpers */
static void js_key(const char *k) { printf(",\"%s\":", k); }
static void js_ints(const int *a, int n) { int i; putchar('['); for (i = 0; i < n; i++) printf(i ? ",%d" : "%d", a[i]); putchar(']'); }
static void js_bytes(const unsigned char *a, int n) { int i; putchar('['); for (i = 0; i < n; i++) printf(i ? ",%d" : "%d", a[i]); putchar(']'); }
static int hdr_keep(int len) { int k = 112 + len / 254; return len < k ? len : k; }

static char *next_int(char *q, long *v) { char *e; while (*q == ' ' || *q == '\t') q++; *v = strtol(q, &e, 10); return e == q ? NULL : e; }
static int read_ints(char *q, long *out, int max) { int n = 0; long v; while (n < max && (q = next_int(q, &v)) != NULL) out[n++] = v; return n; }

/* ---------------------------------------------------------------- create calls */
static void cr_layout(const char *t, long *a, int na)
{
   int ch = (int)a[0], S = (int)a[1], C = (int)a[2], i, err = 12345, n;
   unsigned char map[MAXCH + 8]; int mi[MAXCH + 8];
   n = na - 3; if (n > MAXCH) n = MAXCH; if (n < 0) n = 0;
   memset(map, 0, sizeof map);
   for (i = 0; i < n; i++) { map[i] = (unsigned char)a[3 + i]; mi[i] = map[i]; }
   js_open("cr"); js_str("t", t); js_int("ch", ch); js_int("S", S); js_int("C", C); js_key("map"); js_ints(mi, n);
   if (!strcmp(t, "dec")) {
      OpusMSDecoder *d = opus_multistream_decoder_create(48000, ch, S, C, map, &err);
      js_int("ok", d != NULL && err == OPUS_OK); js_int("err", err); js_int("nul", d == NULL);
      if (d) opus_multistream_decoder_destroy(d);
   } else {
      OpusMSEncoder *e = opus_multistream_encoder_create(48000, ch, S, C, map, OPUS_APPLICATION_AUDIO, &err);
      js_int("ok", e != NULL && err == OPUS_OK); js_int("err", err); js_int("nul", e == NULL);
      if (e) opus_multistream_encoder_destroy(e);
   }
   js_close();
}

static void cr_surr(int f, int ch)
{
   int S = -7, C = -7, err = 12345, i; unsigned char map[MAXCH + 8]; int mi[MAXCH + 8], lfe[MAXCH + 8];
   OpusMSEncoder *e;
   memset(map, 0xEE, sizeof map);
   e = opus_multistream_surround_encoder_create(48000, ch, f, &S, &C, map, OPUS_APPLICATION_AUDIO, &err);
   js_open("cr"); js_str("t", "surr"); js_int("f", f); js_int("ch", ch);
   js_int("ok", e != NULL && err == OPUS_OK); js_int("err", err); js_int("nul", e == NULL);
   if (e && ch >= 1 && ch <= 255 && S >= 1 && S <= 255) {
      for (i = 0; i < ch; i++) mi[i] = map[i];
      for (i = 0; i < S; i++) {
         OpusEncoder *se = NULL;
         lfe[i] = -1;
         if (opus_multistream_encoder_ctl(e, OPUS_MULTISTREAM_GET_ENCODER_STATE(i, &se)) == OPUS_OK && se) lfe[i] = opus_verif_encoder_peek(se, 22);
      }
      js_int("rS", S); js_int("rC", C); js_key("rmap"); js_ints(mi, ch); js_key("lfe"); js_ints(lfe, S);
   }
   js_close();
   if (e) opus_multistream_encoder_destroy(e);
}

static void cr_penc(int f, int ch)
{
   int S = -7, C = -7, err = 12345;
   OpusProjectionEncoder *e = opus_projection_ambisonics_encoder_create(48000, ch, f, &S, &C, OPUS_APPLICATION_AUDIO, &err);
   js_open("cr"); js_str("t", "penc"); js_int("f", f); js_int("ch", ch);
   js_int("ok", e != NULL && err == OPUS_OK); js_int("err", err); js_int("nul", e == NULL);
   if (e) { js_int("rS", S); js_int("rC", C); }
   js_close();
   if (e) opus_projection_encoder_destroy(e);
}

static void cr_pdec(int ch, int S, int C, int msz)
{
   int err = 12345, i; unsigned char *mx = (unsigned char *)calloc(msz > 0 ? msz : 1, 1);
   OpusProjectionDecoder *d;
   for (i = 0; i + 1 < msz; i += 2) { mx[i] = 0; mx[i + 1] = (i / 2) % 7 == 0 ? 0x40 : 0; }
   d = opus_projection_decoder_create(48000, ch, S, C, mx, msz, &err);
   js_open("cr"); js_str("t", "pdec"); js_int("ch", ch); js_int("S", S); js_int("C", C); js_int("msz", msz);
   js_int("ok", d != NULL && err == OPUS_OK); js_int("err", err); js_int("nul", d == NULL);
   js_close();
   if (d) opus_projection_decoder_destroy(d);
   free(mx);
}

/* ---------------------------------------------------------------- matrices */
static void js_i16(const char *k, const opus_int16 *a, int n) { int i; js_key(k); putchar('['); for (i = 0; i < n; i++) printf(i ? ",%d" : "%d", a[i]); putchar(']'); }

static void matrices(void)
{
   static const struct { const MappingMatrix *mm, *dm; const opus_int16 *md, *dd; } T[5] = {
      {&mapping_matrix_foa_mixing, &mapping_matrix_foa_demixing, mapping_matrix_foa_mixing_data, mapping_matrix_foa_demixing_data},
      {&mapping_matrix_soa_mixing, &mapping_matrix_soa_demixing, mapping_matrix_soa_mixing_data, mapping_matrix_soa_demixing_data},
      {&mapping_matrix_toa_mixing, &mapping_matrix_toa_demixing, mapping_matrix_toa_mixing_data, mapping_matrix_toa_demixing_data},
      {&mapping_matrix_fourthoa_mixing, &mapping_matrix_fourthoa_demixing, mapping_matrix_fourthoa_mixing_data, mapping_matrix_fourthoa_demixing_data},
      {&mapping_matrix_fifthoa_mixing, &mapping_matrix_fifthoa_demixing, mapping_matrix_fifthoa_mixing_data, mapping_matrix_fifthoa_demixing_data}};
   int o, j;
   for (o = 0; o < 5; o++) {
      int n = T[o].mm->rows;
      js_open("mx"); js_int("o", o + 1); js_int("n", n); js_int("mc", T[o].mm->cols); js_int("dr", T[o].dm->rows); js_int("dc", T[o].dm->cols);
      js_int("g", T[o].dm->gain); js_int("gm", T[o].mm->gain);
      js_i16("mix", T[o].md, T[o].mm->rows * T[o].mm->cols); js_i16("dmx", T[o].dd, T[o].dm->rows * T[o].dm->cols);
      js_close();
      for (j = 0; j < 2; j++) {
         int ch = (o + 2) * (o + 2) + 2 * j, S = -1, C = -1, err = 0; opus_int32 sz = -1, g = -99999;
         OpusProjectionEncoder *e = opus_projection_ambisonics_encoder_create(48000, ch, 3, &S, &C, OPUS_APPLICATION_AUDIO, &err);
         js_open("pm"); js_int("ch", ch); js_int("S", S); js_int("C", C); js_int("ok", e != NULL);
         if (e) {
            int r1 = opus_projection_encoder_ctl(e, OPUS_PROJECTION_GET_DEMIXING_MATRIX_SIZE(&sz));
            int r2 = opus_projection_encoder_ctl(e, OPUS_PROJECTION_GET_DEMIXING_MATRIX_GAIN(&g));
            hx_buf b = hx_buf_new(sz > 0 ? sz : 1, 0x77);
            int r3 = opus_projection_encoder_ctl(e, OPUS_PROJECTION_GET_DEMIXING_MATRIX(b.p, sz));
            int r4 = opus_projection_encoder_ctl(e, OPUS_PROJECTION_GET_DEMIXING_MATRIX(b.p, sz + 2));   /* wrong size: refused */
            js_int("r1", r1); js_int("r2", r2); js_int("r3", r3); js_int("r4", r4); js_int("sz", sz); js_int("g", g);
            js_key("db"); js_bytes(b.p, sz > 0 ? sz : 0);
            js_int("canary", hx_buf_ok(&b));
            hx_buf_free(&b);
            opus_projection_encoder_destroy(e);
         }
         js_int("tn", T[o].dm->rows); js_int("tg", T[o].dm->gain); js_i16("tdmx", T[o].dd, T[o].dm->rows * T[o].dm->cols);
         js_close();
      }
   }
}

/* ---------------------------------------------------------------- decoding a packet both ways */
typedef struct {
   int ch, S, C, fs, cap;
   unsigned char map[MAXCH];
   OpusMSDecoder *md[3];
   OpusDecoder **sd[3];            /* [fmt][stream] */
   /* tone statistics per decoded channel (slot) from the float stand-alone outputs */
   double *tre, *tim; long *tnum; long tpos; long tskip; long tcount;
   int minc;                       /* lowest TOC configuration number of any sub-packet decoded so far (32: none) */
} rig_t;

static int slot_base(const rig_t *g, int s) { return s < g->C ? 2 * s : s + g->C; }

static int rig_open(rig_t *g, int fs, int ch, int S, int C, const unsigned char *map)
{
   int f, s, err;
   memset(g, 0, sizeof *g);
   g->ch = ch; g->S = S; g->C = C; g->fs = fs; g->cap = fs / 25 * 3; g->minc = 32;
   memcpy(g->map, map, ch);
   for (f = 0; f < 3; f++) {
      g->md[f] = opus_multistream_decoder_create(fs, ch, S, C, map, &err);
      if (!g->md[f]) return -1;
      g->sd[f] = (OpusDecoder **)calloc(S, sizeof(OpusDecoder *));
      for (s = 0; s < S; s++) { g->sd[f][s] = opus_decoder_create(fs, s < C ? 2 : 1, &err); if (!g->sd[f][s]) return -1; }
   }
   g->tre = (double *)calloc((size_t)(S + C) * NTONE, sizeof(double));
   g->tim = (double *)calloc((size_t)(S + C) * NTONE, sizeof(double));
   g->tnum = (long *)calloc((size_t)(S + C), sizeof(long));
   return 0;
}

static void rig_close(rig_t *g)
{
   int f, s;
   for (f = 0; f < 3; f++) {
      if (g->md[f]) opus_multistream_decoder_destroy(g->md[f]);
      if (g->sd[f]) { for (s = 0; s < g->S; s++) if (g->sd[f][s]) opus_decoder_destroy(g->sd[f][s]); free(g->sd[f]); }
   }
   free(g->tre); free(g->tim); free(g->tnum);
}

static const size_t SSZ[3] = {sizeof(opus_int16), sizeof(opus_int32), sizeof(float)};

static int ms_decode(rig_t *g, int f, const unsigned char *d, int n, void *out, int cap)
{
   if (f == 0) return opus_multistream_decode(g->md[0], d, n, (opus_int16 *)out, cap, 0);
   if (f == 1) return opus_multistream_decode24(g->md[1], d, n, (opus_int32 *)out, cap, 0);
   return opus_multistream_decode_float(g->md[2], d, n, (float *)out, cap, 0);
}
static int sa_decode(rig_t *g, int f, int s, const unsigned char *d, int n, void *out, int cap)
{
   if (f == 0) return opus_decode(g->sd[0][s], d, n, (opus_int16 *)out, cap, 0);
   if (f == 1) return opus_decode24(g->sd[1][s], d, n, (opus_int32 *)out, cap, 0);
   return opus_decode_float(g->sd[2][s], d, n, (float *)out, cap, 0);
}

/* digest of channel c of an interleaved buffer (nch channels, n samples, sample size sz) */
static uint64_t chan_digest(const unsigned char *buf, int nch, int c, int n, size_t sz, int *allzero)
{
   uint64_t h = 1469598103934665603ULL; int i; size_t k; int z = 1;
   for (i = 0; i < n; i++) {
      const unsigned char *p = buf + ((size_t)i * nch + c) * sz;
      for (k = 0; k < sz; k++) { h ^= p[k]; h *= 1099511628211ULL; if (p[k]) z = 0; }
   }
   *allzero = z;
   return h;
}
/* float zero test must treat -0.0 as zero; ints are zero iff all bytes are zero */
static uint64_t chan_digest_f(const unsigned char *buf, int nch, int c, int n, int f, int *allzero)
{
   if (f == 2) {
      uint64_t h = 1469598103934665603ULL; int i, k, z = 1;
      for (i = 0; i < n; i++) {
         const unsigned char *p = buf + ((size_t)i * nch + c) * 4; float v;
         for (k = 0; k < 4; k++) { h ^= p[k]; h *= 1099511628211ULL; }
         memcpy(&v, p, 4); if (v != 0) z = 0;
      }
      *allzero = z; return h;
   }
   return chan_digest(buf, nch, c, n, SSZ[f], allzero);
}

static void tone_feed(rig_t *g, int slot, const float *x, int stride, int n, long pos0)
{
   int i, t;
   for (i = 0; i < n; i++) {
      long p = pos0 + i; double v;
      if (p < g->tskip) continue;
      v = x[(size_t)i * stride];
      g->tnum[slot]++;
      for (t = 0; t < NTONE; t++) {
         double ph = 2 * M_PI * TONE_HZ[t] * (double)p / g->fs;
         g->tre[slot * NTONE + t] += v * cos(ph);
         g->tim[slot * NTONE + t] += v * sin(ph);
      }
   }
}

/* level of the strongest tone relative to the amplitude the generator used, in centi-dB: a sinusoid of amplitude A
   correlated over n samples gives |X| = A n / 2 */
static int tone_level(const double *re, const double *im, int best, long n)
{
   double e = re[best] * re[best] + im[best] * im[best], a;
   if (n <= 0 || e <= 0) return -99999;
   a = 2.0 * sqrt(e) / (double)n;
   a = 2000.0 * log10(a / g_amp_last);
   if (a < -99999) a = -99999;
   return (int)floor(a);
}

static void tone_result(const double *re, const double *im, int *best, int *margin_cdb)
{
   int t, b = 0, b2 = -1; double e[NTONE];
   for (t = 0; t < NTONE; t++) e[t] = re[t] * re[t] + im[t] * im[t];
   for (t = 1; t < NTONE; t++) if (e[t] > e[b]) b = t;
   for (t = 0; t < NTONE; t++) if (t != b && (b2 < 0 || e[t] > e[b2])) b2 = t;
   *best = b;
   if (e[b] <= 0) *margin_cdb = -9999;
   else if (e[b2] <= 0) *margin_cdb = 9999;
   else { double m = 1000.0 * log10(e[b] / e[b2]); if (m > 9999) m = 9999; *margin_cdb = (int)floor(m); }
}

/* One packet (or a loss when n == 0) through the multistream decoders and the stand-alone ones.
   kind: "enc" "surr" "penc" "hand".  known_offs != NULL: the seams are known by construction. */
static void do_packet(rig_t *g, const char *kind, int x, int idx, const unsigned char *pkt, int n, int fr, int maxb, int vbr,
                      const int *known_offs, const opus_uint32 *er)
{
   int S = g->S, ch = g->ch, s, f, c, i;
   int *so = (int *)calloc(S + 1, sizeof(int)), *sk = (int *)calloc(S + 1, sizeof(int)), *sp = (int *)calloc(S + 1, sizeof(int));
   int *sl = (int *)calloc(S + 1, sizeof(int)), *sc = (int *)calloc(S + 1, sizeof(int));
   unsigned char **stdp = (unsigned char **)calloc(S, sizeof(unsigned char *)); int *stdn = (int *)calloc(S, sizeof(int));
   int nsplit = 0, off = 0, split_ok = 1, cap = g->cap;
   int rm[3], *rs[3];
   hx_buf mo[3]; unsigned char *sob;
   int mi[MAXCH];
   unsigned char *data = hx_exact(pkt, n);

   for (f = 0; f < 3; f++) rs[f] = (int *)calloc(S, sizeof(int));
   if (n == 0) {
      /* lost packet: everybody conceals fr samples; recorded, not judged */
      for (f = 0; f < 3; f++) {
         mo[f] = hx_buf_new((size_t)cap * ch * SSZ[f], 0x5C);
         rm[f] = ms_decode(g, f, NULL, 0, mo[f].p, fr);
         sob = (unsigned char *)malloc((size_t)cap * 2 * SSZ[f]);
         for (s = 0; s < S; s++) rs[f][s] = sa_decode(g, f, s, NULL, 0, sob, fr);
         free(sob); hx_buf_free(&mo[f]);
      }
      g->tpos += fr;
      js_open("ls"); js_int("x", x); js_int("i", idx); js_key("rm"); js_ints(rm, 3); js_close();
      goto done;
   }
   /* split */
   for (s = 0; s < S; s++) {
      unsigned char toc = 0; opus_int16 size[48]; int po = -1; opus_int32 ko = -1; int cnt;
      if (known_offs) off = known_offs[s];
      if (off >= n) { split_ok = 0; break; }
      so[s] = off;
      cnt = opus_packet_parse_impl(data + off, n - off, s != S - 1, &toc, NULL, size, &po, &ko, NULL, NULL);
      nsplit = s + 1;
      if (cnt <= 0) { split_ok = 0; sk[s] = cnt; if (known_offs) continue; else break; }
      sk[s] = ko; sp[s] = po; sc[s] = cnt; sl[s] = size[cnt - 1];
      if ((toc >> 3) < g->minc) g->minc = toc >> 3;
      if (s != S - 1) {
         int kk = size[cnt - 1] < 252 ? 1 : 2;
         stdn[s] = ko - kk; stdp[s] = (unsigned char *)malloc(stdn[s] > 0 ? stdn[s] : 1);
         memcpy(stdp[s], data + off, po - kk); memcpy(stdp[s] + po - kk, data + off + po, ko - po);
      } else { stdn[s] = n - off; stdp[s] = hx_exact(data + off, n - off); }
      off += ko;
   }
   /* decode */
   for (f = 0; f < 3; f++) {
      mo[f] = hx_buf_new((size_t)cap * ch * SSZ[f], 0x5C);
      hx_arm(60);
      rm[f] = ms_decode(g, f, data, n, mo[f].p, cap);
      hx_disarm();
   }
   js_open("pk"); js_str("t", kind); js_int("x", x); js_int("i", idx); js_int("ch", ch); js_int("S", S); js_int("C", g->C);
   for (c = 0; c < ch; c++) mi[c] = g->map[c];
   js_key("map"); js_ints(mi, ch);
   js_int("fs", g->fs); js_int("fr", fr); js_int("n", n); js_int("maxb", maxb); js_int("vbr", vbr);
   js_key("so"); js_ints(so, nsplit);
   js_key("sh"); putchar('[');
   for (s = 0; s < nsplit; s++) {
      /* the framing header: when the library's parser located the payload (sp) the bytes up to there and a
         few more are enough - the specification reads the header front to back, so if it arrives at the
         same payload offset it has only seen real bytes; otherwise everything a header can span */
      int kk = hdr_keep(n - so[s]);
      if (sk[s] > 0 && sp[s] + 4 < kk) kk = sp[s] + 4;
      while (kk > 0 && data[so[s] + kk - 1] == 0) kk--;
      if (s) putchar(',');
      js_bytes(data + so[s], kk);
   }
   putchar(']');
   js_key("sk"); js_ints(sk, nsplit); js_key("sp"); js_ints(sp, nsplit); js_key("sl"); js_ints(sl, nsplit); js_key("sc"); js_ints(sc, nsplit);
   js_key("rm"); js_ints(rm, 3);
   { int cz = 1; for (f = 0; f < 3; f++) if (!hx_buf_ok(&mo[f])) cz = 0; js_int("canary", cz); }
   /* per output channel */
   js_key("dm"); putchar('[');
   for (f = 0; f < 3; f++) {
      putchar(f ? ',' : ' '); putchar('[');
      for (c = 0; c < ch; c++) { int z; uint64_t h = rm[f] > 0 ? chan_digest_f(mo[f].p, ch, c, rm[f], f, &z) : 0; printf(c ? ",\"%016llx\"" : "\"%016llx\"", (unsigned long long)h); }
      putchar(']');
   }
   putchar(']');
   js_key("zm"); putchar('[');
   for (f = 0; f < 3; f++) {
      putchar(f ? ',' : ' '); putchar('[');
      for (c = 0; c < ch; c++) { int z = 0; if (rm[f] > 0) (void)chan_digest_f(mo[f].p, ch, c, rm[f], f, &z); printf(c ? ",%d" : "%d", z); }
      putchar(']');
   }
   putchar(']');
   /* stand-alone decoders: only when the multistream decoder took the packet (a refused packet must
      not advance anybody's state) and the split is complete */
   if (split_ok && rm[0] > 0 && rm[1] > 0 && rm[2] > 0) {
      opus_uint32 *dr = (opus_uint32 *)calloc((size_t)3 * S, sizeof(opus_uint32));
      js_key("ds"); putchar('[');
      for (f = 0; f < 3; f++) {
         putchar(f ? ',' : ' '); putchar('[');
         sob = (unsigned char *)malloc((size_t)cap * 2 * SSZ[f]);
         for (s = 0; s < S; s++) {
            int nc = s < g->C ? 2 : 1, z, q;
            hx_arm(60);
            rs[f][s] = sa_decode(g, f, s, stdp[s], stdn[s], sob, cap);
            hx_disarm();
            opus_decoder_ctl(g->sd[f][s], OPUS_GET_FINAL_RANGE(&dr[f * S + s]));
            if (s) putchar(',');
            putchar('[');
            for (q = 0; q < nc; q++) {
               uint64_t h = rs[f][s] > 0 ? chan_digest_f(sob, nc, q, rs[f][s], f, &z) : 1;
               printf(q ? ",\"%016llx\"" : "\"%016llx\"", (unsigned long long)h);
               if (f == 2 && rs[f][s] > 0) tone_feed(g, slot_base(g, s) + q, (const float *)sob + q, nc, rs[f][s], g->tpos);
            }
            putchar(']');
         }
         free(sob);
         putchar(']');
      }
      putchar(']');
      js_key("rs"); putchar('[');
      for (f = 0; f < 3; f++) { if (f) putchar(','); js_ints(rs[f], S); }
      putchar(']');
      if (er) {
         /* final range of each stream's encoder after it produced this packet, and of the stand-alone decoder that
            was given the piece of the packet that belongs to the stream (32-bit words: logged as strings, R6) */
         js_key("er"); putchar('[');
         for (s = 0; s < S; s++) printf(s ? ",\"%08x\"" : "\"%08x\"", (unsigned)er[s]);
         putchar(']');
         js_key("dr"); putchar('[');
         for (f = 0; f < 3; f++) {
            putchar(f ? ',' : ' '); putchar('[');
            for (s = 0; s < S; s++) printf(s ? ",\"%08x\"" : "\"%08x\"", (unsigned)dr[f * S + s]);
            putchar(']');
         }
         putchar(']');
      }
      free(dr);
      if (rm[2] > 0) { g->tpos += rm[2]; g->tcount += rm[2]; }
   }
   js_close();
   for (f = 0; f < 3; f++) hx_buf_free(&mo[f]);
done:
   for (s = 0; s < S; s++) free(stdp[s]);
   for (f = 0; f < 3; f++) free(rs[f]);
   free(stdp); free(stdn); free(so); free(sk); free(sp); free(sl); free(sc); free(data);
   (void)i;
}

/* ---------------------------------------------------------------- signals */
static double g_amp = 0.25;      /* tone amplitude; 1.4 in "loud" executions (decoded peaks beyond full scale: soft clipping, saturation) */
static double g_noise = 0.0008;  /* amplitude of the uniform noise added to every channel; 0.08 in "noisy" executions */
static void gen_frame(float *x, int ch, int n, long pos, int fs, const int *ct, uint64_t seed)
{
   int c, i;
   for (c = 0; c < ch; c++) {
      hx_rng r; double f = TONE_HZ[ct[c]];
      r.s = seed * 1000003ULL + (uint64_t)c * 7919ULL + (uint64_t)pos;
      for (i = 0; i < n; i++) {
         double v = g_amp * sin(2 * M_PI * f * (double)(pos + i) / fs + 0.37 * c) + g_noise * (hx_unit(&r) * 2 - 1);
         x[(size_t)i * ch + c] = (float)v;
      }
   }
}

/* ---------------------------------------------------------------- executions with an encoder */
static int g_exno;

static int run_x(char *line)
{
   char kind[16]; int fs, app, br, vbr, frq, maxb, nfr, loss, fmt, cx; unsigned long seed;
   char *bar = strchr(line, '|'); long a[MAXCH + 8]; int na;
   int ch = 0, S = 0, C = 0, fam = -1, i, err = 0, fr, pk;
   unsigned char map[MAXCH + 8]; int ct[MAXCH + 8];
   OpusMSEncoder *me = NULL; OpusProjectionEncoder *pe = NULL; OpusProjectionDecoder *pd[3] = {NULL, NULL, NULL};
   rig_t g; float *in; opus_int16 *in16; opus_int32 *in24; hx_buf out; opus_uint32 *er;
   double *pre = NULL, *pim = NULL; long ppos = 0, pnum = 0; opus_int32 pgain = 0;
   if (!bar) return -1;
   *bar = 0;
   if (sscanf(line, "X %15s %d %d %d %d %d %d %d %d %d %d %lu", kind, &fs, &app, &br, &vbr, &frq, &maxb, &nfr, &loss, &fmt, &cx, &seed) != 12) return -1;
   na = read_ints(bar + 1, a, MAXCH + 8);
   memset(map, 0, sizeof map);
   g_amp = fmt / 10 == 1 ? 1.4 : 0.25; g_noise = fmt / 10 == 2 ? 0.08 : 0.0008; fmt %= 10; g_amp_last = g_amp;   /* fmt 10..12: loud, 20..22: noisy */
   if (!strcmp(kind, "enc")) {
      if (na < 4) return -1;
      ch = (int)a[0]; S = (int)a[1]; C = (int)a[2];
      if (ch < 1 || ch > 255 || na < 3 + ch) return -1;
      for (i = 0; i < ch; i++) map[i] = (unsigned char)a[3 + i];
      me = opus_multistream_encoder_create(fs, ch, S, C, map, app, &err);
   } else if (!strcmp(kind, "surr")) {
      if (na < 2) return -1;
      fam = (int)a[0]; ch = (int)a[1];
      me = opus_multistream_surround_encoder_create(fs, ch, fam, &S, &C, map, app, &err);
   } else if (!strcmp(kind, "penc")) {
      if (na < 2) return -1;
      fam = (int)a[0]; ch = (int)a[1];
      pe = opus_projection_ambisonics_encoder_create(fs, ch, fam, &S, &C, app, &err);
      for (i = 0; i < ch && i < 255; i++) map[i] = (unsigned char)i;
   } else return -1;
   g_exno++;
   if (!me && !pe) { js_open("ef"); js_int("x", g_exno); js_str("t", kind); js_int("err", err); js_str("at", "create"); js_close(); return 0; }
   fr = fs / 400 * frq;
   for (i = 0; i < ch; i++) ct[i] = i % 12;
   if (!strcmp(kind, "surr") && fam == 1 && ch >= 6) ct[ch - 1] = 12;       /* the LFE gets a tone it can carry */
   if (me) {
      opus_multistream_encoder_ctl(me, OPUS_SET_BITRATE(br)); opus_multistream_encoder_ctl(me, OPUS_SET_VBR(vbr ? 1 : 0));
      opus_multistream_encoder_ctl(me, OPUS_SET_VBR_CONSTRAINT(vbr == 2)); opus_multistream_encoder_ctl(me, OPUS_SET_COMPLEXITY(cx));
   } else {
      opus_projection_encoder_ctl(pe, OPUS_SET_BITRATE(br)); opus_projection_encoder_ctl(pe, OPUS_SET_VBR(vbr ? 1 : 0));
      opus_projection_encoder_ctl(pe, OPUS_SET_VBR_CONSTRAINT(vbr == 2)); opus_projection_encoder_ctl(pe, OPUS_SET_COMPLEXITY(cx));
   }
   if (rig_open(&g, fs, ch, S, C, map) < 0) { js_open("ef"); js_int("x", g_exno); js_str("t", kind); js_str("at", "rig"); js_close(); return 0; }
   g.tskip = fr > fs / 50 ? fr : fs / 50;      /* leave the first packet (at least 20 ms) out of the tone statistics */
   if (pe) {
      opus_int32 sz = 0; unsigned char *mx;
      opus_projection_encoder_ctl(pe, OPUS_PROJECTION_GET_DEMIXING_MATRIX_SIZE(&sz));
      opus_projection_encoder_ctl(pe, OPUS_PROJECTION_GET_DEMIXING_MATRIX_GAIN(&pgain));
      mx = (unsigned char *)malloc(sz > 0 ? sz : 1);
      opus_projection_encoder_ctl(pe, OPUS_PROJECTION_GET_DEMIXING_MATRIX(mx, sz));
      for (i = 0; i < 3; i++) pd[i] = opus_projection_decoder_create(fs, ch, S, C, mx, sz, &err);
      free(mx);
      pre = (double *)calloc((size_t)3 * ch * NTONE, sizeof(double)); pim = (double *)calloc((size_t)3 * ch * NTONE, sizeof(double));
   }
   in = (float *)malloc(sizeof(float) * (size_t)fr * ch); in16 = (opus_int16 *)malloc(sizeof(opus_int16) * (size_t)fr * ch);
   in24 = (opus_int32 *)malloc(sizeof(opus_int32) * (size_t)fr * ch);
   out = hx_buf_new(maxb > 0 ? maxb : 1, 0xC3);
   er = (opus_uint32 *)calloc(S > 0 ? S : 1, sizeof(opus_uint32));
   for (pk = 0; pk < nfr; pk++) {
      int n, k, er_ok = 1;
      gen_frame(in, ch, fr, (long)pk * fr, fs, ct, seed);
      for (k = 0; k < fr * ch; k++) {
         double v16 = in[k] * 32768.0, v24 = in[k] * 8388608.0;
         in16[k] = (opus_int16)lrint(v16 > 32767 ? 32767 : v16 < -32768 ? -32768 : v16);
         in24[k] = (opus_int32)lrint(v24 > 8388607 ? 8388607 : v24 < -8388608 ? -8388608 : v24);
      }
      hx_arm(120);
      if (me) n = fmt == 0 ? opus_multistream_encode(me, in16, fr, out.p, maxb) : fmt == 1 ? opus_multistream_encode24(me, in24, fr, out.p, maxb)
                                                                                 : opus_multistream_encode_float(me, in, fr, out.p, maxb);
      else n = fmt == 0 ? opus_projection_encode(pe, in16, fr, out.p, maxb) : fmt == 1 ? opus_projection_encode24(pe, in24, fr, out.p, maxb)
                                                                         : opus_projection_encode_float(pe, in, fr, out.p, maxb);
      hx_disarm();
      if (!hx_buf_ok(&out)) { js_open("ef"); js_int("x", g_exno); js_str("t", kind); js_str("at", "canary"); js_close(); fflush(stdout); abort(); }
      if (n <= 0) { js_open("ef"); js_int("x", g_exno); js_str("t", kind); js_int("i", pk); js_int("err", n); js_int("maxb", maxb); js_str("at", "encode"); js_close(); continue; }
      for (k = 0; k < S; k++) {
         OpusEncoder *se = NULL;
         int rr = me ? opus_multistream_encoder_ctl(me, OPUS_MULTISTREAM_GET_ENCODER_STATE(k, &se))
                     : opus_projection_encoder_ctl(pe, OPUS_MULTISTREAM_GET_ENCODER_STATE(k, &se));
         if (rr != OPUS_OK || !se || opus_encoder_ctl(se, OPUS_GET_FINAL_RANGE(&er[k])) != OPUS_OK) er_ok = 0;
      }
      if ((loss >> (pk % 30)) & 1) n = 0;
      do_packet(&g, kind, g_exno, pk, out.p, n, fr, maxb, vbr ? 1 : 0, NULL, er_ok ? er : NULL);
      if (pe && pd[0] && pd[1] && pd[2]) {
         /* the same packet through projection decoders of the three formats; tone statistics of their outputs */
         int f;
         for (f = 0; f < 3; f++) {
            hx_buf po = hx_buf_new((size_t)g.cap * ch * SSZ[f], 0x3A); int r, c, j, t;
            if (f == 0) r = opus_projection_decode(pd[0], n ? out.p : NULL, n, (opus_int16 *)po.p, n ? g.cap : fr, 0);
            else if (f == 1) r = opus_projection_decode24(pd[1], n ? out.p : NULL, n, (opus_int32 *)po.p, n ? g.cap : fr, 0);
            else r = opus_projection_decode_float(pd[2], n ? out.p : NULL, n, (float *)po.p, n ? g.cap : fr, 0);
            if (!hx_buf_ok(&po)) { fflush(stdout); abort(); }
            for (j = 0; j < r; j++) {
               long p = ppos + j;
               if (p < g.tskip) continue;
               if (f == 2) pnum++;
               for (c = 0; c < ch; c++) {
                  double v = f == 0 ? ((opus_int16 *)po.p)[(size_t)j * ch + c] / 32768.0 : f == 1 ? ((opus_int32 *)po.p)[(size_t)j * ch + c] / 8388608.0
                                                                                         : ((float *)po.p)[(size_t)j * ch + c];
                  for (t = 0; t < NTONE; t++) {
                     double ph = 2 * M_PI * TONE_HZ[t] * (double)p / fs;
                     pre[((size_t)f * ch + c) * NTONE + t] += v * cos(ph); pim[((size_t)f * ch + c) * NTONE + t] += v * sin(ph);
                  }
               }
            }
            if (f == 2 && r > 0) ppos += r;
            hx_buf_free(&po);
         }
      }
   }
   /* tone statistics */
   {
      int nsl = S + C, k, *si = (int *)calloc(nsl, sizeof(int)), *sm = (int *)calloc(nsl, sizeof(int));
      long brc = br > 0 ? br / (S + C) : br;
      int *sv = (int *)calloc(nsl, sizeof(int));
      for (k = 0; k < nsl; k++) {
         tone_result(g.tre + (size_t)k * NTONE, g.tim + (size_t)k * NTONE, &si[k], &sm[k]);
         sv[k] = tone_level(g.tre + (size_t)k * NTONE, g.tim + (size_t)k * NTONE, si[k], g.tnum[k]);
      }
      if (!pe) {
         int mi[MAXCH];
         js_open("tn"); js_str("t", kind); js_int("x", g_exno); js_int("f", fam); js_int("ch", ch); js_int("S", S); js_int("C", C);
         for (i = 0; i < ch; i++) mi[i] = map[i];
         js_key("map"); js_ints(mi, ch); js_int("fs", fs); js_int("br", br); js_int("brc", brc); js_int("vbr", vbr); js_int("fr", fr); js_int("maxb", maxb);
         js_int("ms", (long)(g.tcount > g.tskip ? (g.tcount - g.tskip) : 0) * 1000 / fs); js_int("loss", loss); js_int("minc", g.minc);
         js_key("ct"); js_ints(ct, ch); js_key("si"); js_ints(si, nsl); js_key("sm"); js_ints(sm, nsl); js_key("sv"); js_ints(sv, nsl);
         js_int("loud", g_amp > 1.0 || g_noise > 0.01);
         js_close();
      } else if (pre) {
         int f, c;
         js_open("pt"); js_str("t", kind); js_int("x", g_exno); js_int("f", fam); js_int("ch", ch); js_int("S", S); js_int("C", C);
         js_int("fs", fs); js_int("br", br); js_int("brc", brc); js_int("vbr", vbr); js_int("fr", fr); js_int("maxb", maxb); js_int("fmt", fmt);
         js_int("ms", (long)(ppos > g.tskip ? (ppos - g.tskip) : 0) * 1000 / fs); js_int("loss", loss); js_int("minc", g.minc);
         js_key("ct"); js_ints(ct, ch);
         js_key("po"); putchar('[');
         for (f = 0; f < 3; f++) { if (f) putchar(','); putchar('['); for (c = 0; c < ch; c++) { int b, m; tone_result(pre + ((size_t)f * ch + c) * NTONE, pim + ((size_t)f * ch + c) * NTONE, &b, &m); printf(c ? ",%d" : "%d", b); } putchar(']'); }
         putchar(']');
         js_key("pg"); putchar('[');
         for (f = 0; f < 3; f++) { if (f) putchar(','); putchar('['); for (c = 0; c < ch; c++) { int b, m; tone_result(pre + ((size_t)f * ch + c) * NTONE, pim + ((size_t)f * ch + c) * NTONE, &b, &m); printf(c ? ",%d" : "%d", m); } putchar(']'); }
         putchar(']');
         js_key("pv"); putchar('[');
         for (f = 0; f < 3; f++) { if (f) putchar(','); putchar('['); for (c = 0; c < ch; c++) { int b, m; tone_result(pre + ((size_t)f * ch + c) * NTONE, pim + ((size_t)f * ch + c) * NTONE, &b, &m);
               printf(c ? ",%d" : "%d", tone_level(pre + ((size_t)f * ch + c) * NTONE, pim + ((size_t)f * ch + c) * NTONE, b, pnum)); } putchar(']'); }
         putchar(']');
         js_int("g", pgain); js_int("loud", g_amp > 1.0 || g_noise > 0.01);
         js_close();
      }
      free(si); free(sm); free(sv);
   }
   js_open("end"); js_int("x", g_exno); js_close();
   free(in); free(in16); free(in24); hx_buf_free(&out); free(pre); free(pim); free(er);
   rig_close(&g);
   for (i = 0; i < 3; i++) if (pd[i]) opus_projection_decoder_destroy(pd[i]);
   if (me) opus_multistream_encoder_destroy(me);
   if (pe) opus_projection_encoder_destroy(pe);
   return 0;
}

/* ---------------------------------------------------------------- packets put together by hand */
static int run_h(char *line)
{
   int fs, frq, S, C, nfr, variant; unsigned long seed; char *bar = strchr(line, '|'); long a[MAXCH + 8]; int na;
   int ch, i, s, pk, fr, err; unsigned char map[MAXCH + 8]; rig_t g; hx_rng r;
   OpusEncoder **enc; int *ct, *halves; float *in; unsigned char *tmp, *tmp2, *msp; int *offs; opus_uint32 *er;
   static const int bws[5] = {OPUS_BANDWIDTH_NARROWBAND, OPUS_BANDWIDTH_MEDIUMBAND, OPUS_BANDWIDTH_WIDEBAND, OPUS_BANDWIDTH_SUPERWIDEBAND, OPUS_BANDWIDTH_FULLBAND};
   if (!bar) return -1;
   *bar = 0;
   if (sscanf(line, "H %d %d %d %d %d %d %lu", &fs, &frq, &S, &C, &nfr, &variant, &seed) != 7) return -1;
   na = read_ints(bar + 1, a, MAXCH + 8);
   if (na < 2) return -1;
   ch = (int)a[0]; if (ch < 1 || ch > 255 || na < 1 + ch || S < 1 || S > 255 || C < 0 || C > S) return -1;
   for (i = 0; i < ch; i++) map[i] = (unsigned char)a[1 + i];
   g_exno++;
   if (rig_open(&g, fs, ch, S, C, map) < 0) { js_open("ef"); js_int("x", g_exno); js_str("t", "hand"); js_str("at", "rig"); js_close(); return 0; }
   g.tskip = 1L << 40;
   r.s = seed;
   g_amp = (seed % 3 == 0) ? 1.4 : 0.25; g_noise = 0.0008;
   fr = fs / 400 * frq;
   er = (opus_uint32 *)calloc(S, sizeof(opus_uint32));
   enc = (OpusEncoder **)calloc(S, sizeof(OpusEncoder *)); ct = (int *)calloc(2 * S, sizeof(int)); halves = (int *)calloc(S, sizeof(int));
   for (s = 0; s < S; s++) {
      static const int apps[3] = {OPUS_APPLICATION_VOIP, OPUS_APPLICATION_AUDIO, OPUS_APPLICATION_RESTRICTED_LOWDELAY};
      int nc = s < C ? 2 : 1, app = apps[hx_u(&r, 3)], mode = hx_u(&r, 4);
      enc[s] = opus_encoder_create(fs, nc, app, &err);
      opus_encoder_ctl(enc[s], OPUS_SET_BITRATE(hx_range(&r, 8, 96) * 1000));
      opus_encoder_ctl(enc[s], OPUS_SET_COMPLEXITY(hx_range(&r, 0, 6)));
      opus_encoder_ctl(enc[s], OPUS_SET_VBR(hx_u(&r, 2)));
      if (hx_u(&r, 2)) opus_encoder_ctl(enc[s], OPUS_SET_BANDWIDTH(bws[hx_u(&r, 5)]));
      if (app != OPUS_APPLICATION_RESTRICTED_LOWDELAY) {
         if (mode == 1 && frq >= 4) opus_encoder_ctl(enc[s], OPUS_SET_FORCE_MODE(MODE_SILK_ONLY));
         else if (mode == 2) opus_encoder_ctl(enc[s], OPUS_SET_FORCE_MODE(MODE_CELT_ONLY));
      }
      if (hx_u(&r, 4) == 0) opus_encoder_ctl(enc[s], OPUS_SET_DTX(1));
      ct[2 * s] = (2 * s) % 12; ct[2 * s + 1] = (2 * s + 1) % 12;
      /* variant 2: the packet of this stream is made of two half-length frames when that is a legal frame size */
      halves[s] = (variant == 2 && (frq == 2 || frq == 4 || frq == 8 || frq == 16) && hx_u(&r, 2)) ? 1 : 0;
   }
   in = (float *)malloc(sizeof(float) * (size_t)fr * 2 * 2);
   tmp = (unsigned char *)malloc(4000); tmp2 = (unsigned char *)malloc(8000); msp = (unsigned char *)malloc((size_t)S * 4200 + 16); offs = (int *)calloc(S + 1, sizeof(int));
   for (pk = 0; pk < nfr; pk++) {
      int tot = 0, bad = 0;
      for (s = 0; s < S && !bad; s++) {
         int nc = s < C ? 2 : 1, n1, n2 = 0, len, myfr = fr, mypos = pk * fr;
         OpusRepacketizer rp; opus_repacketizer_init(&rp);
         /* variant 1: stream S/2 of packet 1 has another duration (twice as long, or half when that is not possible) */
         if (variant == 1 && pk == 1 && s == S / 2) myfr = (frq <= 8) ? 2 * fr : fr / 2;
         if (halves[s] && myfr == fr) {
            gen_frame(in, nc, fr / 2, mypos, fs, ct + 2 * s, seed + s);
            n1 = opus_encode_float(enc[s], in, fr / 2, tmp, 1500);
            gen_frame(in, nc, fr / 2, mypos + fr / 2, fs, ct + 2 * s, seed + s);
            n2 = opus_encode_float(enc[s], in, fr / 2, tmp + 1600, 1500);
            if (n1 <= 0 || n2 <= 0) { bad = 1; break; }
            if (opus_repacketizer_cat(&rp, tmp, n1) != OPUS_OK || opus_repacketizer_cat(&rp, tmp + 1600, n2) != OPUS_OK) { bad = 1; break; }
         } else {
            gen_frame(in, nc, myfr, mypos, fs, ct + 2 * s, seed + s);
            n1 = opus_encode_float(enc[s], in, myfr, tmp, 1500);
            if (n1 <= 0) { bad = 1; break; }
            if (opus_repacketizer_cat(&rp, tmp, n1) != OPUS_OK) { bad = 1; break; }
         }
         opus_encoder_ctl(enc[s], OPUS_GET_FINAL_RANGE(&er[s]));
         /* variant 2: padding inside the sub-packet */
         len = opus_repacketizer_out_range_impl(&rp, 0, opus_repacketizer_get_nb_frames(&rp), tmp2, 4100, s != S - 1, 0, NULL, 0);
         if (len <= 0) { bad = 1; break; }
         if (variant == 2 && s == S - 1 && hx_u(&r, 2)) {
            int nl = len + hx_range(&r, 1, 300);
            if (opus_packet_pad(tmp2, len, nl) == OPUS_OK) len = nl;
         }
         offs[s] = tot; memcpy(msp + tot, tmp2, len); tot += len;
      }
      if (bad) { js_open("ef"); js_int("x", g_exno); js_str("t", "hand"); js_int("i", pk); js_str("at", "build"); js_close(); continue; }
      do_packet(&g, "hand", g_exno, pk, msp, tot, fr, tot, 1, offs, er);
   }
   js_open("end"); js_int("x", g_exno); js_close();
   for (s = 0; s < S; s++) opus_encoder_destroy(enc[s]);
   free(enc); free(ct); free(halves); free(in); free(tmp); free(tmp2); free(msp); free(offs); free(er);
   rig_close(&g);
   return 0;
}

/* ---------------------------------------------------------------- raw bytes to a multistream decoder */
static void run_d(char *line)
{
   long a[4096]; int na = read_ints(line + 1, a, 4096), S, fs, cap, n, i, err, r; unsigned char map[MAXCH]; unsigned char *b; int *bi;
   OpusMSDecoder *d; float *out;
   if (na < 3) return;
   S = (int)a[0]; fs = (int)a[1]; cap = (int)a[2]; n = na - 3;
   if (S < 1 || S > 255 || n < 1) return;
   for (i = 0; i < S; i++) map[i] = (unsigned char)i;
   b = (unsigned char *)malloc(n); bi = (int *)malloc(sizeof(int) * n);
   for (i = 0; i < n; i++) { b[i] = (unsigned char)a[3 + i]; bi[i] = b[i]; }
   d = opus_multistream_decoder_create(fs, S, S, 0, map, &err);
   if (!d) { free(b); free(bi); return; }
   out = (float *)malloc(sizeof(float) * (size_t)cap * S);
   { unsigned char *ex = hx_exact(b, n); hx_arm(30); r = opus_multistream_decode_float(d, ex, n, out, cap, 0); hx_disarm(); free(ex); }
   js_open("md"); js_int("S", S); js_int("fs", fs); js_int("cap", cap); js_key("b"); js_ints(bi, n); js_int("r", r); js_close();
   opus_multistream_decoder_destroy(d);
   free(out); free(b); free(bi);
}

int main(int argc, char **argv)
{
   static char line[1 << 16];
   (void)argc; (void)argv;
   hx_watchdog_init();
   while (fgets(line, sizeof line, stdin)) {
      long a[MAXCH + 16]; int na;
      if (line[0] == 'C') {
         char t[16]; char *q = line + 1; int k = 0;
         while (*q == ' ') q++;
         while (*q && *q != ' ' && *q != '\n' && k < 15) t[k++] = *q++;
         t[k] = 0;
         na = read_ints(q, a, MAXCH + 16);
         if ((!strcmp(t, "dec") || !strcmp(t, "enc")) && na >= 3) cr_layout(t, a, na);
         else if (!strcmp(t, "surr") && na >= 2) cr_surr((int)a[0], (int)a[1]);
         else if (!strcmp(t, "penc") && na >= 2) cr_penc((int)a[0], (int)a[1]);
         else if (!strcmp(t, "pdec") && na >= 4) cr_pdec((int)a[0], (int)a[1], (int)a[2], (int)a[3]);
      } else if (line[0] == 'M') matrices();
      else if (line[0] == 'D') run_d(line);
      else if (line[0] == 'X') { if (run_x(line) < 0) { js_open("ef"); js_str("t", "?"); js_str("at", "parse"); js_close(); } }
      else if (line[0] == 'H') { if (run_h(line) < 0) { js_open("ef"); js_str("t", "?"); js_str("at", "parse"); js_close(); } }
      fflush(stdout);
   }
   return 0;
}
