/* hx_objects: replays histories over several codec objects (modules Objects / ObjectsTrace,
   properties C12 and C13).  The harness executes and records; every judgement is TLC's.

   Objects live in exact-size malloc'ed blocks that are pre-filled with a poison pattern derived
   from the history's seed; the state sits at the end of its block (an access past the number of
   bytes announced by the size query is an ASan report) at a varying offset from the malloc
   pointer.  A copy is a memcpy of exactly get_size() bytes into a new block with another offset
   and another poison; a destroyed block is scribbled before it is freed.  The stack is dirtied
   before each library call and every output buffer is pre-filled with a pattern that differs
   between objects and histories.

   Input (stdin), one op per line:
     P sid kind fs ch|layout app bitrate fd fec sig count   reference packet stream (kind e | E | J)
     H hid seed                                              new history: every object is destroyed
     C o kind fmt fs ch|layout app                           create (kind e d E D P; app ignored for decoders)
     T o req val                                             ctl with one opus_int32 argument
     E o fmt sig k0 n fd maxb                                encode blocks k0..k0+n-1 (fd: 2.5 ms units) of signal sig
     D o sid k0 n mode [fq]                                  decode packets k0.. of stream sid; mode 0 normal, 1 lost, 2 first by FEC;
                                                             fq (samples, 0 = the stream's packet duration): the frame_size passed
                                                             on every call of a lost run and on the first call of a normal / FEC run
     Y o o2                                                  copy o -> o2 (memcpy of get_size bytes)
     R o                                                     OPUS_RESET_STATE
     X o                                                     destroy
     B n                                                     unrelated activity (other objects come and go)
   fmt: 0 = 16-bit, 1 = 24-bit (value x 256), 2 = float (value / 32768).
   sig (16-bit samples, a function of the absolute sample index, so block k is the same whoever encodes it): 0 digital silence,
   1 speech-like, 2 music-like, 3 noise at -12 dB, 4 full-scale square wave with full-scale noise bursts, 5 noise of +-3 units,
   6 speech with pauses of digital silence, 7 family 4 at -18 dB, 8 pure tone of 64 units, 9 chord of a few hundred units,
   10 / 11 channels with nothing in common, 12..17 very quiet material (tones of 3..20 units, +-1 dither, +-10 noise, fade-outs), 18 / 19 full-scale 70 Hz sine / 90 Hz square.
   20 / 21 stereo in anti-phase (odd channels = minus the even ones; 20 noise + tones up to 9 kHz, 21 speech-like): what the transform
   layer codes with the inversion flag in its intensity-stereo bands at low rates.
   P kind R: single-stream packets of duration fd merged `fec` at a time by the repacketizer (the stream's packets last fd*fec).
   P kind S: single-stream encoder whose layer is forced speech -> transform -> hybrid -> transform -> ... every four packets.
   After every operation on a live object a G event records what every getter of the object (and of each of its streams) reports.
   Decoders use the format given at creation; each has a float twin ("shadow") fed the same calls, from whose
   output the 24-bit / 16-bit sample relations are measured (mismatch counts, never a verdict).
   Output: NDJSON, one event per op. */
#include "hx_common.h"
#include "opus.h"
#include "opus_multistream.h"
#include "opus_projection.h"
#include <math.h>

extern int opus_verif_encoder_peek(const OpusEncoder *st, int field);
extern int opus_verif_decoder_peek(const OpusDecoder *st, int field);

/* fixed-point or float library: the build options are not visible to the harness, the version string is */
static int FX;

#define MAXOBJ 8
#define MAXSTREAMS 8
#define MAXPS 96
#define MAXPK 80
#define MAXCH 8

typedef struct { int ch, streams, coupled; unsigned char map[MAXCH]; int family; } layout_t;
/* family: -1 explicit mapping, 1 surround (vorbis order), 3 ambisonics projection with the library's own
   matrices, 100 projection decoder with a user matrix whose coefficients are all 0.75 */
static const layout_t LAY[] = {
   {2, 2, 0, {0, 1}, -1},
   {3, 2, 1, {0, 2, 1}, 1},
   {6, 4, 2, {0, 4, 1, 2, 3, 5}, 1},
   {4, 2, 2, {0, 1, 2, 3}, -1},
   {4, 2, 2, {0, 1, 2, 3}, 3},
   {4, 2, 2, {0, 1, 2, 3}, 100},
};
#define NLAY ((int)(sizeof LAY / sizeof LAY[0]))

typedef struct {
   int live, kind, fs, ch, app, lay, fmt, size, nstreams, coupled;
   unsigned char *blk, *st;        /* the object */
   unsigned char *sblk, *sst;      /* decoders: float twin */
   unsigned char *vblk, *vst; int vsize;   /* projection decoder: plain multistream float decoder (stream view) */
   float memA[MAXSTREAMS][2], memB[MAXSTREAMS][2];
   opus_int16 matrix[MAXCH * MAXCH];
} obj_t;
static obj_t OB[MAXOBJ];

typedef struct { int used, kind, fs, chlay, fd, count; unsigned char *pk[MAXPK]; int len[MAXPK]; } pstream_t;
static pstream_t PS[MAXPS];

static unsigned long g_seed = 1;   /* poison seed of the current history */
static unsigned g_alloc;           /* allocation counter */
static unsigned g_call;            /* call counter (stack / buffer patterns) */

/* per-call watchdog on the CPU time the process consumes (a call that spins is a Hang event; a process that is merely starved
   on a loaded machine is not) */
#include <sys/time.h>
static volatile sig_atomic_t ox_armed;
static void ox_on_alarm(int sig) { (void)sig; if (ox_armed) { static const char m[] = "\n{\"k\":\"Hang\"}\n"; (void)!write(1, m, sizeof m - 1); _exit(97); } }
static void ox_arm(int seconds) { struct itimerval it; memset(&it, 0, sizeof it); it.it_value.tv_sec = seconds; ox_armed = 1; setitimer(ITIMER_VIRTUAL, &it, NULL); }
static void ox_disarm(void) { struct itimerval it; memset(&it, 0, sizeof it); setitimer(ITIMER_VIRTUAL, &it, NULL); ox_armed = 0; }

static void die(const char *m) { fprintf(stderr, "hx_objects: %s\n", m); fflush(stdout); exit(3); }

/* ---------------------------------------------------------------- poison, stack */
static void fill_pattern(unsigned char *p, size_t n, unsigned pat, unsigned long seed)
{
   size_t i;
   switch (pat & 3) {
   case 0: memset(p, 0x00, n); break;
   case 1: memset(p, 0xFF, n); break;
   case 2: for (i = 0; i < n; i++) p[i] = (unsigned char)(0xA5 ^ (i * 37)); break;
   default: {   /* seeded noise: 509 random bytes, repeated (a prime period, so no alignment ever sees a constant) */
      hx_rng r; size_t m = n < 509 ? n : 509; r.s = seed * 0x9E3779B97F4A7C15ULL + 99;
      for (i = 0; i < m; i++) p[i] = (unsigned char)hx_next(&r);
      for (i = m; i < n; i++) p[i] = p[i - 509]; }
   }
}
static unsigned next_pat(void) { return (unsigned)((g_seed >> 3) + 3 * g_alloc + g_call); }

static void __attribute__((noinline)) dirty_stack(unsigned pat)
{
   volatile unsigned char buf[160000];
   fill_pattern((unsigned char *)buf, sizeof buf, pat, g_seed + g_call);
   __asm__ volatile("" : : "r"(buf) : "memory");
}

static unsigned char *alloc_state(int size, unsigned char **blk)
{
   unsigned off = 8 * (unsigned)((g_seed + 5 * g_alloc) % 9);      /* 0..64 step 8: differently aligned blocks */
   unsigned char *b = (unsigned char *)malloc((size_t)off + (size_t)size);
   if (!b) die("malloc");
   fill_pattern(b, (size_t)off + (size_t)size, (unsigned)((g_seed >> 1) + g_alloc), g_seed * 31 + g_alloc);
   g_alloc++;
   *blk = b;
   return b + off;
}
static void free_state(unsigned char **blk, unsigned char *st, int size)
{
   if (!*blk) return;
   fill_pattern(st, (size_t)size, (unsigned)(g_seed + g_alloc + 1), g_seed + 7 * g_alloc);   /* scribble, then free */
   free(*blk); *blk = NULL;
}

/* ---------------------------------------------------------------- signals (random access by absolute sample index) */
static uint64_t mix64(uint64_t z) { z += 0x9E3779B97F4A7C15ULL; z = (z ^ (z >> 30)) * 0xBF58476D1CE4E5B9ULL; z = (z ^ (z >> 27)) * 0x94D049BB133111EBULL; return z ^ (z >> 31); }
static double hnoise(int sig, int c, long i) { return (double)(mix64(((uint64_t)sig << 56) ^ ((uint64_t)c << 48) ^ (uint64_t)i) >> 11) / 9007199254740992.0 * 2 - 1; }

static opus_int16 sig_sample(int sig, int fs, int c, long i)
{
   double t = (double)i / fs, s = 0; int h;
   double cg = c ? (c & 1 ? 0.8 : 0.6) : 1.0;
   long id = c ? i - 3 * c : i;            /* other channels: delayed and attenuated, so stereo is real */
   if (id < 0) id = 0;
   t = (double)id / fs;
   /* families 10, 11: channels that have nothing in common (10: speech-like on the even channels, music-like on the odd
      ones; 11: even channels silent, noise on the odd ones) - what a down-mix that drops or doubles a channel changes */
   if (sig == 10) return sig_sample((c & 1) ? 2 : 1, fs, 0, i);
   if (sig == 11) return (c & 1) ? sig_sample(3, fs, 0, i) : 0;
   /* families 12..17: very quiet 16-bit material, whose band energies lie between what a 16-bit and a 24-bit noise floor would be
      (12: 440 Hz tone of 10 units, 13: 1 kHz tone of 3 units, 14: dither of +-1 unit, 15: noise of +-10 units, 16: a 440 Hz tone
      fading once a second from 2000 units down to 1, 17: tone of 20 units plus +-1 dither); other channels: another phase */
   if (sig >= 12 && sig <= 17) {
      double tt = (double)i / fs, ph = 0.7 * c, v = 0;
      switch (sig) {
      case 12: v = 10.0 * sin(2 * M_PI * 440.0 * tt + ph); break;
      case 13: v = 3.0 * sin(2 * M_PI * 1000.0 * tt + ph); break;
      case 14: v = floor(1.5 * hnoise(sig, c, i) + 0.5); break;
      case 15: v = 10.0 * hnoise(sig, c, i); break;
      case 16: v = (1.0 + 2000.0 * exp(-8.0 * fmod(tt, 1.0))) * sin(2 * M_PI * 440.0 * tt + ph); break;
      default: v = 20.0 * sin(2 * M_PI * 440.0 * tt + ph) + floor(1.5 * hnoise(sig, c, i) + 0.5);
      }
      return (opus_int16)floor(v + 0.5);
   }
   /* families 18, 19: loud low-frequency material whose half waves span frame ends (18: 70 Hz full-scale sine, 19: 90 Hz full-scale
      square wave), so that a frame regularly ends inside a half wave the soft clipper is working on */
   /* families 20, 21: stereo in anti-phase - every odd channel is minus channel 0 (20: noise with tones up to 9 kHz, 21: the
      speech-like family).  At low rates the transform layer codes such bands as intensity stereo with the inversion flag set. */
   if (sig == 20 || sig == 21) {
      int v;
      if (sig == 21) v = sig_sample(1, fs, 0, i);
      else {
         static const double fr[4] = {500.0, 2500.0, 5000.0, 9000.0}; double tt = (double)i / fs, a = 0.2 * hnoise(20, 0, i);
         for (h = 0; h < 4; h++) if (fr[h] < 0.45 * fs) a += 0.08 * sin(2 * M_PI * fr[h] * tt + h);
         v = (int)floor(a * 32767.0 + 0.5);
      }
      if (c & 1) v = -v;
      return (opus_int16)(v > 32767 ? 32767 : v < -32768 ? -32768 : v);
   }
   if (sig == 18) return (opus_int16)floor(32767.0 * sin(2 * M_PI * 70.0 * (double)i / fs + 0.9 * c) + 0.5);
   if (sig == 19) return (fmod((double)i / fs * 90.0 + 0.23 * c, 1.0) < 0.5) ? 32767 : -32767;
   switch (sig) {
   case 0: return 0;
   case 6:   /* speech with pauses of digital silence: 400 ms on, 300 ms off */
      if (fmod(t, 0.7) >= 0.4) return 0;
      /* fall through */
   case 1: {
      double ph = 2 * M_PI * (150.0 * t - 60.0 / (2 * M_PI * 1.3) * cos(2 * M_PI * 1.3 * t));
      double f0 = 150.0 + 60.0 * sin(2 * M_PI * 1.3 * t);
      double env = 0.55 + 0.35 * sin(2 * M_PI * 3.7 * t) * sin(2 * M_PI * 0.9 * t + 0.4);
      for (h = 1; h <= 12; h++) if (h * f0 < 0.45 * fs) s += sin(h * ph + 0.3 * h) / h;
      s = 0.28 * env * s + ((fmod(t, 0.31) < 0.06) ? 0.2 : 0.03) * env * hnoise(sig, c, id);
      break; }
   case 2: {
      static const double fr[5] = {220.0, 277.18, 329.63, 440.0, 1318.5};
      for (h = 0; h < 5; h++) if (fr[h] < 0.45 * fs) s += sin(2 * M_PI * fr[h] * t + h) * (0.5 + 0.4 * sin(2 * M_PI * (0.2 + 0.07 * h) * t));
      s = 0.16 * s + 0.01 * hnoise(sig, c, id);
      if (c) s += 0.05 * sin(2 * M_PI * 660.0 * t);
      break; }
   case 3: s = 0.25 * hnoise(sig, c, id); break;
   case 7:    /* the same at -18 dB (stands in for family 4 where a fixed-point encoder must not be driven at full scale) */
   case 4: {  /* full scale: square wave with full-scale noise bursts */
      s = (fmod(t * 440.0, 1.0) < 0.5) ? 1.0 : -1.0;
      if (fmod(t, 0.05) < 0.012) s = hnoise(sig, c, id) > 0 ? 1.0 : -1.0;
      cg = sig == 7 ? 0.125 : 1.0;
      break; }
   case 5: s = 3.0 / 32768.0 * hnoise(sig, c, id); cg = 1.0; break;
   case 8: s = 64.0 / 32768.0 * sin(2 * M_PI * 1000.0 * t); cg = 1.0; break;                  /* faint pure tone: 64 units peak */
   case 9: {  /* faint chord, a few hundred units peak, silent above 4 kHz apart from the rounding noise */
      static const double fr[4] = {261.63, 392.0, 1046.5, 3136.0};
      for (h = 0; h < 4; h++) s += sin(2 * M_PI * fr[h] * t + h) * (0.6 + 0.4 * sin(2 * M_PI * (0.3 + 0.1 * h) * t));
      s *= 120.0 / 32768.0; cg = 1.0;
      break; }
   default: s = 0.5 * sin(2 * M_PI * 1000.0 * t);
   }
   s *= cg * 32767.0;
   if (s > 32767) s = 32767;
   if (s < -32768) s = -32768;
   return (opus_int16)floor(s + 0.5);
}
static void gen_block(opus_int16 *x, int sig, int fs, int ch, long start, int n)
{
   int i, c;
   for (i = 0; i < n; i++) for (c = 0; c < ch; c++) x[i * ch + c] = sig_sample(sig, fs, c, start + i);
}

/* ---------------------------------------------------------------- creation helpers */
static int obj_channels(int kind, int chlay) { return (kind == 'e' || kind == 'd') ? chlay : LAY[chlay].ch; }

static int state_size(int kind, int chlay)
{
   const layout_t *L;
   if (kind == 'e') return opus_encoder_get_size(chlay);
   if (kind == 'd') return opus_decoder_get_size(chlay);
   L = &LAY[chlay];
   if (kind == 'E') return L->family == 1 ? opus_multistream_surround_encoder_get_size(L->ch, 1)
                                          : opus_multistream_encoder_get_size(L->streams, L->coupled);
   if (kind == 'D') return opus_multistream_decoder_get_size(L->streams, L->coupled);
   if (kind == 'P') return opus_projection_decoder_get_size(L->ch, L->streams, L->coupled);
   if (kind == 'J') return opus_projection_ambisonics_encoder_get_size(L->ch, 3);
   return 0;
}

static void projection_matrix(int lay, opus_int16 *m)
{
   const layout_t *L = &LAY[lay]; int n = L->ch * (L->streams + L->coupled), i;
   if (L->family == 3) {
      int err, st = 0, co = 0; opus_int32 sz = 0; unsigned char raw[2 * MAXCH * MAXCH];
      OpusProjectionEncoder *pe = opus_projection_ambisonics_encoder_create(48000, L->ch, 3, &st, &co, OPUS_APPLICATION_AUDIO, &err);
      if (!pe || st != L->streams || co != L->coupled) die("projection layout");
      opus_projection_encoder_ctl(pe, OPUS_PROJECTION_GET_DEMIXING_MATRIX_SIZE(&sz));
      if (sz != 2 * n) die("projection matrix size");
      opus_projection_encoder_ctl(pe, OPUS_PROJECTION_GET_DEMIXING_MATRIX(raw, sz));
      for (i = 0; i < n; i++) { int s = raw[2 * i + 1] << 8 | raw[2 * i]; m[i] = (opus_int16)(((s & 0xFFFF) ^ 0x8000) - 0x8000); }
      opus_projection_encoder_destroy(pe);
   } else {
      for (i = 0; i < n; i++) m[i] = 24576;      /* 0.75 everywhere */
   }
}

static int init_state(unsigned char *st, int kind, int fs, int chlay, int app, const opus_int16 *matrix)
{
   const layout_t *L;
   if (kind == 'e') return opus_encoder_init((OpusEncoder *)st, fs, chlay, app);
   if (kind == 'd') return opus_decoder_init((OpusDecoder *)st, fs, chlay);
   L = &LAY[chlay];
   if (kind == 'E') {
      if (L->family == 1) {
         int s = 0, c = 0; unsigned char map[256]; int r = opus_multistream_surround_encoder_init((OpusMSEncoder *)st, fs, L->ch, 1, &s, &c, map, app);
         if (r == OPUS_OK && (s != L->streams || c != L->coupled || memcmp(map, L->map, (size_t)L->ch))) die("surround layout table");
         return r;
      }
      return opus_multistream_encoder_init((OpusMSEncoder *)st, fs, L->ch, L->streams, L->coupled, L->map, app);
   }
   if (kind == 'D') return opus_multistream_decoder_init((OpusMSDecoder *)st, fs, L->ch, L->streams, L->coupled, L->map);
   if (kind == 'P') {
      unsigned char raw[2 * MAXCH * MAXCH]; int n = L->ch * (L->streams + L->coupled), i;
      for (i = 0; i < n; i++) { raw[2 * i] = (unsigned char)(matrix[i] & 0xFF); raw[2 * i + 1] = (unsigned char)((matrix[i] >> 8) & 0xFF); }
      return opus_projection_decoder_init((OpusProjectionDecoder *)st, fs, L->ch, L->streams, L->coupled, raw, 2 * n);
   }
   if (kind == 'J') { int s = 0, c = 0; return opus_projection_ambisonics_encoder_init((OpusProjectionEncoder *)st, fs, L->ch, 3, &s, &c, app); }
   return OPUS_BAD_ARG;
}

static int ctl1(unsigned char *st, int kind, int req, int val)
{
   switch (kind) {
   case 'e': return opus_encoder_ctl((OpusEncoder *)st, req, (opus_int32)val);
   case 'd': return opus_decoder_ctl((OpusDecoder *)st, req, (opus_int32)val);
   case 'E': return opus_multistream_encoder_ctl((OpusMSEncoder *)st, req, (opus_int32)val);
   case 'D': return opus_multistream_decoder_ctl((OpusMSDecoder *)st, req, (opus_int32)val);
   case 'P': return opus_projection_decoder_ctl((OpusProjectionDecoder *)st, req, (opus_int32)val);
   case 'J': return opus_projection_encoder_ctl((OpusProjectionEncoder *)st, req, (opus_int32)val);
   }
   return OPUS_BAD_ARG;
}
static int ctl0(unsigned char *st, int kind, int req)
{
   switch (kind) {
   case 'e': return opus_encoder_ctl((OpusEncoder *)st, req);
   case 'd': return opus_decoder_ctl((OpusDecoder *)st, req);
   case 'E': return opus_multistream_encoder_ctl((OpusMSEncoder *)st, req);
   case 'D': return opus_multistream_decoder_ctl((OpusMSDecoder *)st, req);
   case 'P': return opus_projection_decoder_ctl((OpusProjectionDecoder *)st, req);
   case 'J': return opus_projection_encoder_ctl((OpusProjectionEncoder *)st, req);
   }
   return OPUS_BAD_ARG;
}
static opus_uint32 final_range(unsigned char *st, int kind)
{
   opus_uint32 r = 0;
   switch (kind) {
   case 'e': opus_encoder_ctl((OpusEncoder *)st, OPUS_GET_FINAL_RANGE(&r)); break;
   case 'd': opus_decoder_ctl((OpusDecoder *)st, OPUS_GET_FINAL_RANGE(&r)); break;
   case 'E': opus_multistream_encoder_ctl((OpusMSEncoder *)st, OPUS_GET_FINAL_RANGE(&r)); break;
   case 'D': opus_multistream_decoder_ctl((OpusMSDecoder *)st, OPUS_GET_FINAL_RANGE(&r)); break;
   case 'P': opus_projection_decoder_ctl((OpusProjectionDecoder *)st, OPUS_GET_FINAL_RANGE(&r)); break;
   case 'J': opus_projection_encoder_ctl((OpusProjectionEncoder *)st, OPUS_GET_FINAL_RANGE(&r)); break;
   }
   return r;
}

/* ---------------------------------------------------------------- getter snapshot */
static int ctlp(unsigned char *st, int kind, int req, opus_int32 *v)
{
   switch (kind) {
   case 'e': return opus_encoder_ctl((OpusEncoder *)st, req, v);
   case 'd': return opus_decoder_ctl((OpusDecoder *)st, req, v);
   case 'E': return opus_multistream_encoder_ctl((OpusMSEncoder *)st, req, v);
   case 'D': return opus_multistream_decoder_ctl((OpusMSDecoder *)st, req, v);
   case 'P': return opus_projection_decoder_ctl((OpusProjectionDecoder *)st, req, v);
   }
   return OPUS_BAD_ARG;
}
/* every request of include/opus_defines.h that reads one opus_int32 back (the final range is read as its bit pattern) */
static const int GETS[] = {4001, 4003, 4005, 4007, 4009, 4011, 4013, 4015, 4017, 4021, 4023, 4025, 4027, 4029, 4031, 4033, 4045, 4037,
                           4039, 4041, 4043, 4047, 4049, 4051};
#define NGETS ((int)(sizeof GETS / sizeof GETS[0]))
/* "req=value," for every getter the object implements, "req!rc," for one that fails otherwise; `only`: 0 all but the pitch, 1 the
   control outcome of the last call (last packet duration, final range), 2 the pitch (OPUS_GET_PITCH) alone */
static size_t getters_str(unsigned char *st, int kind, char *buf, size_t cap, int only)
{
   size_t n = 0; int q;
   buf[0] = 0;
   for (q = 0; q < NGETS && n + 32 < cap; q++) {
      opus_int32 v = 0x5A5A5A5A; int rc;
      if (only == 1 && GETS[q] != 4031 && GETS[q] != 4039) continue;
      if ((only == 2) != (GETS[q] == 4033)) continue;
      rc = ctlp(st, kind, GETS[q], &v);
      if (rc == OPUS_OK) n += (size_t)snprintf(buf + n, cap - n, "%d=%d,", GETS[q], (int)v);
      else if (rc != OPUS_UNIMPLEMENTED) n += (size_t)snprintf(buf + n, cap - n, "%d!%d,", GETS[q], rc);
   }
   return n;
}

static int encode_any(unsigned char *st, int kind, int fmt, const opus_int16 *x16, int n, int ch, unsigned char *out, int maxb)
{
   int ret = OPUS_BAD_ARG, i, tot = n * ch;
   if (fmt == 0) {
      opus_int16 *x = (opus_int16 *)malloc(sizeof(opus_int16) * (size_t)tot);     /* exact-size copy */
      memcpy(x, x16, sizeof(opus_int16) * (size_t)tot);
      dirty_stack(next_pat()); ox_arm(20);
      if (kind == 'e') ret = opus_encode((OpusEncoder *)st, x, n, out, maxb);
      else if (kind == 'E') ret = opus_multistream_encode((OpusMSEncoder *)st, x, n, out, maxb);
      else if (kind == 'J') ret = opus_projection_encode((OpusProjectionEncoder *)st, x, n, out, maxb);
      ox_disarm(); free(x);
   } else if (fmt == 1) {
      opus_int32 *x = (opus_int32 *)malloc(sizeof(opus_int32) * (size_t)tot);
      for (i = 0; i < tot; i++) x[i] = (opus_int32)x16[i] * 256;
      dirty_stack(next_pat()); ox_arm(20);
      if (kind == 'e') ret = opus_encode24((OpusEncoder *)st, x, n, out, maxb);
      else if (kind == 'E') ret = opus_multistream_encode24((OpusMSEncoder *)st, x, n, out, maxb);
      else if (kind == 'J') ret = opus_projection_encode24((OpusProjectionEncoder *)st, x, n, out, maxb);
      ox_disarm(); free(x);
   } else {
      float *x = (float *)malloc(sizeof(float) * (size_t)tot);
      for (i = 0; i < tot; i++) x[i] = (float)x16[i] / 32768.0f;
      dirty_stack(next_pat()); ox_arm(20);
      if (kind == 'e') ret = opus_encode_float((OpusEncoder *)st, x, n, out, maxb);
      else if (kind == 'E') ret = opus_multistream_encode_float((OpusMSEncoder *)st, x, n, out, maxb);
      else if (kind == 'J') ret = opus_projection_encode_float((OpusProjectionEncoder *)st, x, n, out, maxb);
      ox_disarm(); free(x);
   }
   g_call++;
   return ret;
}

static int decode_any(unsigned char *st, int kind, int fmt, const unsigned char *data, int len, void *pcm, int fsz, int fec)
{
   int ret = OPUS_BAD_ARG;
   dirty_stack(next_pat()); ox_arm(20);
   if (kind == 'd') {
      if (fmt == 0) ret = opus_decode((OpusDecoder *)st, data, len, (opus_int16 *)pcm, fsz, fec);
      else if (fmt == 1) ret = opus_decode24((OpusDecoder *)st, data, len, (opus_int32 *)pcm, fsz, fec);
      else ret = opus_decode_float((OpusDecoder *)st, data, len, (float *)pcm, fsz, fec);
   } else if (kind == 'D') {
      if (fmt == 0) ret = opus_multistream_decode((OpusMSDecoder *)st, data, len, (opus_int16 *)pcm, fsz, fec);
      else if (fmt == 1) ret = opus_multistream_decode24((OpusMSDecoder *)st, data, len, (opus_int32 *)pcm, fsz, fec);
      else ret = opus_multistream_decode_float((OpusMSDecoder *)st, data, len, (float *)pcm, fsz, fec);
   } else if (kind == 'P') {
      if (fmt == 0) ret = opus_projection_decode((OpusProjectionDecoder *)st, data, len, (opus_int16 *)pcm, fsz, fec);
      else if (fmt == 1) ret = opus_projection_decode24((OpusProjectionDecoder *)st, data, len, (opus_int32 *)pcm, fsz, fec);
      else ret = opus_projection_decode_float((OpusProjectionDecoder *)st, data, len, (float *)pcm, fsz, fec);
   }
   ox_disarm();
   g_call++;
   return ret;
}

/* ---------------------------------------------------------------- objects */
static void destroy_obj(obj_t *o)
{
   if (!o->live) return;
   free_state(&o->blk, o->st, o->size);
   if (o->sblk) free_state(&o->sblk, o->sst, o->size);
   if (o->vblk) free_state(&o->vblk, o->vst, o->vsize);
   memset(o, 0, sizeof *o);
}

/* the arch level the object selected at creation (first sub-codec for the multistream kinds) */
static int arch_of(obj_t *o)
{
   switch (o->kind) {
   case 'e': return opus_verif_encoder_peek((OpusEncoder *)o->st, 18);
   case 'd': return opus_verif_decoder_peek((OpusDecoder *)o->st, 7);
   case 'E': { OpusEncoder *e = NULL; opus_multistream_encoder_ctl((OpusMSEncoder *)o->st, OPUS_MULTISTREAM_GET_ENCODER_STATE(0, &e)); return e ? opus_verif_encoder_peek(e, 18) : -1; }
   case 'D': { OpusDecoder *d = NULL; opus_multistream_decoder_ctl((OpusMSDecoder *)o->st, OPUS_MULTISTREAM_GET_DECODER_STATE(0, &d)); return d ? opus_verif_decoder_peek(d, 7) : -1; }
   case 'P': { OpusDecoder *d = NULL; opus_projection_decoder_ctl((OpusProjectionDecoder *)o->st, OPUS_MULTISTREAM_GET_DECODER_STATE(0, &d)); return d ? opus_verif_decoder_peek(d, 7) : -1; }
   }
   return -1;
}

static const char *fmtname(int f) { return f == 0 ? "i16" : f == 1 ? "i24" : "f32"; }
static int is_dec(int kind) { return kind == 'd' || kind == 'D' || kind == 'P'; }
static int shadow_kind(int kind) { return kind; }

/* G event: what the getters report now - of the object (g: verbatim, all but the pitch; gc: last packet duration and final range
   only; gp: the pitch, followed for the multistream kinds by a digest of the streams' pitches) and of each of its streams (gs: a
   digest over the streams' strings without the pitch; "-" for the single-stream kinds) */
static void op_getters(int oi)
{
   obj_t *o = &OB[oi]; char g[1024], gc[96], sub[1024], gs[20], gp[64], subp[64]; int s; size_t np;
   if (!o->live) return;
   dirty_stack(next_pat());
   getters_str(o->st, o->kind, g, sizeof g, 0);
   getters_str(o->st, o->kind, gc, sizeof gc, 1);
   np = getters_str(o->st, o->kind, gp, sizeof gp - 20, 2);
   strcpy(gs, "-");
   if (o->kind == 'E' || o->kind == 'D' || o->kind == 'P') {
      uint64_t d = 1469598103934665603ULL, dp = 1469598103934665603ULL;
      for (s = 0; s < o->nstreams; s++) {
         size_t n = 0, m = 0;
         if (o->kind == 'E') {
            OpusEncoder *e = NULL; opus_multistream_encoder_ctl((OpusMSEncoder *)o->st, OPUS_MULTISTREAM_GET_ENCODER_STATE(s, &e));
            if (e) { n = getters_str((unsigned char *)e, 'e', sub, sizeof sub, 0); m = getters_str((unsigned char *)e, 'e', subp, sizeof subp, 2); }
            else n = (size_t)snprintf(sub, sizeof sub, "none");
         } else {
            OpusDecoder *dd = NULL;
            if (o->kind == 'D') opus_multistream_decoder_ctl((OpusMSDecoder *)o->st, OPUS_MULTISTREAM_GET_DECODER_STATE(s, &dd));
            else opus_projection_decoder_ctl((OpusProjectionDecoder *)o->st, OPUS_MULTISTREAM_GET_DECODER_STATE(s, &dd));
            if (dd) { n = getters_str((unsigned char *)dd, 'd', sub, sizeof sub, 0); m = getters_str((unsigned char *)dd, 'd', subp, sizeof subp, 2); }
            else n = (size_t)snprintf(sub, sizeof sub, "none");
         }
         d = (d ^ hx_fnv(sub, n)) * 1099511628211ULL;
         dp = (dp ^ hx_fnv(subp, m)) * 1099511628211ULL;
      }
      snprintf(gs, sizeof gs, "%016llx", (unsigned long long)d);
      snprintf(gp + np, sizeof gp - np, "|%016llx", (unsigned long long)dp);
   }
   g_call++;
   js_open("G"); js_int("o", oi); js_str("g", g); js_str("gc", gc); js_str("gs", gs); js_str("gp", gp); js_close();
}

static void op_create(int oi, int kind, int fmt, int fs, int chlay, int app)
{
   obj_t *o = &OB[oi]; int rc, size; char cfg[96]; char kn[2];
   if (o->live) destroy_obj(o);
   if ((kind != 'e' && kind != 'd') && (chlay < 0 || chlay >= NLAY)) { js_open("Bad"); js_str("why", "layout"); js_close(); return; }
   if (kind == 'P' && LAY[chlay].family < 3) { js_open("Bad"); js_str("why", "projection layout"); js_close(); return; }
   if ((kind == 'E' || kind == 'D') && LAY[chlay].family >= 3) { js_open("Bad"); js_str("why", "multistream layout"); js_close(); return; }
   size = state_size(kind, chlay);
   memset(o, 0, sizeof *o);
   o->kind = kind; o->fs = fs; o->app = app; o->fmt = fmt; o->size = size;
   o->ch = (kind == 'e' || kind == 'd') ? chlay : LAY[chlay].ch; o->lay = (kind == 'e' || kind == 'd') ? -1 : chlay;
   if (o->lay >= 0) { o->nstreams = LAY[chlay].streams; o->coupled = LAY[chlay].coupled; } else { o->nstreams = 1; o->coupled = o->ch == 2; }
   if (kind == 'P') projection_matrix(chlay, o->matrix);
   if (size <= 0) { rc = OPUS_BAD_ARG; }
   else {
      o->st = alloc_state(size, &o->blk);
      dirty_stack(next_pat());
      rc = init_state(o->st, kind, fs, chlay, app, o->matrix);
      if (rc == OPUS_OK && is_dec(kind)) {
         o->sst = alloc_state(size, &o->sblk);
         if (init_state(o->sst, kind, fs, chlay, app, o->matrix) != OPUS_OK) die("shadow init");
         if (kind == 'P') {
            o->vsize = opus_multistream_decoder_get_size(o->nstreams, o->coupled);
            o->vst = alloc_state(o->vsize, &o->vblk);
            if (opus_multistream_decoder_init((OpusMSDecoder *)o->vst, fs, o->ch, o->nstreams, o->coupled, LAY[chlay].map) != OPUS_OK) die("view init");
         }
      }
      if (rc != OPUS_OK) { free(o->blk); o->blk = NULL; }
   }
   o->live = rc == OPUS_OK;
   kn[0] = (char)kind; kn[1] = 0;
   /* the configuration as the model sees it; the run-time selected arch level and the arithmetic of the build are part of it */
   snprintf(cfg, sizeof cfg, "%s:%d:%d:%d:a%d:%s", kn, fs, chlay, is_dec(kind) ? 0 : app, o->live ? arch_of(o) : -1, FX ? "fx" : "fl");
   js_open("C"); js_int("o", oi); js_str("kind", kn); js_str("cfg", cfg); js_str("fmt", fmtname(fmt)); js_int("rc", rc); js_int("sz", size); js_close();
   if (!o->live) memset(o, 0, sizeof *o);
}

static void op_ctl(int oi, int req, int val)
{
   obj_t *o = &OB[oi]; int rc;
   if (!o->live) { js_open("Bad"); js_str("why", "ctl on dead object"); js_close(); return; }
   dirty_stack(next_pat());
   rc = ctl1(o->st, o->kind, req, val);
   if (o->sst) ctl1(o->sst, shadow_kind(o->kind), req, val);
   if (o->vst) ctl1(o->vst, 'D', req, val);          /* the stream view must decode what the projection decoder's streams decode */
   g_call++;
   js_open("T"); js_int("o", oi); js_int("req", req); js_int("v", val); js_int("rc", rc); js_close();
}

static void op_reset(int oi)
{
   obj_t *o = &OB[oi]; int rc;
   if (!o->live) { js_open("Bad"); js_str("why", "reset of dead object"); js_close(); return; }
   dirty_stack(next_pat());
   rc = ctl0(o->st, o->kind, OPUS_RESET_STATE);
   if (o->sst) ctl0(o->sst, shadow_kind(o->kind), OPUS_RESET_STATE);
   if (o->vst) opus_multistream_decoder_ctl((OpusMSDecoder *)o->vst, OPUS_RESET_STATE);
   memset(o->memA, 0, sizeof o->memA); memset(o->memB, 0, sizeof o->memB);
   g_call++;
   js_open("R"); js_int("o", oi); js_int("rc", rc); js_close();
}

static void op_copy(int a, int b)
{
   obj_t *s = &OB[a], *d = &OB[b];
   if (!s->live || a == b) { js_open("Bad"); js_str("why", "copy"); js_close(); return; }
   if (d->live) destroy_obj(d);
   *d = *s;
   d->blk = d->sblk = d->vblk = NULL;
   d->st = alloc_state(s->size, &d->blk);
   memcpy(d->st, s->st, (size_t)s->size);                 /* exactly the number of bytes the size query reports */
   if (s->sst) { d->sst = alloc_state(s->size, &d->sblk); memcpy(d->sst, s->sst, (size_t)s->size); }
   if (s->vst) { d->vst = alloc_state(s->vsize, &d->vblk); memcpy(d->vst, s->vst, (size_t)s->vsize); }
   js_open("Y"); js_int("o", a); js_int("o2", b); js_int("sz", s->size); js_close();
}

/* ---------------------------------------------------------------- encode run */
static void op_encode(int oi, int fmt, int sig, int k0, int n, int fd, int maxb)
{
   obj_t *o = &OB[oi]; int j, fsamp, lastrc = 0, total = 0; opus_uint32 rng = 0;
   char ds[16 * 64 + 1], lens[12 * 64 + 1]; size_t dl = 0, ll = 0; uint64_t xd = 1469598103934665603ULL;
   opus_int16 *x;
   if (!o->live || is_dec(o->kind) || n < 1 || n > 64 || maxb < 1) { js_open("Bad"); js_str("why", "encode"); js_close(); return; }
   fsamp = o->fs / 400 * fd;
   x = (opus_int16 *)malloc(sizeof(opus_int16) * (size_t)fsamp * (size_t)o->ch);
   ds[0] = lens[0] = 0;
   for (j = 0; j < n; j++) {
      hx_buf pb = hx_buf_new((size_t)maxb, 0); int ret; uint64_t d; unsigned char w[8];
      fill_pattern(pb.p, (size_t)maxb, (unsigned)(g_seed + oi + g_call), g_seed + g_call);
      gen_block(x, sig, o->fs, o->ch, (long)(k0 + j) * fsamp, fsamp);
      xd = (xd ^ hx_fnv(x, sizeof(opus_int16) * (size_t)fsamp * (size_t)o->ch)) * 1099511628211ULL;
      ret = encode_any(o->st, o->kind, fmt, x, fsamp, o->ch, pb.p, maxb);
      if (!hx_buf_ok(&pb)) { js_open("Canary"); js_str("where", "packet"); js_close(); fflush(stdout); exit(96); }
      rng = final_range(o->st, o->kind);
      d = hx_fnv(pb.p, ret > 0 ? (size_t)ret : 0);
      w[0] = (unsigned char)ret; w[1] = (unsigned char)(ret >> 8); w[2] = (unsigned char)(ret >> 16); w[3] = (unsigned char)(ret >> 24);
      w[4] = (unsigned char)rng; w[5] = (unsigned char)(rng >> 8); w[6] = (unsigned char)(rng >> 16); w[7] = (unsigned char)(rng >> 24);
      d = (d ^ hx_fnv(w, 8)) * 1099511628211ULL;
      dl += (size_t)snprintf(ds + dl, sizeof ds - dl, "%016llx", (unsigned long long)d);
      ll += (size_t)snprintf(lens + ll, sizeof lens - ll, j ? ",%d" : "%d", ret);
      lastrc = ret; if (ret > 0) total += ret;
      hx_buf_free(&pb);
   }
   free(x);
   {
      char xs[20], rs[12];
      snprintf(xs, sizeof xs, "%016llx", (unsigned long long)xd); snprintf(rs, sizeof rs, "%08x", (unsigned)rng);
      js_open("E"); js_int("o", oi); js_str("fmt", fmtname(fmt)); js_int("sig", sig); js_int("k0", k0); js_int("n", n); js_int("fd", fd);
      js_int("maxb", maxb); js_str("xd", xs); js_int("rc", lastrc); js_int("len", total); js_str("rng", rs);
      /* d: one digest over everything that came out (per-call digests of bytes + length + final range, and the lengths) */
      { char one[20]; uint64_t d = (hx_fnv(ds, strlen(ds)) ^ hx_fnv(lens, strlen(lens))) * 1099511628211ULL;
        snprintf(one, sizeof one, "%016llx", (unsigned long long)d); js_str("d", one); }
      js_str("ds", ds); js_str("lens", lens);
      js_close();
   }
}

/* ---------------------------------------------------------------- decode run with sample relations */
static size_t fmt_size(int fmt) { return fmt == 0 ? sizeof(opus_int16) : fmt == 1 ? sizeof(opus_int32) : sizeof(float); }

/* mismatch of an integer sample against a real-valued expectation v: more than half a unit away (either tie direction is "nearest") */
static int off_by_more_than_half(double got, double v) { double d = got - v; return d > 0.5 || d < -0.5; }
static double sat16d(double v) { return v > 32767.0 ? 32767.0 : v < -32768.0 ? -32768.0 : v; }

typedef struct { long m24, x24, m16a, m16b, m16h, over, pdiff, sover, near; } rel_t;

/* which output channel carries stream-channel j (mapping is a permutation in every layout used here) */
static int out_channel_of(const obj_t *o, int j)
{
   int c;
   if (o->lay < 0) return j;
   for (c = 0; c < o->ch; c++) if (LAY[o->lay].map[c] == j) return c;
   return -1;
}

static void measure(obj_t *o, int fmt, const void *nat, const float *sf, int N, int normal, rel_t *r, const float *view)
{
   int ch = o->ch, i, c, s;
   long tot = (long)N * ch;
   for (i = 0; i < tot; i++) if (sf[i] > 1.0f || sf[i] < -1.0f) r->over++;
   /* samples whose float value is at or within 32 16-bit units of the 16-bit limits: where a 16-bit output has to saturate */
   for (i = 0; i < tot; i++) if (sf[i] * 32768.0f > 32735.0f || sf[i] * 32768.0f < -32736.0f) r->near++;
   if (o->kind == 'P') {
      /* projection: 16-bit against the float output, measured in LSB (max over samples, capped), and whether any decoded
         stream sample went beyond +-1 (then the 16-bit path soft-clips or saturates the streams before the matrix) */
      for (i = 0; i < tot; i++) if (view[i] > 1.0f || view[i] < -1.0f) r->sover++;
      if (fmt == 0) {
         const opus_int16 *p = (const opus_int16 *)nat;
         for (i = 0; i < tot; i++) {
            double e = sat16d((double)sf[i] * 32768.0), d = fabs((double)p[i] - e);
            long q = (long)ceil(d - 1e-9); if (q > 100000) q = 100000;
            if (q > r->pdiff) r->pdiff = q;
         }
      } else if (fmt == 1) {
         const opus_int32 *p = (const opus_int32 *)nat;
         for (i = 0; i < tot; i++) {
            double d = fabs((double)p[i] - (double)sf[i] * 8388608.0) / 256.0;     /* in 16-bit LSB */
            long q = (long)ceil(d - 1e-9); if (q > 100000) q = 100000;
            if (q > r->pdiff) r->pdiff = q;
         }
      }
      return;
   }
   if (fmt == 1) {
      const opus_int32 *p = (const opus_int32 *)nat;
      for (i = 0; i < tot; i++) {
         double v = (double)sf[i] * 8388608.0;
         /* fixed point: the float sample is the 24-bit sample converted; beyond 2^24 a float no longer holds it exactly */
         if (FX && (v >= 16777216.0 || v <= -16777216.0)) { r->x24++; continue; }
         if (v > 2147483520.0) v = 2147483520.0;
         if (v < -2147483520.0) v = -2147483520.0;
         if (off_by_more_than_half((double)p[i], v)) r->m24++;
      }
   } else if (fmt == 0) {
      const opus_int16 *p = (const opus_int16 *)nat;
      float *ta = (float *)malloc(sizeof(float) * (size_t)N * 2), *tb = (float *)malloc(sizeof(float) * (size_t)N * 2);
      for (s = 0; s < o->nstreams; s++) {
         int cs = s < o->coupled ? 2 : 1, j0 = s < o->coupled ? 2 * s : 2 * o->coupled + (s - o->coupled), oc[2];
         for (c = 0; c < cs; c++) oc[c] = out_channel_of(o, j0 + c);
         if (oc[0] < 0 || (cs == 2 && oc[1] < 0)) continue;
         for (i = 0; i < N; i++) for (c = 0; c < cs; c++) ta[i * cs + c] = tb[i * cs + c] = sf[i * ch + oc[c]];
         /* reading A: the clipper runs on decoded packets only (concealed / FEC frames bypass it and leave its memory alone);
            reading B: every frame passes through the clipper.  TLC accepts either. */
         if (normal) opus_pcm_soft_clip(ta, N, cs, o->memA[s]);
         opus_pcm_soft_clip(tb, N, cs, o->memB[s]);
         for (i = 0; i < N; i++) for (c = 0; c < cs; c++) {
            double got = (double)p[i * ch + oc[c]];
            if (off_by_more_than_half(got, sat16d((double)ta[i * cs + c] * 32768.0))) r->m16a++;
            if (off_by_more_than_half(got, sat16d((double)tb[i * cs + c] * 32768.0))) r->m16b++;
            if (off_by_more_than_half(got, sat16d((double)sf[i * ch + oc[c]] * 32768.0))) r->m16h++;
         }
      }
      free(ta); free(tb);
   }
}

static void op_decode(int oi, int sid, int k0, int n, int mode, int fq)
{
   obj_t *o = &OB[oi]; pstream_t *ps; int j, fsamp, lastrc = 0, fmt;
   char ds[16 * 64 + 1], sds[16 * 64 + 1], cnts[12 * 64 + 1], scnts[12 * 64 + 1], rngs[9 * 64 + 1], srngs[9 * 64 + 1];
   size_t a = 0, b = 0, c = 0, d = 0, e = 0, f = 0; uint64_t pd = 1469598103934665603ULL; rel_t rel;
   if (!o->live || !is_dec(o->kind) || sid < 0 || sid >= MAXPS || !PS[sid].used || n < 1 || n > 64 || fq < 0 || fq > 24000) { js_open("Bad"); js_str("why", "decode"); js_close(); return; }
   ps = &PS[sid]; fmt = o->fmt;
   fsamp = o->fs / 400 * ps->fd;
   memset(&rel, 0, sizeof rel);
   ds[0] = sds[0] = cnts[0] = scnts[0] = rngs[0] = srngs[0] = 0;
   for (j = 0; j < n; j++) {
      int idx = (k0 + j) % ps->count, fec = 0, len, ret, sret, vret = 0, fsz; const unsigned char *data; unsigned char *dcopy = NULL;
      hx_buf nb, sb, vb; opus_uint32 r1, r2; unsigned char tag[5];
      if (mode == 1) { data = NULL; len = 0; }
      else if (mode == 2 && j == 0) { idx = (k0 + 1) % ps->count; fec = 1; data = ps->pk[idx]; len = ps->len[idx]; }
      else { data = ps->pk[idx]; len = ps->len[idx]; }
      if (data) { dcopy = hx_exact(data, (size_t)len); data = dcopy; }
      /* the frame_size of this call: the caller's on every call of a lost run and on the first call of the other runs */
      fsz = (fq > 0 && (mode == 1 || j == 0)) ? fq : fsamp;
      tag[0] = (unsigned char)(fec + 2 * (data == NULL)); tag[1] = (unsigned char)len; tag[2] = (unsigned char)(len >> 8); tag[3] = (unsigned char)fsz; tag[4] = (unsigned char)(fsz >> 8);
      pd = (pd ^ hx_fnv(tag, 5)) * 1099511628211ULL;
      if (data) pd = (pd ^ hx_fnv(data, (size_t)len)) * 1099511628211ULL;
      nb = hx_buf_new(fmt_size(fmt) * (size_t)fsz * (size_t)o->ch, 0);
      sb = hx_buf_new(sizeof(float) * (size_t)fsz * (size_t)o->ch, 0);
      fill_pattern(nb.p, nb.n, (unsigned)(g_seed + oi + g_call), g_seed + g_call);
      fill_pattern(sb.p, sb.n, (unsigned)(g_seed + oi + g_call + 1), g_seed + g_call + 5);
      ret = decode_any(o->st, o->kind, fmt, data, len, nb.p, fsz, fec);
      r1 = final_range(o->st, o->kind);
      sret = decode_any(o->sst, o->kind, 2, data, len, sb.p, fsz, fec);
      r2 = final_range(o->sst, o->kind);
      if (o->vst) {
         vb = hx_buf_new(sizeof(float) * (size_t)fsz * (size_t)o->ch, 0);
         vret = decode_any(o->vst, 'D', 2, data, len, vb.p, fsz, fec);
      }
      if (!hx_buf_ok(&nb) || !hx_buf_ok(&sb)) { js_open("Canary"); js_str("where", "pcm"); js_close(); fflush(stdout); exit(96); }
      a += (size_t)snprintf(ds + a, sizeof ds - a, "%016llx", (unsigned long long)hx_fnv(nb.p, ret > 0 ? fmt_size(fmt) * (size_t)ret * (size_t)o->ch : 0));
      b += (size_t)snprintf(sds + b, sizeof sds - b, "%016llx", (unsigned long long)hx_fnv(sb.p, sret > 0 ? sizeof(float) * (size_t)sret * (size_t)o->ch : 0));
      c += (size_t)snprintf(cnts + c, sizeof cnts - c, j ? ",%d" : "%d", ret);
      d += (size_t)snprintf(scnts + d, sizeof scnts - d, j ? ",%d" : "%d", sret);
      e += (size_t)snprintf(rngs + e, sizeof rngs - e, j ? ",%08x" : "%08x", (unsigned)r1);
      f += (size_t)snprintf(srngs + f, sizeof srngs - f, j ? ",%08x" : "%08x", (unsigned)r2);
      if (ret > 0 && sret == ret && (!o->vst || vret == ret))
         measure(o, fmt, nb.p, (const float *)sb.p, ret, data != NULL && !fec, &rel, o->vst ? (const float *)vb.p : NULL);
      lastrc = ret;
      hx_buf_free(&nb); hx_buf_free(&sb); if (o->vst) hx_buf_free(&vb);
      free(dcopy);
   }
   {
      char pds[20]; snprintf(pds, sizeof pds, "%016llx", (unsigned long long)pd);
      js_open("D"); js_int("o", oi); js_str("fmt", fmtname(fmt)); js_str("pd", pds); js_int("n", n); js_int("mode", mode); js_int("fs", fsamp); js_int("fq", fq);
      js_int("rc", lastrc);
      /* dF: one digest over the object's PCM digests, counts and ranges; dE: the same over the float twin's */
      { char one[20]; uint64_t d = ((hx_fnv(ds, strlen(ds)) * 1099511628211ULL ^ hx_fnv(cnts, strlen(cnts))) * 1099511628211ULL) ^ hx_fnv(rngs, strlen(rngs));
        snprintf(one, sizeof one, "%016llx", (unsigned long long)d); js_str("dF", one);
        d = ((hx_fnv(sds, strlen(sds)) * 1099511628211ULL ^ hx_fnv(scnts, strlen(scnts))) * 1099511628211ULL) ^ hx_fnv(srngs, strlen(srngs));
        snprintf(one, sizeof one, "%016llx", (unsigned long long)d); js_str("dE", one); }
      js_str("cnts", cnts); js_str("rngs", rngs); js_str("ds", ds);
      js_str("scnts", scnts); js_str("srngs", srngs); js_str("sds", sds);
      js_int("m24", rel.m24); js_int("x24", rel.x24); js_int("m16a", rel.m16a); js_int("m16b", rel.m16b); js_int("m16h", rel.m16h);
      js_int("over", rel.over); js_int("fx", FX); js_int("pdiff", rel.pdiff); js_int("sover", rel.sover); js_int("near", rel.near);
      js_close();
   }
}

/* ---------------------------------------------------------------- reference packet streams, bystanders */
static void op_pstream(int sid, int kind, int fs, int chlay, int app, int br, int fd, int fec, int sig, int count)
{
   pstream_t *ps; int size, ch, fsamp, k, merge = 1, sw = 0; unsigned char *blk, *st; opus_int16 *x; unsigned char buf[4000]; uint64_t dg = 1469598103934665603ULL;
   if (sid < 0 || sid >= MAXPS || count < 1 || count > MAXPK) { js_open("Bad"); js_str("why", "pstream"); js_close(); return; }
   ps = &PS[sid];
   for (k = 0; k < MAXPK; k++) { free(ps->pk[k]); ps->pk[k] = NULL; }
   if (kind == 'R') { merge = fec < 1 ? 1 : fec; fec = 0; kind = 'e'; }
   if (kind == 'S') { sw = 1; kind = 'e'; }
   size = state_size(kind, chlay); ch = obj_channels(kind, chlay);
   if (size <= 0) { js_open("Bad"); js_str("why", "pstream size"); js_close(); return; }
   blk = (unsigned char *)calloc(1, (size_t)size); st = blk;
   if (init_state(st, kind, fs, chlay, app, NULL) != OPUS_OK) { free(blk); js_open("Bad"); js_str("why", "pstream init"); js_close(); return; }
   ctl1(st, kind, OPUS_SET_BITRATE_REQUEST, br);
   if (fec) { ctl1(st, kind, OPUS_SET_INBAND_FEC_REQUEST, 1); ctl1(st, kind, OPUS_SET_PACKET_LOSS_PERC_REQUEST, 20); }
   fsamp = fs / 400 * fd;
   x = (opus_int16 *)malloc(sizeof(opus_int16) * (size_t)fsamp * (size_t)ch);
   ps->used = 1; ps->kind = kind; ps->fs = fs; ps->chlay = chlay; ps->fd = fd * merge; ps->count = count;
   for (k = 0; k < count; k++) {
      int ret = 0;
      if (sw && k % 4 == 0) { static const int M[4] = {1000, 1002, 1001, 1002}; ctl1(st, kind, 11002 /* OPUS_SET_FORCE_MODE */, M[(k / 4) % 4]); }
      if (merge == 1) {
         gen_block(x, sig, fs, ch, (long)k * fsamp, fsamp);
         ret = encode_any(st, kind, 0, x, fsamp, ch, buf, (int)sizeof buf);
      } else {
         /* encode `merge` packets and let the repacketizer make one packet of them */
         unsigned char part[6][1500]; int plen[6], m, okp = 1; OpusRepacketizer *rp = opus_repacketizer_create();
         for (m = 0; m < merge && m < 6; m++) {
            gen_block(x, sig, fs, ch, (long)(k * merge + m) * fsamp, fsamp);
            plen[m] = encode_any(st, kind, 0, x, fsamp, ch, part[m], 1500);
            if (plen[m] <= 0 || opus_repacketizer_cat(rp, part[m], plen[m]) != OPUS_OK) okp = 0;
         }
         if (okp) ret = opus_repacketizer_out(rp, buf, (opus_int32)sizeof buf);
         opus_repacketizer_destroy(rp);
      }
      if (ret < 0) ret = 0;
      ps->pk[k] = hx_exact(buf, (size_t)ret); ps->len[k] = ret;
      dg = (dg ^ hx_fnv(buf, (size_t)ret)) * 1099511628211ULL;
   }
   free(x); free(blk);
   { char s[20]; snprintf(s, sizeof s, "%016llx", (unsigned long long)dg);
     js_open("P"); js_int("sid", sid); js_int("n", count); js_str("pd", s); js_close(); }
}

static void op_bystander(int n)
{
   int err, k; OpusEncoder *e = opus_encoder_create(48000, 2, OPUS_APPLICATION_AUDIO, &err); OpusDecoder *d = opus_decoder_create(48000, 2, &err);
   opus_int16 x[960 * 2]; unsigned char p[1500]; float y[960 * 2];
   if (!e || !d) die("bystander");
   for (k = 0; k < n; k++) {
      int r;
      gen_block(x, 3, 48000, 2, (long)(g_call + k) * 960, 960);
      r = opus_encode(e, x, 960, p, 1500);
      if (r > 0) r = opus_decode_float(d, p, r, y, 960, 0);
   }
   opus_encoder_destroy(e); opus_decoder_destroy(d);
   js_open("B"); js_int("n", n); js_close();
}

int main(int argc, char **argv)
{
   static char line[512]; int i;
   (void)argc; (void)argv;
   signal(SIGVTALRM, ox_on_alarm);
   setvbuf(stdout, NULL, _IOLBF, 0);      /* an abort must not lose the events before it */
   FX = strstr(opus_get_version_string(), "-fixed") != NULL;
   while (fgets(line, sizeof line, stdin)) {
      int a[10]; unsigned long s; char kc, kc2;
      switch (line[0]) {
      case 'P':
         if (sscanf(line, "P %d %c %d %d %d %d %d %d %d %d", &a[0], &kc, &a[1], &a[2], &a[3], &a[4], &a[5], &a[6], &a[7], &a[8]) == 10)
            op_pstream(a[0], kc, a[1], a[2], a[3], a[4], a[5], a[6], a[7], a[8]);
         break;
      case 'H':
         if (sscanf(line, "H %d %lu", &a[0], &s) == 2) {
            for (i = 0; i < MAXOBJ; i++) destroy_obj(&OB[i]);
            g_seed = s; g_alloc = 0; g_call = (unsigned)(s % 7);
            js_open("H"); js_int("h", a[0]); js_int("ps", (long)(s % 1000000)); js_close();
         }
         break;
      case 'C':
         if (sscanf(line, "C %d %c %d %d %d %d", &a[0], &kc2, &a[1], &a[2], &a[3], &a[4]) == 6 && a[0] >= 0 && a[0] < MAXOBJ)
            { op_create(a[0], kc2, a[1], a[2], a[3], a[4]); op_getters(a[0]); }
         break;
      case 'T': if (sscanf(line, "T %d %d %d", &a[0], &a[1], &a[2]) == 3 && a[0] >= 0 && a[0] < MAXOBJ) { op_ctl(a[0], a[1], a[2]); op_getters(a[0]); } break;
      case 'E':
         if (sscanf(line, "E %d %d %d %d %d %d %d", &a[0], &a[1], &a[2], &a[3], &a[4], &a[5], &a[6]) == 7 && a[0] >= 0 && a[0] < MAXOBJ)
            { op_encode(a[0], a[1], a[2], a[3], a[4], a[5], a[6]); op_getters(a[0]); }
         break;
      case 'D':
         a[5] = 0;
         if (sscanf(line, "D %d %d %d %d %d %d", &a[0], &a[1], &a[2], &a[3], &a[4], &a[5]) >= 5 && a[0] >= 0 && a[0] < MAXOBJ) {
            op_decode(a[0], a[1], a[2], a[3], a[4], a[5]); op_getters(a[0]);
         }
         break;
      case 'Y': if (sscanf(line, "Y %d %d", &a[0], &a[1]) == 2 && a[0] >= 0 && a[0] < MAXOBJ && a[1] >= 0 && a[1] < MAXOBJ) { op_copy(a[0], a[1]); op_getters(a[1]); } break;
      case 'R': if (sscanf(line, "R %d", &a[0]) == 1 && a[0] >= 0 && a[0] < MAXOBJ) { op_reset(a[0]); op_getters(a[0]); } break;
      case 'X':
         if (sscanf(line, "X %d", &a[0]) == 1 && a[0] >= 0 && a[0] < MAXOBJ) {
            if (OB[a[0]].live) { destroy_obj(&OB[a[0]]); js_open("X"); js_int("o", a[0]); js_close(); }
            else { js_open("Bad"); js_str("why", "destroy of dead object"); js_close(); }
         }
         break;
      case 'B': if (sscanf(line, "B %d", &a[0]) == 1) op_bystander(a[0]); break;
      default: break;
      }
   }
   for (i = 0; i < MAXOBJ; i++) destroy_obj(&OB[i]);
   for (i = 0; i < MAXPS; i++) { int k; for (k = 0; k < MAXPK; k++) free(PS[i].pk[k]); }
   return 0;
}
