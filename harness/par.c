/* hx_par: concurrent use of independent codec objects (modules ObjectsPar / ParTrace, property C14).
     hx_par conc <seed> <nthreads> <rounds>    N threads start together behind a barrier - the very first library call of
                                               the process is made concurrently by all of them (first creation, CPU-feature
                                               detection, first use of every table) - and each drives objects of its own
     hx_par solo <seed> <nthreads> <rounds>    the same N programs, each run alone in a process of its own (fork)
   Thread i's program is a function of (seed, i) only.  Kinds of program (i mod 5): encoder; decoder (fed by a private
   encoder of the same thread) with losses and FEC; multistream surround encoder + decoder; repacketizer with pad/unpad;
   float encoder/decoder pair at 48 kHz with the signal analysis running.  Every round creates, configures, uses and
   destroys the objects again, so that creations and destructions overlap other threads' coding calls.
   Output: one "ev" event per library call with a per-thread sequence number: op, return value, digest of everything the
   call produced.  The harness compares nothing; ParTrace (TLC) compares each thread's concurrent log with its solo log.
   Under the tsan variant any ThreadSanitizer report makes the process exit non-zero. */
#include "hx_common.h"
#include <pthread.h>
#include <math.h>
#include <sys/wait.h>
#include "opus.h"
#include "opus_multistream.h"

typedef struct { char op[12]; int ret; uint64_t dg; } ev_t;
typedef struct {
   int id, nthreads, rounds; uint64_t seed; const char *phase;
   ev_t *ev; int nev, cap;
   pthread_barrier_t *bar;
} thr_t;

static void logev(thr_t *t, const char *op, int ret, uint64_t dg)
{
   if (t->nev == t->cap) { t->cap = t->cap ? 2 * t->cap : 256; t->ev = (ev_t *)realloc(t->ev, sizeof(ev_t) * (size_t)t->cap); }
   strncpy(t->ev[t->nev].op, op, sizeof t->ev[0].op - 1); t->ev[t->nev].op[sizeof t->ev[0].op - 1] = 0;
   t->ev[t->nev].ret = ret; t->ev[t->nev].dg = dg; t->nev++;
}
static void dump(thr_t *t)
{
   int i;
   for (i = 0; i < t->nev; i++)
      printf("{\"k\":\"ev\",\"ph\":\"%s\",\"th\":%d,\"seq\":%d,\"op\":\"%s\",\"ret\":%d,\"dg\":\"%016llx\"}\n",
             t->phase, t->id, i + 1, t->ev[i].op, t->ev[i].ret, (unsigned long long)t->ev[i].dg);
}

static void gen(hx_rng *r, double *ph, opus_int16 *x, int n, int ch, int fs, int style)
{
   int i, c, h;
   for (i = 0; i < n; i++) {
      double f0 = 120 + 40 * style, s = 0, nz = hx_unit(r) * 2 - 1;
      *ph += 2 * M_PI * f0 / fs; if (*ph > 2 * M_PI * 64) *ph -= 2 * M_PI * 64;
      for (h = 1; h <= 10; h++) if (h * f0 < 0.45 * fs) s += sin(h * *ph + 0.2 * h) / h;
      s = 0.25 * s * (0.6 + 0.4 * sin(*ph / 37)) + 0.03 * nz;
      if ((i & 1023) < 40 && style == 2) s += 0.2 * nz;
      for (c = 0; c < ch; c++) x[i * ch + c] = (opus_int16)floor(32767.0 * s * (c & 1 ? 0.7 : 1.0) + 0.5);
   }
}

static const int FS[5] = { 8000, 12000, 16000, 24000, 48000 };
static const int APPS[3] = { OPUS_APPLICATION_VOIP, OPUS_APPLICATION_AUDIO, OPUS_APPLICATION_RESTRICTED_LOWDELAY };
static const int BRS[8] = { 8000, 12000, 16000, 24000, 32000, 64000, 96000, 128000 };
static const int DUR[6] = { 5, 10, 20, 40, 80, 120 };      /* half-milliseconds */

static OpusEncoder *mk_enc(thr_t *t, hx_rng *r, int fs, int ch, int use_init)
{
   int err = 0, app = APPS[hx_u(r, 3)]; OpusEncoder *e;
   if (use_init) {
      int sz = opus_encoder_get_size(ch);
      e = (OpusEncoder *)malloc((size_t)sz);
      memset(e, 0xA5, (size_t)sz);
      err = opus_encoder_init(e, fs, ch, app);
      logev(t, "enc_init", err, (uint64_t)sz);
   } else {
      e = opus_encoder_create(fs, ch, app, &err);
      logev(t, "enc_create", err, e != NULL);
   }
   return e;
}
static void enc_ctls(thr_t *t, hx_rng *r, OpusEncoder *e)
{
   int v;
   logev(t, "ctl_br", opus_encoder_ctl(e, OPUS_SET_BITRATE(BRS[hx_u(r, 8)])), 0);
   logev(t, "ctl_cx", opus_encoder_ctl(e, OPUS_SET_COMPLEXITY((int)hx_u(r, 11))), 0);
   logev(t, "ctl_fec", opus_encoder_ctl(e, OPUS_SET_INBAND_FEC((int)hx_u(r, 2))), 0);
   logev(t, "ctl_loss", opus_encoder_ctl(e, OPUS_SET_PACKET_LOSS_PERC((int)hx_u(r, 30))), 0);
   logev(t, "ctl_dtx", opus_encoder_ctl(e, OPUS_SET_DTX((int)hx_u(r, 2))), 0);
   logev(t, "ctl_vbr", opus_encoder_ctl(e, OPUS_SET_VBR((int)hx_u(r, 2))), 0);
   v = -1; logev(t, "get_br", opus_encoder_ctl(e, OPUS_GET_BITRATE(&v)), (uint64_t)(uint32_t)v);
   v = -1; logev(t, "get_look", opus_encoder_ctl(e, OPUS_GET_LOOKAHEAD(&v)), (uint64_t)(uint32_t)v);
}

static void prog_codec(thr_t *t, hx_rng *r, int with_dec, int flt)
{
   int fs = flt ? 48000 : FS[hx_u(r, 5)], ch = 1 + (int)hx_u(r, 2), dq = flt ? 40 : DUR[hx_u(r, 6)], frame = fs * dq / 2000;
   int nfr = 6 + (int)hx_u(r, 10), i, k, err = 0; double ph = 0;
   OpusEncoder *e = mk_enc(t, r, fs, ch, (int)hx_u(r, 2)); OpusDecoder *d = NULL;
   opus_int16 *in = (opus_int16 *)malloc(sizeof(opus_int16) * (size_t)frame * ch), *out = (opus_int16 *)malloc(sizeof(opus_int16) * (size_t)frame * ch);
   float *fin = (float *)malloc(sizeof(float) * (size_t)frame * ch), *fout = (float *)malloc(sizeof(float) * (size_t)frame * ch);
   unsigned char pkt[2][1500]; int plen[2] = { 0, 0 };
   if (!e) goto done;
   if (flt) { logev(t, "ctl_cx", opus_encoder_ctl(e, OPUS_SET_COMPLEXITY(10)), 0); logev(t, "ctl_br", opus_encoder_ctl(e, OPUS_SET_BITRATE(BRS[3 + hx_u(r, 5)])), 0); }
   else enc_ctls(t, r, e);
   if (with_dec) { d = opus_decoder_create(fs, ch, &err); logev(t, "dec_create", err, d != NULL); if (!d) goto done; }
   for (i = 0; i < nfr; i++) {
      int cur = i & 1, n; opus_uint32 rng = 0;
      gen(r, &ph, in, frame, ch, fs, t->id % 3);
      if (flt) { for (k = 0; k < frame * ch; k++) fin[k] = in[k] / 32768.f; n = opus_encode_float(e, fin, frame, pkt[cur], 1500); }
      else n = opus_encode(e, in, frame, pkt[cur], 1500);
      opus_encoder_ctl(e, OPUS_GET_FINAL_RANGE(&rng));
      plen[cur] = n;
      logev(t, "encode", n, n > 0 ? hx_fnv(pkt[cur], (size_t)n) ^ rng : rng);
      if (i == nfr / 2 && !flt) { logev(t, "ctl_br", opus_encoder_ctl(e, OPUS_SET_BITRATE(BRS[hx_u(r, 8)])), 0); logev(t, "ctl_bw", opus_encoder_ctl(e, OPUS_SET_MAX_BANDWIDTH(OPUS_BANDWIDTH_NARROWBAND + (int)hx_u(r, 5))), 0); }
      if (d && n > 0) {
         int lost = hx_u(r, 6) == 0, m; opus_uint32 drng = 0;
         if (lost && i > 0) {
            /* the previous packet is treated as lost: conceal, or recover from this packet's FEC data */
            if (hx_u(r, 2)) { m = flt ? opus_decode_float(d, pkt[cur], n, fout, frame, 1) : opus_decode(d, pkt[cur], n, out, frame, 1); logev(t, "dec_fec", m, m > 0 ? (flt ? hx_fnv(fout, sizeof(float) * (size_t)m * ch) : hx_fnv(out, sizeof(opus_int16) * (size_t)m * ch)) : 0); }
            else { m = flt ? opus_decode_float(d, NULL, 0, fout, frame, 0) : opus_decode(d, NULL, 0, out, frame, 0); logev(t, "dec_plc", m, m > 0 ? (flt ? hx_fnv(fout, sizeof(float) * (size_t)m * ch) : hx_fnv(out, sizeof(opus_int16) * (size_t)m * ch)) : 0); }
         }
         m = flt ? opus_decode_float(d, pkt[cur], n, fout, frame, 0) : opus_decode(d, pkt[cur], n, out, frame, 0);
         opus_decoder_ctl(d, OPUS_GET_FINAL_RANGE(&drng));
         logev(t, "decode", m, (m > 0 ? (flt ? hx_fnv(fout, sizeof(float) * (size_t)m * ch) : hx_fnv(out, sizeof(opus_int16) * (size_t)m * ch)) : 0) ^ drng);
      }
      if (i == nfr - 3) logev(t, "enc_reset", opus_encoder_ctl(e, OPUS_RESET_STATE), 0);
   }
   (void)plen;
done:
   if (d) { opus_decoder_destroy(d); logev(t, "dec_free", 0, 0); }
   if (e) { opus_encoder_destroy(e); logev(t, "enc_free", 0, 0); }
   free(in); free(out); free(fin); free(fout);
}

static void prog_ms(thr_t *t, hx_rng *r)
{
   int chs = 1 + (int)hx_u(r, 8), fam = chs <= 2 ? (int)hx_u(r, 2) : 1, fs = hx_u(r, 2) ? 48000 : 16000, frame = fs / 50, streams = 0, coupled = 0, err = 0, i, nfr = 4 + (int)hx_u(r, 5);
   unsigned char mapping[256]; OpusMSEncoder *e; OpusMSDecoder *d = NULL; double ph = 0;
   opus_int16 *in = (opus_int16 *)malloc(sizeof(opus_int16) * (size_t)frame * chs), *out = (opus_int16 *)malloc(sizeof(opus_int16) * (size_t)frame * chs);
   unsigned char *pkt = (unsigned char *)malloc(1500 * 8);
   e = opus_multistream_surround_encoder_create(fs, chs, fam, &streams, &coupled, mapping, OPUS_APPLICATION_AUDIO, &err);
   logev(t, "mse_create", err, (uint64_t)(streams * 16 + coupled) ^ hx_fnv(mapping, (size_t)chs));
   if (!e) goto done;
   logev(t, "ctl_br", opus_multistream_encoder_ctl(e, OPUS_SET_BITRATE(32000 * chs)), 0);
   logev(t, "ctl_cx", opus_multistream_encoder_ctl(e, OPUS_SET_COMPLEXITY((int)hx_u(r, 11))), 0);
   d = opus_multistream_decoder_create(fs, chs, streams, coupled, mapping, &err);
   logev(t, "msd_create", err, d != NULL);
   if (!d) goto done;
   for (i = 0; i < nfr; i++) {
      int n, m; opus_uint32 rng = 0;
      gen(r, &ph, in, frame, chs, fs, t->id % 3);
      n = opus_multistream_encode(e, in, frame, pkt, 1500 * 8);
      opus_multistream_encoder_ctl(e, OPUS_GET_FINAL_RANGE(&rng));
      logev(t, "ms_encode", n, n > 0 ? hx_fnv(pkt, (size_t)n) ^ rng : rng);
      if (n <= 0) break;
      m = hx_u(r, 7) == 0 ? opus_multistream_decode(d, NULL, 0, out, frame, 0) : opus_multistream_decode(d, pkt, n, out, frame, 0);
      logev(t, "ms_decode", m, m > 0 ? hx_fnv(out, sizeof(opus_int16) * (size_t)m * chs) : 0);
   }
done:
   if (d) { opus_multistream_decoder_destroy(d); logev(t, "msd_free", 0, 0); }
   if (e) { opus_multistream_encoder_destroy(e); logev(t, "mse_free", 0, 0); }
   free(in); free(out); free(pkt);
}

static void prog_rp(thr_t *t, hx_rng *r)
{
   int fs = FS[hx_u(r, 5)], ch = 1 + (int)hx_u(r, 2), frame = fs / 50, i, err = 0, np = 2 + (int)hx_u(r, 3); double ph = 0;
   OpusEncoder *e = opus_encoder_create(fs, ch, OPUS_APPLICATION_AUDIO, &err); OpusRepacketizer *rp;
   opus_int16 *in = (opus_int16 *)malloc(sizeof(opus_int16) * (size_t)frame * ch);
   unsigned char pk[4][600], outb[4000]; int pl[4];
   logev(t, "enc_create", err, e != NULL);
   if (!e) { free(in); return; }
   opus_encoder_ctl(e, OPUS_SET_BITRATE(BRS[1 + hx_u(r, 4)]));
   rp = opus_repacketizer_create();
   logev(t, "rp_create", rp ? 0 : -7, (uint64_t)opus_repacketizer_get_size());
   for (i = 0; i < np; i++) {
      gen(r, &ph, in, frame, ch, fs, 1);
      pl[i] = opus_encode(e, in, frame, pk[i], 600);
      logev(t, "encode", pl[i], pl[i] > 0 ? hx_fnv(pk[i], (size_t)pl[i]) : 0);
      if (pl[i] > 0) logev(t, "rp_cat", opus_repacketizer_cat(rp, pk[i], pl[i]), (uint64_t)opus_repacketizer_get_nb_frames(rp));
   }
   { int n = opus_repacketizer_out(rp, outb, sizeof outb); logev(t, "rp_out", n, n > 0 ? hx_fnv(outb, (size_t)n) : 0);
     if (n > 0 && n + 40 < (int)sizeof outb) {
        int p = opus_packet_pad(outb, n, n + 40); logev(t, "pad", p, hx_fnv(outb, (size_t)n + 40));
        p = opus_packet_unpad(outb, n + 40); logev(t, "unpad", p, p > 0 ? hx_fnv(outb, (size_t)p) : 0);
     }
     n = opus_repacketizer_out_range(rp, 0, 1, outb, sizeof outb); logev(t, "rp_range", n, n > 0 ? hx_fnv(outb, (size_t)n) : 0);
   }
   { float buf[960]; for (i = 0; i < 960; i++) buf[i] = (float)(2.5 * sin(0.01 * i * (1 + t->id))); opus_pcm_soft_clip(buf, 480, 2, (float[2]){0, 0}); logev(t, "softclip", 0, hx_fnv(buf, sizeof buf)); }
   opus_repacketizer_destroy(rp); logev(t, "rp_free", 0, 0);
   opus_encoder_destroy(e); logev(t, "enc_free", 0, 0);
   free(in);
}


/* ---- pair mode: objects that the CALLER has related - a byte copy of another object, or a neighbour in one arena ----
   hx_par concp|solop <seed> <nthreads (even)> <rounds>.  Threads 2p and 2p+1 form pair p.  The pair's set-up (made by
   the main thread before any worker starts, a function of (seed, p) only) creates both threads' objects:
     kind 0  a multistream decoder with some history, and a copy of it made with memcpy of get_size bytes
     kind 1  an encoder + decoder with some history, and copies of both
     kind 2  one arena holding, back to back at their get_size sizes: a plain 3-channel multistream encoder (thread 2p),
             a repacketizer and a decoder (thread 2p+1)
     kind 3  one arena: an ambisonics projection encoder (thread 2p), then an encoder (thread 2p+1)
     kind 4  a surround (5.1) multistream encoder with history and a copy of it
   Each thread then uses its own object(s) only.  In the first half of every round the two threads take strict turns
   (thread 2p+1 acts, thread 2p acts, thread 2p+1 acts), so an object that reaches into the other one's memory - through a
   stored absolute pointer that the copy inherited, or by writing past its own size - changes what the other returns on a
   schedule that does not depend on the OS; in the second half they run freely (races for ThreadSanitizer).
   The solo run of thread i makes the same set-up and then runs thread i's part alone. */
#include "opus_projection.h"
#define PK 16
typedef struct {
   int kind, fs, ch, frame, streams, coupled;
   unsigned char mapping[8];
   unsigned char *blk[4]; size_t sz[4];          /* separately allocated objects (clone kinds): A0 A1 (thread 2p), B0 B1 (thread 2p+1) */
   unsigned char *arena; size_t off[4];          /* arena kinds */
   unsigned char pk[2][PK][1500]; int pl[2][PK]; /* packet streams X (thread 2p) and Y (thread 2p+1) */
   opus_int16 *sig[2];                           /* input signals X, Y: PK frames each */
   pthread_barrier_t bar2; int use_bar;
} pair_t;

static size_t al16(size_t x) { return (x + 15) & ~(size_t)15; }

static void pair_setup(pair_t *P, uint64_t seed, int p, int rd)
{
   hx_rng r; int i, j, err = 0; double ph = 0;
   memset(P, 0, sizeof *P);
   r.s = seed * 0x9E3779B97F4A7C15ULL + (uint64_t)p * 0xA24BAED4963EE407ULL + (uint64_t)rd * 0x9FB21C651E98DF25ULL + 11;
   P->kind = (p + rd) % 5; P->fs = 48000; P->frame = 960;
   P->ch = (P->kind == 0 || P->kind == 2) ? 3 : P->kind == 3 ? 4 : P->kind == 4 ? 6 : 2;
   for (j = 0; j < 2; j++) {
      P->sig[j] = (opus_int16 *)malloc(sizeof(opus_int16) * (size_t)P->frame * (size_t)P->ch * PK);
      ph = j; gen(&r, &ph, P->sig[j], P->frame * PK, P->ch, P->fs, j + (int)hx_u(&r, 2));
   }
   if (P->kind == 0) {
      /* packets from two surround encoders; decoder A with 6 frames of history, B = copy */
      OpusMSEncoder *e[2]; OpusMSDecoder *A; opus_int16 *out = (opus_int16 *)malloc(sizeof(opus_int16) * 960 * 3);
      for (j = 0; j < 2; j++) {
         e[j] = opus_multistream_surround_encoder_create(P->fs, 3, 1, &P->streams, &P->coupled, P->mapping, OPUS_APPLICATION_AUDIO, &err);
         opus_multistream_encoder_ctl(e[j], OPUS_SET_BITRATE(96000 + 32000 * j));
         for (i = 0; i < PK; i++) P->pl[j][i] = opus_multistream_encode(e[j], P->sig[j] + (size_t)i * 960 * 3, 960, P->pk[j][i], 1500);
         opus_multistream_encoder_destroy(e[j]);
      }
      P->sz[0] = P->sz[2] = (size_t)opus_multistream_decoder_get_size(P->streams, P->coupled);
      P->blk[0] = (unsigned char *)malloc(P->sz[0]); P->blk[2] = (unsigned char *)malloc(P->sz[2]);
      A = (OpusMSDecoder *)P->blk[0];
      opus_multistream_decoder_init(A, P->fs, 3, P->streams, P->coupled, P->mapping);
      for (i = 0; i < 6; i++) if (P->pl[0][i] > 0) opus_multistream_decode(A, P->pk[0][i], P->pl[0][i], out, 960, 0);
      memcpy(P->blk[2], P->blk[0], P->sz[0]);
      free(out);
   } else if (P->kind == 1) {
      OpusEncoder *E; OpusDecoder *D; opus_int16 *out = (opus_int16 *)malloc(sizeof(opus_int16) * 960 * 2); unsigned char tmp[1500];
      P->sz[0] = P->sz[2] = (size_t)opus_encoder_get_size(2); P->sz[1] = P->sz[3] = (size_t)opus_decoder_get_size(2);
      for (i = 0; i < 4; i++) P->blk[i] = (unsigned char *)malloc(P->sz[i]);
      E = (OpusEncoder *)P->blk[0]; D = (OpusDecoder *)P->blk[1];
      opus_encoder_init(E, P->fs, 2, hx_u(&r, 2) ? OPUS_APPLICATION_AUDIO : OPUS_APPLICATION_VOIP);
      opus_encoder_ctl(E, OPUS_SET_BITRATE(BRS[2 + hx_u(&r, 5)]));
      opus_decoder_init(D, P->fs, 2);
      for (i = 0; i < 5; i++) { int n = opus_encode(E, P->sig[0] + (size_t)i * 960 * 2, 960, tmp, 1500); if (n > 0) opus_decode(D, tmp, n, out, 960, 0); }
      memcpy(P->blk[2], P->blk[0], P->sz[0]); memcpy(P->blk[3], P->blk[1], P->sz[1]);
      free(out);
   } else if (P->kind == 2) {
      /* arena: [multistream encoder, plain API, 3 channels / 2 streams / 1 coupled][repacketizer][decoder] */
      size_t s0 = (size_t)opus_multistream_encoder_get_size(2, 1), s1 = (size_t)opus_repacketizer_get_size(), s2 = (size_t)opus_decoder_get_size(2);
      OpusEncoder *e2 = opus_encoder_create(P->fs, 2, OPUS_APPLICATION_AUDIO, &err);
      P->streams = 2; P->coupled = 1; P->mapping[0] = 0; P->mapping[1] = 1; P->mapping[2] = 2;
      P->off[0] = 0; P->off[1] = al16(s0) == s0 ? s0 : s0; P->off[2] = P->off[1] + s1; P->off[3] = P->off[2] + s2;
      P->arena = (unsigned char *)malloc(P->off[3]);
      memset(P->arena, 0x5a, P->off[3]);
      opus_multistream_encoder_init((OpusMSEncoder *)(P->arena + P->off[0]), P->fs, 3, 2, 1, P->mapping, OPUS_APPLICATION_AUDIO);
      opus_repacketizer_init((OpusRepacketizer *)(P->arena + P->off[1]));
      opus_decoder_init((OpusDecoder *)(P->arena + P->off[2]), P->fs, 2);
      opus_encoder_ctl(e2, OPUS_SET_BITRATE(24000));
      for (i = 0; i < PK; i++) { opus_int16 st[960 * 2]; int k; for (k = 0; k < 960; k++) { st[2 * k] = P->sig[1][((size_t)i * 960 + k) * 3]; st[2 * k + 1] = P->sig[1][((size_t)i * 960 + k) * 3 + 1]; }
         P->pl[1][i] = opus_encode(e2, st, 960, P->pk[1][i], 300); }
      opus_encoder_destroy(e2);
   } else if (P->kind == 3) {
      /* arena: [ambisonics projection encoder, 4 channels][encoder] */
      int st = 0, cp = 0; size_t s0 = (size_t)opus_projection_ambisonics_encoder_get_size(4, 3), s1 = (size_t)opus_encoder_get_size(2);
      P->off[0] = 0; P->off[1] = s0; P->off[2] = s0 + s1;
      P->arena = (unsigned char *)malloc(P->off[2]);
      memset(P->arena, 0xa5, P->off[2]);
      opus_projection_ambisonics_encoder_init((OpusProjectionEncoder *)P->arena, P->fs, 4, 3, &st, &cp, OPUS_APPLICATION_AUDIO);
      opus_encoder_init((OpusEncoder *)(P->arena + P->off[1]), P->fs, 2, OPUS_APPLICATION_AUDIO);
      P->streams = st; P->coupled = cp;
   } else {
      OpusMSEncoder *A; unsigned char tmp[4000];
      P->sz[0] = P->sz[2] = (size_t)opus_multistream_surround_encoder_get_size(6, 1);
      P->blk[0] = (unsigned char *)malloc(P->sz[0]); P->blk[2] = (unsigned char *)malloc(P->sz[2]);
      A = (OpusMSEncoder *)P->blk[0];
      opus_multistream_surround_encoder_init(A, P->fs, 6, 1, &P->streams, &P->coupled, P->mapping, OPUS_APPLICATION_AUDIO);
      opus_multistream_encoder_ctl(A, OPUS_SET_BITRATE(192000));
      for (i = 0; i < 4; i++) opus_multistream_encode(A, P->sig[0] + (size_t)i * 960 * 6, 960, tmp, 4000);
      memcpy(P->blk[2], P->blk[0], P->sz[0]);
   }
}

static void pair_free(pair_t *P) { int i; for (i = 0; i < 4; i++) free(P->blk[i]); free(P->arena); free(P->sig[0]); free(P->sig[1]); }
static void pbar(pair_t *P, int lock) { if (P->use_bar && lock) pthread_barrier_wait(&P->bar2); }

/* one step of thread `me` (0 or 1) of the pair; sub = 0 (thread 1, before), 1 (thread 0), 2 (thread 1, after) */
static void pair_step(thr_t *t, pair_t *P, int me, int j, int sub)
{
   opus_int16 out[960 * 6]; unsigned char buf[4000]; opus_uint32 rng = 0; int n;
   if ((sub == 1) != (me == 0)) return;
   switch (P->kind) {
   case 0: if (sub != 0) { OpusMSDecoder *d = (OpusMSDecoder *)P->blk[me ? 2 : 0]; int k = 6 + j % (PK - 6);
              n = P->pl[me][k] > 0 ? opus_multistream_decode(d, P->pk[me][k], P->pl[me][k], out, 960, 0) : -99;
              opus_multistream_decoder_ctl(d, OPUS_GET_FINAL_RANGE(&rng));
              logev(t, "ms_decode", n, (n > 0 ? hx_fnv(out, sizeof(opus_int16) * (size_t)n * 3) : 0) ^ rng); } break;
   case 1: if (sub != 0) { OpusEncoder *e = (OpusEncoder *)P->blk[me ? 2 : 0]; OpusDecoder *d = (OpusDecoder *)P->blk[me ? 3 : 1];
              n = opus_encode(e, P->sig[me] + (size_t)(j % PK) * 960 * 2, 960, buf, 1500); opus_encoder_ctl(e, OPUS_GET_FINAL_RANGE(&rng));
              logev(t, "encode", n, (n > 0 ? hx_fnv(buf, (size_t)n) : 0) ^ rng);
              if (n > 0) { int m = opus_decode(d, buf, n, out, 960, 0); logev(t, "decode", m, m > 0 ? hx_fnv(out, sizeof(opus_int16) * (size_t)m * 2) : 0); } } break;
   case 2:
      if (me == 0) { OpusMSEncoder *e = (OpusMSEncoder *)(P->arena + P->off[0]);
         if (j % 2 == 0) logev(t, "mse_reset", opus_multistream_encoder_ctl(e, OPUS_RESET_STATE), 0);
         n = opus_multistream_encode(e, P->sig[0] + (size_t)(j % PK) * 960 * 3, 960, buf, 4000); opus_multistream_encoder_ctl(e, OPUS_GET_FINAL_RANGE(&rng));
         logev(t, "ms_encode", n, (n > 0 ? hx_fnv(buf, (size_t)n) : 0) ^ rng);
      } else { OpusRepacketizer *rp = (OpusRepacketizer *)(P->arena + P->off[1]); OpusDecoder *d = (OpusDecoder *)(P->arena + P->off[2]); int k = j % (PK - 1);
         if (sub == 0) { opus_repacketizer_init(rp);
            logev(t, "rp_cat", opus_repacketizer_cat(rp, P->pk[1][k], P->pl[1][k]), (uint64_t)opus_repacketizer_get_nb_frames(rp));
            logev(t, "rp_cat", opus_repacketizer_cat(rp, P->pk[1][k + 1], P->pl[1][k + 1]), (uint64_t)opus_repacketizer_get_nb_frames(rp));
            n = opus_decode(d, P->pk[1][k], P->pl[1][k], out, 960, 0); logev(t, "decode", n, n > 0 ? hx_fnv(out, sizeof(opus_int16) * (size_t)n * 2) : 0);
         } else { logev(t, "rp_nb", opus_repacketizer_get_nb_frames(rp), 0);
            n = opus_repacketizer_out(rp, buf, 4000); logev(t, "rp_out", n, n > 0 ? hx_fnv(buf, (size_t)n) : 0);
            n = opus_decode(d, NULL, 0, out, 960, 0); logev(t, "dec_plc", n, n > 0 ? hx_fnv(out, sizeof(opus_int16) * (size_t)n * 2) : 0); }
      } break;
   case 3:
      if (me == 0) { OpusProjectionEncoder *e = (OpusProjectionEncoder *)P->arena;
         if (j % 2 == 0) logev(t, "pe_reset", opus_projection_encoder_ctl(e, OPUS_RESET_STATE), 0);
         n = opus_projection_encode(e, P->sig[0] + (size_t)(j % PK) * 960 * 4, 960, buf, 4000); opus_projection_encoder_ctl(e, OPUS_GET_FINAL_RANGE(&rng));
         logev(t, "pr_encode", n, (n > 0 ? hx_fnv(buf, (size_t)n) : 0) ^ rng);
      } else if (sub == 2) { OpusEncoder *e = (OpusEncoder *)(P->arena + P->off[1]); opus_int16 st[960 * 2]; int k;
         for (k = 0; k < 960 * 2; k++) st[k] = P->sig[1][(size_t)(j % PK) * 960 * 4 + (size_t)(k / 2) * 4 + (k & 1)];
         { opus_int32 br = 0; logev(t, "get_br", opus_encoder_ctl(e, OPUS_GET_BITRATE(&br)), (uint64_t)br); }
         n = opus_encode(e, st, 960, buf, 1500); opus_encoder_ctl(e, OPUS_GET_FINAL_RANGE(&rng));
         logev(t, "encode", n, (n > 0 ? hx_fnv(buf, (size_t)n) : 0) ^ rng);
      } break;
   default: if (sub != 0) { OpusMSEncoder *e = (OpusMSEncoder *)P->blk[me ? 2 : 0];
              n = opus_multistream_encode(e, P->sig[me] + (size_t)(j % PK) * 960 * 6, 960, buf, 4000); opus_multistream_encoder_ctl(e, OPUS_GET_FINAL_RANGE(&rng));
              logev(t, "ms_encode", n, (n > 0 ? hx_fnv(buf, (size_t)n) : 0) ^ rng); } break;
   }
}

static pair_t *g_pairs;      /* [pair][round], set up by the main thread */
static int g_rounds;

static void *pair_thread_main(void *arg)
{
   thr_t *t = (thr_t *)arg; int rd, j, me = t->id & 1, p = t->id >> 1;
   if (t->bar) pthread_barrier_wait(t->bar);
   for (rd = 0; rd < t->rounds; rd++) {
      pair_t *P = &g_pairs[(size_t)p * (size_t)g_rounds + (size_t)rd];
      logev(t, "round", rd, (uint64_t)P->kind);
      for (j = 0; j < 12; j++) {
         int lock = j < 6;
         pbar(P, lock); pair_step(t, P, me, j, 0);
         pbar(P, lock); pair_step(t, P, me, j, 1);
         pbar(P, lock); pair_step(t, P, me, j, 2);
      }
   }
   return NULL;
}

static void *thread_main(void *arg)
{
   thr_t *t = (thr_t *)arg; int rd; hx_rng r;
   r.s = t->seed * 0x9E3779B97F4A7C15ULL + (uint64_t)t->id * 0xD1B54A32D192ED03ULL + 7;
   if (t->bar) pthread_barrier_wait(t->bar);
   for (rd = 0; rd < t->rounds; rd++) {
      logev(t, "round", rd, 0);
      switch (t->id % 5) {
      case 0: prog_codec(t, &r, 0, 0); break;
      case 1: prog_codec(t, &r, 1, 0); break;
      case 2: prog_ms(t, &r); break;
      case 3: prog_rp(t, &r); break;
      default: prog_codec(t, &r, 1, 1); break;
      }
      if (t->bar && (rd & 1)) pthread_barrier_wait(t->bar);      /* re-align every other round: creations meet coding calls */
   }
   return NULL;
}


static int main_pairs(int conc, uint64_t seed, int n, int rounds)
{
   int i, rd, np = n / 2; thr_t *th;
   if (n < 2 || n > 64 || (n & 1) || rounds < 1) return 2;
   th = (thr_t *)calloc((size_t)n, sizeof *th); g_rounds = rounds;
   for (i = 0; i < n; i++) { th[i].id = i; th[i].nthreads = n; th[i].rounds = rounds; th[i].seed = seed; th[i].phase = conc ? "conc" : "solo"; }
   if (conc) {
      pthread_t *pt = (pthread_t *)calloc((size_t)n, sizeof *pt); pthread_barrier_t bar;
      printf("{\"k\":\"conc\",\"seed\":%llu,\"n\":%d,\"rounds\":%d}\n", (unsigned long long)seed, n, rounds);
      g_pairs = (pair_t *)calloc((size_t)np * (size_t)rounds, sizeof(pair_t));
      for (i = 0; i < np; i++) for (rd = 0; rd < rounds; rd++) { pair_t *P = &g_pairs[(size_t)i * (size_t)rounds + (size_t)rd]; pair_setup(P, seed, i, rd); P->use_bar = 1; pthread_barrier_init(&P->bar2, NULL, 2); }
      pthread_barrier_init(&bar, NULL, (unsigned)n);
      for (i = 0; i < n; i++) { th[i].bar = &bar; if (pthread_create(&pt[i], NULL, pair_thread_main, &th[i])) return 3; }
      for (i = 0; i < n; i++) pthread_join(pt[i], NULL);
      for (i = 0; i < n; i++) { dump(&th[i]); free(th[i].ev); }
      printf("{\"k\":\"done\",\"n\":%d}\n", n);
      for (i = 0; i < np * rounds; i++) pair_free(&g_pairs[i]);
      free(g_pairs); free(pt);
   } else {
      printf("{\"k\":\"round\",\"seed\":%llu,\"n\":%d,\"rounds\":%d}\n", (unsigned long long)seed, n, rounds);
      fflush(stdout);
      for (i = 0; i < n; i++) {
         pid_t pid = fork();
         if (pid < 0) return 3;
         if (pid == 0) {
            g_pairs = (pair_t *)calloc((size_t)np * (size_t)rounds, sizeof(pair_t));
            for (rd = 0; rd < rounds; rd++) pair_setup(&g_pairs[(size_t)(i >> 1) * (size_t)rounds + (size_t)rd], seed, i >> 1, rd);
            pair_thread_main(&th[i]); dump(&th[i]); fflush(stdout); _exit(0);
         } else { int st = 0; waitpid(pid, &st, 0); if (!WIFEXITED(st) || WEXITSTATUS(st) != 0) return 4; }
      }
   }
   free(th);
   return 0;
}

int main(int argc, char **argv)
{
   int n, rounds, i, conc; uint64_t seed; thr_t *th;
   if (argc < 5) { fprintf(stderr, "usage: hx_par conc|solo <seed> <nthreads> <rounds>\n"); return 2; }
   if (!strcmp(argv[1], "concp") || !strcmp(argv[1], "solop")) return main_pairs(!strcmp(argv[1], "concp"), strtoull(argv[2], NULL, 10), atoi(argv[3]), atoi(argv[4]));
   conc = !strcmp(argv[1], "conc"); seed = strtoull(argv[2], NULL, 10); n = atoi(argv[3]); rounds = atoi(argv[4]);
   if (n < 1 || n > 64 || rounds < 1) return 2;
   th = (thr_t *)calloc((size_t)n, sizeof *th);
   for (i = 0; i < n; i++) { th[i].id = i; th[i].nthreads = n; th[i].rounds = rounds; th[i].seed = seed; th[i].phase = conc ? "conc" : "solo"; }
   if (conc) {
      pthread_t *pt = (pthread_t *)calloc((size_t)n, sizeof *pt); pthread_barrier_t bar;
      printf("{\"k\":\"conc\",\"seed\":%llu,\"n\":%d,\"rounds\":%d}\n", (unsigned long long)seed, n, rounds);
      pthread_barrier_init(&bar, NULL, (unsigned)n);
      for (i = 0; i < n; i++) { th[i].bar = &bar; if (pthread_create(&pt[i], NULL, thread_main, &th[i])) return 3; }
      for (i = 0; i < n; i++) pthread_join(pt[i], NULL);
      for (i = 0; i < n; i++) { dump(&th[i]); free(th[i].ev); }
      printf("{\"k\":\"done\",\"n\":%d}\n", n);
      pthread_barrier_destroy(&bar); free(pt);
   } else {
      printf("{\"k\":\"round\",\"seed\":%llu,\"n\":%d,\"rounds\":%d}\n", (unsigned long long)seed, n, rounds);
      fflush(stdout);
      for (i = 0; i < n; i++) {
         pid_t pid = fork();
         if (pid < 0) return 3;
         if (pid == 0) { thread_main(&th[i]); dump(&th[i]); fflush(stdout); free(th[i].ev); free(th); _exit(0); }
         else { int st = 0; waitpid(pid, &st, 0); if (!WIFEXITED(st) || WEXITSTATUS(st) != 0) return 4; }
      }
   }
   free(th);
   return 0;
}
