/* hx_par: concurrent use of independent codec objects (modules ObjectsPar / ParTrace, property C14).
     hx_par conc <seed> <nthreads> <rounds>    N threads start together behind a barrier - the very first library call of
                                               the process is made concurrently by all of them (first creation, CPU-feature
                                               detection, first use of every table) - and each drives objects of its own
     hx_par solo <seed> <nthreads> <rounds>    the same N programs, each run alone in a process of its own (fork)
   Thread i's program is a function of (seed, i) only.  Kinds of program (i mod 5): encoder; decoder (fed by a private
   encoder of the same thread) with losses and FEC; multistream surround encoder + decoder; repacketizer with pad/unpad;
   float encoder/decoder pair at 48 kHz with the signal analysis running.  Every round creates, configures, uses and
   destroys the objects again, so that creations and destructions overlap other threads' coding calls.
   Output: one "ev" event per library call with a per-thread sequence number: op, return value, digest of everything the
   call produced.  The harness compares nothing; ParTrace (TLC) compares each thread's concurrent log with its solo log.
   Under the tsan variant any ThreadSanitizer report makes the process exit non-zero. */
#include "hx_common.h"
#include <pthread.h>
#include <math.h>
#include <sys/wait.h>
#include "opus.h"
#include "opus_multistream.h"

typedef struct { char op[12]; int ret; uint64_t dg; } ev_t;
typedef struct {
   int id, nthreads, rounds; uint64_t seed; const char *phase;
   ev_t *ev; int nev, cap;
   pthread_barrier_t *bar;
} thr_t;

static void logev(thr_t *t, const char *op, int ret, uint64_t dg)
{
   if (t->nev == t->cap) { t->cap = t->cap ? 2 * t->cap : 256; t->ev = (ev_t *)realloc(t->ev, sizeof(ev_t) * (size_t)t->cap); }
   strncpy(t->ev[t->nev].op, op, sizeof t->ev[0].op - 1); t->ev[t->nev].op[sizeof t->ev[0].op - 1] = 0;
   t->ev[t->nev].ret = ret; t->ev[t->nev].dg = dg; t->nev++;
}
static void dump(thr_t *t)
{
   int i;
   for (i = 0; i < t->nev; i++)
      printf("{\"k\":\"ev\",\"ph\":\"%s\",\"th\":%d,\"seq\":%d,\"op\":\"%s\",\"ret\":%d,\"dg\":\"%016llx\"}\n",
             t->phase, t->id, i + 1, t->ev[i].op, t->ev[i].ret, (unsigned long long)t->ev[i].dg);
}

static void gen(hx_rng *r, double *ph, opus_int16 *x, int n, int ch, int fs, int style)
{
   int i, c, h;
   for (i = 0; i < n; i++) {
      double f0 = 120 + 40 * style, s = 0, nz = hx_unit(r) * 2 - 1;
      *ph += 2 * M_PI * f0 / fs; if (*ph > 2 * M_PI * 64) *ph -= 2 * M_PI * 64;
      for (h = 1; h <= 10; h++) if (h * f0 < 0.45 * fs) s += sin(h * *ph + 0.2 * h) / h;
      s = 0.25 * s * (0.6 + 0.4 * sin(*ph / 37)) + 0.03 * nz;
      if ((i & 1023) < 40 && style == 2) s += 0.2 * nz;
      for (c = 0; c < ch; c++) x[i * ch + c] = (opus_int16)floor(32767.0 * s * (c & 1 ? 0.7 : 1.0) + 0.5);
   }
}

static const int FS[5] = { 8000, 12000, 16000, 24000, 48000 };
static const int APPS[3] = { OPUS_APPLICATION_VOIP, OPUS_APPLICATION_AUDIO, OPUS_APPLICATION_RESTRICTED_LOWDELAY };
static const int BRS[8] = { 8000, 12000, 16000, 24000, 32000, 64000, 96000, 128000 };
static const int DUR[6] = { 5, 10, 20, 40, 80, 120 };      /* half-milliseconds */

static OpusEncoder *mk_enc(thr_t *t, hx_rng *r, int fs, int ch, int use_init)
{
   int err = 0, app = APPS[hx_u(r, 3)]; OpusEncoder *e;
   if (use_init) {
      int sz = opus_encoder_get_size(ch);
      e = (OpusEncoder *)malloc((size_t)sz);
      memset(e, 0xA5, (size_t)sz);
      err = opus_encoder_init(e, fs, ch, app);
      logev(t, "enc_init", err, (uint64_t)sz);
   } else {
      e = opus_encoder_create(fs, ch, app, &err);
      logev(t, "enc_create", err, e != NULL);
   }
   return e;
}
static void enc_ctls(thr_t *t, hx_rng *r, OpusEncoder *e)
{
   int v;
   logev(t, "ctl_br", opus_encoder_ctl(e, OPUS_SET_BITRATE(BRS[hx_u(r, 8)])), 0);
   logev(t, "ctl_cx", opus_encoder_ctl(e, OPUS_SET_COMPLEXITY((int)hx_u(r, 11))), 0);
   logev(t, "ctl_fec", opus_encoder_ctl(e, OPUS_SET_INBAND_FEC((int)hx_u(r, 2))), 0);
   logev(t, "ctl_loss", opus_encoder_ctl(e, OPUS_SET_PACKET_LOSS_PERC((int)hx_u(r, 30))), 0);
   logev(t, "ctl_dtx", opus_encoder_ctl(e, OPUS_SET_DTX((int)hx_u(r, 2))), 0);
   logev(t, "ctl_vbr", opus_encoder_ctl(e, OPUS_SET_VBR((int)hx_u(r, 2))), 0);
   v = -1; logev(t, "get_br", opus_encoder_ctl(e, OPUS_GET_BITRATE(&v)), (uint64_t)(uint32_t)v);
   v = -1; logev(t, "get_look", opus_encoder_ctl(e, OPUS_GET_LOOKAHEAD(&v)), (uint64_t)(uint32_t)v);
}

static void prog_codec(thr_t *t, hx_rng *r, int with_dec, int flt)
{
   int fs = flt ? 48000 : FS[hx_u(r, 5)], ch = 1 + (int)hx_u(r, 2), dq = flt ? 40 : DUR[hx_u(r, 6)], frame = fs * dq / 2000;
   int nfr = 6 + (int)hx_u(r, 10), i, k, err = 0; double ph = 0;
   OpusEncoder *e = mk_enc(t, r, fs, ch, (int)hx_u(r, 2)); OpusDecoder *d = NULL;
   opus_int16 *in = (opus_int16 *)malloc(sizeof(opus_int16) * (size_t)frame * ch), *out = (opus_int16 *)malloc(sizeof(opus_int16) * (size_t)frame * ch);
   float *fin = (float *)malloc(sizeof(float) * (size_t)frame * ch), *fout = (float *)malloc(sizeof(float) * (size_t)frame * ch);
   unsigned char pkt[2][1500]; int plen[2] = { 0, 0 };
   if (!e) goto done;
   if (flt) { logev(t, "ctl_cx", opus_encoder_ctl(e, OPUS_SET_COMPLEXITY(10)), 0); logev(t, "ctl_br", opus_encoder_ctl(e, OPUS_SET_BITRATE(BRS[3 + hx_u(r, 5)])), 0); }
   else enc_ctls(t, r, e);
   if (with_dec) { d = opus_decoder_create(fs, ch, &err); logev(t, "dec_create", err, d != NULL); if (!d) goto done; }
   for (i = 0; i < nfr; i++) {
      int cur = i & 1, n; opus_uint32 rng = 0;
      gen(r, &ph, in, frame, ch, fs, t->id % 3);
      if (flt) { for (k = 0; k < frame * ch; k++) fin[k] = in[k] / 32768.f; n = opus_encode_float(e, fin, frame, pkt[cur], 1500); }
      else n = opus_encode(e, in, frame, pkt[cur], 1500);
      opus_encoder_ctl(e, OPUS_GET_FINAL_RANGE(&rng));
      plen[cur] = n;
      logev(t, "encode", n, n > 0 ? hx_fnv(pkt[cur], (size_t)n) ^ rng : rng);
      if (i == nfr / 2 && !flt) { logev(t, "ctl_br", opus_encoder_ctl(e, OPUS_SET_BITRATE(BRS[hx_u(r, 8)])), 0); logev(t, "ctl_bw", opus_encoder_ctl(e, OPUS_SET_MAX_BANDWIDTH(OPUS_BANDWIDTH_NARROWBAND + (int)hx_u(r, 5))), 0); }
      if (d && n > 0) {
         int lost = hx_u(r, 6) == 0, m; opus_uint32 drng = 0;
         if (lost && i > 0) {
            /* the previous packet is treated as lost: conceal, or recover from this packet's FEC data */
            if (hx_u(r, 2)) { m = flt ? opus_decode_float(d, pkt[cur], n, fout, frame, 1) : opus_decode(d, pkt[cur], n, out, frame, 1); logev(t, "dec_fec", m, m > 0 ? (flt ? hx_fnv(fout, sizeof(float) * (size_t)m * ch) : hx_fnv(out, sizeof(opus_int16) * (size_t)m * ch)) : 0); }
            else { m = flt ? opus_decode_float(d, NULL, 0, fout, frame, 0) : opus_decode(d, NULL, 0, out, frame, 0); logev(t, "dec_plc", m, m > 0 ? (flt ? hx_fnv(fout, sizeof(float) * (size_t)m * ch) : hx_fnv(out, sizeof(opus_int16) * (size_t)m * ch)) : 0); }
         }
         m = flt ? opus_decode_float(d, pkt[cur], n, fout, frame, 0) : opus_decode(d, pkt[cur], n, out, frame, 0);
         opus_decoder_ctl(d, OPUS_GET_FINAL_RANGE(&drng));
         logev(t, "decode", m, (m > 0 ? (flt ? hx_fnv(fout, sizeof(float) * (size_t)m * ch) : hx_fnv(out, sizeof(opus_int16) * (size_t)m * ch)) : 0) ^ drng);
      }
      if (i == nfr - 3) logev(t, "enc_reset", opus_encoder_ctl(e, OPUS_RESET_STATE), 0);
   }
   (void)plen;
done:
   if (d) { opus_decoder_destroy(d); logev(t, "dec_free", 0, 0); }
   if (e) { opus_encoder_destroy(e); logev(t, "enc_free", 0, 0); }
   free(in); free(out); free(fin); free(fout);
}

static void prog_ms(thr_t *t, hx_rng *r)
{
   int chs = 1 + (int)hx_u(r, 8), fam = chs <= 2 ? (int)hx_u(r, 2) : 1, fs = hx_u(r, 2) ? 48000 : 16000, frame = fs / 50, streams = 0, coupled = 0, err = 0, i, nfr = 4 + (int)hx_u(r, 5);
   unsigned char mapping[256]; OpusMSEncoder *e; OpusMSDecoder *d = NULL; double ph = 0;
   opus_int16 *in = (opus_int16 *)malloc(sizeof(opus_int16) * (size_t)frame * chs), *out = (opus_int16 *)malloc(sizeof(opus_int16) * (size_t)frame * chs);
   unsigned char *pkt = (unsigned char *)malloc(1500 * 8);
   e = opus_multistream_surround_encoder_create(fs, chs, fam, &streams, &coupled, mapping, OPUS_APPLICATION_AUDIO, &err);
   logev(t, "mse_create", err, (uint64_t)(streams * 16 + coupled) ^ hx_fnv(mapping, (size_t)chs));
   if (!e) goto done;
   logev(t, "ctl_br", opus_multistream_encoder_ctl(e, OPUS_SET_BITRATE(32000 * chs)), 0);
   logev(t, "ctl_cx", opus_multistream_encoder_ctl(e, OPUS_SET_COMPLEXITY((int)hx_u(r, 11))), 0);
   d = opus_multistream_decoder_create(fs, chs, streams, coupled, mapping, &err);
   logev(t, "msd_create", err, d != NULL);
   if (!d) goto done;
   for (i = 0; i < nfr; i++) {
      int n, m; opus_uint32 rng = 0;
      gen(r, &ph, in, frame, chs, fs, t->id % 3);
      n = opus_multistream_encode(e, in, frame, pkt, 1500 * 8);
      opus_multistream_encoder_ctl(e, OPUS_GET_FINAL_RANGE(&rng));
      logev(t, "ms_encode", n, n > 0 ? hx_fnv(pkt, (size_t)n) ^ rng : rng);
      if (n <= 0) break;
      m = hx_u(r, 7) == 0 ? opus_multistream_decode(d, NULL, 0, out, frame, 0) : opus_multistream_decode(d, pkt, n, out, frame, 0);
      logev(t, "ms_decode", m, m > 0 ? hx_fnv(out, sizeof(opus_int16) * (size_t)m * chs) : 0);
   }
done:
   if (d) { opus_multistream_decoder_destroy(d); logev(t, "msd_free", 0, 0); }
   if (e) { opus_multistream_encoder_destroy(e); logev(t, "mse_free", 0, 0); }
   free(in); free(out); free(pkt);
}

static void prog_rp(thr_t *t, hx_rng *r)
{
   int fs = FS[hx_u(r, 5)], ch = 1 + (int)hx_u(r, 2), frame = fs / 50, i, err = 0, np = 2 + (int)hx_u(r, 3); double ph = 0;
   OpusEncoder *e = opus_encoder_create(fs, ch, OPUS_APPLICATION_AUDIO, &err); OpusRepacketizer *rp;
   opus_int16 *in = (opus_int16 *)malloc(sizeof(opus_int16) * (size_t)frame * ch);
   unsigned char pk[4][600], outb[4000]; int pl[4];
   logev(t, "enc_create", err, e != NULL);
   if (!e) { free(in); return; }
   opus_encoder_ctl(e, OPUS_SET_BITRATE(BRS[1 + hx_u(r, 4)]));
   rp = opus_repacketizer_create();
   logev(t, "rp_create", rp ? 0 : -7, (uint64_t)opus_repacketizer_get_size());
   for (i = 0; i < np; i++) {
      gen(r, &ph, in, frame, ch, fs, 1);
      pl[i] = opus_encode(e, in, frame, pk[i], 600);
      logev(t, "encode", pl[i], pl[i] > 0 ? hx_fnv(pk[i], (size_t)pl[i]) : 0);
      if (pl[i] > 0) logev(t, "rp_cat", opus_repacketizer_cat(rp, pk[i], pl[i]), (uint64_t)opus_repacketizer_get_nb_frames(rp));
   }
   { int n = opus_repacketizer_out(rp, outb, sizeof outb); logev(t, "rp_out", n, n > 0 ? hx_fnv(outb, (size_t)n) : 0);
     if (n > 0 && n + 40 < (int)sizeof outb) {
        int p = opus_packet_pad(outb, n, n + 40); logev(t, "pad", p, hx_fnv(outb, (size_t)n + 40));
        p = opus_packet_unpad(outb, n + 40); logev(t, "unpad", p, p > 0 ? hx_fnv(outb, (size_t)p) : 0);
     }
     n = opus_repacketizer_out_range(rp, 0, 1, outb, sizeof outb); logev(t, "rp_range", n, n > 0 ? hx_fnv(outb, (size_t)n) : 0);
   }
   { float buf[960]; for (i = 0; i < 960; i++) buf[i] = (float)(2.5 * sin(0.01 * i * (1 + t->id))); opus_pcm_soft_clip(buf, 480, 2, (float[2]){0, 0}); logev(t, "softclip", 0, hx_fnv(buf, sizeof buf)); }
   opus_repacketizer_destroy(rp); logev(t, "rp_free", 0, 0);
   opus_encoder_destroy(e); logev(t, "enc_free", 0, 0);
   free(in);
}

static void *thread_main(void *arg)
{
   thr_t *t = (thr_t *)arg; int rd; hx_rng r;
   r.s = t->seed * 0x9E3779B97F4A7C15ULL + (uint64_t)t->id * 0xD1B54A32D192ED03ULL + 7;
   if (t->bar) pthread_barrier_wait(t->bar);
   for (rd = 0; rd < t->rounds; rd++) {
      logev(t, "round", rd, 0);
      switch (t->id % 5) {
      case 0: prog_codec(t, &r, 0, 0); break;
      case 1: prog_codec(t, &r, 1, 0); break;
      case 2: prog_ms(t, &r); break;
      case 3: prog_rp(t, &r); break;
      default: prog_codec(t, &r, 1, 1); break;
      }
      if (t->bar && (rd & 1)) pthread_barrier_wait(t->bar);      /* re-align every other round: creations meet coding calls */
   }
   return NULL;
}

int main(int argc, char **argv)
{
   int n, rounds, i, conc; uint64_t seed; thr_t *th;
   if (argc < 5) { fprintf(stderr, "usage: hx_par conc|solo <seed> <nthreads> <rounds>\n"); return 2; }
   conc = !strcmp(argv[1], "conc"); seed = strtoull(argv[2], NULL, 10); n = atoi(argv[3]); rounds = atoi(argv[4]);
   if (n < 1 || n > 64 || rounds < 1) return 2;
   th = (thr_t *)calloc((size_t)n, sizeof *th);
   for (i = 0; i < n; i++) { th[i].id = i; th[i].nthreads = n; th[i].rounds = rounds; th[i].seed = seed; th[i].phase = conc ? "conc" : "solo"; }
   if (conc) {
      pthread_t *pt = (pthread_t *)calloc((size_t)n, sizeof *pt); pthread_barrier_t bar;
      printf("{\"k\":\"conc\",\"seed\":%llu,\"n\":%d,\"rounds\":%d}\n", (unsigned long long)seed, n, rounds);
      pthread_barrier_init(&bar, NULL, (unsigned)n);
      for (i = 0; i < n; i++) { th[i].bar = &bar; if (pthread_create(&pt[i], NULL, thread_main, &th[i])) return 3; }
      for (i = 0; i < n; i++) pthread_join(pt[i], NULL);
      for (i = 0; i < n; i++) { dump(&th[i]); free(th[i].ev); }
      printf("{\"k\":\"done\",\"n\":%d}\n", n);
      pthread_barrier_destroy(&bar); free(pt);
   } else {
      printf("{\"k\":\"round\",\"seed\":%llu,\"n\":%d,\"rounds\":%d}\n", (unsigned long long)seed, n, rounds);
      fflush(stdout);
      for (i = 0; i < n; i++) {
         pid_t pid = fork();
         if (pid < 0) return 3;
         if (pid == 0) { thread_main(&th[i]); dump(&th[i]); fflush(stdout); free(th[i].ev); free(th); _exit(0); }
         else { int st = 0; waitpid(pid, &st, 0); if (!WIFEXITED(st) || WEXITSTATUS(st) != 0) return 4; }
      }
   }
   free(th);
   return 0;
}
