/* hx_rc: drives the real range coder (ec_enc_* / ec_dec_*) over operation lists and records what
   happened (module RCTrace, property C08).  The harness never judges: it executes calls, reads
   ec_tell/ec_tell_frac/rng/error and the produced bytes, and writes NDJSON.

   hx_rc rand <seed> <nexec> [maxops]   seeded random op lists (all op kinds interleaved)
   hx_rc list                            op lists from stdin (lifted TLC behaviours, --replay)
   hx_rc tf <seed> <fills>               ec_tell_frac on constructed contexts: every 16-bit mantissa x every
                                         normalised magnitude x <fills> (1|3) settings of the low bits    */
#include "hx_common.h"
#include "entenc.h"
#include "entdec.h"
#include "celt.h"
#include "tables.h"

enum { K_ENC, K_BIN, K_LOGP, K_ICDF, K_UINT, K_BITS, K_PATCH, K_SHRINK };
static const char *kname[] = {"enc", "bin", "logp", "icdf", "uint", "bits", "patch", "shrink"};

typedef struct {
   int k; uint32_t a0, a1, a2; int tab;
   uint32_t et, ef, er;          /* encoder tell, tell_frac, rng after the call */
   uint32_t v, u0, u1;           /* decoder: returned value, interval used for ec_dec_update */
   uint32_t dt, df, dr;          /* decoder tell, tell_frac, rng after the call */
   int pe0, pe1;                 /* patch: encoder error flag before / after the call */
} op_t;

/* ---- tables ---- */
typedef struct { const unsigned char *p8; const opus_uint16 *p16; int n; int ftb; } tab_t;
#define MAXTAB 4096
static tab_t tabs[MAXTAB]; static int ntabs;
static int n_lib_tabs;

static int len_to_zero8(const unsigned char *p, int max) { int i; for (i = 0; i < max; i++) if (p[i] == 0) return i + 1; return max; }
static void add_lib(const unsigned char *p, int max, int ftb) {
   if (ntabs >= MAXTAB) return;
   tabs[ntabs].p8 = p; tabs[ntabs].p16 = NULL; tabs[ntabs].n = len_to_zero8(p, max); tabs[ntabs].ftb = ftb; ntabs++;
}
static void add_lib_rows(const unsigned char *p, int rows, int cols, int ftb) { int r; for (r = 0; r < rows; r++) add_lib(p + r * cols, cols, ftb); }
static void library_tables(void) {
   add_lib(trim_icdf, 11, 7); add_lib(spread_icdf, 4, 5); add_lib(tapset_icdf, 3, 2);
   add_lib_rows(&silk_gain_iCDF[0][0], 3, N_LEVELS_QGAIN / 8, 8);
   add_lib(silk_delta_gain_iCDF, MAX_DELTA_GAIN_QUANT - MIN_DELTA_GAIN_QUANT + 1, 8);
   add_lib(silk_pitch_lag_iCDF, 32, 8); add_lib(silk_pitch_delta_iCDF, 21, 8);
   add_lib(silk_pitch_contour_iCDF, 34, 8); add_lib(silk_pitch_contour_NB_iCDF, 11, 8);
   add_lib(silk_pitch_contour_10_ms_iCDF, 12, 8); add_lib(silk_pitch_contour_10_ms_NB_iCDF, 3, 8);
   add_lib_rows(&silk_pulses_per_block_iCDF[0][0], N_RATE_LEVELS, SILK_MAX_PULSES + 2, 8);
   add_lib_rows(&silk_rate_levels_iCDF[0][0], 2, N_RATE_LEVELS - 1, 8);
   add_lib(silk_lsb_iCDF, 2, 8);
   add_lib(silk_uniform3_iCDF, 3, 8); add_lib(silk_uniform4_iCDF, 4, 8); add_lib(silk_uniform5_iCDF, 5, 8);
   add_lib(silk_uniform6_iCDF, 6, 8); add_lib(silk_uniform8_iCDF, 8, 8);
   add_lib(silk_NLSF_EXT_iCDF, 7, 8); add_lib(silk_LTP_per_index_iCDF, 3, 8);
   add_lib(silk_LTPscale_iCDF, 3, 8); add_lib(silk_type_offset_VAD_iCDF, 4, 8); add_lib(silk_type_offset_no_VAD_iCDF, 2, 8);
   add_lib(silk_stereo_pred_joint_iCDF, 25, 8); add_lib(silk_stereo_only_code_mid_iCDF, 2, 8);
   add_lib(silk_NLSF_interpolation_factor_iCDF, 5, 8);
   n_lib_tabs = ntabs;
}
/* a strictly decreasing table below 2^ftb ending in 0 */
static int add_table_vals(const uint32_t *v, int n, int ftb, int force16) {
   int i, wide = force16;
   if (ntabs >= MAXTAB) return -1;
   for (i = 0; i < n; i++) if (v[i] > 255) wide = 1;
   if (wide) { opus_uint16 *p = (opus_uint16 *)malloc(n * sizeof *p); for (i = 0; i < n; i++) p[i] = (opus_uint16)v[i]; tabs[ntabs].p16 = p; tabs[ntabs].p8 = NULL; }
   else { unsigned char *p = (unsigned char *)malloc(n); for (i = 0; i < n; i++) p[i] = (unsigned char)v[i]; tabs[ntabs].p8 = p; tabs[ntabs].p16 = NULL; }
   tabs[ntabs].n = n; tabs[ntabs].ftb = ftb;
   return ntabs++;
}
static void synthetic_tables(hx_rng *r, int count) {
   int t;
   for (t = 0; t < count; t++) {
      int wide = hx_u(r, 2), ftb = wide ? hx_range(r, 1, 16) : hx_range(r, 1, 8);
      uint32_t top = 1u << ftb, v[64]; int n, i;
      int maxn = top < 40 ? (int)top : 40;
      n = hx_range(r, 2, maxn < 2 ? 2 : maxn);
      if (n > (int)top) n = (int)top;
      if (n < 2) { n = 2; }
      /* choose n-1 distinct values in 1..top-1, sort decreasing, append 0 */
      {
         int k = 0;
         while (k < n - 1) {
            uint32_t c = (top <= 2) ? 1 : 1 + hx_u(r, top - 1); int dup = 0, j;
            if (hx_u(r, 6) == 0) c = top - 1;          /* nearly-certain first symbol */
            if (hx_u(r, 6) == 0) c = 1;
            for (j = 0; j < k; j++) if (v[j] == c) dup = 1;
            if (!dup) v[k++] = c;
         }
         for (i = 0; i < k; i++) { int j; for (j = i + 1; j < k; j++) if (v[j] > v[i]) { uint32_t tmp = v[i]; v[i] = v[j]; v[j] = tmp; } }
         v[k] = 0; n = k + 1;
      }
      add_table_vals(v, n, ftb, wide);
   }
}
static uint32_t tab_at(int t, int i) { return tabs[t].p8 ? tabs[t].p8[i] : tabs[t].p16[i]; }
static void emit_tabs(void) {
   int t, i;
   printf("{\"k\":\"tabs\",\"t\":[");
   for (t = 0; t < ntabs; t++) { printf(t ? ",[" : "["); for (i = 0; i < tabs[t].n; i++) printf(i ? ",%u" : "%u", tab_at(t, i)); printf("]"); }
   printf("],\"f\":[");
   for (t = 0; t < ntabs; t++) printf(t ? ",%d" : "%d", tabs[t].ftb);
   printf("],\"w\":[");
   for (t = 0; t < ntabs; t++) printf(t ? ",%d" : "%d", tabs[t].p16 ? 16 : 8);
   printf("],\"nlib\":%d}\n", n_lib_tabs);
}

/* ---- one execution ---- */
#define MAXOPS 4000
static op_t g_ops[MAXOPS + 8];
typedef struct {
   /* measurements (coverage evidence only) */
   unsigned mext; int pfd, crun, runs, first_err_op, npatch_err, shrink_moved, term_eq, early_ok, early_ref;
} meas_t;

static void apply_enc(ec_enc *enc, const op_t *o) {
   switch (o->k) {
   case K_ENC: ec_encode(enc, o->a0, o->a1, o->a2); break;
   case K_BIN: ec_encode_bin(enc, o->a0, o->a1, o->a2); break;
   case K_LOGP: ec_enc_bit_logp(enc, (int)o->a0, o->a1); break;
   case K_ICDF: if (tabs[o->tab].p8) ec_enc_icdf(enc, (int)o->a0, tabs[o->tab].p8, o->a2); else ec_enc_icdf16(enc, (int)o->a0, tabs[o->tab].p16, o->a2); break;
   case K_UINT: ec_enc_uint(enc, o->a0, o->a1); break;
   case K_BITS: ec_enc_bits(enc, o->a0, o->a1); break;
   case K_PATCH: ec_enc_patch_initial_bits(enc, o->a0, o->a1); break;
   case K_SHRINK: ec_enc_shrink(enc, o->a0); break;
   }
}
/* parameters the library functions accept (their documented preconditions / celt_asserts) */
static int op_legal(const ec_enc *enc, const op_t *o) {
   switch (o->k) {
   case K_ENC: return o->a0 < o->a1 && o->a1 <= o->a2 && o->a2 >= 1 && o->a2 <= 65536;
   case K_BIN: return o->a2 >= 1 && o->a2 <= 16 && o->a0 < o->a1 && o->a1 <= (1u << o->a2);
   case K_LOGP: return o->a0 <= 1 && o->a1 >= 1 && o->a1 <= 15;
   case K_ICDF: return o->tab >= 0 && o->tab < ntabs && (int)o->a0 < tabs[o->tab].n && o->a2 == (uint32_t)tabs[o->tab].ftb;
   case K_UINT: return o->a1 >= 2 && o->a0 < o->a1;
   case K_BITS: return o->a1 >= 1 && o->a1 <= 25 && o->a0 < (1u << o->a1);
   case K_PATCH: return o->a1 >= 1 && o->a1 <= 8 && o->a0 < (1u << o->a1);
   case K_SHRINK: return enc->offs + enc->end_offs <= o->a0 && o->a0 <= enc->storage;
   }
   return 0;
}

static void quad(const char *key, uint32_t t, uint32_t f, uint32_t r) {
   printf(",\"%s\":[%d,%d,%u,%u]", key, (int)t, (int)f, r >> 16, r & 0xFFFF);
}

typedef int (*next_fn)(void *ctx, ec_enc *enc, int i, op_t *o);

static long g_exec_id;

/* runs encoder (ops supplied by next), ec_enc_done, decoder; emits the execution */
static void run_exec(next_fn next, void *ctx, int size0, int fill, int fit, meas_t *M, hx_rng *garble, const unsigned char *forced, int nforced)
{
   hx_buf B = hx_buf_new(size0, (unsigned char)fill);
   unsigned char *tail = (unsigned char *)malloc(size0 + 1), *before = (unsigned char *)malloc(size0 + 1), *snap = (unsigned char *)malloc(size0 + 1);
   ec_enc enc; ec_dec dec; int n = 0, i, tdiff = 0, dmod = 0, tb, e0, npatch = 0;
   uint32_t et0, ef0, er0, dt0, df0, dr0;
   memset(M, 0, sizeof *M); M->first_err_op = -1;
   ec_enc_init(&enc, B.p, size0);
   et0 = ec_tell(&enc); ef0 = ec_tell_frac(&enc); er0 = enc.rng;
   memcpy(tail, B.p, size0);
   for (i = 0; n < MAXOPS; i++) {
      op_t o; ec_enc save; unsigned ext_prev; int err_prev;
      memset(&o, 0, sizeof o);
      if (!next(ctx, &enc, i, &o)) break;
      if (!op_legal(&enc, &o)) continue;            /* never call the library outside its contract */
      if (fit && o.k != K_SHRINK && o.k != K_PATCH) { save = enc; memcpy(snap, B.p, size0); }
      ext_prev = enc.ext; err_prev = enc.error;
      if (o.k == K_SHRINK) {                          /* bytes beyond the current buffer must have stayed as they were */
         int j; for (j = enc.storage; j < size0; j++) if (B.p[j] != tail[j]) tdiff++;
         if (enc.end_offs > 0 && o.a0 < enc.storage) M->shrink_moved++;
      }
      if (o.k == K_PATCH && enc.offs == 0 && enc.rem < 0 && enc.ext > 0) M->pfd = 1;
      { int early = o.k == K_PATCH && enc.offs == 0 && enc.rem < 0 && enc.ext == 0 && !enc.error;
        o.pe0 = enc.error ? 1 : 0;
        apply_enc(&enc, &o);
        o.pe1 = enc.error ? 1 : 0;
        if (early) { if (enc.error) M->early_ref++; else M->early_ok++; } }
      if (fit && o.k != K_SHRINK && o.k != K_PATCH && ec_tell(&enc) > 8 * (int)enc.storage) {
         enc = save; memcpy(B.p, snap, size0); break;      /* would bust: stop this list here */
      }
      if (o.k == K_SHRINK) memcpy(tail, B.p, size0);
      if (o.k == K_PATCH) { npatch++; if (!err_prev && enc.error) M->npatch_err++; }
      if (enc.ext > M->mext) M->mext = enc.ext;
      if (ext_prev > 0 && enc.ext < ext_prev && !enc.error && enc.offs > 0) { M->runs++; if (B.p[enc.offs - 1] == 0) M->crun++; }
      if (!err_prev && enc.error && M->first_err_op < 0) M->first_err_op = n;
      o.et = ec_tell(&enc); o.ef = ec_tell_frac(&enc); o.er = enc.rng;
      g_ops[n++] = o;
   }
   tb = ec_tell(&enc); e0 = enc.error;
   { int lg = EC_ILOG(enc.rng) - 1; M->term_eq = lg >= 1 && ((((uint64_t)enc.val + enc.rng + 1) & ((1u << lg) - 1)) == 0) && (enc.val & ((1u << lg) - 1)) != 0; }
   ec_enc_done(&enc);
   { int j; for (j = enc.storage; j < size0; j++) if (B.p[j] != tail[j]) tdiff++; }
   /* decoder over the same calls; with garble the driver first overwrites the stream with random bytes so that
      the decoder (and TLC's model of it) is exercised on arbitrary input: recorded as garb=1 */
   if (forced) { int j; for (j = 0; j < (int)enc.storage && j < nforced; j++) B.p[j] = forced[j]; }
   else if (garble) { int j; int mode = (int)hx_u(garble, 3); for (j = 0; j < (int)enc.storage; j++) B.p[j] = mode == 0 ? (unsigned char)hx_next(garble) : mode == 1 ? 0xFF : (hx_u(garble, 4) ? B.p[j] : (unsigned char)hx_next(garble)); }
   memcpy(before, B.p, size0);
   ec_dec_init(&dec, B.p, enc.storage);
   dt0 = ec_tell(&dec); df0 = ec_tell_frac(&dec); dr0 = dec.rng;
   for (i = 0; i < n; i++) {
      op_t *o = &g_ops[i];
      switch (o->k) {
      case K_ENC: case K_BIN: {
         uint32_t ft = o->k == K_ENC ? o->a2 : (1u << o->a2);
         uint32_t fs = o->k == K_ENC ? ec_decode(&dec, o->a2) : ec_decode_bin(&dec, o->a2);
         o->v = fs;
         if (fs >= o->a0 && fs < o->a1) { o->u0 = o->a0; o->u1 = o->a1; }
         else {
            /* another symbol of the caller's table: for an aligned power-of-two interval the table is taken to
               consist of equally wide symbols (what a patched placeholder decodes to), else a unit symbol */
            uint32_t w = o->a1 - o->a0;
            if ((w & (w - 1)) == 0 && (ft & (ft - 1)) == 0 && w < ft && o->a0 % w == 0) { o->u0 = fs - fs % w; o->u1 = o->u0 + w; }
            else { o->u0 = fs; o->u1 = fs + 1; }
         }
         ec_dec_update(&dec, o->u0, o->u1, ft);
      } break;
      case K_LOGP: o->v = (uint32_t)ec_dec_bit_logp(&dec, o->a1); break;
      case K_ICDF: o->v = (uint32_t)(tabs[o->tab].p8 ? ec_dec_icdf(&dec, tabs[o->tab].p8, o->a2) : ec_dec_icdf16(&dec, tabs[o->tab].p16, o->a2)); break;
      case K_UINT: o->v = ec_dec_uint(&dec, o->a1); break;
      case K_BITS: o->v = ec_dec_bits(&dec, o->a1); break;
      default: continue;
      }
      o->dt = ec_tell(&dec); o->df = ec_tell_frac(&dec); o->dr = dec.rng;
   }
   { int j; for (j = 0; j < size0; j++) if (B.p[j] != before[j]) dmod++; }
   /* ---- emit ---- */
   g_exec_id++;
   printf("{\"k\":\"begin\",\"x\":%ld,\"n0\":%d,\"n1\":%u,\"fill\":%d,\"fit\":%d,\"garb\":%d", g_exec_id, size0, enc.storage, fill, fit, (garble || forced) ? 1 : 0);
   js_arr_b("b", B.p, (int)enc.storage);
   printf(",\"err\":%d,\"e0\":%d,\"tb\":%d,\"derr\":%d", enc.error ? 1 : 0, e0 ? 1 : 0, tb, dec.error ? 1 : 0);
   printf(",\"pt\":[");
   { int first = 1, nc = 0; for (i = 0; i < n; i++) { if (g_ops[i].k == K_PATCH) { printf(first ? "[%u,%u,%d]" : ",[%u,%u,%d]", g_ops[i].a0, g_ops[i].a1, nc); first = 0; } else if (g_ops[i].k != K_SHRINK) nc++; } }
   printf("]");
   quad("et", et0, ef0, er0); quad("dt", dt0, df0, dr0);
   printf(",\"can\":%d,\"tdiff\":%d,\"dmod\":%d", hx_buf_ok(&B), tdiff, dmod);
   printf(",\"nops\":%d,\"offs\":%u,\"eoffs\":%u,\"mext\":%u,\"pfd\":%d,\"crun\":%d,\"runs\":%d,\"ferr\":%d,\"perr\":%d,\"smov\":%d,\"teq\":%d,\"pval\":%d,\"pref\":%d}\n",
          n, enc.offs, enc.end_offs, M->mext, M->pfd, M->crun, M->runs, M->first_err_op, M->npatch_err, M->shrink_moved, M->term_eq, M->early_ok, M->early_ref);
   for (i = 0; i < n; i++) {
      op_t *o = &g_ops[i];
      printf("{\"k\":\"op\",\"o\":\"%s\"", (o->k == K_ICDF && tabs[o->tab].p16) ? "icdf16" : kname[o->k]);
      switch (o->k) {
      case K_ENC: case K_BIN: printf(",\"a\":[%u,%u,%u]", o->a0, o->a1, o->a2); break;
      case K_LOGP: case K_BITS: case K_PATCH: printf(",\"a\":[%u,%u]", o->a0, o->a1); break;
      case K_ICDF: printf(",\"a\":[%u,%d,%u]", o->a0, o->tab + 1, o->a2); break;
      case K_UINT: printf(",\"a\":[%u,%u,%u,%u]", o->a0 >> 16, o->a0 & 0xFFFF, o->a1 >> 16, o->a1 & 0xFFFF); break;
      case K_SHRINK: printf(",\"a\":[%u]", o->a0); break;
      }
      quad("e", o->et, o->ef, o->er);
      if (o->k == K_PATCH) printf(",\"pe\":[%d,%d]", o->pe0, o->pe1);
      if (o->k != K_PATCH && o->k != K_SHRINK) {
         if (o->k == K_UINT) printf(",\"v\":[%u,%u]", o->v >> 16, o->v & 0xFFFF); else printf(",\"v\":%u", o->v);
         if (o->k == K_ENC || o->k == K_BIN) printf(",\"u\":[%u,%u]", o->u0, o->u1);
         quad("d", o->dt, o->df, o->dr);
      }
      printf("}\n");
   }
   printf("{\"k\":\"end\",\"x\":%ld,\"derr\":%d}\n", g_exec_id, dec.error ? 1 : 0);
   free(tail); free(before); free(snap); hx_buf_free(&B);
}

/* ---- random op lists ---- */
typedef struct {
   hx_rng *r; int target, mode, size0, fit, pad_exact, padding, nplace, placed_bits, patch_at, patch_done, malformed_patch;
   int w[8];
   int term_phase, term_pre, term_over, term_size;   /* mode 6: termination boundary */
   int ep_bits, ep_n, ep_done, ep_inexact;           /* mode 7: patch before any renormalisation */
} rctx_t;

static uint32_t rnd_logu(hx_rng *r, int maxbits) {   /* log-uniform in 1..2^maxbits-1 (or up to 2^32-1) */
   int b = hx_range(r, 1, maxbits); uint64_t top = 1ull << b, lo = top >> 1;
   return (uint32_t)(lo + hx_next(r) % (top - lo));
}
static void gen_coding(rctx_t *c, op_t *o) {
   hx_rng *r = c->r; int tot = 0, i, pick, k = 0;
   for (i = 0; i < 6; i++) tot += c->w[i];
   pick = hx_u(r, tot);
   for (i = 0; i < 6; i++) { if (pick < c->w[i]) { k = i; break; } pick -= c->w[i]; }
   o->k = k;
   switch (k) {
   case K_ENC: {
      uint32_t ft = hx_u(r, 8) == 0 ? (hx_u(r, 2) ? 65536u : 1u) : (hx_u(r, 4) == 0 ? (1u << hx_range(r, 0, 16)) : rnd_logu(r, 16));
      uint32_t fl, fh;
      if (ft > 65536) ft = 65536;
      if (c->mode == 2 && hx_u(r, 3)) { fl = ft - 1; fh = ft; }
      else switch (hx_u(r, 4)) {
         case 0: fl = hx_u(r, ft); fh = fl + 1; break;
         case 1: fl = 0; fh = 1 + hx_u(r, ft); break;
         case 2: fl = hx_u(r, ft); fh = ft; break;
         default: fl = hx_u(r, ft); fh = fl + 1 + hx_u(r, ft - fl); break;
      }
      o->a0 = fl; o->a1 = fh; o->a2 = ft;
   } break;
   case K_BIN: {
      uint32_t bits = hx_range(r, 1, 16), ft = 1u << bits, fl, fh;
      if (c->mode == 2 && hx_u(r, 4)) { bits = 8; ft = 256; fl = 255; fh = 256; }
      else if (hx_u(r, 3) == 0) { fl = hx_u(r, ft); fh = fl + 1; }
      else { fl = hx_u(r, ft); fh = fl + 1 + hx_u(r, ft - fl); }
      o->a0 = fl; o->a1 = fh; o->a2 = bits;
   } break;
   case K_LOGP: o->a1 = hx_range(r, 1, 15); o->a0 = (c->mode == 2 ? hx_u(r, 2) : (hx_u(r, 1u << (o->a1 > 4 ? 4 : o->a1)) == 0)); break;
   case K_ICDF: {
      int t = hx_u(r, 3) ? (int)hx_u(r, n_lib_tabs) : (int)hx_u(r, ntabs);
      o->tab = t; o->a2 = tabs[t].ftb;
      o->a0 = (c->mode == 2 && hx_u(r, 2)) ? (uint32_t)(tabs[t].n - 1) : hx_u(r, tabs[t].n);
   } break;
   case K_UINT: {
      static const uint32_t edge[] = {2, 3, 255, 256, 257, 258, 511, 512, 65535, 65536, 65537, 0x1000000u, 0x7FFFFFFFu, 0x80000000u, 0x80000001u, 0xFFFFFFFEu, 0xFFFFFFFFu};
      uint32_t ft = hx_u(r, 5) == 0 ? edge[hx_u(r, sizeof edge / sizeof edge[0])] : (hx_u(r, 2) ? rnd_logu(r, 32) : rnd_logu(r, 12));
      uint32_t v;
      if (ft < 2) ft = 2;
      switch (hx_u(r, 5)) { case 0: v = 0; break; case 1: v = ft - 1; break; default: v = (uint32_t)(hx_next(r) % ft); }
      if (c->mode == 2 && hx_u(r, 2)) v = ft - 1;
      o->a0 = v; o->a1 = ft;
   } break;
   case K_BITS: {
      uint32_t nb = hx_u(r, 4) == 0 ? 25 : hx_range(r, 1, 25), v;
      switch (hx_u(r, 4)) { case 0: v = 0; break; case 1: v = (1u << nb) - 1; break; default: v = (uint32_t)(hx_next(r) & ((1u << nb) - 1)); }
      o->a0 = v; o->a1 = nb;
   } break;
   }
}
static int next_rand(void *vc, ec_enc *enc, int i, op_t *o) {
   rctx_t *c = (rctx_t *)vc; hx_rng *r = c->r;
   if (i > 3 * c->target + 64) return 0;
   if (c->padding || (i >= c->target && c->pad_exact)) {
      /* top the stream up to exactly the budget (or one bit over it when not in fit mode) */
      int budget = 8 * (int)enc->storage + (c->fit ? 0 : 1);
      c->padding = 1;
      if (ec_tell(enc) >= budget) return 0;
      if (hx_u(r, 2)) { o->k = K_BITS; o->a1 = 1; o->a0 = hx_u(r, 2); }
      else { o->k = K_LOGP; o->a1 = 1; o->a0 = hx_u(r, 2); }
      return 1;
   }
   if (i >= c->target) return 0;
   /* placeholders for ec_enc_patch_initial_bits at the very start */
   if (c->nplace > 0 && c->placed_bits < c->nplace) {
      int left = c->nplace - c->placed_bits, kbits = hx_range(r, 1, left);
      switch (hx_u(r, 3)) {
      case 0: o->k = K_LOGP; o->a1 = 1; o->a0 = hx_u(r, 4) ? 1 : 0; kbits = 1; break;
      case 1: o->k = K_BIN; o->a2 = kbits; o->a0 = hx_u(r, 3) ? (1u << kbits) - 1 : hx_u(r, 1u << kbits); o->a1 = o->a0 + 1; break;
      default: { int m = hx_range(r, kbits, 16), sh = m - kbits; o->k = K_ENC; o->a2 = 1u << m; o->a0 = (hx_u(r, 3) ? (1u << kbits) - 1 : hx_u(r, 1u << kbits)) << sh; o->a1 = o->a0 + (1u << sh); } break;
      }
      c->placed_bits += kbits;
      return 1;
   }
   if (c->nplace > 0 && !c->patch_done && i >= c->patch_at) {
      int nb = c->malformed_patch ? hx_range(r, 1, 8) : hx_range(r, 1, c->nplace);
      o->k = K_PATCH; o->a1 = nb; o->a0 = hx_u(r, 1u << nb);
      if (hx_u(r, 3) == 0) c->patch_done = 1; else c->patch_at = i + 1 + hx_u(r, 20);
      return 1;
   }
   if (c->mode != 3 && hx_u(r, 60) == 0) {          /* a patch without placeholders: refused or garbage (premise false) */
      o->k = K_PATCH; o->a1 = hx_range(r, 1, 8); o->a0 = hx_u(r, 1u << o->a1); return 1;
   }
   if (hx_u(r, c->mode == 1 ? 25 : 80) == 0) {       /* shrink to somewhere between what is used and what is there */
      uint32_t used = enc->offs + enc->end_offs, room = enc->storage - used;
      if (enc->storage >= used) {
         uint32_t need = (uint32_t)((ec_tell(enc) + 7) / 8) + 1 + hx_u(r, 8);     /* keep what is still in flight */
         uint32_t size = hx_u(r, 4) == 0 ? used + hx_u(r, room + 1) : (need > enc->storage ? enc->storage : (need < used ? used : need + hx_u(r, enc->storage - need + 1)));
         if (size > enc->storage) size = enc->storage;
         if (size < used) size = used;
         o->k = K_SHRINK; o->a0 = size; return 1;
      }
   }
   gen_coding(c, o);
   return 1;
}

/* ---- mode 6: the termination boundary of ec_enc_done --------------------------------------------------
   ec_enc_done emits one more bit when (end|msk) >= val+rng.  Equality is a measure-zero event (about 2^-23 per
   stream), so it is constructed: after a few random symbols the driver looks at the encoder state and searches
   an ec_encode(0,fh,ft) after which  val+rng+1 == 0 (mod 2^(ilog(rng)-1))  with rng still normalised.  The
   stream is then cut to S bytes (ec_enc_shrink) and topped up with raw one-bits to exactly 8*S (must succeed,
   the bits after the range data are all ones) or 8*S+1 (must be reported as an error). */
static uint32_t inv_pow2(uint32_t a, int bits) {        /* inverse of odd a modulo 2^bits */
   uint32_t x = a; int k;
   for (k = 0; k < 5; k++) x *= 2u - a * x;
   return bits >= 32 ? x : (x & ((1u << bits) - 1));
}
static int find_term_op(const ec_enc *enc, hx_rng *r, op_t *o) {
   uint32_t V = enc->val, R = enc->rng, start = hx_u(r, 65535), n;
   uint64_t c0 = (uint64_t)V + R + 1;
   int top = EC_ILOG(R) - 1;
   for (n = 0; n < 65535; n++) {
      uint32_t ft = 2 + (start + n) % 65535, rr = R / ft; int j, v;
      if (!rr) continue;
      v = __builtin_ctz(rr);
      for (j = top; j >= 23; j--) {
         uint32_t mod = 1u << j, c = (uint32_t)(c0 & (mod - 1)), t0, Rn; int m2 = j - v;
         if (m2 <= 0 || (c & ((1u << v) - 1))) continue;
         t0 = ((c >> v) * inv_pow2(rr >> v, m2)) & ((1u << m2) - 1);
         if (t0 >= ft) continue;
         if ((uint64_t)rr * t0 >= R) continue;
         Rn = R - rr * t0;
         if (Rn <= (1u << 23) || EC_ILOG(Rn) - 1 != j) continue;
         if ((((uint64_t)V + Rn + 1) & (mod - 1)) != 0) continue;
         if (t0 == 0 && hx_u(r, 4)) continue;                 /* prefer a real symbol */
         o->k = K_ENC; o->a0 = 0; o->a1 = ft - t0; o->a2 = ft;
         return 1;
      }
   }
   return 0;
}
static int next_term(void *vc, ec_enc *enc, int i, op_t *o) {
   rctx_t *c = (rctx_t *)vc; hx_rng *r = c->r;
   (void)i;
   if (c->term_phase == 0) {
      if (c->term_pre-- > 0) { gen_coding(c, o); return 1; }
      c->term_phase = 1;
      if (find_term_op(enc, r, o)) return 1;
      gen_coding(c, o); return 1;
   }
   if (c->term_phase == 1) {
      uint32_t used = enc->offs + enc->end_offs, S = (uint32_t)((ec_tell(enc) + (int)hx_u(r, 60) + 7) / 8);
      c->term_phase = 2;
      if (S < used) S = used;
      if (S < 1) S = 1;
      if (S > enc->storage) S = enc->storage;
      c->term_size = (int)S;
      o->k = K_SHRINK; o->a0 = S; return 1;
   }
   {
      int target = 8 * (int)enc->storage + c->term_over, left = target - ec_tell(enc), nb;
      if (left <= 0) return 0;
      nb = left > 25 ? 1 + (int)hx_u(r, 25) : left;
      o->k = K_BITS; o->a1 = (uint32_t)nb; o->a0 = (1u << nb) - 1;      /* all ones */
      return 1;
   }
}

/* ---- mode 7: ec_enc_patch_initial_bits before any renormalisation -----------------------------------------
   0..7 bits of exact power-of-two symbols (or one inexact symbol) are coded, then a patch of every width 1..8 is
   issued (it must be refused when fewer bits than its width have been coded, else the leading symbols decode to
   the patched bits), then coding goes on. */
static int next_early(void *vc, ec_enc *enc, int i, op_t *o) {
   rctx_t *c = (rctx_t *)vc; hx_rng *r = c->r;
   (void)enc;
   if (c->ep_inexact == 1) { c->ep_inexact = 2; o->k = K_ENC; o->a2 = 3 + hx_u(r, 60); if ((o->a2 & (o->a2 - 1)) == 0) o->a2++; o->a0 = hx_u(r, o->a2); o->a1 = o->a0 + 1; return 1; }
   if (c->placed_bits < c->ep_bits) {
      int left = c->ep_bits - c->placed_bits, kbits = hx_u(r, 2) ? 1 : hx_range(r, 1, left);
      if (kbits == 1 && hx_u(r, 2)) { o->k = K_LOGP; o->a1 = 1; o->a0 = hx_u(r, 2); }
      else if (hx_u(r, 2)) { o->k = K_BIN; o->a2 = kbits; o->a0 = hx_u(r, 1u << kbits); o->a1 = o->a0 + 1; }
      else { int m = hx_range(r, kbits, 12), sh = m - kbits; o->k = K_ENC; o->a2 = 1u << m; o->a0 = hx_u(r, 1u << kbits) << sh; o->a1 = o->a0 + (1u << sh); }
      c->placed_bits += kbits;
      return 1;
   }
   if (!c->ep_done) { c->ep_done = 1; o->k = K_PATCH; o->a1 = c->ep_n; o->a0 = hx_u(r, 1u << c->ep_n); return 1; }
   if (i >= c->target) return 0;
   if (hx_u(r, 3)) { o->k = K_LOGP; o->a1 = 1; o->a0 = hx_u(r, 2); return 1; }    /* more exact one-bit symbols */
   gen_coding(c, o);
   return 1;
}

static void one_random(hx_rng *r, int maxops) {
   rctx_t c; meas_t M; int i, fill;
   static const int fills[] = {0x00, 0xFF, 0xAA, 0x55};
   memset(&c, 0, sizeof c); c.r = r;
   c.mode = hx_u(r, 8);             /* 7 early patch; 0 mix, 1 raw heavy, 2 high symbols (carry chains), 3 patch, 4 tiny buffers, 5 mix, 6 termination boundary */
   switch (hx_u(r, 10)) { case 0: case 1: case 2: case 3: c.target = hx_range(r, 1, 20); break;
                          case 4: case 5: case 6: case 7: c.target = hx_range(r, 20, 400); break;
                          default: c.target = hx_range(r, 400, 4000); }
   if (c.target > maxops) c.target = maxops;
   switch (hx_u(r, 10)) { case 0: case 1: case 2: c.size0 = hx_range(r, 1, 8); break;
                          case 3: case 4: case 5: c.size0 = hx_range(r, 9, 100); break;
                          default: c.size0 = hx_range(r, 100, 1275); }
   if (c.mode == 4) c.size0 = hx_range(r, 1, 6);
   if (c.target > 400 && hx_u(r, 4)) c.size0 = hx_range(r, 600, 1275);
   c.fit = hx_u(r, 4) != 0;
   c.pad_exact = hx_u(r, 3) == 0;
   for (i = 0; i < 6; i++) c.w[i] = 1 + hx_u(r, 6);
   if (hx_u(r, 3) == 0) for (i = 0; i < 6; i++) if (hx_u(r, 2)) c.w[i] = 0;
   if (c.mode == 1) { c.w[K_BITS] += 12; c.w[K_UINT] += 4; }
   if (c.mode == 2) { c.w[K_BIN] += 10; c.w[K_ENC] += 3; }
   { int tot = 0; for (i = 0; i < 6; i++) tot += c.w[i]; if (!tot) c.w[hx_u(r, 6)] = 1; }
   if (c.mode == 3 || hx_u(r, 8) == 0) {
      c.nplace = hx_range(r, 1, 8); c.patch_at = hx_range(r, 1, c.target + 1); c.malformed_patch = hx_u(r, 8) == 0;
      if (hx_u(r, 2)) c.patch_at = hx_range(r, 1, 12);
   }
   fill = fills[hx_u(r, 4)];
   if (c.mode == 7) {
      c.nplace = 0; c.ep_bits = (int)hx_u(r, 8); c.ep_n = hx_range(r, 1, 8); c.ep_inexact = hx_u(r, 5) == 0;
      if (hx_u(r, 3) == 0) c.ep_n = c.ep_bits > 0 && hx_u(r, 2) ? c.ep_bits : (c.ep_bits < 8 ? c.ep_bits + 1 : 8);   /* at the edge */
      c.target = 4 + (int)hx_u(r, 40); if (c.size0 < 16) c.size0 = hx_range(r, 16, 200);
      run_exec(next_early, &c, c.size0, fill, 0, &M, NULL, NULL, 0);
      return;
   }
   if (c.mode == 6) {
      c.nplace = 0; c.term_pre = (int)hx_u(r, 12); c.term_over = (int)hx_u(r, 2); c.w[K_BITS] = hx_u(r, 2) ? 0 : 1;
      if (c.size0 < 80) c.size0 = hx_range(r, 80, 400);
      run_exec(next_term, &c, c.size0, fill, 0, &M, NULL, NULL, 0);
      return;
   }
   run_exec(next_rand, &c, c.size0, fill, c.fit, &M, hx_u(r, 10) == 0 ? r : NULL, NULL, 0);
}

/* ---- op lists from stdin ---- */
typedef struct { op_t *ops; int n; } lctx_t;
static int next_list(void *vc, ec_enc *enc, int i, op_t *o) { lctx_t *c = (lctx_t *)vc; (void)enc; if (i >= c->n) return 0; *o = c->ops[i]; return 1; }

static int find_or_add_table(const uint32_t *v, int n, int ftb, int wide) {
   int t, i;
   for (t = n_lib_tabs; t < ntabs; t++) {
      if (tabs[t].n != n || tabs[t].ftb != ftb || (tabs[t].p16 != NULL) != (wide != 0)) continue;
      for (i = 0; i < n; i++) if (tab_at(t, i) != v[i]) break;
      if (i == n) return t;
   }
   for (t = 0; t < n_lib_tabs && !wide; t++) {
      if (tabs[t].n != n || tabs[t].ftb != ftb) continue;
      for (i = 0; i < n; i++) if (tab_at(t, i) != v[i]) break;
      if (i == n) return t;
   }
   return add_table_vals(v, n, ftb, wide);
}

static void do_list(void) {
   /* format:  X <size0> <fill>   then one op per line, then  E
        G b0 b1 ... (optional: the decoder reads these bytes) | enc fl fh ft | bin fl fh bits | logp b logp | icdf s ftb n t0..tn-1 | icdf16 ... | uint v ft | bits v n | patch v n | shrink size */
   static char line[32768];
   typedef struct { int size0, fill, first, n, nforced; unsigned char *forced; } ex_t;
   ex_t *exs = NULL; int nex = 0, capex = 0; op_t *all = NULL; int nall = 0, capall = 0, i;
   while (fgets(line, sizeof line, stdin)) {
      char kw[32]; int pos = 0;
      if (sscanf(line, "%31s%n", kw, &pos) != 1) continue;
      if (!strcmp(kw, "X")) {
         if (nex == capex) { capex = capex ? 2 * capex : 256; exs = (ex_t *)realloc(exs, capex * sizeof *exs); }
         exs[nex].size0 = 1; exs[nex].fill = 0; sscanf(line + pos, "%d %d", &exs[nex].size0, &exs[nex].fill);
         if (exs[nex].size0 < 0) exs[nex].size0 = 0;
         if (exs[nex].size0 > 65536) exs[nex].size0 = 65536;
         exs[nex].first = nall; exs[nex].n = 0; exs[nex].forced = NULL; exs[nex].nforced = 0; nex++;
      } else if (!strcmp(kw, "E") || !nex) { continue; }
      else if (!strcmp(kw, "G")) {                /* bytes the decoder is to read instead of the encoder's output */
         char *q = line + pos; ex_t *x = &exs[nex - 1]; unsigned long t; int p3 = 0;
         x->forced = (unsigned char *)malloc(4096); x->nforced = 0;
         while (x->nforced < 4096 && sscanf(q, "%lu%n", &t, &p3) == 1) { x->forced[x->nforced++] = (unsigned char)t; q += p3; }
      }
      else {
         op_t o; unsigned long a = 0, b = 0, c = 0; int ok = 1;
         memset(&o, 0, sizeof o);
         if (!strcmp(kw, "enc")) { o.k = K_ENC; ok = sscanf(line + pos, "%lu %lu %lu", &a, &b, &c) == 3; }
         else if (!strcmp(kw, "bin")) { o.k = K_BIN; ok = sscanf(line + pos, "%lu %lu %lu", &a, &b, &c) == 3; }
         else if (!strcmp(kw, "logp")) { o.k = K_LOGP; ok = sscanf(line + pos, "%lu %lu", &a, &b) == 2; }
         else if (!strcmp(kw, "uint")) { o.k = K_UINT; ok = sscanf(line + pos, "%lu %lu", &a, &b) == 2; }
         else if (!strcmp(kw, "bits")) { o.k = K_BITS; ok = sscanf(line + pos, "%lu %lu", &a, &b) == 2; }
         else if (!strcmp(kw, "patch")) { o.k = K_PATCH; ok = sscanf(line + pos, "%lu %lu", &a, &b) == 2; }
         else if (!strcmp(kw, "shrink")) { o.k = K_SHRINK; ok = sscanf(line + pos, "%lu", &a) == 1; }
         else if (!strcmp(kw, "icdf") || !strcmp(kw, "icdf16")) {
            uint32_t v[512]; int n = 0, ftb = 0, j, p2 = 0; char *q = line + pos; unsigned long s = 0;
            o.k = K_ICDF;
            ok = sscanf(q, "%lu %d %d%n", &s, &ftb, &n, &p2) == 3 && n >= 1 && n <= 512 && ftb >= 1 && ftb <= 16;
            q += p2;
            for (j = 0; ok && j < n; j++) { unsigned long t; int p3 = 0; if (sscanf(q, "%lu%n", &t, &p3) != 1) ok = 0; else { v[j] = (uint32_t)t; q += p3; } }
            /* the table must be a valid inverse CDF below 2^ftb */
            for (j = 0; ok && j < n; j++) if (v[j] >= (1u << ftb) || (j > 0 && v[j] >= v[j - 1])) ok = 0;
            if (ok && v[n - 1] != 0) ok = 0;
            if (ok) { o.tab = find_or_add_table(v, n, ftb, !strcmp(kw, "icdf16")); a = s; c = ftb; if (o.tab < 0) ok = 0; }
         } else ok = 0;
         if (!ok) continue;
         o.a0 = (uint32_t)a; o.a1 = (uint32_t)b; o.a2 = (uint32_t)c;
         if (exs[nex - 1].n >= MAXOPS) continue;
         if (nall == capall) { capall = capall ? 2 * capall : 4096; all = (op_t *)realloc(all, capall * sizeof *all); }
         all[nall++] = o; exs[nex - 1].n++;
      }
   }
   emit_tabs();
   for (i = 0; i < nex; i++) {
      lctx_t c; meas_t M; c.ops = all + exs[i].first; c.n = exs[i].n;
      run_exec(next_list, &c, exs[i].size0, exs[i].fill & 255, 0, &M, NULL, exs[i].forced, exs[i].nforced);
   }
   for (i = 0; i < nex; i++) free(exs[i].forced);
   free(exs); free(all);
}

/* ---- ec_tell_frac on constructed contexts ---- */
static void tf_case(uint32_t rng, int nb) {
   ec_ctx c; memset(&c, 0, sizeof c);
   c.rng = rng; c.nbits_total = nb;
   printf("{\"k\":\"tf\",\"rh\":%u,\"rl\":%u,\"nb\":%d,\"tf\":%d,\"tl\":%d}\n", rng >> 16, rng & 0xFFFF, nb, (int)ec_tell_frac(&c), ec_tell(&c));
}
static void do_tf(hx_rng *r, int fills) {
   /* every 16-bit mantissa x every magnitude of a normalised range; fills = 3: low bits 0, all ones and random,
      fills = 1: one of the three chosen at random */
   uint32_t m; int l;
   for (m = 32768; m < 65536; m++)
      for (l = 24; l <= 31; l++) {
         int sh = l - 16, which = fills >= 3 ? -1 : (int)hx_u(r, 3); uint32_t lowmask = (1u << sh) - 1;
         if (which < 0 || which == 0) tf_case(m << sh, 33 + (int)hx_u(r, 40000));
         if (which < 0 || which == 1) tf_case(m << sh | lowmask, 33 + (int)hx_u(r, 40000));
         if (which < 0 || which == 2) tf_case(m << sh | (uint32_t)(hx_next(r) & lowmask), 33 + (int)hx_u(r, 40000));
      }
   tf_case(0x80000000u, 33); tf_case(0x80000000u, 33 + (int)hx_u(r, 40000));
   tf_case(0x00800001u, 41); tf_case(0x00800000u + 1u + hx_u(r, 1000), 41 + (int)hx_u(r, 1000));
}

int main(int argc, char **argv) {
   hx_rng r;
   static char obuf[1 << 20];
   setvbuf(stdout, obuf, _IOFBF, sizeof obuf);
   hx_watchdog_init();
   if (argc < 2) { fprintf(stderr, "usage: hx_rc rand|list|tf ...\n"); return 2; }
   library_tables();
   if (!strcmp(argv[1], "rand") && argc >= 4) {
      long n = atol(argv[3]), i; int maxops = argc >= 5 ? atoi(argv[4]) : MAXOPS;
      r.s = strtoull(argv[2], NULL, 10) * 0x9E3779B97F4A7C15ULL + 12345;
      if (maxops > MAXOPS) maxops = MAXOPS;
      synthetic_tables(&r, 48);
      emit_tabs();
      for (i = 0; i < n; i++) { hx_arm(60); one_random(&r, maxops); hx_disarm(); }
   } else if (!strcmp(argv[1], "list")) {
      hx_arm(600); do_list(); hx_disarm();
   } else if (!strcmp(argv[1], "tf") && argc >= 4) {
      r.s = strtoull(argv[2], NULL, 10) * 0x9E3779B97F4A7C15ULL + 777;
      do_tf(&r, atoi(argv[3]));
   } else { fprintf(stderr, "bad arguments\n"); return 2; }
   fflush(stdout);
   return 0;
}
