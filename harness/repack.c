/* hx_repack: drives opus_repacketizer_*, opus_packet_pad/unpad and the multistream variants
   (module Repack, property C07) and records what they did.  It never judges: every event
   carries the raw observations (return codes, get_nb_frames, canaries, header bytes of what
   was emitted, the frame table recovered from the emitted payload, raw padding bytes,
   digests/final ranges of decodes) and spec/RepackTrace.tla decides.

   Frame payloads are derived from a frame identity (fid): byte0 = fid&255, byte1 = fid>>8,
   byte i>=2 = g(fid,i,len), so that a misplaced, truncated or overwritten frame is visible.

   modes:  replay            script on stdin (TLC-generated behaviours / replay files)
           random seed n     n seeded random long executions (up to 48 frames)
           pad seed n        n seeded pad/unpad cases around the boundary amounts, in place
           padx seed n       n seeded opus_packet_pad_impl cases that add extension lists while padding
           ms seed n         n seeded multistream pad/unpad cases, 1..8 streams
           audio seed n      encode real audio, pad/unpad, decode with independent decoders */
#include "hx_common.h"
#include "opus.h"
#include "opus_multistream.h"
#include "opus_private.h"

#define MAXPK 70000

typedef struct { int off, len, fid; } fr_t;
typedef struct {
   unsigned char *b; int len; int nfr; fr_t fr[48]; int padat, npad; int valid;
} pkt_t;

static long g_exec = 0;

/* ---------- payload <-> identity ---------- */
static unsigned char gbyte(int fid, int i, int len) {
   if (i == 0) return (unsigned char)(fid & 255);
   if (i == 1) return (unsigned char)((fid >> 8) & 255);
   return (unsigned char)((fid * 131 + i * 29 + (i >> 8) * 17 + len * 7 + 0x55) & 255);
}
static void fill_frame(unsigned char *p, int len, int fid) { int i; for (i = 0; i < len; i++) p[i] = gbyte(fid, i, len); }
static void rec_frame(const unsigned char *p, int len, int *fid, int *ok) {
   int f = 0, i, good = 1;
   if (len >= 1) f = p[0];
   if (len >= 2) f |= p[1] << 8;
   for (i = 2; i < len; i++) if (p[i] != gbyte(f, i, len)) { good = 0; break; }
   *fid = f; *ok = good;
}

/* how many leading bytes can belong to the framing header (syntactic upper bound) */
static int hdr_extent(const unsigned char *d, int len) {
   int ext, code;
   if (len < 1) return 0;
   code = d[0] & 3; ext = 1;
   if (code == 2) ext = 3;
   else if (code == 3) {
      if (len >= 2) {
         int M = d[1] & 63; ext = 2;
         if (d[1] & 0x40) { while (ext < len && d[ext] == 255) ext++; ext++; }
         ext += 2 * M;
      }
   }
   ext += 2;
   return ext < len ? ext : len;
}

/* ---------- JSON pieces ---------- */
static void j_bytes(const char *key, const unsigned char *a, int n) { js_arr_b(key, a, n); }
static void j_pad(const char *pfx, const unsigned char *p, int n) {
   /* raw padding bytes: length, all-zero flag, and the bytes unless all zero */
   char k[32]; int i, z = 1;
   for (i = 0; i < n; i++) if (p[i]) { z = 0; break; }
   snprintf(k, sizeof k, "%spdn", pfx); js_int(k, n);
   snprintf(k, sizeof k, "%spdz", pfx); js_int(k, z);
   snprintf(k, sizeof k, "%spd", pfx); js_arr_b(k, p, z ? 0 : n);
}
static void j_in_table(const char *key, const pkt_t *p) {
   int i; printf(",\"%s\":[", key);
   for (i = 0; i < p->nfr; i++) printf("%s[%d,%d,%d]", i ? "," : "", p->fr[i].off, p->fr[i].len, p->fr[i].fid);
   printf("]");
}
/* parse an emitted packet with the library's parser only to *locate* frames and padding; the
   trace spec re-derives the layout from the header bytes with its own parser and compares */
static int j_out(const char *pfx, const unsigned char *d, int len, int sd, int *consumed) {
   const unsigned char *frames[48]; opus_int16 size[48]; unsigned char toc = 0; int po = -1; opus_int32 ko = -1;
   const unsigned char *pad = NULL; opus_int32 padlen = 0; char k[32]; int i, ret;
   ret = len > 0 ? opus_packet_parse_impl(d, len, sd, &toc, frames, size, &po, &ko, &pad, &padlen) : -4;
   snprintf(k, sizeof k, "%sh", pfx); j_bytes(k, d, len > 0 ? hdr_extent(d, len) : 0);
   snprintf(k, sizeof k, "%spr", pfx); js_int(k, ret);
   snprintf(k, sizeof k, "%sfr", pfx); printf(",\"%s\":[", k);
   if (ret > 0) for (i = 0; i < ret; i++) {
      int fid, ok; rec_frame(frames[i], size[i], &fid, &ok);
      printf("%s[%d,%d,%d,%d]", i ? "," : "", (int)(frames[i] - d), size[i], fid, ok);
   }
   printf("]");
   if (ret > 0 && pad) j_pad(pfx, pad, padlen); else j_pad(pfx, d, 0);
   if (consumed) *consumed = ret > 0 ? (int)ko : 0;
   return ret;
}

/* ---------- packet construction (library-independent) ---------- */
static int put_size(unsigned char *p, int s) { if (s < 252) { p[0] = (unsigned char)s; return 1; } p[0] = (unsigned char)(252 + (s & 3)); p[1] = (unsigned char)((s - p[0]) >> 2); return 2; }
static int chain_len(int A) { return A == 0 ? 0 : (A - 1) / 255 + 1; }
static int amount_for(int npad) { int A = npad + 1; while (A - chain_len(A) < npad) A++; return A; }

/* build a valid packet: toc6 = toc>>2, code, sizes, vbr (code 3), padding bytes pad[0..npad) when
   haspad (code 3 only), self-delimited or not. */
static void build_packet(pkt_t *p, int toc6, int code, int n, const int *sizes, int vbr, int haspad,
                         const unsigned char *pad, int npad, int sd, int *fidctr)
{
   unsigned char *b = (unsigned char *)calloc(MAXPK, 1); int pos = 0, i;
   b[pos++] = (unsigned char)(toc6 << 2 | code);
   if (code == 2) pos += put_size(b + pos, sizes[0]);
   if (code == 3) {
      b[pos++] = (unsigned char)(n | (vbr ? 0x80 : 0) | (haspad ? 0x40 : 0));
      if (haspad) { int A = amount_for(npad), k = chain_len(A), j; for (j = 0; j < k - 1; j++) b[pos++] = 255; b[pos++] = (unsigned char)(A - 255 * (k - 1) - 1); }
      if (vbr) for (i = 0; i < n - 1; i++) pos += put_size(b + pos, sizes[i]);
   }
   if (sd) pos += put_size(b + pos, sizes[n - 1]);
   p->nfr = n;
   for (i = 0; i < n; i++) {
      p->fr[i].off = pos; p->fr[i].len = sizes[i]; p->fr[i].fid = (*fidctr)++ & 0xFFFF;
      fill_frame(b + pos, sizes[i], p->fr[i].fid); pos += sizes[i];
   }
   p->padat = pos; p->npad = (code == 3 && haspad) ? npad : 0;
   if (p->npad) { memcpy(b + pos, pad, npad); pos += npad; }
   p->b = b; p->len = pos; p->valid = 1;
}
static void free_packet(pkt_t *p) { free(p->b); p->b = NULL; }

/* a well-formed extension list for n frames (no repeat unless rep), into x; returns its length */
static int build_exts(hx_rng *r, int n, unsigned char *x, int cap)
{
   int pos = 0, f = 0, lastopen = 0, kind = hx_u(r, 8);
   if (kind == 0 && n >= 2 && n <= 6) {            /* short extension repeated for every later frame */
      int id = hx_range(r, 3, 31), g;
      x[pos++] = (unsigned char)(id << 1 | 1); x[pos++] = (unsigned char)hx_u(r, 256);
      x[pos++] = 0x05;
      for (g = 1; g < n; g++) x[pos++] = (unsigned char)hx_u(r, 256);
      return pos;
   }
   if (kind == 1) { int k = hx_range(r, 1, 3); while (k--) x[pos++] = 0x01; }   /* leading one-byte padding */
   for (;;) {
      int ne = hx_range(r, 1, 2), e;
      for (e = 0; e < ne && pos < cap - 400; e++) {
         if (hx_u(r, 2)) { int id = hx_range(r, 3, 31), L = hx_u(r, 2); x[pos++] = (unsigned char)(id << 1 | L); if (L) x[pos++] = (unsigned char)hx_u(r, 256); }
         else {
            int id = hx_range(r, 32, 127), len = hx_u(r, 4) ? hx_range(r, 0, 12) : hx_range(r, 250, 300), i, t = len;
            x[pos++] = (unsigned char)(id << 1 | 1);
            while (t >= 255) { x[pos++] = 255; t -= 255; } x[pos++] = (unsigned char)t;
            for (i = 0; i < len; i++) x[pos++] = (unsigned char)hx_u(r, 256);
         }
      }
      if (f + 1 >= n || hx_u(r, 2) || pos > cap - 400) break;
      { int d = hx_range(r, 1, n - 1 - f > 3 ? 3 : n - 1 - f); if (d == 1 && hx_u(r, 2)) x[pos++] = 0x02; else { x[pos++] = 0x03; x[pos++] = (unsigned char)d; } f += d; }
   }
   if (hx_u(r, 3) == 0) {                          /* final long extension with L = 0: payload to the end */
      int id = hx_range(r, 32, 127), len = hx_range(r, 0, 9), i;
      x[pos++] = (unsigned char)(id << 1); for (i = 0; i < len; i++) x[pos++] = (unsigned char)hx_u(r, 256); lastopen = 1;
   }
   if (!lastopen && hx_u(r, 3) == 0) { int k = hx_range(r, 1, 4); while (k--) x[pos++] = 0; }   /* trailing padding */
   return pos;
}

static const int SZS[] = {0, 1, 2, 3, 5, 10, 40, 250, 251, 252, 253, 254, 255, 256, 507, 508, 1274, 1275};
static int pick_size(hx_rng *r, int small) { if (small || hx_u(r, 3)) return hx_range(r, 0, 12); return SZS[hx_u(r, sizeof SZS / sizeof SZS[0])]; }
static const int PADAMTS[] = {1, 2, 3, 253, 254, 255, 256, 257, 509, 510, 511, 512, 764, 765, 766};

/* random valid packet of configuration toc6 with at most maxn frames; with g_extbias a third of the
   packets are forced to carry extension padding */
static int g_extbias;
static void random_packet(hx_rng *r, pkt_t *p, int toc6, int maxn, int sd, int *fidctr, int extok)
{
   int code = hx_u(r, 4), n, sizes[48], i, vbr = 0, haspad = 0, npad = 0, force = g_extbias && extok && hx_u(r, 3) == 0; static unsigned char pad[4096];
   if (force) code = 3;
   if (maxn < 2 && (code == 1 || code == 2)) code = hx_u(r, 2) ? 0 : 3;
   if (code == 0) n = 1; else if (code < 3) n = 2;
   else { n = hx_u(r, 6) ? hx_range(r, 1, maxn < 6 ? maxn : 6) : hx_range(r, 1, maxn); }
   if (code == 1 || (code == 3 && !(vbr = hx_u(r, 2)))) { int s = pick_size(r, n > 12); for (i = 0; i < n; i++) sizes[i] = s; }
   else { for (i = 0; i < n; i++) sizes[i] = pick_size(r, n > 12); if (code == 3 && hx_u(r, 4) == 0) for (i = 1; i < n; i++) sizes[i] = sizes[0]; }
   if (code == 2 && hx_u(r, 4) == 0) sizes[1] = sizes[0];
   if (code == 3 && (force || hx_u(r, 2))) {
      int kind = force ? 5 : (int)hx_u(r, 10); haspad = 1;
      if (kind < 3) { npad = hx_u(r, 2) ? (int)hx_u(r, 6) : PADAMTS[hx_u(r, 15)]; memset(pad, 0, npad); }             /* zeros */
      else if (kind < 8 && extok) npad = build_exts(r, n, pad, sizeof pad);                                              /* extensions */
      else if (kind == 8 && extok) { npad = hx_range(r, 1, 6); for (i = 0; i < npad; i++) pad[i] = (unsigned char)hx_u(r, 256); } /* arbitrary bytes */
      else { npad = hx_range(r, 1, 5); memset(pad, 1, npad); }                                                          /* one-byte paddings */
   }
   build_packet(p, toc6, code, n, sizes, vbr, haspad, pad, npad, sd, fidctr);
}

/* after a corruption: if the bytes still form a packet, describe it again (fresh identities in the
   frames the parser now sees) so that the submitted packet always comes with its frame table */
static void retable(pkt_t *p, int sd, int *fidctr)
{
   const unsigned char *frames[48]; opus_int16 size[48]; unsigned char toc; int po, i, c; opus_int32 ko; const unsigned char *pad = NULL; opus_int32 padlen = 0;
   c = p->len > 0 ? opus_packet_parse_impl(p->b, p->len, sd, &toc, frames, size, &po, &ko, &pad, &padlen) : -4;
   p->valid = 0; p->nfr = 0; p->npad = 0; p->padat = 0;
   if (c < 1) return;
   p->valid = 1; p->nfr = c;
   for (i = 0; i < c; i++) { p->fr[i].off = (int)(frames[i] - p->b); p->fr[i].len = size[i]; p->fr[i].fid = (*fidctr)++ & 0xFFFF; fill_frame(p->b + p->fr[i].off, size[i], p->fr[i].fid); }
   p->padat = pad ? (int)(pad - p->b) : p->len; p->npad = padlen;
   if (sd) p->len = (int)ko;          /* a self-delimited packet ends where its framing says */
}
/* describe a packet the library produced (identities recovered from the payload) */
static void describe(pkt_t *p, unsigned char *b, int len)
{
   const unsigned char *frames[48]; opus_int16 size[48]; unsigned char toc; int po, i, c, ok; opus_int32 ko; const unsigned char *pad = NULL; opus_int32 padlen = 0;
   memset(p, 0, sizeof *p); p->b = b; p->len = len;
   c = len > 0 ? opus_packet_parse_impl(b, len, 0, &toc, frames, size, &po, &ko, &pad, &padlen) : -4;
   if (c < 1) return;
   p->valid = 1; p->nfr = c;
   for (i = 0; i < c; i++) { p->fr[i].off = (int)(frames[i] - b); p->fr[i].len = size[i]; rec_frame(frames[i], size[i], &p->fr[i].fid, &ok); }
   p->padat = pad ? (int)(pad - b) : len; p->npad = padlen;
}

/* turn a valid packet into a (probably) invalid one */
static void corrupt_packet(hx_rng *r, pkt_t *p, int sd, int *fidctr)
{
   int k = hx_u(r, 6);
   if (k == 0 && p->len > 1) p->len -= hx_range(r, 1, p->len > 3 ? 3 : p->len - 1);
   else if (k == 1) p->len += hx_range(r, 1, 2);
   else if (k == 2 && (p->b[0] & 3) == 3) p->b[1] &= 0xC0;                 /* M = 0 */
   else if (k == 3 && (p->b[0] & 3) == 3) p->b[1] |= 0x3F;                 /* M = 63 */
   else if (k == 4) p->len = sd ? 1 : 0;
   else p->b[0] ^= (unsigned char)(1 + hx_u(r, 3));                          /* other code */
   retable(p, sd, fidctr);
}

/* ---------- repacketizer session ---------- */
#define MAXLIVE 4096
static OpusRepacketizer *g_rp;
static unsigned char *g_live[MAXLIVE]; static int g_nlive;
static void live_clear(void) { int i; for (i = 0; i < g_nlive; i++) free(g_live[i]); g_nlive = 0; }

static void ev_new(void) {
   if (g_rp) opus_repacketizer_destroy(g_rp);
   live_clear();
   g_rp = opus_repacketizer_create(); g_exec++;
   js_open("new"); js_int("x", g_exec); js_int("nb", opus_repacketizer_get_nb_frames(g_rp)); js_close();
}
static void ev_init(void) {
   opus_repacketizer_init(g_rp);
   live_clear();
   js_open("init"); js_int("x", g_exec); js_int("nb", opus_repacketizer_get_nb_frames(g_rp)); js_close();
}
static int ev_cat(const pkt_t *p, int id) {
   unsigned char *d; int ret;
   if (g_nlive >= MAXLIVE) return 0;
   d = hx_exact(p->b, p->len); g_live[g_nlive++] = d;          /* must stay alive until init */
   hx_arm(20); ret = opus_repacketizer_cat(g_rp, d, p->len); hx_disarm();
   js_open("cat"); js_int("x", g_exec); js_int("pid", id); j_bytes("h", p->b, hdr_extent(p->b, p->len)); js_int("n", p->len);
   if (p->valid) { j_in_table("fr", p); j_pad("", p->b + p->padat, p->npad); }
   else { printf(",\"fr\":[]"); j_pad("", p->b, 0); }
   js_int("ret", ret); js_int("nb", opus_repacketizer_get_nb_frames(g_rp)); js_close();
   return ret;
}
static int ev_out(int all, int b, int e, int m) {
   hx_buf o; int ret, can;
   if (m < 0) m = 0;
   o = hx_buf_new((size_t)m, 0xEE);
   hx_arm(20);
   ret = all ? opus_repacketizer_out(g_rp, o.p, m) : opus_repacketizer_out_range(g_rp, b, e, o.p, m);
   hx_disarm();
   can = hx_buf_ok(&o);
   js_open("out"); js_int("x", g_exec); js_int("all", all); js_int("b", b); js_int("e", e); js_int("m", m); js_int("ret", ret);
   js_int("nb", opus_repacketizer_get_nb_frames(g_rp)); js_int("can", can);
   if (ret > 0 && ret <= m) j_out("", o.p, ret, 0, NULL);
   else { printf(",\"h\":[],\"pr\":0,\"fr\":[]"); j_pad("", o.p, 0); }
   js_close();
   hx_buf_free(&o);
   return ret;
}
/* opus_repacketizer_out_range_impl called directly: self-delimited output and/or padding to maxlen */
static int ev_outx(int b, int e, int m, int sd, int pad) {
   hx_buf o; int ret, can, consumed = 0;
   if (m < 0) m = 0;
   o = hx_buf_new((size_t)m, 0xEE);
   hx_arm(20);
   ret = opus_repacketizer_out_range_impl(g_rp, b, e, o.p, m, sd, pad, NULL, 0);
   hx_disarm();
   can = hx_buf_ok(&o);
   js_open("outx"); js_int("x", g_exec); js_int("b", b); js_int("e", e); js_int("m", m); js_int("sd", sd); js_int("pad", pad); js_int("ret", ret);
   js_int("nb", opus_repacketizer_get_nb_frames(g_rp)); js_int("can", can);
   if (ret > 0 && ret <= m) j_out("", o.p, ret, sd, &consumed);
   else { printf(",\"h\":[],\"pr\":0,\"fr\":[]"); j_pad("", o.p, 0); }
   js_int("ko", consumed); js_close();
   hx_buf_free(&o);
   return ret;
}
static const int XDELTAS[] = {0, 1, 2, 3, 253, 254, 255, 256, 257, 510, 511, 512};
/* measure the size with an ample buffer, then probe the exact fit and one byte less; every call also
   takes a turn at the internal entry point (self-delimited and/or padded to exactly maxlen) */
static unsigned g_turn;
static void ev_probe(int b, int e) {
   int r = ev_out(0, b, e, MAXPK), t = (int)(g_turn++ % 6);
   if (r > 0) { ev_out(0, b, e, r); ev_out(0, b, e, r - 1); }
   if (r > 0) {
      int sd = t & 1, d = XDELTAS[(g_turn * 7u) % 12u], r0;
      if (t < 2) { r0 = ev_outx(b, e, MAXPK, sd, 0); if (r0 > 0) { ev_outx(b, e, r0, sd, 0); ev_outx(b, e, r0 - 1, sd, 0); } }
      else if (t < 4) { r0 = r + (sd ? 1 : 0); ev_outx(b, e, r0 + d, sd, 1); ev_outx(b, e, r0 - 1, sd, 1); }
      else { ev_outx(b, e, r + 2 + d, 1, 1); ev_outx(b, e, r + 1, sd, 1); }
   }
}

/* ---------- replay of scripts ---------- */
#define MAXLIB 256
static pkt_t g_lib[MAXLIB];
static void replay(void)
{
   static char line[1 << 20]; int i;
   while (fgets(line, sizeof line, stdin)) {
      char *q = line; char c = *q;
      if (c == 'P') {
         int id, len, nh, nf, np; pkt_t *p;
         q++; id = (int)strtol(q, &q, 10); len = (int)strtol(q, &q, 10); nh = (int)strtol(q, &q, 10);
         if (id < 0 || id >= MAXLIB || len < 0 || len > MAXPK) continue;
         p = &g_lib[id]; free(p->b); memset(p, 0, sizeof *p);
         p->b = (unsigned char *)calloc(MAXPK, 1); p->len = len;
         for (i = 0; i < nh; i++) p->b[i] = (unsigned char)strtol(q, &q, 10);
         nf = (int)strtol(q, &q, 10); p->nfr = nf; p->valid = nf > 0;
         for (i = 0; i < nf; i++) { p->fr[i].off = (int)strtol(q, &q, 10); p->fr[i].len = (int)strtol(q, &q, 10); p->fr[i].fid = (int)strtol(q, &q, 10);
            fill_frame(p->b + p->fr[i].off, p->fr[i].len, p->fr[i].fid); }
         p->padat = (int)strtol(q, &q, 10); np = (int)strtol(q, &q, 10); p->npad = np;
         for (i = 0; i < np; i++) p->b[p->padat + i] = (unsigned char)strtol(q, &q, 10);
      } else if (c == 'X') ev_new();
      else if (c == 'I') { if (!g_rp) ev_new(); ev_init(); }
      else if (c == 'C') { int id = atoi(q + 1); if (!g_rp) ev_new(); if (id >= 0 && id < MAXLIB && g_lib[id].b) ev_cat(&g_lib[id], id); }
      else if (c == 'O') { int b, e, m; q++; b = (int)strtol(q, &q, 10); e = (int)strtol(q, &q, 10); m = (int)strtol(q, &q, 10); if (!g_rp) ev_new(); ev_out(0, b, e, m); }
      else if (c == 'A') { int m = atoi(q + 1); if (!g_rp) ev_new(); ev_out(1, 0, opus_repacketizer_get_nb_frames(g_rp), m); }
      else if (c == 'S') { int b, e, m, sd, pad; q++; b = (int)strtol(q, &q, 10); e = (int)strtol(q, &q, 10); m = (int)strtol(q, &q, 10); sd = (int)strtol(q, &q, 10); pad = (int)strtol(q, &q, 10); if (!g_rp) ev_new(); ev_outx(b, e, m, sd, pad); }
      else if (c == 'Q') { int b, e; q++; b = (int)strtol(q, &q, 10); e = (int)strtol(q, &q, 10); if (!g_rp) ev_new(); ev_probe(b, e); }
   }
}

/* ---------- random long executions ---------- */
static const int TOC6S[] = {32, 33, 2, 3, 6, 63, 48, 34, 20, 28};     /* 2.5 ms x2, 20 ms x2, 60 ms, 20 ms CELT FB stereo, 2.5 ms WB, 5 ms, 40 ms, 10 ms hybrid */
static int frames_per_120ms(int toc6) {
   unsigned char t = (unsigned char)(toc6 << 2); int spf = opus_packet_get_samples_per_frame(&t, 48000); return 5760 / spf;
}
static void random_exec(uint64_t seed)
{
   hx_rng r; int toc6, cap, nops, op, fidctr, extok;
   r.s = seed; fidctr = (int)hx_u(&r, 60000);
   toc6 = hx_u(&r, 2) ? 32 + (int)hx_u(&r, 2) : TOC6S[hx_u(&r, 10)];
   cap = frames_per_120ms(toc6);
   extok = hx_u(&r, 3) != 0;               /* a third of the executions are extension-free */
   nops = hx_range(&r, 8, 70);
   ev_new();
   for (op = 0; op < nops; op++) {
      int nb = opus_repacketizer_get_nb_frames(g_rp), w = hx_u(&r, 100);
      if (w < 4) ev_init();
      else if (w < 55) {
         pkt_t p; int t6 = toc6, room = cap - nb, maxn;
         if (hx_u(&r, 25) == 0) t6 = TOC6S[hx_u(&r, 10)];                      /* maybe incompatible */
         maxn = hx_u(&r, 10) == 0 ? 48 : (room > 0 ? room : 1);                  /* maybe too long */
         if (maxn > frames_per_120ms(t6)) maxn = frames_per_120ms(t6);
         random_packet(&r, &p, t6, maxn, 0, &fidctr, extok);
         if (hx_u(&r, 8) == 0) corrupt_packet(&r, &p, 0, &fidctr);
         ev_cat(&p, 0);
         free_packet(&p);
      } else {
         int b, e, m, k = hx_u(&r, 10);
         if (nb == 0 || hx_u(&r, 15) == 0) { b = hx_range(&r, -1, nb + 1); e = hx_range(&r, -1, nb + 2); }
         else if (k < 3) { b = 0; e = nb; }
         else { b = hx_u(&r, nb); e = hx_range(&r, b + 1, nb); if (hx_u(&r, 3) == 0) e = b + 1 + (int)hx_u(&r, (nb - b) < 3 ? (nb - b) : 3); if (e > nb) e = nb; }
         if (hx_u(&r, 6) == 0) ev_outx(b, e, hx_u(&r, 3) ? hx_range(&r, 0, 2600) : MAXPK, (int)hx_u(&r, 2), (int)hx_u(&r, 2));
         else if (k == 0) ev_out(1, 0, nb, hx_u(&r, 2) ? 1277 * (nb > 0 ? nb : 1) : MAXPK);
         else if (k < 6) ev_probe(b, e);
         else { m = k == 6 ? 1277 * (e - b > 0 ? e - b : 1) : k == 7 ? (int)hx_u(&r, 40) : k == 8 ? 1276 * (e - b > 0 ? e - b : 1) : hx_range(&r, 0, 3000); ev_out(0, b, e, m); }
      }
   }
}

/* ---------- pad / unpad ---------- */
static void ev_unpad(const unsigned char *src, int len, const pkt_t *desc)
{
   hx_buf o = hx_buf_new((size_t)(len > 0 ? len : 0), 0xEE); int ret, r2 = 0, same2 = 0, can;
   if (len > 0) memcpy(o.p, src, len);
   hx_arm(20); ret = opus_packet_unpad(o.p, len); hx_disarm();
   can = hx_buf_ok(&o);
   js_open("unpad"); js_int("x", g_exec); j_bytes("h", src, hdr_extent(src, len)); js_int("n", len);
   if (desc && desc->valid) { j_in_table("fr", desc); j_pad("", desc->b + desc->padat, desc->npad); } else { printf(",\"fr\":[]"); j_pad("", src, 0); }
   js_int("ret", ret);
   if (ret > 0 && ret <= len) {
      unsigned char *c2 = hx_exact(o.p, ret);
      j_out("o", o.p, ret, 0, NULL);
      hx_arm(20); r2 = opus_packet_unpad(c2, ret); hx_disarm();          /* unpad what unpad produced */
      same2 = r2 == ret && memcmp(c2, o.p, ret) == 0;
      free(c2);
   } else { printf(",\"oh\":[],\"opr\":0,\"ofr\":[]"); j_pad("o", src, 0); }
   js_int("r2", r2); js_int("same2", same2); js_int("can", can); js_close();
   hx_buf_free(&o);
}
/* in-place pad in a buffer of exactly new_len bytes; returns the padded bytes (caller frees) or NULL */
static unsigned char *ev_pad(const pkt_t *p, int len, int new_len)
{
   size_t cap = (size_t)(new_len > len ? new_len : len); hx_buf o; int ret, can; unsigned char *res = NULL;
   if ((int)cap < 0) cap = 0;
   o = hx_buf_new(cap, 0xEE);
   if (len > 0) memcpy(o.p, p->b, len);
   hx_arm(20); ret = opus_packet_pad(o.p, len, new_len); hx_disarm();
   can = hx_buf_ok(&o);
   js_open("pad"); js_int("x", g_exec); j_bytes("h", p->b, hdr_extent(p->b, len)); js_int("n", len);
   if (p->valid) { j_in_table("fr", p); j_pad("", p->b + p->padat, p->npad); } else { printf(",\"fr\":[]"); j_pad("", p->b, 0); }
   js_int("nn", new_len); js_int("ret", ret); js_int("can", can);
   if (ret == 0 && new_len >= len && new_len > 0) { j_out("o", o.p, new_len, 0, NULL); res = hx_exact(o.p, new_len); }
   else { printf(",\"oh\":[],\"opr\":0,\"ofr\":[]"); j_pad("o", p->b, 0); }
   js_close();
   hx_buf_free(&o);
   return res;
}
static const int DELTAS[] = {0, 1, 2, 3, 4, 252, 253, 254, 255, 256, 257, 258, 508, 509, 510, 511, 512, 513, 763, 764, 765, 766, 767, 1019, 1020, 1021, 1275, 1276};
static void pad_cases(uint64_t seed, int n)
{
   int it;
   for (it = 0; it < n; it++) {
      hx_rng r; pkt_t p; int fidctr, toc6, new_len, k; unsigned char *padded;
      r.s = seed + (uint64_t)it; g_exec = (long)(seed + (uint64_t)it);
      fidctr = (int)hx_u(&r, 60000); toc6 = (int)hx_u(&r, 64);
      random_packet(&r, &p, toc6, hx_u(&r, 8) ? 6 : frames_per_120ms(toc6), 0, &fidctr, 1);
      k = hx_u(&r, 12);
      if (k == 0) corrupt_packet(&r, &p, 0, &fidctr);
      new_len = p.len + (hx_u(&r, 5) ? DELTAS[hx_u(&r, sizeof DELTAS / sizeof DELTAS[0])] : hx_range(&r, 0, 1600));
      if (k == 1) new_len = p.len - hx_range(&r, 1, 3);
      padded = ev_pad(&p, p.len, new_len);
      ev_unpad(p.b, p.len, &p);
      if (padded) {            /* unpad what pad produced: same frames, canonical again */
         pkt_t q; describe(&q, padded, new_len);
         ev_unpad(padded, new_len, &q);
         if (hx_u(&r, 3) == 0) { unsigned char *pp = ev_pad(&q, new_len, new_len + DELTAS[hx_u(&r, sizeof DELTAS / sizeof DELTAS[0])]); free(pp); }   /* pad a padded packet */
         free(padded);
      }
      free_packet(&p);
   }
}


/* ---------- pad that adds extensions: opus_packet_pad_impl ---------- */
#define MAXX 24
typedef struct { int n; opus_extension_data x[MAXX]; unsigned char *store; } xlist_t;
static const int XLENS[] = {0, 1, 2, 3, 10, 253, 254, 255, 256, 257, 509, 510, 511};
static void xlist_add(xlist_t *l, hx_rng *r, int id, int frame, int len) {
   unsigned char *d; int i;
   if (l->n >= MAXX) return;
   d = l->store + 600 * l->n;
   for (i = 0; i < len; i++) d[i] = (unsigned char)hx_u(r, 256);
   l->x[l->n].id = id; l->x[l->n].frame = frame; l->x[l->n].data = d; l->x[l->n].len = len; l->n++;
}
/* families: single / lacing boundaries / repeat-eligible (same id in every frame) / mixed order / illegal */
static void make_xlist(hx_rng *r, xlist_t *l, int nfr)
{
   int fam = hx_u(r, 10), f, k;
   l->n = 0;
   if (nfr < 1) nfr = 1;
   if (fam == 0) return;                                                            /* nothing added */
   if (fam == 1) xlist_add(l, r, hx_range(r, 3, 31), hx_u(r, nfr), hx_u(r, 2));      /* one short */
   else if (fam == 2) xlist_add(l, r, hx_range(r, 32, 127), hx_u(r, nfr), XLENS[hx_u(r, 13)]);   /* one long, lacing boundary */
   else if (fam == 3) { int id = hx_range(r, 32, 127); for (f = 0; f < nfr && f < 12; f++) xlist_add(l, r, id, f, hx_u(r, 3) ? hx_range(r, 0, 6) : XLENS[hx_u(r, 13)]); }  /* repeat-eligible long */
   else if (fam == 4) { int id = hx_range(r, 3, 31), L = hx_u(r, 2); for (f = 0; f < nfr && f < 12; f++) xlist_add(l, r, id, f, L); if (hx_u(r, 2)) xlist_add(l, r, 40, nfr - 1, hx_range(r, 0, 5)); }  /* repeat-eligible short (+ tail) */
   else if (fam == 5) { int id1 = hx_range(r, 3, 31), id2 = hx_range(r, 32, 127); for (f = 0; f < nfr && f < 8; f++) { xlist_add(l, r, id1, f, 1); xlist_add(l, r, id2, f, hx_range(r, 0, 4)); } }  /* two repeated per frame */
   else if (fam < 9) { k = hx_range(r, 1, 6); while (k--) { if (hx_u(r, 2)) xlist_add(l, r, hx_range(r, 3, 31), hx_u(r, nfr), hx_u(r, 2)); else xlist_add(l, r, hx_range(r, 32, 127), hx_u(r, nfr), hx_u(r, 4) ? hx_range(r, 0, 9) : XLENS[hx_u(r, 13)]); } }  /* any order of frames */
   else {                                                                           /* illegal arguments */
      int w = hx_u(r, 5);
      if (hx_u(r, 2)) xlist_add(l, r, hx_range(r, 3, 31), hx_u(r, nfr), 1);
      if (w == 0) xlist_add(l, r, hx_range(r, 3, 127), nfr + (int)hx_u(r, 2), 0);    /* frame >= n */
      else if (w == 1) xlist_add(l, r, hx_range(r, 3, 127), -1, 0);                  /* negative frame */
      else if (w == 2) xlist_add(l, r, hx_range(r, 0, 2), 0, 0);                     /* reserved id */
      else if (w == 3) xlist_add(l, r, 128 + (int)hx_u(r, 3), 0, 0);                 /* id out of range */
      else xlist_add(l, r, hx_range(r, 3, 31), 0, 2);                                /* short extension with 2 bytes */
   }
}
static int ev_padx(const pkt_t *p, int new_len, int pad, const xlist_t *l)
{
   size_t cap = (size_t)(new_len > p->len ? new_len : p->len); hx_buf o; int ret, can, i, outlen;
   o = hx_buf_new(cap, 0xEE);
   if (p->len > 0) memcpy(o.p, p->b, p->len);
   hx_arm(20); ret = opus_packet_pad_impl(o.p, p->len, new_len, pad, l->x, l->n); hx_disarm();
   can = hx_buf_ok(&o);
   js_open("padx"); js_int("x", g_exec); j_bytes("h", p->b, hdr_extent(p->b, p->len)); js_int("n", p->len);
   if (p->valid) { j_in_table("fr", p); j_pad("", p->b + p->padat, p->npad); } else { printf(",\"fr\":[]"); j_pad("", p->b, 0); }
   js_int("nn", new_len); js_int("pad", pad);
   printf(",\"xl\":[");
   for (i = 0; i < l->n; i++) { int j; printf("%s[%d,%d,[", i ? "," : "", l->x[i].id, l->x[i].frame); for (j = 0; j < l->x[i].len; j++) printf(j ? ",%d" : "%d", l->x[i].data[j]); printf("]]"); }
   printf("]");
   js_int("ret", ret); js_int("can", can);
   outlen = ret > 0 ? ret : 0;
   if (outlen > 0 && outlen <= (int)cap) j_out("o", o.p, outlen, 0, NULL);
   else { printf(",\"oh\":[],\"opr\":0,\"ofr\":[]"); j_pad("o", p->b, 0); }
   js_close();
   hx_buf_free(&o);
   return ret;
}
static void padx_cases(uint64_t seed, int n)
{
   int it; xlist_t l; l.store = (unsigned char *)malloc(600 * MAXX);
   g_extbias = 1;
   for (it = 0; it < n; it++) {
      hx_rng r; pkt_t p; int fidctr, toc6, r0, k, d;
      r.s = seed + (uint64_t)it; g_exec = (long)(seed + (uint64_t)it);
      fidctr = (int)hx_u(&r, 60000); toc6 = (int)hx_u(&r, 64);
      random_packet(&r, &p, toc6, hx_u(&r, 6) ? 5 : frames_per_120ms(toc6), 0, &fidctr, 1);
      k = hx_u(&r, 16);
      if (k == 0) corrupt_packet(&r, &p, 0, &fidctr);
      make_xlist(&r, &l, p.valid ? p.nfr : 1);
      d = XDELTAS[hx_u(&r, 12)];
      r0 = ev_padx(&p, MAXPK - 1, 0, &l);                       /* minimal size with an ample buffer */
      if (r0 > 0) {
         ev_padx(&p, r0 > p.len ? r0 : p.len + 1, 0, &l);        /* exact fit, not padded */
         if (r0 - 1 > p.len) ev_padx(&p, r0 - 1, 0, &l);          /* one byte short */
         ev_padx(&p, (r0 > p.len ? r0 : p.len + 1) + d, 1, &l);   /* padded to exactly new_len */
         if (r0 - 1 > p.len) ev_padx(&p, r0 - 1, 1, &l);
         if (hx_u(&r, 4) == 0) ev_padx(&p, p.len + 1 + (int)hx_u(&r, 40), (int)hx_u(&r, 2), &l);
      } else ev_padx(&p, p.len + 1 + (int)hx_u(&r, 600), (int)hx_u(&r, 2), &l);
      if (k == 1) ev_padx(&p, p.len, (int)hx_u(&r, 2), &l);
      if (k == 2) ev_padx(&p, p.len - 1, 1, &l);
      free_packet(&p);
   }
   free(l.store);
}

/* ---------- multistream ---------- */
typedef struct { int S; pkt_t st[8]; int at[8]; unsigned char *b; int len; } ms_t;
static void j_streams_in(const ms_t *m)
{
   int s; printf(",\"st\":[");
   for (s = 0; s < m->S; s++) {
      const pkt_t *p = &m->st[s];
      printf("%s{\"at\":%d", s ? "," : "", m->at[s]);
      j_bytes("h", m->b + m->at[s], hdr_extent(m->b + m->at[s], m->len - m->at[s] > 0 ? m->len - m->at[s] : 0));
      if (p->valid) { j_in_table("fr", p); j_pad("", p->b + p->padat, p->npad); } else { printf(",\"fr\":[]"); j_pad("", p->b, 0); }
      printf("}");
   }
   printf("]");
}
static void j_streams_out(const unsigned char *d, int len, int S)
{
   int s, at = 0; printf(",\"ost\":[");
   for (s = 0; s < S; s++) {
      int consumed = 0, ret;
      if (at >= len) break;
      printf("%s{\"at\":%d", s ? "," : "", at);
      ret = j_out("", d + at, len - at, s != S - 1, &consumed);
      printf("}");
      if (ret <= 0 || consumed <= 0) break;
      at += consumed;
   }
   printf("]");
}
/* a corrupted stream changes where the following streams start: describe the streams again by
   walking the concatenation (fresh identities), up to the first stream that does not parse */
static void ms_describe(ms_t *m, int *fidctr)
{
   int s, at = 0, dead = 0;
   for (s = 0; s < m->S; s++) {
      pkt_t *p = &m->st[s]; int rem = m->len - at;
      free(p->b); memset(p, 0, sizeof *p); p->b = (unsigned char *)calloc(MAXPK, 1);
      m->at[s] = at;
      if (dead || rem <= 0) { dead = 1; continue; }
      memcpy(p->b, m->b + at, rem < MAXPK ? rem : MAXPK); p->len = rem;
      retable(p, s != m->S - 1, fidctr);
      if (!p->valid) { dead = 1; continue; }
      memcpy(m->b + at, p->b, p->len);
      at += p->len;
   }
}
static void ms_cases(uint64_t seed, int n)
{
   int it;
   g_extbias = 1;
   for (it = 0; it < n; it++) {
      hx_rng r; ms_t m; int fidctr, s, pos = 0, new_len, k, ret, can, r2 = 0, same2 = 0, corrupted = 0; hx_buf o;
      r.s = seed + (uint64_t)it; g_exec = (long)(seed + (uint64_t)it);
      fidctr = (int)hx_u(&r, 60000); memset(&m, 0, sizeof m);
      m.S = hx_range(&r, 1, 8); m.b = (unsigned char *)calloc(8 * 8000 + 4000, 1);
      k = hx_u(&r, 10);
      for (s = 0; s < m.S; s++) {
         int toc6 = (int)hx_u(&r, 64);
         do { random_packet(&r, &m.st[s], toc6, hx_u(&r, 6) ? 4 : frames_per_120ms(toc6), s != m.S - 1, &fidctr, 1); if (m.st[s].len > 7000) free_packet(&m.st[s]); } while (!m.st[s].b);
         if (k == 0 && hx_u(&r, m.S) == 0) { corrupt_packet(&r, &m.st[s], s != m.S - 1, &fidctr); corrupted = 1; }
         m.at[s] = pos; memcpy(m.b + pos, m.st[s].b, m.st[s].len); pos += m.st[s].len;
      }
      m.len = pos;
      if (corrupted) ms_describe(&m, &fidctr);
      /* pad */
      new_len = m.len + (hx_u(&r, 5) ? DELTAS[hx_u(&r, sizeof DELTAS / sizeof DELTAS[0])] : hx_range(&r, 0, 1600));
      if (k == 1) new_len = m.len - hx_range(&r, 1, 3);
      o = hx_buf_new((size_t)(new_len > m.len ? new_len : m.len), 0xEE); memcpy(o.p, m.b, m.len);
      hx_arm(20); ret = opus_multistream_packet_pad(o.p, m.len, new_len, m.S); hx_disarm(); can = hx_buf_ok(&o);
      js_open("mspad"); js_int("x", g_exec); js_int("S", m.S); js_int("n", m.len); js_int("nn", new_len); j_streams_in(&m);
      js_int("ret", ret); js_int("can", can);
      if (ret == 0 && new_len >= m.len) j_streams_out(o.p, new_len, m.S); else printf(",\"ost\":[]");
      js_close(); hx_buf_free(&o);
      /* unpad */
      o = hx_buf_new((size_t)m.len, 0xEE); memcpy(o.p, m.b, m.len);
      hx_arm(20); ret = opus_multistream_packet_unpad(o.p, m.len, m.S); hx_disarm(); can = hx_buf_ok(&o);
      js_open("msunpad"); js_int("x", g_exec); js_int("S", m.S); js_int("n", m.len); j_streams_in(&m); js_int("ret", ret);
      if (ret > 0 && ret <= m.len) {
         unsigned char *c2 = hx_exact(o.p, ret);
         j_streams_out(o.p, ret, m.S);
         hx_arm(20); r2 = opus_multistream_packet_unpad(c2, ret, m.S); hx_disarm();
         same2 = r2 == ret && memcmp(c2, o.p, ret) == 0; free(c2);
      } else printf(",\"ost\":[]");
      js_int("r2", r2); js_int("same2", same2); js_int("can", can); js_close(); hx_buf_free(&o);
      for (s = 0; s < m.S; s++) free_packet(&m.st[s]);
      free(m.b);
   }
}

/* ---------- decoded audio after pad / unpad ---------- */
static void j_hex32(const char *key, opus_uint32 v) { printf(",\"%s\":\"%08x\"", key, (unsigned)v); }
static void audio_cases(uint64_t seed, int n)
{
   static const struct { int fs, ch, app, frame_ms10, bitrate, vbr; const char *name; } CF[] = {
      {8000, 1, OPUS_APPLICATION_VOIP, 200, 12000, 1, "silk-nb-20ms"},
      {16000, 1, OPUS_APPLICATION_VOIP, 600, 20000, 1, "silk-wb-60ms"},
      {48000, 2, OPUS_APPLICATION_AUDIO, 200, 64000, 1, "celt-fb-20ms-st"},
      {48000, 1, OPUS_APPLICATION_RESTRICTED_LOWDELAY, 25, 48000, 0, "celt-2.5ms-cbr"},
      {48000, 2, OPUS_APPLICATION_VOIP, 200, 32000, 1, "hybrid-20ms-st"},
      {48000, 1, OPUS_APPLICATION_AUDIO, 1200, 40000, 1, "multi-120ms"},
      {24000, 2, OPUS_APPLICATION_AUDIO, 400, 48000, 0, "40ms-cbr-st"},
      {48000, 1, OPUS_APPLICATION_AUDIO, 100, 96000, 1, "celt-10ms"},
   };
   int ci, it;
   for (ci = 0; ci < (int)(sizeof CF / sizeof CF[0]); ci++) {
      int fs = CF[ci].fs, ch = CF[ci].ch, fsz = fs / 100 * CF[ci].frame_ms10 / 100, err;
      OpusEncoder *enc = opus_encoder_create(fs, ch, CF[ci].app, &err);
      OpusDecoder *dA = opus_decoder_create(fs, ch, &err), *dB = opus_decoder_create(fs, ch, &err), *dC = opus_decoder_create(fs, ch, &err);
      opus_int16 *pcm = (opus_int16 *)malloc(sizeof(opus_int16) * fsz * ch), *oA = (opus_int16 *)malloc(sizeof(opus_int16) * 5760 * ch),
                 *oB = (opus_int16 *)malloc(sizeof(opus_int16) * 5760 * ch), *oC = (opus_int16 *)malloc(sizeof(opus_int16) * 5760 * ch);
      hx_rng r; double ph = 0; r.s = seed + 977u * (unsigned)ci; g_exec = (long)r.s;
      opus_encoder_ctl(enc, OPUS_SET_BITRATE(CF[ci].bitrate)); opus_encoder_ctl(enc, OPUS_SET_VBR(CF[ci].vbr));
      if (CF[ci].frame_ms10 == 25) opus_encoder_ctl(enc, OPUS_SET_EXPERT_FRAME_DURATION(OPUS_FRAMESIZE_2_5_MS));
      for (it = 0; it < n; it++) {
         unsigned char pk[4000]; int len, i, new_len, pr, ur, sA, sB, sC, can; hx_buf b; opus_uint32 rA, rB, rC; unsigned char *u;
         for (i = 0; i < fsz; i++) {
            int c; double tri, v;
            ph += 0.02 + 0.015 * ((it >> 3) & 3); if (ph > 4.0) ph -= 4.0;
            tri = ph < 2.0 ? ph - 1.0 : 3.0 - ph;
            v = 9000.0 * 0.6 * tri + (double)hx_range(&r, -1500, 1500) * ((it & 4) ? 1.0 : 0.1);
            for (c = 0; c < ch; c++) pcm[i * ch + c] = (opus_int16)(c ? -v * 0.7 : v);
         }
         if ((it % 11) == 7) memset(pcm, 0, sizeof(opus_int16) * fsz * ch);
         len = opus_encode(enc, pcm, fsz, pk, CF[ci].vbr ? 1500 : 400);
         if (len < 1) continue;
         new_len = len + DELTAS[(it * 7 + ci) % (int)(sizeof DELTAS / sizeof DELTAS[0])];
         b = hx_buf_new((size_t)new_len, 0xEE); memcpy(b.p, pk, len);
         pr = opus_packet_pad(b.p, len, new_len);
         u = hx_exact(b.p, new_len); ur = pr == 0 ? opus_packet_unpad(u, new_len) : -1;
         can = hx_buf_ok(&b);
         sA = opus_decode(dA, pk, len, oA, 5760, 0); opus_decoder_ctl(dA, OPUS_GET_FINAL_RANGE(&rA));
         sB = opus_decode(dB, b.p, new_len, oB, 5760, 0); opus_decoder_ctl(dB, OPUS_GET_FINAL_RANGE(&rB));
         sC = ur > 0 ? opus_decode(dC, u, ur, oC, 5760, 0) : -1; opus_decoder_ctl(dC, OPUS_GET_FINAL_RANGE(&rC));
         js_open("audio"); js_int("x", g_exec); js_str("cfg", CF[ci].name); js_int("i", it); js_int("n", len); js_int("nn", new_len); js_int("toc", pk[0]);
         js_int("pr", pr); js_int("ur", ur); js_int("sA", sA); js_int("sB", sB); js_int("sC", sC);
         js_dig("dA", oA, sA > 0 ? sizeof(opus_int16) * sA * ch : 0); js_dig("dB", oB, sB > 0 ? sizeof(opus_int16) * sB * ch : 0); js_dig("dC", oC, sC > 0 ? sizeof(opus_int16) * sC * ch : 0);
         j_hex32("rA", rA); j_hex32("rB", rB); j_hex32("rC", rC); js_int("can", can); js_close();
         hx_buf_free(&b); free(u);
      }
      opus_encoder_destroy(enc); opus_decoder_destroy(dA); opus_decoder_destroy(dB); opus_decoder_destroy(dC);
      free(pcm); free(oA); free(oB); free(oC);
   }
}

int main(int argc, char **argv)
{
   const char *cmd = argc > 1 ? argv[1] : ""; uint64_t seed = argc > 2 ? strtoull(argv[2], NULL, 10) : 1; int n = argc > 3 ? atoi(argv[3]) : 10, i;
   hx_watchdog_init();
   if (!strcmp(cmd, "replay")) replay();
   else if (!strcmp(cmd, "random")) { for (i = 0; i < n; i++) { g_exec = (long)(seed + (uint64_t)i) - 1; random_exec(seed + (uint64_t)i); } }
   else if (!strcmp(cmd, "pad")) pad_cases(seed, n);
   else if (!strcmp(cmd, "padx")) padx_cases(seed, n);
   else if (!strcmp(cmd, "ms")) ms_cases(seed, n);
   else if (!strcmp(cmd, "audio")) audio_cases(seed, n);
   else { fprintf(stderr, "usage: hx_repack replay|random|pad|padx|ms|audio seed n\n"); return 2; }
   if (g_rp) opus_repacketizer_destroy(g_rp);
   live_clear();
   for (i = 0; i < MAXLIB; i++) free(g_lib[i].b);
   return 0;
}
