/* G14 - driver for the SILK resampler (silk/resampler.c and its private functions), module Resampler.
   Executes and records only; every judgement is made by TLC (spec/ResamplerTrace.tla).
   Plan lines on stdin (one case each, one NDJSON event per case; "x" is the plan line number):
     I fi fo enc                        silk_resampler_init on fresh (zeroed) and on dirty (0xA5.. / used) memory
     S fi fo enc seed len1 len2 ...     a stream of silk_resampler calls (lengths in samples): per call the output
                                        high-water mark, holes, canaries; the state fields afterwards
     C fi fo enc seed a1 a2 .. | b1 ..  the same random stream in two chunkings (ms): output digests and counts
     M fi fo enc seed at k1 k2 ..       C12 at this level: dirty-memory init vs fresh; memcpy clone taken after call "at"
     P fi fo enc ms chunk i             unit impulse at input index i: first / last / peak non-zero output index
     D api ch seed mode bw fms dapi dch  in situ: the tree's encoder (api Hz, ch) makes packets (mode 1000/1001, bandwidth
                                        1101.., frame ms); a real decoder at dapi Hz, dch channels decodes them
     V api ch seed bw fms dapi          in situ, sample values: decoder at dapi vs decoder at the internal rate + the real resampler
     E api ch seed                      in situ: the real encoder across bandwidth switches, resampler state after each frame
   argv[1] = "exact": additionally run every whole-ms call on exactly-sized heap buffers (ASan build). */
#include "hx_common.h"
#include <math.h>
#include <sys/types.h>
#include <sys/wait.h>
#include <fcntl.h>
#include "opus.h"
#include "opus_private.h"
#include "silk/API.h"
#include "silk/main.h"
#include "silk/resampler_structs.h"
#include "silk/resampler_rom.h"
#include "silk/SigProc_FIX.h"
#ifdef FIXED_POINT
#include "silk/fixed/structs_FIX.h"
#else
#include "silk/float/structs_FLP.h"
#endif

static int g_exact;
static long g_x;

static int coef_id(const silk_resampler_state_struct *S) {
   const opus_int16 *c = S->Coefs;
   if (c == NULL) return 0;
   if (c == silk_Resampler_3_4_COEFS) return 1;
   if (c == silk_Resampler_2_3_COEFS) return 2;
   if (c == silk_Resampler_1_2_COEFS) return 3;
   if (c == silk_Resampler_1_3_COEFS) return 4;
   if (c == silk_Resampler_1_4_COEFS) return 5;
   if (c == silk_Resampler_1_6_COEFS) return 6;
   return 99;
}

/* st = [Fs_in_kHz, Fs_out_kHz, inputDelay, batchSize, invRatio_Q16, resampler_function, Coefs id, FIR_Fracs, FIR_Order] */
static void js_state(const char *key, const silk_resampler_state_struct *S) {
   int a[9];
   a[0] = S->Fs_in_kHz; a[1] = S->Fs_out_kHz; a[2] = S->inputDelay; a[3] = S->batchSize; a[4] = S->invRatio_Q16;
   a[5] = S->resampler_function; a[6] = coef_id(S); a[7] = S->FIR_Fracs; a[8] = S->FIR_Order;
   js_arr_i(key, a, 9);
}

static void fill_sig(opus_int16 *x, int n, hx_rng *r) {
   int i; double ph = hx_unit(r) * 6.28, f = 0.01 + 0.2 * hx_unit(r);
   for (i = 0; i < n; i++) x[i] = (opus_int16)(9000.0 * sin(ph + f * i) + (double)hx_range(r, -6000, 6000));
}

/* one call on a generous guarded output buffer, twice with different sentinels from the same state:
   a cell is written iff it differs from either sentinel.  Returns hw (one past last written), *holes, *can */
static int guarded_call(silk_resampler_state_struct *S, const opus_int16 *in, int len, int cap, opus_int16 *keep, int *holes, int *can, int *ret) {
   silk_resampler_state_struct S0 = *S;
   hx_buf b1 = hx_buf_new((size_t)cap * 2, 0x5A), b2 = hx_buf_new((size_t)cap * 2, 0xA7);
   opus_int16 *o1 = (opus_int16 *)b1.p, *o2 = (opus_int16 *)b2.p;
   opus_int16 *inx = (opus_int16 *)hx_exact((const unsigned char *)in, (size_t)len * 2);
   int i, hw = 0, wr = 0;
   hx_arm(20);
   *ret = silk_resampler(S, o1, inx, len);
   silk_resampler(&S0, o2, inx, len);
   hx_disarm();
   for (i = 0; i < cap; i++)
      if (o1[i] != (opus_int16)0x5A5A || o2[i] != (opus_int16)0xA7A7) { hw = i + 1; wr++; }
   *holes = hw - wr;
   *can = hx_buf_ok(&b1) && hx_buf_ok(&b2) && memcmp(S, &S0, sizeof *S) == 0;
   if (keep) memcpy(keep, o1, (size_t)hw * 2);
   free(inx); hx_buf_free(&b1); hx_buf_free(&b2);
   return hw;
}

/* the same call on exactly-sized heap blocks (caller's contract: len/Fs_in_kHz ms -> that many ms of output) */
static void exact_call(const silk_resampler_state_struct *S, const opus_int16 *in, int len) {
   silk_resampler_state_struct T = *S;
   int ms = len / S->Fs_in_kHz;
   opus_int16 *inx = (opus_int16 *)hx_exact((const unsigned char *)in, (size_t)len * 2);
   opus_int16 *o = (opus_int16 *)malloc((size_t)ms * S->Fs_out_kHz * 2);
   silk_resampler(&T, o, inx, len);
   free(o); free(inx);
}

static void do_init(int fi, int fo, int enc) {
   silk_resampler_state_struct *A = (silk_resampler_state_struct *)calloc(1, sizeof *A);
   silk_resampler_state_struct *B = (silk_resampler_state_struct *)malloc(sizeof *B);
   int ra, rb, status = 0; pid_t pid;
   memset(B, 0xA5, sizeof *B);
   /* a rejected pair is celt_assert( 0 ) (abort) in assertion / hardening builds and -1 otherwise: try it in a child first */
   fflush(stdout);
   pid = fork();
   if (pid == 0) { int fd = open("/dev/null", O_WRONLY); if (fd >= 0) dup2(fd, 2); _exit(silk_resampler_init(B, fi, fo, enc) == 0 ? 0 : 1); }
   if (pid < 0 || waitpid(pid, &status, 0) != pid) { fprintf(stderr, "fork failed\n"); exit(3); }
   if (!(WIFEXITED(status) && WEXITSTATUS(status) == 0)) {
      js_open("init"); js_int("x", g_x); js_int("fi", fi); js_int("fo", fo); js_int("enc", enc); js_int("r", -1); js_int("r2", -1);
      js_int("aborted", !WIFEXITED(status) || WEXITSTATUS(status) != 1); js_state("st", A); js_int("same", 1); js_close();
      free(A); free(B); return;
   }
   ra = silk_resampler_init(A, fi, fo, enc);
   rb = silk_resampler_init(B, fi, fo, enc);
   js_open("init"); js_int("x", g_x); js_int("fi", fi); js_int("fo", fo); js_int("enc", enc); js_int("r", ra); js_int("r2", rb);
   js_state("st", A);
   js_int("same", memcmp(A, B, sizeof *A) == 0);
   js_close();
   free(A); free(B);
}

static void do_seq(int fi, int fo, int enc, unsigned long seed, const int *lens, int n) {
   silk_resampler_state_struct S; hx_rng r; int i, hws[64], holes[64], cans[64], rets[64];
   r.s = seed;
   if (silk_resampler_init(&S, fi, fo, enc) != 0) { js_open("seq"); js_int("x", g_x); js_int("r", -1); js_close(); return; }
   for (i = 0; i < n && i < 64; i++) {
      int len = lens[i], cap = len * 6 + 128;
      opus_int16 *in = (opus_int16 *)malloc((size_t)len * 2);
      fill_sig(in, len, &r);
      if (g_exact && len % S.Fs_in_kHz == 0) exact_call(&S, in, len);
      hws[i] = guarded_call(&S, in, len, cap, NULL, &holes[i], &cans[i], &rets[i]);
      free(in);
   }
   js_open("seq"); js_int("x", g_x); js_int("fi", fi); js_int("fo", fo); js_int("enc", enc); js_int("r", 0);
   js_arr_i("lens", lens, n); js_arr_i("hw", hws, n); js_arr_i("holes", holes, n); js_arr_i("can", cans, n); js_arr_i("ret", rets, n);
   js_state("st", &S);
   js_close();
}

/* run a stream of total ms in the given chunking on signal x; out must hold total*Fs_out_kHz + slack; returns outputs */
static int run_chunks(silk_resampler_state_struct *S, const opus_int16 *x, const int *ch, int n, opus_int16 *out, int cap) {
   int i, pos = 0, op = 0;
   for (i = 0; i < n; i++) {
      int len = ch[i] * S->Fs_in_kHz, holes, can, ret, hw;
      if (g_exact) exact_call(S, x + pos, len);
      hw = guarded_call(S, x + pos, len, len * 6 + 128, op + len * 6 + 128 <= cap ? out + op : NULL, &holes, &can, &ret);
      if (!can || ret) return -1 - i;      /* holes stay in: unwritten cells keep the sentinel, so they show in the digest */
      pos += len; op += hw;
   }
   return op;
}

static int sum_i(const int *a, int n) { int i, s = 0; for (i = 0; i < n; i++) s += a[i]; return s; }

static void do_chunk(int fi, int fo, int enc, unsigned long seed, const int *a, int na, const int *b, int nb) {
   silk_resampler_state_struct S; hx_rng r; int ms = sum_i(a, na), n = ms * (fi / 1000), cap = ms * 48 * 8 + 4096, oa, ob;
   opus_int16 *x = (opus_int16 *)malloc((size_t)n * 2 + 2), *o1 = (opus_int16 *)calloc((size_t)cap, 2), *o2 = (opus_int16 *)calloc((size_t)cap, 2);
   r.s = seed; fill_sig(x, n, &r);
   silk_resampler_init(&S, fi, fo, enc); oa = run_chunks(&S, x, a, na, o1, cap);
   silk_resampler_init(&S, fi, fo, enc); ob = run_chunks(&S, x, b, nb, o2, cap);
   js_open("chunk"); js_int("x", g_x); js_int("fi", fi); js_int("fo", fo); js_int("enc", enc); js_int("ms", ms); js_int("msb", sum_i(b, nb));
   js_arr_i("ca", a, na); js_arr_i("cb", b, nb); js_int("na", oa); js_int("nb", ob);
   js_dig("da", o1, oa > 0 ? (size_t)oa * 2 : 0); js_dig("db", o2, ob > 0 ? (size_t)ob * 2 : 0);
   js_close();
   free(x); free(o1); free(o2);
}

static void do_mem(int fi, int fo, int enc, unsigned long seed, int at, const int *ks, int nk) {
   silk_resampler_state_struct *F = (silk_resampler_state_struct *)calloc(1, sizeof *F), *Dt = (silk_resampler_state_struct *)malloc(sizeof *Dt), Cl;
   hx_rng r; int ms = sum_i(ks, nk), n = ms * (fi / 1000), cap = ms * 48 * 8 + 4096, i, pos = 0, of = 0, od = 0, oc = 0, cloned = 0;
   opus_int16 *x = (opus_int16 *)malloc((size_t)n * 2 + 2), *o1 = (opus_int16 *)calloc((size_t)cap, 2), *o2 = (opus_int16 *)calloc((size_t)cap, 2), *o3 = (opus_int16 *)calloc((size_t)cap, 2);
   opus_int16 junk_in[48 * 20], junk_out[48 * 20 * 6];
   r.s = seed; fill_sig(x, n, &r);
   /* dirty: poisoned bytes, then used at another rate pair, then re-initialised */
   memset(Dt, 0xC3, sizeof *Dt);
   if (silk_resampler_init(Dt, enc ? 48000 : 16000, enc ? 8000 : 24000, enc) == 0) {
      fill_sig(junk_in, 48 * 20, &r); silk_resampler(Dt, junk_out, junk_in, (enc ? 48 : 16) * 20);
   }
   silk_resampler_init(Dt, fi, fo, enc);
   silk_resampler_init(F, fi, fo, enc);
   memset(&Cl, 0, sizeof Cl);
   for (i = 0; i < nk; i++) {
      int len = ks[i] * (fi / 1000), h, c, rt;
      if (i == at) { memcpy(&Cl, F, sizeof Cl); cloned = 1; memcpy(o3, o1, (size_t)of * 2); oc = of; }
      of += guarded_call(F, x + pos, len, len * 6 + 128, o1 + of, &h, &c, &rt);
      od += guarded_call(Dt, x + pos, len, len * 6 + 128, o2 + od, &h, &c, &rt);
      if (cloned) oc += guarded_call(&Cl, x + pos, len, len * 6 + 128, o3 + oc, &h, &c, &rt);
      pos += len;
   }
   js_open("mem"); js_int("x", g_x); js_int("fi", fi); js_int("fo", fo); js_int("enc", enc); js_int("ms", ms); js_int("at", at); js_int("cloned", cloned);
   js_int("nf", of); js_int("nd", od); js_int("nc", oc);
   js_dig("df", o1, (size_t)of * 2); js_dig("dd", o2, (size_t)od * 2); js_dig("dc", o3, (size_t)oc * 2);
   js_int("sd", memcmp(F, Dt, sizeof *F) == 0); js_int("sc", cloned ? memcmp(F, &Cl, sizeof *F) == 0 : 1);
   js_close();
   free(F); free(Dt); free(x); free(o1); free(o2); free(o3);
}

static void do_imp(int fi, int fo, int enc, int ms, int chunk, int at) {
   silk_resampler_state_struct S; int n = ms * (fi / 1000), cap = ms * 48 * 8 + 4096, ch[128], nc = 0, left = ms, on, i, first = -1, last = -1, peak = -1, pv = 0;
   opus_int16 *x = (opus_int16 *)calloc((size_t)n + 1, 2), *o = (opus_int16 *)calloc((size_t)cap, 2);
   if (at >= 0 && at < n) x[at] = 24000;
   while (left > 0 && nc < 128) { ch[nc] = left < chunk ? left : chunk; left -= ch[nc]; nc++; }
   silk_resampler_init(&S, fi, fo, enc);
   on = run_chunks(&S, x, ch, nc, o, cap);
   for (i = 0; i < on; i++) if (o[i]) { int v = abs(o[i]); if (first < 0) first = i; last = i; if (v > pv) { pv = v; peak = i; } }
   js_open("imp"); js_int("x", g_x); js_int("fi", fi); js_int("fo", fo); js_int("enc", enc); js_int("ms", ms); js_int("chunk", chunk); js_int("i", at);
   js_int("n", on); js_int("first", first); js_int("last", last); js_int("peak", peak); js_int("pv", pv);
   js_close();
   free(x); free(o);
}

/* ---- in situ ---- */
typedef struct { int celt_dec_offset; int silk_dec_offset; int channels; opus_int32 Fs; } dec_mirror;
typedef struct { int celt_enc_offset; int silk_enc_offset; } enc_mirror;

static const silk_resampler_state_struct *dec_rs(OpusDecoder *d, int dapi, int dch, int ch) {
   const dec_mirror *m = (const dec_mirror *)d; opus_int sz = 0;
   silk_Get_Decoder_Size(&sz);
   if (m->channels != dch || m->Fs != dapi || m->silk_dec_offset < (int)sizeof(dec_mirror) || m->celt_dec_offset < m->silk_dec_offset + sz
       || m->celt_dec_offset > m->silk_dec_offset + sz + 16 || opus_decoder_get_size(dch) < m->celt_dec_offset) {
      fprintf(stderr, "decoder mirror check failed\n"); exit(3);
   }
   return &((const silk_decoder_state *)((const char *)d + m->silk_dec_offset))[ch].resampler_state;
}

static void sig_f(float *pcm, int n, int ch, hx_rng *r, double *ph) {
   int i, c;
   for (i = 0; i < n; i++) { *ph += 0.05; for (c = 0; c < ch; c++) pcm[i * ch + c] = (float)(0.25 * sin(*ph * (1 + c * 0.3)) + 0.1 * sin(*ph * 7.3) + 0.02 * (hx_unit(r) - 0.5)); }
}

static void do_dec(int api, int ch, unsigned long seed, int mode, int bw, int fms, int dapi, int dch) {
   int err = 0, i, fs = api * fms / 1000; hx_rng r; double ph = 0;
   OpusEncoder *e = opus_encoder_create(api, ch, OPUS_APPLICATION_VOIP, &err);
   OpusDecoder *d = opus_decoder_create(dapi, dch, &err);
   float *pcm = (float *)malloc(sizeof(float) * (size_t)fs * ch);
   unsigned char pkt[1500];
   r.s = seed;
   opus_encoder_ctl(e, OPUS_SET_FORCE_MODE(mode)); opus_encoder_ctl(e, OPUS_SET_BANDWIDTH(bw)); opus_encoder_ctl(e, OPUS_SET_BITRATE(24000 + 8000 * ch));
   for (i = 0; i < 4; i++) {
      int len, ret, cap = dapi * 120 / 1000, lpd = 0; hx_buf ob; const silk_resampler_state_struct *rs;
      sig_f(pcm, fs, ch, &r, &ph);
      len = opus_encode_float(e, pcm, fs, pkt, 1500);
      if (len < 1) { js_open("dec"); js_int("x", g_x); js_int("len", len); js_int("toc", -1); js_close(); break; }
      ob = hx_buf_new((size_t)cap * dch * 2, 0x11);
      { unsigned char *px = hx_exact(pkt, (size_t)len); hx_arm(20); ret = opus_decode(d, px, len, (opus_int16 *)ob.p, cap, 0); hx_disarm(); free(px); }
      opus_decoder_ctl(d, OPUS_GET_LAST_PACKET_DURATION(&lpd));
      rs = dec_rs(d, dapi, dch, 0);
      js_open("dec"); js_int("x", g_x); js_int("api", api); js_int("ch", ch); js_int("fms", fms); js_int("dapi", dapi); js_int("dch", dch);
      js_int("len", len); js_int("toc", pkt[0]); js_int("cnt", len > 1 ? pkt[1] : 0); js_int("ret", ret); js_int("lpd", lpd); js_int("can", hx_buf_ok(&ob));
      js_state("st", rs);
      if (dch == 2) js_state("st1", dec_rs(d, dapi, dch, 1));
      js_close();
      hx_buf_free(&ob);
   }
   free(pcm); opus_encoder_destroy(e); opus_decoder_destroy(d);
}

/* in situ, sample values: the same SILK-only packets decoded at dapi (decoder A) and at the internal rate announced by the
   TOC (decoder B: the copy path, a pure delay); B's output pushed through the REAL silk_resampler (fresh init, internal -> dapi,
   decoder tables) must be A's output delayed by a whole number of samples; the shifts 0..255 for which the two agree
   bit-exactly over the whole run are recorded per channel (TLC judges which shift the model predicts) */
static void do_insitu(int api, int ch, unsigned long seed, int bw, int fms, int dapi) {
   int err = 0, i, c, fs = api * fms / 1000, intfs = 0, na = 0, nb = 0, toc0 = -1, tocsame = 1, shs[2][8], nsh[2] = {0, 0}, nz = 0; hx_rng r; double ph = 0;
   OpusEncoder *e = opus_encoder_create(api, ch, OPUS_APPLICATION_VOIP, &err);
   OpusDecoder *A = opus_decoder_create(dapi, ch, &err), *B = NULL;
   float *pcm = (float *)malloc(sizeof(float) * (size_t)fs * ch);
   opus_int16 *oa = (opus_int16 *)calloc((size_t)48 * 60 * 8 * 2 + 16, 2), *ob = (opus_int16 *)calloc((size_t)48 * 60 * 8 * 2 + 16, 2);
   opus_int16 *rb = (opus_int16 *)calloc((size_t)48 * 60 * 8 + 4096, 2), *tmp = (opus_int16 *)calloc((size_t)48 * 60 * 8 + 16, 2);
   unsigned char pkt[1500];
   r.s = seed;
   opus_encoder_ctl(e, OPUS_SET_FORCE_MODE(1000)); opus_encoder_ctl(e, OPUS_SET_BANDWIDTH(bw)); opus_encoder_ctl(e, OPUS_SET_BITRATE(20000 + 12000 * ch));
   for (i = 0; i < 8; i++) {
      int len, ra, rbk;
      sig_f(pcm, fs, ch, &r, &ph);
      len = opus_encode_float(e, pcm, fs, pkt, 1500);
      if (len < 1) break;
      if (toc0 < 0) {
         int cfg = pkt[0] >> 3; toc0 = pkt[0];
         intfs = cfg < 4 ? 8000 : cfg < 8 ? 12000 : 16000;
         B = opus_decoder_create(intfs, ch, &err);
      }
      if ((pkt[0] >> 3) != (toc0 >> 3) || (pkt[0] >> 3) >= 12) tocsame = 0;
      ra = opus_decode(A, pkt, len, oa + (size_t)na * ch, dapi * 120 / 1000, 0);
      rbk = opus_decode(B, pkt, len, ob + (size_t)nb * ch, intfs * 120 / 1000, 0);
      if (ra < 0 || rbk < 0) { tocsame = 0; break; }
      na += ra; nb += rbk;
   }
   for (c = 0; c < ch && B; c++) {
      silk_resampler_state_struct S; int pos = 0, op = 0, sh, k, frame = intfs / 1000 * (c ? 7 : 20);
      if (silk_resampler_init(&S, intfs, dapi, 0) != 0) break;
      for (k = 0; k < nb; k++) { tmp[k] = ob[(size_t)k * ch + c]; if (tmp[k]) nz++; }
      while (pos < nb) {            /* channel 0 in 20 ms calls, channel 1 in 7 ms calls (chunking invariance in passing) */
         int len = nb - pos < frame ? nb - pos : frame;
         silk_resampler(&S, rb + op, tmp + pos, len);
         pos += len; op += len / (intfs / 1000) * (dapi / 1000);
      }
      for (sh = 0; sh < 256 && nsh[c] < 8; sh++) {
         int ok = op == na && na > sh;
         for (k = sh; ok && k < na; k++) if (rb[k] != oa[(size_t)(k - sh) * ch + c]) ok = 0;
         for (k = 0; ok && k < sh; k++) if (rb[k] != 0) ok = 0;
         if (ok) shs[c][nsh[c]++] = sh;
      }
   }
   js_open("insitu"); js_int("x", g_x); js_int("api", api); js_int("ch", ch); js_int("dapi", dapi); js_int("fms", fms); js_int("toc", toc0); js_int("tocsame", tocsame);
   js_int("intfs", intfs); js_int("na", na); js_int("nb", nb); js_int("nz", nz);
   js_arr_i("sh0", shs[0], nsh[0]); js_arr_i("sh1", shs[1], ch == 2 ? nsh[1] : 0);
   js_close();
   free(pcm); free(oa); free(ob); free(rb); free(tmp); opus_encoder_destroy(e); opus_decoder_destroy(A); if (B) opus_decoder_destroy(B);
}

static void do_enc(int api, int ch, unsigned long seed) {
   /* phases: {mode, bandwidth, max_data_bytes}: a small byte budget lowers maxInternalSampleRate (immediate clamp 16 -> 12 -> 8),
      hybrid raises minInternalSampleRate to 16 kHz (immediate clamp up); each real rate change runs silk_setup_resamplers' re-buffering */
   static const int phs[][3] = { {1000, 1103, 1500}, {1000, 1103, 19}, {1000, 1103, 17}, {1001, 1104, 1500}, {1000, 1102, 1500}, {1000, 1103, 17},
                                 {1000, 1103, 1500}, {1001, 1105, 1500}, {1000, 1103, 19}, {1000, 1101, 1500} };
   int err = 0, i, k, fs = api / 50; hx_rng r; double ph = 0;
   OpusEncoder *e = opus_encoder_create(api, ch, OPUS_APPLICATION_VOIP, &err);
   const enc_mirror *m = (const enc_mirror *)e; opus_int ssz = 0;
   float *pcm = (float *)malloc(sizeof(float) * (size_t)fs * ch);
   unsigned char pkt[1500];
   r.s = seed;
   silk_Get_Encoder_Size(&ssz);
   if (m->silk_enc_offset < (int)sizeof(enc_mirror) || m->celt_enc_offset < m->silk_enc_offset + ssz || m->celt_enc_offset > m->silk_enc_offset + ssz + 16
       || opus_encoder_get_size(ch) < m->celt_enc_offset) { fprintf(stderr, "encoder mirror check failed\n"); exit(3); }
   opus_encoder_ctl(e, OPUS_SET_FORCE_MODE(1000)); opus_encoder_ctl(e, OPUS_SET_BITRATE(20000 + 10000 * ch));
   for (k = 0; k < 10; k++) {
      const int *phz = phs[(k + (int)(seed % 3)) % 10];
      opus_encoder_ctl(e, OPUS_SET_FORCE_MODE(phz[0])); opus_encoder_ctl(e, OPUS_SET_BANDWIDTH(phz[1]));
      for (i = 0; i < 3; i++) {
         const silk_encoder *se = (const silk_encoder *)((const char *)e + m->silk_enc_offset); int len;
         sig_f(pcm, fs, ch, &r, &ph);
         len = opus_encode_float(e, pcm, fs, pkt, phz[2]);
         js_open("enc"); js_int("x", g_x); js_int("api", api); js_int("ch", ch); js_int("len", len); js_int("toc", len > 0 ? pkt[0] : -1); js_int("cap", phz[2]);
         js_int("fsk", se->state_Fxx[0].sCmn.fs_kHz); js_int("apif", se->state_Fxx[0].sCmn.API_fs_Hz);
         js_state("st", &se->state_Fxx[0].sCmn.resampler_state);
         if (ch == 2) { js_int("fsk1", se->state_Fxx[1].sCmn.fs_kHz); js_state("st1", &se->state_Fxx[1].sCmn.resampler_state); }
         js_close();
      }
   }
   free(pcm); opus_encoder_destroy(e);
}

int main(int argc, char **argv) {
   static char line[1 << 16];
   g_exact = argc > 1 && strcmp(argv[1], "exact") == 0;
   hx_watchdog_init();
   setvbuf(stdout, NULL, _IOFBF, 1 << 16);
   while (fgets(line, sizeof line, stdin)) {
      int v[600], n = 0, bar = -1; char *p = line + 1, *end;
      g_x++;
      if (line[0] == '#' || line[0] == '\n') continue;
      while (*p && n < 600) {
         while (*p == ' ') p++;
         if (*p == '|') { bar = n; p++; continue; }
         if (*p == '\n' || !*p) break;
         v[n] = (int)strtol(p, &end, 10);
         if (end == p) break;
         p = end; n++;
      }
      switch (line[0]) {
      case 'I': if (n >= 3) do_init(v[0], v[1], v[2]); break;
      case 'S': if (n >= 5) do_seq(v[0], v[1], v[2], (unsigned long)v[3], v + 4, n - 4 > 64 ? 64 : n - 4); break;
      case 'C': if (n >= 6 && bar > 4) do_chunk(v[0], v[1], v[2], (unsigned long)v[3], v + 4, bar - 4, v + bar, n - bar); break;
      case 'M': if (n >= 6) do_mem(v[0], v[1], v[2], (unsigned long)v[3], v[4], v + 5, n - 5); break;
      case 'P': if (n >= 6) do_imp(v[0], v[1], v[2], v[3], v[4], v[5]); break;
      case 'D': if (n >= 8) do_dec(v[0], v[1], (unsigned long)v[2], v[3], v[4], v[5], v[6], v[7]); break;
      case 'V': if (n >= 6) do_insitu(v[0], v[1], (unsigned long)v[2], v[3], v[4], v[5]); break;
      case 'E': if (n >= 3) do_enc(v[0], v[1], (unsigned long)v[2]); break;
      default: break;
      }
      fflush(stdout);
   }
   return 0;
}
