/* hx_silk: drives the SILK side-information dequantisers of the real library and records what
   they return (module SilkParams, property C18).  Nothing is judged here: every event carries
   the inputs and the raw outputs / integer measurements; spec/SilkTrace.tla decides.

   hx_silk tables                       one JSON line with every table the model needs, read
                                        from the linked library (never from the source text)
   hx_silk gains  <seed> <nchains>      silk_gains_dequant: all 64x(64+41) single steps, then chains
   hx_silk gquant <seed> <nrandom>      silk_gains_quant over a raw-gain grid, then silk_gains_dequant
   hx_silk pitch                        silk_decode_pitch over the whole index domain
   hx_silk nlsf   <seed> <nrand> <full> silk_NLSF_decode (+NLSF2A, inverse prediction gain measured)
   hx_silk stab   <seed> <n>            silk_NLSF_stabilize on synthetic vectors (reference model only)
   hx_silk nlsfenc <seed> <n>           silk_NLSF_encode on synthetic vectors, then silk_NLSF_decode on the emitted indices
   hx_silk pitchenc <seed> <n>          silk_pitch_analysis_core_FLP on synthetic voiced frames (float builds): its lags vs its indices
   hx_silk codec  <seed> <ngrid> <nrandom> <npk>  whole codec, SILK-only: opus_encode -> opus_decode, then the side
                                        information both sides hold for the last frame of the packet (float builds)
   hx_silk indices <seed> <npackets>    silk_decode_indices on random range-coder input (then silk_decode_parameters on the result)
   hx_silk dparams <seed> <npackets>    silk_decode_parameters on a decoder state, chained frames
   hx_silk replay                       re-executes the events given on stdin (inputs only are used) */
#include "hx_common.h"
#include <sys/wait.h>
#include "main.h"
#include "SigProc_FIX.h"
#include "pitch_est_defines.h"
#include "tables.h"
#include "entdec.h"
#ifndef FIXED_POINT
#include "SigProc_FLP.h"
#include "structs_FLP.h"
#include "opus.h"
#include "opus_private.h"
#include <math.h>
#endif

/* ------------------------------------------------------------------------------------------ */
/* tables */

static void p_arr_u8(const char *key, const opus_uint8 *a, int n) {
   int i; printf("\"%s\":[", key); for (i = 0; i < n; i++) printf(i ? ",%d" : "%d", a[i]); printf("]");
}
static void p_arr_i8_2d(const char *key, const opus_int8 *a, int rows, int cols) {
   int r, c; printf("\"%s\":[", key);
   for (r = 0; r < rows; r++) { printf(r ? ",[" : "["); for (c = 0; c < cols; c++) printf(c ? ",%d" : "%d", a[r * cols + c]); printf("]"); }
   printf("]");
}
static void p_arr_i16(const char *key, const opus_int16 *a, int n) {
   int i; printf("\"%s\":[", key); for (i = 0; i < n; i++) printf(i ? ",%d" : "%d", a[i]); printf("]");
}
static void p_cb(const silk_NLSF_CB_struct *cb) {
   int nv = cb->nVectors, o = cb->order;
   printf("{\"nv\":%d,\"order\":%d,\"qstep\":%d,\"invq\":%d,", nv, o, cb->quantStepSize_Q16, cb->invQuantStepSize_Q6);
   p_arr_u8("cb1", cb->CB1_NLSF_Q8, nv * o); printf(",");
   p_arr_i16("w", cb->CB1_Wght_Q9, nv * o); printf(",");
   p_arr_u8("icdf1", cb->CB1_iCDF, 2 * nv); printf(",");
   p_arr_u8("pred", cb->pred_Q8, 2 * (o - 1)); printf(",");
   p_arr_u8("sel", cb->ec_sel, nv * o / 2); printf(",");
   p_arr_u8("ecicdf", cb->ec_iCDF, 8 * (2 * NLSF_QUANT_MAX_AMPLITUDE + 1)); printf(",");
   p_arr_i16("dmin", cb->deltaMin_Q15, o + 1);
   printf("}");
}
static void cmd_tables(void) {
   printf("{\"k\":\"tables\",");
   printf("\"gain\":{\"nlev\":%d,\"mindb\":%d,\"maxdb\":%d,\"mind\":%d,\"maxd\":%d},",
          N_LEVELS_QGAIN, MIN_QGAIN_DB, MAX_QGAIN_DB, MIN_DELTA_GAIN_QUANT, MAX_DELTA_GAIN_QUANT);
   printf("\"lag\":{\"minms\":%d,\"maxms\":%d,", PE_MIN_LAG_MS, PE_MAX_LAG_MS);
   p_arr_i8_2d("s2", &silk_CB_lags_stage2[0][0], PE_MAX_NB_SUBFR, PE_NB_CBKS_STAGE2_EXT); printf(",");
   p_arr_i8_2d("s2_10", &silk_CB_lags_stage2_10_ms[0][0], PE_MAX_NB_SUBFR >> 1, PE_NB_CBKS_STAGE2_10MS); printf(",");
   p_arr_i8_2d("s3", &silk_CB_lags_stage3[0][0], PE_MAX_NB_SUBFR, PE_NB_CBKS_STAGE3_MAX); printf(",");
   p_arr_i8_2d("s3_10", &silk_CB_lags_stage3_10_ms[0][0], PE_MAX_NB_SUBFR >> 1, PE_NB_CBKS_STAGE3_10MS);
   printf("},\"cb\":[");
   p_cb(&silk_NLSF_CB_NB_MB); printf(","); p_cb(&silk_NLSF_CB_WB);
   printf("],\"nlsf\":{\"maxamp\":%d,\"maxampext\":%d,\"adjq10\":%d},", NLSF_QUANT_MAX_AMPLITUDE, NLSF_QUANT_MAX_AMPLITUDE_EXT,
          (int)SILK_FIX_CONST(NLSF_QUANT_LEVEL_ADJ, 10));
   p_arr_i16("cos", silk_LSFCosTab_FIX_Q12, LSF_COS_TAB_SZ_FIX + 1);
   printf("}\n");
}

/* ------------------------------------------------------------------------------------------ */
/* executors: one recorded event per call */

/* Input domains.  The executors refuse inputs that no bitstream / decoder state can present (they return 0 and
   record nothing); this is validation of the *inputs* only, never of what the library returns. */
static int gain_idx_ok(int ind, int delta) { return ind >= 0 && ind <= (delta ? MAX_DELTA_GAIN_QUANT - MIN_DELTA_GAIN_QUANT : N_LEVELS_QGAIN - 1); }
static int gain_in_ok(int prev, int cond, int n, const int *ind) {
   int k;
   if (prev < 0 || prev >= N_LEVELS_QGAIN || (cond != 0 && cond != 1) || n < 1 || n > MAX_NB_SUBFR) return 0;
   for (k = 0; ind && k < n; k++) if (!gain_idx_ok(ind[k], k > 0 || cond)) return 0;
   return 1;
}

static int exec_gd(int prev, int cond, int n, const int *ind)
{
   opus_int8 i8[MAX_NB_SUBFR]; opus_int32 g[MAX_NB_SUBFR]; opus_int8 p = (opus_int8)prev; int k;
   if (!gain_in_ok(prev, cond, n, ind)) return 0;
   for (k = 0; k < MAX_NB_SUBFR; k++) { i8[k] = (opus_int8)(k < n ? ind[k] : 0); g[k] = -1; }
   silk_gains_dequant(g, i8, &p, cond, n);
   js_open("gd"); js_int("p", prev); js_int("c", cond); js_int("n", n); js_arr_i("i", ind, n);
   js_int("np", p); { int gi[MAX_NB_SUBFR]; for (k = 0; k < n; k++) gi[k] = g[k]; js_arr_i("g", gi, n); }
   js_close();
   return 1;
}

static int exec_gq(int prev, int cond, int n, const int *x)
{
   opus_int8 i8[MAX_NB_SUBFR]; opus_int32 g[MAX_NB_SUBFR], dg[MAX_NB_SUBFR]; opus_int8 p = (opus_int8)prev, dp = (opus_int8)prev;
   int k, io[MAX_NB_SUBFR], go[MAX_NB_SUBFR], dgo[MAX_NB_SUBFR];
   if (!gain_in_ok(prev, cond, n, NULL)) return 0;
   for (k = 0; k < n; k++) if (x[k] < 1) return 0;
   for (k = 0; k < MAX_NB_SUBFR; k++) { i8[k] = 0; g[k] = k < n ? x[k] : 0; dg[k] = -1; }
   silk_gains_quant(i8, g, &p, cond, n);
   /* what a decoder holding the same previous index reconstructs from the emitted indices */
   silk_gains_dequant(dg, i8, &dp, cond, n);
   for (k = 0; k < n; k++) { io[k] = i8[k]; go[k] = g[k]; dgo[k] = dg[k]; }
   js_open("gq"); js_int("p", prev); js_int("c", cond); js_int("n", n); js_arr_i("x", x, n);
   js_arr_i("i", io, n); js_int("np", p); js_arr_i("g", go, n); js_int("dp", dp); js_arr_i("dg", dgo, n);
   js_close();
   return 1;
}

static int n_contours(int fs, int nb)
{
   if (fs == 8) return nb == 4 ? PE_NB_CBKS_STAGE2_EXT : PE_NB_CBKS_STAGE2_10MS;
   return nb == 4 ? PE_NB_CBKS_STAGE3_MAX : PE_NB_CBKS_STAGE3_10MS;
}

static int exec_pl(int li, int ci, int fs, int nb)
{
   opus_int lags[MAX_NB_SUBFR + 2]; int k, lo[MAX_NB_SUBFR];
   if ((fs != 8 && fs != 12 && fs != 16) || (nb != 2 && nb != 4) || ci < 0 || ci >= n_contours(fs, nb) || li < -32768 || li > 32767) return 0;
   for (k = 0; k < MAX_NB_SUBFR + 2; k++) lags[k] = -777;
   silk_decode_pitch((opus_int16)li, (opus_int8)ci, lags, fs, nb);
   for (k = 0; k < nb; k++) lo[k] = lags[k];
   js_open("pl"); js_int("li", li); js_int("ci", ci); js_int("fs", fs); js_int("n", nb); js_arr_i("l", lo, nb);
   js_int("ov", lags[nb] != -777 || lags[nb + 1] != -777);      /* wrote past nb entries */
   js_close();
   return 1;
}

static const silk_NLSF_CB_struct *cb_of(int cb) { return cb ? &silk_NLSF_CB_WB : &silk_NLSF_CB_NB_MB; }

static int nlsf_idx_ok(int cb, const int *ix) {
   const silk_NLSF_CB_struct *c; int k;
   if (cb != 0 && cb != 1) return 0;
   c = cb_of(cb);
   if (ix[0] < 0 || ix[0] >= c->nVectors) return 0;
   for (k = 1; k <= c->order; k++) if (ix[k] < -NLSF_QUANT_MAX_AMPLITUDE_EXT || ix[k] > NLSF_QUANT_MAX_AMPLITUDE_EXT) return 0;
   return 1;
}
/* is v a vector silk_NLSF_decode may have left behind (the reference for interpolation)? */
static int nlsf_vec_ok(int cb, const int *v) {
   const silk_NLSF_CB_struct *c = cb_of(cb); int k, o = c->order;
   if (v[0] < c->deltaMin_Q15[0] || v[o - 1] > 32768 - c->deltaMin_Q15[o]) return 0;
   for (k = 1; k < o; k++) if (v[k] - v[k - 1] < c->deltaMin_Q15[k] || v[k] <= v[k - 1]) return 0;
   return 1;
}

static int exec_nd(int cb, const int *ix)
{
   const silk_NLSF_CB_struct *c = cb_of(cb);
   int o = c->order, k, q[MAX_LPC_ORDER], a[MAX_LPC_ORDER], pr[MAX_LPC_ORDER], ec[MAX_LPC_ORDER];
   opus_int8 i8[MAX_LPC_ORDER + 1]; opus_int16 nlsf[MAX_LPC_ORDER], a_Q12[MAX_LPC_ORDER], ec_ix[MAX_LPC_ORDER];
   opus_uint8 pred_Q8[MAX_LPC_ORDER]; opus_int32 inv;
   if (!nlsf_idx_ok(cb, ix)) return 0;
   for (k = 0; k <= o; k++) i8[k] = (opus_int8)ix[k];
   silk_NLSF_unpack(ec_ix, pred_Q8, c, i8[0]);
   silk_NLSF_decode(nlsf, i8, c);
   silk_NLSF2A(a_Q12, nlsf, o, 0);
   inv = silk_LPC_inverse_pred_gain_c(a_Q12, o);                  /* measurement: stability as the library defines it */
   for (k = 0; k < o; k++) { q[k] = nlsf[k]; a[k] = a_Q12[k]; pr[k] = pred_Q8[k]; ec[k] = ec_ix[k]; }
   js_open("nd"); js_int("cb", cb); js_arr_i("ix", ix, o + 1); js_arr_i("pr", pr, o); js_arr_i("ec", ec, o);
   js_arr_i("q", q, o); js_arr_i("a", a, o); js_int("s", inv);
   js_close();
   return 1;
}

/* silk_NLSF_stabilize on an arbitrary vector with a codebook's minimum spacings */
static void exec_ns(int cb, const int *inp)
{
   const silk_NLSF_CB_struct *c = cb_of(cb); int o = c->order, k, out[MAX_LPC_ORDER]; opus_int16 v[MAX_LPC_ORDER];
   for (k = 0; k < o; k++) v[k] = (opus_int16)inp[k];
   silk_NLSF_stabilize(v, c->deltaMin_Q15, o);
   for (k = 0; k < o; k++) out[k] = v[k];
   js_open("ns"); js_int("cb", cb); js_arr_i("inp", inp, o); js_arr_i("out", out, o); js_close();
}

/* encoder side: silk_NLSF_encode (weights as the encoder computes them), then the decoder on what it emitted */
static int exec_ne(int cb, const int *inp, int mu, int surv, int st)
{
   const silk_NLSF_CB_struct *c; int o, k, ix[MAX_LPC_ORDER + 1], qe[MAX_LPC_ORDER], qd[MAX_LPC_ORDER];
   opus_int16 v[MAX_LPC_ORDER], w[MAX_LPC_ORDER], d[MAX_LPC_ORDER]; opus_int8 i8[MAX_LPC_ORDER + 1];
   if ((cb != 0 && cb != 1) || mu < 1 || mu > 32767 || surv < 1 || surv > 32 || st < 0 || st > 2) return 0;
   c = cb_of(cb); o = c->order;
   for (k = 0; k < o; k++) { if (inp[k] < 0 || inp[k] > 32767 || (k > 0 && inp[k] < inp[k - 1])) return 0; v[k] = (opus_int16)inp[k]; }
   memset(i8, 0x55, sizeof i8);
   silk_NLSF_VQ_weights_laroia(w, v, o);
   silk_NLSF_encode(i8, v, c, w, mu, surv, st);
   silk_NLSF_decode(d, i8, c);
   for (k = 0; k <= o; k++) ix[k] = i8[k];
   for (k = 0; k < o; k++) { qe[k] = v[k]; qd[k] = d[k]; }
   js_open("ne"); js_int("cb", cb); js_arr_i("inp", inp, o); js_int("mu", mu); js_int("sv", surv); js_int("st", st);
   js_arr_i("ix", ix, o + 1); js_arr_i("qe", qe, o); js_arr_i("qd", qd, o); js_close();
   return 1;
}

/* The rate-distortion sums of silk_NLSF_del_dec_quant are 32-bit and overflow for inputs outside what the encoder's own
   LPC analysis delivers (very close NLSFs -> maximal weights, survivors far away).  Whether an input is inside the
   arithmetic domain of the quantiser is decided by the library build itself: the call runs in a child process and an
   abort there (UBSan signed overflow / assertion) marks the input as out of domain ("ne_abort", no claim is made). */
static int exec_ne_guarded(int cb, const int *inp, int mu, int surv, int st)
{
   pid_t pid; int status = 0, o;
   if (cb != 0 && cb != 1) return 0;
   o = cb_of(cb)->order;
   fflush(stdout);
   pid = fork();
   if (pid < 0) return exec_ne(cb, inp, mu, surv, st);
   if (pid == 0) { int r = exec_ne(cb, inp, mu, surv, st); fflush(stdout); _exit(r ? 0 : 3); }
   if (waitpid(pid, &status, 0) < 0) return 0;
   if (WIFEXITED(status) && WEXITSTATUS(status) == 0) return 1;
   if (WIFEXITED(status) && WEXITSTATUS(status) == 3) return 0;
   js_open("ne_abort"); js_int("cb", cb); js_arr_i("inp", inp, o); js_int("mu", mu); js_int("sv", surv); js_int("st", st);
   js_int("status", WIFEXITED(status) ? WEXITSTATUS(status) : 128 + WTERMSIG(status)); js_close();
   return 1;
}

#ifndef FIXED_POINT
/* encoder side: the pitch analyser returns both the lags it will use and the indices it will send.
   The frame is synthesised here from (seed, period, drift, noise): a harmonic-rich pulse train whose period drifts. */
static int exec_pa(int fs, int nb, int cx, int plag, int per_q4, int drift_q4, int noise, unsigned seed)
{
   static silk_float frame[(PE_LTP_MEM_LENGTH_MS + PE_MAX_NB_SUBFR * PE_SUBFR_LENGTH_MS) * PE_MAX_FS_KHZ];
   int n, len, k, po[MAX_NB_SUBFR], ret; opus_int pitch_out[MAX_NB_SUBFR + 1]; opus_int16 li = -999; opus_int8 ci = -99; silk_float corr = 0.0f;
   hx_rng r; double phase = 0.0, per;
   if ((fs != 8 && fs != 12 && fs != 16) || (nb != 2 && nb != 4) || cx < 0 || cx > 2 || per_q4 < 16 * 2 || per_q4 > 16 * 400 || noise < 0 || noise > 30000) return 0;
   if (plag < 0 || plag > 18 * fs || drift_q4 < -400 || drift_q4 > 400) return 0;
   len = (PE_LTP_MEM_LENGTH_MS + nb * PE_SUBFR_LENGTH_MS) * fs;
   r.s = seed;
   for (n = 0; n < len; n++) {
      double s;
      per = (per_q4 + (double)drift_q4 * n / len) / 16.0; if (per < 2.0) per = 2.0;
      phase += 1.0 / per; if (phase >= 1.0) phase -= 1.0;
      s = 6000.0 * (1.0 - 2.0 * phase) + (phase < 0.08 ? 9000.0 : 0.0);            /* sawtooth plus a pulse */
      s += noise * (hx_unit(&r) - 0.5) * 2.0;
      frame[n] = (silk_float)(int)s;
   }
   for (k = 0; k <= MAX_NB_SUBFR; k++) pitch_out[k] = -777;
   ret = silk_pitch_analysis_core_FLP(frame, pitch_out, &li, &ci, &corr, plag, 0.7f, 0.3f, fs, cx, nb, 0);
   for (k = 0; k < nb; k++) po[k] = pitch_out[k];
   js_open("pa"); js_int("fs", fs); js_int("n", nb); js_int("cx", cx); js_int("plag", plag); js_int("per", per_q4); js_int("dr", drift_q4);
   js_int("nz", noise); js_int("seed", (long)seed); js_int("v", ret == 0); js_arr_i("po", po, nb); js_int("li", li); js_int("ci", ci);
   js_close();
   return 1;
}
#endif

/* silk_decode_parameters on a decoder state set up exactly as silk_decoder_set_fs leaves it, with the
   inter-frame references and the indices written directly (what silk_decode_indices would have stored) */
typedef struct {
   int fs, nb, cc, lg, gi[MAX_NB_SUBFR], ix[MAX_LPC_ORDER + 1], ip, ffr, pn[MAX_LPC_ORDER], loss, st, li, ci;
} dp_in;

static silk_decoder_state g_dec; static int g_dec_fs = 0, g_dec_nb = 0;
static void ensure_dec(int fs, int nb);

static int exec_dp(const dp_in *in, int *out_q, int *out_lg)
{
   silk_decoder_control ctrl; int k, o, g[MAX_NB_SUBFR], q[MAX_LPC_ORDER], pl[MAX_NB_SUBFR], a0[MAX_LPC_ORDER], a1[MAX_LPC_ORDER];
   opus_int32 s0, s1;
   if ((in->fs != 8 && in->fs != 12 && in->fs != 16) || (in->nb != 2 && in->nb != 4) || in->cc < 0 || in->cc > 2) return 0;
   if (!gain_in_ok(in->lg, in->cc == CODE_CONDITIONALLY, in->nb, in->gi) || !nlsf_idx_ok(in->fs == 16, in->ix)) return 0;
   if (in->ip < 0 || in->ip > 4 || (in->nb == 2 && in->ip != 4) || (in->ffr != 0 && in->ffr != 1) || in->st < 0 || in->st > 2) return 0;
   if (!in->ffr && !nlsf_vec_ok(in->fs == 16, in->pn)) return 0;
   if (in->st == TYPE_VOICED && (in->ci < 0 || in->ci >= n_contours(in->fs, in->nb) || in->li < -32768 || in->li > 32767)) return 0;
   ensure_dec(in->fs, in->nb);
   o = g_dec.LPC_order;
   memset(&g_dec.indices, 0, sizeof g_dec.indices);
   memset(&ctrl, 0x55, sizeof ctrl);
   g_dec.LastGainIndex = (opus_int8)in->lg;
   for (k = 0; k < in->nb; k++) g_dec.indices.GainsIndices[k] = (opus_int8)in->gi[k];
   for (k = 0; k <= o; k++) g_dec.indices.NLSFIndices[k] = (opus_int8)in->ix[k];
   g_dec.indices.NLSFInterpCoef_Q2 = (opus_int8)in->ip;
   g_dec.first_frame_after_reset = in->ffr;
   for (k = 0; k < o; k++) g_dec.prevNLSF_Q15[k] = (opus_int16)in->pn[k];
   g_dec.lossCnt = in->loss;
   g_dec.indices.signalType = (opus_int8)in->st;
   g_dec.indices.lagIndex = (opus_int16)in->li;
   g_dec.indices.contourIndex = (opus_int8)in->ci;
   silk_decode_parameters(&g_dec, &ctrl, in->cc);
   s0 = silk_LPC_inverse_pred_gain_c(ctrl.PredCoef_Q12[0], o);
   s1 = silk_LPC_inverse_pred_gain_c(ctrl.PredCoef_Q12[1], o);
   for (k = 0; k < in->nb; k++) { g[k] = ctrl.Gains_Q16[k]; pl[k] = ctrl.pitchL[k]; }
   for (k = 0; k < o; k++) { q[k] = g_dec.prevNLSF_Q15[k]; a0[k] = ctrl.PredCoef_Q12[0][k]; a1[k] = ctrl.PredCoef_Q12[1][k]; }
   js_open("dp"); js_int("fs", in->fs); js_int("n", in->nb); js_int("cc", in->cc); js_int("lg", in->lg);
   js_arr_i("gi", in->gi, in->nb); js_int("cb", o == 16); js_arr_i("ix", in->ix, o + 1); js_int("ip", in->ip); js_int("ffr", in->ffr);
   js_arr_i("pn", in->pn, o); js_int("loss", in->loss); js_int("st", in->st); js_int("li", in->li); js_int("ci", in->ci);
   js_int("olg", g_dec.LastGainIndex); js_arr_i("g", g, in->nb); js_arr_i("q", q, o); js_arr_i("pl", pl, in->nb);
   js_arr_i("a0", a0, o); js_arr_i("a1", a1, o); js_int("s0", s0); js_int("s1", s1);
   js_close();
   if (out_q) for (k = 0; k < o; k++) out_q[k] = q[k];
   if (out_lg) *out_lg = g_dec.LastGainIndex;
   return 1;
}

static void ensure_dec(int fs, int nb)
{
   if (g_dec_fs != fs || g_dec_nb != nb) {
      silk_init_decoder(&g_dec);
      g_dec.nb_subfr = nb;
      silk_decoder_set_fs(&g_dec, fs, 48000);
      g_dec_fs = fs; g_dec_nb = nb;
   }
}

/* silk_decode_indices for frames 0..upto of one packet (range decoder over the given bytes, pulses are not decoded:
   any position of an arbitrary byte string is an arbitrary bitstream); records frame `only` (or all if only < 0).
   If chain != NULL the decoded indices are also run through silk_decode_parameters with the carried references. */
typedef struct { int prevq[MAX_LPC_ORDER], lg, ffr; } dp_chain;
static int exec_di(int fs, int nb, const unsigned char *buf, int len, int nframes, const int *ccs, const int *vads, int only, dp_chain *chain, int loss)
{
   ec_dec dec; int f, k, o, done = 0; unsigned char *b;
   if ((fs != 8 && fs != 12 && fs != 16) || (nb != 2 && nb != 4) || nframes < 1 || nframes > MAX_FRAMES_PER_PACKET || len < 1) return 0;
   for (f = 0; f < nframes; f++) if (ccs[f] < 0 || ccs[f] > 2 || (f == 0 && ccs[f] == CODE_CONDITIONALLY)) return 0;
   ensure_dec(fs, nb);
   o = g_dec.LPC_order;
   b = hx_exact(buf, len);
   ec_dec_init(&dec, b, len);
   g_dec.ec_prevSignalType = 0; g_dec.ec_prevLagIndex = 0;
   for (f = 0; f < nframes; f++) {
      int pli, pst, gi[MAX_NB_SUBFR], ix[MAX_LPC_ORDER + 1];
      g_dec.VAD_flags[f] = vads[f] != 0;
      memset(&g_dec.indices, 0, sizeof g_dec.indices);
      pli = g_dec.ec_prevLagIndex; pst = g_dec.ec_prevSignalType;
      silk_decode_indices(&g_dec, &dec, f, 0, ccs[f]);
      for (k = 0; k < nb; k++) gi[k] = g_dec.indices.GainsIndices[k];
      for (k = 0; k <= o; k++) ix[k] = g_dec.indices.NLSFIndices[k];
      if (only < 0 || only == f) {
         js_open("di"); js_int("fs", fs); js_int("n", nb); js_int("f", f); js_int("cc", ccs[f]); js_arr_i("ccs", ccs, nframes); js_arr_i("vads", vads, nframes);
         js_hex("hex", b, len); js_int("pli", pli); js_int("pst", pst);
         js_int("st", g_dec.indices.signalType); js_arr_i("gi", gi, nb); js_arr_i("ix", ix, o + 1); js_int("ip", g_dec.indices.NLSFInterpCoef_Q2);
         js_int("li", g_dec.indices.lagIndex); js_int("ci", g_dec.indices.contourIndex);
         js_int("oli", g_dec.ec_prevLagIndex); js_int("ost", g_dec.ec_prevSignalType); js_int("err", dec.error);
         js_close(); done++;
      }
      if (chain) {
         dp_in in; memset(&in, 0, sizeof in);
         in.fs = fs; in.nb = nb; in.cc = ccs[f]; in.lg = chain->lg; in.ffr = chain->ffr; in.loss = f == 0 ? loss : 0;
         for (k = 0; k < nb; k++) in.gi[k] = gi[k];
         for (k = 0; k <= o; k++) in.ix[k] = ix[k];
         in.ip = g_dec.indices.NLSFInterpCoef_Q2; in.st = g_dec.indices.signalType; in.li = g_dec.indices.lagIndex; in.ci = g_dec.indices.contourIndex;
         for (k = 0; k < o; k++) in.pn[k] = chain->prevq[k];
         {  /* exec_dp rewrites g_dec.indices; the entropy-decoding references live outside it */
            if (exec_dp(&in, chain->prevq, &chain->lg)) {
               chain->ffr = 0;
               if (chain->lg < 0 || chain->lg >= N_LEVELS_QGAIN) chain->lg = 10;
               if (!nlsf_vec_ok(o == 16, chain->prevq)) { chain->ffr = 1; memset(chain->prevq, 0, sizeof chain->prevq); }
            }
         }
      }
   }
   free(b);
   return done;
}

/* ------------------------------------------------------------------------------------------ */
/* generators */

static int rnd_delta(hx_rng *r) {
   /* delta gain index 0..40, edges more often */
   switch (hx_u(r, 6)) { case 0: return 0; case 1: return 40; case 2: return hx_range(r, 0, 8); case 3: return hx_range(r, 30, 40); default: return hx_range(r, 0, 40); }
}

static void cmd_gains(hx_rng *r, int nchains)
{
   int p, i, c, k, ind[MAX_NB_SUBFR];
   for (p = 0; p < N_LEVELS_QGAIN; p++) {
      for (i = 0; i < N_LEVELS_QGAIN; i++) { ind[0] = i; exec_gd(p, 0, 1, ind); }
      for (i = 0; i <= MAX_DELTA_GAIN_QUANT - MIN_DELTA_GAIN_QUANT; i++) { ind[0] = i; exec_gd(p, 1, 1, ind); }
   }
   /* chains of frames: the previous index is carried by the library's own accumulator */
   for (c = 0; c < nchains; c++) {
      opus_int8 carry = (opus_int8)hx_range(r, 0, 63); int frames = hx_range(r, 1, 6), f;
      for (f = 0; f < frames; f++) {
         int n = hx_u(r, 2) ? 4 : 2, cond = (f > 0) && hx_u(r, 4) != 0;
         opus_int8 i8[MAX_NB_SUBFR]; opus_int32 g[MAX_NB_SUBFR]; opus_int8 before = carry;
         for (k = 0; k < n; k++) ind[k] = (k == 0 && !cond) ? (hx_u(r, 5) ? hx_range(r, 0, 63) : (hx_u(r, 2) ? 0 : 63)) : rnd_delta(r);
         for (k = 0; k < n; k++) i8[k] = (opus_int8)ind[k];
         silk_gains_dequant(g, i8, &carry, cond, n);       /* advances the chain */
         exec_gd(before, cond, n, ind);                     /* the same call, recorded */
         if (carry < 0 || carry >= N_LEVELS_QGAIN) break;   /* the (recorded) call left the domain: no legal continuation */
      }
   }
}

static void cmd_gquant(hx_rng *r, int nrandom)
{
   int p, c, e, m, k, x[MAX_NB_SUBFR], it;
   /* single steps over a grid of raw gains: every exponent, mantissa grid incl. the rounding edges */
   for (p = 0; p < N_LEVELS_QGAIN; p++) for (c = 0; c < 2; c++) {
      for (e = 0; e <= 30; e++) {
         static const int mant[] = {0, 1, 9, 21, 33, 47, 63, 64, 65, 85, 101, 117, 126, 127};
         for (m = 0; m < (int)(sizeof mant / sizeof mant[0]); m++) {
            long v = (1L << e) + (((long)mant[m] << e) >> 7);
            if (v > 2147483647L) v = 2147483647L;
            if (((p * 7 + e * 3 + m + c) % 4) != 0 && !(e >= 15 && mant[m] % 63 == 0)) continue;   /* thin the grid deterministically */
            x[0] = (int)v; exec_gq(p, c, 1, x);
         }
      }
      x[0] = 1; exec_gq(p, c, 1, x); x[0] = 2147483647; exec_gq(p, c, 1, x); x[0] = 65536; exec_gq(p, c, 1, x);
   }
   /* frames of 2/4 sub-frames with random gains, log-uniform, chained through the encoder's accumulator */
   {
      opus_int8 carry = 10;
      for (it = 0; it < nrandom; it++) {
         int n = hx_u(r, 2) ? 4 : 2, cond = hx_u(r, 3) != 0; opus_int8 i8[MAX_NB_SUBFR]; opus_int32 g[MAX_NB_SUBFR]; opus_int8 before;
         int base = hx_range(r, 0, 30);
         if (hx_u(r, 50) == 0) carry = (opus_int8)hx_range(r, 0, 63);
         before = carry;
         for (k = 0; k < n; k++) {
            int ee = hx_u(r, 3) ? base + hx_range(r, -2, 2) : hx_range(r, 0, 30); long v;
            if (ee < 0) ee = 0; if (ee > 30) ee = 30;
            v = (1L << ee) + (long)(hx_next(r) % (1UL << ee));
            if (v < 1) v = 1; if (v > 2147483647L) v = 2147483647L;
            x[k] = (int)v; g[k] = x[k];
         }
         silk_gains_quant(i8, g, &carry, cond, n);
         exec_gq(before, cond, n, x);
         if (carry < 0 || carry >= N_LEVELS_QGAIN) carry = 10;
      }
   }
}

#define LAG_SLACK 40
static void cmd_pitch(void)
{
   static const int fss[3] = {8, 12, 16}; int f, nb, li, ci;
   for (f = 0; f < 3; f++) for (nb = 2; nb <= 4; nb += 2) {
      int fs = fss[f], top = 32 * (fs >> 1) - 1;
      for (li = -LAG_SLACK; li <= top + LAG_SLACK; li++)
         for (ci = 0; ci < n_contours(fs, nb); ci++) exec_pl(li, ci, fs, nb);
   }
}

static int rnd_res(hx_rng *r, int mode) {
   static const int lv[] = {-10, -4, 0, 4, 10};
   switch (mode) {
   case 0: return hx_range(r, -NLSF_QUANT_MAX_AMPLITUDE_EXT, NLSF_QUANT_MAX_AMPLITUDE_EXT);
   case 1: return hx_pick(r, lv, 5);
   case 2: return hx_u(r, 2) ? 10 : -10;
   default: return hx_range(r, -NLSF_QUANT_MAX_AMPLITUDE, NLSF_QUANT_MAX_AMPLITUDE);
   }
}

static void cmd_nlsf(hx_rng *r, int nrand, int full)
{
   int cb, i0, k, j, ix[MAX_LPC_ORDER + 1], it;
   for (cb = 0; cb < 2; cb++) {
      const silk_NLSF_CB_struct *c = cb_of(cb); int o = c->order;
      for (i0 = 0; i0 < c->nVectors; i0++) {
         static const int ext[] = {-10, 10, -4, 4};
         ix[0] = i0;
         for (k = 1; k <= o; k++) ix[k] = 0;
         exec_nd(cb, ix);
         for (j = 0; j < 4; j++) {
            int v = ext[j];
            for (k = 1; k <= o; k++) ix[k] = v;                                     /* all at one extreme */
            exec_nd(cb, ix);
            for (k = 1; k <= o; k++) ix[k] = (k & 1) ? v : -v;                      /* alternating */
            exec_nd(cb, ix);
            for (k = 1; k <= o; k++) ix[k] = ((k - 1) / 2 & 1) ? v : -v;            /* alternating pairs */
            exec_nd(cb, ix);
            for (k = 1; k <= o; k++) {                                              /* single-coefficient extremes */
               int m; for (m = 1; m <= o; m++) ix[m] = 0; ix[k] = v; exec_nd(cb, ix);
               for (m = 1; m <= o; m++) ix[m] = -v; ix[k] = v; exec_nd(cb, ix);
            }
            for (k = 1; k < o; k++) {                                               /* split: low part one extreme, high part the other */
               int m; for (m = 1; m <= o; m++) ix[m] = m <= k ? v : -v; exec_nd(cb, ix);
            }
         }
         if (full) {
            /* every sign pattern of the extended extremes (NB/MB: all 2^10; WB: a seeded sample of 2^16) */
            int npat = o == 10 ? 1024 : full;
            for (it = 0; it < npat; it++) {
               unsigned pat = o == 10 ? (unsigned)it : hx_u(r, 65536);
               for (k = 1; k <= o; k++) ix[k] = (pat >> (k - 1) & 1) ? 10 : -10;
               exec_nd(cb, ix);
            }
         }
         for (it = 0; it < nrand; it++) {
            int mode = hx_u(r, 4);
            for (k = 1; k <= o; k++) ix[k] = rnd_res(r, mode);
            exec_nd(cb, ix);
         }
      }
   }
}

static void cmd_stab(hx_rng *r, int n)
{
   int it, k, v[MAX_LPC_ORDER];
   for (it = 0; it < n; it++) {
      int cb = hx_u(r, 2), o = cb_of(cb)->order, mode = hx_u(r, 5);
      int base = hx_range(r, 0, 32767), step = hx_range(r, 0, 12);
      for (k = 0; k < o; k++) {
         switch (mode) {
         case 0: v[k] = hx_range(r, 0, 32767); break;                                     /* unordered */
         case 1: v[k] = base + k * step + hx_range(r, -6, 6); break;                       /* a tight cluster */
         case 2: v[k] = (k + 1) * 32768 / (o + 1) + hx_range(r, -2500, 2500); break;       /* near uniform */
         case 3: v[k] = hx_u(r, 2) ? hx_range(r, 0, 300) : hx_range(r, 32400, 32767); break; /* at the borders */
         default: v[k] = (k & 1) ? base : base + hx_range(r, -40, 40); break;
         }
         if (v[k] < 0) v[k] = 0; if (v[k] > 32767) v[k] = 32767;
      }
      exec_ns(cb, v);
   }
}

static void cmd_nlsfenc(hx_rng *r, int n)
{
   /* inputs as an LPC analysis delivers them: sorted vectors in the neighbourhood of what the codebook can represent
      (a decodable vector plus a perturbation).  Vectors far from every codebook entry are not offered: the encoder's
      rate-distortion bookkeeping is outside this property. */
   int it, k, v[MAX_LPC_ORDER];
   hx_watchdog_init();
   for (it = 0; it < n; it++) {
      int cb = hx_u(r, 2), o = cb_of(cb)->order, j, amp = hx_u(r, 3) ? hx_range(r, 0, 120) : hx_range(r, 0, 500), mode = hx_u(r, 4);
      opus_int8 i8[MAX_LPC_ORDER + 1]; opus_int16 base[MAX_LPC_ORDER];
      i8[0] = (opus_int8)hx_range(r, 0, 31);
      for (k = 1; k <= o; k++) i8[k] = (opus_int8)rnd_res(r, mode == 0 ? 3 : mode);
      silk_NLSF_decode(base, i8, cb_of(cb));
      for (k = 0; k < o; k++) { v[k] = base[k] + hx_range(r, -amp, amp); if (v[k] < 0) v[k] = 0; if (v[k] > 32767) v[k] = 32767; }
      for (k = 1; k < o; k++) { int x = v[k]; for (j = k - 1; j >= 0 && v[j] > x; j--) v[j + 1] = v[j]; v[j + 1] = x; }   /* A2NLSF output is sorted */
      exec_ne_guarded(cb, v, hx_range(r, 1500, 5000), hx_range(r, 2, 16), hx_range(r, 0, 2));
   }
}

static void cmd_pitchenc(hx_rng *r, int n)
{
#ifndef FIXED_POINT
   static const int fss[3] = {8, 12, 16}; int it;
   for (it = 0; it < n; it++) {
      int fs = fss[hx_u(r, 3)], nb = hx_u(r, 3) ? 4 : 2, cx = hx_range(r, 0, 2);
      int lag = hx_u(r, 6) ? hx_range(r, 2 * fs, 18 * fs) : (hx_u(r, 2) ? hx_range(r, 2 * fs - 6, 2 * fs + 4) : hx_range(r, 18 * fs - 4, 18 * fs + 12));
      int per = lag * 16 + hx_range(r, -8, 8), drift = hx_u(r, 3) ? hx_range(r, -120, 120) : 0;
      if (per < 32) per = 32;
      exec_pa(fs, nb, cx, hx_u(r, 2) ? 0 : hx_range(r, 2 * fs, 18 * fs), per, drift, hx_u(r, 4) ? hx_range(r, 0, 600) : hx_range(r, 0, 8000), (unsigned)hx_next(r) & 0x7fffffff);
   }
#else
   (void)r; (void)n;
#endif
}

static void cmd_indices(hx_rng *r, int npackets)
{
   static const int fss[3] = {8, 12, 16}; static unsigned char buf[256];
   int cfg, pk, k;
   for (cfg = 0; cfg < 6; cfg++) {
      int fs = fss[cfg % 3], nb = cfg < 3 ? 4 : 2; dp_chain ch;
      memset(&ch, 0, sizeof ch); ch.lg = 10; ch.ffr = 1;
      for (pk = 0; pk < npackets; pk++) {
         int len = hx_range(r, 2, 160), mode = hx_u(r, 6), nframes = hx_range(r, 1, 3), ccs[3], vads[3];
         for (k = 0; k < len; k++) {
            unsigned v = hx_u(r, 256);
            if (mode == 1 && hx_u(r, 3)) v = 0xFF;            /* long runs of the last symbols */
            if (mode == 2 && hx_u(r, 3)) v = 0x00;            /* long runs of the first symbols */
            if (mode == 3) v = (k & 1) ? 0xFF : 0x00;
            buf[k] = (unsigned char)v;
         }
         for (k = 0; k < 3; k++) { ccs[k] = k == 0 ? (hx_u(r, 4) ? CODE_INDEPENDENTLY : CODE_INDEPENDENTLY_NO_LTP_SCALING) : (hx_u(r, 6) ? CODE_CONDITIONALLY : CODE_INDEPENDENTLY); vads[k] = hx_u(r, 4) != 0; }
         if (hx_u(r, 50) == 0) { memset(&ch, 0, sizeof ch); ch.lg = 10; ch.ffr = 1; }
         exec_di(fs, nb, buf, len, nframes, ccs, vads, -1, &ch, hx_u(r, 6) == 0);
      }
   }
}

static void cmd_dparams(hx_rng *r, int npackets)
{
   static const int fss[3] = {8, 12, 16};
   int cfg, pk, f, k;
   for (cfg = 0; cfg < 6; cfg++) {
      int fs = fss[cfg % 3], nb = cfg < 3 ? 4 : 2, o = fs == 16 ? 16 : 10, top = 32 * (fs >> 1) - 1;
      int prevq[MAX_LPC_ORDER], lg = 10, ffr = 1, prev_lag = 0, prev_voiced = 0;
      memset(prevq, 0, sizeof prevq);
      for (pk = 0; pk < npackets; pk++) {
         int frames = hx_range(r, 1, 3), loss = hx_u(r, 5) == 0, mode = hx_u(r, 4);
         if (hx_u(r, 40) == 0) { ffr = 1; lg = 10; memset(prevq, 0, sizeof prevq); }       /* as after a reset */
         for (f = 0; f < frames; f++) {
            dp_in in; memset(&in, 0, sizeof in);
            in.fs = fs; in.nb = nb; in.lg = lg; in.ffr = ffr; in.loss = (f == 0) ? loss : 0;
            in.cc = f == 0 ? CODE_INDEPENDENTLY : (hx_u(r, 8) ? CODE_CONDITIONALLY : CODE_INDEPENDENTLY_NO_LTP_SCALING);
            for (k = 0; k < nb; k++)
               in.gi[k] = (k == 0 && in.cc != CODE_CONDITIONALLY) ? hx_range(r, 0, 63) : rnd_delta(r);
            in.ix[0] = hx_range(r, 0, 31);
            for (k = 1; k <= o; k++) in.ix[k] = rnd_res(r, mode);
            in.ip = nb == 4 ? hx_range(r, 0, 4) : 4;
            for (k = 0; k < o; k++) in.pn[k] = prevq[k];
            in.st = hx_u(r, 3) ? TYPE_VOICED : hx_range(r, 0, 1);
            if (in.st == TYPE_VOICED) {
               if (in.cc == CODE_CONDITIONALLY && prev_voiced && hx_u(r, 4)) in.li = prev_lag + hx_range(r, -8, 11);
               else in.li = hx_u(r, 4) ? hx_range(r, 0, top) : (hx_u(r, 2) ? top - hx_range(r, 0, 3) : hx_range(r, 0, 3));
               in.ci = hx_range(r, 0, n_contours(fs, nb) - 1);
               prev_lag = in.li;
            }
            prev_voiced = in.st == TYPE_VOICED;
            exec_dp(&in, prevq, &lg);
            ffr = 0;
            if (lg < 0 || lg >= N_LEVELS_QGAIN) lg = 10;
            if (!nlsf_vec_ok(o == 16, prevq)) { ffr = 1; memset(prevq, 0, sizeof prevq); }   /* continue as after a reset */
         }
      }
   }
}


#ifndef FIXED_POINT
/* ------------------------------------------------------------------------------------------ */
/* whole codec: what the encoder quantised (and used itself) vs what a real decoder reconstructs from the packet.
   The SILK objects are reached through the offsets stored at the start of OpusEncoder / OpusDecoder; the decoder
   super-struct (silk/dec_API.c) starts with channel_state[2].  Only state the library itself keeps is read. */
typedef struct { int fs, ch, bw, ms, br, cbr, cvbr, cx, sig, fec, seed, f0, glide; } wc_cfg;
#define WC_NCFG 13
static void wc_cfg_arr(const wc_cfg *c, int *a) { a[0]=c->fs; a[1]=c->ch; a[2]=c->bw; a[3]=c->ms; a[4]=c->br; a[5]=c->cbr; a[6]=c->cvbr; a[7]=c->cx; a[8]=c->sig; a[9]=c->fec; a[10]=c->seed; a[11]=c->f0; a[12]=c->glide; }
static void wc_cfg_from(const int *a, wc_cfg *c) { c->fs=a[0]; c->ch=a[1]; c->bw=a[2]; c->ms=a[3]; c->br=a[4]; c->cbr=a[5]; c->cvbr=a[6]; c->cx=a[7]; c->sig=a[8]; c->fec=a[9]; c->seed=a[10]; c->f0=a[11]; c->glide=a[12]; }


/* link-time interposition (-Wl,--wrap): the prediction filters each side derives from the NLSFs of a frame - the encoder's
   own copy (silk_process_NLSFs: second half from the quantised vector, first half from the interpolated one) and the
   decoder's (silk_decode_parameters).  Kept per state object; `fresh` is cleared before every packet. */
void __real_silk_process_NLSFs(silk_encoder_state *psEncC, opus_int16 PredCoef_Q12[2][MAX_LPC_ORDER], opus_int16 pNLSF_Q15[MAX_LPC_ORDER], const opus_int16 prev_NLSFq_Q15[MAX_LPC_ORDER]);
void __real_silk_decode_parameters(silk_decoder_state *psDec, silk_decoder_control *psDecCtrl, opus_int condCoding);
typedef struct { const void *obj; int fresh, order, ip; int a[2][MAX_LPC_ORDER]; } pc_rec;
static pc_rec g_pc[8];
static pc_rec *pc_slot(const void *obj, int make)
{
   int i;
   for (i = 0; i < 8; i++) if (g_pc[i].obj == obj) return &g_pc[i];
   if (!make) return NULL;
   for (i = 0; i < 8; i++) if (!g_pc[i].obj) { g_pc[i].obj = obj; return &g_pc[i]; }
   return NULL;
}
static void pc_clear(void) { memset(g_pc, 0, sizeof g_pc); }
static void pc_stale(void) { int i; for (i = 0; i < 8; i++) g_pc[i].fresh = 0; }
void __wrap_silk_process_NLSFs(silk_encoder_state *psEncC, opus_int16 PredCoef_Q12[2][MAX_LPC_ORDER], opus_int16 pNLSF_Q15[MAX_LPC_ORDER], const opus_int16 prev_NLSFq_Q15[MAX_LPC_ORDER])
{
   pc_rec *r; int j, k;
   __real_silk_process_NLSFs(psEncC, PredCoef_Q12, pNLSF_Q15, prev_NLSFq_Q15);
   r = pc_slot(psEncC, 1); if (!r) return;
   r->fresh = 1; r->order = psEncC->predictLPCOrder; r->ip = psEncC->indices.NLSFInterpCoef_Q2;
   for (j = 0; j < 2; j++) for (k = 0; k < MAX_LPC_ORDER; k++) r->a[j][k] = k < r->order ? PredCoef_Q12[j][k] : 0;
}
void __wrap_silk_decode_parameters(silk_decoder_state *psDec, silk_decoder_control *psDecCtrl, opus_int condCoding)
{
   pc_rec *r; int j, k;
   __real_silk_decode_parameters(psDec, psDecCtrl, condCoding);
   r = pc_slot(psDec, 1); if (!r) return;
   r->fresh = 1; r->order = psDec->LPC_order; r->ip = psDec->indices.NLSFInterpCoef_Q2;
   for (j = 0; j < 2; j++) for (k = 0; k < MAX_LPC_ORDER; k++) r->a[j][k] = k < r->order ? psDecCtrl->PredCoef_Q12[j][k] : 0;
}
static void wc_pc(const char *key, const void *obj)
{
   const pc_rec *r = pc_slot(obj, 0);
   if (!r || !r->fresh) { printf(",\"%s\":{\"ok\":0,\"ip\":0,\"a0\":[],\"a1\":[]}", key); return; }
   printf(",\"%s\":{\"ok\":1,\"ip\":%d", key, r->ip); js_arr_i("a0", r->a[0], r->order); js_arr_i("a1", r->a[1], r->order); printf("}");
}

static void wc_side(const char *key, const SideInfoIndices *ix, int nb, int order, int lag, int lg, const opus_int16 *q)
{
   int k, gi[MAX_NB_SUBFR], nx[MAX_LPC_ORDER + 1], ltp[MAX_NB_SUBFR], qq[MAX_LPC_ORDER];
   for (k = 0; k < nb; k++) { gi[k] = ix->GainsIndices[k]; ltp[k] = ix->LTPIndex[k]; }
   for (k = 0; k <= order; k++) nx[k] = ix->NLSFIndices[k];
   for (k = 0; k < order; k++) qq[k] = q[k];
   printf(",\"%s\":{\"st\":%d,\"qo\":%d,\"ip\":%d,\"li\":%d,\"ci\":%d,\"per\":%d,\"lsc\":%d,\"seed\":%d,\"lag\":%d,\"lg\":%d",
          key, ix->signalType, ix->quantOffsetType, ix->NLSFInterpCoef_Q2, ix->lagIndex, ix->contourIndex, ix->PERIndex, ix->LTP_scaleIndex, ix->Seed, lag, lg);
   js_arr_i("gi", gi, nb); js_arr_i("ix", nx, order + 1); js_arr_i("ltp", ltp, nb); js_arr_i("q", qq, order);
   printf("}");
}

/* runs one stream for npk packets; records the packets in [from, npk) */
static int exec_wc(const wc_cfg *c, int npk, int from)
{
   static const int bws[3] = {OPUS_BANDWIDTH_NARROWBAND, OPUS_BANDWIDTH_MEDIUMBAND, OPUS_BANDWIDTH_WIDEBAND};
   int err, N, p, i, ch, cfga[WC_NCFG]; long t = 0; double phase = 0.0, ph2 = 0.0; opus_uint32 erng = 0, drng = 0;
   opus_int16 *pcm, *out; unsigned char pkt[1500]; OpusEncoder *enc; OpusDecoder *dec; silk_encoder *se; silk_decoder_state *sd; hx_rng r;
   if ((c->fs != 8000 && c->fs != 12000 && c->fs != 16000 && c->fs != 24000 && c->fs != 48000) || (c->ch != 1 && c->ch != 2) || c->bw < 0 || c->bw > 2) return 0;
   if ((c->ms != 20 && c->ms != 40 && c->ms != 60 && c->ms != 10) || c->br < 4000 || c->br > 80000 || c->cx < 0 || c->cx > 10 || c->sig < 0 || c->sig > 2) return 0;
   if (c->f0 < 50 || c->f0 > 450 || c->glide < 0 || c->glide > 100 || npk < 1 || npk > 2000 || from < 0) return 0;
   N = c->fs / 1000 * c->ms;
   enc = opus_encoder_create(c->fs, c->ch, OPUS_APPLICATION_VOIP, &err); if (!enc) return 0;
   dec = opus_decoder_create(c->fs, c->ch, &err); if (!dec) { opus_encoder_destroy(enc); return 0; }
   pcm = (opus_int16 *)malloc(sizeof(opus_int16) * N * c->ch); out = (opus_int16 *)malloc(sizeof(opus_int16) * N * c->ch);
   opus_encoder_ctl(enc, OPUS_SET_FORCE_MODE(MODE_SILK_ONLY));
   opus_encoder_ctl(enc, OPUS_SET_BANDWIDTH(bws[c->bw])); opus_encoder_ctl(enc, OPUS_SET_MAX_BANDWIDTH(bws[c->bw]));
   opus_encoder_ctl(enc, OPUS_SET_BITRATE(c->br)); opus_encoder_ctl(enc, OPUS_SET_VBR(!c->cbr)); opus_encoder_ctl(enc, OPUS_SET_VBR_CONSTRAINT(c->cvbr));
   opus_encoder_ctl(enc, OPUS_SET_COMPLEXITY(c->cx)); opus_encoder_ctl(enc, OPUS_SET_INBAND_FEC(c->fec)); opus_encoder_ctl(enc, OPUS_SET_PACKET_LOSS_PERC(c->fec ? 15 : 0));
   se = (silk_encoder *)((char *)enc + ((int *)enc)[1]);                  /* OpusEncoder.silk_enc_offset */
   sd = (silk_decoder_state *)((char *)dec + ((int *)dec)[1]);            /* OpusDecoder.silk_dec_offset -> channel_state[0] */
   r.s = (uint64_t)c->seed; wc_cfg_arr(c, cfga);
   pc_clear();
   for (p = 0; p < npk; p++) {
      int len, n;
      for (i = 0; i < N; i++, t++) {
         double tt = (double)t / c->fs, f0 = c->f0 * (1.0 + 0.45 * sin(2 * M_PI * tt * (0.4 + c->glide * 0.06))), s = 0.0, env = 1.0, nz; int h;
         if (c->sig == 1) {            /* speech-like: voiced bursts with a falling pitch, unvoiced noise, pauses */
            double ph = fmod(tt, 0.9);
            env = ph < 0.45 ? 0.3 + ph : (ph < 0.6 ? 0.0 : (ph < 0.8 ? -1.0 : 0.02));
            f0 = c->f0 * (1.25 - 0.6 * ph);
         }
         phase += f0 / c->fs; if (phase >= 1.0) phase -= 1.0;
         ph2 += 1.013 * f0 / c->fs; if (ph2 >= 1.0) ph2 -= 1.0;
         nz = hx_unit(&r) * 2.0 - 1.0;
         if (c->sig == 2) s = 0.6 * nz;
         else if (env < 0.0) s = 0.25 * nz;
         else { for (h = 1; h <= 20 && h * f0 < 0.45 * c->fs; h++) s += sin(2 * M_PI * h * phase) / h; s = env * s * 0.45 + 0.004 * nz; }
         pcm[i * c->ch] = (opus_int16)(13000 * s);
         if (c->ch == 2) { double s2 = 0.0; for (h = 1; h <= 12 && h * f0 < 0.45 * c->fs; h++) s2 += sin(2 * M_PI * h * ph2) / h; pcm[i * 2 + 1] = (opus_int16)(13000 * (0.5 * s + (c->sig == 2 ? 0.3 * (hx_unit(&r) - 0.5) : 0.25 * (env < 0 ? 0 : env) * s2))); }
      }
      pc_stale();
      len = opus_encode(enc, pcm, N, pkt, sizeof pkt);
      if (len < 0) { js_open("wc_err"); js_arr_i("cfg", cfga, WC_NCFG); js_int("pk", p); js_int("enc", len); js_close(); break; }
      n = opus_decode(dec, pkt, len, out, N, 0);
      if (n != N) { js_open("wc_err"); js_arr_i("cfg", cfga, WC_NCFG); js_int("pk", p); js_int("dec", n); js_close(); break; }
      if (p < from || len <= 2) continue;                                  /* a TOC-only packet carries no SILK frame */
      opus_encoder_ctl(enc, OPUS_GET_FINAL_RANGE(&erng)); opus_decoder_ctl(dec, OPUS_GET_FINAL_RANGE(&drng));
      for (ch = 0; ch < se->nChannelsInternal && ch < 2; ch++) {
         const silk_encoder_state *ec = &se->state_Fxx[ch].sCmn; const silk_decoder_state *dc = &sd[ch];
         int nfp = ec->nFramesPerPacket, coded = 1;
         if (ch == 1 && nfp >= 1 && se->sStereo.mid_only_flags[nfp - 1]) coded = 0;          /* side channel not sent for the last frame */
         js_open("wc"); js_arr_i("cfg", cfga, WC_NCFG); js_int("pk", p); js_int("len", len); js_int("c", ch); js_int("nch", se->nChannelsInternal);
         { int er[2], dr[2]; er[0] = (int)(erng >> 16); er[1] = (int)(erng & 0xFFFF); dr[0] = (int)(drng >> 16); dr[1] = (int)(drng & 0xFFFF); js_arr_i("er", er, 2); js_arr_i("dr", dr, 2); }
         {  /* what the packet carries: a TOC-only packet (the encoder gave the frame up, or DTX) padded to the CBR size has an empty frame */
            const unsigned char *fr[48]; opus_int16 sz[48]; unsigned char toc; int nfr = opus_packet_parse(pkt, len, &toc, fr, sz, NULL);
            js_int("toc", pkt[0]); js_int("nfr", nfr); js_int("fsz", nfr >= 1 ? sz[0] : -1);
         }
         js_int("nf", nfp); js_int("coded", coded); js_int("efs", ec->fs_kHz); js_int("dfs", dc->fs_kHz); js_int("n", ec->nb_subfr); js_int("dn", dc->nb_subfr);
         wc_side("e", &ec->indices, ec->nb_subfr, ec->predictLPCOrder, ec->prevLag, se->state_Fxx[ch].sShape.LastGainIndex, ec->prev_NLSFq_Q15);
         wc_side("d", &dc->indices, ec->nb_subfr, ec->predictLPCOrder, dc->lagPrev, dc->LastGainIndex, dc->prevNLSF_Q15);
         wc_pc("ea", ec); wc_pc("da", dc);
         js_close();
      }
   }
   opus_encoder_destroy(enc); opus_decoder_destroy(dec); free(pcm); free(out);
   return 1;
}

static void cmd_codec(hx_rng *r, int ngrid, int nrandom, int npk)
{
   static const int fss[3] = {8000, 12000, 16000}; static const int starved[] = {6000, 6500, 7000, 7500, 8000, 8500, 9000, 10000};
   static const int mss[4] = {20, 40, 60, 10}; int it;
   /* the starved corner: several frames per packet, hard CBR budgets, voiced with a moving pitch */
   for (it = 0; it < ngrid; it++) {
      wc_cfg c; memset(&c, 0, sizeof c);
      c.bw = 2 - (it % 3 == 2 ? hx_u(r, 3) : 0) % 3; c.fs = hx_u(r, 4) ? fss[c.bw] : 48000; c.ch = 1; c.ms = (it & 1) ? 60 : 40;
      c.br = starved[(it / 2) % 8] - (c.bw == 0 ? 1000 : 0); c.cbr = 1; c.cvbr = 1; c.cx = hx_u(r, 3) ? 10 : hx_range(r, 0, 10);
      c.sig = hx_u(r, 4) ? 0 : 1; c.fec = 0; c.seed = (int)(hx_next(r) & 0x3fffffff); c.f0 = hx_range(r, 90, 230); c.glide = hx_range(r, 0, 60);
      exec_wc(&c, npk, 0);
   }
   for (it = 0; it < nrandom; it++) {
      wc_cfg c; memset(&c, 0, sizeof c);
      c.bw = hx_u(r, 3); c.fs = hx_u(r, 3) ? fss[c.bw] : 48000; c.ch = hx_u(r, 3) ? 1 : 2; c.ms = mss[hx_u(r, 8) ? hx_u(r, 3) : 3];
      c.br = hx_u(r, 3) ? hx_range(r, 5000, 40000) : hx_range(r, 5000, 11000); if (c.ch == 2) c.br += c.br / 2;
      c.cbr = hx_u(r, 2); c.cvbr = hx_u(r, 2); c.cx = hx_range(r, 0, 10); c.sig = hx_u(r, 5) < 2 ? 0 : (hx_u(r, 4) ? 1 : 2); c.fec = hx_u(r, 5) == 0;
      c.seed = (int)(hx_next(r) & 0x3fffffff); c.f0 = hx_range(r, 70, 400); c.glide = hx_range(r, 0, 100);
      exec_wc(&c, npk, 0);
   }
}
#endif

/* ------------------------------------------------------------------------------------------ */
/* replay: minimal reader for the events this program writes */

static const char *jfind(const char *ln, const char *key) {
   char pat[32]; const char *p; snprintf(pat, sizeof pat, "\"%s\":", key); p = strstr(ln, pat);
   return p ? p + strlen(pat) : NULL;
}
static int jint(const char *ln, const char *key, int dflt) { const char *p = jfind(ln, key); return p ? (int)strtol(p, NULL, 10) : dflt; }
static int jarr(const char *ln, const char *key, int *out, int max) {
   const char *p = jfind(ln, key); int n = 0; char *e;
   if (!p || *p != '[') return 0;
   p++;
   while (*p && *p != ']' && n < max) { out[n++] = (int)strtol(p, &e, 10); if (e == p) break; p = e; if (*p == ',') p++; }
   return n;
}

static void cmd_replay(void)
{
   static char ln[1 << 16];
   while (fgets(ln, sizeof ln, stdin)) {
      const char *k = jfind(ln, "k"); int a[64];
      if (!k) continue;
      if (!strncmp(k, "\"ne_abort\"", 10)) {
         int cb = jint(ln, "cb", -1), n = jarr(ln, "inp", a, 16);
         if ((cb == 0 || cb == 1) && n == cb_of(cb)->order) exec_ne_guarded(cb, a, jint(ln, "mu", 0), jint(ln, "sv", 0), jint(ln, "st", -1));
      }
      else if (!strncmp(k, "\"gd\"", 4)) { int n = jarr(ln, "i", a, 4); exec_gd(jint(ln, "p", -1), jint(ln, "c", -1), n, a); }
      else if (!strncmp(k, "\"gq\"", 4)) { int n = jarr(ln, "x", a, 4); exec_gq(jint(ln, "p", -1), jint(ln, "c", -1), n, a); }
      else if (!strncmp(k, "\"pl\"", 4)) exec_pl(jint(ln, "li", 99999), jint(ln, "ci", -1), jint(ln, "fs", 0), jint(ln, "n", 0));
      else if (!strncmp(k, "\"nd\"", 4)) {
         int cb = jint(ln, "cb", -1), n = jarr(ln, "ix", a, 17);
         if ((cb == 0 || cb == 1) && n == cb_of(cb)->order + 1) exec_nd(cb, a);
      }
      else if (!strncmp(k, "\"di\"", 4)) {
         int ccs[3], vads[3], nf = jarr(ln, "ccs", ccs, 3), nv = jarr(ln, "vads", vads, 3), len = 0; static unsigned char hb[4096];
         const char *h = jfind(ln, "hex");
         if (h && *h == '"') { unsigned v; h++; while (len < (int)sizeof hb && sscanf(h, "%2x", &v) == 1 && h[0] != '"' && h[1] != '"') { hb[len++] = (unsigned char)v; h += 2; } }
         if (nf == nv && nf >= 1 && jint(ln, "f", -1) >= 0 && jint(ln, "f", -1) < nf) exec_di(jint(ln, "fs", 0), jint(ln, "n", 0), hb, len, nf, ccs, vads, jint(ln, "f", -1), NULL, 0);
      }
      else if (!strncmp(k, "\"ne\"", 4)) {
         int cb = jint(ln, "cb", -1), n = jarr(ln, "inp", a, 16);
         if ((cb == 0 || cb == 1) && n == cb_of(cb)->order) exec_ne_guarded(cb, a, jint(ln, "mu", 0), jint(ln, "sv", 0), jint(ln, "st", -1));
      }
#ifndef FIXED_POINT
      else if (!strncmp(k, "\"wc\"", 4)) {
         int ca[WC_NCFG], pk = jint(ln, "pk", -1); wc_cfg c;
         if (jarr(ln, "cfg", ca, WC_NCFG) == WC_NCFG && pk >= 0) { wc_cfg_from(ca, &c); exec_wc(&c, pk + 1, pk); }
      }
      else if (!strncmp(k, "\"pa\"", 4))
         exec_pa(jint(ln, "fs", 0), jint(ln, "n", 0), jint(ln, "cx", -1), jint(ln, "plag", -1), jint(ln, "per", 0), jint(ln, "dr", 9999), jint(ln, "nz", -1), (unsigned)jint(ln, "seed", 0));
#endif
      else if (!strncmp(k, "\"ns\"", 4)) {
         int cb = jint(ln, "cb", 0) != 0, n = jarr(ln, "inp", a, 16), j, ok = n == cb_of(cb)->order;
         for (j = 0; j < n; j++) if (a[j] < 0 || a[j] > 32767) ok = 0;
         if (ok) exec_ns(cb, a);
      }
      else if (!strncmp(k, "\"dp\"", 4)) {
         dp_in in; memset(&in, 0, sizeof in);
         in.fs = jint(ln, "fs", 0); in.nb = jint(ln, "n", 0); in.cc = jint(ln, "cc", -1); in.lg = jint(ln, "lg", -1);
         jarr(ln, "gi", in.gi, 4); jarr(ln, "ix", in.ix, 17); in.ip = jint(ln, "ip", -1); in.ffr = jint(ln, "ffr", -1);
         jarr(ln, "pn", in.pn, 16); in.loss = jint(ln, "loss", 0) != 0; in.st = jint(ln, "st", -1); in.li = jint(ln, "li", 0); in.ci = jint(ln, "ci", 0);
         if (jarr(ln, "gi", a, 4) == in.nb && jarr(ln, "ix", a, 17) == (in.fs == 16 ? 17 : 11) && jarr(ln, "pn", a, 16) == (in.fs == 16 ? 16 : 10))
            exec_dp(&in, NULL, NULL);
      }
   }
}

int main(int argc, char **argv)
{
   hx_rng r; const char *cmd = argc > 1 ? argv[1] : "";
   r.s = argc > 2 ? strtoull(argv[2], NULL, 10) : 1;
   if (!strcmp(cmd, "tables")) cmd_tables();
   else if (!strcmp(cmd, "gains")) cmd_gains(&r, argc > 3 ? atoi(argv[3]) : 1000);
   else if (!strcmp(cmd, "gquant")) cmd_gquant(&r, argc > 3 ? atoi(argv[3]) : 1000);
   else if (!strcmp(cmd, "pitch")) cmd_pitch();
   else if (!strcmp(cmd, "nlsf")) cmd_nlsf(&r, argc > 3 ? atoi(argv[3]) : 10, argc > 4 ? atoi(argv[4]) : 0);
   else if (!strcmp(cmd, "stab")) cmd_stab(&r, argc > 3 ? atoi(argv[3]) : 1000);
   else if (!strcmp(cmd, "nlsfenc")) cmd_nlsfenc(&r, argc > 3 ? atoi(argv[3]) : 1000);
   else if (!strcmp(cmd, "pitchenc")) cmd_pitchenc(&r, argc > 3 ? atoi(argv[3]) : 1000);
#ifndef FIXED_POINT
   else if (!strcmp(cmd, "codec")) cmd_codec(&r, argc > 3 ? atoi(argv[3]) : 8, argc > 4 ? atoi(argv[4]) : 8, argc > 5 ? atoi(argv[5]) : 40);
#endif
   else if (!strcmp(cmd, "indices")) cmd_indices(&r, argc > 3 ? atoi(argv[3]) : 100);
   else if (!strcmp(cmd, "dparams")) cmd_dparams(&r, argc > 3 ? atoi(argv[3]) : 100);
   else if (!strcmp(cmd, "replay")) cmd_replay();
   else { fprintf(stderr, "usage: hx_silk tables|gains|gquant|pitch|nlsf|stab|nlsfenc|pitchenc|codec|indices|dparams|replay ...\n"); return 64; }
   return 0;
}
