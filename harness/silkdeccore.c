/* hx_silkdeccore: conformance driver for module SilkDecCore (growth module G15): the SILK decoder's synthesis buffers as an
   index machine (silk/decode_core.c, decode_frame.c, decoder_set_fs.c, PLC.c, CNG.c, dec_API.c).

   silk_decode_core, silk_LPC_analysis_filter, silk_PLC, silk_CNG, silk_decode_frame and silk_decoder_set_fs are INTERPOSED at
   link time (-Wl,--wrap=...).  The recorder logs, per call, the geometry and the state fields the index arithmetic depends on,
   the inputs (signal type, lags, interpolation flag, which gains differ), and the SPANS the real code passed to
   silk_LPC_analysis_filter (offset of the input inside outBuf, length, order - these carry start_idx / idx), the concealment's
   pitchL_Q8 before and after, the number of outBuf cells that differ from "the last ltp_mem_length output samples" after the
   shift, and the distance of the two channels' output pointers inside silk_Decode's temporary.  Nothing is judged here; the
   build has assertions and ASan/UBSan, the caller-side arrays (xq, pulses, frame) are exact-size heap blocks.

   hx_silkdeccore fn <seed>     stdin: plan lines
        C fs nb li ci ip gm sig lc ps lagPrev   the real silk_decode_pitch (li, ci) then the real silk_decode_core on a hand-built
                                                silk_decoder_control (ip: NLSF interpolation flag, gm: gain pattern 0..4)
        P fs nb pitchQ8 run shape               the real silk_PLC(lost) run times from sPLC.pitchL_Q8 = pitchQ8, then silk_CNG
        F fs nb fs2 nb2                         silk_decoder_set_fs transitions
        B fs nb li ci ip dl nfr                 crafted bit-stream (real range encoder) through the real silk_decode_frame
   hx_silkdeccore situ          stdin: S id bw ch ms kind fec sw seed warm gap | pat pat ...   (real streams through opus_decode)
   events: new / core / plc / cng / df / setfs / twin */
#ifdef HAVE_CONFIG_H
#include "config.h"
#endif
#include "hx_common.h"
#include <math.h>
#include "opus.h"
#include "opus_private.h"
#include "main.h"
#include "PLC.h"
#include "tables.h"
#include "Inlines.h"
#include "pitch_est_defines.h"
#include "tuning_parameters.h"

static struct {
   int in_core, in_plc, in_df, naf, af[4][3];
   const opus_int16 *ob;
   opus_int16 snap[MAX_FRAME_LENGTH + 2 * MAX_SUB_FRAME_LENGTH];
   int ms, mc, shift_seen;
   int en_on, nen; opus_int32 en[2][4];
   const silk_decoder_state *last_dec; const opus_int16 *last_out;
} rec;

void __real_silk_decode_core(silk_decoder_state *psDec, silk_decoder_control *psDecCtrl, opus_int16 xq[], const opus_int16 pulses[MAX_FRAME_LENGTH], int arch);
void __real_silk_LPC_analysis_filter(opus_int16 *out, const opus_int16 *in, const opus_int16 *B, const opus_int32 len, const opus_int32 d, int arch);
void __real_silk_PLC(silk_decoder_state *psDec, silk_decoder_control *psDecCtrl, opus_int16 frame[], opus_int lost, int arch);
void __real_silk_CNG(silk_decoder_state *psDec, silk_decoder_control *psDecCtrl, opus_int16 frame[], opus_int length);
opus_int __real_silk_decode_frame(silk_decoder_state *psDec, ec_dec *psRangeDec, opus_int16 pOut[], opus_int32 *pN, opus_int lostFlag, opus_int condCoding, int arch);
void __real_silk_sum_sqr_shift(opus_int32 *energy, opus_int *shift, const opus_int16 *x, opus_int len);
opus_int __real_silk_decoder_set_fs(silk_decoder_state *psDec, opus_int fs_kHz, opus_int32 fs_API_Hz);

static void geo(const silk_decoder_state *d, int *g)
{ g[0] = d->fs_kHz; g[1] = d->nb_subfr; g[2] = d->subfr_length; g[3] = d->frame_length; g[4] = d->ltp_mem_length; g[5] = d->LPC_order; }
static void js_af(void)
{
   int i, flat[12];
   for (i = 0; i < 12; i++) flat[i] = i / 3 < rec.naf ? rec.af[i / 3][i % 3] : 0;
   js_int("naf", rec.naf); js_arr_i("af", flat, 12);
}

void __wrap_silk_LPC_analysis_filter(opus_int16 *out, const opus_int16 *in, const opus_int16 *B, const opus_int32 len, const opus_int32 d, int arch)
{
   if ((rec.in_core || rec.in_plc) && rec.naf < 4) { rec.af[rec.naf][0] = (int)(in - rec.ob); rec.af[rec.naf][1] = len; rec.af[rec.naf][2] = d; }
   if (rec.in_core || rec.in_plc) rec.naf++;
   __real_silk_LPC_analysis_filter(out, in, B, len, d, arch);
}

void __wrap_silk_sum_sqr_shift(opus_int32 *energy, opus_int *shift, const opus_int16 *x, opus_int len)
{
   __real_silk_sum_sqr_shift(energy, shift, x, len);
   if (rec.en_on && rec.nen < 2) { rec.en[rec.en_on - 1][2 * rec.nen] = *energy; rec.en[rec.en_on - 1][2 * rec.nen + 1] = *shift; rec.nen++; }
}

void __wrap_silk_decode_core(silk_decoder_state *psDec, silk_decoder_control *psDecCtrl, opus_int16 xq[], const opus_int16 pulses[MAX_FRAME_LENGTH], int arch)
{
   int g[6], dd[4], pli[4], plo[4], gch[4], ga[4], k, sig, ip; opus_int32 prev = psDec->prev_gain_Q16;
   geo(psDec, g);
   dd[0] = psDec->lagPrev; dd[1] = psDec->lossCnt; dd[2] = psDec->prevSignalType; dd[3] = psDec->first_frame_after_reset;
   sig = psDec->indices.signalType; ip = psDec->indices.NLSFInterpCoef_Q2 < 4;
   for (k = 0; k < 4; k++) {
      opus_int32 cur = k < psDec->nb_subfr ? psDecCtrl->Gains_Q16[k] : 0;
      pli[k] = k < psDec->nb_subfr ? psDecCtrl->pitchL[k] : 0;
      gch[k] = k < psDec->nb_subfr && cur != prev;
      ga[k] = gch[k] && cur != 0 && silk_DIV32_varQ(prev, cur, 16) != 65536;
      if (k < psDec->nb_subfr) prev = cur;
   }
   rec.in_core = 1; rec.naf = 0; rec.ob = psDec->outBuf;
   __real_silk_decode_core(psDec, psDecCtrl, xq, pulses, arch);
   rec.in_core = 0;
   for (k = 0; k < 4; k++) plo[k] = k < g[1] ? psDecCtrl->pitchL[k] : 0;
   js_open("core"); js_arr_i("g", g, 6); js_arr_i("d", dd, 4); js_int("sig", sig); js_int("ip", ip);
   js_arr_i("pl", pli, 4); js_arr_i("plo", plo, 4); js_arr_i("gch", gch, 4); js_arr_i("ga", ga, 4); js_af(); js_int("pg0", psDec->prev_gain_Q16 != 0);
   js_close();
}

void __wrap_silk_PLC(silk_decoder_state *psDec, silk_decoder_control *psDecCtrl, opus_int16 frame[], opus_int lost, int arch)
{
   int g[6], pre[6];
   if (!lost) { __real_silk_PLC(psDec, psDecCtrl, frame, lost, arch); return; }
   geo(psDec, g);
   pre[0] = psDec->sPLC.pitchL_Q8; pre[1] = psDec->sPLC.fs_kHz; pre[2] = psDec->sPLC.nb_subfr; pre[3] = psDec->sPLC.subfr_length;
   pre[4] = psDec->lossCnt; pre[5] = psDec->prevSignalType;
   rec.in_plc = 1; rec.naf = 0; rec.ob = psDec->outBuf;
   __real_silk_PLC(psDec, psDecCtrl, frame, lost, arch);
   rec.in_plc = 0;
   js_open("plc"); js_arr_i("g", g, 6); js_arr_i("pre", pre, 6); js_int("post", psDec->sPLC.pitchL_Q8); js_int("lago", psDecCtrl->pitchL[0]);
   js_int("lc", psDec->lossCnt); js_af(); js_close();
}

void __wrap_silk_CNG(silk_decoder_state *psDec, silk_decoder_control *psDecCtrl, opus_int16 frame[], opus_int length)
{
   int g[6], i;
   geo(psDec, g);
   if (rec.in_df) {               /* the shift has just been made: outBuf must be the old tail followed by this frame */
      int mv = psDec->ltp_mem_length - psDec->frame_length;
      rec.ms = rec.mc = 0; rec.shift_seen = 1;
      for (i = 0; i < mv; i++) rec.ms += psDec->outBuf[i] != rec.snap[i + psDec->frame_length];
      for (i = 0; i < psDec->frame_length; i++) rec.mc += psDec->outBuf[mv + i] != frame[i];
   }
   js_open("cng"); js_arr_i("g", g, 6); js_int("len", length); js_int("lc", psDec->lossCnt); js_int("ps", psDec->prevSignalType);
   js_int("cfs", psDec->sCNG.fs_kHz); js_close();
   __real_silk_CNG(psDec, psDecCtrl, frame, length);
}

opus_int __wrap_silk_decode_frame(silk_decoder_state *psDec, ec_dec *psRangeDec, opus_int16 pOut[], opus_int32 *pN, opus_int lostFlag, opus_int condCoding, int arch)
{
   int g[6], dp = 0; opus_int r;
   geo(psDec, g);
   memcpy(rec.snap, psDec->outBuf, sizeof rec.snap);
   if (rec.last_dec && psDec == rec.last_dec + 1) dp = (int)(pOut - rec.last_out);
   rec.last_dec = psDec; rec.last_out = pOut;
   rec.in_df = 1; rec.shift_seen = 0; rec.ms = rec.mc = -1;
   r = __real_silk_decode_frame(psDec, psRangeDec, pOut, pN, lostFlag, condCoding, arch);
   rec.in_df = 0;
   js_open("df"); js_arr_i("g", g, 6); js_int("lf", lostFlag); js_int("r", r); js_int("n", *pN); js_int("ms", rec.ms); js_int("mc", rec.mc);
   js_int("dp", dp); js_int("lagp", psDec->lagPrev); js_int("lc", psDec->lossCnt); js_int("ps", psDec->prevSignalType); js_close();
   return r;
}

opus_int __wrap_silk_decoder_set_fs(silk_decoder_state *psDec, opus_int fs_kHz, opus_int32 fs_API_Hz)
{
   int pre[6], post[6], i, nzo = 0, nzl = 0; opus_int r;
   geo(psDec, pre);
   r = __real_silk_decoder_set_fs(psDec, fs_kHz, fs_API_Hz);
   geo(psDec, post);
   for (i = 0; i < MAX_FRAME_LENGTH + 2 * MAX_SUB_FRAME_LENGTH; i++) nzo += psDec->outBuf[i] != 0;
   for (i = 0; i < MAX_LPC_ORDER; i++) nzl += psDec->sLPC_Q14_buf[i] != 0;
   rec.last_dec = NULL;
   js_open("setfs"); js_int("fs", fs_kHz); js_int("r", r); js_arr_i("pre", pre, 6); js_arr_i("post", post, 6);
   js_int("lagp", psDec->lagPrev); js_int("ffar", psDec->first_frame_after_reset); js_int("ps", psDec->prevSignalType);
   js_int("nzo", nzo); js_int("nzl", nzl); js_close();
   return r;
}

static void ev_new(int id, const char *what) { rec.last_dec = NULL; fflush(stdout); js_open("new"); js_int("id", id); js_str("w", what); js_close(); fflush(stdout); }

/* ------------------------------------------------------------------ function level */
static silk_decoder_state g_st, g_st2, g_st3;

/* twin execution against stack contents: the scratch arrays of silk_decode_core / silk_PLC_conceal are stack VLAs; the same call
   is made on a copy of the state after the stack below us has been filled with another byte pattern.  "tw" counts the output
   samples / state words that differ (a scratch cell read before it was written shows up here). */
static __attribute__((noinline)) void stack_fill(int pat)
{
   volatile unsigned char b[40 * 1024];
   memset((void *)b, pat, sizeof b);
   __asm__ volatile("" ::: "memory");
}
static int state_diff(const silk_decoder_state *a, const silk_decoder_state *b)
{
   int i, n = 0;
   for (i = 0; i < MAX_FRAME_LENGTH; i++) n += a->exc_Q14[i] != b->exc_Q14[i];
   for (i = 0; i < MAX_LPC_ORDER; i++) n += a->sLPC_Q14_buf[i] != b->sLPC_Q14_buf[i];
   for (i = 0; i < MAX_FRAME_LENGTH + 2 * MAX_SUB_FRAME_LENGTH; i++) n += a->outBuf[i] != b->outBuf[i];
   n += a->prev_gain_Q16 != b->prev_gain_Q16; n += a->sPLC.pitchL_Q8 != b->sPLC.pitchL_Q8; n += a->sPLC.rand_seed != b->sPLC.rand_seed;
   return n;
}
static void ev_twin(const char *what, int tw, int tp, const int *rs, int nrs) { js_open("twin"); js_str("w", what); js_int("tw", tw); js_int("tp", tp); js_arr_i("rs", rs, nrs); js_close(); }
static int imax(int a, int b) { return a > b ? a : b; }
static int imin(int a, int b) { return a < b ? a : b; }
/* the twin also gets every state cell OUTSIDE the read set (rs: the intervals the call may read of exc_Q14 and of outBuf before
   writing them) flipped: reading any of them changes the twin's result.  rs is logged; TLC compares it with the model's read set. */
static void perturb_plc(silk_decoder_state *b, int *rs)
{
   int i, reset = b->sPLC.fs_kHz != b->fs_kHz, pnb = reset ? 2 : b->sPLC.nb_subfr, psfl = reset ? 20 : b->sPLC.subfr_length;
   int p0 = reset ? b->frame_length << 7 : b->sPLC.pitchL_Q8, lag = ((p0 >> 7) + 1) >> 1;
   rs[0] = (b->nb_subfr - 2) * b->subfr_length; rs[1] = b->nb_subfr * b->subfr_length - 1;
   rs[2] = imax(0, (pnb - 1) * psfl - RAND_BUF_SIZE); rs[3] = rs[2] + RAND_BUF_SIZE - 1;
   rs[4] = imax(0, pnb * psfl - RAND_BUF_SIZE); rs[5] = rs[4] + RAND_BUF_SIZE - 1;
   rs[6] = b->ltp_mem_length - lag - b->LPC_order - LTP_ORDER / 2; rs[7] = b->ltp_mem_length - 1;
   for (i = 0; i < MAX_FRAME_LENGTH; i++) if (!((i >= rs[0] && i <= rs[1]) || (i >= rs[2] && i <= rs[3]) || (i >= rs[4] && i <= rs[5]))) b->exc_Q14[i] ^= 0x15550;
   for (i = 0; i < MAX_FRAME_LENGTH + 2 * MAX_SUB_FRAME_LENGTH; i++) if (!(i >= rs[6] && i <= rs[7])) b->outBuf[i] ^= 0x1555;
}
static void perturb_core(silk_decoder_state *b, const silk_decoder_control *c, int *rs)
{
   int i, sig = b->indices.signalType, forced = b->lossCnt && b->prevSignalType == TYPE_VOICED && sig != TYPE_VOICED, lo = MAX_FRAME_LENGTH + 2 * MAX_SUB_FRAME_LENGTH;
   int base = b->ltp_mem_length - b->LPC_order - LTP_ORDER / 2;
   if (sig == TYPE_VOICED) {
      lo = base - c->pitchL[0];
      if (b->nb_subfr == 4 && b->indices.NLSFInterpCoef_Q2 < 4) lo = imin(lo, base - c->pitchL[2] + 2 * b->subfr_length);
   } else if (forced) lo = base - b->lagPrev;
   rs[0] = lo; rs[1] = b->ltp_mem_length - 1;
   for (i = 0; i < MAX_FRAME_LENGTH; i++) b->exc_Q14[i] ^= 0x15550;
   for (i = 0; i < MAX_FRAME_LENGTH + 2 * MAX_SUB_FRAME_LENGTH; i++) if (!(i >= rs[0] && i <= rs[1])) b->outBuf[i] ^= 0x1555;
}
static int out_diff(const silk_decoder_state *a, const silk_decoder_state *b, int nexc)
{
   int i, n = 0;
   for (i = 0; i < nexc; i++) n += a->exc_Q14[i] != b->exc_Q14[i];
   for (i = 0; i < MAX_LPC_ORDER; i++) n += a->sLPC_Q14_buf[i] != b->sLPC_Q14_buf[i];
   n += a->prev_gain_Q16 != b->prev_gain_Q16; n += a->sPLC.pitchL_Q8 != b->sPLC.pitchL_Q8; n += a->sPLC.rand_seed != b->sPLC.rand_seed;
   return n;
}

static void fill_state(silk_decoder_state *d, hx_rng *r, int amp)
{
   int i;
   for (i = 0; i < d->ltp_mem_length; i++) d->outBuf[i] = (opus_int16)hx_range(r, -amp, amp);
   for (i = 0; i < MAX_LPC_ORDER; i++) d->sLPC_Q14_buf[i] = hx_range(r, -amp, amp) * 16;
}
static void build_lpc(silk_decoder_state *d, silk_decoder_control *c, hx_rng *r)
{
   opus_int16 nl[MAX_LPC_ORDER]; int i, acc = 0, step = 32000 / (d->LPC_order + 1);
   for (i = 0; i < d->LPC_order; i++) { acc += hx_range(r, step / 3, step); nl[i] = (opus_int16)acc; d->prevNLSF_Q15[i] = nl[i]; }
   silk_NLSF2A(c->PredCoef_Q12[1], nl, d->LPC_order, d->arch);
   memcpy(c->PredCoef_Q12[0], c->PredCoef_Q12[1], sizeof c->PredCoef_Q12[0]);
}
static void start_state(silk_decoder_state *d, int fs, int nb)
{
   silk_init_decoder(d);
   d->nb_subfr = nb;
   __wrap_silk_decoder_set_fs(d, fs, 48000);
}

static int fn_core(hx_rng *r, int fs, int nb, int li, int ci, int ip, int gm, int sig, int lc, int ps, int lagPrev)
{
   silk_decoder_state *d = &g_st; silk_decoder_control ctrl; int k, i, L, PL; opus_int16 *xq, *pulses; opus_int32 base;
   start_state(d, fs, nb);
   L = d->frame_length; PL = (L + SHELL_CODEC_FRAME_LENGTH - 1) & ~(SHELL_CODEC_FRAME_LENGTH - 1);
   fill_state(d, r, 3000);
   memset(&ctrl, 0, sizeof ctrl);
   d->lossCnt = lc; d->prevSignalType = ps; d->lagPrev = lagPrev; d->first_frame_after_reset = 0;
   d->indices.signalType = (opus_int8)sig; d->indices.quantOffsetType = (opus_int8)hx_u(r, 2); d->indices.NLSFInterpCoef_Q2 = (opus_int8)(ip ? hx_u(r, 4) : 4);
   d->indices.Seed = (opus_int8)hx_u(r, 4);
   if (sig == TYPE_VOICED) {
      int per = hx_u(r, NB_LTP_CBKS);
      silk_decode_pitch((opus_int16)li, (opus_int8)ci, ctrl.pitchL, fs, nb);      /* the real dequantiser: the lag domain is the library's */
      for (k = 0; k < nb; k++) {
         const opus_int8 *cb = silk_LTP_vq_ptrs_Q7[per]; int row = hx_u(r, silk_LTP_vq_sizes[per]);
         for (i = 0; i < LTP_ORDER; i++) ctrl.LTPCoef_Q14[k * LTP_ORDER + i] = (opus_int16)(cb[row * LTP_ORDER + i] * 128);
      }
      ctrl.LTP_scale_Q14 = silk_LTPScales_table_Q14[hx_u(r, 3)];
   }
   base = hx_range(r, 81920, 1 << 22); d->prev_gain_Q16 = base;
   for (k = 0; k < nb; k++) {
      opus_int32 gq = base;
      if (gm == 1) gq = base + (k + 1) * (base / 3);
      else if (gm == 2) gq = base + 1 + k;
      else if (gm == 3) gq = k >= 1 ? base * 2 : base;
      else if (gm == 4) gq = k >= 3 ? base / 2 + 7 : base;
      ctrl.Gains_Q16[k] = gq;
   }
   build_lpc(d, &ctrl, r);
   xq = (opus_int16 *)malloc(L * sizeof *xq); pulses = (opus_int16 *)malloc(PL * sizeof *pulses);
   if (!xq || !pulses) return 9;
   for (i = 0; i < PL; i++) pulses[i] = (opus_int16)(hx_u(r, 4) ? 0 : hx_range(r, -6, 6));
   {
      silk_decoder_control ctrl2 = ctrl, ctrl3 = ctrl; opus_int16 *xq2 = (opus_int16 *)malloc(L * sizeof *xq2); int tw = 0, tp = 0, rs[2];
      if (!xq2) return 9;
      memcpy(&g_st2, d, sizeof g_st2); memcpy(&g_st3, d, sizeof g_st3);
      perturb_core(&g_st3, &ctrl3, rs);
      stack_fill(0x00);
      __wrap_silk_decode_core(d, &ctrl, xq, pulses, d->arch);
      stack_fill(0xA5);
      __real_silk_decode_core(&g_st2, &ctrl2, xq2, pulses, g_st2.arch);
      for (i = 0; i < L; i++) tw += xq[i] != xq2[i];
      tw += state_diff(d, &g_st2);
      stack_fill(0x00);
      __real_silk_decode_core(&g_st3, &ctrl3, xq2, pulses, g_st3.arch);
      for (i = 0; i < L; i++) tp += xq[i] != xq2[i];
      tp += out_diff(d, &g_st3, L);
      ev_twin("core", tw, tp, rs, 2);
      free(xq2);
   }
   free(xq); free(pulses);
   return 0;
}

static int fn_plc(hx_rng *r, int fs, int nb, int pitchQ8, int run, int shape)
{
   silk_decoder_state *d = &g_st; silk_decoder_control ctrl; int i, k, L, mv; opus_int16 *frame;
   start_state(d, fs, nb);
   L = d->frame_length;
   fill_state(d, r, 2000);
   for (i = 0; i < L; i++) d->exc_Q14[i] = hx_range(r, -300, 300) * 64;
   memset(&ctrl, 0, sizeof ctrl);
   frame = (opus_int16 *)malloc(L * sizeof *frame); if (!frame) return 9;
   for (i = 0; i < L; i++) frame[i] = (opus_int16)hx_range(r, -2000, 2000);
   /* one decoded voiced frame's worth of silk_PLC_update so that sPLC is what a good frame leaves */
   d->indices.signalType = TYPE_VOICED; d->prevSignalType = TYPE_VOICED;
   for (k = 0; k < nb; k++) {
      ctrl.pitchL[k] = 10 * fs; ctrl.Gains_Q16[k] = hx_range(r, 81920, 1 << 21);
      for (i = 0; i < LTP_ORDER; i++) ctrl.LTPCoef_Q14[k * LTP_ORDER + i] = (opus_int16)(i == 2 ? 9000 : 500);
   }
   ctrl.LTP_scale_Q14 = 15565; build_lpc(d, &ctrl, r);
   if (shape != 0) {                      /* shape 0: no decoded frame before the loss (silk_PLC_Reset's values) */
      __wrap_silk_PLC(d, &ctrl, frame, 0, d->arch);
      d->sPLC.pitchL_Q8 = pitchQ8;
      d->first_frame_after_reset = 0;
   }
   for (k = 0; k < run; k++) {
      if (k == 0 || k == run - 1) {
         silk_decoder_control ctrl2 = ctrl, ctrl3 = ctrl; opus_int16 *f2 = (opus_int16 *)malloc(2 * L * sizeof *f2), *f3 = f2 + L; int tw = 0, tp = 0, rs[8];
         opus_int32 en1[4];
         if (!f2) return 9;
         memcpy(&g_st2, d, sizeof g_st2); memcpy(&g_st3, d, sizeof g_st3); memcpy(f2, frame, L * sizeof *f2); memcpy(f3, frame, L * sizeof *f3);
         perturb_plc(&g_st3, rs);
         memset(rec.en, 0, sizeof rec.en);
         stack_fill(0xA5);
         rec.en_on = 2; rec.nen = 0;
         __real_silk_PLC(&g_st2, &ctrl2, f2, 1, g_st2.arch);
         stack_fill(0x00);
         rec.en_on = 1; rec.nen = 0;
         __wrap_silk_PLC(d, &ctrl, frame, 1, d->arch);
         rec.en_on = 0;
         for (i = 0; i < L; i++) tw += frame[i] != f2[i];
         for (i = 0; i < 4; i++) { tw += rec.en[0][i] != rec.en[1][i]; en1[i] = rec.en[0][i]; }
         tw += state_diff(d, &g_st2);
         rec.en_on = 2; rec.nen = 0;
         __real_silk_PLC(&g_st3, &ctrl3, f3, 1, g_st3.arch);
         rec.en_on = 0;
         for (i = 0; i < L; i++) tp += frame[i] != f3[i];
         for (i = 0; i < 4; i++) tp += en1[i] != rec.en[1][i];
         tp += out_diff(d, &g_st3, 0);
         ev_twin("plc", tw, tp, rs, 8);
         free(f2);
      } else
      __wrap_silk_PLC(d, &ctrl, frame, 1, d->arch);
      mv = d->ltp_mem_length - L;
      memmove(d->outBuf, &d->outBuf[L], mv * sizeof(opus_int16)); memcpy(&d->outBuf[mv], frame, L * sizeof(opus_int16));
      __wrap_silk_CNG(d, &ctrl, frame, L);
      d->lagPrev = ctrl.pitchL[nb - 1];
   }
   free(frame);
   return 0;
}

/* crafted bit-streams: side information and excitation written with the real range encoder (silk_encode_indices /
   silk_encode_pulses, as harness/silkidx.c does), decoded by the real silk_decode_frame: up to three voiced frames of one packet
   whose lagIndex starts at li and moves by dl per frame (delta coding: beyond the absolute range), contour ci; then two concealed
   frames; then an unvoiced frame (the forced voiced->unvoiced transition with the concealed lag) */
static silk_encoder_state g_enc;
static void enc_setup(silk_encoder_state *s, int fs, int nb)
{
   memset(s, 0, sizeof *s);
   s->fs_kHz = fs; s->nb_subfr = nb; s->subfr_length = 5 * fs; s->frame_length = nb * s->subfr_length;
   s->predictLPCOrder = fs == 16 ? 16 : 10;
   s->psNLSF_CB = fs == 16 ? &silk_NLSF_CB_WB : &silk_NLSF_CB_NB_MB;
   s->pitch_lag_low_bits_iCDF = fs == 16 ? silk_uniform8_iCDF : fs == 12 ? silk_uniform6_iCDF : silk_uniform4_iCDF;
   if (fs == 8) s->pitch_contour_iCDF = nb == 4 ? silk_pitch_contour_NB_iCDF : silk_pitch_contour_10_ms_NB_iCDF;
   else s->pitch_contour_iCDF = nb == 4 ? silk_pitch_contour_iCDF : silk_pitch_contour_10_ms_iCDF;
}
static void rand_indices(SideInfoIndices *ix, hx_rng *r, int fs, int nb, int sig, int li, int ci, int ip, int cond)
{
   int k, order = fs == 16 ? 16 : 10;
   memset(ix, 0, sizeof *ix);
   ix->signalType = (opus_int8)sig; ix->quantOffsetType = (opus_int8)hx_u(r, 2);
   ix->GainsIndices[0] = (opus_int8)(cond == CODE_CONDITIONALLY ? hx_range(r, 2, 8) : hx_range(r, 18, 50));
   for (k = 1; k < nb; k++) ix->GainsIndices[k] = (opus_int8)hx_range(r, 1, 9);
   ix->NLSFIndices[0] = (opus_int8)hx_u(r, 32);
   for (k = 1; k <= order; k++) ix->NLSFIndices[k] = (opus_int8)hx_range(r, -3, 3);
   ix->NLSFInterpCoef_Q2 = (opus_int8)(nb == 4 && ip ? hx_u(r, 4) : 4);
   ix->lagIndex = (opus_int16)li; ix->contourIndex = (opus_int8)ci;
   ix->PERIndex = (opus_int8)hx_u(r, 3);
   for (k = 0; k < nb; k++) ix->LTPIndex[k] = (opus_int8)hx_u(r, 8 << ix->PERIndex);
   ix->LTP_scaleIndex = (opus_int8)(cond == CODE_INDEPENDENTLY ? hx_u(r, 3) : 0);
   ix->Seed = (opus_int8)hx_u(r, 4);
}
static int fn_bits(hx_rng *r, int fs, int nb, int li, int ci, int ip, int dl, int nfr)
{
   static unsigned char buf[1275]; static opus_int8 pul8[MAX_FRAME_LENGTH + SHELL_CODEC_FRAME_LENGTH];
   silk_decoder_state *d = &g_st; ec_enc enc; ec_dec dec; int f, i, L, pk; opus_int16 *out; opus_int32 n;
   start_state(d, fs, nb);
   L = d->frame_length;
   out = (opus_int16 *)malloc(L * sizeof *out); if (!out) return 9;
   for (pk = 0; pk < 2; pk++) {
      int frames = pk == 0 ? nfr : 1;
      enc_setup(&g_enc, fs, nb);
      memset(buf, 0, sizeof buf);
      ec_enc_init(&enc, buf, sizeof buf);
      for (f = 0; f < frames; f++) {
         int cond = f == 0 ? CODE_INDEPENDENTLY : CODE_CONDITIONALLY, sig = pk == 0 ? TYPE_VOICED : TYPE_UNVOICED;
         rand_indices(&g_enc.indices, r, fs, nb, sig, li + f * dl, ci, ip, cond);
         for (i = 0; i < L + SHELL_CODEC_FRAME_LENGTH; i++) pul8[i] = (opus_int8)(i < L && !hx_u(r, 3) ? hx_range(r, -5, 5) : 0);
         silk_encode_indices(&g_enc, &enc, f, 0, cond);
         silk_encode_pulses(&enc, sig, g_enc.indices.quantOffsetType, pul8, L);
      }
      ec_enc_done(&enc);
      if (ec_get_error(&enc)) { free(out); return 8; }
      ec_dec_init(&dec, buf, sizeof buf);
      memset(d->VAD_flags, 0, sizeof d->VAD_flags); memset(d->LBRR_flags, 0, sizeof d->LBRR_flags);
      d->nFramesDecoded = 0; d->nFramesPerPacket = frames;
      for (f = 0; f < frames; f++) {
         d->VAD_flags[f] = 1;
         __wrap_silk_decode_frame(d, &dec, out, &n, FLAG_DECODE_NORMAL, f == 0 ? CODE_INDEPENDENTLY : CODE_CONDITIONALLY, d->arch);
         d->nFramesDecoded++;
      }
      if (pk == 0) for (f = 0; f < 2; f++) { d->nFramesDecoded = 0; __wrap_silk_decode_frame(d, &dec, out, &n, FLAG_PACKET_LOST, CODE_INDEPENDENTLY, d->arch); }
   }
   free(out);
   return 0;
}

static int run_fn(unsigned long seed)
{
   static char line[512]; hx_rng r; int id = 0, a[10], rc = 0;
   r.s = seed * 2654435761UL + 1501;
   while (fgets(line, sizeof line, stdin) && !rc) {
      if (line[0] == 'C' && sscanf(line + 1, "%d %d %d %d %d %d %d %d %d %d", a, a + 1, a + 2, a + 3, a + 4, a + 5, a + 6, a + 7, a + 8, a + 9) == 10) {
         ev_new(++id, "fn"); rc = fn_core(&r, a[0], a[1], a[2], a[3], a[4], a[5], a[6], a[7], a[8], a[9]);
      } else if (line[0] == 'P' && sscanf(line + 1, "%d %d %d %d %d", a, a + 1, a + 2, a + 3, a + 4) == 5) {
         ev_new(++id, "fn"); rc = fn_plc(&r, a[0], a[1], a[2], a[3], a[4]);
      } else if (line[0] == 'B' && sscanf(line + 1, "%d %d %d %d %d %d %d", a, a + 1, a + 2, a + 3, a + 4, a + 5, a + 6) == 7) {
         ev_new(++id, "bits"); rc = fn_bits(&r, a[0], a[1], a[2], a[3], a[4], a[5], a[6]);
      } else if (line[0] == 'F' && sscanf(line + 1, "%d %d %d %d", a, a + 1, a + 2, a + 3) == 4) {
         ev_new(++id, "fn"); start_state(&g_st, a[0], a[1]); fill_state(&g_st, &r, 500);
         g_st.nb_subfr = a[3]; __wrap_silk_decoder_set_fs(&g_st, a[2], 48000);
      }
   }
   return rc;
}

/* ------------------------------------------------------------------ in situ (the stream generator of harness/silkplc.c) */
typedef struct { hx_rng r; double ph, t; double lp; } sgen;
static double sample_of(sgen *s, int kind, int fs)
{
   double t = s->t, v = 0, u = hx_unit(&s->r) * 2 - 1; int h, seg, k = kind;
   double f0 = (kind == 5 ? 58.0 : kind == 6 ? 430.0 : 140.0) + (kind >= 5 ? 4.0 : 45.0) * sin(2 * M_PI * 1.1 * t) + (kind >= 5 ? 2.0 : 15.0) * sin(2 * M_PI * 0.31 * t);
   s->t += 1.0 / fs;
   if (kind == 4) { seg = (int)(t / 0.3) % 5; k = seg == 0 ? 0 : seg == 1 ? 1 : seg == 2 ? 2 : seg == 3 ? 0 : 9; }
   if (kind == 3) { double m = fmod(t, 0.9); k = m < 0.55 ? 0 : 9; }
   if (kind >= 5) k = 0;                      /* 5: very low pitch (lags near 18 ms), 6: very high pitch (lags near 2 ms) */
   s->ph += 2 * M_PI * f0 / fs; if (s->ph > 2 * M_PI * 64) s->ph -= 2 * M_PI * 64;
   switch (k) {
   case 0: for (h = 1; h <= 10; h++) if (h * f0 < 0.45 * fs) v += sin(h * s->ph + 0.3 * h) / h;
           return 0.25 * (0.6 + 0.3 * sin(2 * M_PI * 2.3 * t)) * v + (kind == 3 ? 0.0 : 0.003 * u);
   case 1: v = 0.75 * u - 0.45 * s->lp; s->lp = u; return 0.2 * (0.7 + 0.3 * sin(2 * M_PI * 5.1 * t)) * v;
   case 2: return 0.004 * u;
   default: return 0.0;
   }
}

#define MAXPK 1200
static unsigned char g_pk[MAXPK][700]; static int g_pkn[MAXPK], g_pkfr[MAXPK];

static int run_stream(int id, int bw, int ch, int ms, int kind, int fec, int sw, unsigned long seed, int warm, int gap, char *pats)
{
   static const int BW[5] = {OPUS_BANDWIDTH_NARROWBAND, OPUS_BANDWIDTH_MEDIUMBAND, OPUS_BANDWIDTH_WIDEBAND, OPUS_BANDWIDTH_SUPERWIDEBAND, OPUS_BANDWIDTH_FULLBAND};
   int err, npk = warm, i, c, n, k, cur_ms = ms, cur_bw = bw; char *q; sgen sg; OpusEncoder *e; OpusDecoder *d;
   static float in[2880 * 2]; static opus_int16 out[2880 * 2 * 2];
   for (q = pats; *q; q++) { if (*q == 'G' || *q == 'L' || *q == 'F') npk++; else if (*q == 'X') npk += 24; else if (*q == ' ') npk += gap; }
   npk += gap + 2; if (npk > MAXPK) npk = MAXPK;
   memset(&sg, 0, sizeof sg); sg.r.s = seed * 2654435761UL + 5;
   e = opus_encoder_create(48000, ch, OPUS_APPLICATION_VOIP, &err); if (!e) return 4;
   opus_encoder_ctl(e, OPUS_SET_BITRATE((bw >= 3 ? 28000 : 14000 + 4000 * bw) * ch + (int)(seed % 5) * 2000));
   opus_encoder_ctl(e, OPUS_SET_INBAND_FEC(fec)); opus_encoder_ctl(e, OPUS_SET_PACKET_LOSS_PERC(fec ? 25 : 0));
   opus_encoder_ctl(e, OPUS_SET_DTX((seed >> 3) & 1));
   opus_encoder_ctl(e, OPUS_SET_COMPLEXITY(3));
   for (i = 0; i < npk; i++) {
      int frame;
      if (sw && i == npk / 2) { if (sw == 1) cur_bw = bw >= 3 ? 2 : (bw + 1) % 3; else cur_ms = ms == 10 ? 20 : 10; }
      frame = 48 * cur_ms;
      opus_encoder_ctl(e, OPUS_SET_FORCE_MODE(cur_bw >= 3 ? MODE_HYBRID : MODE_SILK_ONLY));
      opus_encoder_ctl(e, OPUS_SET_BANDWIDTH(BW[cur_bw])); opus_encoder_ctl(e, OPUS_SET_MAX_BANDWIDTH(BW[cur_bw]));
      for (k = 0; k < frame; k++) { double v = sample_of(&sg, kind, 48000); for (c = 0; c < ch; c++) in[k * ch + c] = (float)(c ? 0.7 * v + 0.002 * (hx_unit(&sg.r) - 0.5) : v); }
      n = opus_encode_float(e, in, frame, g_pk[i], sizeof g_pk[i]);
      if (n < 0) { opus_encoder_destroy(e); return 5; }
      g_pkn[i] = n; g_pkfr[i] = frame;
   }
   opus_encoder_destroy(e);
   ev_new(id, "situ");
   d = opus_decoder_create(48000, ch, &err); if (!d) return 6;
   i = 0;
   for (k = 0; k < warm && i < npk; k++, i++) n = opus_decode(d, g_pk[i], g_pkn[i], out, 2880 * 2, 0);
   for (q = pats; *q && i < npk - 1; q++) {
      int rep = 1;
      if (*q == ' ') { for (k = 0; k < gap && i < npk; k++, i++) n = opus_decode(d, g_pk[i], g_pkn[i], out, 2880 * 2, 0); continue; }
      if (*q == 'R') { opus_decoder_ctl(d, OPUS_RESET_STATE); continue; }
      if (*q == 'X') rep = 24;
      for (k = 0; k < rep && i < npk - 1; k++, i++) {
         if (*q == 'G') n = opus_decode(d, g_pk[i], g_pkn[i], out, 2880 * 2, 0);
         else if (*q == 'F') n = opus_decode(d, g_pk[i + 1], g_pkn[i + 1], out, g_pkfr[i], 1);
         else n = opus_decode(d, NULL, 0, out, g_pkfr[i], 0);
      }
   }
   for (k = 0; k < 2 && i < npk; k++, i++) n = opus_decode(d, g_pk[i], g_pkn[i], out, 2880 * 2, 0);
   (void)n;
   opus_decoder_destroy(d);
   return 0;
}

/* ------------------------------------------------------------------ the table words module SilkParams reads (IOEnv.SILKTAB; the same JSON
   line as "hx_silk tables" of harness/silk.c: the contour code books are what SilkDecCore_mc needs) */
static void p_u8(const char *key, const opus_uint8 *a, int n) { int i; printf("\"%s\":[", key); for (i = 0; i < n; i++) printf(i ? ",%d" : "%d", a[i]); printf("]"); }
static void p_i16(const char *key, const opus_int16 *a, int n) { int i; printf("\"%s\":[", key); for (i = 0; i < n; i++) printf(i ? ",%d" : "%d", a[i]); printf("]"); }
static void p_i8_2d(const char *key, const opus_int8 *a, int rows, int cols)
{
   int r, c; printf("\"%s\":[", key);
   for (r = 0; r < rows; r++) { printf(r ? ",[" : "["); for (c = 0; c < cols; c++) printf(c ? ",%d" : "%d", a[r * cols + c]); printf("]"); }
   printf("]");
}
static void p_cb(const silk_NLSF_CB_struct *cb)
{
   int nv = cb->nVectors, o = cb->order;
   printf("{\"nv\":%d,\"order\":%d,\"qstep\":%d,\"invq\":%d,", nv, o, cb->quantStepSize_Q16, cb->invQuantStepSize_Q6);
   p_u8("cb1", cb->CB1_NLSF_Q8, nv * o); printf(","); p_i16("w", cb->CB1_Wght_Q9, nv * o); printf(",");
   p_u8("icdf1", cb->CB1_iCDF, 2 * nv); printf(","); p_u8("pred", cb->pred_Q8, 2 * (o - 1)); printf(",");
   p_u8("sel", cb->ec_sel, nv * o / 2); printf(","); p_u8("ecicdf", cb->ec_iCDF, 8 * (2 * NLSF_QUANT_MAX_AMPLITUDE + 1)); printf(",");
   p_i16("dmin", cb->deltaMin_Q15, o + 1); printf("}");
}
static int cmd_tables(void)
{
   printf("{\"k\":\"tables\",");
   printf("\"gain\":{\"nlev\":%d,\"mindb\":%d,\"maxdb\":%d,\"mind\":%d,\"maxd\":%d},", N_LEVELS_QGAIN, MIN_QGAIN_DB, MAX_QGAIN_DB, MIN_DELTA_GAIN_QUANT, MAX_DELTA_GAIN_QUANT);
   printf("\"lag\":{\"minms\":%d,\"maxms\":%d,", PE_MIN_LAG_MS, PE_MAX_LAG_MS);
   p_i8_2d("s2", &silk_CB_lags_stage2[0][0], PE_MAX_NB_SUBFR, PE_NB_CBKS_STAGE2_EXT); printf(",");
   p_i8_2d("s2_10", &silk_CB_lags_stage2_10_ms[0][0], PE_MAX_NB_SUBFR >> 1, PE_NB_CBKS_STAGE2_10MS); printf(",");
   p_i8_2d("s3", &silk_CB_lags_stage3[0][0], PE_MAX_NB_SUBFR, PE_NB_CBKS_STAGE3_MAX); printf(",");
   p_i8_2d("s3_10", &silk_CB_lags_stage3_10_ms[0][0], PE_MAX_NB_SUBFR >> 1, PE_NB_CBKS_STAGE3_10MS);
   printf("},\"cb\":["); p_cb(&silk_NLSF_CB_NB_MB); printf(","); p_cb(&silk_NLSF_CB_WB);
   printf("],\"nlsf\":{\"maxamp\":%d,\"maxampext\":%d,\"adjq10\":%d},", NLSF_QUANT_MAX_AMPLITUDE, NLSF_QUANT_MAX_AMPLITUDE_EXT, (int)SILK_FIX_CONST(NLSF_QUANT_LEVEL_ADJ, 10));
   p_i16("cos", silk_LSFCosTab_FIX_Q12, LSF_COS_TAB_SZ_FIX + 1);
   printf("}\n");
   return 0;
}

int main(int argc, char **argv)
{
   static char line[1 << 16];
   hx_watchdog_init(); hx_arm(1500);
   if (argc >= 2 && !strcmp(argv[1], "tables")) return cmd_tables();
   if (argc >= 3 && !strcmp(argv[1], "fn")) return run_fn(strtoul(argv[2], NULL, 10));
   if (argc >= 2 && !strcmp(argv[1], "situ")) {
      while (fgets(line, sizeof line, stdin)) {
         int id, bw, ch, ms, kind, fec, sw, warm, gap, off = 0, rc; unsigned long seed; char *bar;
         if (line[0] != 'S') continue;
         if (sscanf(line + 1, "%d %d %d %d %d %d %d %lu %d %d %n", &id, &bw, &ch, &ms, &kind, &fec, &sw, &seed, &warm, &gap, &off) < 10) return 7;
         bar = strchr(line, '|'); if (!bar) return 7;
         { char *nl = strchr(bar, '\n'); if (nl) *nl = 0; }
         rc = run_stream(id, bw, ch, ms, kind, fec, sw, seed, warm, gap, bar + 1);
         if (rc) return rc;
      }
      return 0;
   }
   fprintf(stderr, "usage: hx_silkdeccore fn seed < plan | situ < streams\n");
   return 2;
}
