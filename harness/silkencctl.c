/* G10 (SilkEncCtl): the SILK encoder's control / rate-bookkeeping state machine.
   The harness only executes and records; spec/SilkEncCtlTrace.tla judges.

   stdin, one execution per line.

   D <seed> | tok tok ...          drives silk_Encode() DIRECTLY (silk_InitEncoder + one ec_enc per packet):
       field=<v>   sets a field of silk_EncControlStruct for the following calls:
                   api max min des ms br lo cx fec lb dtx cbr mb tm cs rd na ni     (mb=-1: maxBits = 3/2 of the packet's bits)
       pa=<0|1>    protocol: opusCanSwitch of a call := switchReady of the previous one (as the Opus layer does)
       av=<-1|0|1> the Opus layer's activity decision handed to silk_Encode
       c<k><n>     n calls with one whole packet each on signal class k (v voice-like, m music-like, s silence, n faint noise,
                   w wide stereo noise, t tones)
       h<k>        one call with 10 ms of input (legal for a 20 ms packet: half a frame is buffered)
       p1 / p2     a prefill call (10 ms, prefillFlag 1 / 2)
       k           check_control_input() alone on the current control structure
     after every call an event "sc" with the control inputs, the outputs and the private state read through the structs
     (silk_encoder -> state_Fxx[n].sCmn.*, sLP, nBitsExceeded, ...).

   X <Fs> <ch> <app> <seed> | op op ...   drives the real Opus encoder (ops as harness/encmode.c: fm= fc= bw= mb= sg= br= vb= cv= cx=
       dx= fe= lo= q= mx= rs e<k><n>); after every opus_encode an event "oe" with the silk_mode fields of the OpusEncoder
       (a start-up-checked mirror of its first members), the SILK state, the packet and what a real decoder made of it. */
#include "hx_common.h"
#include <math.h>
#include <unistd.h>
#include <sys/types.h>
#include <sys/wait.h>
#include "opus.h"
#include "opus_private.h"
#include "celt/entenc.h"
#include "silk/API.h"
#include "silk/control.h"
#ifdef FIXED_POINT
#include "silk/fixed/structs_FIX.h"
#else
#include "silk/float/structs_FLP.h"
#endif

extern int opus_verif_encoder_peek(const OpusEncoder *st, int field);
extern opus_int check_control_input(silk_EncControlStruct *encControl);

/* the first members of struct OpusEncoder (src/opus_encoder.c); checked at start-up */
typedef struct { int celt_enc_offset; int silk_enc_offset; silk_EncControlStruct silk_mode; } enc_mirror;

/* ------------------------------------------------------------------------------------------------ signals */
typedef struct { hx_rng r; double phase, t, ph2[8]; } sgen_t;
static sgen_t G;
static void sig_init(unsigned long seed) { memset(&G, 0, sizeof G); G.r.s = seed * 2654435761UL + 17; }
static double speechy(int fs)
{
   double t = G.t, f0, env, v = 0, nb; int h;
   f0 = 150.0 + 60.0 * sin(2 * M_PI * 1.3 * t) + 25.0 * sin(2 * M_PI * 0.37 * t);
   env = 0.55 + 0.35 * sin(2 * M_PI * 3.7 * t) * sin(2 * M_PI * 0.9 * t + 0.4);
   G.phase += 2 * M_PI * f0 / fs;
   if (G.phase > 2 * M_PI * 64) G.phase -= 2 * M_PI * 64;
   for (h = 1; h <= 12; h++) if (h * f0 < 0.45 * fs) v += sin(h * G.phase + 0.3 * h) / h;
   nb = (fmod(t, 0.31) < 0.06) ? 0.25 : 0.04;
   return 0.28 * env * v + nb * env * (hx_unit(&G.r) * 2 - 1);
}
static void gen_sig(int kind, float *x, int n, int ch, int fs)
{
   static const double CHD[8] = {220.0, 277.18, 329.63, 440.0, 659.25, 1318.5, 3520.0, 7040.0};
   static const double NBT[4] = {310.0, 740.0, 1290.0, 2450.0};
   int i, c, k;
   for (i = 0; i < n; i++) {
      double v = 0, w = 0;
      switch (kind) {
      case 'v': v = speechy(fs); w = 0.8 * v; break;
      case 'n': v = 4e-4 * (hx_unit(&G.r) * 2 - 1); w = 4e-4 * (hx_unit(&G.r) * 2 - 1); break;
      case 'w': v = 0.25 * (hx_unit(&G.r) * 2 - 1); w = 0.25 * (hx_unit(&G.r) * 2 - 1); break;
      case 'm':
         for (k = 0; k < 8; k++) {
            G.ph2[k] += 2 * M_PI * CHD[k] / fs;
            if (G.ph2[k] > 2 * M_PI * 16) G.ph2[k] -= 2 * M_PI * 16;
            if (CHD[k] < 0.45 * fs) { v += (k & 1 ? 0.03 : 0.08) * sin(G.ph2[k]); w += (k & 1 ? 0.08 : 0.03) * sin(G.ph2[k] + 0.7 * k); }
         }
         v += 0.02 * (hx_unit(&G.r) * 2 - 1); w += 0.02 * (hx_unit(&G.r) * 2 - 1);
         break;
      case 't':
         for (k = 0; k < 4; k++) { G.ph2[k] += 2 * M_PI * NBT[k] / fs; if (G.ph2[k] > 2 * M_PI * 16) G.ph2[k] -= 2 * M_PI * 16; v += 0.1 * sin(G.ph2[k]); }
         w = v;
         break;
      default: break;
      }
      for (c = 0; c < ch; c++) x[(size_t)i * ch + c] = (float)((c & 1) ? w : v);
      G.t += 1.0 / fs;
   }
}

/* ------------------------------------------------------------------------------------------------ state vectors */
#define NCH 55
static void chan_vec(const silk_encoder *se, int n, int *v)
{
   const silk_encoder_state *s = &se->state_Fxx[n].sCmn; int i = 0;
   v[i++] = s->fs_kHz; v[i++] = s->PacketSize_ms; v[i++] = s->nFramesPerPacket; v[i++] = s->nb_subfr; v[i++] = s->frame_length;
   v[i++] = s->nFramesEncoded; v[i++] = s->inputBufIx; v[i++] = s->first_frame_after_reset; v[i++] = s->controlled_since_last_payload;
   v[i++] = s->prefillFlag; v[i++] = s->LBRR_enabled; v[i++] = s->LBRR_GainIncreases; v[i++] = s->PacketLoss_perc;
   v[i++] = s->TargetRate_bps; v[i++] = s->SNR_dB_Q7; v[i++] = s->Complexity; v[i++] = s->sLP.mode; v[i++] = s->sLP.transition_frame_no;
   v[i++] = s->sLP.saved_fs_kHz; v[i++] = s->prev_API_fs_Hz; v[i++] = s->API_fs_Hz; v[i++] = s->useDTX; v[i++] = s->inDTX;
   v[i++] = s->noSpeechCounter; v[i++] = s->allow_bandwidth_switch; v[i++] = s->LBRR_flags[0]; v[i++] = s->LBRR_flags[1];
   v[i++] = s->LBRR_flags[2]; v[i++] = s->LBRR_flag; v[i++] = s->speech_activity_Q8; v[i++] = s->VAD_flags[0]; v[i++] = s->VAD_flags[1];
   v[i++] = s->VAD_flags[2];
   v[i++] = s->subfr_length; v[i++] = s->ltp_mem_length; v[i++] = s->la_pitch; v[i++] = s->max_pitch_lag; v[i++] = s->pitch_LPC_win_length;
   v[i++] = s->predictLPCOrder; v[i++] = s->pitchEstimationComplexity; v[i++] = s->pitchEstimationThreshold_Q16;
   v[i++] = s->pitchEstimationLPCOrder; v[i++] = s->shapingLPCOrder; v[i++] = s->la_shape; v[i++] = s->nStatesDelayedDecision;
   v[i++] = s->useInterpolatedNLSFs; v[i++] = s->NLSF_MSVQ_Survivors; v[i++] = s->warping_Q16; v[i++] = s->shapeWinLength;
   v[i++] = s->indices.NLSFInterpCoef_Q2; v[i++] = s->maxInternal_fs_Hz; v[i++] = s->minInternal_fs_Hz; v[i++] = s->desiredInternal_fs_Hz;
   v[i++] = s->useInBandFEC; v[i++] = s->useCBR;
   if (i != NCH) { fprintf(stderr, "hx_silkencctl: chan_vec %d\n", i); exit(3); }
}
#define NSU 8
static void super_vec(const silk_encoder *se, int *v)
{
   v[0] = se->nBitsUsedLBRR; v[1] = se->nBitsExceeded; v[2] = se->nChannelsAPI; v[3] = se->nChannelsInternal; v[4] = se->nPrevChannelsInternal;
   v[5] = se->timeSinceSwitchAllowed_ms; v[6] = se->allowBandwidthSwitch; v[7] = se->prev_decode_only_middle;
}
static void log_state(const silk_encoder *se)
{
   int su[NSU], c0[NCH], c1[NCH], mo[3];
   super_vec(se, su); chan_vec(se, 0, c0); chan_vec(se, 1, c1);
   mo[0] = se->sStereo.mid_only_flags[0]; mo[1] = se->sStereo.mid_only_flags[1]; mo[2] = se->sStereo.mid_only_flags[2];
   js_arr_i("su", su, NSU); js_arr_i("c0", c0, NCH); js_arr_i("c1", c1, NCH); js_arr_i("mo", mo, 3);
}
#define NCT 18
static void ctl_vec(const silk_EncControlStruct *c, int *v)
{
   int i = 0;
   v[i++] = c->API_sampleRate; v[i++] = c->maxInternalSampleRate; v[i++] = c->minInternalSampleRate; v[i++] = c->desiredInternalSampleRate;
   v[i++] = c->payloadSize_ms; v[i++] = c->bitRate; v[i++] = c->packetLossPercentage; v[i++] = c->complexity; v[i++] = c->useInBandFEC;
   v[i++] = c->LBRR_coded; v[i++] = c->useDTX; v[i++] = c->useCBR; v[i++] = c->maxBits; v[i++] = c->toMono; v[i++] = c->opusCanSwitch;
   v[i++] = c->reducedDependency; v[i++] = c->nChannelsAPI; v[i++] = c->nChannelsInternal;
}

/* ------------------------------------------------------------------------------------------------ direct mode */
static silk_encoder *SE;
static silk_EncControlStruct CT;
static int d_mbauto, d_pa, d_av, d_lastready, d_open;       /* d_open: a packet is partly buffered (the range coder lives on) */
static ec_enc d_enc;
static unsigned char d_buf[1500];

static int d_maxbits(void) { return d_mbauto ? (int)((long)CT.bitRate * CT.payloadSize_ms / 1000 * 3 / 2) : CT.maxBits; }

static void d_call(int kind, int pf, int nblk)
{
   static float pcm[960 * 6 * 2]; static opus_res in[960 * 6 * 2];
   silk_EncControlStruct c; int cin[NCT], n, i, ret, tell; opus_int32 nBytes;
   CT.maxBits = d_maxbits();
   if (d_pa) CT.opusCanSwitch = d_lastready;
   c = CT; c.switchReady = 0;
   n = nblk * (c.API_sampleRate / 100);
   if (n > 960 * 6) return;
   gen_sig(kind, pcm, n, c.nChannelsAPI, c.API_sampleRate);
   for (i = 0; i < n * c.nChannelsAPI; i++) in[i] = FLOAT2RES(pcm[i]);
   if (!d_open) {
      int bytes = c.maxBits / 8; if (bytes < 8) bytes = 8; if (bytes > 1275) bytes = 1275;
      memset(d_buf, 0, sizeof d_buf);
      ec_enc_init(&d_enc, d_buf, (opus_uint32)bytes);
   }
   ctl_vec(&c, cin);
   nBytes = 1275;
   ret = silk_Encode(SE, &c, in, n, &d_enc, &nBytes, pf, d_av);
   tell = ec_tell(&d_enc);
   d_open = (ret == 0 && SE->state_Fxx[0].sCmn.inputBufIx > 0);
   d_lastready = (ret == 0) ? c.switchReady : 0;
   if (d_pa) CT.opusCanSwitch = 0;
   js_open("sc"); js_arr_i("cin", cin, NCT); js_int("pf", pf); js_int("nblk", nblk); js_int("av", d_av); printf(",\"sk\":\"%c\"", kind);
   js_int("ret", ret); js_int("out", nBytes); js_int("tell", tell); js_int("err", d_enc.error);
   js_int("sr", c.switchReady); js_int("mbo", c.maxBits); js_int("al", c.allowBandwidthSwitch); js_int("wb", c.inWBmodeWithoutVariableLP);
   js_int("ir", c.internalSampleRate); js_int("ms2", c.payloadSize_ms); js_int("cx2", c.complexity);
   log_state(SE); js_close();
}

/* check_control_input() in a child process: a build with assertions answers an illegal structure with celt_assert(0).
   Returns the function's value, or -999 when the child was killed by the assertion */
static int ck_fork(const silk_EncControlStruct *cc)
{
   silk_EncControlStruct c = *cc; int ret = -998, status = 0; pid_t pid;
   fflush(stdout);
   pid = fork();
   if (pid == 0) { int r; signal(SIGABRT, SIG_DFL); fclose(stderr); r = check_control_input(&c); _exit(r == 0 ? 0 : (-r) - 100); }
   if (pid > 0 && waitpid(pid, &status, 0) == pid) {
      if (WIFEXITED(status)) { int x = WEXITSTATUS(status); ret = x == 0 ? 0 : -(x + 100); }
      else if (WIFSIGNALED(status)) ret = -999;
   }
   return ret;
}
static void d_check(void)
{
   int cin[NCT];
   ctl_vec(&CT, cin);
   js_open("ck"); js_arr_i("cin", cin, NCT); js_int("ret", ck_fork(&CT)); js_close();
}

static void run_direct(char *line, int lineno)
{
   char *bar = strchr(line, '|'), *tok; unsigned long seed = 1; int sz = 0; silk_EncControlStruct st;
   if (!bar || sscanf(line, "D %lu", &seed) != 1) return;
   silk_Get_Encoder_Size(&sz);
   if (sz != (int)sizeof(silk_encoder)) { fprintf(stderr, "hx_silkencctl: silk_encoder is %d bytes, the library says %d\n", (int)sizeof(silk_encoder), sz); exit(3); }
   SE = (silk_encoder *)calloc(1, (size_t)sz);
   memset(&st, 0, sizeof st);
   if (silk_InitEncoder(SE, 0, &st) != 0) exit(3);
   memset(&CT, 0, sizeof CT);
   CT.nChannelsAPI = 1; CT.nChannelsInternal = 1; CT.API_sampleRate = 48000; CT.maxInternalSampleRate = 16000; CT.minInternalSampleRate = 8000;
   CT.desiredInternalSampleRate = 16000; CT.payloadSize_ms = 20; CT.bitRate = 24000; CT.complexity = 5; CT.maxBits = 1000;
   d_mbauto = 1; d_pa = 0; d_av = 1; d_lastready = 0; d_open = 0;
   sig_init(seed);
   js_open("dnew"); js_int("x", lineno); log_state(SE); js_close();
   for (tok = strtok(bar + 1, " \t\r\n"); tok; tok = strtok(NULL, " \t\r\n")) {
      char *eq = strchr(tok, '=');
      if (eq) {
         int v = atoi(eq + 1); *eq = 0;
         if (!strcmp(tok, "api")) CT.API_sampleRate = v; else if (!strcmp(tok, "max")) CT.maxInternalSampleRate = v;
         else if (!strcmp(tok, "min")) CT.minInternalSampleRate = v; else if (!strcmp(tok, "des")) CT.desiredInternalSampleRate = v;
         else if (!strcmp(tok, "ms")) CT.payloadSize_ms = v; else if (!strcmp(tok, "br")) CT.bitRate = v;
         else if (!strcmp(tok, "lo")) CT.packetLossPercentage = v; else if (!strcmp(tok, "cx")) CT.complexity = v;
         else if (!strcmp(tok, "fec")) CT.useInBandFEC = v; else if (!strcmp(tok, "lb")) CT.LBRR_coded = v;
         else if (!strcmp(tok, "dtx")) CT.useDTX = v; else if (!strcmp(tok, "cbr")) CT.useCBR = v;
         else if (!strcmp(tok, "mb")) { if (v < 0) d_mbauto = 1; else { d_mbauto = 0; CT.maxBits = v; } }
         else if (!strcmp(tok, "tm")) CT.toMono = v; else if (!strcmp(tok, "cs")) CT.opusCanSwitch = v;
         else if (!strcmp(tok, "rd")) CT.reducedDependency = v; else if (!strcmp(tok, "na")) CT.nChannelsAPI = v;
         else if (!strcmp(tok, "ni")) CT.nChannelsInternal = v; else if (!strcmp(tok, "pa")) d_pa = v; else if (!strcmp(tok, "av")) d_av = v;
      } else if (!strcmp(tok, "k")) d_check();
      else {
         /* silk_Encode is only ever called with a control structure check_control_input() accepts and an input length it accepts
            (an illegal one ends in celt_assert(0)); the legality predicate itself is exercised through `k' */
         silk_EncControlStruct c = CT; int legal = ck_fork(&c) == 0 && (c.API_sampleRate % 8000) == 0 && c.bitRate > 0 && c.bitRate <= 500000;
         if (!legal || d_maxbits() < 0 || d_maxbits() > 80000) continue;
         if (tok[0] == 'c' && tok[1]) { int n = atoi(tok + 2), i; if (n < 1) n = 1; if (n > 3000) n = 3000; if (d_open) continue; for (i = 0; i < n; i++) d_call(tok[1], 0, CT.payloadSize_ms / 10); }
         else if (tok[0] == 'h' && tok[1]) { if (CT.payloadSize_ms == 20) d_call(tok[1], 0, 1); }
         else if (!strcmp(tok, "p1") || !strcmp(tok, "p2")) { if (!d_open) d_call('v', tok[1] - '0', 1); }
      }
   }
   js_open("end"); js_int("x", lineno); js_close();
   fflush(stdout);
   free(SE); SE = NULL;
}

/* ------------------------------------------------------------------------------------------------ Opus mode */
#define NPK 23
static OpusEncoder *enc; static OpusDecoder *dec;
static int Fs, CHN, APP, q_units, mx;

static void o_ctl(const char *name, int v)
{
   int r = -9999;
   if (!strcmp(name, "fm")) r = opus_encoder_ctl(enc, OPUS_SET_FORCE_MODE(v));
   else if (!strcmp(name, "fc")) r = opus_encoder_ctl(enc, OPUS_SET_FORCE_CHANNELS(v));
   else if (!strcmp(name, "bw")) r = opus_encoder_ctl(enc, OPUS_SET_BANDWIDTH(v));
   else if (!strcmp(name, "mb")) r = opus_encoder_ctl(enc, OPUS_SET_MAX_BANDWIDTH(v));
   else if (!strcmp(name, "sg")) r = opus_encoder_ctl(enc, OPUS_SET_SIGNAL(v));
   else if (!strcmp(name, "br")) r = opus_encoder_ctl(enc, OPUS_SET_BITRATE(v));
   else if (!strcmp(name, "vb")) r = opus_encoder_ctl(enc, OPUS_SET_VBR(v));
   else if (!strcmp(name, "cv")) r = opus_encoder_ctl(enc, OPUS_SET_VBR_CONSTRAINT(v));
   else if (!strcmp(name, "cx")) r = opus_encoder_ctl(enc, OPUS_SET_COMPLEXITY(v));
   else if (!strcmp(name, "dx")) r = opus_encoder_ctl(enc, OPUS_SET_DTX(v));
   else if (!strcmp(name, "fe")) r = opus_encoder_ctl(enc, OPUS_SET_INBAND_FEC(v));
   else if (!strcmp(name, "lo")) r = opus_encoder_ctl(enc, OPUS_SET_PACKET_LOSS_PERC(v));
   else if (!strcmp(name, "rs")) { r = opus_encoder_ctl(enc, OPUS_RESET_STATE); opus_decoder_ctl(dec, OPUS_RESET_STATE); }
   js_open("octl"); js_str("rq", name); js_int("v", v); js_int("r", r); js_close();
}
static int getter(int req) { opus_int32 v = -77777; opus_encoder_ctl(enc, req, &v); return (int)v; }

static void o_encode(int kind)
{
   static float pcm[5760 * 2], out[5760 * 2];
   unsigned char *pkt; int fsz = q_units * (Fs / 400), r, i, pk[NPK], sm[NCT + 4];
   const enc_mirror *em = (const enc_mirror *)enc; const silk_encoder *se = (const silk_encoder *)((const char *)enc + em->silk_enc_offset);
   opus_uint32 rngE = 0, rngD = 0;
   gen_sig(kind, pcm, fsz, CHN, Fs);
   pkt = (unsigned char *)malloc(mx > 0 ? mx : 1);
   r = opus_encode_float(enc, pcm, fsz, pkt, mx);
   for (i = 0; i < NPK; i++) pk[i] = opus_verif_encoder_peek(enc, i);
   opus_encoder_ctl(enc, OPUS_GET_FINAL_RANGE(&rngE));
   ctl_vec(&em->silk_mode, sm);
   sm[NCT] = em->silk_mode.internalSampleRate; sm[NCT + 1] = em->silk_mode.allowBandwidthSwitch;
   sm[NCT + 2] = em->silk_mode.inWBmodeWithoutVariableLP; sm[NCT + 3] = em->silk_mode.switchReady;
   js_open("oe"); js_int("q", q_units); js_int("mx", mx); printf(",\"sk\":\"%c\"", kind); js_int("r", r);
   js_int("mxb", getter(OPUS_GET_MAX_BANDWIDTH_REQUEST)); js_int("fc", pk[11]); js_int("dtx", getter(OPUS_GET_DTX_REQUEST));
   js_int("vbr", getter(OPUS_GET_VBR_REQUEST)); js_int("fec", getter(OPUS_GET_INBAND_FEC_REQUEST)); js_int("loss", getter(OPUS_GET_PACKET_LOSS_PERC_REQUEST));
   js_int("cx", getter(OPUS_GET_COMPLEXITY_REQUEST)); js_int("indtx", getter(OPUS_GET_IN_DTX_REQUEST));
   js_arr_i("pk", pk, NPK); js_arr_i("sm", sm, NCT + 4); log_state(se);
   if (r > 0) {
      int n;
      js_int("toc", pkt[0]); js_int("nf", opus_packet_get_nb_frames(pkt, r)); js_int("spf", opus_packet_get_samples_per_frame(pkt, Fs));
      n = opus_decode_float(dec, pkt, r, out, 5760, 0);
      opus_decoder_ctl(dec, OPUS_GET_FINAL_RANGE(&rngD));
      js_int("dn", n); js_int("rok", rngE == rngD);
   }
   js_close();
   free(pkt);
}

static void run_opus(char *line, int lineno)
{
   char *bar = strchr(line, '|'), *tok; unsigned long seed = 1; int err = 0; const enc_mirror *em;
   if (!bar || sscanf(line, "X %d %d %d %lu", &Fs, &CHN, &APP, &seed) != 4) return;
   enc = opus_encoder_create(Fs, CHN, APP, &err);
   if (!enc) return;
   dec = opus_decoder_create(Fs, CHN, &err);
   /* start-up check of the mirror: what opus_encoder_init() wrote into silk_mode must be where the mirror reads it */
   em = (const enc_mirror *)enc;
   if (em->silk_mode.API_sampleRate != Fs || em->silk_mode.nChannelsAPI != CHN || em->silk_mode.nChannelsInternal != CHN
       || em->silk_mode.maxInternalSampleRate != 16000 || em->silk_mode.minInternalSampleRate != 8000 || em->silk_mode.payloadSize_ms != 20
       || em->silk_mode.bitRate != 25000 || em->silk_enc_offset <= (int)sizeof(enc_mirror) || em->celt_enc_offset <= em->silk_enc_offset) {
      fprintf(stderr, "hx_silkencctl: the layout assumed for OpusEncoder does not hold\n"); exit(3);
   }
   q_units = 8; mx = 1500;
   sig_init(seed);
   js_open("onew"); js_int("x", lineno); js_int("Fs", Fs); js_int("ch", CHN); js_int("app", APP);
   log_state((const silk_encoder *)((const char *)enc + em->silk_enc_offset)); js_close();
   for (tok = strtok(bar + 1, " \t\r\n"); tok; tok = strtok(NULL, " \t\r\n")) {
      char *eq = strchr(tok, '=');
      if (eq) {
         int v = atoi(eq + 1); *eq = 0;
         if (!strcmp(tok, "q")) { if (v == 4 || v == 8 || v == 16 || v == 24 || v == 32 || v == 40 || v == 48 || v == 2 || v == 1) q_units = v; }
         else if (!strcmp(tok, "mx")) { if (v >= 1 && v <= 4000) mx = v; }
         else o_ctl(tok, v);
      } else if (!strcmp(tok, "rs")) o_ctl("rs", 0);
      else if (tok[0] == 'e' && tok[1]) { int n = atoi(tok + 2), i; if (n < 1) n = 1; if (n > 2000) n = 2000; for (i = 0; i < n; i++) o_encode(tok[1]); }
   }
   js_open("end"); js_int("x", lineno); js_close();
   fflush(stdout);
   opus_encoder_destroy(enc); opus_decoder_destroy(dec); enc = NULL; dec = NULL;
}

int main(void)
{
   static char line[1 << 16]; int lineno = 0;
   while (fgets(line, sizeof line, stdin)) {
      lineno++;
      if (line[0] == 'D') run_direct(line, lineno);
      else if (line[0] == 'X') run_opus(line, lineno);
   }
   return 0;
}
