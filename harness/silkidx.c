/* hx_silkidx: conformance driver for module SilkIdx (growth module G06): the side-information layer of a speech frame
   (silk_decode_indices / silk_encode_indices) and the excitation layer (silk_decode_pulses / silk_encode_pulses) as
   coders of a SYMBOL SEQUENCE.
   The ORDER and the TABLE of the symbols are never decided here: every frame is written op by op from a plan that TLC
   computed from the model (spec/SilkIdx.tla) with the library's range ENCODER primitive; the REAL decoder functions then
   read it, and (twin) the REAL encoder functions re-encode what the real decoder returned and the real decoder reads
   that again.  Everything observable is recorded; TLC (spec/SilkIdxTrace.tla) judges.

   hx_silkidx tables        one JSON line with every table of this layer, read from the linked library
   hx_silkidx               stdin:
     T tid n e1 .. en                                        table tid as the MODEL states it (the writer uses only these)
     F id fs nb fi lbrr cond vad prevSig prevLag nidx | ops | vals
                                                             one frame: ops are groups <<kind, ftb, tabref, sym>>
                                                             kind 2: inverse-CDF symbol, table tabref/1000 from offset tabref%1000
                                                             kind 8: sign symbol, table {T[32][tabref], 0}
                                                             the first nidx ops are the side information, the rest the excitation
     O id fs ch ms bitrate cx seed n fec                     n packets of the real Opus encoder, speech mode, mono/stereo, in-band FEC on/off:
                                                             the bytes and both final ranges are recorded (the model parses them) */
#ifdef HAVE_CONFIG_H
#include "config.h"
#endif
#include "hx_common.h"
#include <math.h>
#include "opus.h"
#include "opus_private.h"
#include "entenc.h"
#include "entdec.h"
#include "main.h"
#include "tables.h"

#define MAXOPS 6000
#define MAXT 40
#define T_SIGN 32
static unsigned char g_tbl[MAXT][256]; static int g_tbln[MAXT];
static int g_ops[MAXOPS * 4], g_nops, g_vals[MAXOPS], g_nvals, g_head[16], g_nhead;

static int read_ints(char *s, int *out, int max)
{
   int n = 0; char *q = s;
   while (*q && n < max) {
      while (*q == ' ' || *q == '\t' || *q == '\n' || *q == '\r') q++;
      if (!*q || *q == '|') break;
      out[n++] = (int)strtol(q, &q, 10);
   }
   return n;
}
static char *next_section(char *s) { char *b = strchr(s, '|'); return b ? b + 1 : s + strlen(s); }
static void js_halves(const char *kh, const char *kl, opus_uint32 v) { js_int(kh, (long)(v >> 16)); js_int(kl, (long)(v & 0xFFFF)); }

/* ------------------------------------------------------------------------------------------------------------ */
/* tables */
static void p_u8(const char *key, const opus_uint8 *a, int n, int comma)
{
   int i; printf("\"%s\":[", key); for (i = 0; i < n; i++) printf(i ? ",%d" : "%d", a[i]); printf("]%s", comma ? "," : "");
}
static void p_cb(const silk_NLSF_CB_struct *cb)
{
   int nv = cb->nVectors, o = cb->order;
   printf("{\"nv\":%d,\"order\":%d,", nv, o);
   p_u8("icdf1", cb->CB1_iCDF, 2 * nv, 1);
   p_u8("sel", cb->ec_sel, nv * o / 2, 1);
   p_u8("ecicdf", cb->ec_iCDF, 8 * (2 * NLSF_QUANT_MAX_AMPLITUDE + 1), 0);
   printf("}");
}
static void cmd_tables(void)
{
   printf("{\"k\":\"tables\",");
   p_u8("typenovad", silk_type_offset_no_VAD_iCDF, 2, 1);
   p_u8("typevad", silk_type_offset_VAD_iCDF, 4, 1);
   p_u8("gain", &silk_gain_iCDF[0][0], 3 * (N_LEVELS_QGAIN / 8), 1);
   p_u8("dgain", silk_delta_gain_iCDF, MAX_DELTA_GAIN_QUANT - MIN_DELTA_GAIN_QUANT + 1, 1);
   p_u8("u4", silk_uniform4_iCDF, 4, 1); p_u8("u6", silk_uniform6_iCDF, 6, 1); p_u8("u8", silk_uniform8_iCDF, 8, 1);
   p_u8("ext", silk_NLSF_EXT_iCDF, 7, 1);
   p_u8("interp", silk_NLSF_interpolation_factor_iCDF, 5, 1);
   p_u8("pdelta", silk_pitch_delta_iCDF, 21, 1);
   p_u8("plag", silk_pitch_lag_iCDF, 32, 1);
   p_u8("cont", silk_pitch_contour_iCDF, 34, 1); p_u8("contnb", silk_pitch_contour_NB_iCDF, 11, 1);
   p_u8("cont10", silk_pitch_contour_10_ms_iCDF, 12, 1); p_u8("cont10nb", silk_pitch_contour_10_ms_NB_iCDF, 3, 1);
   p_u8("per", silk_LTP_per_index_iCDF, 3, 1);
   p_u8("ltp0", silk_LTP_gain_iCDF_ptrs[0], 8, 1); p_u8("ltp1", silk_LTP_gain_iCDF_ptrs[1], 16, 1); p_u8("ltp2", silk_LTP_gain_iCDF_ptrs[2], 32, 1);
   p_u8("ltpscale", silk_LTPscale_iCDF, 3, 1);
   p_u8("rl", &silk_rate_levels_iCDF[0][0], 2 * (N_RATE_LEVELS - 1), 1);
   p_u8("ppb", &silk_pulses_per_block_iCDF[0][0], N_RATE_LEVELS * (SILK_MAX_PULSES + 2), 1);
   p_u8("sh0", silk_shell_code_table0, 152, 1); p_u8("sh1", silk_shell_code_table1, 152, 1);
   p_u8("sh2", silk_shell_code_table2, 152, 1); p_u8("sh3", silk_shell_code_table3, 152, 1);
   p_u8("shoff", silk_shell_code_table_offsets, SILK_MAX_PULSES + 1, 1);
   p_u8("lsb", silk_lsb_iCDF, 2, 1);
   p_u8("sign", silk_sign_iCDF, 42, 1);
   p_u8("maxp", silk_max_pulses_table, 4, 1);
   printf("\"maxamp\":%d,\"maxpulses\":%d,\"nratelevels\":%d,\"shellblock\":%d,", NLSF_QUANT_MAX_AMPLITUDE, SILK_MAX_PULSES, N_RATE_LEVELS, SHELL_CODEC_FRAME_LENGTH);
   printf("\"cb\":["); p_cb(&silk_NLSF_CB_NB_MB); printf(","); p_cb(&silk_NLSF_CB_WB); printf("]}\n");
}

/* ------------------------------------------------------------------------------------------------------------ */
/* the writer and a generic reader of op lists (range coder primitives only) */
static int op_ok(const int *op)
{
   int t = op[2] / 1000, off = op[2] % 1000;
   if (op[1] != 8) return 0;
   if (op[0] == 2) return t >= 1 && t < MAXT && t != T_SIGN && g_tbln[t] > 0 && off >= 0 && op[3] >= 0 && off + op[3] < g_tbln[t];
   if (op[0] == 8) return g_tbln[T_SIGN] > 0 && op[2] >= 0 && op[2] < g_tbln[T_SIGN] && (op[3] == 0 || op[3] == 1);
   return 0;
}
static void enc_op(ec_enc *enc, const int *op)
{
   if (op[0] == 2) ec_enc_icdf(enc, op[3], &g_tbl[op[2] / 1000][op[2] % 1000], 8);
   else { unsigned char ic[2]; ic[0] = g_tbl[T_SIGN][op[2]]; ic[1] = 0; ec_enc_icdf(enc, op[3], ic, 8); }
}
static int dec_op(ec_dec *dec, const int *op)
{
   if (op[0] == 2) return ec_dec_icdf(dec, &g_tbl[op[2] / 1000][op[2] % 1000], 8);
   else { unsigned char ic[2]; ic[0] = g_tbl[T_SIGN][op[2]]; ic[1] = 0; return ec_dec_icdf(dec, ic, 8); }
}

/* ------------------------------------------------------------------------------------------------------------ */
static silk_decoder_state g_dec;
static silk_encoder_state g_enc;

static void dec_setup(silk_decoder_state *d, int fs, int nb, int fi, int vad, int prevSig, int prevLag)
{
   silk_init_decoder(d);
   d->nb_subfr = nb;
   silk_decoder_set_fs(d, fs, 16000);               /* the REAL table selection of the decoder */
   memset(d->VAD_flags, 0, sizeof d->VAD_flags);
   d->VAD_flags[fi] = vad;
   d->ec_prevSignalType = prevSig; d->ec_prevLagIndex = (opus_int16)prevLag;
   memset(&d->indices, 0, sizeof d->indices);
}
static void enc_setup(silk_encoder_state *s, int fs, int nb, int prevSig, int prevLag)
{
   /* the encoder's table pointers are set by a static function of control_codec.c (silk_setup_fs); the harness
      states them as the decoder's silk_decoder_set_fs does - the whole-codec runs ("O") bind the encoder's own choice */
   memset(s, 0, sizeof *s);
   s->fs_kHz = fs; s->nb_subfr = nb;
   s->subfr_length = 5 * fs; s->frame_length = nb * s->subfr_length;
   s->predictLPCOrder = fs == 16 ? 16 : 10;
   s->psNLSF_CB = fs == 16 ? &silk_NLSF_CB_WB : &silk_NLSF_CB_NB_MB;
   s->pitch_lag_low_bits_iCDF = fs == 16 ? silk_uniform8_iCDF : fs == 12 ? silk_uniform6_iCDF : silk_uniform4_iCDF;
   if (fs == 8) s->pitch_contour_iCDF = nb == 4 ? silk_pitch_contour_NB_iCDF : silk_pitch_contour_10_ms_NB_iCDF;
   else s->pitch_contour_iCDF = nb == 4 ? silk_pitch_contour_iCDF : silk_pitch_contour_10_ms_iCDF;
   s->ec_prevSignalType = prevSig; s->ec_prevLagIndex = (opus_int16)prevLag;
}

static void js_indices(const char *pfx, const SideInfoIndices *ix, int nb, int order)
{
   char k[16]; int t[MAX_LPC_ORDER + 1], i;
#define K(s) (snprintf(k, sizeof k, "%s%s", pfx, s), k)
   js_int(K("sig"), ix->signalType); js_int(K("qo"), ix->quantOffsetType);
   for (i = 0; i < nb; i++) t[i] = ix->GainsIndices[i]; js_arr_i(K("g"), t, nb);
   for (i = 0; i <= order; i++) t[i] = ix->NLSFIndices[i]; js_arr_i(K("nl"), t, order + 1);
   js_int(K("ic"), ix->NLSFInterpCoef_Q2); js_int(K("lag"), ix->lagIndex); js_int(K("ct"), ix->contourIndex); js_int(K("per"), ix->PERIndex);
   for (i = 0; i < nb; i++) t[i] = ix->LTPIndex[i]; js_arr_i(K("ltp"), t, nb);
   js_int(K("ls"), ix->LTP_scaleIndex); js_int(K("sd"), ix->Seed);
#undef K
}

static void frame_case(char *line)
{
   char *s1 = next_section(line), *s2 = next_section(s1);
   static unsigned char buf[16384], buf2[16384];
   static opus_int16 pul[MAX_FRAME_LENGTH + 32], pul2[MAX_FRAME_LENGTH + 32]; static opus_int8 pul8[MAX_FRAME_LENGTH + 32];
   static int pi[MAX_FRAME_LENGTH + 32];
   int id, fs, nb, fi, lbrr, cond, vad, prevSig, prevLag, nidx, i, ok = 1, flen, npul, order, mism = 0, werr, nbytes;
   ec_enc enc; ec_dec dec, sdec; opus_uint32 w_i, w_f, s_f, d_i, d_f; int wt_i, wt_f, wf_f, dt_i, dt_f, df_f;
   SideInfoIndices A; int nps, npl, tw = 1;
   g_nhead = read_ints(line + 1, g_head, 16);
   g_nops = read_ints(s1, g_ops, MAXOPS * 4) / 4; g_nvals = read_ints(s2, g_vals, MAXOPS);
   if (g_nhead < 10) { js_open("bad"); js_str("why", "head"); js_close(); return; }
   id = g_head[0]; fs = g_head[1]; nb = g_head[2]; fi = g_head[3]; lbrr = g_head[4]; cond = g_head[5]; vad = g_head[6];
   prevSig = g_head[7]; prevLag = g_head[8]; nidx = g_head[9];
   /* input domain of the library functions */
   if (!(fs == 8 || fs == 12 || fs == 16) || !(nb == 2 || nb == 4) || fi < 0 || fi > 2 || lbrr < 0 || lbrr > 1 || cond < 0 || cond > 2 ||
       vad < 0 || vad > 1 || prevSig < 0 || prevSig > 2 || prevLag < -1000 || prevLag > 2000 || nidx < 0 || nidx > g_nops || g_nops < 1) ok = 0;
   for (i = 0; ok && i < g_nops; i++) if (!op_ok(g_ops + 4 * i)) ok = 0;
   if (!ok) { js_open("bad"); js_int("id", id); js_str("why", "args"); js_close(); return; }
   flen = nb * 5 * fs; npul = ((flen + 15) >> 4) << 4; order = fs == 16 ? 16 : 10;

   /* (1) write the plan */
   memset(buf, 0, sizeof buf);
   ec_enc_init(&enc, buf, sizeof buf);
   w_i = enc.rng; wt_i = ec_tell(&enc);
   for (i = 0; i < g_nops; i++) {
      enc_op(&enc, g_ops + 4 * i);
      if (i + 1 == nidx) { w_i = enc.rng; wt_i = ec_tell(&enc); }
   }
   w_f = enc.rng; wt_f = ec_tell(&enc); wf_f = (int)ec_tell_frac(&enc);
   nbytes = (wt_f + 7) >> 3;
   ec_enc_done(&enc);
   werr = ec_get_error(&enc);
   /* (2) the symbols read back with the range decoder primitive: how many differ from the plan */
   ec_dec_init(&sdec, buf, sizeof buf);
   for (i = 0; i < g_nops; i++) if (dec_op(&sdec, g_ops + 4 * i) != g_ops[4 * i + 3]) mism++;
   s_f = sdec.rng;
   /* (3) the REAL decoder functions */
   dec_setup(&g_dec, fs, nb, fi, vad, prevSig, prevLag);
   memset(pul, 0, sizeof pul);
   ec_dec_init(&dec, buf, sizeof buf);
   hx_arm(20);
   silk_decode_indices(&g_dec, &dec, fi, lbrr, cond);
   d_i = dec.rng; dt_i = ec_tell(&dec);
   silk_decode_pulses(&dec, pul, g_dec.indices.signalType, g_dec.indices.quantOffsetType, g_dec.frame_length);
   hx_disarm();
   d_f = dec.rng; dt_f = ec_tell(&dec); df_f = (int)ec_tell_frac(&dec);
   A = g_dec.indices; nps = g_dec.ec_prevSignalType; npl = g_dec.ec_prevLagIndex;

   js_open("fr"); js_int("id", id); js_int("fs", fs); js_int("nb", nb); js_int("fi", fi); js_int("lb", lbrr); js_int("cc", cond); js_int("vad", vad);
   js_int("ps", prevSig); js_int("pl", prevLag); js_int("nidx", nidx); js_int("nops", g_nops);
   js_arr_i("vals", g_vals, g_nvals);
   js_halves("wih", "wil", w_i); js_int("wti", wt_i); js_halves("wfh", "wfl", w_f); js_int("wtf", wt_f); js_int("wff", wf_f); js_int("we", werr); js_int("nby", nbytes);
   js_int("sm", mism); js_halves("sfh", "sfl", s_f);
   js_int("flen", g_dec.frame_length); js_int("lpc", g_dec.LPC_order);
   js_indices("", &A, nb, order);
   js_halves("dih", "dil", d_i); js_int("dti", dt_i); js_halves("dfh", "dfl", d_f); js_int("dtf", dt_f); js_int("dff", df_f);
   for (i = 0; i < npul; i++) pi[i] = pul[i]; js_arr_i("pu", pi, npul);
   js_int("nps", nps); js_int("npl", npl);
   js_dig("pd", pul, sizeof(opus_int16) * flen);      /* the excitation of the frame proper (the encoder clears what lies beyond) */

   /* (4) twin: the REAL encoder functions on what the real decoder returned, then the real decoder again.
      Input domain of the encoder: 8-bit excitation; an absolutely coded lag index inside its table */
   for (i = 0; i < npul; i++) if (pul[i] < -127 || pul[i] > 127) tw = 0;
   if (tw && A.signalType == TYPE_VOICED) {
      int delta = A.lagIndex - prevLag;
      int byDelta = cond == CODE_CONDITIONALLY && prevSig == TYPE_VOICED && delta >= -8 && delta <= 11;
      if (!byDelta && (A.lagIndex < 0 || A.lagIndex >= 32 * (fs >> 1))) tw = 0;
   }
   /* ... and every index inside the domain silk_encode_indices asserts (a record outside it is judged by TLC, not re-encoded) */
   {
      int to = 2 * A.signalType + A.quantOffsetType, ncont = fs == 8 ? (nb == 4 ? 11 : 3) : (nb == 4 ? 34 : 12);
      if (to < 0 || to >= 6 || (lbrr && to < 2) || (!lbrr && ((to < 2) != (vad == 0)))) tw = 0;
      if (A.GainsIndices[0] < 0 || A.GainsIndices[0] >= (cond == CODE_CONDITIONALLY ? 41 : 64)) tw = 0;
      for (i = 1; i < nb; i++) if (A.GainsIndices[i] < 0 || A.GainsIndices[i] >= 41) tw = 0;
      if (A.NLSFIndices[0] < 0 || A.NLSFIndices[0] >= 32) tw = 0;
      for (i = 1; i <= order; i++) if (A.NLSFIndices[i] < -10 || A.NLSFIndices[i] > 10) tw = 0;
      if (A.NLSFInterpCoef_Q2 < 0 || A.NLSFInterpCoef_Q2 > 4 || A.Seed < 0 || A.Seed > 3) tw = 0;
      if (A.signalType == TYPE_VOICED) {
         if (A.contourIndex < 0 || A.contourIndex >= ncont || A.PERIndex < 0 || A.PERIndex > 2 || A.LTP_scaleIndex < 0 || A.LTP_scaleIndex > 2 ||
             (cond != CODE_INDEPENDENTLY && A.LTP_scaleIndex != 0)) tw = 0;
         for (i = 0; tw && i < nb; i++) if (A.LTPIndex[i] < 0 || A.LTPIndex[i] >= (8 << A.PERIndex)) tw = 0;
      }
   }
   js_int("tw", tw);
   if (tw) {
      SideInfoIndices *ex; opus_uint32 e_i, e_f, t_i, t_f; int et_i, et_f, ef_f, tt_i, tt_f, eerr, erl, enby;
      enc_setup(&g_enc, fs, nb, prevSig, prevLag);
      ex = lbrr ? &g_enc.indices_LBRR[fi] : &g_enc.indices;
      *ex = A;
      for (i = 0; i < npul; i++) pul8[i] = (opus_int8)pul[i];
      memset(buf2, 0, sizeof buf2);
      ec_enc_init(&enc, buf2, sizeof buf2);
      hx_arm(20);
      silk_encode_indices(&g_enc, &enc, fi, lbrr, cond);
      e_i = enc.rng; et_i = ec_tell(&enc);
      silk_encode_pulses(&enc, A.signalType, A.quantOffsetType, pul8, g_enc.frame_length);
      hx_disarm();
      e_f = enc.rng; et_f = ec_tell(&enc); ef_f = (int)ec_tell_frac(&enc);
      enby = (et_f + 7) >> 3;
      ec_enc_done(&enc);
      eerr = ec_get_error(&enc);
      dec_setup(&g_dec, fs, nb, fi, vad, prevSig, prevLag);
      memset(pul2, 0, sizeof pul2);
      ec_dec_init(&dec, buf2, sizeof buf2);
      hx_arm(20);
      silk_decode_indices(&g_dec, &dec, fi, lbrr, cond);
      t_i = dec.rng; tt_i = ec_tell(&dec);
      /* the rate level the encoder chose: the first symbol of the excitation, read by a copy of the range decoder */
      { ec_dec peek = dec; erl = ec_dec_icdf(&peek, silk_rate_levels_iCDF[g_dec.indices.signalType >> 1], 8); }
      silk_decode_pulses(&dec, pul2, g_dec.indices.signalType, g_dec.indices.quantOffsetType, g_dec.frame_length);
      hx_disarm();
      t_f = dec.rng; tt_f = ec_tell(&dec);
      js_halves("eih", "eil", e_i); js_int("eti", et_i); js_halves("efh", "efl", e_f); js_int("etf", et_f); js_int("eff", ef_f); js_int("ee", eerr); js_int("enby", enby);
      js_int("erl", erl); js_int("eps", g_enc.ec_prevSignalType); js_int("epl", g_enc.ec_prevLagIndex);
      js_indices("t", &g_dec.indices, nb, order);
      js_halves("tih", "til", t_i); js_int("tti", tt_i); js_halves("tfh", "tfl", t_f); js_int("ttf", tt_f);
      js_int("tps", g_dec.ec_prevSignalType); js_int("tpl", g_dec.ec_prevLagIndex);
      js_dig("td", pul2, sizeof(opus_int16) * flen);
   }
   js_close();
}

/* ------------------------------------------------------------------------------------------------------------ */
/* whole codec: packets of the real Opus encoder in the speech mode; the model parses the bytes */
static void opus_exec(char *line)
{
   int a[9], n = read_ints(line + 1, a, 9), id, fs, ch, ms, br, cx, np, k, i, err = 0, frame, fec;
   static float in[2 * 960]; static opus_int16 out[2 * 5760]; static unsigned char pkt[1500]; static int pb[1500];
   OpusEncoder *oe; OpusDecoder *od; hx_rng r; double ph = 0, env = 0;
   if (n < 8) { js_open("bad"); js_str("why", "head"); js_close(); return; }
   id = a[0]; fs = a[1]; ch = a[2]; ms = a[3]; br = a[4]; cx = a[5]; r.s = (uint64_t)a[6]; np = a[7]; fec = n > 8 ? a[8] : 0;
   if (!(fs == 8000 || fs == 12000 || fs == 16000) || ch < 1 || ch > 2 || !(ms == 10 || ms == 20 || ms == 40 || ms == 60) || br < 5000 || br > 80000 || cx < 0 || cx > 10 || np < 1 || np > 400 || fec < 0 || fec > 1)
      { js_open("bad"); js_int("id", id); js_str("why", "args"); js_close(); return; }
   frame = fs / 1000 * ms;
   oe = opus_encoder_create(fs, ch, OPUS_APPLICATION_VOIP, &err); od = opus_decoder_create(fs, ch, &err);
   if (!oe || !od) { js_open("bad"); js_str("why", "create"); js_close(); return; }
   opus_encoder_ctl(oe, OPUS_SET_BITRATE(br)); opus_encoder_ctl(oe, OPUS_SET_COMPLEXITY(cx));
   opus_encoder_ctl(oe, OPUS_SET_FORCE_MODE(MODE_SILK_ONLY));
   opus_encoder_ctl(oe, OPUS_SET_INBAND_FEC(fec)); opus_encoder_ctl(oe, OPUS_SET_PACKET_LOSS_PERC(fec ? 20 : 0)); opus_encoder_ctl(oe, OPUS_SET_DTX(0));
   for (k = 0; k < np; k++) {
      int len, dr; opus_uint32 erng = 0, drng = 0; unsigned char *d;
      int active = (k % 9) != 6, loud = (k % 11) == 4;
      for (i = 0; i < frame; i++) {
         double v, w;
         env = 0.998 * env + 0.002 * (active ? (loud ? 0.95 : 0.4 + 0.3 * sin(k * 1.3)) : 0.0);
         ph += 2 * 3.14159265358979 * (110.0 + 60 * sin(k * 0.21)) / fs;
         v = env * (0.5 * sin(ph) + 0.25 * sin(2 * ph + 0.5) + 0.15 * sin(3 * ph + 1) + 0.1 * sin(5 * ph)) + (active ? 0.02 : 0.001) * (hx_unit(&r) - 0.5);
         w = env * 0.3 * sin(1.7 * ph + 0.3) + 0.003 * (hx_unit(&r) - 0.5);
         if ((k % 13) == 8) v = 0.9 * (hx_unit(&r) - 0.5);               /* a noise burst: unvoiced, many pulses */
         if (ch == 2) { in[2 * i] = (float)(v + w); in[2 * i + 1] = (float)(v - w); } else in[i] = (float)v;
      }
      hx_arm(30);
      len = opus_encode_float(oe, in, frame, pkt, 1275);
      opus_encoder_ctl(oe, OPUS_GET_FINAL_RANGE(&erng));
      hx_disarm();
      if (len <= 0) { js_open("pk"); js_int("id", id); js_int("f", k); js_int("er", len); js_int("n", 0); js_close(); continue; }
      d = hx_exact(pkt, len);
      hx_arm(30);
      dr = opus_decode(od, d, len, out, 5760, 0);
      opus_decoder_ctl(od, OPUS_GET_FINAL_RANGE(&drng));
      hx_disarm();
      js_open("pk"); js_int("id", id); js_int("f", k); js_int("fsr", fs); js_int("ch", ch); js_int("ms", ms); js_int("br", br); js_int("fec", fec);
      js_int("er", len); js_int("n", len); js_int("frame", frame); js_int("dr", dr);
      for (i = 0; i < len; i++) pb[i] = d[i]; js_arr_i("b", pb, len);
      js_halves("eh", "el", erng); js_halves("rh", "rl", drng);
      js_close();
      free(d);
   }
   opus_encoder_destroy(oe); opus_decoder_destroy(od);
}

int main(int argc, char **argv)
{
   static char line[1 << 19];
   if (argc > 1 && !strcmp(argv[1], "tables")) { cmd_tables(); return 0; }
   hx_watchdog_init();
   while (fgets(line, sizeof line, stdin)) {
      if (line[0] == 'T') {
         static int t[300]; int n = read_ints(line + 1, t, 300), i;
         if (n >= 3 && t[0] >= 1 && t[0] < MAXT && t[1] == n - 2 && t[1] <= 256) { g_tbln[t[0]] = t[1]; for (i = 0; i < t[1]; i++) g_tbl[t[0]][i] = (unsigned char)t[2 + i]; }
         else { js_open("bad"); js_str("why", "table"); js_close(); }
      }
      else if (line[0] == 'F') frame_case(line);
      else if (line[0] == 'O') opus_exec(line);
      fflush(stdout);
   }
   return 0;
}
