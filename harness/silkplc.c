/* hx_silkplc: conformance driver for module SilkPlc (growth module G13): the speech decoder's concealment and
   comfort-noise PARAMETER state machine (silk/PLC.c, silk/CNG.c, silk/decode_frame.c, silk/decoder_set_fs.c,
   silk/init_decoder.c).

   The library functions silk_decode_frame, silk_PLC, silk_CNG, silk_PLC_glue_frames, silk_decoder_set_fs,
   silk_init_decoder and silk_reset_decoder are INTERPOSED at link time (-Wl,--wrap=...): every call the real decoder
   makes goes through a recorder that snapshots the silk_decoder_state before and after, the decoded parameters the
   real silk_decode_parameters produced (silk_decoder_control), and integer measurements the model takes as oracles
   (frame energies of silk_sum_sqr_shift, the LPC inverse prediction gain).  Nothing is judged here.

   hx_silkplc fn <seed> <nplans> <runlen>   function level: the real silk_PLC / silk_CNG / silk_PLC_glue_frames /
                                            silk_decoder_set_fs / silk_reset_decoder on a real silk_decoder_state with
                                            hand-built silk_decoder_control at domain-boundary parameters ("emu":1:
                                            the few assignments of silk_decode_frame between the calls are repeated here)
   hx_silkplc situ                          stdin: lines  S id bw ch ms kind fec sw seed warm gap | pat pat ...
                                            real Opus streams (speech-only bw 0..2 = 8/12/16 kHz, hybrid bw 3..4) decoded
                                            with opus_decode under the loss patterns (G good, L conceal, F in-band FEC
                                            from the next packet, R OPUS_RESET_STATE, X 24 losses in a row)
   events: new / init / setfs / df */
#ifdef HAVE_CONFIG_H
#include "config.h"
#endif
#include "hx_common.h"
#include <math.h>
#include "opus.h"
#include "opus_private.h"
#include "main.h"
#include "PLC.h"
#include "tables.h"

#define NST 64
#define NG 6

static void snap(const silk_decoder_state *d, int *a)
{
   int i, k = 0;
   a[k++] = d->lossCnt; a[k++] = d->prevSignalType; a[k++] = d->first_frame_after_reset; a[k++] = d->lagPrev;
   a[k++] = d->fs_kHz; a[k++] = d->nb_subfr; a[k++] = d->subfr_length; a[k++] = d->frame_length; a[k++] = d->LPC_order; a[k++] = d->ltp_mem_length;
   a[k++] = d->sPLC.fs_kHz; a[k++] = d->sPLC.pitchL_Q8;
   for (i = 0; i < LTP_ORDER; i++) a[k++] = d->sPLC.LTPCoef_Q14[i];
   a[k++] = d->sPLC.prevLTP_scale_Q14; a[k++] = d->sPLC.prevGain_Q16[0]; a[k++] = d->sPLC.prevGain_Q16[1]; a[k++] = d->sPLC.randScale_Q14;
   a[k++] = (int)(((opus_uint32)d->sPLC.rand_seed) >> 16); a[k++] = (int)(((opus_uint32)d->sPLC.rand_seed) & 0xFFFF);
   a[k++] = d->sPLC.last_frame_lost; a[k++] = d->sPLC.conc_energy; a[k++] = d->sPLC.conc_energy_shift; a[k++] = d->sPLC.subfr_length; a[k++] = d->sPLC.nb_subfr;
   a[k++] = d->sCNG.fs_kHz; a[k++] = d->sCNG.CNG_smth_Gain_Q16;
   a[k++] = (int)(((opus_uint32)d->sCNG.rand_seed) >> 16); a[k++] = (int)(((opus_uint32)d->sCNG.rand_seed) & 0xFFFF);
   for (i = 0; i < MAX_LPC_ORDER; i++) a[k++] = d->sPLC.prevLPC_Q12[i];
   for (i = 0; i < MAX_LPC_ORDER; i++) a[k++] = d->sCNG.CNG_smth_NLSF_Q15[i];
   if (k != NST) { fprintf(stderr, "hx_silkplc: snapshot layout %d\n", k); exit(3); }
}

/* ------------------------------------------------------------------ channel identities */
static const silk_decoder_state *g_ptr[8]; static int g_nptr;
static int ch_of(const silk_decoder_state *d)
{
   int i; for (i = 0; i < g_nptr; i++) if (g_ptr[i] == d) return i + 1;
   if (g_nptr < 8) { g_ptr[g_nptr++] = d; return g_nptr; }
   return 9;
}
static void ev_new(int id, const char *what) { g_nptr = 0; js_open("new"); js_int("id", id); js_str("w", what); js_close(); }

/* ------------------------------------------------------------------ the recorder */
static struct {
   int active, emu, ch, lf, lb, cc, dec, nplc, ncng, nglue;
   int pre[NST], post[NST], mid1[NST], mid2[NST];
   int sig, pl[4], ltp[20], gn[4], lsc, a1[16], pn[16];
   int ig, clen, ge, gs, glen, gi[NG], gx[NG], gy[NG], lagout;
} cur;

opus_int __real_silk_decode_frame(silk_decoder_state *psDec, ec_dec *psRangeDec, opus_int16 pOut[], opus_int32 *pN, opus_int lostFlag, opus_int condCoding, int arch);
void __real_silk_PLC(silk_decoder_state *psDec, silk_decoder_control *psDecCtrl, opus_int16 frame[], opus_int lost, int arch);
void __real_silk_CNG(silk_decoder_state *psDec, silk_decoder_control *psDecCtrl, opus_int16 frame[], opus_int length);
void __real_silk_PLC_glue_frames(silk_decoder_state *psDec, opus_int16 frame[], opus_int length);
opus_int __real_silk_decoder_set_fs(silk_decoder_state *psDec, opus_int fs_kHz, opus_int32 fs_API_Hz);
opus_int __real_silk_init_decoder(silk_decoder_state *psDec);
opus_int __real_silk_reset_decoder(silk_decoder_state *psDec);

static void begin_df(silk_decoder_state *d, int lf, int lb, int cc, int emu)
{
   memset(&cur, 0, sizeof cur);
   cur.active = 1; cur.emu = emu; cur.ch = ch_of(d); cur.lf = lf; cur.lb = lb; cur.cc = cc; cur.dec = -1;
   snap(d, cur.pre);
}
static void end_df(silk_decoder_state *d)
{
   snap(d, cur.post);
   js_open("df"); js_int("ch", cur.ch); js_int("emu", cur.emu); js_int("lf", cur.lf); js_int("lb", cur.lb); js_int("cc", cur.cc);
   js_int("dec", cur.dec); js_int("np", cur.nplc); js_int("nc", cur.ncng); js_int("ng", cur.nglue);
   js_arr_i("pre", cur.pre, NST); js_arr_i("post", cur.post, NST);
   js_int("sig", cur.sig); js_arr_i("pl", cur.pl, 4); js_arr_i("ltp", cur.ltp, 20); js_arr_i("gn", cur.gn, 4); js_int("lsc", cur.lsc);
   js_arr_i("a1", cur.a1, 16); js_arr_i("pn", cur.pn, 16);
   js_int("ig", cur.ig); js_int("cl", cur.clen); js_int("ge", cur.ge); js_int("gs", cur.gs); js_int("gl", cur.glen);
   js_arr_i("gi", cur.gi, NG); js_arr_i("gx", cur.gx, NG); js_arr_i("gy", cur.gy, NG);
   js_close();
   cur.active = 0;
}

void __wrap_silk_PLC(silk_decoder_state *psDec, silk_decoder_control *psDecCtrl, opus_int16 frame[], opus_int lost, int arch)
{
   int i;
   if (cur.active) {
      cur.nplc++; cur.dec = lost ? 0 : 1;
      if (!lost) {
         cur.sig = psDec->indices.signalType; cur.lsc = psDecCtrl->LTP_scale_Q14;
         for (i = 0; i < 4; i++) { cur.pl[i] = i < psDec->nb_subfr ? psDecCtrl->pitchL[i] : 0; cur.gn[i] = i < psDec->nb_subfr ? psDecCtrl->Gains_Q16[i] : 0; }
         for (i = 0; i < 20; i++) cur.ltp[i] = i < psDec->nb_subfr * LTP_ORDER ? psDecCtrl->LTPCoef_Q14[i] : 0;
         for (i = 0; i < 16; i++) cur.a1[i] = i < psDec->LPC_order ? psDecCtrl->PredCoef_Q12[1][i] : 0;
      }
   }
   __real_silk_PLC(psDec, psDecCtrl, frame, lost, arch);
   if (cur.active) {
      /* oracle: the inverse prediction gain of the bandwidth-expanded filter the concealment has just used */
      if (lost) cur.ig = silk_LPC_inverse_pred_gain(psDec->sPLC.prevLPC_Q12, psDec->LPC_order, arch);
      snap(psDec, cur.mid1);
   }
}

void __wrap_silk_CNG(silk_decoder_state *psDec, silk_decoder_control *psDecCtrl, opus_int16 frame[], opus_int length)
{
   int i;
   if (cur.active) { cur.ncng++; cur.clen = length; for (i = 0; i < 16; i++) cur.pn[i] = i < psDec->LPC_order ? psDec->prevNLSF_Q15[i] : 0; }
   __real_silk_CNG(psDec, psDecCtrl, frame, length);
   if (cur.active) snap(psDec, cur.mid2);
}

void __wrap_silk_PLC_glue_frames(silk_decoder_state *psDec, opus_int16 frame[], opus_int length)
{
   int i;
   if (cur.active) {
      opus_int32 e; opus_int sh;
      cur.nglue++; cur.glen = length;
      silk_sum_sqr_shift(&e, &sh, frame, length); cur.ge = e; cur.gs = sh;
      cur.gi[0] = 0; cur.gi[1] = 1; cur.gi[2] = length / 8; cur.gi[3] = length / 4 - 1; cur.gi[4] = length / 2; cur.gi[5] = length - 1;
      for (i = 0; i < NG; i++) cur.gx[i] = frame[cur.gi[i]];
   }
   __real_silk_PLC_glue_frames(psDec, frame, length);
   if (cur.active) for (i = 0; i < NG; i++) cur.gy[i] = frame[cur.gi[i]];
}

opus_int __wrap_silk_decode_frame(silk_decoder_state *psDec, ec_dec *psRangeDec, opus_int16 pOut[], opus_int32 *pN, opus_int lostFlag, opus_int condCoding, int arch)
{
   opus_int r;
   begin_df(psDec, lostFlag, psDec->LBRR_flags[psDec->nFramesDecoded < MAX_FRAMES_PER_PACKET ? psDec->nFramesDecoded : 0], condCoding, 0);
   r = __real_silk_decode_frame(psDec, psRangeDec, pOut, pN, lostFlag, condCoding, arch);
   end_df(psDec);
   return r;
}

opus_int __wrap_silk_decoder_set_fs(silk_decoder_state *psDec, opus_int fs_kHz, opus_int32 fs_API_Hz)
{
   int pre[NST], post[NST]; opus_int r;
   snap(psDec, pre);
   r = __real_silk_decoder_set_fs(psDec, fs_kHz, fs_API_Hz);
   snap(psDec, post);
   js_open("setfs"); js_int("ch", ch_of(psDec)); js_int("fs", fs_kHz); js_int("r", r); js_int("lgi", psDec->LastGainIndex);
   js_arr_i("pre", pre, NST); js_arr_i("post", post, NST); js_close();
   return r;
}

static void ev_init(const char *how, silk_decoder_state *psDec, opus_int r)
{
   int post[NST]; snap(psDec, post);
   js_open("init"); js_int("ch", ch_of(psDec)); js_str("how", how); js_int("r", r); js_int("lgi", psDec->LastGainIndex); js_arr_i("post", post, NST); js_close();
}
opus_int __wrap_silk_init_decoder(silk_decoder_state *psDec) { opus_int r = __real_silk_init_decoder(psDec); ev_init("init", psDec, r); return r; }
opus_int __wrap_silk_reset_decoder(silk_decoder_state *psDec) { opus_int r = __real_silk_reset_decoder(psDec); ev_init("reset", psDec, r); return r; }

/* ------------------------------------------------------------------ function level */
/* the boundary grids (the same values spec/cfg/SilkPlc_mc_*.cfg close the model over) */
static const int GAINS[] = { 65536, 81920, 1 << 20, (1 << 21) - 1, 1 << 21, 1 << 23, (1 << 23) + 1, 100000000, 1686110208 };
#define NGAINS ((int)(sizeof GAINS / sizeof GAINS[0]))

static void emu_frame(silk_decoder_state *d, hx_rng *r, int lost, int sig, int amp)
{
   silk_decoder_control ctrl; opus_int16 frame[MAX_FRAME_LENGTH]; int i, k, L = d->frame_length, mv;
   memset(&ctrl, 0, sizeof ctrl);
   begin_df(d, lost ? FLAG_PACKET_LOST : FLAG_DECODE_NORMAL, 0, 0, 1);
   if (!lost) {
      int per = hx_u(r, NB_LTP_CBKS), lagmode = hx_u(r, 4), lag0;
      d->indices.signalType = (opus_int8)sig;
      lag0 = lagmode == 0 ? 2 * d->fs_kHz : lagmode == 1 ? 18 * d->fs_kHz : hx_range(r, 2 * d->fs_kHz, 18 * d->fs_kHz);
      for (k = 0; k < d->nb_subfr; k++) {
         int gsel = hx_u(r, 3);
         ctrl.Gains_Q16[k] = gsel == 0 ? GAINS[hx_u(r, NGAINS)] : gsel == 1 ? hx_range(r, 81920, 1 << 22) : hx_range(r, 81920, 1686110208);
         if (sig == TYPE_VOICED) {
            int l = lag0 + (lagmode >= 2 ? hx_range(r, -8, 8) : (lagmode == 0 ? (int)hx_u(r, 3) : -(int)hx_u(r, 3)));
            const opus_int8 *cb = silk_LTP_vq_ptrs_Q7[per]; int row = hx_u(r, silk_LTP_vq_sizes[per]);
            if (l < 2 * d->fs_kHz) l = 2 * d->fs_kHz;
            if (l > 18 * d->fs_kHz) l = 18 * d->fs_kHz;
            ctrl.pitchL[k] = l;
            for (i = 0; i < LTP_ORDER; i++) ctrl.LTPCoef_Q14[k * LTP_ORDER + i] = (opus_int16)(cb[row * LTP_ORDER + i] * 128);
            if (hx_u(r, 8) == 0) for (i = 0; i < LTP_ORDER; i++) ctrl.LTPCoef_Q14[k * LTP_ORDER + i] = (opus_int16)(hx_range(r, -128, 127) * 128);
         }
      }
      ctrl.LTP_scale_Q14 = sig == TYPE_VOICED ? silk_LTPScales_table_Q14[hx_u(r, 3)] : 0;
      { opus_int16 nl[MAX_LPC_ORDER]; int acc = 0, step = 32000 / (d->LPC_order + 1);
        for (i = 0; i < d->LPC_order; i++) { acc += hx_range(r, step / 3, step); nl[i] = (opus_int16)acc; d->prevNLSF_Q15[i] = nl[i]; }
        silk_NLSF2A(ctrl.PredCoef_Q12[1], nl, d->LPC_order, d->arch);
        memcpy(ctrl.PredCoef_Q12[0], ctrl.PredCoef_Q12[1], sizeof ctrl.PredCoef_Q12[0]); }
      for (i = 0; i < L; i++) { frame[i] = (opus_int16)hx_range(r, -amp, amp); d->exc_Q14[i] = hx_range(r, -amp, amp) * 64; }
      mv = d->ltp_mem_length - L;
      memmove(d->outBuf, &d->outBuf[L], mv * sizeof(opus_int16)); memcpy(&d->outBuf[mv], frame, L * sizeof(opus_int16));
      __wrap_silk_PLC(d, &ctrl, frame, 0, d->arch);
      d->lossCnt = 0; d->prevSignalType = d->indices.signalType; d->first_frame_after_reset = 0;
   } else {
      memset(frame, 0, sizeof frame);
      __wrap_silk_PLC(d, &ctrl, frame, 1, d->arch);
      mv = d->ltp_mem_length - L;
      memmove(d->outBuf, &d->outBuf[L], mv * sizeof(opus_int16)); memcpy(&d->outBuf[mv], frame, L * sizeof(opus_int16));
   }
   __wrap_silk_CNG(d, &ctrl, frame, L);
   __wrap_silk_PLC_glue_frames(d, frame, L);
   d->lagPrev = ctrl.pitchL[d->nb_subfr - 1];
   end_df(d);
}

static int run_fn(unsigned long seed, int nplans, int runlen)
{
   static silk_decoder_state st; hx_rng r; int p, i;
   static const int FS[3] = {8, 12, 16}, AMP[5] = {0, 3, 300, 6000, 32767};
   r.s = seed * 2654435761UL + 99;
   for (p = 0; p < nplans; p++) {
      int fs = FS[p % 3], nb = ((p / 3) & 1) ? 2 : 4, nseg = 2 + hx_u(&r, 3), s;
      ev_new(p, "fn");
      __wrap_silk_init_decoder(&st);
      st.nb_subfr = nb; __wrap_silk_decoder_set_fs(&st, fs, 48000);
      for (s = 0; s < nseg; s++) {
         int ngood = 1 + hx_u(&r, 3), nlost = (s == 0 && p % 7 == 0) ? 3 * runlen : (int)hx_u(&r, runlen + 1), sig = (p / 6 + s) % 3;
         for (i = 0; i < ngood; i++) emu_frame(&st, &r, 0, (i == ngood - 1) ? sig : (int)hx_u(&r, 3), AMP[hx_u(&r, 5)]);
         for (i = 0; i < nlost; i++) emu_frame(&st, &r, 1, 0, 0);
         emu_frame(&st, &r, 0, (int)hx_u(&r, 3), AMP[1 + hx_u(&r, 4)]);
         if (hx_u(&r, 3) == 0) {           /* a rate and/or frame-length change, as dec_API does it before the first frame of a packet */
            st.nb_subfr = hx_u(&r, 2) ? 2 : 4; __wrap_silk_decoder_set_fs(&st, FS[hx_u(&r, 3)], 48000);
         } else if (hx_u(&r, 5) == 0) __wrap_silk_reset_decoder(&st), st.nb_subfr = nb, __wrap_silk_decoder_set_fs(&st, fs, 48000);
      }
   }
   return 0;
}

/* ------------------------------------------------------------------ in situ */
typedef struct { hx_rng r; double ph, t; double lp; } sgen;
/* kinds: 0 voiced (harmonic, vibrato) with a weak noise floor; 1 unvoiced (tilted noise); 2 quiet background noise;
   3 talk spurts separated by digital silence (onsets); 4 alternating 300 ms voiced / unvoiced / background / silence */
static double sample_of(sgen *s, int kind, int fs)
{
   double t = s->t, v = 0, u = hx_unit(&s->r) * 2 - 1; int h, seg, k = kind;
   double f0 = 140.0 + 45.0 * sin(2 * M_PI * 1.1 * t) + 15.0 * sin(2 * M_PI * 0.31 * t);
   s->t += 1.0 / fs;
   if (kind == 4) { seg = (int)(t / 0.3) % 5; k = seg == 0 ? 0 : seg == 1 ? 1 : seg == 2 ? 2 : seg == 3 ? 0 : 5; }
   if (kind == 3) { double m = fmod(t, 0.9); k = m < 0.55 ? 0 : 5; }
   s->ph += 2 * M_PI * f0 / fs; if (s->ph > 2 * M_PI * 64) s->ph -= 2 * M_PI * 64;
   switch (k) {
   case 0: for (h = 1; h <= 10; h++) if (h * f0 < 0.45 * fs) v += sin(h * s->ph + 0.3 * h) / h;
           return 0.25 * (0.6 + 0.3 * sin(2 * M_PI * 2.3 * t)) * v + (kind == 3 ? 0.0 : 0.003 * u);
   case 1: v = 0.75 * u - 0.45 * s->lp; s->lp = u; return 0.2 * (0.7 + 0.3 * sin(2 * M_PI * 5.1 * t)) * v;
   case 2: return 0.004 * u;
   default: return 0.0;
   }
}

#define MAXPK 1500
static unsigned char g_pk[MAXPK][700]; static int g_pkn[MAXPK], g_pkfr[MAXPK];

static int run_stream(int id, int bw, int ch, int ms, int kind, int fec, int sw, unsigned long seed, int warm, int gap, char *pats)
{
   static const int BW[5] = {OPUS_BANDWIDTH_NARROWBAND, OPUS_BANDWIDTH_MEDIUMBAND, OPUS_BANDWIDTH_WIDEBAND, OPUS_BANDWIDTH_SUPERWIDEBAND, OPUS_BANDWIDTH_FULLBAND};
   int err, npk = warm, i, c, n, k, cur_ms = ms, cur_bw = bw; char *q; sgen sg; OpusEncoder *e; OpusDecoder *d;
   static float in[2880 * 2]; static opus_int16 out[2880 * 2 * 2];
   for (q = pats; *q; q++) { if (*q == 'G' || *q == 'L' || *q == 'F') npk++; else if (*q == 'X') npk += 24; else if (*q == ' ') npk += gap; }
   npk += gap + 2; if (npk > MAXPK) npk = MAXPK;
   memset(&sg, 0, sizeof sg); sg.r.s = seed * 2654435761UL + 5;
   e = opus_encoder_create(48000, ch, OPUS_APPLICATION_VOIP, &err); if (!e) return 4;
   opus_encoder_ctl(e, OPUS_SET_BITRATE((bw >= 3 ? 28000 : 14000 + 4000 * bw) * ch + (int)(seed % 5) * 2000));
   opus_encoder_ctl(e, OPUS_SET_INBAND_FEC(fec)); opus_encoder_ctl(e, OPUS_SET_PACKET_LOSS_PERC(fec ? 25 : 0));
   opus_encoder_ctl(e, OPUS_SET_DTX((seed >> 3) & 1));
   opus_encoder_ctl(e, OPUS_SET_COMPLEXITY(3));
   for (i = 0; i < npk; i++) {
      int frame;
      if (sw && i == npk / 2) { if (sw == 1) cur_bw = bw >= 3 ? 2 : (bw + 1) % 3; else cur_ms = ms == 10 ? 20 : 10; }
      frame = 48 * cur_ms;
      opus_encoder_ctl(e, OPUS_SET_FORCE_MODE(cur_bw >= 3 ? MODE_HYBRID : MODE_SILK_ONLY));
      opus_encoder_ctl(e, OPUS_SET_BANDWIDTH(BW[cur_bw])); opus_encoder_ctl(e, OPUS_SET_MAX_BANDWIDTH(BW[cur_bw]));
      for (k = 0; k < frame; k++) { double v = sample_of(&sg, kind, 48000); for (c = 0; c < ch; c++) in[k * ch + c] = (float)(c ? 0.7 * v + 0.002 * (hx_unit(&sg.r) - 0.5) : v); }
      n = opus_encode_float(e, in, frame, g_pk[i], sizeof g_pk[i]);
      if (n < 0) { opus_encoder_destroy(e); return 5; }
      g_pkn[i] = n; g_pkfr[i] = frame;
   }
   opus_encoder_destroy(e);
   ev_new(id, "situ");
   js_open("cfg"); js_int("id", id); js_int("bw", bw); js_int("nch", ch); js_int("ms", ms); js_int("kind", kind); js_int("fec", fec); js_int("sw", sw); js_int("npk", npk); js_close();
   d = opus_decoder_create(48000, ch, &err); if (!d) return 6;
   i = 0;
   for (k = 0; k < warm && i < npk; k++, i++) { n = opus_decode(d, g_pk[i], g_pkn[i], out, 2880 * 2, 0); js_open("call"); js_str("c", "G"); js_int("r", n); js_int("want", g_pkfr[i]); js_close(); }
   for (q = pats; *q && i < npk - 1; q++) {
      int rep = 1;
      if (*q == ' ') { for (k = 0; k < gap && i < npk; k++, i++) { n = opus_decode(d, g_pk[i], g_pkn[i], out, 2880 * 2, 0); js_open("call"); js_str("c", "G"); js_int("r", n); js_int("want", g_pkfr[i]); js_close(); } continue; }
      if (*q == 'R') { opus_decoder_ctl(d, OPUS_RESET_STATE); continue; }
      if (*q == 'X') rep = 24;
      for (k = 0; k < rep && i < npk - 1; k++, i++) {
         char cs[2] = {*q == 'X' ? 'L' : *q, 0};
         if (*q == 'G') n = opus_decode(d, g_pk[i], g_pkn[i], out, 2880 * 2, 0);
         else if (*q == 'F') n = opus_decode(d, g_pk[i + 1], g_pkn[i + 1], out, g_pkfr[i], 1);
         else n = opus_decode(d, NULL, 0, out, g_pkfr[i], 0);
         js_open("call"); js_str("c", cs); js_int("r", n); js_int("want", g_pkfr[i]); js_close();
      }
   }
   for (k = 0; k < 2 && i < npk; k++, i++) { n = opus_decode(d, g_pk[i], g_pkn[i], out, 2880 * 2, 0); js_open("call"); js_str("c", "G"); js_int("r", n); js_int("want", g_pkfr[i]); js_close(); }
   opus_decoder_destroy(d);
   return 0;
}

int main(int argc, char **argv)
{
   static char line[1 << 16];
   hx_watchdog_init(); hx_arm(1500);
   if (argc >= 5 && !strcmp(argv[1], "fn")) return run_fn(strtoul(argv[2], NULL, 10), atoi(argv[3]), atoi(argv[4]));
   if (argc >= 2 && !strcmp(argv[1], "situ")) {
      while (fgets(line, sizeof line, stdin)) {
         int id, bw, ch, ms, kind, fec, sw, warm, gap, off = 0, rc; unsigned long seed; char *bar;
         if (line[0] != 'S') continue;
         if (sscanf(line + 1, "%d %d %d %d %d %d %d %lu %d %d %n", &id, &bw, &ch, &ms, &kind, &fec, &sw, &seed, &warm, &gap, &off) < 10) return 7;
         bar = strchr(line, '|'); if (!bar) return 7;
         { char *nl = strchr(bar, '\n'); if (nl) *nl = 0; }
         rc = run_stream(id, bw, ch, ms, kind, fec, sw, seed, warm, gap, bar + 1);
         if (rc) return rc;
      }
      return 0;
   }
   fprintf(stderr, "usage: hx_silkplc fn seed nplans runlen | situ < streams\n");
   return 2;
}
