/* hx_silkside2: drives the stereo-predictor and LTP side-information code of the real library and records what it
   returns (growth module G08 SilkSide2).  Nothing is judged here: every event carries the inputs and the raw outputs;
   spec/SilkSide2Trace.tla decides.

   hx_silkside2 tables                    one JSON line: stereo predictor table, the three LTP codebooks with their gain / rate /
                                          iCDF tables, the LTP scale table, the constants of the sum_log_gain arithmetic
   hx_silkside2 sd                        silk_stereo_encode_pred -> range coder -> silk_stereo_decode_pred, the whole index domain
   hx_silkside2 sq  <seed> <nrandom>      silk_stereo_quant_pred: grid, boundary points, random (then the indices through the coder
                                          and silk_stereo_decode_pred: what a decoder reconstructs)
   hx_silkside2 ms  <seed> <n>            silk_stereo_MS_to_LR on impulse / step / random inputs from arbitrary 16-bit states
   hx_silkside2 lr  <seed> <n>            silk_stereo_LR_to_MS (encoder) on panned / uncorrelated / out-of-phase / saturating input from random states
   hx_silkside2 lq  <seed> <n>            silk_find_LTP_FLP + silk_quant_LTP_gains_FLP and silk_quant_LTP_gains on the same
                                          correlations, then silk_decode_parameters on the emitted indices
   hx_silkside2 dp  <seed> <n>            silk_decode_parameters with crafted PERIndex / LTPIndex / LTP_scaleIndex (all vectors, random)
   hx_silkside2 ll                        silk_log2lin / silk_lin2log sweeps
   hx_silkside2 codec <seed> <nstreams> <npk>   whole codec, stereo SILK-only and hybrid, channel switches and losses
   hx_silkside2 replay                    re-executes the events given on stdin (inputs only are used) */
#include "hx_common.h"
#include "main.h"
#include "SigProc_FIX.h"
#include "tables.h"
#include "API.h"
#include "tuning_parameters.h"
#include "entdec.h"
#include "entenc.h"
#ifndef FIXED_POINT
#include "SigProc_FLP.h"
#include "main_FLP.h"
#include "structs_FLP.h"
#include "opus.h"
#include "opus_private.h"
#include <math.h>
#endif

static void p_u8(const char *key, const opus_uint8 *a, int n) { int i; printf("\"%s\":[", key); for (i = 0; i < n; i++) printf(i ? ",%d" : "%d", a[i]); printf("]"); }
static void p_i8(const char *key, const opus_int8 *a, int n) { int i; printf("\"%s\":[", key); for (i = 0; i < n; i++) printf(i ? ",%d" : "%d", a[i]); printf("]"); }
static void p_i16(const char *key, const opus_int16 *a, int n) { int i; printf("\"%s\":[", key); for (i = 0; i < n; i++) printf(i ? ",%d" : "%d", a[i]); printf("]"); }

static void cmd_tables(void)
{
   int k; char key[16];
   printf("{\"k\":\"tables\",");
   p_i16("sp", silk_stereo_pred_quant_Q13, STEREO_QUANT_TAB_SIZE); printf(",");
   p_u8("spj", silk_stereo_pred_joint_iCDF, 25); printf(",");
   p_u8("u3", silk_uniform3_iCDF, 3); printf(","); p_u8("u5", silk_uniform5_iCDF, 5); printf(",");
   p_u8("mo", silk_stereo_only_code_mid_iCDF, 2); printf(",");
   p_i8("sizes", silk_LTP_vq_sizes, NB_LTP_CBKS); printf(",");
   for (k = 0; k < NB_LTP_CBKS; k++) {
      snprintf(key, sizeof key, "vq%d", k); p_i8(key, silk_LTP_vq_ptrs_Q7[k], silk_LTP_vq_sizes[k] * LTP_ORDER); printf(",");
      snprintf(key, sizeof key, "vg%d", k); p_u8(key, silk_LTP_vq_gain_ptrs_Q7[k], silk_LTP_vq_sizes[k]); printf(",");
      snprintf(key, sizeof key, "vb%d", k); p_u8(key, silk_LTP_gain_BITS_Q5_ptrs[k], silk_LTP_vq_sizes[k]); printf(",");
      snprintf(key, sizeof key, "vc%d", k); p_u8(key, silk_LTP_gain_iCDF_ptrs[k], silk_LTP_vq_sizes[k]); printf(",");
   }
   p_u8("per", silk_LTP_per_index_iCDF, 3); printf(",");
   p_u8("lsi", silk_LTPscale_iCDF, 3); printf(",");
   p_i16("ls", silk_LTPScales_table_Q14, 3); printf(",");
   printf("\"substeps\":%d,\"interp_ms\":%d,\"ltp_order\":%d,\"maxsum\":%d,\"safety\":%d,\"seven\":%d,\"halfstep\":%d}\n",
          STEREO_QUANT_SUB_STEPS, STEREO_INTERP_LEN_MS, LTP_ORDER, (int)SILK_FIX_CONST(MAX_SUM_LOG_GAIN_DB / 6.0, 7), (int)SILK_FIX_CONST(0.4, 7),
          (int)SILK_FIX_CONST(7, 7), (int)SILK_FIX_CONST(0.5 / STEREO_QUANT_SUB_STEPS, 16));
}

/* ------------------------------------------------------------------------------------------ */
/* stereo predictor: indices -> real encoder -> bytes -> real decoder */
static int code_and_decode(const int *ix6, opus_int32 *pred, int *nbits)
{
   unsigned char buf[64]; ec_enc enc; ec_dec dec; opus_int8 ix[2][3]; int n, j;
   for (n = 0; n < 2; n++) for (j = 0; j < 3; j++) ix[n][j] = (opus_int8)ix6[n * 3 + j];
   memset(buf, 0, sizeof buf);
   ec_enc_init(&enc, buf, sizeof buf);
   silk_stereo_encode_pred(&enc, ix);
   *nbits = ec_tell(&enc);
   ec_enc_done(&enc);
   if (ec_get_error(&enc)) return 0;
   ec_dec_init(&dec, buf, sizeof buf);
   pred[0] = pred[1] = 0x55555555;
   silk_stereo_decode_pred(&dec, pred);
   if (ec_tell(&dec) != *nbits) *nbits = -ec_tell(&dec);
   return 1;
}

static int ix_ok(const int *ix6) { int n; for (n = 0; n < 2; n++) if (ix6[n * 3] < 0 || ix6[n * 3] > 2 || ix6[n * 3 + 1] < 0 || ix6[n * 3 + 1] >= STEREO_QUANT_SUB_STEPS || ix6[n * 3 + 2] < 0 || ix6[n * 3 + 2] > 4) return 0; return 1; }

static void exec_sd(const int *ix6)
{
   opus_int32 pred[2]; int p[2], nb;
   if (!ix_ok(ix6)) return;
   if (!code_and_decode(ix6, pred, &nb)) return;
   p[0] = pred[0]; p[1] = pred[1];
   js_open("sd"); js_arr_i("ix", ix6, 6); js_arr_i("p", p, 2); js_int("nb", nb); js_close();
}

static void cmd_sd(void)
{
   int a, b, c, d, e, f, ix[6];
   for (a = 0; a < 3; a++) for (b = 0; b < 5; b++) for (c = 0; c < 5; c++) for (d = 0; d < 3; d++) for (e = 0; e < 5; e++) for (f = 0; f < 5; f++) {
      ix[0] = a; ix[1] = b; ix[2] = c; ix[3] = d; ix[4] = e; ix[5] = f; exec_sd(ix);
   }
}

/* silk_stereo_quant_pred; inputs are limited to what keeps pred - level inside 32 bits (the caller's domain is +-2^14) */
#define SQ_LIM 2147400000
static void exec_sq(int p0, int p1)
{
   opus_int32 pred[2], dpred[2]; opus_int8 ix[2][3]; int n, j, ix6[6], q[2], in[2], d[2], nb = 0, okd = 0;
   if (p0 < -SQ_LIM || p0 > SQ_LIM || p1 < -SQ_LIM || p1 > SQ_LIM) return;
   memset(ix, 0x55, sizeof ix);
   pred[0] = p0; pred[1] = p1; in[0] = p0; in[1] = p1;
   silk_stereo_quant_pred(pred, ix);
   for (n = 0; n < 2; n++) for (j = 0; j < 3; j++) ix6[n * 3 + j] = ix[n][j];
   q[0] = pred[0]; q[1] = pred[1]; d[0] = d[1] = 0;
   if (ix_ok(ix6)) { okd = code_and_decode(ix6, dpred, &nb); d[0] = dpred[0]; d[1] = dpred[1]; }
   js_open("sq"); js_arr_i("in", in, 2); js_arr_i("ix", ix6, 6); js_arr_i("q", q, 2); js_int("okd", okd); js_arr_i("d", d, 2); js_close();
}

static void cmd_sq(hx_rng *r, int nrandom)
{
   int i, k, j;
   for (i = -17000; i <= 17000; i += 7) exec_sq(i, -i / 3);
   /* neighbourhood of every level and of every midpoint between adjacent levels (taken from the library's table) */
   for (k = 0; k < STEREO_QUANT_TAB_SIZE - 1; k++) {
      int lo = silk_stereo_pred_quant_Q13[k], hi = silk_stereo_pred_quant_Q13[k + 1];
      for (j = 0; j <= 20; j++) { int c = lo + (hi - lo) * j / 20, t; for (t = -3; t <= 3; t++) exec_sq(c + t, lo - t); }
   }
   { static const int big[] = {-SQ_LIM, SQ_LIM, -(1 << 30), 1 << 30, -65536, 65536, -32768, 32767, -16384, 16384, 0, 1, -1};
     for (i = 0; i < 13; i++) for (j = 0; j < 13; j++) exec_sq(big[i], big[j]); }
   for (i = 0; i < nrandom; i++) {
      int m = hx_u(r, 8), p0, p1;
      if (m == 0) { p0 = (int)(hx_next(r) % 2000001) - 1000000; p1 = (int)(hx_next(r) % 2000001) - 1000000; }
      else { p0 = hx_range(r, -16500, 16500); p1 = hx_range(r, -16500, 16500); }
      exec_sq(p0, p1);
   }
}

/* ------------------------------------------------------------------------------------------ */
/* silk_stereo_MS_to_LR: case fully determined by (case seed, kind) */
static void exec_ms(unsigned cs, int kind)
{
   hx_rng r; stereo_dec_state st; int fs, fl, n, pp[2], sm[2], ss[2], pr[2], npp[2], nsm[2], nss[2]; opus_int32 pred[2];
   static opus_int16 x1[16 * 20 + 2], x2[16 * 20 + 2]; static int a1[16 * 20 + 2], a2[16 * 20 + 2], o1[16 * 20 + 2], o2[16 * 20 + 2];
   static const int fss[3] = {8, 12, 16};
   r.s = ((uint64_t)cs << 8) ^ (uint64_t)kind;
   fs = fss[hx_u(&r, 3)]; fl = fs * (hx_u(&r, 2) ? 20 : 10);
   for (n = 0; n < 2; n++) {
      int m = hx_u(&r, 6);
      pp[n] = m == 0 ? 0 : (m == 1 ? (hx_u(&r, 2) ? 32767 : -32768) : hx_range(&r, -27000, 27000));
      m = hx_u(&r, 8);
      pr[n] = m == 0 ? pp[n] : (m == 1 ? hx_range(&r, -45000, 45000) : hx_range(&r, -27000, 27000));
      sm[n] = hx_u(&r, 3) ? hx_range(&r, -2000, 2000) : hx_range(&r, -32768, 32767);
      ss[n] = hx_u(&r, 3) ? hx_range(&r, -2000, 2000) : hx_range(&r, -32768, 32767);
   }
   for (n = 0; n < fl; n++) {
      int a = 0, b = 0;
      switch (kind) {
      case 0: a = 0; b = 0; break;
      case 1: a = 16384; b = 0; break;                                 /* mid step: the side output shows pred1 + 4*pred0 directly */
      case 2: a = (n % 7 == 3) ? 16384 : 0; b = 0; break;              /* impulse train */
      case 3: a = hx_range(&r, -3000, 3000); b = hx_range(&r, -3000, 3000); break;
      case 4: a = hx_range(&r, -32768, 32767); b = hx_range(&r, -32768, 32767); break;   /* saturating */
      default: a = -20000; b = 12000; break;
      }
      x1[n + 2] = (opus_int16)a; x2[n + 2] = (opus_int16)b; a1[n] = a; a2[n] = b;
   }
   x1[0] = x1[1] = x2[0] = x2[1] = 0x5555;                            /* overwritten from the state by the function */
   for (n = 0; n < 2; n++) { st.pred_prev_Q13[n] = (opus_int16)pp[n]; st.sMid[n] = (opus_int16)sm[n]; st.sSide[n] = (opus_int16)ss[n]; pred[n] = pr[n]; }
   silk_stereo_MS_to_LR(&st, x1, x2, pred, fs, fl);
   for (n = 0; n < fl; n++) { o1[n] = x1[n + 1]; o2[n] = x2[n + 1]; }
   for (n = 0; n < 2; n++) { npp[n] = st.pred_prev_Q13[n]; nsm[n] = st.sMid[n]; nss[n] = st.sSide[n]; }
   js_open("ms"); js_int("cs", cs); js_int("kind", kind); js_int("fs", fs); js_int("fl", fl); js_arr_i("pp", pp, 2); js_arr_i("sm", sm, 2); js_arr_i("ss", ss, 2);
   js_arr_i("pr", pr, 2); js_arr_i("x1", a1, fl); js_arr_i("x2", a2, fl); js_arr_i("o1", o1, fl); js_arr_i("o2", o2, fl);
   js_arr_i("npp", npp, 2); js_arr_i("nsm", nsm, 2); js_arr_i("nss", nss, 2); js_close();
}

static void cmd_ms(hx_rng *r, int n)
{
   int i;
   for (i = 0; i < n; i++) exec_ms((unsigned)(hx_next(r) & 0xffffff), i % 6);
}


/* ------------------------------------------------------------------------------------------ */
/* silk_stereo_LR_to_MS (encoder): the predictors it finds and the width / rate decisions are the encoder's business; what is recorded
   is everything the integer prediction / interpolation part works from (state before and after, the chosen indices) and its output */
static void exec_lr(unsigned cs)
{
   hx_rng r; stereo_enc_state st; int fs, fl, n, j, pp[2], sm[2], ss[2], npp[2], nsm[2], nss[2], ix6[6], rates[2], wp, sw, ssl, rate, act, tomono, kind;
   static opus_int16 b1[16 * 20 + 4], b2[16 * 20 + 4]; static int a1[16 * 20 + 2], a2[16 * 20 + 2], o1[16 * 20 + 2], o2[16 * 20 + 2];
   opus_int16 *x1 = b1 + 2, *x2 = b2 + 2; opus_int8 ix[2][3], mo = 0x55; opus_int32 mr[2];
   static const int fss[3] = {8, 12, 16};
   r.s = 0x17a3ULL ^ ((uint64_t)cs << 6);
   fs = fss[hx_u(&r, 3)]; fl = fs * (hx_u(&r, 2) ? 20 : 10); kind = hx_u(&r, 5);
   memset(&st, 0, sizeof st);
   for (n = 0; n < 2; n++) {
      pp[n] = hx_u(&r, 4) == 0 ? 0 : hx_range(&r, -27000, 27000);
      sm[n] = hx_range(&r, -3000, 3000); ss[n] = hx_range(&r, -3000, 3000);
      st.pred_prev_Q13[n] = (opus_int16)pp[n]; st.sMid[n] = (opus_int16)sm[n]; st.sSide[n] = (opus_int16)ss[n];
   }
   for (n = 0; n < 4; n++) st.mid_side_amp_Q0[n] = hx_range(&r, 0, 4000);
   { int m = hx_u(&r, 4); wp = m == 0 ? 0 : (m == 1 ? 16384 : hx_range(&r, 1, 16383)); m = hx_u(&r, 4); sw = m == 0 ? wp : hx_range(&r, 0, 16384); }
   ssl = hx_u(&r, 3) == 0 ? hx_range(&r, 0, 5 * fs) : 0;
   st.width_prev_Q14 = (opus_int16)wp; st.smth_width_Q14 = (opus_int16)sw; st.silent_side_len = (opus_int16)ssl;
   rate = hx_u(&r, 3) ? hx_range(&r, 8000, 60000) : hx_range(&r, 2000, 12000); act = hx_range(&r, 0, 255); tomono = hx_u(&r, 10) == 0;
   for (n = -2; n < fl; n++) {
      int a, b, t = hx_range(&r, -8000, 8000);
      switch (kind) {
      case 0: a = t; b = t / 2 + hx_range(&r, -300, 300); break;                 /* panned */
      case 1: a = t; b = hx_range(&r, -8000, 8000); break;                       /* uncorrelated */
      case 2: a = t; b = -t + hx_range(&r, -100, 100); break;                    /* out of phase */
      case 3: a = hx_range(&r, -32768, 32767); b = hx_range(&r, -32768, 32767); break;
      default: a = t; b = t; break;                                              /* mono */
      }
      x1[n] = (opus_int16)a; x2[n] = (opus_int16)b; a1[n + 2] = a; a2[n + 2] = b;
   }
   memset(ix, 0x55, sizeof ix); mr[0] = mr[1] = 0x55555555;
   silk_stereo_LR_to_MS(&st, x1, x2, ix, &mo, mr, rate, act, tomono, fs, fl);
   for (n = 0; n < fl + 2; n++) o1[n] = x1[n - 2];                               /* mid[0 .. fl+1] */
   for (n = 0; n < fl; n++) o2[n] = x2[n - 1];                                   /* residual side */
   for (n = 0; n < 2; n++) { npp[n] = st.pred_prev_Q13[n]; nsm[n] = st.sMid[n]; nss[n] = st.sSide[n]; for (j = 0; j < 3; j++) ix6[n * 3 + j] = ix[n][j]; }
   rates[0] = mr[0]; rates[1] = mr[1];
   js_open("lr"); js_int("cs", cs); js_int("fs", fs); js_int("fl", fl); js_arr_i("pp", pp, 2); js_arr_i("sm", sm, 2); js_arr_i("ss", ss, 2); js_int("wp", wp); js_int("sw", sw); js_int("ssl", ssl);
   js_int("rate", rate); js_int("act", act); js_int("tomono", tomono);
   js_arr_i("x1", a1, fl + 2); js_arr_i("x2", a2, fl + 2); js_arr_i("ix", ix6, 6); js_int("mo", mo); js_arr_i("rates", rates, 2);
   js_arr_i("npp", npp, 2); js_arr_i("nsm", nsm, 2); js_arr_i("nss", nss, 2); js_int("nw", st.width_prev_Q14); js_int("nsw", st.smth_width_Q14); js_int("nssl", st.silent_side_len);
   js_arr_i("o1", o1, fl + 2); js_arr_i("o2", o2, fl); js_close();
}
static void cmd_lr(hx_rng *r, int n) { int i; for (i = 0; i < n; i++) exec_lr((unsigned)(hx_next(r) & 0xffffff)); }

/* ------------------------------------------------------------------------------------------ */
/* silk_decode_parameters, LTP part */
static silk_decoder_state g_dec; static int g_dec_fs = 0, g_dec_nb = 0;
static void ensure_dec(int fs, int nb)
{
   if (g_dec_fs != fs || g_dec_nb != nb) { silk_init_decoder(&g_dec); g_dec.nb_subfr = nb; silk_decoder_set_fs(&g_dec, fs, 48000); g_dec_fs = fs; g_dec_nb = nb; }
}

static int run_dp(int fs, int nb, int cc, int st, int per, const int *idx, int lsc, int *B, int *scale, int *per_after)
{
   silk_decoder_control ctrl; int k;
   if ((fs != 8 && fs != 12 && fs != 16) || (nb != 2 && nb != 4) || cc < 0 || cc > 2 || st < 0 || st > 2 || per < 0 || per >= NB_LTP_CBKS || lsc < 0 || lsc > 2) return 0;
   for (k = 0; k < nb; k++) if (idx[k] < 0 || idx[k] >= silk_LTP_vq_sizes[per]) return 0;
   ensure_dec(fs, nb);
   memset(&g_dec.indices, 0, sizeof g_dec.indices);
   memset(&ctrl, 0x55, sizeof ctrl);
   g_dec.LastGainIndex = 10; g_dec.first_frame_after_reset = 1; g_dec.lossCnt = 0;
   g_dec.indices.NLSFInterpCoef_Q2 = 4;
   g_dec.indices.signalType = (opus_int8)st; g_dec.indices.lagIndex = 20; g_dec.indices.contourIndex = 0;
   g_dec.indices.PERIndex = (opus_int8)per; g_dec.indices.LTP_scaleIndex = (opus_int8)lsc;
   for (k = 0; k < nb; k++) g_dec.indices.LTPIndex[k] = (opus_int8)idx[k];
   silk_decode_parameters(&g_dec, &ctrl, cc);
   for (k = 0; k < nb * LTP_ORDER; k++) B[k] = ctrl.LTPCoef_Q14[k];
   *scale = ctrl.LTP_scale_Q14; *per_after = g_dec.indices.PERIndex;
   return 1;
}

static void exec_dp(int fs, int nb, int cc, int st, int per, const int *idx, int lsc)
{
   int B[MAX_NB_SUBFR * LTP_ORDER], sc, pa;
   if (!run_dp(fs, nb, cc, st, per, idx, lsc, B, &sc, &pa)) return;
   js_open("dp"); js_int("fs", fs); js_int("n", nb); js_int("cc", cc); js_int("st", st); js_int("per", per); js_arr_i("idx", idx, nb); js_int("lsc", lsc);
   js_arr_i("B", B, nb * LTP_ORDER); js_int("sc", sc); js_int("pa", pa); js_close();
}

static void cmd_dp(hx_rng *r, int n)
{
   static const int fss[3] = {8, 12, 16}; int per, i, k, idx[4], it;
   for (per = 0; per < NB_LTP_CBKS; per++) for (i = 0; i < silk_LTP_vq_sizes[per]; i++) {
      int lsc = i % 3, nb = (i & 1) ? 4 : 2;
      for (k = 0; k < 4; k++) idx[k] = (i + k * 3) % silk_LTP_vq_sizes[per];
      exec_dp(fss[i % 3], nb, i % 3, 2, per, idx, lsc);
      exec_dp(fss[(i + 1) % 3], 6 - nb, (i + 1) % 3, i % 2, per, idx, lsc);           /* not voiced: everything is cleared */
   }
   for (it = 0; it < n; it++) {
      per = hx_u(r, 3); for (k = 0; k < 4; k++) idx[k] = hx_u(r, silk_LTP_vq_sizes[per]);
      exec_dp(fss[hx_u(r, 3)], hx_u(r, 2) ? 4 : 2, hx_u(r, 3), hx_u(r, 4) ? 2 : hx_u(r, 2), per, idx, hx_u(r, 3));
   }
}

/* ------------------------------------------------------------------------------------------ */
static void cmd_ll(void)
{
   int x;
   for (x = -3; x <= 4100; x++) { js_open("l2"); js_int("x", x); { opus_int32 y = silk_log2lin(x); js_int("yh", y >> 16); js_int("yl", y & 0xffff); } js_close(); }
   for (x = 1; x <= 4000; x++) { js_open("ln"); js_int("x", x); js_int("y", silk_lin2log(x)); js_close(); }
   for (x = 12; x <= 30; x++) { int d; for (d = -2; d <= 2; d++) { int v = (int)((1u << x) + d * 37 * (x - 11)); js_open("ln"); js_int("x", v); js_int("y", silk_lin2log(v)); js_close(); } }
}

#ifndef FIXED_POINT
/* ------------------------------------------------------------------------------------------ */
/* LTP gain quantiser on correlations of a synthetic periodic residual: float wrapper and integer function on the same input */
static void exec_lq(unsigned cs)
{
   hx_rng r; static silk_float res[1200]; silk_float XX[MAX_NB_SUBFR * 25], xX[MAX_NB_SUBFR * 5], Bf[MAX_NB_SUBFR * 5], pg;
   opus_int32 XXq[MAX_NB_SUBFR * 25], xXq[MAX_NB_SUBFR * 5], sum_in, sum_f, sum_i; opus_int16 B14[MAX_NB_SUBFR * 5]; opus_int8 ci_f[MAX_NB_SUBFR], ci_i[MAX_NB_SUBFR], per_f = 0x55, per_i = 0x55;
   int nb, L, k, i, lag[MAX_NB_SUBFR], pgq = 0, a[MAX_NB_SUBFR], b[MAX_NB_SUBFR], Bi[MAX_NB_SUBFR * 5], Bfi[MAX_NB_SUBFR * 5], Bd[MAX_NB_SUBFR * 5], sc = 0, pa = 0, okd, period, fs;
   static const int fss[3] = {8, 12, 16}; double g, nz;
   r.s = 0x51de2ULL ^ ((uint64_t)cs << 4);
   fs = fss[hx_u(&r, 3)]; nb = hx_u(&r, 2) ? 4 : 2; L = 5 * fs;
   period = hx_range(&r, 2 * fs, 18 * fs - 3);
   g = hx_u(&r, 4) ? 0.3 + 0.69 * hx_unit(&r) : 1.0 + 0.4 * hx_unit(&r);          /* period-to-period gain; > 1: growing (onset) */
   nz = hx_u(&r, 3) ? 0.02 + 0.3 * hx_unit(&r) : 1.5 * hx_unit(&r);
   { int m = hx_u(&r, 4); sum_in = m == 0 ? 0 : (m == 1 ? hx_range(&r, 4000, 7500) : hx_range(&r, 0, 4000)); }
   for (i = 0; i < 1200; i++) {
      double v = (hx_unit(&r) * 2.0 - 1.0) * nz * 200.0;
      if (i < period) v += 1000.0 * (hx_unit(&r) * 2.0 - 1.0) * ((i % 13) == 0 ? 3.0 : 0.3);
      else v += g * res[i - period] * (0.5 + 0.5 * hx_unit(&r) * (hx_u(&r, 8) == 0)) ;
      if (v > 30000.0) v = 30000.0;
      if (v < -30000.0) v = -30000.0;
      res[i] = (silk_float)v;
   }
   for (k = 0; k < nb; k++) lag[k] = period + (hx_u(&r, 4) == 0 ? hx_range(&r, -2, 2) : 0);
   silk_find_LTP_FLP(XX, xX, res + 1200 - nb * L - LTP_ORDER, lag, L, nb, 0);
   for (i = 0; i < nb * 25; i++) XXq[i] = (opus_int32)silk_float2int(XX[i] * 131072.0f);
   for (i = 0; i < nb * 5; i++) xXq[i] = (opus_int32)silk_float2int(xX[i] * 131072.0f);
   memset(ci_f, 0x55, sizeof ci_f); memset(ci_i, 0x55, sizeof ci_i);
   sum_f = sum_in; sum_i = sum_in;
   silk_quant_LTP_gains_FLP(Bf, ci_f, &per_f, &sum_f, &pg, XX, xX, L, nb, 0);
   silk_quant_LTP_gains(B14, ci_i, &per_i, &sum_i, &pgq, XXq, xXq, L, nb, 0);
   for (k = 0; k < nb; k++) { a[k] = ci_f[k]; b[k] = ci_i[k]; }
   for (i = 0; i < nb * 5; i++) { Bi[i] = B14[i]; Bfi[i] = (int)lrint((double)Bf[i] * 16384.0); Bd[i] = 0; }
   okd = run_dp(fs, nb, 0, 2, per_i, b, 0, Bd, &sc, &pa);
   js_open("lq"); js_int("cs", cs); js_int("fs", fs); js_int("n", nb); js_int("L", L); js_int("si", sum_in);
   js_int("perf", per_f); js_int("per", per_i); js_arr_i("cf", a, nb); js_arr_i("ci", b, nb); js_int("sf", sum_f); js_int("so", sum_i);
   js_arr_i("B", Bi, nb * 5); js_arr_i("Bf", Bfi, nb * 5); js_int("pg", pgq); js_int("pgf", (int)lrint((double)pg * 128.0));
   js_int("okd", okd); js_arr_i("Bd", Bd, nb * 5); js_close();
}

static void cmd_lq(hx_rng *r, int n) { int i; for (i = 0; i < n; i++) exec_lq((unsigned)(hx_next(r) & 0xffffff)); }

/* ------------------------------------------------------------------------------------------ */
/* whole codec.  The SILK objects are reached through the offsets stored at the start of OpusEncoder / OpusDecoder; the decoder
   super-struct is private to silk/dec_API.c: this mirror is checked against silk_Get_Decoder_Size() and fresh contents at start-up */
typedef struct {
   silk_decoder_state cs[DECODER_NUM_CHANNELS];
   stereo_dec_state sStereo;
   opus_int nChannelsAPI, nChannelsInternal, prev_decode_only_middle;
} silk_mirror;

typedef struct { int fs, mode, bw, ms, br, cbr, cx, sig, fec, seed, f0, swp, lossp; } wc_cfg;
#define WC_NCFG 13
static void wc_cfg_arr(const wc_cfg *c, int *a) { a[0]=c->fs; a[1]=c->mode; a[2]=c->bw; a[3]=c->ms; a[4]=c->br; a[5]=c->cbr; a[6]=c->cx; a[7]=c->sig; a[8]=c->fec; a[9]=c->seed; a[10]=c->f0; a[11]=c->swp; a[12]=c->lossp; }
static void wc_cfg_from(const int *a, wc_cfg *c) { c->fs=a[0]; c->mode=a[1]; c->bw=a[2]; c->ms=a[3]; c->br=a[4]; c->cbr=a[5]; c->cx=a[6]; c->sig=a[7]; c->fec=a[8]; c->seed=a[9]; c->f0=a[10]; c->swp=a[11]; c->lossp=a[12]; }

static void wc_chan(const char *key, const SideInfoIndices *ix, int nb, const silk_decoder_state *dc)
{
   int k, ltp[MAX_NB_SUBFR];
   for (k = 0; k < nb && k < MAX_NB_SUBFR; k++) ltp[k] = ix->LTPIndex[k];
   printf(",\"%s\":{\"st\":%d,\"per\":%d,\"lsc\":%d", key, ix->signalType, ix->PERIndex, ix->LTP_scaleIndex);
   js_arr_i("ltp", ltp, nb);
   if (dc) {                  /* what silk_decode_parameters derives from the indices the decoder holds (run on a copy of the channel state) */
      static silk_decoder_state tmp; silk_decoder_control ctrl; int B[MAX_NB_SUBFR * LTP_ORDER];
      tmp = *dc; memset(&ctrl, 0x55, sizeof ctrl);
      silk_decode_parameters(&tmp, &ctrl, CODE_INDEPENDENTLY);
      for (k = 0; k < nb * LTP_ORDER; k++) B[k] = ctrl.LTPCoef_Q14[k];
      js_arr_i("B", B, nb * LTP_ORDER); js_int("sc", ctrl.LTP_scale_Q14); js_int("pa", tmp.indices.PERIndex);
   }
   printf("}");
}

static int exec_wc(const wc_cfg *c, int npk, int from)
{
   static const int bws[5] = {OPUS_BANDWIDTH_NARROWBAND, OPUS_BANDWIDTH_MEDIUMBAND, OPUS_BANDWIDTH_WIDEBAND, OPUS_BANDWIDTH_SUPERWIDEBAND, OPUS_BANDWIDTH_FULLBAND};
   int err, N, p, i, ch, cfga[WC_NCFG], ssz = 0, fch = 2; long t = 0; double phase = 0.0, ph2 = 0.0; opus_uint32 erng = 0, drng = 0;
   opus_int16 *pcm, *out; unsigned char pkt[1500]; OpusEncoder *enc; OpusDecoder *dec; silk_encoder *se; silk_mirror *sd; hx_rng r, rl;
   if ((c->fs != 8000 && c->fs != 12000 && c->fs != 16000 && c->fs != 24000 && c->fs != 48000) || c->bw < 0 || c->bw > 4 || (c->mode != 0 && c->mode != 1)) return 0;
   if ((c->ms != 20 && c->ms != 40 && c->ms != 60 && c->ms != 10) || c->br < 6000 || c->br > 128000 || c->cx < 0 || c->cx > 10 || c->sig < 0 || c->sig > 3) return 0;
   if (c->f0 < 50 || c->f0 > 450 || npk < 1 || npk > 2000 || from < 0 || c->swp < 0 || c->lossp < 0 || c->lossp > 100) return 0;
   if (c->mode == 1 && (c->bw < 3 || c->fs < 24000 || c->ms > 20)) return 0;
   if (c->mode == 0 && c->bw > 2) return 0;
   N = c->fs / 1000 * c->ms;
   enc = opus_encoder_create(c->fs, 2, OPUS_APPLICATION_VOIP, &err); if (!enc) return 0;
   dec = opus_decoder_create(c->fs, 2, &err); if (!dec) { opus_encoder_destroy(enc); return 0; }
   se = (silk_encoder *)((char *)enc + ((int *)enc)[1]);                  /* OpusEncoder.silk_enc_offset */
   sd = (silk_mirror *)((char *)dec + ((int *)dec)[1]);                   /* OpusDecoder.silk_dec_offset */
   silk_Get_Decoder_Size(&ssz);
   if ((int)sizeof(silk_mirror) != ssz || sd->cs[0].first_frame_after_reset != 1 || sd->cs[1].first_frame_after_reset != 1 || sd->cs[0].prev_gain_Q16 != 65536
       || sd->nChannelsInternal != 0 || sd->prev_decode_only_middle != 0 || (se->nChannelsInternal != 2 && se->nChannelsInternal != 1 && se->nChannelsInternal != 0)) {
      fprintf(stderr, "hx_silkside2: the layout assumed for the SILK decoder super-structure does not hold (mirror %d vs %d)\n", (int)sizeof(silk_mirror), ssz);
      exit(3);
   }
   pcm = (opus_int16 *)malloc(sizeof(opus_int16) * N * 2); out = (opus_int16 *)malloc(sizeof(opus_int16) * N * 2);
   opus_encoder_ctl(enc, OPUS_SET_FORCE_MODE(c->mode ? MODE_HYBRID : MODE_SILK_ONLY));
   opus_encoder_ctl(enc, OPUS_SET_BANDWIDTH(bws[c->bw])); opus_encoder_ctl(enc, OPUS_SET_MAX_BANDWIDTH(bws[c->bw]));
   opus_encoder_ctl(enc, OPUS_SET_BITRATE(c->br)); opus_encoder_ctl(enc, OPUS_SET_VBR(!c->cbr));
   opus_encoder_ctl(enc, OPUS_SET_COMPLEXITY(c->cx)); opus_encoder_ctl(enc, OPUS_SET_INBAND_FEC(c->fec)); opus_encoder_ctl(enc, OPUS_SET_PACKET_LOSS_PERC(c->fec ? 15 : 0));
   opus_encoder_ctl(enc, OPUS_SET_FORCE_CHANNELS(2));
   r.s = (uint64_t)c->seed; rl.s = (uint64_t)c->seed * 77 + 5; wc_cfg_arr(c, cfga);
   for (p = 0; p < npk; p++) {
      int len, n, lost, dpp_b[2], dpp_a[2], pdom_b, nci_b;
      if (c->swp > 0 && p > 0 && p % c->swp == 0) { fch = 3 - fch; opus_encoder_ctl(enc, OPUS_SET_FORCE_CHANNELS(fch)); }
      for (i = 0; i < N; i++, t++) {
         double tt = (double)t / c->fs, f0 = c->f0 * (1.0 + 0.3 * sin(2 * M_PI * tt * 0.7)), s = 0.0, s2 = 0.0, env = 1.0, nz, pan; int h;
         if (c->sig == 1 || c->sig == 3) { double ph = fmod(tt, 0.9); env = ph < 0.45 ? 0.3 + ph : (ph < 0.6 ? 0.0 : (ph < 0.8 ? -1.0 : 0.02)); f0 = c->f0 * (1.25 - 0.6 * ph); }
         phase += f0 / c->fs; if (phase >= 1.0) phase -= 1.0;
         ph2 += 1.37 * f0 / c->fs; if (ph2 >= 1.0) ph2 -= 1.0;
         nz = hx_unit(&r) * 2.0 - 1.0;
         if (c->sig == 2) { s = 0.6 * nz; s2 = 0.6 * (hx_unit(&r) * 2.0 - 1.0); }
         else if (env < 0.0) { s = 0.25 * nz; s2 = 0.2 * nz + 0.1 * (hx_unit(&r) * 2.0 - 1.0); }
         else {
            for (h = 1; h <= 20 && h * f0 < 0.45 * c->fs; h++) s += sin(2 * M_PI * h * phase) / h;
            for (h = 1; h <= 12 && h * f0 * 1.37 < 0.45 * c->fs; h++) s2 += sin(2 * M_PI * h * ph2) / h;
            s = env * s * 0.45 + 0.004 * nz; s2 = env * s2 * 0.45;
         }
         pan = 0.5 + 0.5 * sin(2 * M_PI * tt * 0.23);                      /* moving source: predictors sweep their range */
         if (c->sig == 3) { pcm[i * 2] = (opus_int16)(13000 * s * pan); pcm[i * 2 + 1] = (opus_int16)(13000 * s * (1.0 - pan)); }   /* amplitude-panned mono */
         else { pcm[i * 2] = (opus_int16)(11000 * (s * pan + 0.4 * s2)); pcm[i * 2 + 1] = (opus_int16)(11000 * (s * (1.0 - pan) - 0.4 * s2)); }
      }
      len = opus_encode(enc, pcm, N, pkt, sizeof pkt);
      if (len < 0) { js_open("wc_err"); js_arr_i("cfg", cfga, WC_NCFG); js_int("pk", p); js_int("enc", len); js_close(); break; }
      lost = c->lossp > 0 && (int)hx_u(&rl, 100) < c->lossp;
      for (i = 0; i < 2; i++) dpp_b[i] = sd->sStereo.pred_prev_Q13[i];
      pdom_b = sd->prev_decode_only_middle; nci_b = sd->nChannelsInternal;
      n = lost ? opus_decode(dec, NULL, 0, out, N, 0) : opus_decode(dec, pkt, len, out, N, 0);
      if (n != N) { js_open("wc_err"); js_arr_i("cfg", cfga, WC_NCFG); js_int("pk", p); js_int("dec", n); js_close(); break; }
      if (p < from) continue;
      for (i = 0; i < 2; i++) dpp_a[i] = sd->sStereo.pred_prev_Q13[i];
      opus_encoder_ctl(enc, OPUS_GET_FINAL_RANGE(&erng)); opus_decoder_ctl(dec, OPUS_GET_FINAL_RANGE(&drng));
      js_open("wc"); js_arr_i("cfg", cfga, WC_NCFG); js_int("pk", p); js_int("len", len); js_int("lost", lost); js_int("fch", fch);
      { int er[2], dr[2]; er[0] = (int)(erng >> 16); er[1] = (int)(erng & 0xFFFF); dr[0] = (int)(drng >> 16); dr[1] = (int)(drng & 0xFFFF); js_arr_i("er", er, 2); js_arr_i("dr", dr, 2); }
      { const unsigned char *fr[48]; opus_int16 sz[48]; unsigned char toc; int nfr = opus_packet_parse(pkt, len, &toc, fr, sz, NULL);
        js_int("toc", pkt[0]); js_int("nfr", nfr); js_int("fsz", nfr >= 1 ? sz[0] : -1); }
      {  /* encoder side */
         int nf = se->state_Fxx[0].sCmn.nFramesPerPacket, f, ix[MAX_FRAMES_PER_PACKET * 6], mid[MAX_FRAMES_PER_PACKET], epp[2];
         for (f = 0; f < MAX_FRAMES_PER_PACKET; f++) { int a, b; mid[f] = se->sStereo.mid_only_flags[f]; for (a = 0; a < 2; a++) for (b = 0; b < 3; b++) ix[f * 6 + a * 3 + b] = se->sStereo.predIx[f][a][b]; }
         epp[0] = se->sStereo.pred_prev_Q13[0]; epp[1] = se->sStereo.pred_prev_Q13[1];
         js_int("enci", se->nChannelsInternal); js_int("nf", nf); js_int("efs", se->state_Fxx[0].sCmn.fs_kHz); js_int("enb", se->state_Fxx[0].sCmn.nb_subfr);
         js_arr_i("eix", ix, MAX_FRAMES_PER_PACKET * 6); js_arr_i("emid", mid, MAX_FRAMES_PER_PACKET); js_arr_i("epp", epp, 2);
         js_int("ew", se->sStereo.width_prev_Q14); js_int("esw", se->sStereo.smth_width_Q14); js_int("essl", se->sStereo.silent_side_len);
         js_int("eslg0", se->state_Fxx[0].sCmn.sum_log_gain_Q7); js_int("eslg1", se->state_Fxx[1].sCmn.sum_log_gain_Q7);
      }
      js_int("dnci", sd->nChannelsInternal); js_int("dnapi", sd->nChannelsAPI); js_int("dncib", nci_b); js_int("dfs", sd->cs[0].fs_kHz); js_int("dnb", sd->cs[0].nb_subfr);
      js_arr_i("dppb", dpp_b, 2); js_arr_i("dppa", dpp_a, 2); js_int("pdomb", pdom_b); js_int("pdoma", sd->prev_decode_only_middle);
      for (ch = 0; ch < 2; ch++) {
         char ke[4] = {'e', (char)('0' + ch), 0, 0}, kd[4] = {'d', (char)('0' + ch), 0, 0};
         wc_chan(ke, &se->state_Fxx[ch].sCmn.indices, se->state_Fxx[0].sCmn.nb_subfr, NULL);
         wc_chan(kd, &sd->cs[ch].indices, sd->cs[0].nb_subfr == 2 ? 2 : 4, (sd->cs[ch].fs_kHz == 8 || sd->cs[ch].fs_kHz == 12 || sd->cs[ch].fs_kHz == 16) ? &sd->cs[ch] : NULL);
      }
      js_close();
   }
   opus_encoder_destroy(enc); opus_decoder_destroy(dec); free(pcm); free(out);
   return 1;
}

static void cmd_codec(hx_rng *r, int nstreams, int npk)
{
   static const int fss[5] = {8000, 12000, 16000, 24000, 48000}; static const int mss[4] = {20, 10, 40, 60}; int it;
   for (it = 0; it < nstreams; it++) {
      wc_cfg c; memset(&c, 0, sizeof c);
      c.mode = (it % 4 == 3);
      if (c.mode) { c.bw = 3 + hx_u(r, 2); c.fs = hx_u(r, 2) ? 48000 : 24000; c.ms = hx_u(r, 2) ? 20 : 10; c.br = hx_range(r, 20000, 64000); }
      else { c.bw = hx_u(r, 3); c.fs = hx_u(r, 2) ? fss[c.bw] : fss[hx_u(r, 5)]; c.ms = mss[hx_u(r, 4)]; c.br = hx_u(r, 3) ? hx_range(r, 12000, 64000) : hx_range(r, 12000, 20000); }
      c.cbr = hx_u(r, 3) == 0; c.cx = hx_u(r, 2) ? 10 : hx_range(r, 0, 10); c.sig = it % 5 == 4 ? 3 : (hx_u(r, 5) < 3 ? 1 : (hx_u(r, 3) ? 0 : 2)); c.fec = hx_u(r, 4) == 0;
      c.seed = (int)(hx_next(r) & 0x3fffffff); c.f0 = hx_range(r, 70, 400);
      c.swp = hx_u(r, 3) == 0 ? hx_range(r, 5, 17) : 0; c.lossp = hx_u(r, 3) == 0 ? hx_range(r, 5, 30) : 0;
      exec_wc(&c, npk, 0);
   }
}
#endif

/* ------------------------------------------------------------------------------------------ */
static const char *jfind(const char *ln, const char *key) {
   char pat[32]; const char *p; snprintf(pat, sizeof pat, "\"%s\":", key); p = strstr(ln, pat);
   return p ? p + strlen(pat) : NULL;
}
static int jint(const char *ln, const char *key, int dflt) { const char *p = jfind(ln, key); return p ? (int)strtol(p, NULL, 10) : dflt; }
static int jarr(const char *ln, const char *key, int *out, int max) {
   const char *p = jfind(ln, key); int n = 0; char *e;
   if (!p || *p != '[') return 0;
   p++;
   while (*p && *p != ']' && n < max) { out[n++] = (int)strtol(p, &e, 10); if (e == p) break; p = e; if (*p == ',') p++; }
   return n;
}

static void cmd_replay(void)
{
   static char ln[1 << 17];
   while (fgets(ln, sizeof ln, stdin)) {
      const char *k = jfind(ln, "k"); int a[64];
      if (!k) continue;
      if (!strncmp(k, "\"sd\"", 4)) { if (jarr(ln, "ix", a, 6) == 6) exec_sd(a); }
      else if (!strncmp(k, "\"sq\"", 4)) { if (jarr(ln, "in", a, 2) == 2) exec_sq(a[0], a[1]); }
      else if (!strncmp(k, "\"ms\"", 4)) { int cs = jint(ln, "cs", -1), kind = jint(ln, "kind", -1); if (cs >= 0 && kind >= 0 && kind < 6) exec_ms((unsigned)cs, kind); }
      else if (!strncmp(k, "\"lr\"", 4)) { int cs = jint(ln, "cs", -1); if (cs >= 0) exec_lr((unsigned)cs); }
      else if (!strncmp(k, "\"dp\"", 4)) { int nb = jint(ln, "n", 0); if ((nb == 2 || nb == 4) && jarr(ln, "idx", a, 4) == nb) exec_dp(jint(ln, "fs", 0), nb, jint(ln, "cc", -1), jint(ln, "st", -1), jint(ln, "per", -1), a, jint(ln, "lsc", -1)); }
      else if (!strncmp(k, "\"l2\"", 4) || !strncmp(k, "\"ln\"", 4)) {
         int x = jint(ln, "x", 0);
         if (k[2] == '2') { opus_int32 y = silk_log2lin(x); js_open("l2"); js_int("x", x); js_int("yh", y >> 16); js_int("yl", y & 0xffff); js_close(); }
         else if (x > 0) { js_open("ln"); js_int("x", x); js_int("y", silk_lin2log(x)); js_close(); }
      }
#ifndef FIXED_POINT
      else if (!strncmp(k, "\"lq\"", 4)) { int cs = jint(ln, "cs", -1); if (cs >= 0) exec_lq((unsigned)cs); }
      else if (!strncmp(k, "\"wc\"", 4)) {
         int ca[WC_NCFG], pk = jint(ln, "pk", -1); wc_cfg c;
         if (jarr(ln, "cfg", ca, WC_NCFG) == WC_NCFG && pk >= 0) { wc_cfg_from(ca, &c); exec_wc(&c, pk + 1, pk); }
      }
#endif
   }
}

int main(int argc, char **argv)
{
   hx_rng r; const char *cmd = argc > 1 ? argv[1] : "";
   r.s = argc > 2 ? strtoull(argv[2], NULL, 10) : 1;
   if (!strcmp(cmd, "tables")) cmd_tables();
   else if (!strcmp(cmd, "sd")) cmd_sd();
   else if (!strcmp(cmd, "sq")) cmd_sq(&r, argc > 3 ? atoi(argv[3]) : 1000);
   else if (!strcmp(cmd, "ms")) cmd_ms(&r, argc > 3 ? atoi(argv[3]) : 60);
   else if (!strcmp(cmd, "dp")) cmd_dp(&r, argc > 3 ? atoi(argv[3]) : 200);
   else if (!strcmp(cmd, "lr")) cmd_lr(&r, argc > 3 ? atoi(argv[3]) : 60);
   else if (!strcmp(cmd, "ll")) cmd_ll();
#ifndef FIXED_POINT
   else if (!strcmp(cmd, "lq")) cmd_lq(&r, argc > 3 ? atoi(argv[3]) : 200);
   else if (!strcmp(cmd, "codec")) cmd_codec(&r, argc > 3 ? atoi(argv[3]) : 8, argc > 4 ? atoi(argv[4]) : 40);
#endif
   else if (!strcmp(cmd, "replay")) cmd_replay();
   else { fprintf(stderr, "usage: hx_silkside2 tables|sd|sq|ms|lr|lq|dp|ll|codec|replay ...\n"); return 64; }
   return 0;
}
