/* hx_softclip: drives opus_pcm_soft_clip and the decoder gain on the real library and records what
   happened (modules SoftClip / SoftClipTrace, property C19).  The harness judges nothing: it
   executes, digests and measures; spec/SoftClipTrace.tla decides.

   hx_softclip clip  < lines      one call sequence per line:
        Q <seed> <tok> <tok> ...
        tok = Z                          clear the state memory of every twin ("cleared memory")
              K<C>:<N>:<fl>:<syms>       one soft-clip call on C channels of N samples; fl bit0 = NULL pcm,
                                         bit1 = NULL memory; syms = one letter per channel (cycled):
                                         I in range, P isolated peak, R run above range, T excursion still open
                                         at the frame end, E over range before the first zero crossing (frame edge),
                                         H huge amplitudes closed at the end, G huge amplitudes open at the end
              L<v>,<v>,...               one mono call on the literal samples
     Every call is executed on three twins: I interleaved with carried memory, P channel by channel with
     its own carried memory, Q channel by channel with a clone of I's memory before the call.

   hx_softclip gain  < lines      one packet stream per line:
        G <seed> <fs> <ch> <dq> <nfr> <g> <flags> <ampq>
        dq = packet duration in half-milliseconds, g = decoder gain to set (any int), ampq = amplitude * 1000,
        flags: 1 splice two encoders (speech-only / transform-only) without redundancy, 2 losses (PLC and FEC),
               4 forced mode switching inside one encoder, 8 change the gain mid-stream (incl. illegal values),
               16 reset the decoders mid-stream
     Twin decoders: gain 0 float, gain g float, gain g 16-bit, gain g 24-bit (fixed-point build: gain 0 and
     gain g 16-bit only). */
#include "hx_common.h"
#ifdef HAVE_CONFIG_H
#include "config.h"
#endif
#include "opus.h"
#include <math.h>

extern int opus_verif_decoder_peek(const OpusDecoder *st, int field);

#define MAXCH 16
#define MAXN 5760
static int FX;   /* 1 when linked against a fixed-point libopus (set from opus_get_version_string()) */

/* ------------------------------------------------------------------------------------------- */
/* soft clipper                                                                                  */

static float memI[MAXCH], memP[MAXCH], memQ[MAXCH];
static int lastsign[MAXCH];

static float over_amp(hx_rng *r)
{
   static const float t[] = { 1.00000012f, 1.0001f, 1.01f, 1.2f, 1.5f, 1.99f, 2.f, 2.0001f, 3.f, 10.f, 1000.f, 1e6f };
   if (hx_u(r, 3) == 0) return t[hx_u(r, sizeof t / sizeof t[0])];
   if (hx_u(r, 4) == 0) return (float)pow(10.0, 6.0 * hx_unit(r)) * 1.0001f;
   return 1.0001f + (float)hx_unit(r) * 1.5f;
}

static float special_val(hx_rng *r)
{
   static const float t[] = { 0.f, -0.f, 1.f, -1.f, 1e-40f, -1e-40f, 1e-30f, -1e-30f, 1e-9f, -1e-9f, 0.99999994f, -0.99999994f, 1e-5f, -1e-5f };
   return t[hx_u(r, sizeof t / sizeof t[0])];
}

/* strictly non-zero in-range value of the given sign */
static float inr_signed(hx_rng *r, int sign)
{
   float v = 0.05f + 0.95f * (float)hx_unit(r);
   if (v > 1.f) v = 1.f;
   return sign > 0 ? v : -v;
}

static void background(hx_rng *r, float *x, int n)
{
   int style = (int)hx_u(r, 6), i;
   double f = 0.001 + 0.45 * hx_unit(r), ph = 6.283 * hx_unit(r), amp = hx_u(r, 3) ? hx_unit(r) : 1.0;
   float dc = (float)(amp * (hx_u(r, 2) ? 1 : -1));
   for (i = 0; i < n; i++) {
      float v;
      switch (style) {
      case 0: v = (float)(amp * sin(ph + 6.283185307 * f * i)); break;
      case 1: v = (float)(amp * (2 * hx_unit(r) - 1)); break;
      case 2: v = hx_u(r, 3) ? special_val(r) : (float)(2 * hx_unit(r) - 1); break;
      case 3: v = dc; break;
      case 4: v = 0.f; break;
      default: v = (float)(amp * sin(ph + 6.283185307 * f * i) * (0.5 + 0.5 * sin(0.013 * i))); break;
      }
      if (style != 4 && hx_u(r, 24) == 0) v = special_val(r);
      if (v > 1.f) v = 1.f;
      if (v < -1.f) v = -1.f;
      x[i] = v;
   }
}

/* returns det (1 = the open-at-end attribute is realised by construction), *opn = that attribute */
static int make_frame(hx_rng *r, char sym, float *x, int n, int prevsign, int *opn)
{
   int i, s = hx_u(r, 2) ? 1 : -1;
   background(r, x, n);
   *opn = 0;
   if (sym == 'I') return 1;
   if (n < 8) {
      /* too short for a faithful construction: arbitrary over-range content */
      for (i = 0; i < n; i++) {
         x[i] = (hx_u(r, 2) ? 1.f : -1.f) * over_amp(r);
         if (hx_u(r, 4) == 0) x[i] = special_val(r);
      }
      x[hx_u(r, n)] = (float)s * over_amp(r);
      *opn = 2;
      return 0;
   }
   switch (sym) {
   case 'P': {
      int p = 2 + (int)hx_u(r, n - 5);
      x[p] = (float)s * over_amp(r);
      x[p - 1] = inr_signed(r, -s); x[p + 1] = inr_signed(r, -s);
      break; }
   case 'R': {
      int L = 2 + (int)hx_u(r, (n - 4 < 64 ? n - 4 : 64) - 1), p = 1 + (int)hx_u(r, n - L - 2);
      for (i = 0; i < L; i++) {
         int big = hx_u(r, 3) != 0;
         x[p + i] = (float)s * (big ? over_amp(r) : (0.3f + 0.7f * (float)hx_unit(r)));
      }
      x[p] = (float)s * over_amp(r); x[p + L - 1] = (float)s * over_amp(r);
      x[p - 1] = inr_signed(r, -s); x[p + L] = inr_signed(r, -s);
      break; }
   case 'T': {
      int L = 1 + (int)hx_u(r, n / 2);
      for (i = n - L; i < n; i++) x[i] = (float)s * (hx_u(r, 2) ? over_amp(r) : (0.2f + 0.8f * (float)hx_unit(r)));
      x[n - L + (int)hx_u(r, L)] = (float)s * over_amp(r);
      x[n - L - 1] = inr_signed(r, -s);
      *opn = 1;
      break; }
   case 'E': {
      int L = 1 + (int)hx_u(r, n / 2);
      if (prevsign && hx_u(r, 2)) s = -prevsign;      /* sign change exactly at the frame edge */
      for (i = 0; i < L; i++) x[i] = (float)s * (hx_u(r, 2) ? over_amp(r) : (float)hx_unit(r));
      if (hx_u(r, 3) == 0 && L > 1) x[0] = (float)s * (float)hx_unit(r);
      x[hx_u(r, L)] = (float)s * over_amp(r);
      if (hx_u(r, 4) == 0 && L > 2) x[1 + hx_u(r, L - 2)] = (float)s * 1e-9f;
      x[L] = inr_signed(r, -s);
      break; }
   case 'H': case 'G': default: {
      for (i = 0; i < n; i++) {
         x[i] = (hx_u(r, 2) ? 1.f : -1.f) * (float)pow(10.0, 6.0 * hx_unit(r));
         if (hx_u(r, 16) == 0) x[i] = special_val(r);
      }
      x[0] = 3.f; x[1] = -3.f;                        /* a sign change right at the start */
      if (sym == 'G') {
         x[n - 1] = (float)s * over_amp(r);
         *opn = 1;
      } else {
         x[n - 3] = (float)s * over_amp(r);
         x[n - 2] = inr_signed(r, -s);
         x[n - 1] = (float)(2 * hx_unit(r) - 1);
      }
      break; }
   }
   return 1;
}

static void js_hexarr(const char *key, const uint64_t *d, int n)
{
   int i; printf(",\"%s\":[", key);
   for (i = 0; i < n; i++) printf(i ? ",\"%016llx\"" : "\"%016llx\"", (unsigned long long)d[i]);
   printf("]");
}

static float chbuf[MAXCH][MAXN];

static void clip_call(hx_rng *r, int C, int N, int fl, const char *syms, const float *literal)
{
   int np = fl & 1, nm = (fl >> 1) & 1, deg = (C < 1 || N < 1 || np || nm);
   int c, i, can = 1, pqt = 0;
   int bc = C < 1 ? 1 : (C > MAXCH ? MAXCH : C), bn = N < 1 ? 8 : (N > MAXN ? MAXN : N);
   int sy[MAXCH], det[MAXCH], opn[MAXCH], inr[MAXCH], mz[MAXCH], ov[MAXCH], fp[MAXCH], fb[MAXCH];
   uint64_t din[MAXCH], di[MAXCH], dp[MAXCH], dq[MAXCH];
   hx_buf in, out, mem;
   float *xi, *xo, *pm;
   int ns = (int)strlen(syms);
   if (C > MAXCH) C = MAXCH;
   if (N > MAXN) N = MAXN;
   for (c = 0; c < bc; c++) {
      char s = ns ? syms[c % ns] : 'I';
      sy[c] = s;
      if (literal) { memcpy(chbuf[c], literal, bn * sizeof(float)); det[c] = 0; opn[c] = 2; }
      else det[c] = make_frame(r, s, chbuf[c], bn, lastsign[c], &opn[c]);
   }
   in = hx_buf_new((size_t)bn * bc * sizeof(float), 0);
   out = hx_buf_new((size_t)bn * bc * sizeof(float), 0);
   xi = (float *)in.p; xo = (float *)out.p;
   for (c = 0; c < bc; c++) for (i = 0; i < bn; i++) xi[i * bc + c] = chbuf[c][i];
   memcpy(xo, xi, (size_t)bn * bc * sizeof(float));
   /* twin I: interleaved call, exact-size memory block of bc cells */
   mem = hx_buf_new((size_t)bc * sizeof(float), 0);
   pm = (float *)mem.p;
   memcpy(pm, memI, bc * sizeof(float));
   memcpy(memQ, memI, sizeof memQ);
   hx_arm(20);
   opus_pcm_soft_clip(np ? NULL : xo, N, C, nm ? NULL : pm);
   hx_disarm();
   can &= hx_buf_ok(&out) && hx_buf_ok(&mem);
   js_open("clip"); js_int("C", C); js_int("N", N); js_int("np", np); js_int("nm", nm); js_int("deg", deg);
   if (deg) {
      js_dig("b0", xi, (size_t)bn * bc * sizeof(float)); js_dig("b1", xo, (size_t)bn * bc * sizeof(float));
      memcpy(memI, pm, bc * sizeof(float));
   } else {
      memcpy(memI, pm, bc * sizeof(float));
      for (c = 0; c < C; c++) {
         const float *x = chbuf[c]; int a = 1;
         static float y[MAXN];
         ov[c] = fp[c] = fb[c] = 0;
         for (i = 0; i < N; i++) {
            float xv = x[i], yv = xo[i * C + c];
            y[i] = yv;
            if (!(xv <= 1.f && xv >= -1.f)) a = 0;
            if (!(yv <= 1.f && yv >= -1.f)) ov[c]++;
            if ((xv > 0 && yv < 0) || (xv < 0 && yv > 0)) {
               fp[c]++;
               if (fabsf(xv) >= 0.0009765625f || fabsf(yv) >= 0.0009765625f) fb[c]++;
            }
         }
         inr[c] = a;
         din[c] = hx_fnv(x, N * sizeof(float));
         di[c] = hx_fnv(y, N * sizeof(float));
         mz[c] = (memI[c] == 0.f);
         if (N > 0) lastsign[c] = x[N - 1] > 0 ? 1 : (x[N - 1] < 0 ? -1 : 0);
      }
   }
   hx_buf_free(&mem);
   /* twins P (own carried memory) and Q (clone of I's memory before the call): channel by channel */
   for (c = 0; c < (C < 1 ? 0 : C); c++) {
      int tw;
      for (tw = 0; tw < 2; tw++) {
         hx_buf cb = hx_buf_new((size_t)bn * sizeof(float), 0), cm = hx_buf_new(sizeof(float), 0);
         float *cx = (float *)cb.p, *cmem = (float *)cm.p;
         memcpy(cx, chbuf[c], bn * sizeof(float));
         *cmem = tw ? memQ[c] : memP[c];
         hx_arm(20);
         opus_pcm_soft_clip(np ? NULL : cx, N, 1, nm ? NULL : cmem);
         hx_disarm();
         can &= hx_buf_ok(&cb) && hx_buf_ok(&cm);
         if (tw) memQ[c] = *cmem; else memP[c] = *cmem;
         if (!deg) { if (tw) dq[c] = hx_fnv(cx, N * sizeof(float)); else dp[c] = hx_fnv(cx, N * sizeof(float)); }
         else if (memcmp(cx, chbuf[c], bn * sizeof(float))) pqt = 1;
         hx_buf_free(&cb); hx_buf_free(&cm);
      }
   }
   js_int("can", can); js_int("pqt", pqt);
   js_dig("ma", memI, sizeof memI); js_dig("mb", memP, sizeof memP); js_dig("mq", memQ, sizeof memQ);
   if (!deg) {
      js_arr_i("sy", sy, C); js_arr_i("det", det, C); js_arr_i("opn", opn, C); js_arr_i("inr", inr, C);
      js_arr_i("mz", mz, C); js_arr_i("ov", ov, C); js_arr_i("fp", fp, C); js_arr_i("fb", fb, C);
      js_hexarr("din", din, C); js_hexarr("di", di, C); js_hexarr("dp", dp, C); js_hexarr("dq", dq, C);
   }
   js_close();
   hx_buf_free(&in); hx_buf_free(&out);
}

static int run_clip_line(char *line, int lineno)
{
   char *tok; unsigned long long seed; hx_rng r; int ncall = 0;
   tok = strtok(line, " \t\r\n");
   if (!tok || tok[0] != 'Q') return -1;
   tok = strtok(NULL, " \t\r\n");
   if (!tok) return -1;
   seed = strtoull(tok, NULL, 10);
   r.s = seed * 0x9E3779B97F4A7C15ULL + 12345;
   memset(memI, 0, sizeof memI); memset(memP, 0, sizeof memP); memset(memQ, 0, sizeof memQ);
   memset(lastsign, 0, sizeof lastsign);
   js_open("seq"); js_int("x", lineno); js_dig("ma", memI, sizeof memI); js_close();
   while ((tok = strtok(NULL, " \t\r\n"))) {
      if (tok[0] == 'Z') {
         memset(memI, 0, sizeof memI); memset(memP, 0, sizeof memP); memset(memQ, 0, sizeof memQ);
         js_open("zero"); js_dig("ma", memI, sizeof memI); js_close();
      } else if (tok[0] == 'K') {
         int C, N, fl; char syms[64] = "I";
         if (sscanf(tok, "K%d:%d:%d:%60[A-Z]", &C, &N, &fl, syms) < 3) return -1;
         clip_call(&r, C, N, fl, syms, NULL);
      } else if (tok[0] == 'L') {
         static float lit[MAXN]; int n = 0; char *p = tok + 1;
         while (*p && n < MAXN) { lit[n++] = strtof(p, &p); if (*p == ',') p++; }
         clip_call(&r, 1, n, 0, "L", lit);
      } else return -1;
      ncall++;
   }
   js_open("end"); js_int("calls", ncall); js_close();
   return 0;
}

/* ------------------------------------------------------------------------------------------- */
/* decoder gain                                                                                  */

#define MAXPK 96
#define MAXFR 5760
#define OPUS_SET_FORCE_MODE_REQUEST 11002

typedef struct { double ph, t; hx_rng r; } sigst_t;

static void gen_sig(sigst_t *s, float *x, int n, int ch, int fs, double amp, int quiet)
{
   int i, c, h;
   for (i = 0; i < n; i++) {
      double t = s->t + (double)i / fs, f0 = 140.0 + 50.0 * sin(6.283 * 1.1 * t), v = 0, env;
      s->ph += 6.283185307 * f0 / fs;
      if (s->ph > 6.283185307 * 64) s->ph -= 6.283185307 * 64;
      for (h = 1; h <= 10; h++) if (h * f0 < 0.45 * fs) v += sin(h * s->ph + 0.3 * h) / h;
      env = 0.6 + 0.4 * sin(6.283 * 3.1 * t);
      v = amp * (0.45 * env * v + 0.15 * (2 * hx_unit(&s->r) - 1));
      if (quiet) v = 0;
      if (v > 1) v = 1;
      if (v < -1) v = -1;
      for (c = 0; c < ch; c++) x[i * ch + c] = (float)(c ? -0.7 * v : v);
   }
   s->t += (double)n / fs;
}

typedef struct { int n, neg; double lo, hi; } rat_t;
static void rat_init(rat_t *a) { a->n = 0; a->neg = 0; a->lo = 1e300; a->hi = -1e300; }
static void rat_add(rat_t *a, float y0, float yg)
{
   double q;
   if (fabsf(y0) < 1e-25f) return;
   q = (double)yg / (double)y0;
   a->n++;
   if (!(q > 0)) { a->neg = 1; return; }
   if (q < a->lo) a->lo = q;
   if (q > a->hi) a->hi = q;
}
static void rat_log(const rat_t *a, const char *kn, const char *kq, const char *ks, const char *kneg)
{
   long q = 0, sp = 0;
   if (a->n > 0 && !a->neg) {
      double s = (a->hi / a->lo - 1.0) * 1073741824.0;
      q = (long)floor(10.0 * log10(a->lo * a->hi) * 25600.0 + 0.5);
      sp = s >= 1073741824.0 ? 1073741824L : (long)ceil(s);
   }
   js_int(kn, a->n); js_int(kq, q); js_int(ks, sp); js_int(kneg, a->neg);
}

static void js_rng(const char *key, OpusDecoder *d)
{
   opus_uint32 v = 0;
   opus_decoder_ctl(d, OPUS_GET_FINAL_RANGE(&v));
   printf(",\"%s\":\"%08x\"", key, (unsigned)v);
}
static int get_dur(OpusDecoder *d) { opus_int32 v = -12345; opus_decoder_ctl(d, OPUS_GET_LAST_PACKET_DURATION(&v)); return (int)v; }
static int get_gain(OpusDecoder *d) { opus_int32 v = -123456; opus_decoder_ctl(d, OPUS_GET_GAIN(&v)); return (int)v; }

static int pk_mode(int toc) { return (toc & 0x80) ? 1002 : ((toc & 0x60) == 0x60 ? 1001 : 1000); }

static OpusDecoder *D0, *DG, *D16, *D24;

static void do_gset(int v)
{
   int pre = get_gain(DG), r, r16 = 0, r24 = 0;
   r = opus_decoder_ctl(DG, OPUS_SET_GAIN(v));
   if (!FX) { r16 = opus_decoder_ctl(D16, OPUS_SET_GAIN(v)); r24 = opus_decoder_ctl(D24, OPUS_SET_GAIN(v)); }
   js_open("gset"); js_int("v", v); js_int("r", r); js_int("r16", r16); js_int("r24", r24); js_int("pre", pre);
   js_int("get", get_gain(DG)); js_int("get16", FX ? get_gain(DG) : get_gain(D16)); js_int("get24", FX ? get_gain(DG) : get_gain(D24));
   js_int("get0", get_gain(D0));
   js_close();
}

static void dec_open(const unsigned char *data, int len, int fsz, int kind)
{
   int pm = opus_verif_decoder_peek(DG, 1), pr = opus_verif_decoder_peek(DG, 2);
   js_open("gdec"); js_int("kind", kind); js_int("len", len); js_int("toc", data && len > 0 ? data[0] : -1);
   js_int("fsz", fsz); js_int("pm", pm); js_int("pr", pr); js_int("md", data && len > 0 ? pk_mode(data[0]) : 0);
}

/* fixed-point library: gain-0 and gain-g twins on the 16-bit entry point */
static void do_dec_fixed(const unsigned char *data, int len, int fsz, int fec, int kind, int fs, int ch, int g)
{
   static opus_int16 s0[MAXFR * 2], s16[MAXFR * 2];
   int r0, rg, i, n, can;
   unsigned char *pk = data ? hx_exact(data, len) : NULL;
   hx_buf b0, bg;
   dec_open(data, len, fsz, kind);
   hx_arm(30);
   b0 = hx_buf_new((size_t)fsz * ch * 2, 0x11); bg = hx_buf_new((size_t)fsz * ch * 2, 0x22);
   r0 = opus_decode(D0, pk, len, (opus_int16 *)b0.p, fsz, fec);
   rg = opus_decode(DG, pk, len, (opus_int16 *)bg.p, fsz, fec);
   hx_disarm();
   can = hx_buf_ok(&b0) && hx_buf_ok(&bg);
   n = (r0 > 0 && rg == r0) ? r0 * ch : 0;
   memcpy(s0, b0.p, (size_t)n * 2); memcpy(s16, bg.p, (size_t)n * 2);
   hx_buf_free(&b0); hx_buf_free(&bg);
   js_int("r0", r0); js_int("rg", rg); js_int("r16", rg); js_int("r24", rg);
   js_rng("f0", D0); js_rng("fg", DG); js_rng("f16", DG); js_rng("f24", DG);
   js_int("l0", get_dur(D0)); js_int("lg", get_dur(DG)); js_int("l16", get_dur(DG)); js_int("l24", get_dur(DG));
   {
      /* beyond the container: the gain-0 sample times 10^(g/5120) exceeds twice the 16-bit range */
      double ideal = pow(10.0, g / 5120.0); long o = 0, w = 0, wh = 0, m = 32767, mh = 32767;
      int head = (kind == 2) ? n : (fs / 200) * ch;     /* as in do_dec */
      for (i = 0; i < n; i++) {
         if (fabs((double)s0[i]) * ideal > 2.0 * 32767.0) {
            int a = s16[i] < 0 ? -(int)s16[i] : s16[i];
            o++;
            if ((s0[i] > 0) != (s16[i] > 0) || s16[i] == 0) { if (i < head) wh++; else w++; }
            if (i < head) { if (a < mh) mh = a; } else if (a < m) m = a;
         }
      }
      js_int("o16", o); js_int("w16", w); js_int("wh16", wh); js_int("m16", m); js_int("mh16", mh); js_int("o24", 0); js_int("w24", 0); js_int("m24", 32767);
   }
   js_int("can", can);
   js_close();
   free(pk);
}

static void do_dec(const unsigned char *data, int len, int fsz, int fec, int kind, int fs, int ch, int g)
{
   static float y0[MAXFR * 2], yg[MAXFR * 2];
   static opus_int16 s16[MAXFR * 2];
   static opus_int32 s24[MAXFR * 2];
   int r0, rg, r16, r24, i, n, can;
   unsigned char *pk;
   hx_buf b0, bg, b16, b24;
   if (FX) { do_dec_fixed(data, len, fsz, fec, kind, fs, ch, g); return; }
   pk = data ? hx_exact(data, len) : NULL;
   dec_open(data, len, fsz, kind);
   hx_arm(30);
   b0 = hx_buf_new((size_t)fsz * ch * 4, 0x11); bg = hx_buf_new((size_t)fsz * ch * 4, 0x22);
   b16 = hx_buf_new((size_t)fsz * ch * 2, 0x33); b24 = hx_buf_new((size_t)fsz * ch * 4, 0x44);
   r0 = opus_decode_float(D0, pk, len, (float *)b0.p, fsz, fec);
   rg = opus_decode_float(DG, pk, len, (float *)bg.p, fsz, fec);
   r16 = opus_decode(D16, pk, len, (opus_int16 *)b16.p, fsz, fec);
   r24 = opus_decode24(D24, pk, len, (opus_int32 *)b24.p, fsz, fec);
   hx_disarm();
   can = hx_buf_ok(&b0) && hx_buf_ok(&bg) && hx_buf_ok(&b16) && hx_buf_ok(&b24);
   n = (r0 > 0 && rg == r0 && r16 == r0 && r24 == r0) ? r0 * ch : 0;
   memcpy(y0, b0.p, (size_t)n * 4); memcpy(yg, bg.p, (size_t)n * 4); memcpy(s16, b16.p, (size_t)n * 2); memcpy(s24, b24.p, (size_t)n * 4);
   hx_buf_free(&b0); hx_buf_free(&bg); hx_buf_free(&b16); hx_buf_free(&b24);
   js_int("r0", r0); js_int("rg", rg); js_int("r16", r16); js_int("r24", r24);
   js_rng("f0", D0); js_rng("fg", DG); js_rng("f16", D16); js_rng("f24", D24);
   js_int("l0", get_dur(D0)); js_int("lg", get_dur(DG)); js_int("l16", get_dur(D16)); js_int("l24", get_dur(D24));
   {
      rat_t hd, tl; long nf = 0, zb = 0, zbh = 0, o16 = 0, w16 = 0, m16 = 32767, o24 = 0, w24 = 0, m24 = 32767;
      /* "head": the first 5 ms of a packet decoded normally (where the decoder cross-fades after a mode
         change); a packet decoded for its FEC data counts as head as a whole */
      int head = (kind == 2) ? n : (fs / 200) * ch;
      rat_init(&hd); rat_init(&tl);
      for (i = 0; i < n; i++) {
         float a = y0[i], b = yg[i];
         if (!(a == a) || !(b == b) || fabsf(a) > 3e38f || fabsf(b) > 3e38f) { nf++; continue; }
         if (a == 0.f) { if (b != 0.f) { if (i < head) zbh++; else zb++; } }
         else rat_add(i < head ? &hd : &tl, a, b);
         if (fabsf(b) > 1.0f) {             /* beyond the 16-bit container */
            int v = s16[i], av = v < 0 ? -v : v;
            o16++;
            if ((b > 0) != (v > 0) || v == 0) w16++;
            if (av < m16) m16 = av;
         }
         if (fabsf(b) > 256.0f) {           /* beyond the 32-bit container of the 24-bit API */
            long long v = s24[i], av = v < 0 ? -v : v;
            o24++;
            if ((b > 0) != (v > 0) || v == 0) w24++;
            if ((av >> 16) < m24) m24 = (long)(av >> 16);
         }
      }
      js_int("nf", nf); js_int("zb", zb); js_int("zbh", zbh);
      rat_log(&hd, "hn", "hq", "hs", "hneg"); rat_log(&tl, "tn", "tq", "ts", "tneg");
      js_int("o16", o16); js_int("w16", w16); js_int("wh16", 0); js_int("m16", m16); js_int("mh16", 32767); js_int("o24", o24); js_int("w24", w24); js_int("m24", m24);
   }
   js_int("can", can);
   js_close();
   free(pk);
}

static int run_gain_line(char *line, int lineno)
{
   unsigned long long seed; int fs, ch, dq, nfr, g, flags, ampq, err, k, frame, npk = 0;
   static unsigned char pkt[MAXPK][1500]; static int plen[MAXPK];
   static float in[MAXFR * 2];
   OpusEncoder *ea, *eb = NULL; hx_rng r; sigst_t sg;
   static const int apps[] = { OPUS_APPLICATION_VOIP, OPUS_APPLICATION_AUDIO, OPUS_APPLICATION_RESTRICTED_LOWDELAY };
   static const int brs[] = { 8000, 12000, 16000, 24000, 32000, 48000, 64000, 96000, 128000, 256000, OPUS_AUTO, OPUS_BITRATE_MAX };
   static const int bad[] = { -32769, 32768, 40000, -40000, 100000, -100000, 65536, 1073741824, -1073741824 };
   static const int good[] = { -32768, -5120, -1, 0, 1, 256, 5120, 20000, 32767 };
   int app, br, mid_g, lostprev = 0;
   if (sscanf(line, "G %llu %d %d %d %d %d %d %d", &seed, &fs, &ch, &dq, &nfr, &g, &flags, &ampq) != 8) return -1;
   if (nfr > MAXPK) nfr = MAXPK;
   r.s = seed * 0x9E3779B97F4A7C15ULL + 777; sg.ph = 0; sg.t = 0; sg.r.s = seed + 99;
   frame = (int)((long)fs * dq / 2000);
   app = apps[hx_u(&r, 3)]; br = brs[hx_u(&r, 12)];
   if (flags & 1) app = OPUS_APPLICATION_VOIP;
   ea = opus_encoder_create(fs, ch, app, &err);
   if (!ea) return -2;
   opus_encoder_ctl(ea, OPUS_SET_BITRATE(br));
   opus_encoder_ctl(ea, OPUS_SET_COMPLEXITY((int)hx_u(&r, 11)));
   opus_encoder_ctl(ea, OPUS_SET_INBAND_FEC((flags & 2) ? 1 : 0));
   opus_encoder_ctl(ea, OPUS_SET_PACKET_LOSS_PERC((flags & 2) ? 25 : 0));
   if (flags & 1) {
      eb = opus_encoder_create(fs, ch, OPUS_APPLICATION_RESTRICTED_LOWDELAY, &err);
      if (!eb) return -2;
      opus_encoder_ctl(eb, OPUS_SET_BITRATE(br == OPUS_AUTO ? 64000 : br));
      opus_encoder_ctl(ea, OPUS_SET_FORCE_MODE_REQUEST, hx_u(&r, 3) ? 1000 : 1001);
   }
   D0 = opus_decoder_create(fs, ch, &err); DG = opus_decoder_create(fs, ch, &err);
   D16 = opus_decoder_create(fs, ch, &err); D24 = opus_decoder_create(fs, ch, &err);
   if (!D0 || !DG || !D16 || !D24) return -2;
   js_open("gnew"); js_int("x", lineno); js_int("fs", fs); js_int("ch", ch); js_int("dq", dq); js_int("g", g); js_int("flags", flags);
   js_int("fx", FX); js_int("get", get_gain(DG)); js_close();
   /* 1. the packet stream */
   {
      int splice_k = 1 + (int)hx_u(&r, 4), cur = 0;
      for (k = 0; k < nfr; k++) {
         unsigned char tmp[1500]; int la, lb = 0, quiet = (hx_u(&r, 12) == 0);
         gen_sig(&sg, in, frame, ch, fs, ampq / 1000.0, quiet);
         if ((flags & 4) && k % 5 == 4) {
            static const int md[] = { 1000, 1001, 1002, OPUS_AUTO };
            opus_encoder_ctl(ea, OPUS_SET_FORCE_MODE_REQUEST, md[hx_u(&r, 4)]);
         }
         la = opus_encode_float(ea, in, frame, pkt[npk], 1500);
         if (eb) lb = opus_encode_float(eb, in, frame, tmp, 1500);
         if (k % splice_k == 0 && eb) cur = !cur;
         if (eb && cur && lb > 0) { memcpy(pkt[npk], tmp, lb); la = lb; }
         if (la <= 0) continue;
         plen[npk++] = la;
      }
   }
   /* 2. set the gain, decode on the twins */
   do_gset(g);
   g = get_gain(DG);
   mid_g = hx_u(&r, 2) ? bad[hx_u(&r, 9)] : good[hx_u(&r, 9)];
   for (k = 0; k < npk; k++) {
      int lost = (flags & 2) && k > 0 && hx_u(&r, 6) == 0;
      if ((flags & 8) && k == npk / 2) {
         do_gset(mid_g);
         if (hx_u(&r, 2)) do_gset((int)hx_range(&r, -32768, 32767));
         g = get_gain(DG);
      }
      if ((flags & 16) && k == npk / 3) {
         opus_decoder_ctl(D0, OPUS_RESET_STATE); opus_decoder_ctl(DG, OPUS_RESET_STATE);
         opus_decoder_ctl(D16, OPUS_RESET_STATE); opus_decoder_ctl(D24, OPUS_RESET_STATE);
         js_open("grst"); js_int("get", get_gain(DG)); js_int("get16", FX ? get_gain(DG) : get_gain(D16));
         js_int("get24", FX ? get_gain(DG) : get_gain(D24)); js_int("get0", get_gain(D0)); js_close();
      }
      if (lostprev) {
         /* the previous packet was lost: either conceal it or recover it from this packet's FEC data */
         if (hx_u(&r, 2)) do_dec(NULL, 0, frame, 0, 1, fs, ch, g);
         else do_dec(pkt[k], plen[k], frame, 1, 2, fs, ch, g);
         lostprev = 0;
      }
      if (lost) { lostprev = 1; continue; }
      do_dec(pkt[k], plen[k], hx_u(&r, 2) ? frame : (int)((long)fs * 120 / 1000), 0, 0, fs, ch, g);
   }
   if (lostprev) do_dec(NULL, 0, frame, 0, 1, fs, ch, g);
   js_open("gend"); js_int("pk", npk); js_close();
   opus_encoder_destroy(ea); if (eb) opus_encoder_destroy(eb);
   opus_decoder_destroy(D0); opus_decoder_destroy(DG); opus_decoder_destroy(D16); opus_decoder_destroy(D24);
   return 0;
}

int main(int argc, char **argv)
{
   static char line[1 << 17];
   int lineno = 0, gain;
   if (argc < 2) { fprintf(stderr, "usage: hx_softclip clip|gain < lines\n"); return 2; }
   gain = !strcmp(argv[1], "gain");
   FX = strstr(opus_get_version_string(), "-fixed") != NULL;
   hx_watchdog_init();
   while (fgets(line, sizeof line, stdin)) {
      int rc;
      lineno++;
      if (line[0] == '#' || line[0] == '\n') continue;
      rc = gain ? run_gain_line(line, lineno) : run_clip_line(line, lineno);
      if (rc) { fprintf(stderr, "bad input line %d (rc %d)\n", lineno, rc); return 3; }
      fflush(stdout);
   }
   return 0;
}
