/* hx_surround: drives real surround / ambisonics / projection / plain multistream encoders through
   histories of bitrate changes and encode calls and records, after every encode call, what each
   stream encoder was left with (growth module G03, spec/Surround.tla, spec/SurroundTrace.tla).
   The harness executes and records; every judgement is made by TLC.

   One execution per line on stdin:
     X kind fs app cx seed | layout | steps
        kind surr : layout = f ch            opus_multistream_surround_encoder_create(family f, ch channels)
        kind penc : layout = f ch            opus_projection_ambisonics_encoder_create
        kind enc  : layout = ch S C m1 .. m_ch   opus_multistream_encoder_create
        steps (blank separated):
          B v        OPUS_SET_BITRATE(v) on the multistream object
          V v        OPUS_SET_VBR(v)
          W v        OPUS_SET_BANDWIDTH(v)   (fanned out to the streams by the multistream ctl)
          P s v      OPUS_SET_BITRATE(v) directly on stream s (through OPUS_MULTISTREAM_GET_ENCODER_STATE)
          R          OPUS_RESET_STATE
          E q mb n   n encode calls of q x 2.5 ms with max_data_bytes = mb
   Output (NDJSON): {"k":"b",...} when an execution starts (so that a crash can be attributed) and one
   {"k":"x",...} per execution with the create result and the list of steps as executed:
     E steps: q, mb, n = return value, g = guard bytes intact, so / sh = where the sub-packets start and
     the header bytes found there (the harness walks the packet with the library's parser; TLC re-derives
     the split with Framing!Parse), and per stream after the call: gb = OPUS_GET_BITRATE, p9 = bitrate_bps
     the stream encoder worked with, bw = bandwidth, md = mode, fm = user_forced_mode, lf = LFE flag,
     fc = OPUS_GET_FORCE_CHANNELS; mgb / mgr = OPUS_GET_BITRATE of the multistream object and its return code. */
#include "hx_common.h"
#include "opus.h"
#include "opus_multistream.h"
#include "opus_projection.h"
#include "opus_private.h"
#include <math.h>

extern int opus_verif_encoder_peek(const OpusEncoder *st, int field);

#define MAXCH 256

static void js_key(const char *k) { printf(",\"%s\":", k); }
static void js_ints(const int *a, int n) { int i; putchar('['); for (i = 0; i < n; i++) printf(i ? ",%d" : "%d", a[i]); putchar(']'); }
static void js_bytes(const unsigned char *a, int n) { int i; putchar('['); for (i = 0; i < n; i++) printf(i ? ",%d" : "%d", a[i]); putchar(']'); }
static int hdr_keep(int len) { int k = 112 + len / 254; return len < k ? len : k; }
static char *next_int(char *q, long *v) { char *e; while (*q == ' ' || *q == '\t') q++; *v = strtol(q, &e, 10); return e == q ? NULL : e; }
static int read_ints(char *q, long *out, int max) { int n = 0; long v; while (n < max && (q = next_int(q, &v)) != NULL) out[n++] = v; return n; }

typedef struct {
   OpusMSEncoder *me; OpusProjectionEncoder *pe;
   int ch, S, C, fs;
} obj_t;

static int obj_ctl_set(obj_t *o, int req, opus_int32 v)
{
   return o->me ? opus_multistream_encoder_ctl(o->me, req, v) : opus_projection_encoder_ctl(o->pe, req, v);
}
static OpusEncoder *obj_stream(obj_t *o, int s)
{
   OpusEncoder *se = NULL; int r;
   r = o->me ? opus_multistream_encoder_ctl(o->me, OPUS_MULTISTREAM_GET_ENCODER_STATE(s, &se))
             : opus_projection_encoder_ctl(o->pe, OPUS_MULTISTREAM_GET_ENCODER_STATE(s, &se));
   return r == OPUS_OK ? se : NULL;
}

static void gen_frame(float *x, int ch, int n, long pos, int fs, uint64_t seed, int lfe_ch)
{
   int c, i;
   for (c = 0; c < ch; c++) {
      hx_rng r; double f = c == lfe_ch ? 60.0 : 220.0 + 180.0 * (c % 17);
      r.s = seed * 1000003ULL + (uint64_t)c * 7919ULL + (uint64_t)pos;
      if (f > fs * 0.4) f = fs * 0.1;
      for (i = 0; i < n; i++)
         x[(size_t)i * ch + c] = (float)(0.2 * sin(2 * M_PI * f * (double)(pos + i) / fs + 0.37 * c) + 0.002 * (hx_unit(&r) * 2 - 1));
   }
}

/* the per-stream observations after an encode call */
static void log_streams(obj_t *o)
{
   int s, S = o->S;
   int *gb = (int *)calloc(S, sizeof(int)), *p9 = (int *)calloc(S, sizeof(int)), *bw = (int *)calloc(S, sizeof(int)), *md = (int *)calloc(S, sizeof(int));
   int *fm = (int *)calloc(S, sizeof(int)), *lf = (int *)calloc(S, sizeof(int)), *fc = (int *)calloc(S, sizeof(int));
   for (s = 0; s < S; s++) {
      OpusEncoder *se = obj_stream(o, s); opus_int32 v = -7777;
      gb[s] = p9[s] = bw[s] = md[s] = fm[s] = lf[s] = fc[s] = -7777;
      if (!se) continue;
      if (opus_encoder_ctl(se, OPUS_GET_BITRATE(&v)) == OPUS_OK) gb[s] = v;
      v = -7777; if (opus_encoder_ctl(se, OPUS_GET_FORCE_CHANNELS(&v)) == OPUS_OK) fc[s] = v;
      p9[s] = opus_verif_encoder_peek(se, 9); bw[s] = opus_verif_encoder_peek(se, 4); md[s] = opus_verif_encoder_peek(se, 0);
      fm[s] = opus_verif_encoder_peek(se, 21); lf[s] = opus_verif_encoder_peek(se, 22);
   }
   js_key("gb"); js_ints(gb, S); js_key("p9"); js_ints(p9, S); js_key("bw"); js_ints(bw, S); js_key("md"); js_ints(md, S);
   js_key("fm"); js_ints(fm, S); js_key("lf"); js_ints(lf, S); js_key("fc"); js_ints(fc, S);
   free(gb); free(p9); free(bw); free(md); free(fm); free(lf); free(fc);
}

/* where the sub-packets start, and the header bytes there */
static void log_split(const unsigned char *pkt, int n, int S)
{
   int *so = (int *)calloc(S + 1, sizeof(int)), *sp = (int *)calloc(S + 1, sizeof(int)), *sk = (int *)calloc(S + 1, sizeof(int));
   int s, off = 0, nsplit = 0;
   unsigned char *data = hx_exact(pkt, n);
   for (s = 0; s < S; s++) {
      unsigned char toc = 0; opus_int16 size[48]; int po = -1; opus_int32 ko = -1; int cnt;
      if (off >= n) break;
      so[s] = off; nsplit = s + 1;
      cnt = opus_packet_parse_impl(data + off, n - off, s != S - 1, &toc, NULL, size, &po, &ko, NULL, NULL);
      sk[s] = cnt > 0 ? ko : cnt; sp[s] = po;
      if (cnt <= 0) break;
      off += ko;
   }
   js_key("so"); js_ints(so, nsplit);
   js_key("sh"); putchar('[');
   for (s = 0; s < nsplit; s++) {
      int kk = hdr_keep(n - so[s]);
      if (sk[s] > 0 && sp[s] + 4 < kk) kk = sp[s] + 4;
      while (kk > 0 && data[so[s] + kk - 1] == 0) kk--;
      if (s) putchar(',');
      js_bytes(data + so[s], kk);
   }
   putchar(']');
   free(so); free(sp); free(sk); free(data);
}

static int run_x(char *line)
{
   char kind[16]; int fs, app, cx; unsigned long seed; long a[MAXCH + 8]; int na;
   char *bar1 = strchr(line, '|'), *bar2 = bar1 ? strchr(bar1 + 1, '|') : NULL, *q;
   obj_t o; unsigned char map[MAXCH + 8]; int mi[MAXCH + 8], lfe0[MAXCH + 8];
   int fam = -1, ch = 0, S = -7, C = -7, err = 12345, i, first = 1, lfe_ch = -1; long pos = 0;
   static char cmd[1 << 16];
   if (!bar1 || !bar2) return -1;
   { size_t L = strlen(line); while (L && (line[L - 1] == '\n' || line[L - 1] == '\r')) line[--L] = 0; snprintf(cmd, sizeof cmd, "%s", line); }
   *bar1 = 0; *bar2 = 0;
   if (sscanf(line, "X %15s %d %d %d %lu", kind, &fs, &app, &cx, &seed) != 5) return -1;
   na = read_ints(bar1 + 1, a, MAXCH + 8);
   memset(&o, 0, sizeof o); memset(map, 0xEE, sizeof map);
   js_open("b"); js_str("cmd", cmd); js_close(); fflush(stdout);
   if (!strcmp(kind, "enc")) {
      if (na < 4) return -1;
      ch = (int)a[0]; S = (int)a[1]; C = (int)a[2];
      if (ch < 1 || ch > 255 || na < 3 + ch) return -1;
      for (i = 0; i < ch; i++) map[i] = (unsigned char)a[3 + i];
      o.me = opus_multistream_encoder_create(fs, ch, S, C, map, app, &err);
   } else if (!strcmp(kind, "surr")) {
      if (na < 2) return -1;
      fam = (int)a[0]; ch = (int)a[1];
      o.me = opus_multistream_surround_encoder_create(fs, ch, fam, &S, &C, map, app, &err);
      if (fam == 1 && ch >= 6) lfe_ch = ch - 1;
   } else if (!strcmp(kind, "penc")) {
      if (na < 2) return -1;
      fam = (int)a[0]; ch = (int)a[1];
      o.pe = opus_projection_ambisonics_encoder_create(fs, ch, fam, &S, &C, app, &err);
      for (i = 0; i < ch && i < 255; i++) map[i] = (unsigned char)i;
   } else return -1;
   js_open("x"); js_str("cmd", cmd); js_str("kind", kind); js_int("f", fam); js_int("ch", ch); js_int("fs", fs); js_int("app", app);
   if (!strcmp(kind, "enc")) { int m0[MAXCH + 8]; for (i = 0; i < ch; i++) m0[i] = map[i]; js_int("S0", S); js_int("C0", C); js_key("map0"); js_ints(m0, ch); }
   js_int("ok", (o.me || o.pe) && err == OPUS_OK); js_int("err", err);
   if (!strcmp(kind, "surr")) {
      js_int("szs", opus_multistream_surround_encoder_get_size(ch, fam));
      js_int("szm", (o.me && S >= 1 && C >= 0) ? opus_multistream_encoder_get_size(S, C) : -1);
   }
   if (!o.me && !o.pe) { js_key("st"); printf("[]"); js_close(); return 0; }
   if (ch < 1 || ch > 255 || S < 1 || S > 255 || C < 0 || C > S) { js_int("S", S); js_int("C", C); js_key("st"); printf("[]"); js_close(); goto out; }
   o.ch = ch; o.S = S; o.C = C; o.fs = fs;
   for (i = 0; i < ch; i++) mi[i] = map[i];
   for (i = 0; i < S; i++) { OpusEncoder *se = obj_stream(&o, i); lfe0[i] = se ? opus_verif_encoder_peek(se, 22) : -7777; }
   js_int("S", S); js_int("C", C); js_key("map"); js_ints(mi, ch); js_key("lfe0"); js_ints(lfe0, S);
   obj_ctl_set(&o, OPUS_SET_COMPLEXITY_REQUEST, cx);
   js_key("st"); putchar('[');
   q = bar2 + 1;
   for (;;) {
      char op; long v1, v2, v3;
      while (*q == ' ' || *q == '\t') q++;
      if (!*q) break;
      op = *q++;
      if (!first) putchar(',');
      first = 0;
      if (op == 'B' || op == 'V' || op == 'W') {
         int r, req = op == 'B' ? OPUS_SET_BITRATE_REQUEST : op == 'V' ? OPUS_SET_VBR_REQUEST : OPUS_SET_BANDWIDTH_REQUEST;
         if (!(q = next_int(q, &v1))) break;
         r = obj_ctl_set(&o, req, (opus_int32)v1);
         printf("{\"o\":\"%c\",\"v\":%ld,\"r\":%d}", op, v1, r);
      } else if (op == 'P') {
         OpusEncoder *se; int r = -99;
         if (!(q = next_int(q, &v1)) || !(q = next_int(q, &v2))) break;
         se = (v1 >= 0 && v1 < S) ? obj_stream(&o, (int)v1) : NULL;
         if (se) r = opus_encoder_ctl(se, OPUS_SET_BITRATE((opus_int32)v2));
         printf("{\"o\":\"P\",\"s\":%ld,\"v\":%ld,\"r\":%d}", v1, v2, r);
      } else if (op == 'R') {
         int r = o.me ? opus_multistream_encoder_ctl(o.me, OPUS_RESET_STATE) : opus_projection_encoder_ctl(o.pe, OPUS_RESET_STATE);
         printf("{\"o\":\"R\",\"r\":%d}", r);
      } else if (op == 'E') {
         int k, fr, maxb, nrep; float *in; hx_buf out;
         if (!(q = next_int(q, &v1)) || !(q = next_int(q, &v2)) || !(q = next_int(q, &v3))) break;
         fr = fs / 400 * (int)v1; maxb = (int)v2; nrep = (int)v3;
         if (fr <= 0 || fr > fs / 400 * 48 || maxb < 0 || maxb > 4000000 || nrep < 1) { printf("{\"o\":\"skip\"}"); continue; }
         in = (float *)malloc(sizeof(float) * (size_t)fr * ch);
         out = hx_buf_new(maxb > 0 ? maxb : 1, 0xC3);
         for (k = 0; k < nrep; k++) {
            int n, g;
            gen_frame(in, ch, fr, pos, fs, seed, lfe_ch); pos += fr;
            hx_arm(300);
            n = o.me ? opus_multistream_encode_float(o.me, in, fr, out.p, maxb) : opus_projection_encode_float(o.pe, in, fr, out.p, maxb);
            hx_disarm();
            g = hx_buf_ok(&out);
            if (k) putchar(',');
            printf("{\"o\":\"E\",\"q\":%ld,\"mb\":%d,\"n\":%d,\"g\":%d", v1, maxb, n, g);
            if (n > 0 && n <= maxb && g) log_split(out.p, n, S); else { js_key("so"); printf("[]"); js_key("sh"); printf("[]"); }
            log_streams(&o);
            { opus_int32 mg = -7777; int r = o.me ? opus_multistream_encoder_ctl(o.me, OPUS_GET_BITRATE(&mg)) : opus_projection_encoder_ctl(o.pe, OPUS_GET_BITRATE(&mg));
              printf(",\"mgb\":%d,\"mgr\":%d", (int)mg, r); }
            putchar('}');
            if (!g) { printf("]}\n"); fflush(stdout); abort(); }
         }
         free(in); hx_buf_free(&out);
      } else { printf("{\"o\":\"skip\"}"); break; }
   }
   putchar(']');
   js_close();
out:
   if (o.me) opus_multistream_encoder_destroy(o.me);
   if (o.pe) opus_projection_encoder_destroy(o.pe);
   return 0;
}

int main(int argc, char **argv)
{
   static char line[1 << 16];
   (void)argc; (void)argv;
   hx_watchdog_init();
   while (fgets(line, sizeof line, stdin)) {
      if (line[0] == 'X') { if (run_x(line) < 0) { js_open("bad"); js_close(); } }
      fflush(stdout);
   }
   return 0;
}
