/* hx_sym: records what the PVQ index coder, the Laplace coder and the table-driven ICDF symbol
   coder of the built library do, and exports the static tables they work from
   (module SymCodes, property C17).  The harness never judges: it executes calls on the real
   code and writes NDJSON; spec/SymTrace.tla decides.

   Two builds of this file:
     hx_sym     links encode_pulses/decode_pulses/ec_laplace_* / ec_*_icdf from libopus.a
     hx_symtu   (-DSYM_TU) additionally *includes* celt/cwrs.c and celt/quant_bands.c of the tree
                under test, which is the only way to read their file-static tables
                (CELT_PVQ_U_DATA/ROW, e_prob_model, small_energy_icdf) and the V the code uses.
   Commands
     tables                        every static table, one NDJSON line per (sub)table   [SYM_TU]
     reach                         (N,K) the static mode can request (walk of the pulse cache)
     pvq   <seed> <vex> <nstrat> <part> <nparts>   per-index records (exhaustive if V<=vex)
     sweep <vmax> <part> <nparts>  all indices of every reachable (N,K) with V<=vmax, counters
     small <vex> <nmax>            every index of every (N,K), 2<=N<=nmax, V<=vex (not only reachable)
     laplace                       every e_prob_model pair: decoder over all 32768 points, encoder
                                   interval and real-coder round trip for every value        [SYM_TU]
     lapgrid <step_fs> <step_decay> same for a grid of (fs,decay)
     icdf                          every table: decoder over all 2^ftb points, enc/dec round trip [SYM_TU for celt statics]
     replay                        re-executes the cases given on stdin (one recorded line each) */
#ifdef HAVE_CONFIG_H
#include "config.h"
#endif
#ifdef SYM_TU
#include "cwrs.c"
#include "quant_bands.c"
#endif
#include "hx_common.h"
#include "opus.h"
#include "celt.h"
#include "modes.h"
#include "rate.h"
#include "cwrs.h"
#include "laplace.h"
#include "entenc.h"
#include "entdec.h"
#include "mfrngcod.h"
#include "tables.h"
#include "structs.h"

#define BUFN 32
#define NDIM 260
#define KDIM 140

/* ---------------------------------------------------------------- input crafting helpers
   64-bit, saturating count of pulse vectors: only used to *craft* range coder input (the uniform
   integer i of V) and to size loops; what the code does with it is logged and judged by TLC. */
static uint64_t hV[NDIM + 1][KDIM + 2];
#define HSAT ((uint64_t)1 << 62)
static void hv_init(void)
{
   int n, k;
   for (k = 0; k <= KDIM + 1; k++) hV[0][k] = k == 0;
   for (n = 1; n <= NDIM; n++) {
      hV[n][0] = 1;
      for (k = 1; k <= KDIM + 1; k++) {
         uint64_t s = hV[n - 1][k] + hV[n][k - 1] + hV[n - 1][k - 1];
         hV[n][k] = s > HSAT ? HSAT : s;
      }
   }
}

static const CELTMode *the_mode(void)
{
   int err = 0;
   const CELTMode *m = opus_custom_mode_create(48000, 960, &err);
   if (!m) { fprintf(stderr, "no static mode (%d)\n", err); exit(3); }
   return m;
}

typedef struct { int n, k; } nk_t;
static nk_t g_reach[4096]; static int g_nreach;

static void walk_cache(void)
{
   const CELTMode *m = the_mode();
   int lm, i, j, q;
   g_nreach = 0;
   for (lm = -1; lm <= m->maxLM; lm++)
      for (i = 0; i < m->nbEBands; i++) {
         int idx = m->cache.index[(lm + 1) * m->nbEBands + i];
         int N = ((m->eBands[i + 1] - m->eBands[i]) << (lm + 1)) >> 1;
         const unsigned char *c;
         if (idx < 0 || N < 2) continue;
         /* an index or count that points outside cache.bits is exported as it is (TLC rejects the table) but not followed */
         if (idx >= m->cache.size || idx + m->cache.bits[idx] >= m->cache.size) continue;
         c = m->cache.bits + idx;
         for (j = 1; j <= c[0]; j++) {
            int K = get_pulses(j), dup = 0;
            for (q = 0; q < g_nreach; q++) if (g_reach[q].n == N && g_reach[q].k == K) { dup = 1; break; }
            if (!dup && g_nreach < 4096) { g_reach[g_nreach].n = N; g_reach[g_nreach].k = K; g_nreach++; }
         }
      }
}

static void js_u32(const char *kh, const char *kl, uint32_t v) { js_int(kh, v >> 16); js_int(kl, v & 0xFFFF); }

/* ---------------------------------------------------------------- PVQ */
typedef struct { int sum; int ok; uint32_t r; int derr, eerr, same; int y[NDIM + 4]; unsigned char b1[BUFN], b2[BUFN]; long yy; } pvq_res;

/* decode_pulses on a buffer that carries the uniform integer i of V, then encode_pulses of the result */
static void pvq_do(int n, int k, uint32_t i, uint32_t V, pvq_res *o)
{
   ec_enc enc; ec_dec dec; int j, sane = 1;
   memset(o->b1, 0, BUFN); memset(o->b2, 0, BUFN);
   ec_enc_init(&enc, o->b1, BUFN); ec_enc_uint(&enc, i, V); ec_enc_done(&enc);
   for (j = 0; j < n + 4; j++) o->y[j] = 7777;
   ec_dec_init(&dec, o->b1, BUFN);
   o->yy = (long)decode_pulses(o->y, n, k, &dec);
   o->derr = dec.error;
   o->sum = 0;
   for (j = 0; j < n; j++) { int a = abs(o->y[j]); if (a > 4096) sane = 0; else o->sum += a; }
   o->ok = sane && o->sum == k && o->y[n] == 7777;
   o->r = 0xFFFFFFFFu; o->eerr = -1; o->same = 0;
   if (o->ok) {          /* encode_pulses indexes its table with the pulse counts: only drive it with a vector of k pulses */
      ec_enc_init(&enc, o->b2, BUFN); encode_pulses(o->y, n, k, &enc); ec_enc_done(&enc);
      o->eerr = enc.error;
      ec_dec_init(&dec, o->b2, BUFN); o->r = ec_dec_uint(&dec, V);
      o->same = memcmp(o->b1, o->b2, BUFN) == 0;
   }
}

static void pvq_emit(int n, int k, uint32_t i, uint64_t V64)
{
   pvq_res o; uint32_t V = (uint32_t)V64;
   pvq_do(n, k, i, V, &o);
   js_open(V64 < 0x80000000u ? "pvq" : "pvqw");
   js_int("N", n); js_int("K", k);
   if (V64 < 0x80000000u) { js_int("i", i); js_int("r", o.ok ? (long)o.r : -1); js_int("V", (long)V); }
   else { js_u32("ih", "il", i); js_u32("rh", "rl", o.r); js_int("rok", o.ok); js_u32("Vh", "Vl", V); }
   js_arr_i("y", o.y, n); js_int("ov", o.y[n] != 7777); js_int("same", o.same);
   js_int("de", o.derr); js_int("ee", o.eerr); js_int("yy", o.yy);
   js_close();
}

static void cmd_pvq(uint64_t seed, uint32_t vex, int nstrat, int part, int nparts)
{
   int q;
   walk_cache();
   for (q = 0; q < g_nreach; q++) {
      int n = g_reach[q].n, k = g_reach[q].k;
      uint64_t V = hV[n][k]; hx_rng r; uint32_t i;
      if (q % nparts != part) continue;
      if (V >= ((uint64_t)1 << 32)) { js_open("pvqbig"); js_int("N", n); js_int("K", k); js_close(); continue; }
      r.s = seed * 1000003u + (uint64_t)n * 131 + k;
      if (V <= vex) { for (i = 0; i < V; i++) pvq_emit(n, k, i, V); continue; }
      /* both ends, the split between non-negative and negative leading pulse, strata, random */
      { uint64_t half = (hV[n][k] + hV[n - 1][k]) / 2;   /* number of vectors with y[0] >= 0 */
        uint64_t c[12]; int nc = 0, s;
        c[nc++] = 0; c[nc++] = 1; c[nc++] = 2; c[nc++] = V - 1; c[nc++] = V - 2; c[nc++] = V - 3;
        c[nc++] = half - 1; c[nc++] = half; c[nc++] = half + 1; c[nc++] = V / 2; c[nc++] = V / 3;
        for (s = 0; s < nc; s++) if (c[s] < V) pvq_emit(n, k, (uint32_t)c[s], V);
        for (s = 0; s < nstrat; s++) {
           uint64_t lo = V / nstrat * s, hi = s == nstrat - 1 ? V : V / nstrat * (s + 1);
           if (hi <= lo) continue;
           pvq_emit(n, k, (uint32_t)(lo + hx_next(&r) % (hi - lo)), V);
        }
      }
   }
}

static void sweep_one(int n, int k, uint64_t V)
{
   uint64_t i, rt = 0, bytes = 0, cnt = 0; long bad = -1; int smin = 1 << 30, smax = -1, err = 0;
   pvq_res o;
   for (i = 0; i < V; i++) {
      pvq_do(n, k, (uint32_t)i, (uint32_t)V, &o);
      cnt++;
      if (o.sum < smin) smin = o.sum;
      if (o.sum > smax) smax = o.sum;
      if (o.ok && o.r == (uint32_t)i) rt++; else if (bad < 0) bad = (long)i;
      if (o.same) bytes++;
      err += o.derr + (o.eerr > 0);
   }
   js_open("sweep"); js_int("N", n); js_int("K", k); js_int("V", (long)V); js_int("cnt", (long)cnt);
   js_int("rt", (long)rt); js_int("same", (long)bytes); js_int("smin", smin); js_int("smax", smax);
   js_int("bad", bad); js_int("err", err); js_close();
}

static void cmd_sweep(uint32_t vmax, int part, int nparts)
{
   int q, t = 0;
   walk_cache();
   for (q = 0; q < g_nreach; q++) {
      int n = g_reach[q].n, k = g_reach[q].k;
      uint64_t V = hV[n][k];
      if (V > vmax) continue;
      if (t++ % nparts != part) continue;
      sweep_one(n, k, V);
   }
}

/* every index of every (N,K) with 2<=N<=nmax, K<=13, V<=vex, reachable or not (the exhaustive set of the
   model's Bijection theorem); K<=13 and N<=14 keep every U(a,b) the coder reads inside rows/columns <= 14 */
static void cmd_small(uint32_t vex, int nmax)
{
   int n, k; uint32_t i;
   if (nmax > 14) nmax = 14;
   for (n = 2; n <= nmax; n++)
      for (k = 1; k <= 13 && hV[n][k] <= vex; k++)
         for (i = 0; i < hV[n][k]; i++) pvq_emit(n, k, i, hV[n][k]);
}

static void cmd_reach(void)
{
   int q;
   walk_cache();
   js_open("reach"); printf(",\"nk\":[");
   for (q = 0; q < g_nreach; q++) printf(q ? ",[%d,%d]" : "[%d,%d]", g_reach[q].n, g_reach[q].k);
   printf("]"); js_close();
#ifdef SYM_TU
   /* the codeword count the included cwrs.c uses for ec_enc_uint/ec_dec_uint */
   for (q = 0; q < g_nreach; q++) {
      int n = g_reach[q].n, k = g_reach[q].k;
      if (hV[n][k] >= ((uint64_t)1 << 32)) continue;   /* the macro would read outside its table */
      js_open("vnk"); js_int("N", n); js_int("K", k); js_u32("Vh", "Vl", CELT_PVQ_V(n, k)); js_close();
   }
#endif
}

/* ---------------------------------------------------------------- Laplace */
static unsigned char g_zero[64];

/* put the decoder at probability point fm of a 15-bit symbol: rng = 2^31, val chosen so that
   ec_decode_bin(15) returns fm */
static void dec_at(ec_dec *d, unsigned fm)
{
   ec_dec_init(d, g_zero, sizeof g_zero);
   d->rng = 0x80000000u;
   d->val = (uint32_t)(32767 - fm) << 16;
}

/* (fl, fs) a fresh encoder (rng = 2^31, val = 0) was given, read back from its state after one symbol
   of total 2^15: before renormalisation val = fl<<16 and rng = fs<<16; at most one 8-bit shift
   happens, which moves the top byte of val to rem */
static void enc_interval(const ec_enc *e, int *fl, int *fs)
{
   int shifts = (e->nbits_total - (EC_CODE_BITS + 1)) / EC_SYM_BITS;
   if (shifts == 0) { *fl = (int)(e->val >> 16); *fs = (int)(e->rng >> 16); }
   else {            /* the byte shifted out sits in rem, or, if it was 0xFF, is counted in ext */
      uint32_t top = e->ext ? 0xFFu : (uint32_t)e->rem;
      *fl = (int)((top << 7) | (e->val >> 24)); *fs = (int)(e->rng >> 24);
      if (shifts != 1) *fs = -shifts;
   }
}

static void lap_pair(unsigned fs0, int decay)
{
   static int rv[32768]; int fm, vmin = 0, vmax = 0, v, first = 1;
   hx_arm(300);      /* a degenerate parameter pair can make the range coder spin: logged as Hang, rc 97 */
   for (fm = 0; fm < 32768; fm++) {
      ec_dec d; dec_at(&d, fm);
      rv[fm] = ec_laplace_decode(&d, fs0, decay);
      if (rv[fm] < vmin) vmin = rv[fm];
      if (rv[fm] > vmax) vmax = rv[fm];
   }
   js_open("lap"); js_int("fs", fs0); js_int("dc", decay);
   printf(",\"runs\":[");
   { int lo = 0;
     for (fm = 1; fm <= 32768; fm++)
        if (fm == 32768 || rv[fm] != rv[lo]) { printf(first ? "[%d,%d,%d]" : ",[%d,%d,%d]", rv[lo], lo, fm); first = 0; lo = fm; } }
   printf("],\"enc\":[");
   first = 1;
   for (v = vmin - 3; v <= vmax + 3; v++) {
      unsigned char b[BUFN]; ec_enc e; ec_dec d; int vc = v, fl, fs, vd;
      memset(b, 0, BUFN);
      ec_enc_init(&e, b, BUFN);
      ec_laplace_encode(&e, &vc, fs0, decay);
      enc_interval(&e, &fl, &fs);
      ec_enc_done(&e);
      ec_dec_init(&d, b, BUFN);
      vd = ec_laplace_decode(&d, fs0, decay);
      printf(first ? "[%d,%d,%d,%d,%d]" : ",[%d,%d,%d,%d,%d]", v, vc, fl, fs, vd); first = 0;
   }
   printf("]"); js_close();
}

#ifdef SYM_TU
static void cmd_laplace(void)
{
   static unsigned char seen[256][256]; int lm, it, b;
   for (lm = 0; lm < 4; lm++) for (it = 0; it < 2; it++) for (b = 0; b < 21; b++) {
      int p = e_prob_model[lm][it][2 * b], d = e_prob_model[lm][it][2 * b + 1];
      if (seen[p][d]) continue;
      seen[p][d] = 1;
      lap_pair((unsigned)p << 7, d << 6);
   }
}
#endif

static void cmd_lapgrid(int sp, int sd)
{
   int p, d;
   for (p = 1; p < 256; p += sp) for (d = 1; d <= 179; d += sd) lap_pair((unsigned)p << 7, d << 6);
}


/* the p0/decay Laplace code (ec_laplace_encode_p0 / ec_laplace_decode_p0): every value of -60..60 (plus the escape
   boundaries up to 400) coded in front of the values 3 and -2 and read back; sign census over the 2^15 points */
static void lapp0_pair(int p0, int decay)
{
   static const int extra[] = {62, 63, 64, 69, 70, 71, 76, 77, 78, 99, 100, 141, 148, 211, 351, 358, 400};
   int fm, cnt[3] = {0, 0, 0}, k, first = 1, nv = 0, vals[300];
   hx_arm(300);
   for (fm = 0; fm < 32768; fm++) { ec_dec d; int v; dec_at(&d, (unsigned)fm); v = ec_laplace_decode_p0(&d, (opus_uint16)p0, (opus_uint16)decay); cnt[v == 0 ? 0 : v > 0 ? 1 : 2]++; }
   for (k = -60; k <= 60; k++) vals[nv++] = k;
   for (k = 0; k < (int)(sizeof extra / sizeof extra[0]); k++) { vals[nv++] = extra[k]; vals[nv++] = -extra[k]; }
   js_open("lapp0"); js_int("p0", p0); js_int("dc", decay); js_arr_i("cnt", cnt, 3);
   printf(",\"rt\":[");
   for (k = 0; k < nv; k++) {
      static unsigned char b[2048]; ec_enc e; ec_dec d; int d1, d2, d3, te, td;
      memset(b, 0, sizeof b);
      ec_enc_init(&e, b, sizeof b);
      ec_laplace_encode_p0(&e, vals[k], (opus_uint16)p0, (opus_uint16)decay);
      ec_laplace_encode_p0(&e, 3, (opus_uint16)p0, (opus_uint16)decay);
      ec_laplace_encode_p0(&e, -2, (opus_uint16)p0, (opus_uint16)decay);
      te = ec_tell(&e);
      ec_enc_done(&e);
      ec_dec_init(&d, b, sizeof b);
      d1 = ec_laplace_decode_p0(&d, (opus_uint16)p0, (opus_uint16)decay);
      d2 = ec_laplace_decode_p0(&d, (opus_uint16)p0, (opus_uint16)decay);
      d3 = ec_laplace_decode_p0(&d, (opus_uint16)p0, (opus_uint16)decay);
      td = ec_tell(&d);
      printf(first ? "[%d,%d,%d,%d,%d,%d]" : ",[%d,%d,%d,%d,%d,%d]", vals[k], d1, d2, d3, te, td); first = 0;
   }
   printf("]"); js_close();
}
static void cmd_lapp0(void)
{
   static const int P[] = {1, 2, 100, 4096, 16000, 16384, 30000, 32000, 32700, 32766};
   static const int D[] = {0, 1, 7, 8, 100, 4096, 16000, 16384, 24000, 30000, 32000, 32700, 32767};
   int i, j;
   for (i = 0; i < (int)(sizeof P / sizeof P[0]); i++) for (j = 0; j < (int)(sizeof D / sizeof D[0]); j++) lapp0_pair(P[i], D[j]);
}

/* ---------------------------------------------------------------- ICDF tables */
typedef struct { const char *name; int sub; const unsigned char *t; int n; int ftb; } icdf_t;
static icdf_t g_tabs[600]; static int g_ntabs;
static void add_tab(const char *name, int sub, const unsigned char *t, int n, int ftb)
{
   icdf_t *x = &g_tabs[g_ntabs++]; x->name = name; x->sub = sub; x->t = t; x->n = n; x->ftb = ftb;
}
#define WHOLE(sym) add_tab(#sym, 0, sym, (int)sizeof(sym), 8)

static void collect_tabs(void)
{
   int i;
   g_ntabs = 0;
   for (i = 0; i < 3; i++) add_tab("silk_gain_iCDF", i, silk_gain_iCDF[i], (int)sizeof silk_gain_iCDF[i], 8);
   WHOLE(silk_delta_gain_iCDF);
   WHOLE(silk_pitch_lag_iCDF); WHOLE(silk_pitch_delta_iCDF); WHOLE(silk_pitch_contour_iCDF);
   WHOLE(silk_pitch_contour_NB_iCDF); WHOLE(silk_pitch_contour_10_ms_iCDF); WHOLE(silk_pitch_contour_10_ms_NB_iCDF);
   for (i = 0; i < N_RATE_LEVELS; i++) add_tab("silk_pulses_per_block_iCDF", i, silk_pulses_per_block_iCDF[i], (int)sizeof silk_pulses_per_block_iCDF[i], 8);
   for (i = 0; i < 2; i++) add_tab("silk_rate_levels_iCDF", i, silk_rate_levels_iCDF[i], (int)sizeof silk_rate_levels_iCDF[i], 8);
   /* shell coder: the sub-table for a parent with p pulses starts at offsets[p] and has p+1 symbols */
   for (i = 1; i <= SILK_MAX_PULSES; i++) {
      int off = silk_shell_code_table_offsets[i];
      add_tab("silk_shell_code_table0", i, silk_shell_code_table0 + off, i + 1, 8);
      add_tab("silk_shell_code_table1", i, silk_shell_code_table1 + off, i + 1, 8);
      add_tab("silk_shell_code_table2", i, silk_shell_code_table2 + off, i + 1, 8);
      add_tab("silk_shell_code_table3", i, silk_shell_code_table3 + off, i + 1, 8);
   }
   WHOLE(silk_lsb_iCDF);
   WHOLE(silk_uniform3_iCDF); WHOLE(silk_uniform4_iCDF); WHOLE(silk_uniform5_iCDF); WHOLE(silk_uniform6_iCDF); WHOLE(silk_uniform8_iCDF);
   WHOLE(silk_NLSF_EXT_iCDF); WHOLE(silk_LTP_per_index_iCDF);
   /* static tables reached through their exported pointer arrays; sizes from the codebook sizes */
   add_tab("silk_LTP_gain_iCDF_0", 0, silk_LTP_gain_iCDF_ptrs[0], silk_LTP_vq_sizes[0], 8);
   add_tab("silk_LTP_gain_iCDF_1", 0, silk_LTP_gain_iCDF_ptrs[1], silk_LTP_vq_sizes[1], 8);
   add_tab("silk_LTP_gain_iCDF_2", 0, silk_LTP_gain_iCDF_ptrs[2], silk_LTP_vq_sizes[2], 8);
   WHOLE(silk_LTPscale_iCDF); WHOLE(silk_type_offset_VAD_iCDF); WHOLE(silk_type_offset_no_VAD_iCDF);
   WHOLE(silk_stereo_pred_joint_iCDF); WHOLE(silk_stereo_only_code_mid_iCDF);
   add_tab("silk_LBRR_flags_2_iCDF", 0, silk_LBRR_flags_iCDF_ptr[0], 3, 8);    /* 2 frames: symbols 1..3 -> 3 entries */
   add_tab("silk_LBRR_flags_3_iCDF", 0, silk_LBRR_flags_iCDF_ptr[1], 7, 8);    /* 3 frames: symbols 1..7 */
   WHOLE(silk_NLSF_interpolation_factor_iCDF);
   { const silk_NLSF_CB_struct *cb[2]; const char *n1[2] = {"silk_NLSF_CB1_iCDF_NB_MB", "silk_NLSF_CB1_iCDF_WB"};
     const char *n2[2] = {"silk_NLSF_CB2_iCDF_NB_MB", "silk_NLSF_CB2_iCDF_WB"}; int c;
     cb[0] = &silk_NLSF_CB_NB_MB; cb[1] = &silk_NLSF_CB_WB;
     for (c = 0; c < 2; c++) {
        for (i = 0; i < 2; i++) add_tab(n1[c], i, cb[c]->CB1_iCDF + i * cb[c]->nVectors, cb[c]->nVectors, 8);
        for (i = 0; i < 8; i++) add_tab(n2[c], i, cb[c]->ec_iCDF + i * (2 * NLSF_QUANT_MAX_AMPLITUDE + 1), 2 * NLSF_QUANT_MAX_AMPLITUDE + 1, 8);
     } }
   /* signs: the coder builds {silk_sign_iCDF[i], 0} */
   { static unsigned char sg[42][2];
     for (i = 0; i < 42; i++) { sg[i][0] = silk_sign_iCDF[i]; sg[i][1] = 0; add_tab("silk_sign_iCDF", i, sg[i], 2, 8); } }
   /* celt.h statics (header copies are what celt_encoder.c/celt_decoder.c compile in) */
   add_tab("trim_icdf", 0, trim_icdf, (int)sizeof trim_icdf, 7);
   add_tab("spread_icdf", 0, spread_icdf, (int)sizeof spread_icdf, 5);
   add_tab("tapset_icdf", 0, tapset_icdf, (int)sizeof tapset_icdf, 2);
#ifdef SYM_TU
   add_tab("small_energy_icdf", 0, small_energy_icdf, (int)sizeof small_energy_icdf, 2);
#endif
}

static void emit_tab_hdr(const char *kind, const icdf_t *x)
{
   js_open(kind); js_str("name", x->name); js_int("sub", x->sub); js_int("ftb", x->ftb); js_arr_b("t", x->t, x->n);
}

/* driving the coder with a table that has a zero-width symbol or no terminating zero would spin in
   the normalisation loop / run off the table: such a table is exported (TLC rejects it) but not driven */
static int drivable(const icdf_t *x)
{
   int i;
   if (x->n < 1 || x->t[x->n - 1] != 0 || x->t[0] >= (1 << x->ftb)) return 0;
   for (i = 1; i < x->n; i++) if (x->t[i] >= x->t[i - 1]) return 0;
   return 1;
}

static void cmd_icdf(void)
{
   int q;
   collect_tabs();
   for (q = 0; q < g_ntabs; q++) {
      const icdf_t *x = &g_tabs[q]; int dp[256], rt[256], s, p, np = 1 << x->ftb;
      emit_tab_hdr("icdfrt", x);
      if (!drivable(x)) { js_int("driven", 0); js_close(); continue; }
      js_int("driven", 1);
      for (p = 0; p < np; p++) {    /* decoder at every point of the 2^ftb scale: val = p * (rng >> ftb) */
         ec_dec d; ec_dec_init(&d, g_zero, sizeof g_zero);
         d.rng = 0x80000000u; d.val = (uint32_t)p << (31 - x->ftb);
         dp[p] = ec_dec_icdf(&d, x->t, x->ftb);
      }
      js_arr_i("dp", dp, np);
      for (s = 0; s < x->n; s++) {  /* one symbol through a real encoder and back */
         unsigned char b[BUFN]; ec_enc e; ec_dec d;
         memset(b, 0, BUFN); ec_enc_init(&e, b, BUFN); ec_enc_icdf(&e, s, x->t, x->ftb); ec_enc_done(&e);
         ec_dec_init(&d, b, BUFN); rt[s] = ec_dec_icdf(&d, x->t, x->ftb);
      }
      js_arr_i("rt", rt, x->n);
      js_close();
   }
}

#ifdef SYM_TU
static void cmd_tables(void)
{
   const CELTMode *m = the_mode(); int q, i, lm, it;
   collect_tabs();
   for (q = 0; q < g_ntabs; q++) { emit_tab_hdr("icdf", &g_tabs[q]); js_close(); }
   for (lm = 0; lm < 4; lm++) for (it = 0; it < 2; it++) {
      js_open("eprob"); js_int("lm", lm); js_int("intra", it); js_arr_b("t", e_prob_model[lm][it], 42); js_close();
   }
   { int nw = (int)(sizeof CELT_PVQ_U_DATA / sizeof CELT_PVQ_U_DATA[0]); static int hi[4096], lo[4096], off[15];
     for (i = 0; i < nw; i++) { hi[i] = CELT_PVQ_U_DATA[i] >> 16; lo[i] = CELT_PVQ_U_DATA[i] & 0xFFFF; }
     for (i = 0; i < 15; i++) off[i] = (int)(CELT_PVQ_U_ROW[i] - CELT_PVQ_U_DATA);
     js_open("utab"); js_int("nw", nw); js_arr_i("off", off, 15); js_arr_i("hi", hi, nw); js_arr_i("lo", lo, nw); js_close(); }
   { int nb = m->nbEBands, nidx = nb * (m->maxLM + 2), ncap = nb * (m->maxLM + 1) * 2; static int a[4096];
     js_open("cache"); js_int("nb", nb); js_int("maxlm", m->maxLM); js_int("size", m->cache.size);
     for (i = 0; i <= nb; i++) a[i] = m->eBands[i];
     js_arr_i("ebands", a, nb + 1);
     for (i = 0; i < nb; i++) a[i] = m->logN[i];
     js_arr_i("logn", a, nb);
     for (i = 0; i < nidx; i++) a[i] = m->cache.index[i];
     js_arr_i("index", a, nidx);
     js_arr_b("bits", m->cache.bits, m->cache.size);
     js_arr_b("caps", m->cache.caps, ncap);
     js_close(); }
}
#endif

/* ---------------------------------------------------------------- replay: re-run recorded cases */
static long jget(const char *ln, const char *key, long dflt)
{
   char pat[40]; const char *p;
   snprintf(pat, sizeof pat, "\"%s\":", key);
   p = strstr(ln, pat);
   return p ? strtol(p + strlen(pat), NULL, 10) : dflt;
}

static void cmd_replay(void)
{
   static char ln[1 << 20];
   while (fgets(ln, sizeof ln, stdin)) {
      if (strstr(ln, "\"k\":\"pvq\"") || strstr(ln, "\"k\":\"pvqw\"")) {
         int n = (int)jget(ln, "N", 0), k = (int)jget(ln, "K", 0); uint32_t i;
         if (n < 2 || n > NDIM || k < 1 || k > KDIM - 2 || hV[n][k] >= ((uint64_t)1 << 32)) continue;
         i = strstr(ln, "\"k\":\"pvqw\"") ? (uint32_t)((jget(ln, "ih", 0) << 16) | jget(ln, "il", 0)) : (uint32_t)jget(ln, "i", 0);
         if (i < hV[n][k]) pvq_emit(n, k, i, hV[n][k]);
      } else if (strstr(ln, "\"k\":\"sweep\"")) {
         int n = (int)jget(ln, "N", 0), k = (int)jget(ln, "K", 0); long bad = jget(ln, "bad", -1);
         if (n < 2 || n > NDIM || k < 1 || k > KDIM - 2 || hV[n][k] > (1u << 26)) continue;
         sweep_one(n, k, hV[n][k]);
         if (bad >= 0 && (uint64_t)bad < hV[n][k]) pvq_emit(n, k, (uint32_t)bad, hV[n][k]);
      } else if (strstr(ln, "\"k\":\"lapp0\"")) {
         lapp0_pair((int)jget(ln, "p0", 16000), (int)jget(ln, "dc", 16000));
      } else if (strstr(ln, "\"k\":\"lap\"")) {
         lap_pair((unsigned)jget(ln, "fs", 128), (int)jget(ln, "dc", 64));
      } else if (strstr(ln, "\"k\":\"icdf") || strstr(ln, "\"k\":\"utab\"") || strstr(ln, "\"k\":\"cache\"") ||
                 strstr(ln, "\"k\":\"eprob\"") || strstr(ln, "\"k\":\"vnk\"") || strstr(ln, "\"k\":\"reach\"")) {
         /* table judgements: export everything again from the tree under test */
#ifdef SYM_TU
         cmd_tables(); cmd_reach(); cmd_icdf();
#endif
         return;
      }
   }
}

int main(int argc, char **argv)
{
   const char *c = argc > 1 ? argv[1] : "";
   hx_watchdog_init();
   hv_init();
   hx_arm(1500);
   if (!strcmp(c, "reach")) cmd_reach();
   else if (!strcmp(c, "pvq") && argc >= 7) cmd_pvq(strtoull(argv[2], 0, 10), (uint32_t)strtoul(argv[3], 0, 10), atoi(argv[4]), atoi(argv[5]), atoi(argv[6]));
   else if (!strcmp(c, "sweep") && argc >= 5) cmd_sweep((uint32_t)strtoul(argv[2], 0, 10), atoi(argv[3]), atoi(argv[4]));
   else if (!strcmp(c, "small") && argc >= 4) cmd_small((uint32_t)strtoul(argv[2], 0, 10), atoi(argv[3]));
   else if (!strcmp(c, "lapp0")) cmd_lapp0();
   else if (!strcmp(c, "lapgrid") && argc >= 4) cmd_lapgrid(atoi(argv[2]), atoi(argv[3]));
   else if (!strcmp(c, "icdf")) cmd_icdf();
   else if (!strcmp(c, "replay")) cmd_replay();
#ifdef SYM_TU
   else if (!strcmp(c, "tables")) cmd_tables();
   else if (!strcmp(c, "laplace")) cmd_laplace();
#endif
   else { fprintf(stderr, "usage: hx_sym tables|reach|pvq|sweep|small|laplace|lapgrid|icdf|replay ...\n"); return 3; }
   hx_disarm();
   return 0;
}
