"""C01 - decoding is total and memory-safe for arbitrary packets and call histories
(modules Framing + DecCtl; DecCtl_mc explores the decoder object, DecTrace judges recorded calls)."""
import json, os, re, time
from concurrent.futures import ThreadPoolExecutor
import vf

LEVEL = "model_checking"

# Deviations found on the unchanged tree that are not (yet) in known_findings.json would be listed here
# (same entry format; `key` is matched field by field against the failing event / abort record).
# F6 (opus_packet_has_lbrr read outside an empty packet / empty first frame) was found by this check and
# has been fixed in /repo (cdc9d500), so nothing is tolerated.
PROVISIONAL = []

FS = [8000, 12000, 16000, 24000, 48000]
GEN_TAGS = ["decoded", "plc", "zeros", "fec", "fail", "ctl"]

TIERS = dict(
    quick=dict(mc="DecCtl_mc_quick.cfg", mc_split=False,
               gens=[("tour", "DecCtl_gen_quick.cfg", 1), ("pairs", "DecCtl_gen_pairs.cfg", 4)],
               seq_chunk=4000, fuzz_execs=1500, fuzz_chunk=500, insp=20000, insp_chunk=20000, nproc=10),
    thorough=dict(mc="DecCtl_mc_thorough.cfg", mc_split=True,
                  gens=[("tour", "DecCtl_gen_thorough.cfg", 1), ("triples", "DecCtl_gen_triples.cfg", 4)],
                  seq_chunk=12000, fuzz_execs=16000, fuzz_chunk=1000, insp=300000, insp_chunk=50000, nproc=12),
)


def known_entries():
    return vf.known_findings("C01") + PROVISIONAL


def match_known(record):
    for k in known_entries():
        key = k.get("key") or {}
        if key and all(record.get(f) == v for f, v in key.items()):
            return k
    return None


# ---------------------------------------------------------------------------
# TLC-generated call sequences -> text lines for hx_dec seq

def seqs_from_prints(prints):
    """'"SEQ tag <<<<1, 2, ..>>, ..>>"' -> (tag, [[6 ints], ...]); duplicates removed, order kept sorted"""
    seen = {}
    for p in prints:
        m = re.match(r'"SEQ (\w+) (<<.*>>)"$', p)
        if not m:
            continue
        calls = re.findall(r"<<(-?\d+), (-?\d+), (-?\d+), (-?\d+), (-?\d+), (-?\d+)>>", m.group(2))
        if calls:
            seen.setdefault(tuple(tuple(int(v) for v in c) for c in calls), m.group(1))
    return sorted(seen.items())


def seq_line(i, calls, seed):
    body = "%d %s" % (len(calls), " ".join(" ".join(str(v) for v in c) for c in calls))
    if i % 5 == 4:
        # every fifth sequence runs on a multistream / projection decoder (layout, Fs, entry point in turn)
        j = i // 5 + seed
        return "%d %d %d %s" % (FS[j % 5], 100 + (j // 5) % 12, (j // 60 + j) % 3, body)
    combo = (i + seed) % 30            # every (Fs, channels, entry point) combination in turn
    return "%d %d %d %s" % (FS[combo % 5], 1 + (combo // 5) % 2, combo // 10, body)


# ---------------------------------------------------------------------------
# one harness job = run hx_dec, then let TLC (DecTrace) judge what it recorded

class Job:
    def __init__(self, name, args, stdin=None, header=None):
        self.name, self.args, self.stdin = name, args, stdin
        self.header = header or {}
        self.out = None
        self.rc = 0
        self.err = ""
        self.events = 0
        self.execs = 0
        self.hashes = set()
        self.counts = {}
        self.accepted = None
        self.rej_line = None
        self.rej_event = ""
        self.drift = []
        self.first_event = ""


def scan(job):
    """count what was recorded; non-trivial = distinct decode calls that reached the codec or were
    refused for a reason other than an argument check (r > 0, BUFFER_TOO_SMALL, INVALID_PACKET)"""
    cnt = job.counts
    lines = []
    with open(job.out) as f:
        for ln in f:
            if not ln.endswith("}\n") or ln.startswith('{"k":"Hang"'):
                continue                      # a line cut short by an abort, or the watchdog's marker
            lines.append(ln)
            if ln.startswith('{"k":"dec"'):
                i = ln.find(',"r":')
                j = ln.find(',', i + 5)
                r = int(ln[i + 5:j])
                lost = ',"n":0,' in ln or ',"nul":1,' in ln
                fec = ',"fec":1,' in ln
                kind = ("lost" if lost else "fec" if fec else "dec") + ("_ok" if r > 0 else "_err%d" % r)
                cnt[kind] = cnt.get(kind, 0) + 1
                if r > 0 or r in (-2, -4):
                    job.hashes.add(hash(ln[ln.find(',"api"'):j]))
            elif ln.startswith('{"k":"new"'):
                job.execs += 1
            else:
                k = ln[6:ln.find('"', 6)]
                cnt[k] = cnt.get(k, 0) + 1
                if k == "insp":
                    job.hashes.add(hash(ln[ln.find(',"h"'):]))
    job.events = len(lines)
    if lines:
        job.first_event = lines[min(1, len(lines) - 1)].strip()
    return lines


def run_job(ctx, exe, job, env, heap):
    job.out = ctx.path("t_%s.ndjson" % job.name)
    job.rc, job.err = vf.run_hx(exe, job.args, job.out, timeout=3000, env=env, stdin_path=job.stdin)
    lines = scan(job)
    if job.rc != 0:
        with open(job.out, "w") as f:      # judge what was recorded completely
            f.writelines(lines)
    if not lines:
        job.accepted = True
        return job
    ok, rej, r = vf.validate_seq(ctx, "DecTrace", "DecTrace.cfg", job.out, "C01 " + job.name, timeout=3000, heap=heap)
    job.accepted, job.rej_line = ok, rej
    if rej is not None and rej > 0:
        job.rej_event = lines[rej - 1].strip() if rej <= len(lines) else ""
    job.drift = [p for p in r.prints if p.startswith('<<"DRIFT"')]
    if ok and not any(p.startswith('<<"END"') for p in r.prints):
        raise vf.Infra("DecTrace did not reach the end of %s:\n%s" % (job.out, r.out[-1500:]))
    return job


def exec_events(path, x):
    res = []
    tag = '"x":%d,' % x
    with open(path) as f:
        for ln in f:
            if tag in ln:
                res.append(ln)
    return res


def rerun_args(job, x):
    """harness arguments that re-execute execution x of this job alone"""
    h = job.header
    if h["mode"] == "fuzz":
        return ["fuzz", h["seed"], h["family"], x, 1], None
    if h["mode"] == "insp":
        return ["insp", h["seed"], x, 1], None
    return ["seq", h["seed"], x], h["lines"][x - h["first"]]


def judge_again(ctx, exe, env, job, x, why):
    """R4: a rejection or abort is re-executed once, alone, before it is reported.
    Returns (still_failing, replay_text, detail)."""
    args, seqline = rerun_args(job, x)
    hdr = dict(check="C01", mode=job.header["mode"], seed=job.header.get("seed"), exec=x)
    for f in ("family",):
        if f in job.header:
            hdr[f] = job.header[f]
    stdin = None
    if seqline is not None:
        hdr["line"] = seqline
        stdin = ctx.path("rr_%s_%d.txt" % (job.name, x))
        with open(stdin, "w") as f:
            f.write(seqline + "\n")
    j2 = Job("rr_%s_%d" % (job.name, x), args, stdin=stdin, header=dict(job.header))
    run_job(ctx, exe, j2, env, "2g")
    text = json.dumps(hdr) + "\n"
    if os.path.exists(j2.out):
        with open(j2.out) as f:
            text += f.read(200000)
    if j2.rc != 0:
        return True, text + "\n# stderr:\n" + j2.err[-3000:], "aborted again rc=%d: %s" % (j2.rc, summarize_err(j2.err))
    if j2.accepted:
        return False, text, "accepted on re-execution"
    return True, text, "rejected again: " + j2.rej_event[:700]


def summarize_err(err):
    m = re.search(r"SUMMARY: .*", err)
    if m:
        return m.group(0)[:300]
    m = re.search(r"(Fatal \(internal\) error.*|runtime error:.*|AddressSanitizer.*)", err)
    return (m.group(0) if m else err.strip()[-300:])[:300]


def report(ctx, exe, env, job):
    """turn the outcome of a job into verdict lines"""
    for p in job.drift[:3]:
        m = re.match(r'<<"DRIFT", (\d+)', p)
        ev = vf.file_line(job.out, int(m.group(1)))[:400] if m else ""
        ctx.spec_drift("DecCtl", "%s %s event: %s" % (job.name, p, ev))
    if job.rc != 0:
        # sanitizer / assertion abort or watchdog: memory-safety / termination clause
        last_x = 0
        with open(job.out) as f:
            for ln in f:
                m = re.search(r'"x":(\d+)', ln)
                if m:
                    last_x = int(m.group(1))
        what = "Hang (a call did not return within 5 s of CPU time)" if job.rc == 97 else summarize_err(job.err)
        k = match_known(dict(abort=what))
        if k:
            ctx.known_finding("%s [%s]" % (k["what"], what))
            return
        still, text, detail = judge_again(ctx, exe, env, job, last_x, what)
        if not still:
            raise vf.Infra("hx_dec %s aborted (rc=%d, %s) in execution %d but not when that execution was re-run alone"
                           % (job.name, job.rc, what, last_x))
        ctx.violation("hx_dec %s execution %d: %s; %s" % (job.name, last_x, what, detail), replay_text=text)
    if job.accepted is False:
        ev = job.rej_event
        m = re.search(r'"x":(\d+)', ev)
        x = int(m.group(1)) if m else 0
        still, text, detail = judge_again(ctx, exe, env, job, x, "rejected")
        if not still:
            raise vf.Infra("DecTrace rejected line %s of %s but accepted the same execution re-run alone: %s"
                           % (job.rej_line, job.name, ev[:500]))
        ctx.violation("decode contract violated (%s, execution %d): %s" % (job.name, x, detail), replay_text=text)


# ---------------------------------------------------------------------------

def run(ctx):
    tier = ctx.tier
    T = TIERS[tier]
    ctx.rule = ("DecCtl_mc: TLC explores every sequence of calls (decode of valid packets of each mode x duration x channels x code, "
                "invalid packets, loss, FEC, reset, gain) to the fixpoint of the abstract state graph and checks the contract theorems on "
                "every transition. hx_dec replays TLC-generated call sequences (transition tour + all short sequences) on all "
                "Fs x channels x entry points with packets built from frames of the tree's own encoder, and runs seeded fuzz executions in five "
                "packet families (the fifth: CELT/SILK frame headers written at their extremes with the library's own range encoder) on single-stream, multistream and projection decoders; every recorded call is judged by DecTrace "
                "(success iff contract, exact count, documented error, 0<n<=frame_size, finite samples, canaries, high-water mark, "
                "last-packet-duration). non-trivial = distinct decode calls (header bytes, len, frame_size, fec, entry point) that returned "
                "samples, BUFFER_TOO_SMALL or INVALID_PACKET, plus distinct inspected packets")
    ctx.assumptions = [
        "TLC and the CommunityModules Json reader are trusted",
        "memory safety and termination are observed (ASan/UBSan/assertions in the hk build, exact-size heap copies of packets, canaries "
        "and sentinel-filled PCM buffers, per-call watchdog of 5 s CPU time) on the executions explored only",
        "the harness logs the first 116+len/254 bytes of a single-stream packet (a framing header cannot be longer) and all bytes of a "
        "multistream packet (trailing zeros trimmed)",
        "frame_size up to one second; data==NULL with len>0 is passed to the single-stream decoders only",
        "LAST_PACKET_DURATION tracking is asserted for concealment and FEC calls too (documented meaning of the ctl)",
    ]
    if ctx.replay:
        return replay(ctx)
    seed = ctx.seed
    env = {}
    pool = ThreadPoolExecutor(max_workers=8)

    # 1. the model: all call sequences, contract theorems on every transition
    def mc_one(fs):
        cfg = T["mc"]
        if fs is not None:
            src = os.path.join(vf.SPEC, "cfg", cfg)
            cfg = ctx.path("mc_%d.cfg" % fs)
            with open(src) as f, open(cfg, "w") as g:
                g.write(re.sub(r"FsChoices = \{[^}]*\}", "FsChoices = {%d}" % fs, f.read()))
        r = ctx.mc("DecCtl_mc", cfg, what="DecCtl all call sequences%s" % (" Fs=%d" % fs if fs else ""),
                   workers=3 if fs else 8, timeout=3000, heap="6g")
        if r.violation:
            raise vf.Infra("DecCtl model theorem %s violated:\n%s" % (r.violation, r.state_dump[:2500]))
        if r.distinct < 20 or r.generated < 1000:
            raise vf.Infra("DecCtl_mc explored almost nothing (%d states)" % r.distinct)
        return r
    mc_futs = [pool.submit(mc_one, fs) for fs in (FS if T["mc_split"] else [None])]

    # 2. call sequences for replay
    def gen_one(g):
        name, cfg, workers = g
        r = ctx.mc("DecCtl_mc", cfg, what="DecCtl gen " + name, workers=workers, timeout=3000, heap="6g", deadlock=True)
        if r.violation:
            raise vf.Infra("DecCtl gen %s: %s" % (name, r.violation))
        return name, seqs_from_prints(r.prints)
    gen_futs = [pool.submit(gen_one, g) for g in T["gens"]]

    # 3. the implementation
    var = vf.build_variant("hk")
    exe = vf.build_hx(var, "dec.c")

    jobs = []
    for fam in range(5):
        for first in range(0, T["fuzz_execs"], T["fuzz_chunk"]):
            jobs.append(Job("fuzz%d_%d" % (fam, first), ["fuzz", seed, fam, first, min(T["fuzz_chunk"], T["fuzz_execs"] - first)],
                            header=dict(mode="fuzz", seed=seed, family=fam)))
    for first in range(0, T["insp"], T["insp_chunk"]):
        jobs.append(Job("insp_%d" % first, ["insp", seed, first, min(T["insp_chunk"], T["insp"] - first)],
                        header=dict(mode="insp", seed=seed)))

    tags = {}
    all_lines = []
    for fut in gen_futs:
        name, seqs = fut.result()
        for calls, tag in seqs:
            tags[tag] = tags.get(tag, 0) + 1
            all_lines.append(seq_line(len(all_lines), calls, seed))
        ctx.notes.setdefault("generated_sequences", {})[name] = len(seqs)
    # vacuity guard: the generated behaviours contain every kind of call outcome the model distinguishes
    for t in GEN_TAGS:
        if tags.get(t, 0) == 0:
            raise vf.Infra("vacuous generation: no call sequence ends in outcome '%s' (%s)" % (t, tags))
    ctx.notes["generated_outcomes"] = tags
    for first in range(0, len(all_lines), T["seq_chunk"]):
        part = all_lines[first:first + T["seq_chunk"]]
        p = ctx.path("seq_%d.txt" % first)
        with open(p, "w") as f:
            f.write("\n".join(part) + "\n")
        jobs.append(Job("seq_%d" % first, ["seq", seed, first], stdin=p,
                        header=dict(mode="seq", seed=seed, first=first, lines=part)))

    heap = "3g"
    done = vf.parallel(lambda j: run_job(ctx, exe, j, env, heap), jobs, nproc=T["nproc"])
    for fut in mc_futs:
        fut.result()
    pool.shutdown()
    ctx.exhaustive = True
    ctx.notes["exhaustive_scope"] = ("model side: all call sequences over the alphabet of %s; implementation side: generated sequences "
                                     "and seeded fuzz executions (sampled)" % T["mc"])

    totals = {}
    for j in done:
        ctx.evaluations += j.events - j.counts.get("mark", 0)
        ctx.nontrivial |= j.hashes
        for k, v in j.counts.items():
            totals[k] = totals.get(k, 0) + v
        fam = re.sub(r"_\d+$", "", j.name)
        if j.first_event and not any(s.get("driver") == fam for s in ctx.samples if isinstance(s, dict)):
            ctx.sample({"driver": fam, "event": j.first_event[:500]}, limit=10)
        report(ctx, exe, env, j)
        if j.accepted and j.rc == 0:
            ctx.traces += j.execs if j.execs else j.events
        if os.path.exists(j.out) and os.environ.get("VERIF_KEEP") != "1":
            os.remove(j.out)
    ctx.notes["recorded_calls"] = totals
    # vacuity guard on the implementation side: every kind of outcome was actually recorded and judged
    for k in ("dec_ok", "lost_ok", "fec_ok", "dec_err-2", "dec_err-4", "dec_err-1", "ctl", "insp"):
        if totals.get(k, 0) == 0 and not ctx.violations:
            raise vf.Infra("vacuous run: no recorded event of kind %s (%s)" % (k, totals))


def replay(ctx):
    """re-execute the recorded failing execution against the current tree and judge it again;
    a file of raw events (no header line) is judged as it is"""
    with open(ctx.replay) as f:
        first = f.readline()
    try:
        hdr = json.loads(first)
    except ValueError:
        hdr = {}
    var = vf.build_variant("hk")
    exe = vf.build_hx(var, "dec.c")
    ctx.nontrivial_count = 1
    if hdr.get("check") != "C01":
        # raw trace
        out = ctx.path("raw.ndjson")
        with open(ctx.replay) as f, open(out, "w") as g:
            g.writelines(ln for ln in f if ln.startswith("{"))
        ok, rej, r = vf.validate_seq(ctx, "DecTrace", "DecTrace.cfg", out, "C01 replay raw")
        ctx.evaluations += vf.count_lines(out)
        ctx.sample(vf.file_line(out, max(rej or 1, 1))[:400])
        if not ok:
            ctx.violation("recorded trace rejected at line %s: %s" % (rej, vf.file_line(out, rej or 1)[:700]), replay_src=ctx.replay)
        else:
            ctx.traces += 1
        return
    env = {}
    x = int(hdr.get("exec", 0))
    mode = hdr["mode"]
    stdin = None
    if mode == "fuzz":
        args = ["fuzz", hdr["seed"], hdr["family"], x, 1]
    elif mode == "insp":
        args = ["insp", hdr["seed"], x, 1]
    else:
        args = ["seq", hdr["seed"], x]
        stdin = ctx.path("replay_seq.txt")
        with open(stdin, "w") as f:
            f.write(hdr["line"] + "\n")
    j = Job("replay", args, stdin=stdin, header=hdr)
    run_job(ctx, exe, j, env, "2g")
    ctx.evaluations += j.events
    ctx.sample(j.first_event[:400])
    if j.rc != 0:
        what = "Hang" if j.rc == 97 else summarize_err(j.err)
        k = match_known(dict(abort=what))
        if k:
            ctx.known_finding(k["what"])
        else:
            ctx.violation("replayed execution aborted rc=%d: %s" % (j.rc, what), replay_src=ctx.replay)
    elif not j.accepted:
        ctx.violation("replayed execution rejected: " + j.rej_event[:700], replay_src=ctx.replay)
    else:
        ctx.traces += 1


META = dict(
    engine="Framing+DecCtl",
    technique=("TLA+ model of the decoder object's control state and call contract; TLC exhaustive over all call sequences of a finite "
               "alphabet (theorems on every transition); TLC-generated call sequences replayed through libopus; seeded fuzz executions "
               "(ASan/UBSan/assertions, canaries, watchdog); TLC stateful trace validation of every recorded call"),
    level_text=("TLC checks on every transition of the decoder model, for all sequences of decode/loss/FEC/reset/gain calls over the "
                "alphabet: a call succeeds exactly when frame_size>0, decode_fec in {0,1}, the framing is valid (Framing!Parse), PLC/FEC "
                "requests are multiples of 2.5 ms and the announced duration fits; the count is the announced duration (frame_size for "
                "PLC/FEC, clamped to 120 ms for multistream); failures return BAD_ARG/BUFFER_TOO_SMALL/INVALID_PACKET and leave the state "
                "unchanged; last-packet-duration tracks; concealment pieces always add up to the request. Every call recorded from the real "
                "single-stream (16-bit/24-bit/float), multistream and projection decoders and the packet-inspection functions - replayed "
                "TLC-generated sequences and five fuzz families (random bytes, valid header + random payload, damaged corpus packets, "
                "multistream/projection, encoder-built extreme coarse-energy / gain symbols) with random call interleavings - is judged by TLC against that contract "
                "(return value exact, 0<n<=frame_size, finite samples, nothing modified beyond frame_size x channels, canaries, "
                "LAST_PACKET_DURATION)."),
    level_note=("Memory safety ('reads only the packet, writes only inside the buffer') and termination are observed with ASan/UBSan/"
                "assertions/canaries/a 5 s watchdog on the explored executions only, not proved. The control-state fields seen through the "
                "peek hook, 'state unchanged by a failed call', silence before the first packet and the has_lbrr bit value are model "
                "conformance (SPEC-DRIFT), not property clauses. Trusted: TLC, the Json module, the reading of RFC 6716 in Framing.tla."),
)
