"""C02 - every encoded packet is valid and decodes in lock-step with the encoder (modules Link, LinkTrace)."""
import json, os, random, re
import vf

LEVEL = "model_checking"
PROVISIONAL = []          # proposed known-findings entries (none)

FS = [8000, 12000, 16000, 24000, 48000]
APPS = [2048, 2049, 2051]
# request numbers (include/opus_defines.h, src/opus_private.h)
REQ = dict(bitrate=4002, vbr=4006, cvbr=4020, complexity=4010, bandwidth=4008, maxbw=4004, forcech=4022, forcemode=11002, fec=4012, loss=4014,
           dtx=4016, lsb=4036, pred=4042, pinv=4046, dur=4040, signal=4024)
GRID = dict(bitrate=[500, 2400, 4000, 6000, 8000, 9000, 12000, 16000, 20000, 24000, 32000, 40000, 48000, 64000, 96000, 128000, 256000, 510000, 600001, -1000, -1],
            vbr=[0, 1], cvbr=[0, 1], complexity=list(range(11)), bandwidth=[-1000, 1101, 1102, 1103, 1104, 1105], maxbw=[1101, 1102, 1103, 1104, 1105],
            forcech=[-1000, 1, 2], forcemode=[-1000, 1000, 1001, 1002], fec=[0, 1, 2], loss=[0, 1, 5, 10, 20, 50, 100], dtx=[0, 1], lsb=[8, 12, 16, 20, 24],
            pred=[0, 1], pinv=[0, 1], dur=list(range(5000, 5010)), signal=[-1000, 3001, 3002])
SIGS = [0, 1, 1, 1, 2, 3, 4, 5, 6, 6, 7, 8, 9]


def frame_of(cls, fs, rng):
    q = fs // 400
    return {"short": rng.choice([q, 2 * q]), "10": 4 * q, "20": 8 * q, "40-60": rng.choice([16 * q, 24 * q]),
            "80-120": rng.choice([32 * q, 40 * q, 48 * q])}[cls]


def budget_of(cls, rng, frame, fs):
    if cls == "tiny":
        return rng.choice([1, 2, 3, 4])
    if cls == "edge":
        nfr = max(1, frame * 50 // fs)
        return rng.choice([5, 6, 7, 8, 9, 10, 12, 2 * nfr + 1, 3 * nfr, 3 * nfr + 2, 1275, 1276, 1277])
    if cls == "mid":
        return rng.choice([16, 20, 33, 40, 60, 80, 100, 125, 160, 200, 253, 254, 255, 256, 257, 258, 300, 400])
    return rng.choice([1500, 1500, 4000, 1276, 1000, 640])


def enc_lines(rng, fs, dcls, bcls, reps=None):
    fr = frame_of(dcls, fs, rng)
    out = []
    for _ in range(reps or rng.choice([1, 2, 2, 3])):
        sig = rng.choice(SIGS)
        api = 2 if sig in (5, 7) and rng.random() < 0.8 else rng.randrange(3)
        out.append("E %d %d %d %d" % (fr, budget_of(bcls, rng, fr, fs), sig, api))
    return out


def ctl_line(rng, cls):
    if cls == "reset":
        return "R"
    return "S %d %d" % (REQ[cls], rng.choice(GRID[cls]))


def decoders(rng, fs, ch, tier, x):
    if tier == "thorough" and x % 4 == 0:
        ds = [(f, c, (x + i) % 3) for i, (f, c) in enumerate((f, c) for f in FS for c in (1, 2))]
        ds += [(fs, ch, a) for a in range(3)]
    else:
        ds = [(fs, ch, x % 3)] + [(rng.choice(FS), rng.choice([1, 2]), rng.randrange(3)) for _ in range(2 if tier == "quick" else 4)]
    return " ".join("%d %d %d" % d for d in ds)


def header(rng, tier, x):
    fs, ch, app = rng.choice(FS), rng.choice([1, 2]), rng.choice(APPS)
    return fs, "N enc %d %d %d %d | %s" % (fs, ch, app, rng.randrange(1, 1 << 30), decoders(rng, fs, ch, tier, x))


def histories_from_tlc(ctx, tier, want, rng):
    r = vf.tlc("Link_mc", "Link_gen_c02_%s.cfg" % tier, workers=4, timeout=1500, heap="6g")
    if r.error or r.violation:
        raise vf.Infra("Link_mc gen (C02): " + str(r.error or r.violation))
    ctx.add_tlc(r, "gen Link_mc/Link_gen_c02_%s.cfg" % tier)
    hs = sorted(p for p in r.prints if p.startswith('"HIST '))       # TLC's print order changes from run to run (R4)
    if not hs:
        raise vf.Infra("Link_mc gen emitted no history")
    ctx.notes["histories_enumerated"] = len(hs)
    pick = hs if len(hs) <= want else rng.sample(hs, want)
    out = []
    for h in pick:
        steps = re.findall(r'<<\\"([CE])\\", \\"([\w-]+)\\"(?:, \\"(\w+)\\")?>>', h)
        out.append([(k, a, b) for (k, a, b) in steps])
    return out


def scripts(ctx, tier):
    rng = random.Random(ctx.seed)
    ex = []          # list of executions, each a list of script lines
    # 1. abstract settings-change histories enumerated by TLC, concretised over the boundary grid
    for h in histories_from_tlc(ctx, tier, 420 if tier == "quick" else 9000, rng):
        fs, hd = header(rng, tier, len(ex))
        lines = [hd]
        if rng.random() < 0.5:            # some executions start from a running stream
            lines += enc_lines(rng, fs, rng.choice(["10", "20", "20", "40-60"]), "big", reps=2)
        for (k, a, b) in h:
            lines += [ctl_line(rng, a)] if k == "C" else enc_lines(rng, fs, a, b)
        ex.append(lines)
    # 2. long random walks over the same grid
    for _ in range(40 if tier == "quick" else 700):
        fs, hd = header(rng, tier, len(ex))
        lines = [hd]
        for _ in range(rng.randrange(25, 60)):
            if rng.random() < 0.3:
                lines.append(ctl_line(rng, rng.choice(list(REQ) + ["reset"] if rng.random() < 0.95 else ["reset"])))
            else:
                lines += enc_lines(rng, fs, rng.choice(["short", "10", "20", "20", "40-60", "80-120"]), rng.choice(["tiny", "edge", "mid", "big", "big"]))
        ex.append(lines)
    # 3. directed: mode / bandwidth / channel transitions (the redundancy handshake) under tight and loose budgets
    for k in range(30 if tier == "quick" else 400):
        fs = rng.choice([16000, 24000, 48000, 48000])
        ch = rng.choice([1, 2])
        lines = ["N enc %d %d %d %d | %s" % (fs, ch, rng.choice([2048, 2049]), rng.randrange(1, 1 << 30), decoders(rng, fs, ch, tier, k))]
        lines.append("S 4006 %d" % rng.choice([0, 1])); lines.append("S 4002 %d" % rng.choice([12000, 16000, 24000, 32000, 48000, 64000, -1]))
        if rng.random() < 0.5:
            lines.append("S 4012 1"); lines.append("S 4014 %d" % rng.choice([5, 20]))
        q = fs // 400
        for _ in range(rng.randrange(8, 20)):
            u = rng.random()
            if u < 0.45:
                lines.append("S 11002 %d" % rng.choice([1000, 1001, 1002, -1000]))
            elif u < 0.65:
                lines.append("S 4008 %d" % rng.choice([-1000, 1101, 1102, 1103, 1104, 1105]))
            elif u < 0.8:
                lines.append("S 4002 %d" % rng.choice([6000, 9000, 12000, 20000, 32000, 64000, 128000]))
            elif u < 0.9 and ch == 2:
                lines.append("S 4022 %d" % rng.choice([-1000, 1, 2]))
            fr = rng.choice([4, 8, 8, 8, 16, 24, 32, 48]) * q
            mb = rng.choice([1500, 1500, 400, 120, 80, 60, 50, 40, 33, 30, 25, 20, 16, 12])
            for _ in range(rng.choice([1, 2, 3])):
                lines.append("E %d %d %d %d" % (fr, mb, rng.choice([1, 1, 6, 4]), rng.randrange(3)))
        ex.append(lines)
    # 3b. budget sweeps in the speech / hybrid layers: every payload size around the point where the redundancy
    #     signalling no longer fits (tell + 17 / + 37 bits against 8 * bytes), constant and variable rate
    for k in range(10 if tier == "quick" else 90):
        fs = rng.choice([48000, 48000, 24000])
        ch = rng.choice([1, 2])
        mode = [1001, 1001, 1000][k % 3]
        lines = ["N enc %d %d %d %d | %s" % (fs, ch, 2048, rng.randrange(1, 1 << 30), decoders(rng, fs, ch, "quick", k))]
        lines += ["S 11002 %d" % mode, "S 4006 %d" % (k % 2), "S 4002 %d" % rng.choice([-1, 510000, 64000, 32000]), "S 4010 %d" % rng.choice([0, 3, 5, 10])]
        if mode == 1001:
            lines.append("S 4008 %d" % (1105 if fs == 48000 else 1104))
        fr = rng.choice([4, 8, 8]) * (fs // 400)
        lo = rng.choice([6, 8, 10])
        order = list(range(lo, lo + 64)) if k % 4 else rng.sample(range(lo, lo + 90), 64)
        for mb in order:
            for _ in range(2):
                lines.append("E %d %d %d %d" % (fr, mb, rng.choice([1, 1, 1, 6, 4]), rng.randrange(3)))
        ex.append(lines)
    # 3c. forced hybrid at 19..26 bytes per frame: the speech layer leaves about 36 bits, where the two sides' tests
    #     for the redundancy flag (tell + 37 <= 8 * bytes) are one bit apart from disagreeing
    for k in range(8 if tier == "quick" else 60):
        ch = rng.choice([1, 2])
        lines = ["N enc 48000 %d 2048 %d | 48000 %d %d" % (ch, rng.randrange(1, 1 << 30), ch, k % 3)]
        lines += ["S 11002 1001", "S 4006 %d" % (k % 2), "S 4002 %d" % rng.choice([-1, 510000, 64000, 24000, 16000]), "S 4008 1105", "S 4010 %d" % rng.choice([0, 5, 10])]
        fr = rng.choice([480, 960])
        for _ in range(300):
            lines.append("E %d %d %d %d" % (fr, rng.randrange(12, 34), rng.choice([1, 1, 6, 4]), rng.randrange(3)))
        ex.append(lines)
    # 3d. DTX: loud audio, then long digital silence (DTX packets and the refresh packets between them), then audio
    #     again - both detectors (activity analysis: complexity >= 7 and Fs >= 16 kHz; speech layer otherwise)
    for k in range(14 if tier == "quick" else 140):
        gen = k % 2 == 0
        fs = rng.choice([16000, 24000, 48000]) if gen else rng.choice(FS)
        ch = rng.choice([1, 2])
        app = rng.choice([2048, 2049]) if gen else 2048
        lines = ["N enc %d %d %d %d | %s" % (fs, ch, app, rng.randrange(1, 1 << 30), decoders(rng, fs, ch, "quick", k))]
        lines += ["S 4016 1", "S 4010 %d" % (rng.choice([7, 8, 10]) if gen else rng.choice([0, 3, 5, 6])),
                  "S 4002 %d" % rng.choice([16000, 24000, 32000, 64000, -1000]), "S 4006 %d" % rng.choice([0, 1, 1])]
        if rng.random() < 0.3:
            lines.append("S 4012 1")
        u = rng.choice([4, 8, 8, 8, 16, 24, 48]) if k % 7 else rng.choice([1, 2])
        fr = u * (fs // 400)
        def seg(ms, sig):
            return ["E %d 1500 %d %d" % (fr, sig, rng.randrange(3)) for _ in range(max(1, int(ms / (2.5 * u))))]
        lines += seg(500, 1) + seg(rng.choice([700, 1100, 1700]), 0) + seg(200, 1) + seg(rng.choice([450, 900]), 0) + seg(100, 6)
        ex.append(lines)
    # 4. invalid and borderline arguments
    for k in range(6 if tier == "quick" else 40):
        fs, hd = header(rng, tier, k)
        lines = [hd]
        for _ in range(12):
            fr = rng.choice([0, -1, 1, fs // 400 - 1, fs // 400 + 1, fs // 100 + 3, 3 * fs // 400, 7 * fs // 50, fs // 50, fs // 10, fs // 10, 3 * fs // 25])
            lines.append("E %d %d %d %d" % (fr, rng.choice([0, -5, 1, 1, 2, 2, 3, 1500]), rng.choice(SIGS), rng.randrange(3)))
        ex.append(lines)
    # 5. multistream (surround) and projection (ambisonics) encoders with the layouts of C10
    ms = []
    lay = [("surr", 1, 1), ("surr", 2, 1), ("surr", 3, 1), ("surr", 4, 1), ("surr", 5, 1), ("surr", 6, 1), ("surr", 7, 1), ("surr", 8, 1), ("surr", 1, 0), ("surr", 2, 0),
           ("surr", 4, 2), ("surr", 6, 2), ("surr", 9, 2), ("surr", 11, 2), ("surr", 3, 255), ("surr", 5, 255), ("penc", 4, 3), ("penc", 6, 3), ("penc", 9, 3), ("penc", 11, 3)]
    for k in range(24 if tier == "quick" else 260):
        t, nch, fam = lay[k % len(lay)]
        fs = rng.choice(FS) if t == "surr" else rng.choice([16000, 24000, 48000])
        decs = " ".join("%d %d" % (rng.choice(FS) if i else fs, rng.randrange(3)) for i in range(2 if tier == "quick" else 3))
        lines = ["N %s %d %d %d %d %d | %s" % (t, fs, nch, fam, rng.choice(APPS), rng.randrange(1, 1 << 30), decs)]
        lines.append("S 4002 %d" % rng.choice([8000 * nch, 16000 * nch, 24000 * nch, 6000 * nch, -1000]))
        q = fs // 400
        for _ in range(rng.randrange(4, 9)):
            if rng.random() < 0.35:
                cls = rng.choice(["vbr", "cvbr", "complexity", "bandwidth", "maxbw", "fec", "loss", "dtx", "lsb", "pred", "pinv", "dur", "signal", "bitrate", "forcech"])
                v = rng.choice(GRID[cls])
                if cls == "bitrate" and v > 0:
                    v = min(v, 40000) * nch
                lines.append("S %d %d" % (REQ[cls], v))
            fr = rng.choice([1, 2, 4, 8, 8, 8, 16, 24, 32, 40, 48]) * q
            S = nch  # an upper bound of the number of streams
            mb = rng.choice([4 * S, 4 * S + 3, 8 * S, 20 * S, 40 * S, 1500, 4000, 6000, rng.randrange(1, 4 * S + 1)])
            for _ in range(rng.choice([1, 2])):
                lines.append("E %d %d %d %d" % (fr, mb, rng.choice([0, 1, 1, 6, 6, 4, 3, 5]), rng.randrange(3)))
        ms.append(lines)
    # 5b. DTX on multistream objects, and a one-by-one sweep of the buffer size at the maximum bitrate with loud input
    #     (every stream fills what it is given: the length prefixes of the non-final streams sit at their 1/2-byte limit)
    for k in range(4 if tier == "quick" else 24):
        t, nch, fam = [("surr", 2, 255), ("surr", 6, 1), ("surr", 3, 1), ("penc", 4, 3)][k % 4]
        fs = rng.choice([16000, 48000])
        lines = ["N %s %d %d %d %d %d | %d %d" % (t, fs, nch, fam, 2049, rng.randrange(1, 1 << 30), fs, rng.randrange(3))]
        lines += ["S 4016 1", "S 4010 %d" % rng.choice([8, 10]), "S 4002 %d" % (24000 * nch)]
        fr = 8 * (fs // 400)
        for (n, sig) in ((25, 1), (60, 0), (8, 6), (30, 0), (4, 1)):
            lines += ["E %d 4000 %d %d" % (fr, sig, rng.randrange(3)) for _ in range(n)]
        ms.append(lines)
    # 5c. multi-frame packets inside multistream packets with per-frame sizes around 252 bytes (where the frame-length and
    #     self-delimiting length fields change from one to two bytes): 40..120 ms, variable rate, loud non-stationary input,
    #     total bitrate swept finely so that each stream's 20 ms frames cross 252 bytes (about 100..105 kb/s per stream)
    #     (complexity >= 8: below that the variable-rate frames all sit at their cap and are equal)
    lay252 = [("mse", 4, 2, 2), ("penc", 4, 3, 2), ("mse", 2, 2, 0), ("surr", 4, 1, 2), ("mse", 3, 2, 1), ("mse", 6, 3, 3), ("surr", 6, 1, 4), ("penc", 9, 3, 5)]
    for k in range(6 if tier == "quick" else 48):
        t, nch, a3, a4 = lay252[k % len(lay252)]
        fs = 48000
        hdr = "N mse %d %d %d %d %d %d" % (fs, nch, a3, a4, 2049, rng.randrange(1, 1 << 30)) if t == "mse" else \
              "N %s %d %d %d %d %d" % (t, fs, nch, a3, 2049, rng.randrange(1, 1 << 30))
        lines = [hdr + " | %d %d" % (fs, rng.randrange(3))]
        lines += ["S 4006 1", "S 4020 %d" % (0 if k < 6 else rng.choice([0, 0, 1])), "S 4010 %d" % rng.choice([8, 9, 10])]
        if k >= 6 and rng.random() < 0.3:
            lines.append("S 11002 %d" % rng.choice([1001, 1002]))
        u = [24, 24, 16, 32, 48, 24][k % 6] if k < 6 else rng.choice([16, 24, 24, 32, 40, 48])
        per = a3 if t == "mse" else (a4 - 1 if nch == 6 else a4)                          # streams that share the bulk of the rate
        lo, hi, step = 92000 * per, 116000 * per, (1000 if tier == "quick" else 500) * per
        off = rng.randrange(0, step)
        for br in range(lo + off, hi, step):
            lines.append("S 4002 %d" % br)
            for _ in range(2):
                lines.append("E %d 6000 13 %d" % (u * (fs // 400), rng.randrange(3)))
        ms.append(lines)
    sweeps = [("surr", 2, 255, 2), ("surr", 3, 1, 2), ("surr", 6, 1, 4), ("penc", 4, 3, 2)]
    for k in range(4 if tier == "quick" else 16):
        t, nch, fam, S = sweeps[k % 4]
        fs = 48000 if k < 4 else rng.choice([24000, 48000])
        lines = ["N %s %d %d %d %d %d | %d %d" % (t, fs, nch, fam, 2049, rng.randrange(1, 1 << 30), fs, rng.randrange(3))]
        lines += ["S 4002 %d" % (-1 if k < 8 else 256000 * nch), "S 4006 %d" % (1 if k % 8 < 4 else 0), "S 4010 %d" % rng.choice([0, 2, 5])]
        fr = (8 if k < 8 else rng.choice([4, 8, 16])) * (fs // 400)
        for mb in range(4 * S, 601 if tier == "thorough" or k < 2 else 301):
            lines.append("E %d %d %d %d" % (fr, mb, rng.choice([4, 4, 3]), rng.randrange(3)))
        ms.append(lines)
    return ex, ms


def run_scripts(ctx, exe, ex, tag, env=None):
    nproc = min(vf.NCPU, max(1, len(ex) // 4))
    cost = [len(e) for e in ex]
    order = sorted(range(len(ex)), key=lambda i: -cost[i])
    bins = [[] for _ in range(nproc)]; load = [0] * nproc
    for i in order:
        k = load.index(min(load)); bins[k].append(i); load[k] += cost[i]
    jobs = []
    for k, b in enumerate(bins):
        if not b:
            continue
        ip = ctx.path("%s_%02d.txt" % (tag, k))
        with open(ip, "w") as f:
            for i in b:
                f.write("\n".join(ex[i]) + "\n")
        jobs.append((k, ip))

    def one(job):
        k, ip = job
        out = ctx.path("%s_%02d.ndjson" % (tag, k))
        rc, err = vf.run_hx(exe, ["c02"], out, stdin_path=ip, timeout=3000, env=env)
        return k, ip, out, rc, err
    return vf.parallel(one, jobs)


def vseq(ctx, trace, what):
    acc, rej, r = vf.validate_seq(ctx, "LinkTrace", "LinkTrace.cfg", trace, what, heap="4g", timeout=3000)
    m = [p for p in r.prints if p.startswith('<<"END"')]
    if not m:
        raise vf.Infra("LinkTrace did not reach its END print on %s: %s" % (trace, r.out[-1500:]))
    mm = re.match(r'<<"END", (-?\d+), (\d+)>>', m[-1])
    if int(mm.group(1)) < 0:
        acc, rej = False, -int(mm.group(1))
    elif int(mm.group(1)) != vf.count_lines(trace) + 1:
        raise vf.Infra("LinkTrace stopped at line %s of %s" % (mm.group(1), trace))
    return acc, rej, r


def exec_of(trace, line):
    """execution number (x) of the event at `line`"""
    x = 0
    with open(trace) as f:
        for i, ln in enumerate(f, 1):
            if ln.startswith('{"k":"new"'):
                x += 1
            if i == line:
                return x, ln.strip()
    return x, ""


def script_exec(ip, x):
    cur, out = 0, []
    with open(ip) as f:
        for ln in f:
            if ln.startswith("N"):
                cur += 1
            if cur == x:
                out.append(ln)
    return "".join(out)


def cut_after_exec(trace, x, outp):
    cur, n = 0, 0
    with open(trace) as f, open(outp, "w") as g:
        for ln in f:
            if ln.startswith('{"k":"new"'):
                cur += 1
            if cur > x:
                g.write(ln); n += 1
    return n


NEV = dict(dtx_packets=0, redundancy_frames_bound=0, drift=0, events=0, encodes=0, packets=0, decodes=0, executions=0, refused=0, ms_packets=0, one_byte_100ms=0, toc_only=0, nan_inputs=0)


def count_events(ctx, out):
    cfg = None
    with open(out) as f:
        for ln in f:
            NEV["events"] += 1
            if ln.startswith('{"k":"new"'):
                cfg = json.loads(ln); NEV["executions"] += 1
            elif ln.startswith('{"k":"enc"'):
                e = json.loads(ln)
                NEV["encodes"] += 1
                if e["sig"] in (5, 7) and e["api"] == 2:
                    NEV["nan_inputs"] += 1
                if e["r"] > 0:
                    NEV["packets"] += 1; NEV["decodes"] += len(e["dec"])
                    if cfg and cfg.get("t") != "enc":
                        NEV["ms_packets"] += 1
                    if e["r"] <= 2:
                        NEV["toc_only"] += 1
                        if e["dtx"] == 1 and e["br"] >= 6000:
                            NEV["dtx_packets"] += 1
                    ctx.nontrivial.add(hash((cfg.get("t"), cfg.get("Fs"), cfg.get("ch"), cfg.get("app"), e["dur"], e["vbr"], e["br"], e["dtx"], e["fec"],
                                             e["fs"], e["mb"], e["sig"], e["api"], e["h"][0], e["r"])))
                    if len(ctx.samples) < 3 and e["r"] > 3 and e["i"] > 2:
                        e2 = dict(e); e2["h"] = e["h"][:8]
                        ctx.sample(dict(object={k: cfg[k] for k in cfg if k != "k"}, encode=e2))
                else:
                    NEV["refused"] += 1
                    if e["mb"] == 1 and e["r"] == -2:
                        NEV["one_byte_100ms"] += 1


def confirm(ctx, exe, script_text, tag, env=None):
    """R4: a rejection is re-run once, alone, before it is reported; returns True when it repeats"""
    ip = ctx.path("confirm_%s.txt" % tag)
    with open(ip, "w") as f:
        f.write(script_text)
    out = ctx.path("confirm_%s.ndjson" % tag)
    rc, err = vf.run_hx(exe, ["c02"], out, stdin_path=ip, timeout=1200, env=env)
    if rc != 0:
        return True
    acc, rej, r = vseq(ctx, out, "confirm " + tag)
    return not acc


def judge(ctx, runs, what, exe=None):
    good = []
    for k, ip, out, rc, err in runs:
        if rc != 0:
            rc2, err2 = vf.run_hx(exe, ["c02"], ctx.path("again_%s_%02d.ndjson" % (what.replace(" ", "_"), k)), stdin_path=ip, timeout=3000) if exe else (rc, err)
            if rc2 == 0:
                raise vf.Infra("hx_link aborted rc=%d on %s (%s) but not when run again: %s" % (rc, ip, what, err[-800:]))
            ctx.violation("hx_link aborted rc=%d on %s (%s): %s" % (rc, os.path.basename(ip), what, err[-1500:]), replay_src=ip)
        else:
            good.append((k, ip, out))

    def val(job):
        k, ip, out = job
        res, cur, base = [], out, 0
        for attempt in range(4):
            acc, rej, r = vseq(ctx, cur, "%s %02d.%d" % (what, k, attempt))
            res.append((cur, base, acc, rej, r))
            if acc:
                break
            x, ev = exec_of(cur, rej)
            nxt = ctx.path("rest_%s_%02d_%d.ndjson" % (what.replace(" ", "_"), k, attempt))
            if cut_after_exec(cur, x, nxt) == 0:
                break
            base += x; cur = nxt
        return job, res
    for (k, ip, out), res in vf.parallel(val, good):
        count_events(ctx, out)
        for cur, base, acc, rej, r in res:
            # model conformance of the first decoder (control state, redundancy / transition decision): SPEC-DRIFT only
            red = [int(p[5:-1]) for p in r.prints if p.startswith('"RED ')]
            if red:
                NEV["redundancy_frames_bound"] += sum(red)       # one count per execution
            for p in r.prints:
                m = re.match(r'<<"DRIFT", (\d+), (.*)>>', p)
                if m:
                    NEV["drift"] += 1
                    if len(ctx.drift) < 3:
                        ctx.spec_drift("Link", "decoder 0 does not follow DecCtl / Link!DecFrame (%s) at %s line %s: %s" % (
                            what, os.path.basename(cur), m.group(1), m.group(2)[:300]))
            if acc:
                continue
            x, ev = exec_of(cur, rej)
            why = [p for p in r.prints if p.startswith('<<"REJECTED_AT"')]
            rp = ctx.path("rej_%s_%02d_%d.txt" % (what.replace(" ", "_"), k, base + x))
            with open(rp, "w") as f:
                f.write(script_exec(ip, base + x))
            if exe and not confirm(ctx, exe, script_exec(ip, base + x), "%s_%02d_%d" % (what.replace(" ", "_"), k, base + x)):
                raise vf.Infra("rejection did not repeat when the execution was run again alone (%s, %s): %s" % (what, rp, (why[-1] if why else "")[:300]))
            e = {}
            try:
                e = json.loads(ev); e["h"] = e.get("h", [])[:12]
            except ValueError:
                pass
            ctx.violation("encode/decode obligation rejected by LinkTrace (%s): %s | event %s" % (what, (why[-1] if why else "")[:500], json.dumps(e)[:700]), replay_src=rp)


def run(ctx):
    tier = ctx.tier
    ctx.rule = ("TLC proves the redundancy/transition handshake, the packet envelope x every decoder configuration and the encoder->decoder composition over "
                "all short histories on module Link; TLC enumerates abstract settings-change histories which are concretised over the boundary grid and, with "
                "long random walks, directed transition sequences, invalid-argument calls and multistream/projection encoders, replayed through the real encoders; "
                "each packet is decoded in order by several real decoders (rates x channel counts x three sample formats); LinkTrace judges every encode event. "
                "non-trivial = distinct (object, settings snapshot, arguments, signal family, entry point, TOC, size) encode events that produced a packet")
    ctx.assumptions = ["TLC 1.8.0 and the CommunityModules Json reader are trusted",
                       "no RFC 6716 reference decoder is available offline: the 'reference decoder' clause is not decided (DESIGN 6.2)",
                       "multistream / projection encoders: success is demanded for buffers of at least four bytes per stream (R2); below that any documented error or a valid packet is accepted",
                       "the handshake model takes both coders to report the same ec_tell (theorem TellEqual of module RangeCoder, property C08) and the direction bit to cost one whole bit",
                       "float build; 'fuzzing' build variant in the thorough tier"]
    if ctx.replay:
        return replay(ctx)
    # 1. the design
    mcs = [("Link_mc_hs.cfg", None, "redundancy handshake"), ("Link_mc_hs_bug17.cfg", "RedundancySignalAgrees", "handshake witness: reserve 17 instead of 37"),
           ("Link_mc_hs_dirzero.cfg", "RedundancySignalAgrees", "handshake corner: direction bit that costs no whole bit (assumption made explicit)"),
           ("Link_mc_hs_w1.cfg", "SomeRedSilk", "vacuity guard SomeRedSilk"), ("Link_mc_hs_w2.cfg", "SomeRedHybrid", "vacuity guard SomeRedHybrid"),
           ("Link_mc_pk.cfg", None, "packet envelope x decoders"), ("Link_mc_pk_w.cfg", "SomeBigEnvelope", "vacuity guard SomeBigEnvelope"),
           ("Link_mc_c02_%s.cfg" % tier, None, "histories of control changes and encodes")]
    if tier == "thorough":
        mcs.append(("Link_mc_c02_wide.cfg", None, "histories, all decoder configurations"))

    def mc1(m):
        return m, vf.tlc("Link_mc", m[0], workers=4, timeout=1700, heap="8g")
    for (cfg, expect, what), r in vf.parallel(mc1, mcs, nproc=3):
        if r.error:
            raise vf.Infra("%s: %s" % (what, r.error))
        ctx.add_tlc(r, "mc Link_mc/" + cfg)
        vf.log("[mc] %-60s distinct=%d generated=%d %s (%.1fs)" % (what, r.distinct, r.generated, "OK" if r.ok else "VIOLATED " + str(r.violation), r.wall))
        if r.violation != expect:
            raise vf.Infra("Link model: %s: expected %s, got %s\n%s" % (what, expect, r.violation, r.state_dump[:1500]))
    ctx.exhaustive = False
    # 2. behaviours, 3. replay
    ex, ms = scripts(ctx, tier)
    ctx.notes["executions_planned"] = dict(single=len(ex), multistream=len(ms))
    var = vf.build_variant("hko")
    exe = vf.build_hx(var, "link.c")
    judge(ctx, run_scripts(ctx, exe, ex, "c02"), "encoder", exe)
    judge(ctx, run_scripts(ctx, exe, ms, "c02ms"), "multistream", exe)
    # a slice under the sanitizer build (assertions, ASan/UBSan)
    rng = random.Random(ctx.seed + 2)
    var2 = vf.build_variant("hk")
    exe2 = vf.build_hx(var2, "link.c")
    sl = rng.sample(ex, min(len(ex), 60 if tier == "quick" else 600)) + rng.sample(ms, min(len(ms), 6 if tier == "quick" else 40))
    judge(ctx, run_scripts(ctx, exe2, sl, "c02san"), "sanitizer build", exe2)
    if tier == "thorough":
        var3 = vf.build_variant("fuzzing")
        exe3 = vf.build_hx(var3, "link.c", extra=["-DFUZZING"])
        sl = rng.sample(ex, min(len(ex), 1500)) + rng.sample(ms, min(len(ms), 40))
        judge(ctx, run_scripts(ctx, exe3, sl, "c02fuzz"), "fuzzing build", exe3)
    ctx.traces = NEV["executions"]
    ctx.evaluations = NEV["encodes"] + NEV["decodes"]
    ctx.notes["events"] = dict(NEV)
    if NEV["dtx_packets"] < 20:
        raise vf.Infra("vacuous replay: only %d DTX packets were produced" % NEV["dtx_packets"])
    if NEV["redundancy_frames_bound"] == 0:
        raise vf.Infra("vacuous binding: no redundancy frame was observed through the decoder hook")
    if NEV["packets"] == 0 or NEV["ms_packets"] == 0 or NEV["one_byte_100ms"] == 0 or NEV["toc_only"] == 0 or NEV["nan_inputs"] == 0:
        raise vf.Infra("vacuous replay: %s" % NEV)


def replay(ctx):
    var = vf.build_variant("hk")
    exe = vf.build_hx(var, "link.c")
    out = ctx.path("replay.ndjson")
    rc, err = vf.run_hx(exe, ["c02"], out, stdin_path=ctx.replay, timeout=1200)
    if rc != 0:
        ctx.violation("replay aborted rc=%d %s" % (rc, err[-1200:]), replay_text=open(ctx.replay).read())
        return
    acc, rej, r = vseq(ctx, out, "C02 replay")
    count_events(ctx, out)
    ctx.traces = NEV["executions"]; ctx.evaluations = NEV["encodes"] + NEV["decodes"]; ctx.nontrivial_count = max(2, len(ctx.nontrivial))
    if not acc:
        why = [p for p in r.prints if p.startswith('<<"REJECTED_AT"')]
        ctx.violation("replayed execution rejected at line %s: %s | %s" % (rej, (why[-1] if why else "")[:500], vf.file_line(out, rej or 1)[:500]),
                      replay_text=open(ctx.replay).read())


META = dict(
    engine="Link",
    technique=("TLA+ composition EncCtl + Repack packet writer + Framing + DecCtl; TLC exhaustive on the redundancy handshake, the packet envelope and short histories; "
               "TLC-enumerated settings-change histories replayed through the real encoders and several real decoders; TLC trace validation of every encode event"),
    level_text=("TLC proves on module Link that encoder and decoder agree on the redundancy signalling for every abstract bit position 1..64 and budget 1..12 bytes "
                "(incl. the speech-only 'inferred from length' case, constant-rate padding, and a witness that a smaller reserve breaks it), that every packet of the "
                "encoder envelope parses, announces the submitted duration and is accepted with the right sample count by every decoder configuration, and that this "
                "holds along all short histories of control changes and encode calls. The model is bound to libopus by replaying TLC-enumerated histories (and long "
                "random / directed ones) through opus_encode/24/_float and the multistream and projection encoders; TLC judges every call: return contract, "
                "well-formedness via Framing!Parse on the logged header, duration, and for every decoder (output rates x channel counts x three sample formats) "
                "the exact sample count and string equality of the final range with the encoder's."),
    level_note=("Trusted: TLC, Json module. The RFC reference-decoder clause is not decided (no reference decoder offline). Inputs, settings and histories are sampled "
                "from boundary grids (seeded); the quantifier 'all max_data_bytes in 1..1500 x all PCM signals' is covered by boundary values and signal families, not exhaustively."),
)
