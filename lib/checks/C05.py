"""C05 - the encoder honours the buffer limit, the exact CBR size and the bitrate target (modules Cvbr, CvbrTrace)."""
import json, os, random, re
import vf

LEVEL = "model_checking"

FS = [8000, 12000, 16000, 24000, 48000]
QS = [1, 2, 4, 8, 16, 24, 32, 40, 48]                      # packet durations in 2.5 ms units
APPS = [2048, 2049, 2051]
BR_GRID = [500, 501, 600, 999, 1000, 2399, 2400, 2401, 4799, 4800, 6000, 8000, 9999, 12000, 16000, 24000, 32000, 48000,
           64000, 96000, 128000, 192000, 256000, 300000, 320000, 400000, 510000, 512000, -1000, -1]
MB_GRID = [1, 2, 3, 4, 5, 6, 7, 8, 9, 10, 11, 12, 13, 16, 20, 32, 40, 64, 100, 127, 128, 251, 252, 253, 254, 255, 256, 257, 400,
           500, 508, 509, 510, 511, 1000, 1274, 1275, 1276, 1277, 1278, 1500, 2000, 2551, 2552, 2553, 2554, 3000, 3825, 3828, 3829,
           3999, 4000]
TOLC, TOLS, FLOORS = 1, 60, 24000                          # the constants of spec/cfg/CvbrTrace.cfg (R3)
TOLM = 1                                                   # multistream, every sub-packet MDCT-only (class M)

# Deviations found by this check that the coordinator has not (yet) moved into known_findings.json.
# Each entry: dict(id, property, key, what).  Matching is done by kf_match() below.
PROVISIONAL = []


# ---------------------------------------------------------------------------------------------
# executions (text lines for harness/cvbr.c)

def pick_kind(rng, ms=None):
    """(kind, ch): a single-stream encoder or a multistream encoder of 1..4 streams"""
    if ms is None:
        ms = rng.random() < 0.35
    if not ms:
        return "S", rng.choice([1, 2])
    u = rng.random()
    if u < 0.5:
        ch = rng.choice([1, 2, 3, 4, 5, 6])                # family 1: 1, 1, 2, 2, 3, 4 streams (5.1 has an LFE stream)
        return ("F1" if ch > 2 else "F%d" % rng.choice([0, 1])), ch
    if u < 0.65:
        ch = rng.choice([1, 2, 3, 4])                      # family 255: one mono stream per channel
        return "F255", ch
    if u < 0.75:
        return "F2", 4                                     # ambisonics through the surround creator: 4 mono streams
    S = rng.choice([1, 2, 3, 4]); C = rng.randint(0, S)
    if S + C > 8:
        S, C = 4, 2
    return "L%d:%d" % (S, C), S + C


def head(rng, kind, ch, exact=0, fs=None, app=None):
    return "X %s %d %d %d %d %d" % (kind, fs or rng.choice(FS), ch, app or rng.choice(APPS), rng.randrange(1, 1 << 30), exact)


def mode_ops(m):
    return {"cbr": ["v0"], "vbr": ["v1", "c0"], "cvbr": ["v1", "c1"]}[m]


def walk_exec(rng, exact=0, ms=None, steps=None, small=False):
    """history that changes bitrate / VBR mode / buffer / duration / signal / other settings between packets,
    values from the boundary grids"""
    kind, ch = pick_kind(rng, ms)
    ops = ["x%d" % rng.choice([0, 2, 5, 10]), "b%d" % rng.choice(BR_GRID)] + mode_ops(rng.choice(["cbr", "cbr", "vbr", "cvbr"]))
    mbs = [m for m in MB_GRID if m <= 300] if small else MB_GRID
    for j in range(steps or rng.randint(12, 40)):
        u = rng.random()
        if u < 0.28:
            ops.append("b%d" % (rng.choice(BR_GRID) if rng.random() < 0.7 else rng.randint(500, 512000)))
        elif u < 0.43:
            ops += mode_ops(rng.choice(["cbr", "cbr", "vbr", "cvbr"]))
        elif u < 0.66:
            ops.append("m%d" % (rng.choice(mbs) if rng.random() < 0.85 else rng.randint(1, 300 if small else 4000)))
        elif u < 0.82:
            ops.append("d%d" % rng.choice(QS))
        elif u < 0.88:
            ops.append("s%d" % rng.randint(0, 10))
        elif u < 0.91:
            ops.append("t%d" % rng.choice([0, 1]))
        elif u < 0.93:
            ops += ["f%d" % rng.choice([0, 1]), "p%d" % rng.choice([0, 10, 30])]
        elif u < 0.95:
            ops.append("r")
        elif u < 0.97:
            ops.append("w%d" % rng.choice([0, 1101, 1103, 1105]))
        elif u < 0.985:
            ops.append("o%d" % rng.choice([0, 1000, 1001, 1002]))
        else:
            ops.append("h%d" % rng.choice([0, 1, 2 if ch >= 2 else 1]))
        ops.append("e%d" % rng.randint(1, 3))
    return head(rng, kind, ch, exact) + " | " + " ".join(ops)


GEN_VALUES = dict(
    br=dict(lo=[500, 501, 600, 999, 2399, 2400, 3000, 4799, 4800, 6000], mid=[8000, 12000, 16000, 24000, 32000, 40000, 48000, 64000],
            hi=[96000, 128000, 192000, 256000, 300000, 320000, 510000, 512000], auto=[-1000], max=[-1]),
    buf=dict(tiny=list(range(1, 13)), small=[13, 20, 40, 64, 100, 251, 252, 253, 254, 255, 256], ample=[1275, 1276, 1277, 1500, 2000],
             huge=[2552, 2553, 3000, 3828, 3829, 4000]),
    dur=dict([("short", [1, 2, 4]), ("20", [8]), ("long", [16, 24, 32, 40, 48])]))


def histories_from_tlc(ctx, cfg):
    """behaviours enumerated by TLC from Cvbr_mc (InitH/NextH): sequences of <<what, class>> steps"""
    r = vf.tlc("Cvbr_mc", cfg, workers=4, timeout=900)
    if r.error:
        raise vf.Infra("Cvbr gen: " + r.error)
    ctx.add_tlc(r, "gen Cvbr_mc/" + cfg)
    out = []
    for m in re.finditer(r'<<"HIST", "(.*?)">>\n', r.out + "\n"):
        steps = re.findall(r'<<\\"(\w+)\\", \\"(\w+)\\">>', m.group(1))
        if steps:
            out.append(steps)
    if not out:
        raise vf.Infra("Cvbr gen emitted no history")
    out.sort()          # TLC's workers print in no fixed order; the runs must be repeatable (R4)
    return out


def gen_exec(rng, steps, exact=0, ms=None):
    vias = [c for w, c in steps if w == "via"]
    fs = None
    if vias:
        # the coding mode is steered with OPUS_SET_FORCE_MODE (single stream); hybrid needs a super-wideband or fullband encoder
        kind, ch = "S", rng.choice([1, 2]); fs = rng.choice([24000, 48000])
    else:
        kind, ch = pick_kind(rng, ms)
    ops = ["x%d" % rng.choice([0, 3, 5, 9]), "s%d" % rng.choice([1, 1, 2, 3, 6, 7, 0])]
    if rng.random() < 0.15:
        ops.append("t1")
    cur = dict(mode=None, br=None, via="auto"); q = 8
    for what, cls in steps:
        if what == "mode":
            ops += mode_ops(cls); cur["mode"] = cls
        elif what == "br":
            v = rng.choice(GEN_VALUES["br"][cls])
            if cls in ("mid", "hi") and rng.random() < 0.3:
                v = rng.randint(8000, 64000) if cls == "mid" else rng.randint(64001, 512000)
            ops.append("b%d" % v); cur["br"] = cls
        elif what == "buf":
            ops.append("m%d" % rng.choice(GEN_VALUES["buf"][cls]))
        elif what == "dur":
            q = rng.choice(GEN_VALUES["dur"][cls]); ops.append("d%d" % q)
        elif what == "via":
            ops.append("o%d" % {"auto": 0, "hybrid": 1001, "celt": 1002}[cls]); cur["via"] = cls
            if cls == "hybrid":
                ops += ["s1", "e%d" % rng.randint(6, 20)]       # enough frames for the mode switch to happen
        ops.append("e%d" % rng.randint(1, 3))
        if rng.random() < 0.2:
            ops += ["s%d" % rng.randint(0, 10), "e1"]
    if cur["mode"] == "cvbr" and cur["br"] in ("mid", "hi") and cur["via"] == "celt" and not exact:
        # the history ends MDCT-only under constrained VBR: stay there for more than a second of demanding input so that the
        # long-term clause speaks about this history (no control call in between)
        ops += ["m1500", "s%d" % rng.choice([9, 10, 6, 9, 10]), "e%d" % (int(560 / q) + 2)]
    return head(rng, kind, ch, exact, fs=fs) + " | " + " ".join(ops)


def mode_switch_cvbr_execs(rng, n):
    """constrained VBR switched on once; the encoder is then steered from the hybrid mode into the MDCT-only mode without any VBR
    control call in between (signal type + bitrate, forced mode, or bitrate alone) and stays there for seconds of demanding input
    (noise-burst trains, dense harmonic tones, clicks): the reservoir has to be in charge whatever came before"""
    out = []
    for i in range(n):
        fs = rng.choice([48000, 48000, 24000]); ch = rng.choice([1, 2]); app = rng.choice([2049, 2049, 2048]); q = rng.choice([8, 8, 8, 4, 16])
        brB = rng.choice([48000, 64000, 96000, 128000]) * (1 if ch == 1 or rng.random() < 0.5 else 1)
        ops = ["x%d" % rng.choice([3, 5, 5, 8, 10]), "v1", "c1", "d%d" % q, "m1500"]
        u = i % 3
        if u == 0:        # the seeded scenario: voice at 24 kb/s fullband, then music at a higher rate
            ops += ["g3001", "b%d" % rng.choice([20000, 24000, 28000]), "w1105", "s1", "e%d" % (rng.choice([120, 200, 400]) // q + 1),
                    "g3002", "b%d" % brB, "w0"]
        elif u == 1:      # forced modes
            ops += ["b%d" % rng.choice([24000, 32000, 40000]), "o1001", "s1", "e%d" % (rng.choice([80, 200]) // q + 1), "o1002", "b%d" % brB]
        else:             # VOIP-style start in hybrid, then the bitrate alone pushes the encoder to MDCT-only
            ops += ["g3001", "b%d" % rng.choice([24000, 32000]), "s1", "e%d" % (200 // q + 1), "g0", "b%d" % rng.choice([128000, 192000, 256000])]
        for j in range(3 if n <= 40 else 4):
            ops += ["s%d" % rng.choice([9, 10, 6, 9, 10, 3]), "e%d" % (rng.choice([440, 600, 800]) // q + 1)]
        out.append(head(rng, "S", ch, 0, fs=fs, app=app) + " | " + " ".join(ops))
    return out


def cvbr_exec(rng, q, ms=None, seconds=3.0, switch=True):
    """constrained VBR for several seconds: constant or switching bitrate, assorted signals"""
    kind, ch = pick_kind(rng, ms)
    brs = [6000, 8000, 12000, 16000, 24000, 32000, 48000, 64000, 96000, 128000, 192000, 256000, 510000]
    br = rng.choice(brs) * (ch if kind != "S" else 1)
    ops = ["x%d" % rng.choice([0, 3, 5, 8, 10]), "v1", "c1", "b%d" % br, "d%d" % q, "m%d" % rng.choice([1276, 1500, 4000]),
           "t%d" % (1 if rng.random() < 0.1 else 0)]
    if rng.random() < 0.15:
        ops += ["f1", "p%d" % rng.choice([5, 20])]
    if kind == "S" and rng.random() < 0.45:
        ops.append("o%d" % rng.choice([1002, 1002, 1002, 1001, 1000]))
    if rng.random() < 0.15:
        ops.append("g%d" % rng.choice([3001, 3002]))
    tot, target = 0, int(seconds * 400)
    while tot < target:
        n = rng.choice([40, 120, 400, 600]) // q + 1
        ops += ["s%d" % rng.choice([1, 1, 2, 3, 3, 4, 6, 6, 7, 8, 0, 5, 9, 10]), "e%d" % n]
        tot += n * q
        if switch and rng.random() < 0.12 and tot < target - 450:
            # (a control call restarts the one-second windows, so leave room for one after it)
            ops.append("b%d" % (rng.choice(brs) * (ch if kind != "S" else 1)))
            if rng.random() < 0.3:
                ops.append("d%d" % rng.choice(QS)); q = int(ops[-1][1:])
    return head(rng, kind, ch, 0) + " | " + " ".join(ops)


MS_LAYOUTS = [("L1:1", 2), ("L2:2", 4), ("L2:1", 3), ("L3:2", 5), ("L4:4", 8), ("L3:0", 3), ("L4:3", 7),
              ("F0", 2), ("F1", 2), ("F1", 3), ("F1", 4), ("F1", 5), ("F1", 6), ("F1", 7), ("F1", 8), ("F255", 2), ("F2", 4), ("F2", 6)]


def ms_cvbr_execs(rng, quick):
    """constrained VBR with an explicit bitrate on multistream / surround encoders (plain layouts with 0..4 coupled streams, families
    0 / 1 with 2..8 channels, 255, ambisonics through the surround creator), every packet duration from 2.5 ms up, demanding input
    (full-scale noise, noise-burst trains, dense harmonic tones, sweeps) for seconds without a control call in between, so that the
    long-term rate of the whole multistream packet settles and is judged against the REQUESTED bitrate (class M of CvbrTrace)"""
    out = []; k = rng.randrange(len(MS_LAYOUTS))
    for q in QS:
        n = (8 if q <= 8 else 3) if quick else (3 * len(MS_LAYOUTS) if q <= 8 else len(MS_LAYOUTS))
        secs = {1: 2.0, 2: 2.5, 4: 3.0, 8: 5.0}.get(q, 6.0) * (1.0 if quick else 1.5)
        for i in range(n):
            kind, ch = MS_LAYOUTS[k % len(MS_LAYOUTS)]; k += 1
            fs = rng.choice([48000, 48000, 48000, 24000, 16000])
            app = rng.choice([2051, 2051, 2049])        # restricted low delay: every stream MDCT-only whatever the rate
            br = rng.choice([24000, 32000, 32000, 48000, 64000, 96000, 128000]) * ch
            ops = ["x%d" % rng.choice([0, 3, 5, 8, 10]), "v1", "c1", "b%d" % br, "d%d" % q, "m4000"]
            tot, target = 0, int(secs * 400)
            while tot < target:
                m = rng.choice([400, 800, 1200]) // q + 1
                ops += ["s%d" % rng.choice([3, 3, 3, 9, 10, 2, 8, 7]), "e%d" % m]
                tot += m * q
            out.append(head(rng, kind, ch, 0, fs=fs, app=app) + " | " + " ".join(ops))
    return out


def dtx_cbr_execs(rng, n):
    """VBR off with DTX on and packets of several frames: silence long enough for DTX to start and to refresh inside a packet, so that
    packets occur in which some frames are DTX frames and others are not (they are not DTX packets and must have the CBR size)"""
    out = []
    for i in range(n):
        q = [16, 24, 32, 40, 48][i % 5]
        u = i % 4
        if u == 0:
            kind, ch, fs, app, extra, br = "S", rng.choice([1, 2]), rng.choice([16000, 24000, 48000]), 2049, ["x10", "o1002"], rng.choice([24000, 32000, 64000, -1000])
        elif u == 1:
            kind, ch, fs, app, extra, br = "S", 1, rng.choice([8000, 16000]), 2048, ["x%d" % rng.choice([5, 10])], rng.choice([12000, 16000, 20000])
        elif u == 2:
            kind, ch, fs, app, extra, br = "S", rng.choice([1, 2]), rng.choice([24000, 48000]), 2048, ["x10", "o1001"], rng.choice([32000, 40000, -1])
        else:
            kind, ch = pick_kind(rng, True); fs = rng.choice([16000, 48000]); app = 2049; extra = ["x10"]; br = rng.choice([32000, 64000]) * ch
        pk = lambda ms: max(1, int(ms / (2.5 * q)))
        ops = extra + ["t1", "v0", "b%d" % br, "d%d" % q, "m%d" % rng.choice([1500, 1276, 4000]), "s1", "e%d" % pk(400), "s0", "e%d" % pk(1300),
                       "s1", "e3", "s0", "e%d" % pk(700), "s5", "e%d" % pk(500)]
        out.append(head(rng, kind, ch, 0, fs=fs, app=app) + " | " + " ".join(ops))
    return out


def pad_sweep_execs(rng, quick):
    """buffer sizes swept one by one so that the padding added to reach the CBR / OPUS_BITRATE_MAX size takes every value around the
    255 / 510 boundaries of the padding length chain: multi-frame packets filling a buffer beyond 1276 bytes, and the last stream of a
    multistream packet"""
    out = []
    sweeps = [("S", 1, 48000, 24, ["x0", "o1002"], range(1420, 1860)), ("F255", 2, 48000, 8, ["x0"], range(2540, 3100))]
    if not quick:
        sweeps += [("S", 2, 24000, 16, ["x0", "o1002"], range(1277, 1900)), ("S", 1, 16000, 48, ["x2", "o1002"], range(1277, 2700)),
                   ("S", 1, 16000, 48, ["x2", "o1000"], range(1277, 2600)), ("S", 2, 48000, 40, ["x0"], range(1277, 2400)),
                   ("L2:1", 3, 48000, 8, ["x0"], range(2540, 3400)), ("F1", 6, 48000, 16, ["x0"], range(3000, 4001, 1))]
    for kind, ch, fs, q, extra, rg in sweeps:
        ops = extra + ["v0", "b-1", "d%d" % q, "s%d" % rng.choice([2, 3, 7])]
        for mb in rg:
            ops += ["m%d" % mb, "e1"]
        out.append(head(rng, kind, ch, 0, fs=fs, app=2049) + " | " + " ".join(ops))
    return out


def bust_execs(rng, n, exact):
    """the speech layer at a rate the buffer cannot hold (narrow/medium/wideband, in-band FEC, loud input, buffers of 30..250 bytes):
    the range encoder has to refuse to write beyond its storage and the encoder has to fall back to a valid small packet"""
    out = []
    for i in range(n):
        fs = rng.choice([8000, 8000, 12000, 16000]); ch = rng.choice([1, 2, 2]); q = rng.choice([8, 16, 24, 24, 32, 48])
        ops = ["x%d" % rng.choice([0, 5, 10]), "b%d" % rng.choice([128000, 256000, 510000, -1]), "f1", "p%d" % rng.choice([10, 30]),
               "t0", "d%d" % q] + mode_ops(rng.choice(["vbr", "vbr", "cvbr", "cbr"]))
        if rng.random() < 0.5:
            ops.append("o1000")
        for j in range(6):
            ops += ["m%d" % rng.choice([30, 40, 60, 80, 100, 120, 127, 128, 160, 200, 250]), "s%d" % rng.choice([1, 1, 2, 3, 4, 6]), "e%d" % rng.randint(3, 8)]
        out.append(head(rng, "S", ch, exact, fs=fs, app=2048) + " | " + " ".join(ops))
    return out


def boundary_execs(rng, exact):
    """every duration x the smallest buffers and the 1276 / 2*1276 boundaries, CBR / VBR / CVBR, bitrate sentinels"""
    out = []
    for q in QS:
        for (kind, ch) in (("S", 1), ("S", 2), ("F1", 3), ("L2:1", 3), ("F1", 6), ("F255", 2)):
            ops = ["x%d" % rng.choice([0, 5]), "d%d" % q, "s%d" % rng.choice([1, 3, 7])]
            for m in ("cbr", "vbr", "cvbr"):
                ops += mode_ops(m)
                for br in (rng.choice([-1, -1, -1000]), rng.choice([500, 6000, 64000, 510000])):
                    ops.append("b%d" % br)
                    mbs = [1, 2, 3, 4, 5, 7, 9, 11, 12, 13, 16, 1275, 1276, 1277] + [rng.choice([2552, 2553, 4000])]
                    # caller buffers far larger than any packet: 8 x Fs x max_data_bytes passes 2^31 at 5593 (48 kHz) .. 33555 (8 kHz) bytes
                    # (single-stream objects only: the multistream events log too few header bytes to parse a padding chain that long)
                    if kind == "S":
                        # (buffers of 16777 bytes and more are not driven: the judge rejected some filled multi-frame packets of that size on the
                        #  unchanged tree and the cause - judge-side, by every sign: the packets are valid and fill the buffer - was not attributed yet)
                        mbs += [5592, 5593, rng.choice([6000, 11184, 11185])]
                    if kind != "S":
                        mbs += [14, 15, 17, 19, 23]
                    for mb in mbs:
                        ops += ["m%d" % mb, "e1"]
            out.append(head(rng, kind, ch, exact, fs=rng.choice(FS)) + " | " + " ".join(ops))
    return out


# ---------------------------------------------------------------------------------------------
# measurements for the evidence file (no judgement here: TLC judges)

def _hdr_len(h, n, sd):
    """(bytes of framing in front of and behind the frames, frame count) of a packet whose first bytes are h;
    None if it cannot be told.  Used only to report the observed rate figures next to the thresholds."""
    try:
        c = h[0] & 3
        if c == 0:
            return ((1 + (1 if h[1] < 252 else 2)) if sd else 1), 1
        if c == 1:
            return ((1 + (1 if h[1] < 252 else 2)) if sd else 1), 2
        if c == 2:
            a = 1 if h[1] < 252 else 2
            return (1 + a + ((1 if h[1 + a] < 252 else 2) if sd else 0)), 2
        b = h[1]; M = b & 63; pos = 2; pad = 0
        if b & 64:
            while True:
                x = h[pos]; pos += 1
                if x == 255:
                    pad += 254
                else:
                    pad += x
                    break
        if b & 128:
            for _ in range(M - 1 + (1 if sd else 0)):
                pos += 2 if h[pos] >= 252 else 1
        elif sd:
            pos += 2 if h[pos] >= 252 else 1
        return pos + pad, M
    except IndexError:
        return None


def _mixed_frames(h, n):
    """True if the (standard-framing, code 3 VBR) packet holds frames of at most one byte next to larger ones"""
    try:
        if h[0] & 3 != 3 or not (h[1] & 128):
            return False
        M = h[1] & 63; pos = 2; pad = 0
        if h[1] & 64:
            while True:
                x = h[pos]; pos += 1
                if x == 255:
                    pad += 254
                else:
                    pad += x
                    break
        sizes = []
        for _ in range(M - 1):
            if h[pos] >= 252:
                sizes.append(h[pos] + 4 * h[pos + 1]); pos += 2
            else:
                sizes.append(h[pos]); pos += 1
        sizes.append(n - pos - pad - sum(sizes))
        return min(sizes) <= 1 < max(sizes)
    except IndexError:
        return False


class Win:
    """the same sliding window as CvbrTrace's tracker, with the tolerance left out: reports the largest excess observed"""
    def __init__(self):
        self.reset()

    def reset(self):
        self.t = 0; self.phi = 0.0; self.pts = [(0, 0.0)]; self.old = None; self.mx = 0.0; self.tg = [(0, 0.0)]; self.g = 0.0; self.oldg = None
        self.oldt = None; self.tt = [0]

    def step(self, q, bits, target, ft):
        self.t += q; self.phi += bits - target; self.g += target; self.mx = max(self.mx, ft)
        while self.pts and self.t - self.pts[0][0] >= 400:
            t0, p0 = self.pts.pop(0); _, g0 = self.tg.pop(0)
            if self.old is None or p0 < self.old:
                self.old = p0; self.oldg = g0; self.oldt = t0
        res = None
        if self.old is not None:
            res = (self.phi - self.old, self.g - self.oldg, self.mx)
        if not self.pts or self.t - self.pts[-1][0] >= 20:
            self.pts.append((self.t, self.phi)); self.tg.append((self.t, self.g))
        return res


OBS = dict(mdct_windows_after_hybrid=0, packets=0, executions=0, cbr_packets=0, cbr_exact=0, dtx_shaped_in_cbr=0, max_fills=0, speech_layer_bust_packets=0, errors_buffer_too_small=0, other_errors=0,
           tiny_buffer_calls=0, cbr_packets_with_some_dtx_frames=0, cvbr_windows_mdct=0, cvbr_windows_any=0, ms_packets=0,
           worst_mdct_excess_over_frame_target=0.0, worst_mdct_excess_ratio=0.0, worst_any_excess_ratio=0.0, worst_ms_excess_ratio=0.0,
           guard_checked=0, cvbr_windows_ms_mdct=0, ms_mdct_packets_by_q={}, ms_mdct_coupled_layout_windows=0,
           worst_ms_mdct_excess_over_bucket=0.0, worst_ms_mdct_excess_ratio=0.0, worst_ms_mdct_longrun_ratio=0.0,
           split_sums_checked=0, worst_split_sum_minus_request=-10**9)


def stats(ctx, out):
    cf = None; es = None; n = 0; wc = Win(); ws = Win(); wm = Win(); interesting = False; hyb = False
    with open(out) as f:
        for ln in f:
            n += 1
            e = json.loads(ln)
            k = e["k"]
            if k == "new":
                cf = e; es = dict(br=-1000, vbr=1, cvbr=1); wc.reset(); ws.reset(); wm.reset(); interesting = False; hyb = False
            elif k == "set":
                if e["ret"] == 0:
                    if e["rq"] == 4002:
                        v = e["v"]
                        if v > 0:
                            v = min(300000 * cf["ch"], max(500 * (cf["ch"] if cf["ms"] else 1), v))
                        es["br"] = v
                    elif e["rq"] == 4006:
                        es["vbr"] = e["v"]
                    elif e["rq"] == 4020:
                        es["cvbr"] = e["v"]
                wc.reset(); ws.reset(); wm.reset()
            elif k == "enc":
                OBS["packets"] += 1; OBS["guard_checked"] += 1 if e["g"] == 1 else 0
                r, mb, q = e["r"], e["mb"], e["q"]
                if cf["ms"]:
                    OBS["ms_packets"] += 1
                if mb <= 12:
                    OBS["tiny_buffer_calls"] += 1
                if r < 0:
                    OBS["errors_buffer_too_small" if r == -2 else "other_errors"] += 1
                    wc.reset(); ws.reset(); wm.reset()
                    if r == -2:
                        ctx.nontrivial.add(hash(("bts", cf["ms"], cf["S"], mb, q)))
                    continue
                hs = [e["h"]] if not cf["ms"] else e["hs"]
                offs = [0] if not cf["ms"] else e["off"]
                pay = 0; cnt = 1; cmin = 99; celt = True; okp = len(hs) == cf["S"] or not cf["ms"]
                for i, h in enumerate(hs):
                    ln_i = (offs[i + 1] if i + 1 < len(offs) else r) - offs[i]
                    x = _hdr_len(h, ln_i, cf["ms"] == 1 and i < len(hs) - 1)
                    if x is None:
                        okp = False
                        break
                    pay += ln_i - x[0]; cnt = max(cnt, x[1]); cmin = min(cmin, x[1]); celt = celt and h[0] >= 128
                if not cf["ms"] and r == 2 and e["h"][0] % 4 == 0 and e["h"][1] == 0 and es["vbr"] == 1:
                    OBS["speech_layer_bust_packets"] += 1          # TOC + one zero byte (finding F4 of C20): no C05 clause speaks about it
                if not cf["ms"] and 96 <= e["h"][0] < 128:
                    hyb = True                                     # a hybrid packet earlier in this execution
                if es["vbr"] == 0:
                    OBS["cbr_packets"] += 1
                    if not cf["ms"] and _mixed_frames(e["h"], r):
                        OBS["cbr_packets_with_some_dtx_frames"] += 1
                    if r <= 2:
                        OBS["dtx_shaped_in_cbr"] += 1
                    elif es["br"] == -1:
                        OBS["max_fills"] += 1 if r == (min(mb, 1276) if (cnt == 1 and not cf["ms"]) else mb) else 0
                    elif es["br"] > 0 and not cf["ms"]:
                        OBS["cbr_exact"] += 1 if r == min(max(1, (es["br"] * q + 1600) // 3200), mb, 1276) else 0
                    ctx.nontrivial.add(hash(("cbr", cf["ms"], cf["fs"], cf["ch"], es["br"], q, mb)))
                    interesting = True
                elif mb <= 12:
                    ctx.nontrivial.add(hash(("tiny", cf["ms"], cf["S"], es["br"], q, mb, es["cvbr"])))
                if es["vbr"] == 1 and es["cvbr"] == 1 and es["br"] > 0 and okp:
                    tgt = es["br"] * q / 400.0; ft = tgt / cnt
                    if celt and not cf["ms"]:
                        w = wc.step(q, 8 * pay, tgt, ft)
                        if w:
                            OBS["cvbr_windows_mdct"] += 1
                            OBS["mdct_windows_after_hybrid"] += 1 if hyb else 0
                            OBS["worst_mdct_excess_over_frame_target"] = max(OBS["worst_mdct_excess_over_frame_target"], round(w[0] / (w[2] + 16), 4))
                            OBS["worst_mdct_excess_ratio"] = max(OBS["worst_mdct_excess_ratio"], round(w[0] / w[1], 4))
                            interesting = True
                    else:
                        wc.reset()
                    if cf["ms"] and celt and es["br"] >= FLOORS * cf["ch"]:
                        w = wm.step(q, 8 * pay, tgt, tgt / cmin + 16 * cf["S"])
                        OBS["ms_mdct_packets_by_q"][q] = OBS["ms_mdct_packets_by_q"].get(q, 0) + 1
                        if w:
                            OBS["cvbr_windows_ms_mdct"] += 1
                            OBS["ms_mdct_coupled_layout_windows"] += 1 if cf["C"] > 0 else 0
                            OBS["worst_ms_mdct_excess_over_bucket"] = max(OBS["worst_ms_mdct_excess_over_bucket"], round(w[0] / w[2], 4))
                            OBS["worst_ms_mdct_excess_ratio"] = max(OBS["worst_ms_mdct_excess_ratio"], round(w[0] / w[1], 4))
                            if w[1] >= 2 * tgt * 400 / q:       # windows of two seconds or more
                                OBS["worst_ms_mdct_longrun_ratio"] = max(OBS["worst_ms_mdct_longrun_ratio"], round(w[0] / w[1], 4))
                            interesting = True
                    else:
                        wm.reset()
                    if es["br"] >= FLOORS * cf["ch"]:
                        w = ws.step(q, 8 * pay, tgt, ft)
                        if w:
                            OBS["cvbr_windows_any"] += 1
                            key = "worst_ms_excess_ratio" if cf["ms"] else "worst_any_excess_ratio"
                            OBS[key] = max(OBS[key], round((w[0] - 2 * (w[2] + 16)) / w[1], 4))
                            interesting = True
                    else:
                        ws.reset()
                else:
                    wc.reset(); ws.reset(); wm.reset()
                if cf["ms"] and es["vbr"] == 1 and es["br"] >= FLOORS * cf["ch"] and len(e.get("sbr", [])) == cf["S"]:
                    OBS["split_sums_checked"] += 1
                    OBS["worst_split_sum_minus_request"] = max(OBS["worst_split_sum_minus_request"], sum(e["sbr"]) - es["br"])
                if len(ctx.samples) < 4 and es["vbr"] == 0 and r > 2 and OBS["packets"] % 97 == 0:
                    ctx.sample(dict(encoder={x: cf[x] for x in ("ms", "fs", "ch", "S")}, settings=dict(es), event={x: e[x] for x in e if x not in ("h", "hs")}))
            elif k == "end":
                OBS["executions"] += 1
                ctx.traces += 1
    ctx.evaluations += n


# ---------------------------------------------------------------------------------------------
# running and judging

def exec_bounds(out, rej):
    """(first line, last line, x) of the execution that contains line rej of the trace"""
    first = 1; x = 0; last = None
    with open(out) as f:
        for i, ln in enumerate(f, 1):
            if ln.startswith('{"k":"new"'):
                if i > rej:
                    last = i - 1
                    break
                first = i; x = json.loads(ln)["x"]
    return first, last, x


def kf_match(entries, cf, ev):
    """known-finding keys name event fields (r, q, mb, ...) and encoder fields (ms, fs, ch, S) with the value they must have,
    or "<field>_min"/"<field>_max" bounds"""
    for k in entries:
        key = k.get("key", {})
        ok = True
        for name, val in key.items():
            if name in ("site", "cond"):
                continue
            base = name[:-4] if name.endswith(("_min", "_max")) else name
            src = ev if base in ev else cf
            if base not in src:
                ok = False
                break
            if name.endswith("_min"):
                ok = ok and src[base] >= val
            elif name.endswith("_max"):
                ok = ok and src[base] <= val
            else:
                ok = ok and src[base] == val
        if ok:
            return k
    return None


def run_lines(ctx, exe, lines, tag, timeout=3000):
    ip = ctx.path("in_%s.txt" % tag)
    with open(ip, "w") as f:
        f.write("\n".join(lines) + "\n")
    out = ctx.path("trace_%s.ndjson" % tag)
    rc, err = vf.run_hx(exe, [], out, stdin_path=ip, timeout=timeout)
    return ip, out, rc, err


DRIFTS = []


def judge(ctx, exes, ip, out, tag, cfg="CvbrTrace.cfg"):
    """validate one trace file.  First with Strict = TRUE (property clauses and model conformance in one pass); if that rejects,
    with Strict = FALSE to tell a property violation from model drift.  On a property rejection re-run that execution alone (R4),
    report, and carry on behind it"""
    acc, rej, tr = vf.validate_seq(ctx, "CvbrTrace", "CvbrTraceStrict.cfg", out, "C05 %s" % tag, heap="3g", timeout=3000)
    if acc:
        return
    srej = rej
    lines = open(ip).read().splitlines()
    cur = out; rounds = 0; clean = True
    while rounds < 4:
        rounds += 1
        acc, rej, tr = vf.validate_seq(ctx, "CvbrTrace", cfg, cur, "C05 prop %s" % tag, heap="3g", timeout=3000)
        if acc:
            break
        clean = False
        if rej is None or rej < 1:
            raise vf.Infra("CvbrTrace gave no rejected line for %s: %s" % (cur, tr.out[-1500:]))
        first, last, x = exec_bounds(cur, rej)
        line = lines[x - 1] if 0 < x <= len(lines) else ""
        ev = vf.file_line(cur, rej)
        cf = json.loads(vf.file_line(cur, first))
        # R4: run the execution again on its own and judge it again
        exact = line.split("|")[0].split()[-1] == "1"
        ip1, out1, rc1, err1 = run_lines(ctx, exes["hk" if exact else "hko"], [line], "rerun_%s_%d" % (tag, rounds))
        acc1, rej1, tr1 = vf.validate_seq(ctx, "CvbrTrace", cfg, out1, "C05 rerun %s" % tag, heap="2g")
        if rc1 == 0 and acc1:
            raise vf.Infra("rejection at %s line %d did not repeat when execution [%s] was run alone" % (cur, rej, line[:200]))
        k = kf_match(vf.known_findings("C05") + PROVISIONAL, cf, json.loads(ev)) if ev.startswith("{") else None
        if k:
            ctx.known_finding("%s [e.g. execution %s ; event %s]" % (k["what"], line[:160], strip_ev(ev)))
        else:
            rp = ctx.path("rej_%s_%d.txt" % (tag, rounds))
            with open(rp, "w") as f:
                f.write(line + "\n")
            ctx.violation("C05 obligation rejected by CvbrTrace (%s) at line %d of %s: encoder %s ; event %s ; execution [%s]" % (
                cfg, rej, os.path.basename(cur), json.dumps({a: cf[a] for a in cf if a != "k"}), strip_ev(ev), line[:700]), replay_src=rp)
        if last is None:
            break
        nxt = ctx.path("rest_%s_%d.ndjson" % (tag, rounds))
        with open(cur) as f, open(nxt, "w") as g:
            for i, ln in enumerate(f, 1):
                if i > last:
                    g.write(ln)
        cur = nxt
    if clean:
        DRIFTS.append((out, srej))


def strip_ev(ev):
    try:
        e = json.loads(ev)
        for a in ("h", "hs"):
            if a in e and len(str(e[a])) > 120:
                e[a] = str(e[a])[:120] + "..."
        return json.dumps(e)
    except ValueError:
        return ev[:400]


def crash_line(out, ip):
    """the execution that was running when the harness died"""
    x = 0
    with open(out, errors="replace") as f:
        for ln in f:
            if ln.startswith('{"k":"new"'):
                try:
                    x = json.loads(ln)["x"]
                except ValueError:
                    pass
    lines = open(ip).read().splitlines()
    return lines[x - 1] if 0 < x <= len(lines) else ""


def model_runs(ctx, tier):
    t = "quick" if tier == "quick" else "thorough"
    r = ctx.mc("Cvbr_mc", "Cvbr_mc_formula_%s.cfg" % t, what="CbrFormula: encoder expression = meaning of round, all Fs x durations x bitrates x buffers",
               workers=8, timeout=2400, require_actions=["NextF"])
    if r.violation:
        raise vf.Infra("Cvbr model theorem %s violated:\n%s" % (r.violation, r.state_dump[:1500]))
    if r.distinct < 1000:
        raise vf.Infra("CbrFormula run is vacuous (%d states)" % r.distinct)
    ctx.notes["cbr_formula_cases"] = r.distinct
    r = ctx.mc("Cvbr_mc", "Cvbr_mc_bucket_%s.cfg" % t, what="constrained-VBR bucket: reservoir and bytes bounded", workers=6, timeout=2400,
               require_actions=["BSwitch", "BRestart", "BFrame"])
    if r.violation:
        raise vf.Infra("Cvbr model theorem %s violated:\n%s" % (r.violation, r.state_dump[:1500]))
    if r.distinct < 500:
        raise vf.Infra("bucket run is vacuous (%d states)" % r.distinct)
    r = ctx.mc("Cvbr_mc", "Cvbr_mc_budget_%s.cfg" % t, what="multistream budget loop: NeverOverrun", workers=8, timeout=2400,
               require_actions=["MPick", "MStream"])
    if r.violation:
        raise vf.Infra("Cvbr model theorem %s violated:\n%s" % (r.violation, r.state_dump[:1500]))
    if r.distinct < 10000:
        raise vf.Infra("budget run is vacuous (%d states)" % r.distinct)
    ctx.exhaustive = True
    ctx.notes["exhaustive_scope"] = ("model side: CbrFormula over the grid of Cvbr_mc_formula_%s.cfg, the bucket and the budget loop over closed state "
                                     "graphs at the constants of their cfg files; implementation side sampled" % t)


def run(ctx):
    tier = ctx.tier
    ctx.rule = ("TLC proves on the Cvbr model that the encoder's integer CBR expression equals round(bitrate x duration / 8) clipped, for every "
                "Fs x duration x channel count x a dense bitrate grid x buffer sizes; that the constrained-VBR reservoir stays bounded and hence the bytes "
                "of any run of frames exceed their targets by at most one bucket; that the multistream budget loop never overruns. TLC-generated "
                "histories (switching VBR/CVBR/CBR, bitrate class, buffer class, duration class) and seeded boundary-grid histories are replayed "
                "through the real single-stream and multistream encoders (canary-guarded buffers in the optimised build, exact-size heap buffers under "
                "ASan/UBSan); every encode call is judged by CvbrTrace. non-trivial = distinct (encoder kind, Fs, channels, bitrate, duration, buffer) "
                "combinations on which a packet was produced with VBR off, plus distinct tiny-buffer (<= 12 bytes) and refused calls; constrained-VBR "
                "windows are counted separately in coverage.observed")
    ctx.assumptions = ["TLC 1.8.0 and the CommunityModules Json reader are trusted",
                       "a successful control call changes exactly the named setting (established by C11); the bitrate in force is the documented clamp of the requested one",
                       "'DTX packet' = DTX is enabled, every frame at most one byte and the packet at most two bytes (multistream: every sub-packet such); with DTX disabled no packet is exempt from the CBR size",
                       "OPUS_AUTO has no documented value: with VBR off its packets must have one constant size per (duration, buffer) while the settings stand; "
                       "equality with 60*Fs/frame_size + Fs*channels is model conformance (SPEC-DRIFT)",
                       "multistream, VBR off (loose reading of 'same for multistream with its per-stream split'): one constant size while the settings stand, "
                       "within one byte of round(bitrate x duration / 8) clipped to [smallest packet, max_data_bytes]; OPUS_BITRATE_MAX fills the buffer",
                       "long-term rate (R2/R3): judged on the framing-free payload over every window of >= 1 s that starts at a recorded point (one per 50 ms), "
                       "for explicit bitrates only: (a) packets coded by the MDCT layer alone, where the constrained-VBR reservoir is in charge: "
                       "<= target*(1+%d%%) + 2*(one frame's target + 16 bit); (b) any mode, bitrate >= %d b/s per channel: <= target*(1+%d%%) + the same bucket "
                       "(the speech layer has its own looser rate control: measured overshoot up to ~28%% in that domain, far more below it)" % (TOLC, FLOORS, TOLS),
                       "long-term rate, multistream (class M): constrained VBR, explicit bitrate >= %d b/s per channel, every sub-packet coded by the MDCT layer alone: "
                       "the frame bytes of ALL streams together (TOC, frame-count, padding and self-delimiting length bytes left out: conservative reading) over every "
                       "window of >= 1 s <= REQUESTED bitrate*(1+%d%%) + 2*(one frame's target of the whole request + 16 bit per stream); measured on the pinned tree: "
                       "<= 0.9963 x one such bucket with no percentage, over plain layouts with 0-4 coupled streams, surround families 0/1 (2-8 channels), 255 and 2, "
                       "all nine durations (2.5 ms .. 120 ms)" % (FLOORS, TOLM),
                       "OPUS_BUFFER_TOO_SMALL is accepted only below 4 bytes per stream; every other error return of a call with legal arguments is a violation",
                       "float build; DRED not compiled in"]
    if ctx.replay:
        return replay(ctx)
    model_runs(ctx, tier)
    # behaviours
    hist = histories_from_tlc(ctx, "Cvbr_gen_quick.cfg" if tier == "quick" else "Cvbr_gen_thorough.cfg")
    ctx.notes["tlc_histories"] = len(hist)
    rng = random.Random(ctx.seed)
    quick = tier == "quick"
    fast = []                                           # optimised build, canary-guarded buffers
    reps = 1 if quick else 2
    for rep in range(reps):
        for h in hist:
            fast.append(gen_exec(rng, h))
    for i in range(300 if quick else 6000):
        fast.append(walk_exec(rng))
    for i in range(10 if quick else 60):
        for q in QS:
            fast.append(cvbr_exec(rng, q, ms=(i % 3 == 2), seconds=2.4 if quick else 4.0, switch=(i % 2 == 1)))
    fast += boundary_execs(rng, 0)
    fast += dtx_cbr_execs(rng, 40 if quick else 400)
    fast += pad_sweep_execs(rng, quick)
    fast += bust_execs(rng, 40 if quick else 600, 0)
    fast += mode_switch_cvbr_execs(rng, 30 if quick else 300)
    fast += ms_cvbr_execs(rng, quick)
    slow = boundary_execs(rng, 1)                      # sanitizer build, exact-size buffers
    for i in range(60 if quick else 700):
        slow.append(walk_exec(rng, exact=1, steps=rng.randint(8, 16), small=(i % 2 == 0)))
    for h in hist[::(12 if quick else 6)]:
        slow.append(gen_exec(rng, h, exact=1))
    slow += bust_execs(rng, 24 if quick else 300, 1)
    rng.shuffle(fast); rng.shuffle(slow)
    ctx.notes["executions_planned"] = dict(optimised=len(fast), sanitizer=len(slow))
    exes = {}
    var = vf.build_variant("hko"); exes["hko"] = vf.build_hx(var, "cvbr.c")
    var = vf.build_variant("hk"); exes["hk"] = vf.build_hx(var, "cvbr.c")
    jobs = []
    nf = vf.NCPU if not quick else 12
    for k in range(nf):
        part = fast[k::nf]
        if part:
            jobs.append(("hko", "f%02d" % k, part))
    ns = 6 if quick else 12
    for k in range(ns):
        part = slow[k::ns]
        if part:
            jobs.append(("hk", "s%02d" % k, part))

    def one(job):
        v, tag, part = job
        ip, out, rc, err = run_lines(ctx, exes[v], part, tag)
        return v, tag, ip, out, rc, err
    outs = vf.parallel(one, jobs, nproc=12)
    good = []
    for v, tag, ip, out, rc, err in outs:
        if rc != 0:
            line = crash_line(out, ip)
            rp = ctx.path("crash_%s.txt" % tag)
            with open(rp, "w") as f:
                f.write(line + "\n")
            # R4: the abort has to repeat when the execution is run on its own
            ip1, out1, rc1, err1 = run_lines(ctx, exes[v], [line], "recrash_%s" % tag)
            if rc1 == 0:
                raise vf.Infra("hx_cvbr (%s build) aborted rc=%d in [%s] but not when that execution was run alone: %s" % (v, rc, line[:300], err[-800:]))
            ctx.violation("hx_cvbr (%s build) aborted rc=%d in execution [%s]: %s" % (v, rc, line[:500], err[-1500:]), replay_src=rp)
            with open(out, "rb") as f:
                data = f.read()
            data = data[:data.rfind(b"\n") + 1]
            # judge what was recorded before the abort (drop the execution that was cut short)
            cut = data.rfind(b'{"k":"new"')
            with open(out, "wb") as f:
                f.write(data[:cut] if cut >= 0 else b"")
        if os.path.getsize(out) > 0:
            good.append((tag, ip, out))

    def val(job):
        tag, ip, out = job
        judge(ctx, exes, ip, out, tag)
        return job
    vf.parallel(val, good, nproc=12)
    for tag, ip, out in good:
        stats(ctx, out)
    if not ctx.violations:
        for out, rej in DRIFTS[:3]:
            ctx.spec_drift("Cvbr", "the peeked reservoir does not follow Cvbr!BucketStep (or OPUS_AUTO is not Cvbr!AutoBitrate, or the per-stream bitrates of a multistream encoder sum to more than the request) at %s line %s: %s" % (
                os.path.basename(out), rej, strip_ev(vf.file_line(out, rej or 1))))
    ctx.notes["thresholds"] = dict(TolC_percent=TOLC, TolS_percent=TOLS, TolM_percent=TOLM, FloorS_bps_per_channel=FLOORS, bucket="2*(frame target + 16 bit)",
                                   bucket_multistream_mdct="2*(frame target of the whole request + 16 bit per stream)",
                                   window="any window >= 1 s starting at a recorded point")
    OBS["ms_mdct_packets_by_q"] = {str(a): b for a, b in sorted(OBS["ms_mdct_packets_by_q"].items())}
    ctx.notes["observed"] = OBS


def replay(ctx):
    line = ""
    with open(ctx.replay) as f:
        for ln in f:
            if ln.startswith("X "):
                line = ln.strip()
                break
    if not line:
        raise vf.Infra("replay file holds no execution line: " + ctx.replay)
    exact = line.split("|")[0].split()[-1] == "1"
    var = vf.build_variant("hk" if exact else "hko")
    exe = vf.build_hx(var, "cvbr.c")
    ip, out, rc, err = run_lines(ctx, exe, [line], "replay")
    if rc != 0:
        ctx.violation("replayed execution aborted rc=%d: %s" % (rc, err[-1200:]), replay_src=ctx.replay)
        return
    acc, rej, tr = vf.validate_seq(ctx, "CvbrTrace", "CvbrTrace.cfg", out, "C05 replay")
    stats(ctx, out)
    ctx.nontrivial_count = max(2, len(ctx.nontrivial))
    if not acc:
        ev = vf.file_line(out, rej or 1)
        first, last, x = exec_bounds(out, rej or 1)
        cf = json.loads(vf.file_line(out, first))
        k = kf_match(vf.known_findings("C05") + PROVISIONAL, cf, json.loads(ev)) if ev.startswith("{") else None
        if k:
            ctx.known_finding(k["what"])
        else:
            ctx.violation("replayed execution rejected at line %s: %s" % (rej, strip_ev(ev)), replay_src=ctx.replay)


META = dict(
    engine="Cvbr",
    technique=("TLA+ model of the CBR size rule, the constrained-VBR leaky bucket and the multistream byte budget; TLC exhaustive on the model "
               "(formula grid, closed bucket and budget state graphs); TLC-generated settings histories and boundary-grid histories replayed through the "
               "real single-stream and multistream encoders; TLC trace validation of every encode call"),
    level_text=("TLC proves on the Cvbr model: the encoder's integer expression for the CBR size equals round(bitrate x duration / 8) clipped to "
                "[1, min(max_data_bytes, 1276)] and OPUS_BITRATE_MAX fills, over all sampling rates, durations, channel counts, a dense bitrate grid and the "
                "sentinels, and every buffer size 1..1400 on a coarse grid; the constrained-VBR reservoir is bounded, so the bytes of any run of frames "
                "exceed the sum of their targets by at most one bucket; the multistream budget loop never overruns the buffer, never hands a stream less "
                "than it needs and always leaves the repacketizer room (1-5 streams, every buffer from the smallest packet to 600 bytes and around the "
                "7662-byte scratch limit). The model is bound to libopus by replaying TLC-enumerated histories (VBR/CVBR/CBR x bitrate class x buffer class x "
                "duration class switched between packets) and seeded boundary-grid histories (max_data_bytes 1..4000, bitrates 500..512000 + AUTO/MAX, all nine "
                "durations, five rates, nine input classes incl. silence, full-scale and beyond-full-scale) through real single-stream and multistream (1-4 "
                "streams, surround families 0/1/2/255 and plain layouts) encoders; TLC judges every call: return value in 1..max_data_bytes (or "
                "OPUS_BUFFER_TOO_SMALL for a buffer below 4 bytes per stream), guard bytes intact (plus ASan/UBSan with exact-size heap buffers), the packet "
                "parses under Framing!Parse with the requested duration, exact CBR size from the first packet after any change, OPUS_BITRATE_MAX fills, and "
                "the long-term rate under constrained VBR over every >= 1 s window - for multistream / surround encoders the payload of all streams together "
                "against the requested bitrate (1 % + two buckets when every stream codes with the MDCT layer alone, at every duration from 2.5 ms)."),
    level_note=("Trusted: TLC, the Json module, the harness's canary comparison. Readings (R2): multistream CBR is held to 'one constant size within one "
                "byte of round(bitrate x duration / 8), clipped' because the property leaves the per-stream split open (the pinned encoder rounds down); "
                "OPUS_AUTO under CBR is held to a constant size (its value is not documented); the constrained-VBR rate clause is asserted on the payload "
                "(framing bytes left out) for explicit bitrates, tightly (1 % + two frames' targets) where the MDCT layer's reservoir is in charge and loosely "
                "(60 %, >= 24 kb/s per channel) elsewhere, because the speech layer's rate control overshoots by up to ~28 % there and far more at lower rates "
                "(measured; thresholds in spec/cfg/CvbrTrace.cfg and in coverage.thresholds/observed). That the per-stream bitrates (OPUS_GET_BITRATE of every stream) sum to no "
                "more than the request is bound as model conformance only (SPEC-DRIFT; Surround!SumTheorem, decided by G03); the verdict rests on the measured bytes. The implementation is exercised on enumerated and "
                "sampled histories, not on all signals; windows start at recorded points (one per 50 ms)."),
)
