"""C06 - packet parser accepts exactly RFC 6716 framing (module Framing)."""
import json, os
import vf

LEVEL = "model_checking"


def nontrivial_scan(ctx, path):
    """distinct parse cases that get past the TOC: accepted with >= 2 frames or code 3, or rejected
    with at least two header bytes present"""
    seen = ctx.nontrivial
    n = 0
    with open(path) as f:
        for ln in f:
            n += 1
            if '"k":"parse"' not in ln:
                continue
            i = ln.find('"n":')
            j = ln.find(',"r":')
            key = ln[:ln.find(',"r":', j) + 12] if j > 0 else ln
            try:
                nn = int(ln[i + 4:ln.find(',', i + 4)])
            except ValueError:
                continue
            if nn >= 2:
                seen.add(hash(key))
    return n


def run(ctx):
    tier = ctx.tier
    ctx.rule = ("TLC evaluates the Framing theorems over the header grid of Framing_mc (every case is a state); "
                "hx_framing drives opus_packet_parse_impl/opus_packet_parse and the header helpers over a sampled header grid, "
                "structured exact-fit+-delta packets and fuzzed byte strings, both framings; every recorded case is judged by "
                "FramingTrace!CaseOK (ret, toc, sizes, frame offsets, payload offset, packet offset, padding). "
                "non-trivial = distinct recorded parse cases with at least two packet bytes")
    ctx.assumptions = ["TLC 1.8.0 and the CommunityModules Json reader are trusted",
                       "the harness logs the first 112+len/254 bytes of each packet (trailing zeros trimmed); the framing header of a <=64 KiB packet cannot be longer",
                       "memory safety of the parser is observed (ASan/UBSan, exact-size input copies) on the recorded cases only"]
    if ctx.replay:
        return replay(ctx)
    # 1. design theorems on the model
    cfg = "Framing_mc_quick.cfg" if tier == "quick" else "Framing_mc_thorough.cfg"
    r = ctx.mc("Framing_mc", cfg, what="Framing theorems over header grid", deadlock=True,
               timeout=3000 if tier == "thorough" else 900, heap="12g")
    if r.violation:
        # a theorem of the RFC model failing is a defect of the model, not of the code
        raise vf.Infra("Framing model theorem %s violated:\n%s" % (r.violation, r.state_dump[:1500]))
    ctx.exhaustive = True
    ctx.notes["exhaustive_scope"] = "the header grid of " + cfg + " (model side); implementation side is sampled"
    # 2. bind to the implementation
    var = vf.build_variant("hk")
    exe = vf.build_hx(var, "framing.c")
    s = ctx.seed
    jobs = [("helpers", [s, 0]), ("huge", [s + 5, 0])]
    if tier == "quick":
        jobs += [("grid", [s, 2000]), ("structured", [s + 1, 150000]), ("fuzz", [s + 2, 100000])]
    else:
        jobs += [("grid", [s + i, 100]) for i in range(4)]
        jobs += [("structured", [s + 10 + i, 1000000]) for i in range(4)]
        jobs += [("fuzz", [s + 20 + i, 500000]) for i in range(4)]

    def gen(job):
        i, (cmd, args) = job
        out = ctx.path("t_%s_%d.ndjson" % (cmd, i))
        rc, err = vf.run_hx(exe, [cmd] + args, out, timeout=3000)
        return cmd, out, rc, err
    outs = vf.parallel(gen, list(enumerate(jobs)))
    for cmd, out, rc, err in outs:
        if rc != 0:
            # sanitizer/assert abort while parsing: memory-safety clause of the property
            ctx.violation("hx_framing %s aborted rc=%d: %s" % (cmd, rc, err[-1500:]), replay_src=None,
                          replay_text="hx_framing %s (seed %d) aborted:\n%s" % (cmd, s, err))
    for cmd, out, rc, err in outs:
        if rc != 0:
            # drop the line the abort cut short, judge what was recorded before it
            with open(out, "rb") as f:
                data = f.read()
            data = data[:data.rfind(b"\n") + 1]
            with open(out, "wb") as f:
                f.write(data)
            if not data:
                continue
        n = nontrivial_scan(ctx, out)
        ctx.evaluations += n
        with open(out) as f:
            first = f.readline().strip()
        ctx.sample({"driver": cmd, "event": first[:400]})
        nparts = vf.NCPU if n > 200000 else max(1, n // 20000)
        rej, total = vf.validate_cases(ctx, "FramingTrace", "FramingTrace.cfg", out, "C06 " + cmd, nparts=nparts,
                                       heap="4g" if tier == "thorough" else "2g")
        ctx.traces += total - len(rej)
        for p, ln, tr in rej:
            ev = vf.file_line(p, ln)
            rp = ctx.path("rej_%s.ndjson" % os.path.basename(p))
            with open(rp, "w") as f:
                f.write(ev + "\n")
            ctx.violation("parser disagrees with RFC 6716 framing (driver %s): %s" % (cmd, ev[:600]), replay_src=rp)
        os.remove(out)


def replay(ctx):
    var = vf.build_variant("hk")
    exe = vf.build_hx(var, "framing.c")
    out = ctx.path("replay.ndjson")
    rc, err = vf.run_hx(exe, ["replay"], out, stdin_path=ctx.replay)
    if rc != 0:
        ctx.violation("replay aborted rc=%d %s" % (rc, err[-800:]))
        return
    n = vf.count_lines(out)
    ctx.evaluations += n
    rej, total = vf.validate_cases(ctx, "FramingTrace", "FramingTrace.cfg", out, "C06 replay", nparts=1)
    ctx.traces += total - len(rej)
    ctx.sample(vf.file_line(out, 1)[:400])
    ctx.nontrivial_count = max(2, n)
    ctx.states = max(ctx.states, 1); ctx.transitions = max(ctx.transitions, 1)
    for p, ln, tr in rej:
        ctx.violation("replayed case rejected: " + vf.file_line(p, ln)[:600], replay_src=ctx.replay)

META = dict(
    engine="Framing",
    technique="TLA+ declarative model of RFC 6716 framing; TLC exhaustive over a header grid; TLC trace validation of recorded parser calls",
    level_text=("TLC checks the framing theorems (frames inside the input, limits, prefix property of self-delimited framing, "
                "standard/self-delimited correspondence, helper agreement) for every case of a header grid, and judges every recorded "
                "call of the real parser and header helpers (grid sample, exact-fit structured packets, fuzz, and inputs of 64 KiB to 8 MiB whose implicit frame sizes wrap in 16 bits; both framings) against "
                "Framing!Parse: accept iff the model accepts, and every out-parameter equal."),
    level_note=("Trusted: TLC, the Json module, my reading of RFC 6716 section 3/Appendix B (no RFC text offline). The implementation is "
                "exercised on a sample of the byte-string space, not all of it; ASan/UBSan observe memory safety on those cases only."),
)
